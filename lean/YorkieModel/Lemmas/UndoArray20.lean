/-
Lemmas for C14, part 29: restoring an array element WITH CONTENT.  Undo of `delete arr[i]` where the
element is a container whose subtree is a tree of live elements: the copy comes back under a fresh
identity, the direct children are re-registered below it (`reparent`), everything prints as before.
-/
import YorkieModel.Lemmas.UndoArray18
import YorkieModel.Lemmas.UndoArray19
namespace Yorkie.Undo
open Yorkie Yorkie.Crdt

/-! ### `SetCreatedAt` on the captured entries -/

/-- what `reparent old new` does to an entry -/
def rehome (old new : Ticket) (e : Elem) : Elem :=
  if e.parent = some old then { e with parent := some new } else e

theorem reparent_eq (old new : Ticket) : reparent old new = fun p => (p.1, rehome old new p.2) := by
  funext p
  unfold reparent rehome
  split <;> rfl

theorem lookupSub_map (g : Elem → Elem) : ∀ (l : List (Ticket × Elem)) (t : Ticket),
    lookupSub (l.map (fun p => (p.1, g p.2))) t = (lookupSub l t).map g
  | [], _ => rfl
  | (k, e) :: r, t => by
    simp only [List.map_cons, lookupSub, lookupSub_map g r t]
    cases lookupSub r t with
    | some e' => rfl
    | none =>
      simp only [Option.map_none]
      by_cases hk : k = t <;> simp [hk]

theorem rehome_body (old new : Ticket) (e : Elem) : (rehome old new e).body = e.body := by
  unfold rehome; split <;> rfl

theorem rehome_removed (old new : Ticket) (e : Elem) : (rehome old new e).removed = e.removed := by
  unfold rehome; split <;> rfl

/-- a child entry of the copy list is in the list -/
theorem copyChild_mem {look : Ticket → Option Elem} {rec : Ticket → Body → Body × List (Ticket × Elem)}
    {self c : Ticket} {ce : Elem} (hl : look c = some ce) (hr : ce.removed = false) (hp : ce.parent = some self)
    (h1 : (rec c ce.body).1 = ce.body) : (c, ce) ∈ copyChild look rec self (some c) := by
  rw [copyChild_exact hl hr hp h1]; simp

/-- the tree below `x`, looked up in the captured list after `SetCreatedAt(t')`: again a tree, below `t'` -/
theorem tree_rehome {d : Doc} {x t' : Ticket} {M : List (Ticket × Elem)} (hM : (M.map (·.1)).Nodup)
    (hxM : x ∉ M.map (·.1)) :
    ∀ (f : Nat) (self : Ticket) (b : Body), TreeBelow d f self b → (self = x ∨ self ∈ M.map (·.1)) →
    (∀ y ∈ (copyBody d f self b).2, y ∈ M) →
    TreeBelow (fun c => (lookupSub M c).map (rehome x t')) f (if self = x then t' else self) b
  | 0, _, _, ht, _, _ => ht
  | f + 1, self, b, ht, hself, hsub => by
    have child : ∀ (c : Ticket) (ce : Elem), d c = some ce → ce.removed = false → ce.parent = some self →
        TreeBelow d f c ce.body → (∀ y ∈ copyChild d (copyBody d f) self (some c), y ∈ M) →
        ∃ ce', (lookupSub M c).map (rehome x t') = some ce' ∧ ce'.removed = false ∧
          ce'.parent = some (if self = x then t' else self) ∧
          TreeBelow (fun c => (lookupSub M c).map (rehome x t')) f c ce'.body := by
      intro c ce hl hr hp htc hin
      have ih1 := copyBody_tree f c ce.body htc
      have hmem : (c, ce) ∈ M := hin _ (copyChild_mem hl hr hp ih1.1)
      have hl2 : lookupSub M c = some ce := lookupSub_of_mem hM hmem
      have hcM : c ∈ M.map (·.1) := List.mem_map.2 ⟨(c, ce), hmem, rfl⟩
      have hcx : c ≠ x := fun h => hxM (h ▸ hcM)
      refine ⟨rehome x t' ce, by rw [hl2]; rfl, by rw [rehome_removed]; exact hr, ?_, ?_⟩
      · unfold rehome
        by_cases hs : self = x
        · simp [hs, hp]
        · have : ¬ ce.parent = some x := by rw [hp]; intro h; injection h with h; exact hs h
          simp [this, hs, hp]
      · rw [rehome_body]
        have := tree_rehome (t' := t') hM hxM f c ce.body htc (Or.inr hcM)
          (fun y hy => hin y (by rw [copyChild_exact hl hr hp ih1.1]; exact List.mem_cons_of_mem _ hy))
        simpa [hcx] using this
    cases b with
    | prim r => trivial
    | «opaque» r => trivial
    | counter l v => trivial
    | obj keys member =>
      intro k hk c hc
      obtain ⟨ce, hl, hr, hp, htc⟩ := ht k hk c hc
      apply child c ce hl hr hp htc
      intro y hy
      apply hsub
      simp only [copyBody, List.mem_flatMap]
      exact ⟨k, hk, by rw [hc]; exact hy⟩
    | arr nodes moved =>
      refine ⟨ht.1, fun n hn c hc => ?_⟩
      obtain ⟨ce, hl, hr, hp, htc⟩ := ht.2 n hn c hc
      apply child c ce hl hr hp htc
      intro y hy
      apply hsub
      simp only [copyBody, List.mem_flatMap]
      exact ⟨n, hn, by rw [hc]; exact hy⟩

/-! ### the restored heap -/

/-- hypotheses on the array `p` and its live element `x` (any kind) whose subtree is a tree -/
structure ArrAtC (d : Doc) (L : Int) (p x : Ticket) (pe xe : Elem) (nodes : List PosNode)
    (moved : Ticket → Option Ticket) : Prop where
  hd : d p = some pe
  hpr : pe.removed = false
  hb : pe.body = .arr nodes moved
  hx : d x = some xe
  hxr : xe.removed = false
  /-- below `x`: a tree of live elements, every identity once, neither `x` nor `p` inside -/
  tree : TreeBelow d copyFuel x xe.body
  hnd : ((copyBody d copyFuel x xe.body).2.map (·.1)).Nodup
  hxS : x ∉ (copyBody d copyFuel x xe.body).2.map (·.1)
  hpS : p ∉ x :: (copyBody d copyFuel x xe.body).2.map (·.1)
  hheld : holds nodes x = true
  huniq : ∀ a ∈ nodes, ∀ b ∈ nodes, a.elem = some x → b.elem = some x → a = b
  hpos : nodes.Pairwise (fun a b => a.pos ≠ b.pos)
  hhead : ∀ n ∈ nodes, n.pos ≠ headId
  hposL : ∀ n ∈ nodes, n.pos.lamport ≤ L

/-- the second copy, made by `Execute` from the captured and re-identified value -/
def copyR (d : Doc) (x : Ticket) (xe : Elem) (t' : Ticket) : Body × List (Ticket × Elem) :=
  copy2 ((captured d x xe).reid t')

/-- the heap after the deleted element `x` came back, with content, as `t'` -/
def restoreC (d : Doc) (p x : Ticket) (pe xe : Elem) (nodes2 : List PosNode) (moved : Ticket → Option Ticket)
    (t' : Ticket) : Doc :=
  (instantiate (kill d (some x)) p ((captured d x xe).reid t') false).set p { pe with body := .arr nodes2 moved }

section restoreFacts
variable {H : Home} {d : Doc} {L : Int} {p x : Ticket} {pe xe : Elem} {nodes : List PosNode}
  {moved : Ticket → Option Ticket}

theorem copyR_spec (a : ArrAtC d L p x pe xe nodes moved) (t' : Ticket) :
    (copyR d x xe t').1 = xe.body ∧
    ∀ c e, lookupSub (copyR d x xe t').2 c = some e → ∃ e0, d c = some e0 ∧ e = rehome x t' e0 ∧
      c ∈ (copyBody d copyFuel x xe.body).2.map (·.1) := by
  obtain ⟨hb1, hent⟩ := copyBody_tree copyFuel x xe.body a.tree
  have hlook : lookupSub ((captured d x xe).reid t').sub =
      fun c => (lookupSub (copyBody d copyFuel x xe.body).2 c).map (rehome x t') := by
    funext c
    simp only [UVal.reid, captured, reparent_eq]
    exact lookupSub_map _ _ c
  have htree := tree_rehome (t' := t') a.hnd a.hxS copyFuel x xe.body a.tree (Or.inl rfl) (fun _ h => h)
  simp only [if_true] at htree
  have hc : copyR d x xe t' = copyBody (fun c => (lookupSub (copyBody d copyFuel x xe.body).2 c).map (rehome x t'))
      copyFuel t' xe.body := by
    unfold copyR copy2
    rw [hlook]
    simp only [UVal.reid, captured, hb1]
  obtain ⟨h1, h2⟩ := copyBody_tree copyFuel t' xe.body htree
  rw [← hc] at h1 h2
  refine ⟨h1, fun c e hl => ?_⟩
  have := h2 _ (lookupSub_mem hl)
  simp only [] at this
  cases hl0 : lookupSub (copyBody d copyFuel x xe.body).2 c with
  | none => rw [hl0] at this; cases this
  | some e0 =>
    rw [hl0] at this
    simp only [Option.map_some, Option.some.injEq] at this
    have hm := lookupSub_mem hl0
    exact ⟨e0, hent _ hm, this.symm, List.mem_map.2 ⟨(c, e0), hm, rfl⟩⟩

theorem restoreC_apply (a : ArrAtC d L p x pe xe nodes moved) (nodes2 : List PosNode) (t' t : Ticket) :
    restoreC d p x pe xe nodes2 moved t' t =
      if t = p then some { pe with body := .arr nodes2 moved }
      else if t = t' then some ⟨some p, false, xe.body⟩
      else match lookupSub (copyR d x xe t').2 t with
        | some e => some e
        | none => kill d (some x) t := by
  unfold restoreC
  rw [set_apply, instantiate_apply]
  have h1 : (copy2 ((captured d x xe).reid t')).1 = xe.body := (copyR_spec a t').1
  by_cases hp : t = p
  · simp [hp]
  · simp only [hp, if_false, h1]
    rfl

end restoreFacts

/-- re-inserting the (just tombstoned) element `x` of the array `p`, with its content, under the later
    identity `t'` behind its nearest live predecessor: the operation succeeds, its reverse is
    `remove p t'`, and the result has, renamed, the visible normal forms of the heap before the deletion -/
theorem reinsertC_core {H : Home} {d : Doc} {L : Int} {p x : Ticket} {pe xe : Elem} {nodes : List PosNode}
    {moved : Ticket → Option Ticket} (w : WF H d) (bd : Bounded d L) (a : ArrAtC d L p x pe xe nodes moved)
    (tw : Ticket → Bool) {t' : Ticket} (ht' : L < t'.lamport) :
    ∃ pv nodes2, findPrev d nodes x = some pv ∧
      uexecute (kill d (some x)) tw .undoRedo (.add p pv ((captured d x xe).reid t') t') =
        .ok (restoreC d p x pe xe nodes2 moved t', some (.remove p t' t')) ∧
      holds nodes2 t' = true ∧
      (∀ c, live d c = true →
        vis (restoreC d p x pe xe nodes2 moved t') (ren1 x t' c) = (vis d c).map (ren1 x t')) := by
  have hd := a.hd; have hpr := a.hpr; have hb := a.hb; have hx := a.hx; have hxr := a.hxr
  obtain ⟨r, hr⟩ := prefixBefore_isSome x nodes [] a.hheld
  obtain ⟨pre, nu, C, hnodes, hrr, hnu, hpre⟩ := prefixBefore_split x nodes [] r hr
  simp only [List.append_nil] at hrr
  have hnumem : nu ∈ nodes := by rw [hnodes]; simp
  have hparx : H.par x = some p := w.arrMem _ _ _ _ _ _ hd hpr hb hnumem hnu
  have hpS := a.hpS
  simp only [List.mem_cons, not_or] at hpS
  have hpx : p ≠ x := hpS.1
  have hfp : findPrev d nodes x = some (prevLive d pre.reverse) := by simp [findPrev, hr, hrr]
  have hfresh' : ∀ e, d t' ≠ some e := fun e he => by have := bd.ent _ _ he; omega
  have hd1p : kill d (some x) p = some pe := by
    have : ¬ x = p := fun hx => hpx hx.symm
    simp [kill, this, hd]
  have htp : ¬ t' = p := fun hx => hfresh' pe (hx ▸ hd)
  have hspec := copyR_spec a t'
  -- entries of the restored heap away from `p` and `t'`
  have hother : ∀ nodes2 c, c ≠ p → c ≠ t' → ∃ o, restoreC d p x pe xe nodes2 moved t' c = o ∧
      (c ≠ x → o.map (·.body) = (d c).map (·.body) ∧ o.map (·.removed) = (d c).map (·.removed)) ∧
      (c = x → o = (d c).map (fun e => { e with removed := true })) := by
    intro nodes2 c h1 h2
    rw [restoreC_apply a nodes2 t' c]
    simp only [h1, h2, if_false]
    cases hl : lookupSub (copyR d x xe t').2 c with
    | some e =>
      obtain ⟨e0, he0, hee, hcS⟩ := hspec.2 c e hl
      have hcx : c ≠ x := fun h => a.hxS (h ▸ hcS)
      refine ⟨_, rfl, fun _ => ?_, fun h => absurd h hcx⟩
      simp [he0, hee, rehome_body, rehome_removed]
    | none =>
      refine ⟨_, rfl, fun hcx => ?_, fun hcx => ?_⟩
      · have : ¬ x = c := fun h => hcx h.symm
        simp [kill, this]
      · subst hcx; simp [kill]
  have hlive2 : ∀ nodes2 c, live (restoreC d p x pe xe nodes2 moved t') c =
      if c = t' then true else if c = x then false else live d c := by
    intro nodes2 c
    by_cases h1 : c = t'
    · subst h1
      unfold live; rw [restoreC_apply a nodes2 c c]; simp [htp]
    · by_cases h2 : c = p
      · subst h2
        have : ¬ c = x := hpx
        unfold live; rw [restoreC_apply a nodes2 t' c]; simp [h1, this, hd]
      · obtain ⟨o, ho, hne, heq⟩ := hother nodes2 c h2 h1
        simp only [h1, if_false]
        by_cases h3 : c = x
        · have := heq h3
          unfold live; rw [ho, this, h3, hx]; simp
        · obtain ⟨_, hrm⟩ := hne h3
          simp only [h3, if_false]
          unfold live; rw [ho]
          cases o <;> cases hdc : d c <;> simp [hdc] at hrm ⊢
          exact hrm
  -- the list after re-insertion
  have hnux : arrEntry d nu = some x := by simp [arrEntry, hnu, live_some hx, hxr]
  have hoth : ∀ n ∈ nodes, n ≠ nu → n.elem ≠ some x := fun n hn hne hx' => hne (a.huniq n hn nu hnumem hx' hnu)
  let g2 : PosNode → Option Ticket := fun n =>
    match n.elem with
    | some c => if (if c = t' then true else if c = x then false else live d c) = true then some c else none
    | none => none
  have hg2 : ∀ nodes2, arrEntry (restoreC d p x pe xe nodes2 moved t') = g2 := by
    intro nodes2; funext n
    cases hc : n.elem with
    | none => simp [arrEntry, g2, hc]
    | some c => simp [arrEntry, g2, hc, hlive2]
  obtain ⟨nodes2, hins, hfm⟩ : ∃ nodes2, insertAfter (prevLive d pre.reverse) ⟨t', some t'⟩ nodes = some nodes2 ∧
      nodes2.filterMap g2 = (nodes.filterMap (arrEntry d)).map (fun c => if c = x then t' else c) := by
    rw [hnodes]
    apply reinsert_list (L := L) hnu hnux (hnodes ▸ a.hpos) (hnodes ▸ a.hhead) (hnodes ▸ a.hposL) ht'
    · intro n hn hne
      have hn' : n ∈ nodes := hnodes ▸ hn
      refine ⟨?_, ?_⟩
      · simp only [g2, arrEntry]
        cases hc : n.elem with
        | none => rfl
        | some c =>
          have h1 : c ≠ x := fun hx' => hoth n hn' hne (hx' ▸ hc)
          have h2 : c ≠ t' := fun hx' => by have := bd.elem _ _ _ _ _ _ hd hb hn' hc; rw [hx'] at this; omega
          simp [h1, h2]
      · intro c hc hcu
        subst hcu
        exact hoth n hn' hne (arrEntry_some hc).1
    · have : ¬ x = t' := fun hx' => hfresh' xe (hx' ▸ hx)
      simp [g2, hnu, this]
    · simp [g2]
  refine ⟨prevLive d pre.reverse, nodes2, hfp, ?_, ?_, ?_⟩
  · have happ : applyAddU (kill d (some x)) p (prevLive d pre.reverse) ((captured d x xe).reid t') t' =
        .ok (restoreC d p x pe xe nodes2 moved t') := by
      unfold applyAddU
      simp only [hd1p, hb, arrAdd, hins, Option.map_some]
      have : ((captured d x xe).reid t').removed = false := by simp [UVal.reid, captured, hxr]
      rw [this]
      rfl
    have hid : ((captured d x xe).reid t').id = t' := rfl
    simp only [uexecute, hid, ne_eq, not_true_eq_false, if_false, happ]
    rfl
  · exact holds_iff.2 ⟨_, (mem_insertAfter hins).2 (Or.inl rfl), rfl⟩
  · intro c hla
    have hat' : c ≠ t' := by
      intro hx'; obtain ⟨e, he, _⟩ := live_elem hla; exact hfresh' e (hx' ▸ he)
    obtain ⟨e, hdoc, her⟩ := live_elem hla
    -- children referenced by `c` are neither `x` (unless `c` is the array) nor `t'`
    have hch : c ≠ p → ∀ y ∈ (vis d c).children, y ≠ x ∧ y ≠ t' := by
      intro hcp y hy
      rcases vis_children_ref hdoc hy with ⟨keys, m, k, mm, hbe, hmm, rfl⟩ | ⟨ns, mv, n, hbe, hn, hne⟩
      · constructor
        · intro hx'
          have := (w.objMem _ _ _ _ _ _ hdoc her hbe hmm).2.2
          rw [hx', hparx] at this; injection this with this; exact hcp this.symm
        · intro hx'
          have := bd.child _ _ _ _ _ _ hdoc hbe hmm; rw [hx'] at this; omega
      · constructor
        · intro hx'
          have := w.arrMem _ _ _ _ _ _ hdoc her hbe hn hne
          rw [hx', hparx] at this; injection this with this; exact hcp this.symm
        · intro hx'
          have := bd.elem _ _ _ _ _ _ hdoc hbe hn hne; rw [hx'] at this; omega
    have hbodyvis : c ≠ p → ∀ nodes2, visBody (restoreC d p x pe xe nodes2 moved t') e.body = vis d c := by
      intro hcp nodes2
      simp only [vis, hdoc]
      apply visBody_congr
      · intro keys m k mm hbe hmm
        rw [hlive2]
        have hy : mm.child ∈ (vis d c).children ∨ live d mm.child = false := by
          by_cases hl : live d mm.child = true
          · left
            simp only [vis, hdoc, hbe, visBody, Vis.children, List.mem_map, List.mem_filterMap]
            exact ⟨(k, mm.child), ⟨k, (w.objMem _ _ _ _ _ _ hdoc her hbe hmm).1, by simp [objEntry, hmm, hl]⟩, rfl⟩
          · right; simpa using hl
        have h2 : mm.child ≠ t' := fun hx' => by
          have := bd.child _ _ _ _ _ _ hdoc hbe hmm; rw [hx'] at this; omega
        have h1 : mm.child ≠ x := by
          intro hx'
          have := (w.objMem _ _ _ _ _ _ hdoc her hbe hmm).2.2
          rw [hx', hparx] at this; injection this with this; exact hcp this.symm
        simp [h1, h2]
      · intro ns mv n y hbe hn hne
        rw [hlive2]
        have h2 : y ≠ t' := fun hx' => by
          have := bd.elem _ _ _ _ _ _ hdoc hbe hn hne; rw [hx'] at this; omega
        have h1 : y ≠ x := by
          intro hx'
          have := w.arrMem _ _ _ _ _ _ hdoc her hbe hn hne
          rw [hx', hparx] at this; injection this with this; exact hcp this.symm
        simp [h1, h2]
    by_cases h1 : c = x
    · subst h1
      have hcp : c ≠ p := fun h => hpx h.symm
      rw [hx] at hdoc; injection hdoc with hdoc; subst hdoc
      simp only [ren1, if_true]
      have hv : vis (restoreC d p c pe xe nodes2 moved t') t' =
          visBody (restoreC d p c pe xe nodes2 moved t') xe.body := by
        unfold vis; rw [restoreC_apply a nodes2 t' t']; simp [htp]
      rw [hv, hbodyvis hcp nodes2, Vis.map_fix (fun y hy => by simp [ren1, (hch hcp y hy).1])]
    · simp only [ren1, h1, if_false]
      by_cases h2 : c = p
      · subst h2
        rw [hd] at hdoc; injection hdoc with hdoc; subst hdoc
        have hv : vis (restoreC d c x pe xe nodes2 moved t') c =
            .arr (nodes2.filterMap (arrEntry (restoreC d c x pe xe nodes2 moved t'))) := by
          unfold vis; rw [restoreC_apply a nodes2 t' c]; simp [visBody]
        rw [hv, hg2 nodes2, hfm]
        simp only [vis, hd, hb, visBody, Vis.map]
        rfl
      · obtain ⟨o, ho, hne, _⟩ := hother nodes2 c h2 hat'
        obtain ⟨hbd', _⟩ := hne h1
        rw [Vis.map_fix (fun y hy => by simp [ren1, (hch h2 y hy).1])]
        rw [← hbodyvis h2 nodes2]
        cases o with
        | none => simp [hdoc] at hbd'
        | some e' =>
          simp only [hdoc, Option.map_some, Option.some.injEq] at hbd'
          unfold vis
          rw [ho]
          simp only [hbd']

theorem capture_captured {d : Doc} {x : Ticket} {xe : Elem} (hx : d x = some xe) :
    capture d x = some (captured d x xe) := by simp [capture, hx, captured]

theorem ArrAtC.parent {H : Home} {d : Doc} {L : Int} {p x : Ticket} {pe xe : Elem} {nodes : List PosNode}
    {moved : Ticket → Option Ticket} (w : WF H d) (a : ArrAtC d L p x pe xe nodes moved) : xe.parent = some p := by
  obtain ⟨n, hn, hne⟩ := holds_iff.1 a.hheld
  exact (w.par _ _ a.hx).trans (w.arrMem _ _ _ _ _ _ a.hd a.hpr a.hb hn hne)

/-- the forward deletion of an array element of any kind -/
theorem doChange_array_delete {h : Hist} {p x : Ticket} {pe xe : Elem} {nodes : List PosNode}
    {moved : Ticket → Option Ticket} (fr : Fresh h) (a : ArrAtC h.doc h.lamport p x pe xe nodes moved) :
    ∃ pv, findPrev h.doc nodes x = some pv ∧
      doChange h [.remove p x h.next] =
        { h with doc := kill h.doc (some x), undo := push h.undo [.add p pv (captured h.doc x xe) h.next],
                 redo := [], lamport := h.lamport + 1 } := by
  obtain ⟨H, w⟩ := fr.wf
  have hafter : h.next.after x = true :=
    after_of_lamport (by have := fr.bd.ent _ _ a.hx; simp only [Hist.next]; omega)
  obtain ⟨pv, cv, hfp, hcv, he1⟩ := uexecute_remove_arr (tw := noTw) (src := .loc) (ts := h.next)
    a.hd a.hb a.hx (a.parent w) a.hheld rfl (by intro hx; cases hx) hafter
  rw [capture_captured a.hx] at hcv
  have : cv = captured h.doc x xe := (Option.some.inj hcv).symm
  subst this
  exact ⟨pv, hfp, doChange_one (by rfl) he1⟩

/-- undo of the deletion of an array element of any kind whose subtree is a tree of live elements -/
theorem undo_do_array_delete_container_lemma {h : Hist} {p x : Ticket} {pe xe : Elem} {nodes : List PosNode}
    {moved : Ticket → Option Ticket} (fr : Fresh h) (a : ArrAtC h.doc h.lamport p x pe xe nodes moved)
    (hroot : x ≠ rootId) (fuel : Nat) :
    marshal (undo (doChange h [.remove p x h.next])).doc fuel rootId = marshal h.doc fuel rootId := by
  obtain ⟨H, w⟩ := fr.wf
  obtain ⟨pv1, hfp1, hdo⟩ := doChange_array_delete fr a
  rw [hdo]
  generalize ht' : (⟨h.lamport + 1 + 1, 1, h.actor⟩ : Ticket) = t'
  have ht'l : t'.lamport = h.lamport + 2 := by rw [← ht']; simp only []; omega
  obtain ⟨pv, nodes2, hfp, he2, _, hvis⟩ := reinsertC_core w fr.bd a noTw (t' := t') (by omega)
  rw [hfp1] at hfp
  have hpv : pv1 = pv := Option.some.inj hfp
  subst hpv
  rw [undo_one_add (cv := captured h.doc x xe) (push_eq _ _) (by simp only [Hist.next]; rw [ht']; exact he2)]
  have key := marshal_rename (d1 := h.doc) (d2 := restoreC h.doc p x pe xe nodes2 moved t') (ren1 x t') rootId ?_
    fuel rootId (Or.inr rfl)
  · rw [key]; simp [ren1, hroot.symm]
  · intro c hc
    apply hvis
    rcases hc with hc | hc
    · exact hc
    · exact hc ▸ live_of_skel fr.root

/-- non-vacuity: the (already once restored) element `{"p":{}}` of the heap `hR` can be deleted and restored -/
theorem arrAtC_hR : ArrAtC Restored.hR.doc Restored.hR.lamport Restored.tA Restored.tX' Restored.eArr Restored.eX'
    [⟨Restored.tX', some Restored.tX'⟩, ⟨Restored.tX, some Restored.tX⟩] (fun _ => none) := by
  refine ⟨rfl, rfl, rfl, rfl, rfl, treeBelowB_sound _ _ _ (by decide), by decide, by decide, by decide, by decide, ?_,
    by decide, by decide, by decide⟩
  intro a ha b hb hae hbe
  simp at ha hb
  rcases ha with rfl | rfl <;> rcases hb with rfl | rfl <;>
    first | rfl | (simp [Restored.tX, Restored.tX'] at hae hbe)

end Yorkie.Undo
