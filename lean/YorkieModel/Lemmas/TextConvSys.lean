/-
Text convergence, part 11: replicas that hold the BLOCK list of Model/Text.lean.

`BReach s B`: the system state `s` of the generic model is reachable, and `B c` is the block list
client `c` obtains by running the Go calls in ITS OWN arrival order – a local edit is executed with
`vv = nil` (`execLocal`, as `Text.Edit` is called from the json layer) or with the change's vector
(`exec`), a pull executes the unseen foreign operations in log order.  The abstraction of every
block replica is the abstract replica (`breach_abs`), no call fails (`exec_enabled`,
`pull_enabled`), hence quiescent block replicas have equal abstraction and print the same string.
Core Lean only.
-/
import YorkieModel.Lemmas.TextConvExec
set_option linter.unusedSimpArgs false
namespace Yorkie.TextConv
open Yorkie Yorkie.Text Yorkie.Convergence

/-- the author's own call: version vector `nil` -/
def execLocal (o : TOp) (s : TextSt) : Except Err TextSt :=
  match o.body with
  | .edit content attrs => edit o.fr o.to content attrs o.ts none s
  | .style attrs keys => styleOp o.fr o.to attrs keys o.ts none s

def updB (B : Nat → TextSt) (c : Nat) (b : TextSt) : Nat → TextSt := fun x => if x = c then b else B x

/-- what is true of an operation at the replica that issues it: its ticket is the newest and its
    vector covers every node there -/
def LocalOK (o : TOp) (b : TextSt) : Prop :=
  (∀ n ∈ b, n.id.1.after o.ts = false) ∧ (∀ n ∈ b, 0 < n.len → knownB o.vv n.id.1 = true) ∧
    (∀ n ∈ b, existedB o.vv n.id.1 = true)

inductive BReach : Sys TState TOp → (Nat → TextSt) → Prop
  | init : BReach textSem.initSys (fun _ => Text.init)
  | edit {s : Sys TState TOp} {B : Nat → TextSt} (c : Nat) (a : TOp) (b' : TextSt) :
      BReach s B → textSem.author a = c → Pre (s.clients c).st a → textSem.Fresh s a →
      exec a (B c) = .ok b' → BReach (textSem.editSys s c a) (updB B c b')
  | editLocal {s : Sys TState TOp} {B : Nat → TextSt} (c : Nat) (a : TOp) (b' : TextSt) :
      BReach s B → textSem.author a = c → Pre (s.clients c).st a → textSem.Fresh s a →
      LocalOK a (B c) → execLocal a (B c) = .ok b' → BReach (textSem.editSys s c a) (updB B c b')
  | push {s : Sys TState TOp} {B : Nat → TextSt} (c : Nat) :
      BReach s B → BReach (Sem.pushSys s c) B
  | pull {s : Sys TState TOp} {B : Nat → TextSt} (c : Nat) (b' : TextSt) :
      BReach s B → execAll (textSem.news s c) (B c) = .ok b' →
      BReach (textSem.pullSys s c) (updB B c b')

/-- the local call has the same abstraction as the call with the change's vector -/
theorem execLocal_refines {d : TState} {o : TOp} {s : TextSt} (wf : WF s) (hd : abs s = d.cells)
    (hp : Pre d o) (hl : LocalOK o s) {b' : TextSt} (he : execLocal o s = .ok b') :
    WF b' ∧ abs b' = (tapply d o).cells := by
  obtain ⟨sr, h1, h2, h3⟩ := exec_refines wf hd hp
  obtain ⟨hfr, hto, hfresh, _⟩ := pre_facts wf.toG hd hp
  unfold exec at h1
  unfold execLocal at he
  cases hb : o.body with
  | edit content attrs =>
    rw [hb] at h1 he
    simp only at h1 he
    have hfix := hp.2.2.2.2.2.2.2.2.2.2.2.1 content attrs hb
    obtain ⟨sl, sr', e1, e2, e3⟩ := edit_local_eq_remote (attrs := attrs) (vv := o.vv) wf.toG hfr hto hfresh
      hfix hl.1 hl.2.1
    rw [e1] at he; injection he with he
    rw [e2] at h1; injection h1 with h1
    subst he; subst h1
    exact ⟨wf_edit wf hfresh hfix e1, by rw [e3, h3]⟩
  | style attrs keys =>
    rw [hb] at h1 he
    simp only at h1 he
    rw [styleOp_local wf.toG hl.2.2, h1] at he
    injection he with he; subst he
    exact ⟨h2, h3⟩

/-- **simulation**: every block replica abstracts to the abstract replica, and is well-formed -/
theorem breach_abs {s : Sys TState TOp} {B : Nat → TextSt} (h : BReach s B) :
    textSem.Reachable s ∧ ∀ c, WF (B c) ∧ abs (B c) = (s.clients c).st.cells := by
  induction h with
  | init => exact ⟨Sem.Reachable.init, fun _ => ⟨wf_init, rfl⟩⟩
  | @edit s B c a b' _ hau hp hf he ih =>
    obtain ⟨hr, hB⟩ := ih
    refine ⟨hr.step (Sem.Step.edit s c a hau hp hf), fun x => ?_⟩
    by_cases hx : x = c
    · subst hx
      obtain ⟨s', h1, h2, h3⟩ := exec_refines (hB x).1 (hB x).2 hp
      rw [he] at h1; injection h1 with h1; subst h1
      simp only [updB, if_true, Sem.editSys_clients, upd_same]
      exact ⟨h2, h3⟩
    · simp only [updB, hx, if_false, Sem.editSys_clients, upd_other _ _ hx]
      exact hB x
  | @editLocal s B c a b' _ hau hp hf hl he ih =>
    obtain ⟨hr, hB⟩ := ih
    refine ⟨hr.step (Sem.Step.edit s c a hau hp hf), fun x => ?_⟩
    by_cases hx : x = c
    · subst hx
      simp only [updB, if_true, Sem.editSys_clients, upd_same]
      exact execLocal_refines (hB x).1 (hB x).2 hp hl he
    · simp only [updB, hx, if_false, Sem.editSys_clients, upd_other _ _ hx]
      exact hB x
  | @push s B c _ ih =>
    obtain ⟨hr, hB⟩ := ih
    refine ⟨hr.step (Sem.Step.push s c), fun x => ?_⟩
    by_cases hx : x = c
    · subst hx; simpa using hB x
    · simpa [upd_other _ _ hx] using hB x
  | @pull s B c b' _ he ih =>
    obtain ⟨hr, hB⟩ := ih
    refine ⟨hr.step (Sem.Step.pull s c), fun x => ?_⟩
    by_cases hx : x = c
    · subst hx
      obtain ⟨s', h1, h2, h3⟩ := execAll_refines (hB x).1 (hB x).2 (Sem.pull_valid textLaws hr x)
      rw [he] at h1; injection h1 with h1; subst h1
      simp only [updB, if_true, Sem.pullSys_clients, upd_same]
      exact ⟨h2, h3⟩
    · simp only [updB, hx, if_false, Sem.pullSys_clients, upd_other _ _ hx]
      exact hB x

/-- an enabled local operation executes without error on the block replica -/
theorem exec_enabled {s : Sys TState TOp} {B : Nat → TextSt} (h : BReach s B) (c : Nat) {a : TOp}
    (hp : Pre (s.clients c).st a) : ∃ b', exec a (B c) = .ok b' := by
  obtain ⟨_, hB⟩ := breach_abs h
  obtain ⟨b', h1, _⟩ := exec_refines (hB c).1 (hB c).2 hp
  exact ⟨b', h1⟩

/-- no pull fails on the block replica -/
theorem pull_enabled {s : Sys TState TOp} {B : Nat → TextSt} (h : BReach s B) (c : Nat) :
    ∃ b', execAll (textSem.news s c) (B c) = .ok b' := by
  obtain ⟨hr, hB⟩ := breach_abs h
  obtain ⟨b', h1, _⟩ := execAll_refines (hB c).1 (hB c).2 (Sem.pull_valid textLaws hr c)
  exact ⟨b', h1⟩

end Yorkie.TextConv
