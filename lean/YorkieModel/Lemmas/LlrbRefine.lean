/- pkg/llrb Remove (via the generic delete theorem) and the refinement of the ordered map
to a strictly sorted association list. -/
import YorkieModel.Lemmas.Llrb
import YorkieModel.Lemmas.RBDelete3
namespace Yorkie.Llrb
open Yorkie.RB Yorkie.RB.T

/-! ### the addressing scheme: a key of a binary search tree -/

/-- `q` is the key at in-order position `i` of a search tree -/
def Tgt (t : T) (q i : Nat) : Prop := BST t ∧ (Spec.keys (toList t))[i]? = some q

theorem tgt_congr {t t' : T} {q i : Nat} (h : klist key t' = klist key t) (ht : Tgt t q i) : Tgt t' q i := by
  simpa only [Tgt, BST, toList_eq_klist, h] using ht

theorem length_keys (t : T) : (Spec.keys (toList t)).length = t.size := by
  simp [Spec.keys, toList_eq_klist, length_klist]

theorem keys_node (l : T) (a c r) :
    Spec.keys (toList (node l a c r)) = Spec.keys (toList l) ++ a.k :: Spec.keys (toList r) := by
  simp [Spec.keys]

theorem navSpec : NavSpec cfg Tgt where
  lt_iff := by
    rintro l a c r q i ⟨hb, hi⟩
    obtain ⟨hl, hr, hlt, hgt⟩ := bst_node hb
    rw [keys_node] at hi
    have hll := length_keys l
    simp only [cfg_nav, Nat.compare_eq_lt]
    constructor
    · intro hq
      by_cases h : i < l.size
      · exact h
      · exfalso
        rw [List.getElem?_append_right (by omega)] at hi
        cases hj : i - (Spec.keys (toList l)).length with
        | zero => rw [hj] at hi; simp at hi; omega
        | succ j =>
          rw [hj] at hi; simp at hi
          have := hgt q (List.mem_of_getElem? hi); omega
    · intro h
      rw [List.getElem?_append_left (by omega)] at hi
      exact hlt q (List.mem_of_getElem? hi)
  eq_iff := by
    rintro l a c r q i ⟨hb, hi⟩
    obtain ⟨hl, hr, hlt, hgt⟩ := bst_node hb
    rw [keys_node] at hi
    have hll := length_keys l
    simp only [cfg_nav, Nat.compare_eq_eq]
    constructor
    · intro hq
      rcases Nat.lt_trichotomy i l.size with h | h | h
      · rw [List.getElem?_append_left (by omega)] at hi
        have := hlt q (List.mem_of_getElem? hi); omega
      · exact h
      · rw [List.getElem?_append_right (by omega)] at hi
        cases hj : i - (Spec.keys (toList l)).length with
        | zero => omega
        | succ j =>
          rw [hj] at hi; simp at hi
          have := hgt q (List.mem_of_getElem? hi); omega
    · intro h
      rw [List.getElem?_append_right (by omega)] at hi
      have : i - (Spec.keys (toList l)).length = 0 := by omega
      rw [this] at hi; simp at hi; exact hi.symm
  bound := by
    rintro t q i ⟨hb, hi⟩
    have := (List.getElem?_eq_some_iff.1 hi).1
    rw [length_keys] at this; exact this
  left := by
    rintro l a c r q i ⟨hb, hi⟩ hlt
    obtain ⟨hl, -, -, -⟩ := bst_node hb
    rw [keys_node, List.getElem?_append_left (by rw [length_keys]; exact hlt)] at hi
    exact ⟨hl, hi⟩
  right := by
    rintro l a c r q i ⟨hb, hi⟩ hgt
    obtain ⟨-, hr, -, -⟩ := bst_node hb
    have hll := length_keys l
    rw [keys_node, List.getElem?_append_right (by omega)] at hi
    have : i - (Spec.keys (toList l)).length = (i - l.size - 1) + 1 := by omega
    rw [this] at hi
    exact ⟨hr, by simpa using hi⟩
  recolor := by intro l a c r q i c' h; exact tgt_congr (by simp) h
  flipL := by intro l a c r q i h; exact tgt_congr (by simp) h
  flipR := by intro l a c r q i h; exact tgt_congr (by simp) h
  rotL := by intro t q i h; exact tgt_congr (klist_rotateLeft keyOK t) h
  rotR := by intro t q i h; exact tgt_congr (klist_rotateRight keyOK t) h
  rotRchild := by intro l a c r q i h; exact tgt_congr (by simp [keyOK]) h

/-! ### Remove -/

namespace Spec

theorem nodup_of_sorted {l : L} (h : Sorted l) : (keys l).Nodup := by
  unfold Sorted at h
  exact h.imp (fun hab => Nat.ne_of_lt hab)

theorem remove_idx {k : Nat} {l : L} {i : Nat} (hn : (keys l).Nodup) (hi : (keys l)[i]? = some k) :
    remove k l = l.eraseIdx i := by
  induction l generalizing i with
  | nil => simp [keys] at hi
  | cons a l ih =>
    simp only [keys, List.map_cons, List.nodup_cons] at hn
    cases i with
    | zero => simp [keys] at hi; simp [remove, hi]
    | succ i =>
      simp only [keys, List.map_cons, List.getElem?_cons_succ] at hi
      have hne : a.1 ≠ k := by rintro rfl; exact hn.1 (List.mem_of_getElem? hi)
      simp only [remove, hne, if_false, List.eraseIdx_cons_succ]
      rw [ih hn.2 hi]

theorem sorted_eraseIdx {l : L} (i : Nat) (h : Sorted l) : Sorted (l.eraseIdx i) := by
  have : ∀ (l : L) (i : Nat), (l.eraseIdx i).map (·.1) = (l.map (·.1)).eraseIdx i := by
    intro l
    induction l with
    | nil => intro i; rfl
    | cons a l ih => intro i; cases i <;> simp [ih]
  unfold Sorted keys at *
  rw [this]
  exact h.sublist (List.eraseIdx_sublist _ _)

theorem mem_keys_idx {k : Nat} {l : L} (h : k ∈ keys l) : ∃ i : Nat, (keys l)[i]? = some k := by
  obtain ⟨i, hi, e⟩ := List.getElem_of_mem h
  exact ⟨i, by rw [List.getElem?_eq_getElem hi, e]⟩

end Spec

/-- invariant of the ordered map between calls -/
def Inv (m : M) : Prop := BST m.t ∧ RBInv m.t ∧ m.size = (toList m.t).length

instance (m : M) : Decidable (Inv m) := by unfold Inv BST Spec.Sorted; infer_instance

theorem remove_spec {m : M} {k : Nat} (hi : Inv m) (hk : k ∈ Spec.keys (toList m.t)) :
    removePanics m k = false ∧ toList (remove m k).t = Spec.remove k (toList m.t) ∧ Inv (remove m k) := by
  obtain ⟨hb, hrb, hs⟩ := hi
  have hmem := (memNav_iff hb k).2 hk
  obtain ⟨i, hidx⟩ := Spec.mem_keys_idx hk
  obtain ⟨g1, g2⟩ := delete_good (key := key) keyOK navSpec (t := m.t) (q := k) (i := i) ⟨hb, hidx⟩ hrb
  have e : toList (RB.delete cfg m.t k) = Spec.remove k (toList m.t) := by
    rw [toList_eq_klist, g2, Spec.remove_idx (Spec.nodup_of_sorted hb) hidx]; rfl
  refine ⟨by simp [removePanics, hmem], ?_, ?_, ?_, ?_⟩
  · simp only [remove, hmem, if_true]; exact e
  · simp only [remove, hmem, if_true, BST]; rw [e, Spec.remove_idx (Spec.nodup_of_sorted hb) hidx]
    exact Spec.sorted_eraseIdx i hb
  · simp only [remove, hmem, if_true]; exact g1
  · simp only [remove, hmem, if_true]
    rw [e, Spec.remove_idx (Spec.nodup_of_sorted hb) hidx, List.length_eraseIdx, hs]
    have := (List.getElem?_eq_some_iff.1 hidx).1
    simp only [Spec.keys, List.length_map] at this
    simp [this]

theorem put_spec {m : M} (k v : Nat) (hi : Inv m) :
    toList (put m k v).t = Spec.put k v (toList m.t) ∧ Inv (put m k v) := by
  obtain ⟨hb, hrb, hs⟩ := hi
  have e : toList (RB.insert cfg m.t k ⟨k, v⟩) = Spec.put k v (toList m.t) := by
    simp only [RB.insert, toList_eq_klist, klist_blacken]
    exact ins_spec hb k v
  refine ⟨e, ?_, insert_good _ _ _ hrb.1 hrb.2.1, ?_⟩
  · simp only [put, BST]; rw [e]; exact Spec.sorted_put hb
  · simp only [put]; rw [e, Spec.length_put hb]
    by_cases h : k ∈ Spec.keys (toList m.t)
    · simp [h, (memNav_iff hb k).2 h, hs]
    · have : memNav m.t k = false := by
        cases hm : memNav m.t k with
        | false => rfl
        | true => exact absurd ((memNav_iff hb k).1 hm) h
      simp [h, this, hs]

/-- `Floor(q)` returns the entry with the greatest key `≤ q`, `(nil, nil)` iff there is none -/
theorem floor_spec {m : M} (hi : Inv m) (q : Nat) :
    floor m q = Spec.floor (toList m.t) q ∧
    (∀ e, floor m q = some e → e ∈ toList m.t ∧ e.1 ≤ q ∧ ∀ x ∈ Spec.keys (toList m.t), x ≤ q → x ≤ e.1) ∧
    (floor m q = none ↔ ∀ x ∈ Spec.keys (toList m.t), q < x) := by
  have e : floor m q = Spec.floor (toList m.t) q := by
    simp only [floor, floorGo_spec hi.1]
    cases Spec.floor (toList m.t) q <;> rfl
  refine ⟨e, fun x hx => Spec.floor_some hi.1 (by rw [← e]; exact hx), by rw [e]; exact Spec.floor_none⟩

/-! ### operations, one step, sequences -/

inductive Op where
  | put (k v : Nat)
  | remove (k : Nat)
  | floor (q : Nat)
  | len
deriving Repr, DecidableEq

inductive Out where
  | unit
  | floor (r : Option (Nat × Nat))
  | len (n : Nat)
deriving Repr, DecidableEq

def step (m : M) : Op → M × Out
  | .put k v => (put m k v, .unit)
  | .remove k => (remove m k, .unit)
  | .floor q => (m, .floor (floor m q))
  | .len => (m, .len (len m))

namespace Spec

def step (l : L) : Op → L × Out
  | .put k v => (put k v l, .unit)
  | .remove k => (remove k l, .unit)
  | .floor q => (l, .floor (floor l q))
  | .len => (l, .len l.length)

/-- `Remove` of an absent key panics in the Go code -/
def valid (l : L) : Op → Prop
  | .remove k => k ∈ keys l
  | _ => True

instance (l : L) (op : Op) : Decidable (valid l op) := by
  cases op <;> simp only [valid] <;> infer_instance

end Spec

theorem step_refines {m : M} {op : Op} (hi : Inv m) (hv : Spec.valid (toList m.t) op) :
    toList (step m op).1.t = (Spec.step (toList m.t) op).1 ∧ (step m op).2 = (Spec.step (toList m.t) op).2 ∧
    Inv (step m op).1 := by
  cases op with
  | put k v => exact ⟨(put_spec k v hi).1, rfl, (put_spec k v hi).2⟩
  | remove k => exact ⟨(remove_spec hi hv).2.1, rfl, (remove_spec hi hv).2.2⟩
  | floor q => exact ⟨rfl, by simp only [step, Spec.step, (floor_spec hi q).1], hi⟩
  | len => exact ⟨rfl, by simp only [step, Spec.step, len, hi.2.2], hi⟩

def run (m : M) : List Op → M × List Out
  | [] => (m, [])
  | op :: ops => let r := step m op; let rs := run r.1 ops; (rs.1, r.2 :: rs.2)

namespace Spec

def run (l : L) : List Op → L × List Out
  | [] => (l, [])
  | op :: ops => let r := step l op; let rs := run r.1 ops; (rs.1, r.2 :: rs.2)

def validSeq (l : L) : List Op → Prop
  | [] => True
  | op :: ops => valid l op ∧ validSeq (step l op).1 ops

instance decValidSeq : (l : L) → (ops : List Op) → Decidable (validSeq l ops)
  | _, [] => isTrue trivial
  | l, op :: ops =>
    have := decValidSeq (step l op).1 ops
    inferInstanceAs (Decidable (valid l op ∧ validSeq (step l op).1 ops))

end Spec

theorem inv_empty : Inv {} := by
  refine ⟨?_, ?_, rfl⟩
  · simp [BST, Spec.Sorted, Spec.keys]
  · simp [RBInv]

end Yorkie.Llrb
