/-
Helper lemmas for Model/Conc.lean, part 6: a request starts (`pull` lock taken, handler prefix
run): what the new in-flight record knows (`begin_ok`), and that the prefix touches nothing an
older request in flight depends on (`cinv_start`).
-/
import YorkieModel.Lemmas.ConcMain
namespace Yorkie.Conc
open Yorkie Yorkie.Server

/-- the (client, document) a request is about -/
def target (s : Server) : Request → ClientId × DocId
  | .attach c key _ dp _ => (c, (findOrCreateDoc s key dp).2)
  | .pushpull c d _ _ _ => (c, d)
  | .detach c d _ => (c, d)
  | .remove c d _ => (c, d)
  | .activate => (0, 0)
  | .deactivate c _ => (c, 0)

theorem findOrCreateDoc_fst_key {s : Server} {key : Nat} {dp : Bool} {doc : Doc}
    (h : (findOrCreateDoc s key dp).1.findDoc (findOrCreateDoc s key dp).2 = some doc) : doc.key = key := by
  unfold findOrCreateDoc at h
  split at h
  · next d hk =>
    simp only [Server.findDocIdByKey] at hk
    have hm := List.mem_of_getLast? hk
    simp only [List.mem_filter, Server.keyMatches] at hm
    simp only [] at h
    rw [h] at hm
    have := hm.2
    simp only [Bool.and_eq_true, beq_iff_eq] at this
    exact this.1
  · simp only [Server.findDoc, AL.get?_set_self] at h
    injection h with h; rw [← h]

theorem findOrCreateDoc_snd_key {s : Server} (hw : WF s) {key : Nat} {dp : Bool} {doc : Doc}
    (h : s.findDoc (findOrCreateDoc s key dp).2 = some doc) : doc.key = key := by
  have h2 : (findOrCreateDoc s key dp).1.findDoc (findOrCreateDoc s key dp).2 = some doc := by
    obtain ⟨y, hy, e⟩ := (findOrCreateDoc_docsExt s hw key dp).old _ doc h
    unfold findOrCreateDoc at h hy ⊢
    split
    · next d hk => simp only [hk] at h; exact h
    · next hk =>
      simp only [hk] at h
      exact absurd (hw.docs _ doc h) (Nat.lt_irrefl _)
  exact findOrCreateDoc_fst_key h2

theorem target_lock {s : Server} (hw : WF s) {req : Request} (hreq : isReq req = true) {doc : Doc}
    (h : s.findDoc (target s req).2 = some doc) : lockOf s req = .pull (target s req).1 (some doc.key) := by
  cases req with
  | activate => simp [isReq] at hreq
  | deactivate c o => simp [isReq] at hreq
  | attach c key pack dp nogc => simp only [lockOf, target] at h ⊢; rw [findOrCreateDoc_snd_key hw h]
  | pushpull c d pack po nogc => simp only [lockOf, target, docKeyOf] at h ⊢; rw [h]; rfl
  | detach c d pack => simp only [lockOf, target, docKeyOf] at h ⊢; rw [h]; rfl
  | remove c d pack => simp only [lockOf, target, docKeyOf] at h ⊢; rw [h]; rfl

theorem clientsAttach_entries {s s' : Server} {c : ClientId} {info : Client} {d : DocId} {e : Int} {b : Bool}
    {x : Except ErrKind Client} (h : clientsAttach s c info d e b = (s', x)) (c' : ClientId) (d' : DocId)
    (hne : c' ≠ c ∨ d' ≠ d) : entryOf s' c' d' = entryOf s c' d' := by
  have hx : s' = s ∨ ∃ i, s.findClient c = some i ∧ s' = s.setClient c (i.markAttaching d) := by
    cases x with
    | error err =>
      rcases clientsAttach_error h with e1 | ⟨i, hi, _, e1⟩
      · exact Or.inl e1
      · exact Or.inr ⟨i, hi, e1⟩
    | ok info2 =>
      obtain ⟨info1, _, _, _, hcase⟩ := clientsAttach_ok h
      rcases hcase with ⟨_, e1, _⟩ | ⟨_, i, hi, _, _, _, e1⟩
      · exact Or.inl e1
      · exact Or.inr ⟨i, hi, e1⟩
  rcases hx with e1 | ⟨i, hi, e1⟩
  · rw [e1]
  · rw [e1, entryOf_setClient]
    by_cases hc : c = c'
    · rw [if_pos hc, ← hc, entryOf_findClient hi d']
      have hdne : d ≠ d' := by
        rcases hne with hne | hne
        · exact absurd hc.symm hne
        · exact fun e => hne e.symm
      simp only [Client.markAttaching, AL.get?_set, hdne, if_false]
    · rw [if_neg hc]

theorem begin_entries (s : Server) (req : Request) (c : ClientId) (d : DocId)
    (hne : c ≠ (target s req).1 ∨ d ≠ (target s req).2) : entryOf (begin s req).1 c d = entryOf s c d := by
  cases req with
  | activate => rfl
  | deactivate c o => rfl
  | attach c0 key pack dp nogc =>
    have h0 : ∀ c d, entryOf (findOrCreateDoc s key dp).1 c d = entryOf s c d :=
      fun c d => entryOf_of_clients_eq (findOrCreateDoc_clients s key dp).1 c d
    simp only [begin]
    split
    · rfl
    · next info _ =>
      split
      · exact h0 c d
      · next doc _ =>
        rcases hca : clientsAttach (findOrCreateDoc s key dp).1 c0 info (findOrCreateDoc s key dp).2 doc.epoch
            (pack.cp.serverSeq != 0) with ⟨s2, e | info2⟩
        · simp only []; rw [clientsAttach_entries hca c d hne]; exact h0 c d
        · simp only []; rw [clientsAttach_entries hca c d hne]; exact h0 c d
  | pushpull c0 d0 pack po nogc =>
    simp only [begin]
    split
    · rfl
    · split
      · rfl
      · split <;> rfl
  | detach c0 d0 pack =>
    simp only [begin]
    split
    · rfl
    · split
      · rfl
      · split <;> rfl
  | remove c0 d0 pack =>
    simp only [begin]
    split
    · rfl
    · split
      · rfl
      · split <;> rfl

theorem ghostStart_other (s : Server) (g : Ghost) (req : Request) (c : ClientId) (d : DocId)
    (hne : c ≠ (target s req).1 ∨ d ≠ (target s req).2) : ghostStart s g req c d = g c d := by
  cases req with
  | attach c0 key pack dp nogc =>
    simp only [ghostStart, Ghost.set, target] at hne ⊢
    rw [if_neg]
    rintro ⟨e1, e2⟩
    rcases hne with hne | hne
    · exact hne e1
    · exact hne e2
  | _ => rfl

/-- the handler prefix keeps the sequential delivery invariant (the view of an attaching client is
reset: a fresh `Document`) -/
theorem dinv_begin {s : Server} {g : Ghost} (hD : DInv s g) (req : Request) :
    DInv (begin s req).1 (ghostStart s g req) := by
  have ext := begin_docsExt s hD.wf req
  have hgen : ∀ c d, ghostStart s g req = g.set c d {} → c = (target s req).1 → d = (target s req).2 →
      DInv (begin s req).1 (ghostStart s g req) := by
    intro c d hg hc hd
    rw [hg]
    refine dinv_update hD ext c d {} ?_ ?_ (fun _ => ⟨rfl, rfl⟩) (fun _ _ _ => Nat.zero_le _)
    · intro c' d' cd' hne he _
      rw [← begin_entries s req c' d' (by rw [← hc, ← hd]; exact hne)]; exact he
    · intro doc' hd' _
      exact viewOk_of_initial c _ _ (gapFree_after ext hD.gap _ doc' hd').1 rfl rfl
  cases req with
  | attach c key pack dp nogc => exact hgen c (findOrCreateDoc s key dp).2 rfl rfl rfl
  | activate => exact hD
  | deactivate c o => exact hD
  | pushpull c d pack po nogc =>
    have : (begin s (.pushpull c d pack po nogc)).1 = s := by
      simp only [begin]; split
      · rfl
      · split
        · rfl
        · split <;> rfl
    rw [this]; exact hD
  | detach c d pack =>
    have : (begin s (.detach c d pack)).1 = s := by
      simp only [begin]; split
      · rfl
      · split
        · rfl
        · split <;> rfl
    rw [this]; exact hD
  | remove c d pack =>
    have : (begin s (.remove c d pack)).1 = s := by
      simp only [begin]; split
      · rfl
      · split
        · rfl
        · split <;> rfl
    rw [this]; exact hD

/-- what a request knows when its handler has called `PushPull` -/
structure BeginOk (s : Server) (g' : Ghost) (req : Request) (s1 : Server) (f : Flight) : Prop where
  client : f.client = (target s req).1
  doc : f.doc = (target s req).2
  hdoc : ∃ doc, s1.findDoc f.doc = some doc ∧ lockOf s req = .pull f.client (some doc.key) ∧
    f.disablePresence = doc.disablePresence
  cp : f.pack.cp = (g' f.client f.doc).cp
  own : ∀ x ∈ f.pack.changes, x.actor = f.client
  att : f.status = .attached → ∃ cd, f.info.docs.get? f.doc = some cd ∧ cd.status = .attached
  ack : (g' f.client f.doc).cp.clientSeq ≤ (f.info.checkpoint f.doc).clientSeq

theorem holds_entry {s : Server} {c : ClientId} {d : DocId} (h : holds s c d = true) :
    ∃ cd, entryOf s c d = some cd ∧ isOpenSt cd.status = true := by
  unfold holds at h
  split at h
  · next cd hcd => exact ⟨cd, hcd, h⟩
  · simp at h

theorem begin_ok {s s1 : Server} {g : Ghost} {req : Request} {f : Flight} (hD : DInv s g)
    (hwb : wbReq s g req = true) (hb : begin s req = (s1, .ok f)) : BeginOk s (ghostStart s g req) req s1 f := by
  cases req with
  | activate => simp [begin] at hb
  | deactivate c o => simp [begin] at hb
  | pushpull c d pack po nogc =>
    simp only [begin] at hb
    split at hb
    · simp at hb
    · next info hfc =>
      split at hb
      · simp at hb
      · next he =>
        split at hb
        · simp at hb
        · next doc hfd =>
          injection hb with e1 e2; injection e2 with e2; subst e1; subst e2
          obtain ⟨hcl, _⟩ := findActiveClient_ok hfc
          obtain ⟨_, hst⟩ := ensureAttached_ok he
          obtain ⟨cd, hcd, hcs⟩ := statusOf_some hst
          simp only [wbReq, Bool.and_eq_true, beq_iff_eq] at hwb
          refine ⟨rfl, rfl, ⟨doc, hfd, by simp [lockOf, docKeyOf, hfd], rfl⟩, hwb.1, numbered_own hwb.2,
            fun _ => ⟨cd, hcd, hcs⟩, ?_⟩
          have := hD.ack c d cd (by rw [entryOf_findClient hcl]; exact hcd) (by simp [isOpenSt, hcs])
          simpa [ghostStart, Client.checkpoint, hcd] using this
  | detach c d pack =>
    simp only [begin] at hb
    split at hb
    · simp at hb
    · next info hfc =>
      split at hb
      · simp at hb
      · split at hb
        · simp at hb
        · next doc hfd =>
          injection hb with e1 e2; injection e2 with e2; subst e1; subst e2
          obtain ⟨hcl, _⟩ := findActiveClient_ok hfc
          simp only [wbReq, Bool.and_eq_true, beq_iff_eq] at hwb
          obtain ⟨cd, hcd, hop⟩ := holds_entry hwb.1.1
          have hcd' : info.docs.get? d = some cd := by rw [← entryOf_findClient hcl]; exact hcd
          refine ⟨rfl, rfl, ⟨doc, hfd, by simp [lockOf, docKeyOf, hfd], rfl⟩, ?_, ?_, ?_, ?_⟩
          · simp only [mkFlight_pack, (detachMode_pack s c d pack).1]; exact hwb.1.2
          · simp only [mkFlight_pack, (detachMode_pack s c d pack).2]; exact numbered_own hwb.2
          · intro hs; exact absurd hs (detachMode_status_ne s c d pack)
          · have := hD.ack c d cd hcd hop
            simpa [ghostStart, Client.checkpoint, hcd'] using this
  | remove c d pack =>
    simp only [begin] at hb
    split at hb
    · simp at hb
    · next info hfc =>
      split at hb
      · simp at hb
      · split at hb
        · simp at hb
        · next doc hfd =>
          injection hb with e1 e2; injection e2 with e2; subst e1; subst e2
          obtain ⟨hcl, _⟩ := findActiveClient_ok hfc
          simp only [wbReq, Bool.and_eq_true, beq_iff_eq] at hwb
          obtain ⟨cd, hcd, hop⟩ := holds_entry hwb.1.1
          have hcd' : info.docs.get? d = some cd := by rw [← entryOf_findClient hcl]; exact hcd
          refine ⟨rfl, rfl, ⟨doc, hfd, by simp [lockOf, docKeyOf, hfd], rfl⟩, hwb.1.2, numbered_own hwb.2,
            fun hs => by simp at hs, ?_⟩
          have := hD.ack c d cd hcd hop
          simpa [ghostStart, Client.checkpoint, hcd'] using this
  | attach c key pack dp nogc =>
    simp only [begin] at hb
    split at hb
    · simp at hb
    · next info hfc =>
      split at hb
      · simp at hb
      · next doc hfd =>
        split at hb
        · simp at hb
        · next s2 info2 hca =>
          injection hb with e1 e2; injection e2 with e2; subst e1; subst e2
          simp only [wbReq, Bool.and_eq_true, beq_iff_eq] at hwb
          obtain ⟨info1, hi2, _, _, _⟩ := clientsAttach_ok hca
          have hfd2 : s2.findDoc (findOrCreateDoc s key dp).2 = some doc := by
            simp only [Server.findDoc] at hfd ⊢; rw [clientsAttach_docs' hca]; exact hfd
          refine ⟨rfl, rfl, ⟨doc, hfd2, by simp [lockOf, findOrCreateDoc_fst_key hfd], rfl⟩, ?_, numbered_own hwb.2,
            fun _ => ⟨attachedEntry info1 (findOrCreateDoc s key dp).2 doc.epoch, ?_, rfl⟩, ?_⟩
          · simp [ghostStart, Ghost.set, hwb.1]
          · rw [mkFlight_info, hi2]; exact AL.get?_set_self _ _ _
          · simp [ghostStart, Ghost.set, Checkpoint.initial]

theorem startFlight_snd_lock (s : Server) (id : Nat) (req : Request) (lost : Bool) :
    (startFlight s id req lost).2.lock = lockOf s req := by
  unfold startFlight
  rcases begin s req with ⟨s1, e | f⟩ <;> rfl

/-- a request starts -/
theorem cinv_start {σ : Sys} {g : Ghost} (h : CInv σ g) (id : Nat) (req : Request) (lost : Bool)
    (hreq : isReq req = true) (hfree : σ.lockFree (lockOf σ.srv req) = true) (hwb : wbReq σ.srv g req = true) :
    CInv { σ with srv := (startFlight σ.srv id req lost).1,
                  flights := σ.flights ++ [(startFlight σ.srv id req lost).2] } (ghostStart σ.srv g req) := by
  have ext := begin_docsExt σ.srv h.d.wf req
  have hnot : lockOf σ.srv req ∉ σ.flights.map (·.lock) := by
    simpa [Sys.lockFree, Sys.locks] using hfree
  refine ⟨by simp only [startFlight_fst]; exact dinv_begin h.d req, ?_, ?_⟩
  · simp only [List.map_append, List.map_cons, List.map_nil, startFlight_snd_lock]
    rw [List.nodup_append]
    refine ⟨h.locks, by simp, ?_⟩
    intro a ha b hb
    simp only [List.mem_singleton] at hb
    subst hb
    exact fun e => hnot (e ▸ ha)
  · intro x hx ha
    simp only [List.mem_append, List.mem_singleton] at hx
    rcases hx with hx | hx
    · -- an older request: the prefix of the new one does not touch what it depends on
      have hFx := h.fl x hx ha
      obtain ⟨docx, hdx, hlx⟩ := hFx.hdoc
      have hne : x.f.client ≠ (target σ.srv req).1 ∨ x.f.doc ≠ (target σ.srv req).2 := by
        by_cases hc : x.f.client = (target σ.srv req).1
        · by_cases hd : x.f.doc = (target σ.srv req).2
          · exfalso
            have := target_lock h.d.wf hreq (doc := docx) (by rw [← hd]; exact hdx)
            exact hnot (by rw [this, ← hc, ← hlx]; exact List.mem_map_of_mem hx)
          · exact Or.inr hd
        · exact Or.inl hc
      simp only [startFlight_fst]
      exact hFx.frame ext h.d.gap (ghostStart_other _ _ _ _ _ hne) (begin_entries _ _ _ _ hne)
    · -- the new request
      subst hx
      rcases hb : begin σ.srv req with ⟨s1, e | f⟩
      · exfalso
        simp only [startFlight, hb] at ha
        rcases ha with ha | ⟨resp, ha⟩
        · exact ha rfl
        · simp at ha
      · have hk := begin_ok h.d hwb hb
        obtain ⟨doc, hd, hl, hdp⟩ := hk.hdoc
        simp only [startFlight, hb]
        refine ⟨⟨doc, hd, hl⟩, ?_, fun _ => hk.cp, fun _ => hk.own, fun _ => hk.att, fun _ => hk.ack, ?_, ?_, ?_, ?_⟩
        · intro doc' hd'
          have hd'' : s1.findDoc f.doc = some doc' := hd'
          rw [hd] at hd''; injection hd'' with hd''; subst hd''; exact hdp
        · intro hx; simp at hx
        · intro hx; simp [Pc.ord] at hx
        · intro hx; simp [Pc.ord] at hx
        · intro hx; simp at hx

/-- The concurrent invariant holds at every state a well-behaved run reaches, with requests in
flight between any two of their phases. -/
theorem cinv_of_wbReach {cfg : Config} {σ : Sys} {g : Ghost} (h : WbReach cfg σ g) : CInv σ g := by
  induction h with
  | init => exact ⟨DInv.init cfg, List.nodup_nil, fun r hr => by simp [Sys.init] at hr⟩
  | activate _ ih => exact cinv_activate ih
  | start id req lost _ h1 h2 h3 ih => exact cinv_start ih id req lost h1 h2 h3
  | phase pre post r _ h1 h2 h3 ih => exact cinv_phase ih h1 h2 h3
  | finish pre post r _ h1 h2 ih => exact cinv_finish ih h1 h2

end Yorkie.Conc
