/- Unconditional in-order preservation of the lookup operations and DeleteRange,
and the "tombstones are invisible" lemmas of the list specification. -/
import YorkieModel.Lemmas.SplayRefine
namespace Yorkie.Splay
open T

theorem descendText_plug {t : T} {off : Nat} {p : List Frame} {X : T} {q : List Frame} {o : Nat}
    (h : descendText t off p = some (X, q, o)) : plug X q = plug t p := by
  induction t generalizing off p with
  | nil => simp [descendText] at h
  | node l id len w r ihl ihr =>
    simp only [descendText] at h
    split at h
    · rw [ihl h]; rfl
    · split at h
      · rw [ihr h]; rfl
      · injection h with h; injection h with h1 h2; injection h2 with h2 h3
        subst h1 h2; rfl

theorem descendArray_plug {t : T} {i : Nat} {p : List Frame} {X : T} {q : List Frame}
    (h : descendArray t i p = some (X, q)) : plug X q = plug t p := by
  induction t generalizing i p with
  | nil => simp [descendArray] at h
  | node l id len w r ihl ihr =>
    simp only [descendArray] at h
    split at h
    · rw [ihl h]; rfl
    · split at h
      · rw [ihr h]; rfl
      · injection h with h; injection h with h1 h2
        subst h1 h2; rfl

@[simp] theorem toList_findForText (t : T) (p : Nat) : (findForText t p).2.toList = t.toList := by
  unfold findForText; split
  · rfl
  · next X q off h =>
    split
    · rfl
    · simp only; rw [toList_splayUp, descendText_plug h]; rfl

@[simp] theorem toList_findForArray (t : T) (i : Nat) : (findForArray t i).2.toList = t.toList := by
  unfold findForArray; split
  · rfl
  · split
    · rfl
    · split
      · rfl
      · next X q h => simp only; rw [toList_splayUp, descendArray_plug h]; rfl

@[simp] theorem toList_indexOf (x : Nat) (t : T) : (indexOf x t).2.toList = t.toList := by
  unfold indexOf; split
  · rfl
  · next X q h =>
    have e : (splayUp X q).toList = t.toList := by rw [toList_splayUp, (locate_plug h).1]; rfl
    split
    · next h2 => rw [h2] at e; exact e
    · next h2 => rw [h2] at e; exact e

@[simp] theorem toList_deleteRange (lb : Nat) (rb : Option Nat) (t : T) :
    (deleteRange lb rb t).toList = t.toList := by
  unfold deleteRange
  split
  · have e := toList_splay lb t
    split
    · next a q lq w b h =>
      rw [h] at e
      split <;> simp [← e]
    · next h => rw [h] at e; exact e
  · next rb =>
    have e : (splay rb (splay lb t)).toList = t.toList := by simp
    split
    · next a q lq wq m r lr wr B h =>
      rw [h] at e
      split
      · simp [← e]
      · have e2 := toList_rotR (node a q lq wq m)
        split
        · next a' q' lq' w' m' hr =>
          rw [hr] at e2
          split
          · rw [← e]; simp only [toList_mk, toList_resetW, toList_node] at e2 ⊢; rw [e2]
          · exact e
        · exact e
    · exact e

@[simp] theorem toList_updateWeightAt (x : Nat) (t : T) : (t.updateWeightAt x).toList = t.toList := by
  induction t with
  | nil => rfl
  | node l id len w r ihl ihr => simp only [T.updateWeightAt]; split <;> simp [ihl, ihr]

/-! ### deleted content never influences lookups (specification level) -/
namespace Spec

/-- a zero-length node (tombstone) is never returned by `FindForText` and does not
shift any offset, except for the head position 0 of a list that starts with it
(`RGATreeSplit` always starts with its zero-length dummy head) -/
theorem find_ignores_tombstone (A B : L) (x p : Nat) (h : A ≠ [] ∨ 0 < p) :
    find (A ++ (x, 0) :: B) p = find (A ++ B) p := by
  induction A generalizing p with
  | nil =>
    have hp : 0 < p := by rcases h with h | h; exact absurd rfl h; exact h
    simp [find]; omega
  | cons a A ih =>
    simp only [List.cons_append, find]
    split
    · rfl
    · exact ih _ (.inr (by omega))

theorem findArr_ignores_tombstone (A B : L) (x i : Nat) :
    findArr (A ++ (x, 0) :: B) i = findArr (A ++ B) i := by
  induction A generalizing i with
  | nil => simp [findArr]
  | cons a A ih => simp only [List.cons_append, findArr]; split; rfl; exact ih _

theorem indexOf_ignores_tombstone (A B : L) (x y : Nat) (h : y ≠ x) :
    indexOf y (A ++ (x, 0) :: B) = indexOf y (A ++ B) := by
  induction A with
  | nil => simp [indexOf, Ne.symm h]
  | cons a A ih => simp only [List.cons_append, indexOf, ih]

theorem sumLen_ignores_tombstone (A B : L) (x : Nat) : sumLen (A ++ (x, 0) :: B) = sumLen (A ++ B) := by
  simp

end Spec
end Yorkie.Splay
