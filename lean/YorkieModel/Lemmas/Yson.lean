/-
Helper lemmas for C18 (YSON round trip), tree level: number conversions, base64,
and the tree-level parser on the image of `toJ`.  Core Lean only.
-/
import YorkieModel.Lemmas.YsonConst
namespace Yorkie.Yson

/-! ### numbers -/

theorem numTokOfText_text (t : Str) : (numTokOfText t).text = t := by
  simp only [numTokOfText]
  split
  · rename_i h
    simp only [Bool.and_eq_true, beq_iff_eq] at h
    simp [NumTok.text, h.2]
  · rfl

/-! ### base64 -/

theorem b64Val_b64Char : ∀ n, n < 64 → b64Val (b64Char n) = some n := by decide

theorem b64Char_ne_pad (n : Nat) : (b64Char n == 61) = false := by
  simp only [b64Char]
  split
  · simp; omega
  · split
    · simp; omega
    · split
      · simp; omega
      · split <;> simp

theorem b64Char_notNl (n : Nat) : notNl (b64Char n) = true := by
  simp only [b64Char, notNl]
  split
  · simp; omega
  · split
    · simp; omega
    · split
      · simp; omega
      · split <;> simp

theorem b64Encode_notNl (bs : List Nat) : ∀ c ∈ b64Encode bs, notNl c = true := by
  induction bs using b64Encode.induct with
  | case1 => simp [b64Encode]
  | case2 a =>
    intro x hx
    simp only [b64Encode, List.mem_cons, List.not_mem_nil, or_false] at hx
    rcases hx with h | h | h | h
    · subst h; exact b64Char_notNl _
    · subst h; exact b64Char_notNl _
    · subst h; decide
    · subst h; decide
  | case3 a b =>
    intro x hx
    simp only [b64Encode, List.mem_cons, List.not_mem_nil, or_false] at hx
    rcases hx with h | h | h | h
    · subst h; exact b64Char_notNl _
    · subst h; exact b64Char_notNl _
    · subst h; exact b64Char_notNl _
    · subst h; decide
  | case4 a b c r ih =>
    intro x hx
    simp only [b64Encode, List.mem_cons] at hx
    rcases hx with h | h | h | h | h
    · subst h; exact b64Char_notNl _
    · subst h; exact b64Char_notNl _
    · subst h; exact b64Char_notNl _
    · subst h; exact b64Char_notNl _
    · exact ih x h

theorem b64Encode_filter (bs : List Nat) : List.filter notNl (b64Encode bs) = b64Encode bs :=
  List.filter_eq_self.mpr (b64Encode_notNl bs)

theorem b64DecodeAux_encode (bs : List Nat) (h : wfBytes bs = true) :
    b64DecodeAux (b64Encode bs) = some bs := by
  induction bs using b64Encode.induct with
  | case1 => simp [b64Encode, b64DecodeAux]
  | case2 a =>
    simp only [wfBytes, List.all_cons, List.all_nil, Bool.and_true, decide_eq_true_eq] at h
    have h1 : a / 4 < 64 := by omega
    have h2 : a % 4 * 16 < 64 := by omega
    simp only [b64Encode, b64DecodeAux, b64Val_b64Char _ h1, b64Val_b64Char _ h2]
    simp
    omega
  | case3 a b =>
    simp only [wfBytes, List.all_cons, List.all_nil, Bool.and_true, decide_eq_true_eq, Bool.and_eq_true] at h
    have h1 : a / 4 < 64 := by omega
    have h2 : a % 4 * 16 + b / 16 < 64 := by omega
    have h3 : b % 16 * 4 < 64 := by omega
    simp only [b64Encode, b64DecodeAux, b64Val_b64Char _ h1, b64Val_b64Char _ h2, b64Val_b64Char _ h3, b64Char_ne_pad]
    simp
    omega
  | case4 a b c r ih =>
    simp only [wfBytes, List.all_cons, decide_eq_true_eq, Bool.and_eq_true] at h
    have hr : wfBytes r = true := by simp [wfBytes, h.2.2.2]
    have h1 : a / 4 < 64 := by omega
    have h2 : a % 4 * 16 + b / 16 < 64 := by omega
    have h3 : b % 16 * 4 + c / 64 < 64 := by omega
    have h4 : c % 64 < 64 := by omega
    simp only [b64Encode, b64DecodeAux, b64Val_b64Char _ h1, b64Val_b64Char _ h2, b64Val_b64Char _ h3,
      b64Val_b64Char _ h4, b64Char_ne_pad, ih hr]
    simp
    omega

theorem b64Decode_encode (bs : List Nat) (h : wfBytes bs = true) : b64Decode (b64Encode bs) = some bs := by
  rw [b64Decode, b64Encode_filter, b64DecodeAux_encode bs h]

/-! ### attributes, text nodes, tree nodes -/

@[simp] theorem Res.bind_ok {α β} (a : α) (f : α → Res β) : (Res.ok a).bind f = f a := rfl
@[simp] theorem Res.map_ok {α β} (a : α) (f : α → β) : (Res.ok a).map f = .ok (f a) := rfl

theorem parseAttrs_attrsJ (e : Err) (a : Attrs) : parseAttrs e (attrsJ a) = .ok a := by
  induction a with
  | nil => rfl
  | cons p r ih =>
    obtain ⟨k, v⟩ := p
    simp [attrsJ, parseAttrs, ih]

theorem asInt32_int {n : Int} (h : inI32 n = true) : J.asInt32 (.num (.int n)) = .ok n := by
  simp [J.asInt32, NumTok.toI32?, NumTok.toInt?, h]

theorem asInt64_int {n : Int} (h : inI64 n = true) : J.asInt64 (.num (.int n)) = .ok n := by
  simp [J.asInt64, NumTok.toI64?, NumTok.toInt?, h]

theorem parseTextNode_textNodeJ (n : TextNode) : parseTextNode (textNodeJ n) = .ok n := by
  obtain ⟨val, attrs⟩ := n
  cases attrs with
  | nil => simp [textNodeJ, parseTextNode, J.getStr?, J.get]
  | cons p r => simp [textNodeJ, parseTextNode, J.getStr?, J.get, parseAttrs_attrsJ]

theorem parseText_map (ns : List TextNode) : parseText (ns.map textNodeJ) = .ok ns := by
  induction ns with
  | nil => rfl
  | cons n r ih => simp [parseText, parseTextNode_textNodeJ, ih]

theorem isEmpty_eq_nil {α} {l : List α} (h : l.isEmpty = true) : l = [] := by
  cases l <;> simp_all

mutual
theorem parseTreeNode_treeJ : ∀ (r : TreeNode), r.wf = true → parseTreeNode (treeJ r) = .ok r
  | .mk ty v a c, h => by
    simp only [TreeNode.wf, Bool.and_eq_true] at h
    obtain ⟨⟨_, hshape⟩, hc⟩ := h
    by_cases hty : (ty == sText) = true
    · simp only [hty, if_true, Bool.and_eq_true] at hshape
      have ha := isEmpty_eq_nil hshape.1
      have hcn := isEmpty_eq_nil hshape.2
      subst ha; subst hcn
      simp [treeJ, hty, parseTreeNode, J.getStr?, J.get, treeAttrsIn, treeChildrenIn]
    · have hty' : (ty == sText) = false := by simpa using hty
      simp only [hty', Bool.false_eq_true, if_false] at hshape
      have hv := isEmpty_eq_nil hshape
      subst hv
      have ih := parseTreeList_treeJList c hc
      cases a with
      | nil => simp [treeJ, hty', parseTreeNode, J.getStr?, J.get, treeAttrsIn, treeChildrenIn, ih]
      | cons p r =>
        simp [treeJ, hty', parseTreeNode, J.getStr?, J.get, treeAttrsIn, treeChildrenIn, ih, parseAttrs_attrsJ]
theorem parseTreeList_treeJList : ∀ (c : List TreeNode), TreeNode.wfList c = true → parseTreeList (treeJList c) = .ok c
  | [], _ => rfl
  | x :: r, h => by
    simp only [TreeNode.wfList, Bool.and_eq_true] at h
    simp [treeJList, parseTreeList, parseTreeNode_treeJ x h.1, parseTreeList_treeJList r h.2]
end

/-! ### what `Atom.safe` says about each atom -/

theorem safe_date {t : Str} (h : Atom.safe (.date t) = true) : dateValid t = true := by
  simpa [Atom.safe, Tag.all, Atom.hits] using h

theorem not_safe_typeMember : Atom.safe .typeMember = false := by decide
theorem not_safe_nan : Atom.safe (.dbl .nan) = false := by decide
theorem not_safe_posInf : Atom.safe (.dbl .posInf) = false := by decide
theorem not_safe_negInf : Atom.safe (.dbl .negInf) = false := by decide

/-! ### a nested object without a string member `type` is not taken for a wrapper -/

def Yson.isStr : Yson → Bool
  | .str _ => true
  | _ => false

def J.isStr : J → Bool
  | .str _ => true
  | _ => false

theorem toJ_isStr (v : Yson) : (toJ v).isStr = v.isStr := by
  cases v with
  | double d => cases d <;> simp [toJ, J.isStr, Yson.isStr]
  | counter c => cases c <;> simp [toJ, counterJ, wrapJ, J.isStr, Yson.isStr]
  | _ => simp [toJ, wrapJ, J.isStr, Yson.isStr]

theorem getStr?_none_of_not_isStr {kvs : List (Str × J)} {k : Str} (h : (J.get kvs k).isStr = false) :
    J.getStr? kvs k = none := by
  simp only [J.getStr?]
  cases hj : J.get kvs k <;> simp_all [J.isStr]

theorem hasTypeString_match (v : Yson) : (match v with | .str _ => true | _ => false) = v.isStr := by
  cases v <;> rfl

theorem get_type_not_str : ∀ (kvs : List (Str × Yson)), hasTypeString kvs = false →
    (J.get (toJKvs kvs) sType).isStr = false
  | [], _ => by simp [toJKvs, J.get, J.isStr]
  | (k, v) :: r, h => by
    simp only [hasTypeString, Bool.or_eq_false_iff, Bool.and_eq_false_iff] at h
    simp only [toJKvs, J.get]
    by_cases hk : (k == sType) = true
    · simp only [hk, if_true, toJ_isStr]
      rcases h.1 with h1 | h1
      · simp [hk] at h1
      · exact h1
    · have hk' : (k == sType) = false := by simpa using hk
      simp only [hk', Bool.false_eq_true, if_false]
      exact get_type_not_str r h.2

/-! ### the tree-level parser inverts `toJ` on safe well-formed values -/

theorem treeJ_isObj (r : TreeNode) : ∃ kvs, treeJ r = .obj kvs := by
  obtain ⟨ty, v, a, c⟩ := r
  simp only [treeJ]
  split
  · exact ⟨_, rfl⟩
  · split <;> exact ⟨_, rfl⟩

theorem all_safe_append {l₁ l₂ : List Atom} (h : (l₁ ++ l₂).all Atom.safe = true) :
    l₁.all Atom.safe = true ∧ l₂.all Atom.safe = true := by
  simpa [List.all_append] using h

mutual
theorem parseMember_toJ : ∀ (v : Yson), v.wf = true → (atoms v).all Atom.safe = true →
    parseMember (toJ v) = .ok v
  | .null, _, _ => rfl
  | .bool _, _, _ => rfl
  | .double .nan, _, hs => by simp [atoms, not_safe_nan] at hs
  | .double .posInf, _, hs => by simp [atoms, not_safe_posInf] at hs
  | .double .negInf, _, hs => by simp [atoms, not_safe_negInf] at hs
  | .double (.fin t), _, _ => by
    simp [toJ, parseMember, numTokOfText_text]
  | .str _, _, _ => rfl
  | .int n, hw, _ => by
    simp only [Yson.wf] at hw
    simp [toJ, wrapJ, parseMember, J.getStr?, J.get, parseTypedValue, asInt32_int hw]
  | .long n, hw, _ => by
    simp only [Yson.wf] at hw
    simp [toJ, wrapJ, parseMember, J.getStr?, J.get, parseTypedValue, asInt64_int hw]
  | .bytes b, hw, _ => by
    simp only [Yson.wf] at hw
    simp [toJ, wrapJ, parseMember, J.getStr?, J.get, parseTypedValue, b64Decode_encode b hw]
  | .date t, _, hs => by
    simp only [atoms, List.all_cons, List.all_nil, Bool.and_true] at hs
    simp [toJ, wrapJ, parseMember, J.getStr?, J.get, parseTypedValue, safe_date hs]
  | .counter (.int n), hw, _ => by
    simp only [Yson.wf, Counter.wf] at hw
    simp [toJ, counterJ, wrapJ, parseMember, J.getStr?, J.get, parseTypedValue, parseCounter, asInt32_int hw]
  | .counter (.long n), hw, _ => by
    simp only [Yson.wf, Counter.wf] at hw
    simp [toJ, counterJ, wrapJ, parseMember, J.getStr?, J.get, parseTypedValue, parseCounter, asInt64_int hw]
  | .counter (.dedup n regs), hw, _ => by
    simp only [Yson.wf, Counter.wf, Bool.and_eq_true] at hw
    simp [toJ, counterJ, parseMember, J.getStr?, J.get, parseTypedValue, parseDedupCounter,
      asInt32_int hw.1, b64Decode_encode regs hw.2]
  | .text ns, _, _ => by
    simp [toJ, wrapJ, parseMember, J.getStr?, J.get, parseTypedValue, parseText_map]
  | .tree r, hw, _ => by
    simp only [Yson.wf] at hw
    obtain ⟨kvs, hk⟩ := treeJ_isObj r
    have := parseTreeNode_treeJ r hw
    rw [hk] at this
    simp [toJ, wrapJ, parseMember, J.getStr?, J.get, parseTypedValue, hk, this]
  | .arr xs, hw, hs => by
    simp only [Yson.wf] at hw
    simp only [atoms] at hs
    simp [toJ, parseMember, parseArray_toJList xs hw hs]
  | .obj kvs, hw, hs => by
    simp only [Yson.wf, Bool.and_eq_true] at hw
    simp only [atoms] at hs
    obtain ⟨hs1, hs2⟩ := all_safe_append hs
    have hty : hasTypeString kvs = false := by
      cases h : hasTypeString kvs
      · rfl
      · simp [h, not_safe_typeMember] at hs1
    simp [toJ, parseMember, getStr?_none_of_not_isStr (get_type_not_str kvs hty), parseObject_toJKvs kvs hw.2 hs2]
theorem parseArray_toJList : ∀ (xs : List Yson), Yson.wfList xs = true → (atomsList xs).all Atom.safe = true →
    parseArray (toJList xs) = .ok xs
  | [], _, _ => rfl
  | x :: r, hw, hs => by
    simp only [Yson.wfList, Bool.and_eq_true] at hw
    simp only [atomsList] at hs
    obtain ⟨hs1, hs2⟩ := all_safe_append hs
    simp [toJList, parseArray, parseMember_toJ x hw.1 hs1, parseArray_toJList r hw.2 hs2]
theorem parseObject_toJKvs : ∀ (kvs : List (Str × Yson)), Yson.wfKvs kvs = true → (atomsKvs kvs).all Atom.safe = true →
    parseObject (toJKvs kvs) = .ok kvs
  | [], _, _ => rfl
  | (k, x) :: r, hw, hs => by
    simp only [Yson.wfKvs, Bool.and_eq_true] at hw
    simp only [atomsKvs, List.all_cons, Bool.and_eq_true] at hs
    obtain ⟨hs1, hs2⟩ := all_safe_append hs.2
    simp [toJKvs, parseObject, parseMember_toJ x hw.1.2 hs1, parseObject_toJKvs r hw.2 hs2]
end

/-! ### boolean equality is reflexive (used to turn `isOk … = false` into `≠`) -/

mutual
theorem TreeNode.beq_refl : ∀ (t : TreeNode), TreeNode.beq t t = true
  | .mk _ _ _ c => by simp [TreeNode.beq, TreeNode.beqList_refl c]
theorem TreeNode.beqList_refl : ∀ (c : List TreeNode), TreeNode.beqList c c = true
  | [] => rfl
  | x :: r => by simp [TreeNode.beqList, TreeNode.beq_refl x, TreeNode.beqList_refl r]
end

mutual
theorem Yson.beq_refl : ∀ (v : Yson), Yson.beq v v = true
  | .null => rfl
  | .bool _ => by simp [Yson.beq]
  | .double _ => by simp [Yson.beq]
  | .str _ => by simp [Yson.beq]
  | .int _ => by simp [Yson.beq]
  | .long _ => by simp [Yson.beq]
  | .bytes _ => by simp [Yson.beq]
  | .date _ => by simp [Yson.beq]
  | .counter _ => by simp [Yson.beq]
  | .text _ => by simp [Yson.beq]
  | .tree r => by simp [Yson.beq, TreeNode.beq_refl r]
  | .arr xs => by simp [Yson.beq, Yson.beqList_refl xs]
  | .obj kvs => by simp [Yson.beq, Yson.beqKvs_refl kvs]
theorem Yson.beqList_refl : ∀ (xs : List Yson), Yson.beqList xs xs = true
  | [] => rfl
  | x :: r => by simp [Yson.beqList, Yson.beq_refl x, Yson.beqList_refl r]
theorem Yson.beqKvs_refl : ∀ (kvs : List (Str × Yson)), Yson.beqKvs kvs kvs = true
  | [] => rfl
  | (k, x) :: r => by simp [Yson.beqKvs, Yson.beq_refl x, Yson.beqKvs_refl r]
end

theorem Res.isOk_of_eq {r : Res Yson} {v : Yson} (h : r = .ok v) : r.isOk v = true := by
  subst h; exact Yson.beq_refl v

theorem Res.ne_ok_of_isOk_false {r : Res Yson} {v : Yson} (h : r.isOk v = false) : r ≠ .ok v := by
  intro he; rw [Res.isOk_of_eq he] at h; cases h

/-! ### rebuild (SetYSON → FromCRDT) -/

theorem rebuildSafe_iff (v : Yson) : RebuildSafe v = true ↔ ∀ t, rhits t v = false := by
  simp only [RebuildSafe, RTag.all, List.all_cons, List.all_nil, Bool.and_true, Bool.and_eq_true,
    Bool.not_eq_true']
  constructor
  · rintro ⟨h1, h2, h3, h4⟩ t; cases t <;> assumption
  · intro h; exact ⟨h _, h _, h _, h _⟩

mutual
theorem rebuildTreeChild_eq : ∀ (t : TreeNode), t.wf = true → treeChildSafe t = true → rebuildTreeChild t = .ok t
  | .mk ty v a c, hw, hs => by
    simp only [TreeNode.wf, Bool.and_eq_true] at hw
    obtain ⟨⟨_, hshape⟩, hc⟩ := hw
    by_cases hty : (ty == sText) = true
    · simp only [hty, if_true, Bool.and_eq_true] at hshape
      have ha := isEmpty_eq_nil hshape.1
      have hcn := isEmpty_eq_nil hshape.2
      subst ha; subst hcn
      simp only [treeChildSafe, hty, if_true, Bool.not_eq_true'] at hs
      simp [rebuildTreeChild, hty, hs]
    · have hty' : (ty == sText) = false := by simpa using hty
      simp only [hty', Bool.false_eq_true, if_false] at hshape
      have hv := isEmpty_eq_nil hshape
      subst hv
      simp only [treeChildSafe, hty', Bool.false_eq_true, if_false] at hs
      simp [rebuildTreeChild, hty', rebuildTreeChildren_eq c hc hs]
theorem rebuildTreeChildren_eq : ∀ (c : List TreeNode), TreeNode.wfList c = true → treeChildrenSafe c = true →
    rebuildTreeChildren c = .ok c
  | [], _, _ => rfl
  | x :: r, hw, hs => by
    simp only [TreeNode.wfList, Bool.and_eq_true] at hw
    simp only [treeChildrenSafe, Bool.and_eq_true] at hs
    simp [rebuildTreeChildren, rebuildTreeChild_eq x hw.1 hs.1, rebuildTreeChildren_eq r hw.2 hs.2]
end

theorem rebuildTree_eq (r : TreeNode) (hw : r.wf = true) (h1 : treeRootSafe r = true)
    (h2 : treeChildrenSafe (treeKidsOf r) = true) : rebuildTree r = .ok r := by
  obtain ⟨ty, v, a, c⟩ := r
  simp only [treeRootSafe, Bool.and_eq_true] at h1
  have hv := isEmpty_eq_nil h1.1
  have ha := isEmpty_eq_nil h1.2
  subst hv; subst ha
  simp only [TreeNode.wf, Bool.and_eq_true] at hw
  simp only [treeKidsOf] at h2
  simp [rebuildTree, rebuildTreeChildren_eq c hw.2 h2]

theorem filter_nonempty_eq (ns : List TextNode) (h : ns.any (fun n => n.val.isEmpty) = false) :
    List.filter (fun n => !n.val.isEmpty) ns = ns := by
  apply List.filter_eq_self.mpr
  intro n hn
  have := (List.any_eq_false.mp h) n hn
  simpa using this

mutual
theorem rebuild_eq : ∀ (v : Yson), v.wf = true → (∀ t, rhits t v = false) → rebuild v = .ok v
  | .null, _, _ => rfl
  | .bool _, _, _ => rfl
  | .double _, _, _ => rfl
  | .str _, _, _ => rfl
  | .int _, _, _ => rfl
  | .long _, _, _ => rfl
  | .bytes _, _, _ => rfl
  | .date _, _, _ => rfl
  | .counter (.int _), _, _ => rfl
  | .counter (.long _), _, _ => rfl
  | .counter (.dedup n regs), _, hs => by
    have h := hs .dedupRegisters
    simp only [rhits, beq_self_eq_true, Bool.true_and, bne_eq_false_iff_eq] at h
    have hne : regs.isEmpty = false := by
      cases regs with
      | nil => simp [hllBytes] at h
      | cons => rfl
    simp [rebuild, rebuildCounter, hne, h]
  | .text ns, _, hs => by
    have h := hs .textEmptyNode
    simp only [rhits, beq_self_eq_true, Bool.true_and] at h
    simp [rebuild, filter_nonempty_eq ns h]
  | .tree r, hw, hs => by
    simp only [Yson.wf] at hw
    have h1 := hs .treeRoot
    have h2 := hs .treeEmptyText
    simp only [rhits, beq_self_eq_true, Bool.true_and, Bool.or_eq_false_iff, Bool.not_eq_false',
      Bool.and_eq_false_iff] at h1 h2
    have h1' : treeRootSafe r = true := by
      rcases h1 with ⟨h1, _⟩; simpa using h1
    have h2' : treeChildrenSafe (treeKidsOf r) = true := by
      rcases h2 with ⟨_, h2⟩; simpa using h2
    simp [rebuild, rebuildTree_eq r hw h1' h2']
  | .arr xs, hw, hs => by
    simp only [Yson.wf] at hw
    have : ∀ t, rhitsList t xs = false := fun t => by simpa [rhits] using hs t
    simp [rebuild, rebuildList_eq xs hw this]
  | .obj kvs, hw, hs => by
    simp only [Yson.wf, Bool.and_eq_true] at hw
    have : ∀ t, rhitsKvs t kvs = false := fun t => by simpa [rhits] using hs t
    simp [rebuild, rebuildKvs_eq kvs hw.2 this]
theorem rebuildList_eq : ∀ (xs : List Yson), Yson.wfList xs = true → (∀ t, rhitsList t xs = false) →
    rebuildList xs = .ok xs
  | [], _, _ => rfl
  | x :: r, hw, hs => by
    simp only [Yson.wfList, Bool.and_eq_true] at hw
    have h1 : ∀ t, rhits t x = false := fun t => by
      have := hs t; simp only [rhitsList, Bool.or_eq_false_iff] at this; exact this.1
    have h2 : ∀ t, rhitsList t r = false := fun t => by
      have := hs t; simp only [rhitsList, Bool.or_eq_false_iff] at this; exact this.2
    simp [rebuildList, rebuild_eq x hw.1 h1, rebuildList_eq r hw.2 h2]
theorem rebuildKvs_eq : ∀ (kvs : List (Str × Yson)), Yson.wfKvs kvs = true → (∀ t, rhitsKvs t kvs = false) →
    rebuildKvs kvs = .ok kvs
  | [], _, _ => rfl
  | (k, x) :: r, hw, hs => by
    simp only [Yson.wfKvs, Bool.and_eq_true] at hw
    have h1 : ∀ t, rhits t x = false := fun t => by
      have := hs t; simp only [rhitsKvs, Bool.or_eq_false_iff] at this; exact this.1
    have h2 : ∀ t, rhitsKvs t r = false := fun t => by
      have := hs t; simp only [rhitsKvs, Bool.or_eq_false_iff] at this; exact this.2
    simp [rebuildKvs, rebuild_eq x hw.1.2 h1, rebuildKvs_eq r hw.2 h2]
end

end Yorkie.Yson
