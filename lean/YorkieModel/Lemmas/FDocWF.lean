/- Well-formedness of the faithful document heap and its preservation by every operation. -/
import YorkieModel.Lemmas.FDocBasic
namespace Yorkie.FDoc
open Yorkie
open Yorkie.Crdt (Op Val Err rootId headId)

/-- the part of an element that the structure invariant reads: parent pointer and body -/
def skel (r : Root) (t : Ticket) : Option (Option Ticket × Body) :=
  (r.get t).map (fun e => (e.parent, e.body))

/-- `nodeMapByKey` is a function of keys and every occupant is a node of `nodeMapByCreatedAt` under that key -/
def ObjWF (nodes : List (Ticket × String)) (byKey : List (String × Ticket)) : Prop :=
  (byKey.map (·.1)).Nodup ∧ ∀ p ∈ byKey, alGet nodes p.2 = some p.1

def BodyWF : Body → Prop
  | .obj nodes byKey => ObjWF nodes byKey
  | _ => True

/-- well-formed heap: the root object exists and has no parent; every structural child of a container is
    in the heap (`elementMap`) and points back to that container; object maps are consistent -/
structure WF (r : Root) : Prop where
  root : ∃ b, skel r rootId = some (none, b)
  child : ∀ t p b c, skel r t = some (p, b) → c ∈ bodyChildren b → ∃ b', skel r c = some (some t, b')
  body : ∀ t p b, skel r t = some (p, b) → BodyWF b

theorem WF.congr {r r' : Root} (h : ∀ t, skel r' t = skel r t) (w : WF r) : WF r' where
  root := by rw [h]; exact w.root
  child := by
    intro t p b c ht hc
    rw [h] at ht
    obtain ⟨b', hb'⟩ := w.child t p b c ht hc
    exact ⟨b', by rw [h]; exact hb'⟩
  body := by
    intro t p b ht
    rw [h] at ht
    exact w.body t p b ht

theorem skel_put (r : Root) (t x : Ticket) (e : Elem) :
    skel (r.put t e) x = if x = t then some (e.parent, e.body) else skel r x := by
  unfold skel
  rw [get_put]
  by_cases h : x = t <;> simp [h]

theorem skel_of_get {r : Root} {t : Ticket} {e : Elem} (h : r.get t = some e) : skel r t = some (e.parent, e.body) := by
  simp [skel, h]

theorem get_of_skel {r : Root} {t : Ticket} {p : Option Ticket} {b : Body} (h : skel r t = some (p, b)) :
    ∃ e, r.get t = some e ∧ e.parent = p ∧ e.body = b := by
  unfold skel at h
  cases hg : r.get t with
  | none => simp [hg] at h
  | some e =>
    simp [hg] at h
    exact ⟨e, rfl, h.1, h.2⟩

theorem skel_none_of_get {r : Root} {t : Ticket} (h : r.get t = none) : skel r t = none := by simp [skel, h]

/-- changing only `movedAt` / `removedAt` of an element keeps the skeleton -/
theorem skel_put_fields (r : Root) (t : Ticket) (e e' : Elem) (hg : r.get t = some e)
    (hp : e'.parent = e.parent) (hb : e'.body = e.body) (x : Ticket) : skel (r.put t e') x = skel r x := by
  rw [skel_put]
  by_cases h : x = t
  · subst h; simp [skel_of_get hg, hp, hb]
  · simp [h]

theorem skel_removeElem (r : Root) (t a x : Ticket) : skel (removeElem r t a).1 x = skel r x := by
  unfold removeElem
  cases hg : r.get t with
  | none => rfl
  | some e =>
    simp only
    split
    · refine skel_put_fields r t e _ hg ?_ ?_ x <;> rfl
    · rfl

theorem skel_setMovedAt (r : Root) (t m x : Ticket) : skel (setMovedAt r t m) x = skel r x := by
  unfold setMovedAt
  cases hg : r.get t with
  | none => rfl
  | some e =>
    simp only
    refine skel_put_fields r t e _ hg ?_ ?_ x <;> rfl

theorem skel_regRemoved (r : Root) (p e x : Ticket) : skel (regRemoved r p e) x = skel r x := rfl

theorem skel_regGcNode (r : Root) (g : GcNode) (x : Ticket) : skel (regGcNode r g) x = skel r x := by
  unfold regGcNode; split <;> rfl

/-- replacing the body of an existing container by one whose children all exist and point to it -/
theorem wf_put_body {r : Root} (w : WF r) {t : Ticket} {e : Elem} (hg : r.get t = some e) (b' : Body)
    (hc : ∀ c ∈ bodyChildren b', ∃ b'', skel r c = some (some t, b'')) (hb : BodyWF b') :
    WF (r.put t { e with body := b' }) := by
  have hst := skel_of_get hg
  refine ⟨?_, ?_, ?_⟩
  · obtain ⟨b, hr⟩ := w.root
    rw [skel_put]
    by_cases h : rootId = t
    · subst h
      rw [hst] at hr
      simp only [if_true]
      injection hr with hr
      injection hr with h1 _
      exact ⟨b', by rw [h1]⟩
    · simp only [h, if_false]; exact ⟨b, hr⟩
  · intro t1 p b c ht1 hcb
    rw [skel_put] at ht1
    have key : ∀ c b0 t0, skel r c = some (some t0, b0) → ∃ bb, skel (r.put t { e with body := b' }) c = some (some t0, bb) := by
      intro c b0 t0 hsc
      rw [skel_put]
      by_cases hct : c = t
      · subst hct
        rw [hst] at hsc
        injection hsc with hsc
        injection hsc with h1 _
        simp only [if_true]
        exact ⟨b', by rw [h1]⟩
      · simp only [hct, if_false]; exact ⟨b0, hsc⟩
    by_cases h : t1 = t
    · subst h
      simp only [if_true] at ht1
      injection ht1 with ht1
      injection ht1 with _ h2
      subst h2
      obtain ⟨b0, hb0⟩ := hc c hcb
      exact key c b0 t1 hb0
    · simp only [h, if_false] at ht1
      obtain ⟨b0, hb0⟩ := w.child t1 p b c ht1 hcb
      exact key c b0 t1 hb0
  · intro t1 p b ht1
    rw [skel_put] at ht1
    by_cases h : t1 = t
    · subst h
      simp only [if_true] at ht1
      injection ht1 with ht1
      injection ht1 with _ h2
      subst h2
      exact hb
    · simp only [h, if_false] at ht1
      exact w.body t1 p b ht1

/-- adding a fresh leaf (no structural children yet) -/
theorem wf_put_new {r : Root} (w : WF r) {ts : Ticket} (hf : r.get ts = none) (e : Elem)
    (hp : e.parent ≠ none) (hc : bodyChildren e.body = []) (hb : BodyWF e.body) : WF (r.put ts e) := by
  have hne : ∀ x p b, skel r x = some (p, b) → x ≠ ts := by
    intro x p b hx h; subst h; rw [skel_none_of_get hf] at hx; cases hx
  refine ⟨?_, ?_, ?_⟩
  · obtain ⟨b, hr⟩ := w.root
    rw [skel_put]
    simp only [hne _ _ _ hr, if_false]
    exact ⟨b, hr⟩
  · intro t1 p b c ht1 hcb
    rw [skel_put] at ht1
    by_cases h : t1 = ts
    · subst h
      simp only [if_true] at ht1
      injection ht1 with ht1
      injection ht1 with _ h2
      subst h2
      rw [hc] at hcb
      cases hcb
    · simp only [h, if_false] at ht1
      obtain ⟨b0, hb0⟩ := w.child t1 p b c ht1 hcb
      rw [skel_put]
      simp only [hne _ _ _ hb0, if_false]
      exact ⟨b0, hb0⟩
  · intro t1 p b ht1
    rw [skel_put] at ht1
    by_cases h : t1 = ts
    · subst h
      simp only [if_true] at ht1
      injection ht1 with ht1
      injection ht1 with _ h2
      subst h2
      exact hb
    · simp only [h, if_false] at ht1
      exact w.body t1 p b ht1

theorem val_body_children (v : Val) : bodyChildren (Val.body v) = [] := by
  cases v <;> simp [Val.body, bodyChildren, emptyObj]

theorem val_body_wf (v : Val) : BodyWF (Val.body v) := by
  cases v <;> simp [Val.body, BodyWF, emptyObj, ObjWF]

/-- a fresh ticket is not a structural child of anything -/
theorem fresh_not_child {r : Root} (w : WF r) {ts : Ticket} (hf : r.get ts = none) {t : Ticket} {p : Option Ticket}
    {b : Body} (ht : skel r t = some (p, b)) : ts ∉ bodyChildren b := by
  intro hm
  obtain ⟨b', hb'⟩ := w.child t p b ts ht hm
  rw [skel_none_of_get hf] at hb'
  cases hb'

/-! ### ElementRHT.SetWithExecutedAt -/

theorem objwf_set {nodes : List (Ticket × String)} {byKey : List (String × Ticket)} (h : ObjWF nodes byKey)
    (k : String) (v : Ticket) (hv : v ∉ nodes.map (·.1)) : ObjWF (alSet nodes v k) (alSet byKey k v) := by
  refine ⟨nodup_keys_alSet k v h.1, ?_⟩
  intro p hp
  rcases mem_alSet hp with e | e
  · subst e; exact alGet_alSet_same nodes v k
  · have hne : p.2 ≠ v := by
      intro e2
      exact hv (e2 ▸ alGet_some_mem_keys (h.2 p e))
    rw [alGet_alSet_other _ _ _ _ hne]
    exact h.2 p e

theorem objwf_add_node {nodes : List (Ticket × String)} {byKey : List (String × Ticket)} (h : ObjWF nodes byKey)
    (k : String) (v : Ticket) (hv : v ∉ nodes.map (·.1)) : ObjWF (alSet nodes v k) byKey := by
  refine ⟨h.1, ?_⟩
  intro p hp
  have hne : p.2 ≠ v := by
    intro e2
    exact hv (e2 ▸ alGet_some_mem_keys (h.2 p hp))
  rw [alGet_alSet_other _ _ _ _ hne]
  exact h.2 p hp

/-- `rhtSet` keeps the heap well-formed when the new child is already in the heap, points to the object
    and is not yet one of its nodes -/
theorem wf_rhtSet {r : Root} (w : WF r) (o : Ticket) (k : String) (v exec : Ticket)
    (hv : ∃ b, skel r v = some (some o, b))
    (hn : ∀ p b, skel r o = some (p, b) → v ∉ bodyChildren b) : WF (rhtSet r o k v exec).1 := by
  unfold rhtSet
  cases hgo : r.get o with
  | none => exact w
  | some oe =>
    simp only
    cases hbo : oe.body
    case obj nodes byKey =>
      simp only
      have hso : skel r o = some (oe.parent, .obj nodes byKey) := by rw [skel_of_get hgo, hbo]
      have hvn : v ∉ nodes.map (·.1) := by
        have := hn _ _ hso
        simpa [bodyChildren] using this
      have hbw : ObjWF nodes byKey := w.body _ _ _ hso
      -- children of the extended node list exist and point to `o`, in any root with the same skeleton
      have hch : ∀ (r' : Root), (∀ x, skel r' x = skel r x) → ∀ c ∈ bodyChildren (.obj (alSet nodes v k) (alSet byKey k v)),
          ∃ b'', skel r' c = some (some o, b'') := by
        intro r' hs c hc
        simp only [bodyChildren] at hc
        rcases keys_alSet_subset hc with e | e
        · subst e; obtain ⟨b, hb⟩ := hv; exact ⟨b, by rw [hs]; exact hb⟩
        · obtain ⟨b', hb'⟩ := w.child o _ _ c hso (by simpa [bodyChildren] using e)
          exact ⟨b', by rw [hs]; exact hb'⟩
      have hch2 : ∀ (r' : Root), (∀ x, skel r' x = skel r x) → ∀ c ∈ bodyChildren (.obj (alSet nodes v k) byKey),
          ∃ b'', skel r' c = some (some o, b'') := by
        intro r' hs c hc
        exact hch r' hs c (by simpa [bodyChildren] using hc)
      cases hocc : alGet byKey k with
      | none =>
        simp only
        refine WF.congr (skel_setMovedAt _ _ _) ?_
        exact wf_put_body w hgo _ (hch r (fun _ => rfl)) (objwf_set hbw k v hvn)
      | some occ =>
        simp only
        split
        · -- the new value wins
          rename_i hwin
          -- state after the optional eviction
          generalize hev : (if (!isRemoved r occ) = true then
              ((removeElem r occ exec).1, if (removeElem r occ exec).2 = true then some occ else none)
            else (r, none)) = ev
          have hsk : ∀ x, skel ev.1 x = skel r x := by
            intro x
            rw [← hev]
            split
            · exact skel_removeElem r occ exec x
            · rfl
          have w1 : WF ev.1 := WF.congr hsk w
          cases hg1 : ev.1.get o with
          | none => exact w1
          | some oe1 =>
            dsimp only
            have hb1 : oe1.body = .obj nodes byKey := by
              have h1 := skel_of_get hg1
              rw [hsk, hso] at h1
              injection h1 with h1
              injection h1 with _ h2
              exact h2.symm
            refine WF.congr (skel_setMovedAt _ _ _) ?_
            exact wf_put_body w1 hg1 _ (hch ev.1 hsk) (objwf_set hbw k v hvn)
        · -- the new value loses
          have w1 : WF (r.put o { oe with body := .obj (alSet nodes v k) byKey }) :=
            wf_put_body w hgo _ (hch2 r (fun _ => rfl)) (objwf_add_node hbw k v hvn)
          split
          · exact WF.congr (skel_removeElem _ _ _) w1
          · exact w1
    all_goals exact w

/-! ### RGATreeList insertion -/

theorem mem_insertSkip {moved : List (Ticket × Ticket)} {exec : Ticket} {new n : PosNode} {l : List PosNode}
    (h : n ∈ insertSkip moved exec new l) : n = new ∨ n ∈ l := by
  induction l with
  | nil => simp [insertSkip] at h; exact Or.inl h
  | cons a rest ih =>
    unfold insertSkip at h
    split at h
    · simp only [List.mem_cons] at h
      rcases h with h | h
      · exact Or.inr (by rw [h]; exact List.mem_cons_self ..)
      · rcases ih h with h | h
        · exact Or.inl h
        · exact Or.inr (List.mem_cons_of_mem _ h)
    · simp only [List.mem_cons] at h
      rcases h with h | h | h
      · exact Or.inl h
      · exact Or.inr (by rw [h]; exact List.mem_cons_self ..)
      · exact Or.inr (List.mem_cons_of_mem _ h)

theorem mem_insertAfterWhere {moved : List (Ticket × Ticket)} {exec : Ticket} {start : PosNode → Bool}
    {new n : PosNode} {l ns : List PosNode}
    (hs : insertAfterWhere moved exec start new l = some ns) (h : n ∈ ns) : n = new ∨ n ∈ l := by
  induction l generalizing ns with
  | nil => simp [insertAfterWhere] at hs
  | cons a rest ih =>
    unfold insertAfterWhere at hs
    split at hs
    · injection hs with hs
      subst hs
      simp only [List.mem_cons] at h
      rcases h with h | h
      · exact Or.inr (by rw [h]; exact List.mem_cons_self ..)
      · rcases mem_insertSkip h with h | h
        · exact Or.inl h
        · exact Or.inr (List.mem_cons_of_mem _ h)
    · cases hr : insertAfterWhere moved exec start new rest with
      | none => simp [hr] at hs
      | some ns' =>
        simp [hr] at hs
        subst hs
        simp only [List.mem_cons] at h
        rcases h with h | h
        · exact Or.inr (by rw [h]; exact List.mem_cons_self ..)
        · rcases ih hr h with h | h
          · exact Or.inl h
          · exact Or.inr (List.mem_cons_of_mem _ h)

theorem mem_insertAfter {moved : List (Ticket × Ticket)} {prev exec : Ticket} {new n : PosNode} {l ns : List PosNode}
    (hs : insertAfter moved prev exec new l = some ns) (h : n ∈ ns) : n = new ∨ n ∈ l := by
  unfold insertAfter at hs
  split at hs
  · injection hs with hs; subst hs; exact mem_insertSkip h
  · split at hs
    · exact mem_insertAfterWhere hs h
    · exact mem_insertAfterWhere hs h

theorem mem_insertPosAfter {moved : List (Ticket × Ticket)} {prev exec : Ticket} {new n : PosNode} {l ns : List PosNode}
    (hs : insertPosAfter moved prev exec new l = some ns) (h : n ∈ ns) : n = new ∨ n ∈ l := by
  unfold insertPosAfter at hs
  split at hs
  · injection hs with hs; subst hs; exact mem_insertSkip h
  · exact mem_insertAfterWhere hs h

theorem mem_elems_of_nodes {c : Ticket} {l : List PosNode} (h : c ∈ l.filterMap (·.elem)) :
    ∃ n ∈ l, n.elem = some c := by
  simpa [List.mem_filterMap] using h

theorem elems_mem_of_node {c : Ticket} {l : List PosNode} {n : PosNode} (hn : n ∈ l) (he : n.elem = some c) :
    c ∈ l.filterMap (·.elem) := by
  simp only [List.mem_filterMap]
  exact ⟨n, hn, he⟩

theorem posOf_some {nodes : List PosNode} {t p : Ticket} (h : posOf nodes t = some p) :
    t ∈ nodes.filterMap (·.elem) := by
  unfold posOf at h
  cases hf : nodes.find? (fun n => n.elem = some t) with
  | none => simp [hf] at h
  | some n =>
    have h1 := List.find?_some hf
    have h2 := List.mem_of_find?_eq_some hf
    exact elems_mem_of_node h2 (by simpa using h1)

theorem holds_mem {nodes : List PosNode} {t : Ticket} (h : holds nodes t = true) : t ∈ nodes.filterMap (·.elem) := by
  unfold holds at h
  simp only [List.any_eq_true, decide_eq_true_eq] at h
  obtain ⟨n, hn, he⟩ := h
  exact elems_mem_of_node hn he

/-! ### every operation preserves well-formedness -/

/-- tickets of creating operations are fresh (C06: tickets are unique) -/
def Fresh (r : Root) : Op → Prop
  | .set _ _ _ t => r.get t = none
  | .add _ _ _ t => r.get t = none
  | .arraySet _ _ _ t => r.get t = none
  | _ => True

instance (r : Root) (op : Op) : Decidable (Fresh r op) := by
  cases op <;> simp only [Fresh] <;> infer_instance

theorem wf_newElem {r : Root} (w : WF r) {ts : Ticket} (hf : r.get ts = none) (parent : Ticket) (v : Val) :
    WF (r.put ts (newElem parent v)) :=
  wf_put_new w hf _ (by simp [newElem]) (by simp [newElem, val_body_children]) (by simp [newElem, val_body_wf])

theorem skel_newElem_other {r : Root} {ts : Ticket} (hf : r.get ts = none) (parent : Ticket) (v : Val) {x : Ticket}
    {p : Option Ticket} {b : Body} (hx : skel r x = some (p, b)) :
    skel (r.put ts (newElem parent v)) x = some (p, b) := by
  rw [skel_put]
  have : x ≠ ts := by intro e; subst e; rw [skel_none_of_get hf] at hx; cases hx
  simp [this, hx]

theorem wf_set_tail (r1 : Root) (removed : Option Ticket) (parent created : Ticket) (w1 : WF r1) :
    WF (if isRemoved (match removed with | some occ => regRemoved r1 parent occ | none => r1) created = true
        then regRemoved (match removed with | some occ => regRemoved r1 parent occ | none => r1) parent created
        else (match removed with | some occ => regRemoved r1 parent occ | none => r1)) := by
  cases removed <;> dsimp only <;> split <;> exact WF.congr (r := r1) (fun _ => rfl) w1

theorem wf_applySetAt {r r' : Root} (w : WF r) {parent : Ticket} {key : String} {val : Val} {created exec : Ticket}
    (hf : r.get created = none) (h : applySetAt r parent key val created exec = .ok r') : WF r' := by
  unfold applySetAt at h
  cases hgp : r.get parent with
  | none => simp [hgp] at h
  | some pe =>
    simp only [hgp] at h
    cases hb : pe.body
    case obj nodes byKey =>
      simp only [hb] at h
      have w0 := wf_newElem w hf parent val
      have hne : parent ≠ created := by intro e; subst e; rw [hf] at hgp; cases hgp
      have w1 : WF (rhtSet (r.put created (newElem parent val)) parent key created exec).1 := by
        apply wf_rhtSet w0
        · exact ⟨Val.body val, by rw [skel_put]; simp [newElem]⟩
        · intro p b hs
          rw [skel_put] at hs
          simp only [hne, if_false] at hs
          exact fresh_not_child w hf hs
      injection h with h
      subst h
      exact wf_set_tail _ _ _ _ w1
    all_goals simp [hb] at h

theorem wf_applyAdd {r r' : Root} (w : WF r) {parent prev : Ticket} {val : Val} {ts : Ticket}
    (hf : r.get ts = none) (h : applyAdd r parent prev val ts = .ok r') : WF r' := by
  unfold applyAdd at h
  cases hgp : r.get parent with
  | none => simp [hgp] at h
  | some pe =>
    simp only [hgp] at h
    cases hb : pe.body
    case arr nodes moved =>
      simp only [hb] at h
      cases hi : insertAfter moved prev ts ⟨ts, some ts, none⟩ nodes with
      | none => simp [hi] at h
      | some ns =>
        simp only [hi] at h
        injection h with h
        subst h
        have w0 := wf_newElem w hf parent val
        have hne : parent ≠ ts := by intro e; subst e; rw [hf] at hgp; cases hgp
        have hg0 : (r.put ts (newElem parent val)).get parent = some pe := by rw [get_put_other _ _ _ _ hne]; exact hgp
        apply wf_put_body w0 hg0
        · intro c hc
          obtain ⟨n, hn, he⟩ := mem_elems_of_nodes (by simpa [bodyChildren] using hc)
          rcases mem_insertAfter hi hn with e | e
          · subst e
            simp at he
            subst he
            exact ⟨Val.body val, by rw [skel_put]; simp [newElem]⟩
          · have hsp : skel r parent = some (pe.parent, .arr nodes moved) := by rw [skel_of_get hgp, hb]
            obtain ⟨b', hb'⟩ := w.child parent _ _ c hsp (by simpa [bodyChildren] using elems_mem_of_node e he)
            exact ⟨b', skel_newElem_other hf parent val hb'⟩
        · trivial
    all_goals simp [hb] at h

theorem wf_applyIncrease {r r' : Root} (w : WF r) {parent : Ticket} {delta : Int}
    (h : applyIncrease r parent delta = .ok r') : WF r' := by
  unfold applyIncrease at h
  cases hgp : r.get parent with
  | none => simp [hgp] at h
  | some pe =>
    simp only [hgp] at h
    cases hb : pe.body
    case counter long v =>
      simp only [hb] at h
      injection h with h
      subst h
      exact wf_put_body w hgp _ (by intro c hc; simp [bodyChildren] at hc) trivial
    all_goals simp [hb] at h

theorem wf_applyRemove {r r' : Root} (w : WF r) {parent target ts : Ticket}
    (h : applyRemove r parent target ts = .ok r') : WF r' := by
  unfold applyRemove at h
  cases hgp : r.get parent with
  | none => simp [hgp] at h
  | some pe =>
    simp only [hgp] at h
    cases hb : pe.body
    case obj nodes byKey =>
      simp only [hb] at h
      split at h
      · cases h
      · injection h with h
        subst h
        split
        · exact WF.congr (fun x => by rw [skel_regRemoved, skel_removeElem]) w
        · exact WF.congr (fun x => by rw [skel_removeElem]) w
    case arr nodes moved =>
      simp only [hb] at h
      split at h
      · cases h
      · injection h with h
        subst h
        exact WF.congr (fun x => by rw [skel_regRemoved, skel_removeElem]) w
    all_goals simp [hb] at h

theorem wf_applyArraySet {r r' : Root} (w : WF r) {parent target : Ticket} {val : Val} {ts : Ticket}
    (hf : r.get ts = none) (h : applyArraySet r parent target val ts = .ok r') : WF r' := by
  unfold applyArraySet at h
  cases hgp : r.get parent with
  | none => simp [hgp] at h
  | some pe =>
    simp only [hgp] at h
    cases hb : pe.body
    case arr nodes moved =>
      simp only [hb] at h
      cases hi : insertAfter moved target ts ⟨ts, some ts, none⟩ nodes with
      | none => simp [hi] at h
      | some ns =>
        simp only [hi] at h
        split at h
        · cases h
        · injection h with h
          subst h
          refine WF.congr (fun x => skel_removeElem _ _ _ x) ?_
          have w0 := wf_newElem w hf parent val
          have hne : parent ≠ ts := by intro e; subst e; rw [hf] at hgp; cases hgp
          have hg0 : (r.put ts (newElem parent val)).get parent = some pe := by rw [get_put_other _ _ _ _ hne]; exact hgp
          apply wf_put_body w0 hg0
          · intro c hc
            obtain ⟨n, hn, he⟩ := mem_elems_of_nodes (by simpa [bodyChildren] using hc)
            rcases mem_insertAfter hi hn with e | e
            · subst e
              simp at he
              subst he
              exact ⟨Val.body val, by rw [skel_put]; simp [newElem]⟩
            · have hsp : skel r parent = some (pe.parent, .arr nodes moved) := by rw [skel_of_get hgp, hb]
              obtain ⟨b', hb'⟩ := w.child parent _ _ c hsp (by simpa [bodyChildren] using elems_mem_of_node e he)
              exact ⟨b', skel_newElem_other hf parent val hb'⟩
          · trivial
    all_goals simp [hb] at h

theorem relink_elem {target exec : Ticket} {n : PosNode} {c : Ticket} (h : (relink target exec n).elem = some c) :
    c = target ∨ n.elem = some c := by
  unfold relink at h
  split at h
  · simp at h
  · split at h
    · simp at h; exact Or.inl h.symm
    · exact Or.inr h

theorem wf_applyMove {r r' : Root} (w : WF r) {parent prev target ts : Ticket}
    (h : applyMove r parent prev target ts = .ok r') : WF r' := by
  unfold applyMove at h
  cases hgp : r.get parent with
  | none => simp [hgp] at h
  | some pe =>
    simp only [hgp] at h
    cases hb : pe.body
    case arr nodes moved =>
      simp only [hb] at h
      have hsp : skel r parent = some (pe.parent, .arr nodes moved) := by rw [skel_of_get hgp, hb]
      have old : ∀ c, c ∈ nodes.filterMap (·.elem) → ∃ b', skel r c = some (some parent, b') := by
        intro c hc
        exact w.child parent _ _ c hsp (by simpa [bodyChildren] using hc)
      split at h
      · cases h
      · cases hpo : posOf nodes target with
        | none => simp [hpo] at h
        | some oldPos =>
          simp only [hpo] at h
          split at h
          · split at h
            · injection h with h; subst h; exact w
            · cases hi : insertPosAfter moved prev ts ⟨ts, none, some ts⟩ nodes with
              | none => simp [hi] at h
              | some ns =>
                simp only [hi] at h
                injection h with h
                subst h
                refine WF.congr (r := r.put parent { pe with body := .arr ns moved }) (skel_regGcNode _ _) ?_
                apply wf_put_body w hgp
                · intro c hc
                  obtain ⟨n, hn, he⟩ := mem_elems_of_nodes (by simpa [bodyChildren] using hc)
                  rcases mem_insertPosAfter hi hn with e | e
                  · subst e; simp at he
                  · exact old c (elems_mem_of_node e he)
                · trivial
          · cases hi : insertPosAfter moved prev ts ⟨ts, none, none⟩ nodes with
            | none => simp [hi] at h
            | some ns =>
              simp only [hi] at h
              injection h with h
              subst h
              refine WF.congr (r := r.put parent { pe with body := .arr (ns.map (relink target ts)) (alSet moved target ts) })
                (fun x => by rw [skel_regGcNode, skel_setMovedAt]) ?_
              apply wf_put_body w hgp
              · intro c hc
                have hc' : c ∈ (ns.map (relink target ts)).filterMap (·.elem) := by
                  simpa only [bodyChildren] using hc
                obtain ⟨n', hn', he'⟩ := mem_elems_of_nodes hc'
                obtain ⟨n, hn, rfl⟩ := List.mem_map.mp hn'
                rcases relink_elem he' with e | e
                · subst e; exact old c (posOf_some hpo)
                · rcases mem_insertPosAfter hi hn with e2 | e2
                  · subst e2; simp at e
                  · exact old c (elems_mem_of_node e2 e)
              · trivial
    all_goals simp [hb] at h

/-- `wf_fexecute`: every operation that executes successfully keeps the heap well-formed -/
theorem wf_fexecute {r r' : Root} {op : Op} (w : WF r) (hf : Fresh r op) (h : fexecute r op = .ok r') : WF r' := by
  cases op with
  | set p k v t => exact wf_applySetAt w hf h
  | add p prev v t => exact wf_applyAdd w hf h
  | move p prev target t => exact wf_applyMove w h
  | remove p target t => exact wf_applyRemove w h
  | arraySet p target v t => exact wf_applyArraySet w hf h
  | increase p d t => exact wf_applyIncrease w h

theorem wf_init : WF Root.init := by
  refine ⟨⟨emptyObj, by decide⟩, ?_, ?_⟩
  · intro t p b c ht hc
    unfold skel Root.init Root.get at ht
    by_cases h : rootId = t
    · simp [alGet, h] at ht
      obtain ⟨_, h2⟩ := ht
      subst h2
      simp [emptyObj, bodyChildren] at hc
    · simp [alGet, h] at ht
  · intro t p b ht
    unfold skel Root.init Root.get at ht
    by_cases h : rootId = t
    · simp [alGet, h] at ht
      obtain ⟨_, h2⟩ := ht
      subst h2
      simp [emptyObj, BodyWF, ObjWF]
    · simp [alGet, h] at ht

end Yorkie.FDoc
