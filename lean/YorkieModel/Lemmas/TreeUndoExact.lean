/-
The cached lengths come back too (unbounded, one node): `TreeNode.remove` followed by `TreeNode.unremove` on a live
node gives back THE SAME ARENA - every field of every node, `VisibleLength` of every ancestor included - provided the
ancestor walk of `UpdateAncestorsLength` is a walk: it meets no node twice and does not meet the node itself
(`chain`; true in every tree, where parents form no cycle - `Tree.WF` does not state acyclicity, so it is a hypothesis
here; Props/C14Tree.lean discharges it on a concrete tree).
-/
import YorkieModel.Lemmas.TreeUndoWhole
namespace Yorkie.TreeUndo
open Yorkie Yorkie.Tree

/-- the nodes `UpdateAncestorsLength(delta)` (visible lengths) visits from `o` upwards: it stops after a tombstoned one -/
def chain : Nat → Tree → Option Ptr → List Ptr
  | 0, _, _ => []
  | _ + 1, _, none => []
  | f + 1, t, some q => q :: (if t.removed q then [] else chain f t (t.parentOf q))

theorem chain_congr {a b : Tree} : ∀ (f : Nat) (o : Option Ptr),
    (∀ q ∈ chain f a o, a.removed q = b.removed q ∧ a.parentOf q = b.parentOf q) → chain f a o = chain f b o
  | 0, _, _ => rfl
  | _ + 1, none, _ => rfl
  | f + 1, some q, h => by
    have hq := h q (by simp [chain])
    unfold chain
    rw [← hq.1, ← hq.2]
    by_cases hr : a.removed q = true
    · simp [hr]
    · simp only [hr]
      congr 1
      simp only [Bool.false_eq_true, if_false]
      exact chain_congr f _ (fun x hx => h x (by
        unfold chain
        simp only [hr, Bool.false_eq_true, if_false]
        exact List.mem_cons_of_mem _ hx))

def bump (d : Int) (x : TNode) : TNode := { x with visLen := x.visLen + d }

theorem removed_modify_bump (t : Tree) (a : Ptr) (d : Int) (q : Ptr) :
    (t.modify a (bump d)).removed q = t.removed q ∧ (t.modify a (bump d)).parentOf q = t.parentOf q := by
  unfold Tree.removed Tree.parentOf
  rw [get_modify]
  split <;> simp [bump]

/-- what `UpdateAncestorsLength` does, node by node, when its walk meets no node twice -/
theorem get_updAnc : ∀ (f : Nat) (t : Tree) (o : Option Ptr) (d : Int), (chain f t o).Nodup →
    (∀ q ∈ chain f t o, q < t.nodes.length) →
    ∀ q, (updAnc f t o d false).get q = if q ∈ chain f t o then bump d (t.get q) else t.get q
  | 0, _, _, _, _, _, _ => by simp [updAnc, chain]
  | _ + 1, _, none, _, _, _, _ => by simp [updAnc, chain]
  | f + 1, t, some a, d, hnd, hlt, q => by
    have ha : a < t.nodes.length := hlt a (by simp [chain])
    unfold updAnc
    simp only [Bool.false_eq_true, if_false]
    show (if t.removed a = true then t.modify a (bump d) else updAnc f (t.modify a (bump d)) (t.parentOf a) d false).get q = _
    by_cases hr : t.removed a = true
    · simp only [hr, if_true]
      have hc : chain (f + 1) t (some a) = [a] := by simp [chain, hr]
      rw [hc, get_modify]
      by_cases hq : q = a
      · subst hq; simp [ha]
      · simp [hq]
    · simp only [hr, Bool.false_eq_true, if_false]
      have hc : chain (f + 1) t (some a) = a :: chain f t (t.parentOf a) := by
        simp [chain, hr]
      rw [hc] at hnd hlt ⊢
      have hcc : chain f (t.modify a (bump d)) (t.parentOf a) = chain f t (t.parentOf a) :=
        chain_congr f _ (fun x _ => removed_modify_bump t a d x)
      have hnd' := List.nodup_cons.mp hnd
      have ih := get_updAnc f (t.modify a (bump d)) (t.parentOf a) d (by rw [hcc]; exact hnd'.2)
        (fun x hx => by
          rw [hcc] at hx
          simpa using hlt x (List.mem_cons_of_mem _ hx)) q
      rw [ih, hcc]
      by_cases hq : q = a
      · subst hq
        rw [if_neg hnd'.1, if_pos List.mem_cons_self, get_modify_same _ _ _ ha]
      · rw [get_modify_ne _ _ _ _ hq]
        by_cases hm : q ∈ chain f t (t.parentOf a)
        · rw [if_pos hm, if_pos (List.mem_cons_of_mem _ hm)]
        · rw [if_neg hm, if_neg (fun h => by
            cases h with
            | head => exact hq rfl
            | tail _ h' => exact hm h')]

theorem tree_ext {a b : Tree} (hs : a.size = b.size) (hr : a.root = b.root) (hi : a.idmap = b.idmap)
    (hl : a.nodes.length = b.nodes.length) (hg : ∀ q, a.get q = b.get q) : a = b := by
  cases a; cases b
  simp only at hs hr hi hl
  subst hs hr hi
  congr 1
  apply List.ext_getElem hl
  intro i h1 h2
  have := hg i
  simpa [Tree.get, List.getD_eq_getElem?_getD, List.getElem?_eq_getElem h1, List.getElem?_eq_getElem h2] using this

theorem bump_bump (d : Int) (x : TNode) : bump d (bump (-d) x) = x := by
  cases x
  simp only [bump, TNode.mk.injEq, true_and, and_true]
  omega

/-- **`remove` then `unremove` of a live node gives back the same arena, cached lengths included** -/
theorem unremove_removeNode_exact (t : Tree) (n : Ptr) (ts : Ticket) (hl : (t.get n).removedAt = none)
    (hn : n < t.nodes.length) (hnd : (chain t.fuel t (t.parentOf n)).Nodup)
    (hlt : ∀ q ∈ chain t.fuel t (t.parentOf n), q < t.nodes.length) (hself : n ∉ chain t.fuel t (t.parentOf n)) :
    unremove (t.removeNode n ts) n = t := by
  -- the flag set
  let t1 := t.modify n fun x => { x with removedAt := some ts }
  have g1 : ∀ q, t1.get q = if q = n then ({ t.get n with removedAt := some ts } : TNode) else t.get q := by
    intro q
    show (t.modify n _).get q = _
    rw [get_modify]
    by_cases hq : q = n
    · subst hq; simp [hn]
    · simp [hq]
  have p1 : t1.parentOf n = t.parentOf n := by
    unfold Tree.parentOf; rw [g1 n]; simp
  have c1 : chain t.fuel t1 (t.parentOf n) = chain t.fuel t (t.parentOf n) := by
    symm
    apply chain_congr
    intro q hq
    have hqn : q ≠ n := fun h => hself (h ▸ hq)
    unfold Tree.removed Tree.parentOf
    rw [g1 q, if_neg hqn]
    exact ⟨rfl, rfl⟩
  -- the ancestors lowered
  have e2 : t.removeNode n ts = updAnc t.fuel t1 (t.parentOf n) (-(t1.padded n false)) false := by
    unfold Tree.removeNode
    simp only [hl]
    show updAnc t1.fuel t1 (t1.parentOf n) _ false = _
    rw [p1]; rfl
  have g2 := get_updAnc t.fuel t1 (t.parentOf n) (-(t1.padded n false)) (by rw [c1]; exact hnd)
    (fun q hq => by rw [c1] at hq; simpa [t1] using hlt q hq)
  rw [c1] at g2
  rw [← e2] at g2
  have f2 := frame_removeNode t n ts
  -- the flag cleared
  have r2 : ((t.removeNode n ts).get n).removedAt = some ts := by
    rw [g2 n, if_neg hself, g1 n]; simp
  let t3 := (t.removeNode n ts).modify n fun x => { x with removedAt := none }
  have hn2 : n < (t.removeNode n ts).nodes.length := by rw [f2.2.1]; exact hn
  have g3 : ∀ q, t3.get q = if q = n then t.get n else (t.removeNode n ts).get q := by
    intro q
    show ((t.removeNode n ts).modify n _).get q = _
    rw [get_modify]
    by_cases hq : q = n
    · subst hq
      simp only [hn2, and_self, if_true]
      rw [g2 q, if_neg hself, g1 q]
      simp only [if_true]
      exact setRemoved_self _ hl
    · simp [hq]
  have p3 : t3.parentOf n = t.parentOf n := by
    unfold Tree.parentOf; rw [g3 n]; simp
  have c3 : chain t.fuel t3 (t.parentOf n) = chain t.fuel t (t.parentOf n) := by
    symm
    apply chain_congr
    intro q hq
    have hqn : q ≠ n := fun h => hself (h ▸ hq)
    unfold Tree.removed Tree.parentOf
    rw [g3 q, if_neg hqn, g2 q, if_pos hq, g1 q, if_neg hqn]
    simp [bump]
  have pad : t3.padded n false = t1.padded n false := by
    unfold Tree.padded Tree.len Tree.isText
    rw [g3 n, g1 n]; simp
  have e4 : unremove (t.removeNode n ts) n = updAnc t.fuel t3 (t.parentOf n) (t1.padded n false) false := by
    unfold unremove
    simp only [r2]
    show updAnc t3.fuel t3 (t3.parentOf n) (t3.padded n false) false = _
    rw [p3, pad]
    have : t3.fuel = t.fuel := by
      show ((t.removeNode n ts).modify n _).fuel = _
      rw [fuel_modify]; unfold Tree.fuel; rw [f2.1]
    rw [this]
  have l3 : t3.nodes.length = t.nodes.length := by
    show ((t.removeNode n ts).modify n _).nodes.length = _
    rw [length_nodes_modify]; exact f2.2.1
  have g4 := get_updAnc t.fuel t3 (t.parentOf n) (t1.padded n false) (by rw [c3]; exact hnd)
    (fun q hq => by rw [c3] at hq; rw [l3]; exact hlt q hq)
  rw [c3, ← e4] at g4
  have f4 := frame_unremove (t.removeNode n ts) n
  apply tree_ext (f4.1.trans f2.1) (f4.2.2.1.trans f2.2.2.1) (f4.2.2.2.trans f2.2.2.2) (f4.2.1.trans f2.2.1)
  intro q
  rw [g4 q]
  by_cases hq : q ∈ chain t.fuel t (t.parentOf n)
  · have hqn : q ≠ n := fun h => hself (h ▸ hq)
    rw [if_pos hq, g3 q, if_neg hqn, g2 q, if_pos hq, g1 q, if_neg hqn]
    exact bump_bump _ _
  · rw [if_neg hq, g3 q]
    by_cases hqn : q = n
    · rw [if_pos hqn, hqn]
    · rw [if_neg hqn, g2 q, if_neg hq, g1 q, if_neg hqn]

end Yorkie.TreeUndo
