/-
Equations of the history machine at the switch `fixReconcileParent` (Model/Undo.lean): the
unsuffixed definitions are the `…W fixReconcileParent` instances; these lemmas restate their
defining equations in the shape proofs want to rewrite with.
-/
import YorkieModel.Model.Undo
namespace Yorkie.Undo
open Yorkie Yorkie.Crdt

@[simp] theorem fix_on : fixReconcileParent = true := rfl

theorem rwp_on (a b t : Ticket) : rwp fixReconcileParent a b t = rw a b t := rfl
theorem rwp_off (a b t : Ticket) : rwp false a b t = t := rfl

@[simp] theorem twOf_on (tw : Ticket → Bool) : twOf fixReconcileParent tw = fun _ => false := rfl
theorem twOf_off (tw : Ticket → Bool) : twOf false tw = tw := rfl

@[simp] theorem addTwins_eq (tw : Ticket → Bool) (ids : List Ticket) : addTwins tw ids = tw := rfl

theorem addTwinsW_off (tw : Ticket → Bool) (ids : List Ticket) :
    addTwinsW false tw ids = fun t => tw t || ids.contains t := rfl

@[simp] theorem reconcileOp_arraySet (a b p target : Ticket) (v : UVal) (ts : Ticket) :
    reconcileOp a b (.arraySet p target v ts) = .arraySet (rw a b p) (rw a b target) v ts := rfl
@[simp] theorem reconcileOp_remove (a b p target ts : Ticket) :
    reconcileOp a b (.remove p target ts) = .remove (rw a b p) (rw a b target) ts := rfl
@[simp] theorem reconcileOp_move (a b p prev target ts : Ticket) :
    reconcileOp a b (.move p prev target ts) = .move (rw a b p) (rw a b prev) (rw a b target) ts := rfl
@[simp] theorem reconcileOp_add (a b p prev : Ticket) (v : UVal) (ts : Ticket) :
    reconcileOp a b (.add p prev v ts) = .add (rw a b p) (rw a b prev) v ts := rfl
@[simp] theorem reconcileOp_set (a b p : Ticket) (k : String) (v : UVal) (ts : Ticket) :
    reconcileOp a b (.set p k v ts) = .set (rw a b p) k v ts := rfl
@[simp] theorem reconcileOp_increase (a b p : Ticket) (dl : Int) (ts : Ticket) :
    reconcileOp a b (.increase p dl ts) = .increase (rw a b p) dl ts := rfl

theorem reconcileStack_eq (a b : Ticket) (s : List (List UOp)) :
    reconcileStack a b s = s.map (fun e => e.map (reconcileOp a b)) := rfl

theorem Hist.reconcile_eq (h : Hist) (a b : Ticket) :
    h.reconcile a b = { h with undo := reconcileStack a b h.undo, redo := reconcileStack a b h.redo } := rfl

@[simp] theorem runOps_nil (src : Source) (r : Run) : runOps src r [] = r := by
  simp [runOps, runOpsW]

theorem runOps_cons (src : Source) (r : Run) (op : UOp) (rest : List UOp) :
    runOps src r (op :: rest) =
      match uexecute r.doc (fun _ => false) src op with
      | .ok (d', rev) =>
        runOps src { r with doc := d', revs := r.revs ++ rev.toList, executed := r.executed ++ [op] } rest
      | .error .skipped => runOps src r rest
      | .error (.err _) => { r with failed := true } := by
  simp only [runOps, runOpsW]
  rfl

@[simp] theorem reconcileSets_nil (h : Hist) : reconcileSets h [] = h := by
  simp [reconcileSets, reconcileSetsW]

theorem doChange_eq (h : Hist) (ops : List UOp) :
    doChange h ops =
      if ops.isEmpty then h else
      let r := runOps .loc { doc := h.doc, tw := h.tw } ops
      if r.failed then { h with doc := r.doc, tw := r.tw } else
      let h1 := reconcileSets h r.executed
      let undo' := if r.revs.isEmpty then h1.undo else push h1.undo r.revs.reverse
      { h1 with doc := r.doc, tw := r.tw, undo := undo',
                redo := if r.executed.isEmpty then h1.redo else [],
                lamport := h.lamport + 1 } := rfl

theorem undoRedo_eq (h : Hist) (isUndo : Bool) :
    undoRedo h isUndo =
      match (if isUndo then h.undo else h.redo) with
      | [] => (h, .nothing)
      | entry :: restStack =>
        let h0 : Hist := if isUndo then { h with undo := restStack } else { h with redo := restStack }
        if entry.isEmpty then (h0, .nothing) else
        let (h1, ops) := reticket h0 1 entry
        let r := runOps .undoRedo { doc := h1.doc, tw := h1.tw } ops
        if r.failed then (h1, .failed ops) else
        let revs := r.revs.reverse
        let h2 : Hist :=
          if revs.isEmpty then h1
          else if isUndo then { h1 with redo := push h1.redo revs }
          else { h1 with undo := push h1.undo revs }
        if r.executed.isEmpty then ({ h2 with doc := r.doc, tw := r.tw }, .noop)
        else ({ h2 with doc := r.doc, tw := r.tw, lamport := h.lamport + 1 }, .change ops) := rfl

theorem applyRemote_eq (h : Hist) (changeLamport : Int) (ops : List UOp) :
    applyRemote h changeLamport ops =
      let r := runOps .remote { doc := h.doc, tw := h.tw } ops
      { h with doc := r.doc, tw := r.tw, lamport := Max.max h.lamport changeLamport + 1 } := rfl

@[simp] theorem applyRen_nil (fx : Bool) (op : UOp) : applyRen fx [] op = op := by
  cases fx <;> simp [applyRen]

/-- a single-operation entry (the case of every depth-1 theorem): no renaming is pending -/
theorem reticket_single (h : Hist) (i : Nat) (op : UOp) :
    reticket h i [op] =
      match op with
      | .add p prev v _ => (h.reconcile v.id ⟨h.lamport + 1, i, h.actor⟩,
          [.add p prev (v.reid ⟨h.lamport + 1, i, h.actor⟩) ⟨h.lamport + 1, i, h.actor⟩])
      | .arraySet p target v _ => ((h.reconcile target ⟨h.lamport + 1, i, h.actor⟩).reconcile v.id ⟨h.lamport + 1, i, h.actor⟩,
          [.arraySet p target (v.reid ⟨h.lamport + 1, i, h.actor⟩) ⟨h.lamport + 1, i, h.actor⟩])
      | op => (h, [op.withTs ⟨h.lamport + 1, i, h.actor⟩]) := by
  cases op <;> simp [reticket, reticketW, reticketGo, Hist.reconcile]

end Yorkie.Undo
