/-
`Tree.WF` through `Tree.Style`/`Tree.RemoveStyle` and through `Tree.Edit` without element split
(`splitLevel = 0`): deletion, merge (children moved across an element boundary), insertion of content.
-/
import YorkieModel.Lemmas.TreeWFOps
namespace Yorkie.Tree
open Yorkie

/-! ### Style -/

theorem SameLinks.propagateStyleGo (vv : VV) (f : List Attr → List Attr) :
    ∀ (k : Nat) (cur : Ptr) (t : Tree), SameLinks t (propagateStyleGo vv f k cur t)
  | 0, _, t => SameLinks.refl t
  | k + 1, cur, t => by
    unfold Yorkie.Tree.propagateStyleGo
    split
    · exact SameLinks.refl t
    · split
      · exact SameLinks.refl t
      · split
        · exact SameLinks.refl t
        · exact (SameLinks.modify _ _ _ (by intro _; rfl)).trans (SameLinks.propagateStyleGo vv f k _ _)

theorem SameLinks.styleStep (ts : Ticket) (vv : VV) (arg : StyleArg) (g : Option (Ptr × List Ptr)) (t : Tree) (tok : Token) :
    SameLinks t (styleStep ts vv arg g t tok) := by
  unfold Yorkie.Tree.styleStep
  simp only
  repeat' split
  all_goals first
    | exact SameLinks.refl t
    | exact SameLinks.modify _ _ _ (by intro _; rfl)
    | exact (SameLinks.modify _ _ _ (by intro _; rfl)).trans (SameLinks.propagateStyleGo _ _ _ _ _)

/-- **`Tree.Style` / `Tree.RemoveStyle` keep the arena well-formed** (any range, any version vector) -/
theorem style_wf {t t' : Tree} (w : t.WF) (fr to : Pos) (arg : StyleArg) (ts : Ticket) (vv : VV)
    (h : t.style fr to arg ts vv = .ok t') : t'.WF ∧ Keeps t t' := by
  unfold Tree.style at h
  split at h
  · cases h
  · rename_i t1 fp fl h1
    have g1 := findNodesSplit_good w fr ts true h1
    split at h
    · cases h
    · rename_i t2 tp tl h2
      have g2 := findNodesSplit_good g1.1 to ts true h2
      simp only at h
      split at h
      · cases h
      · rename_i toks _
        cases h
        have sl := SameLinks.foldl (fun t tok => SameLinks.styleStep ts vv arg (t2.interloperGuard to vv) t tok) toks t2
        exact ⟨g2.1.sameLinks sl, g1.2.1.trans (g2.2.1.trans (Keeps.of_sameLinks sl))⟩

/-! ### Edit: delete, merge -/

/-- `MoveChild`: the arena keeps its size and only `child`'s parent changes -/
theorem moveChild_keeps {t t' : Tree} (w : t.WF) (n child : Ptr) (hn : n < t.size) (hc : child < t.size)
    (h : t.moveChild n child = .ok t') : t'.size = t.size ∧ ∀ q, q ≠ child → (t'.get q).parent = (t.get q).parent := by
  unfold Tree.moveChild at h
  split at h
  · cases h
  · simp only at h
    split at h
    · cases h
    · rename_i t4 h4
      have key : t4.WF ∧ t4.size = t.size ∧ ∀ q, q ≠ child → (t4.get q).parent = (t.get q).parent := by
        split at h4
        · cases h4; exact ⟨w, rfl, fun _ _ => rfl⟩
        · split at h4
          · cases h4
          · rename_i op hp _ o ho
            have hm : t.moveChild op child = t.moveChild op child := rfl
            cases h4
            change ((Yorkie.Tree.lensAround (t.setChildren' op (eraseNth (t.get op).children o)) op child (t.removed child) (fun x => -x)).setParent child none).WF ∧ _ ∧ _
            have sl := SameLinks.lensAround (t.setChildren' op (eraseNth (t.get op).children o)) op child (t.removed child) (fun x => -x)
            refine ⟨w.unlink_via op child o ho rfl sl.1 sl.2.1 sl.2.2.1 sl.2.2.2.1 sl.2.2.2.2, sl.1, ?_⟩
            intro q hq
            have e1 : (((Yorkie.Tree.lensAround (t.setChildren' op (eraseNth (t.get op).children o)) op child (t.removed child) (fun x => -x)).setParent child none).get q).parent
                = ((Yorkie.Tree.lensAround (t.setChildren' op (eraseNth (t.get op).children o)) op child (t.removed child) (fun x => -x)).get q).parent := by
              unfold Tree.setParent; rw [get_modify_ne _ _ _ _ hq]
            refine e1.trans ?_
            rw [sl.parent]
            unfold Tree.setChildren'
            rw [get_modify]; split <;> rfl
      obtain ⟨w4, hs4, hp4⟩ := key
      cases h
      change (Yorkie.Tree.lensAround ((t4.setChildren' n ((t4.get n).children ++ [child])).setParent child (some n)) n child (t.removed child) (fun x => x)).size = _ ∧ _
      have sl := SameLinks.lensAround ((t4.setChildren' n ((t4.get n).children ++ [child])).setParent child (some n)) n child (t.removed child) (fun x => x)
      refine ⟨by rw [sl.1]; exact hs4, fun q hq => ?_⟩
      have e2 : ((Yorkie.Tree.lensAround ((t4.setChildren' n ((t4.get n).children ++ [child])).setParent child (some n)) n child (t.removed child) (fun x => x)).get q).parent
          = (((t4.setChildren' n ((t4.get n).children ++ [child])).setParent child (some n)).get q).parent := sl.parent q
      refine e2.trans ?_
      rw [link_parent t4 n child _ w4 (hs4 ▸ hn) (hs4 ▸ hc) q hq, hp4 q hq]

theorem resolveGo_lt {t : Tree} (w : t.WF) : ∀ (f : Nat) (target : Ptr) (seen : List Ptr), target < t.size →
    resolveGo t f target seen < t.size
  | 0, _, _, h => h
  | f + 1, target, seen, h => by
    unfold resolveGo
    split
    · split
      · exact h
      · rename_i next hnext
        split
        · exact h
        · exact resolveGo_lt w f next _ (w.findFloorO_lt hnext)
    · exact h

theorem Tree.WF.resolveMergeTarget_lt {t : Tree} (w : t.WF) {p : Ptr} (h : p < t.size) : t.resolveMergeTarget p < t.size :=
  resolveGo_lt w _ _ _ h

/-- `mergeNodes` -/
theorem mergeGo_good (dest : Ptr) (ts : Ticket) : ∀ (l : List Ptr) (t t' : Tree), t.WF → dest < t.size →
    mergeGo dest ts l t = .ok t' → t'.WF ∧ Keeps t t'
  | [], t, t', w, _, h => by unfold mergeGo at h; cases h; exact ⟨w, Keeps.refl _⟩
  | node :: r, t, t', w, hd, h => by
    unfold mergeGo at h
    split at h
    · exact mergeGo_good dest ts r t t' w hd h
    · rename_i par hpar
      simp only at h
      have hnlt : node < t.size := w.lt_of_parent hpar
      -- the stamp keeps the links
      have sl1 : SameLinks t (if (t.get node).mergedFrom.isNone = true then
          t.modify node (fun x => { x with mergedFrom := some (t.get par).id, mergedAt := some ts }) else t) :=
        SameLinks.ite _ (SameLinks.modify _ _ _ (by intro _; rfl)) (SameLinks.refl _)
      have w1 := w.sameLinks sl1
      split at h
      · cases h
      · rename_i t2 h2
        have hd1 : dest < _ := sl1.1 ▸ hd
        have hn1 : node < _ := sl1.1 ▸ hnlt
        have w2 := w1.moveChild dest node hd1 hn1 h2
        have k2 := moveChild_keeps w1 dest node hd1 hn1 h2
        have sl3 : SameLinks t2 (match t2.findFloorO (t2.get node).mergedFrom with
            | some src => t2.modify src (fun x => { x with mergedInto := some (t2.get dest).id })
            | none => t2) := by
          split
          · exact SameLinks.modify _ _ _ (by intro _; rfl)
          · exact SameLinks.refl _
        have w3 := w2.sameLinks sl3
        have hs3 : (match t2.findFloorO (t2.get node).mergedFrom with
            | some src => t2.modify src (fun x => { x with mergedInto := some (t2.get dest).id })
            | none => t2).size = t.size := by rw [sl3.1, k2.1, sl1.1]
        have ih := mergeGo_good dest ts r _ t' w3 (hs3 ▸ hd) h
        refine ⟨ih.1, Keeps.trans ⟨Nat.le_of_eq hs3.symm, fun q hq hp => ?_⟩ ih.2⟩
        rw [sl3.parent, k2.2 q (fun e => by rw [e] at hp; rw [show (t.get node).parent = some par from hpar] at hp; cases hp), sl1.parent]
        exact hp

theorem SameLinks.propagateGo (dest : Ptr) (merged : List Ptr) (ts : Ticket) :
    ∀ (l : List Ptr) (t : Tree), SameLinks t (propagateGo dest merged ts l t)
  | [], t => SameLinks.refl t
  | node :: r, t => by
    unfold Yorkie.Tree.propagateGo
    split
    · exact SameLinks.propagateGo dest merged ts r t
    · split
      · exact SameLinks.propagateGo dest merged ts r t
      · split
        · exact SameLinks.propagateGo dest merged ts r t
        · refine SameLinks.trans ?_ (SameLinks.propagateGo dest merged ts r _)
          apply SameLinks.foldl
          intro acc child
          split
          · exact (SameLinks.removeNode _ _ _).trans
              (SameLinks.foldl (fun a p => by unfold removeLive; split; exact SameLinks.refl _; exact SameLinks.removeNode _ _ _) _ _)
          · exact SameLinks.refl _

/-! ### Edit: insertion of content -/

theorem postorder_lt {t : Tree} (w : t.WF) : ∀ (f : Nat) (c : Ptr), c < t.size → ∀ p ∈ postorder f t c, p < t.size
  | 0, _, _, p, h => by simp [postorder] at h
  | f + 1, c, hc, p, h => by
    unfold postorder at h
    rcases List.mem_append.mp h with h | h
    · obtain ⟨ch, hch, hp⟩ := List.mem_flatMap.mp h
      exact postorder_lt w f ch (w.child_lt c ch hch) p hp
    · simp at h; exact h ▸ hc

/-- registering / tombstoning the nodes of an inserted subtree -/
theorem registerFold_good (fromParent : Ptr) (ts : Ticket) : ∀ (l : List Ptr) (t : Tree), t.WF → (∀ p ∈ l, p < t.size) →
    (l.foldl (fun acc p => (if acc.removed fromParent then acc.removeNode p ts else acc).putNode p) t).WF ∧
    (l.foldl (fun acc p => (if acc.removed fromParent then acc.removeNode p ts else acc).putNode p) t).size = t.size ∧
    ∀ q, ((l.foldl (fun acc p => (if acc.removed fromParent then acc.removeNode p ts else acc).putNode p) t).get q).parent = (t.get q).parent
  | [], t, w, _ => ⟨w, rfl, fun _ => rfl⟩
  | p :: r, t, w, hl => by
    rw [List.foldl_cons]
    have sl : SameLinks t (if t.removed fromParent = true then t.removeNode p ts else t) :=
      SameLinks.ite _ (SameLinks.removeNode _ _ _) (SameLinks.refl _)
    have w1 := (w.sameLinks sl).putNode p (by rw [sl.1]; exact hl p List.mem_cons_self)
    have hs1 : ((if t.removed fromParent = true then t.removeNode p ts else t).putNode p).size = t.size := by
      rw [putNode_size, sl.1]
    have ih := registerFold_good fromParent ts r _ w1 (fun x hx => by rw [hs1]; exact hl x (List.mem_cons_of_mem _ hx))
    refine ⟨ih.1, by rw [ih.2.1, hs1], fun q => ?_⟩
    rw [ih.2.2 q, SameLinks.putNode, sl.parent]

/-- the §9.4 intended-parent stamp on an inserted content root -/
def stampT (stamp : Option (NodeId × Option Ticket)) (t1 : Tree) (c : Ptr) : Tree :=
  match stamp with
  | some (mf, ma) => t1.modify c (fun x => { x with mergedFrom := some mf, mergedAt := ma })
  | none => t1

theorem SameLinks.stampT (stamp : Option (NodeId × Option Ticket)) (t1 : Tree) (c : Ptr) :
    SameLinks t1 (Yorkie.Tree.stampT stamp t1 c) := by
  unfold Yorkie.Tree.stampT
  split
  · exact SameLinks.modify _ _ _ (by intro _; rfl)
  · exact SameLinks.refl _

/-- Phase 8 of `Tree.Edit` -/
theorem insertContents_good (ts : Ticket) (fromParent : Ptr) (stamp : Option (NodeId × Option Ticket)) :
    ∀ (l : List Ptr) (left : Ptr) (t t' : Tree), t.WF → fromParent < t.size →
      (∀ c ∈ l, c < t.size ∧ (t.get c).parent = none) → l.Nodup →
      insertContents ts fromParent stamp l left t = .ok t' → t'.WF ∧ t'.size = t.size
  | [], _, t, t', w, _, _, _, h => by unfold insertContents at h; cases h; exact ⟨w, rfl⟩
  | c :: r, left, t, t', w, hfp, hl, hnd, h => by
    unfold insertContents at h
    simp only at h
    have hc := hl c List.mem_cons_self
    split at h
    · cases h
    · rename_i t1 h1
      have g1 : t1.WF ∧ t1.size = t.size ∧ ∀ q, q ≠ c → (t1.get q).parent = (t.get q).parent := by
        split at h1
        · exact ⟨w.insertAt fromParent c 0 hfp hc.1 hc.2 h1, insertAt_keeps w fromParent c 0 hfp hc.1 h1⟩
        · exact ⟨w.insertAfter fromParent c left hfp hc.1 hc.2 h1, insertAfter_keeps w fromParent c left hfp hc.1 h1⟩
      have sl2 := SameLinks.stampT stamp t1 c
      have w2 := g1.1.sameLinks sl2
      have hs2 := sl2.1.trans g1.2.1
      have hpo : ∀ p ∈ Tree.postorderOf _ c, p < _ := postorder_lt w2 _ c (by rw [hs2]; exact hc.1)
      have g3 := registerFold_good fromParent ts _ _ w2 hpo
      have hs3 := g3.2.1.trans hs2
      have ih := insertContents_good ts fromParent stamp r c _ t' g3.1 (by rw [hs3]; exact hfp)
        (fun x hx => by
          have hx' := hl x (List.mem_cons_of_mem _ hx)
          have hne : x ≠ c := fun e => (List.nodup_cons.mp hnd).1 (e ▸ hx)
          refine ⟨by rw [hs3]; exact hx'.1, ?_⟩
          rw [g3.2.2 x, sl2.parent, g1.2.2 x hne]; exact hx'.2)
        (List.nodup_cons.mp hnd).2 h
      exact ⟨ih.1, ih.2.trans hs3⟩

/-- **`Tree.Edit` without element split keeps the arena well-formed**: deletion, merge across an element boundary
    (children moved), insertion of detached content subtrees; any range, any version vector. -/
theorem edit_wf {t t' : Tree} {src src' : TickSrc} (w : t.WF) (fr to : Pos) (contents : List Ptr) (ts : Ticket)
    (vv : VV) (rev : Bool) (hc : ∀ c ∈ contents, c < t.size ∧ (t.get c).parent = none) (hnd : contents.Nodup)
    (h : t.edit fr to contents 0 ts src vv rev = .ok (t', src')) : t'.WF ∧ t.size ≤ t'.size := by
  unfold Tree.edit at h
  split at h
  · cases h
  · rename_i t1 fp fl0 h1
    have g1 := findNodesSplit_good w fr ts false h1
    split at h
    · cases h
    · rename_i t2 tp tl0 h2
      have g2 := findNodesSplit_good g1.1 to ts false h2
      simp only at h
      split at h
      · cases h
      · split at h
        · cases h
        · rename_i col _
          have sl3 := SameLinks.foldl (fun a n => SameLinks.removeNode a n ts) col.removeds t2
          have w3 := g2.1.sameLinks sl3
          have hfp2 : fp < t2.size := Nat.lt_of_lt_of_le g1.2.2.1 g2.2.1.1
          split at h
          · cases h
          · rename_i t4 h4
            have g4 := mergeGo_good _ ts col.moved _ t4 w3 (w3.resolveMergeTarget_lt (sl3.1 ▸ hfp2)) h4
            have sl5 := SameLinks.propagateGo (t4.resolveMergeTarget fp) col.merged ts col.removeds t4
            have w5 := g4.1.sameLinks sl5
            have k05 : Keeps t _ := g1.2.1.trans (g2.2.1.trans ((Keeps.of_sameLinks sl3).trans (g4.2.trans (Keeps.of_sameLinks sl5))))
            unfold splitLoop at h
            simp only at h
            split at h
            · cases h; exact ⟨w5, k05.1⟩
            · split at h
              · cases h
              · rename_i t7 h7
                cases h
                have hfp5 : fp < _ := Nat.lt_of_lt_of_le g1.2.2.1 (g2.2.1.trans ((Keeps.of_sameLinks sl3).trans (g4.2.trans (Keeps.of_sameLinks sl5)))).1
                have g7 := insertContents_good ts fp _ _ _ _ t' w5 hfp5
                  (fun c hcm => by
                    have hc' := hc c (List.mem_filter.mp hcm).1
                    exact ⟨Nat.lt_of_lt_of_le hc'.1 k05.1, k05.2 c hc'.1 hc'.2⟩)
                  (hnd.sublist List.filter_sublist) h7
                exact ⟨g7.1, by rw [g7.2]; exact k05.1⟩

end Yorkie.Tree
