/-
Text garbage collection, part 1: what `purge` does to the block list up to insertion links
(`purge_core`), to the abstraction (`purge_abs`, `purge_abs_filter`) and to every observation
(`visible`, `Text.String()`, `Text.Marshal()` unchanged).
Core Lean only.
-/
import YorkieModel.Model.TextGc
import YorkieModel.Lemmas.TextConvMarshal
set_option linter.unusedSimpArgs false
namespace Yorkie.TextConv
open Yorkie Yorkie.Text

/-! ### the block list up to insertion links -/

/-- everything of a node except its `insPrev` link -/
def core (n : TNode) : Id × List Nat × Option Ticket × List AttrNode := (n.id, n.units, n.removedAt, n.attrs)

theorem findById_none {s : TextSt} {i : Id} (h : findById s i = none) : ∀ m ∈ s, m.id ≠ i := by
  induction s with
  | nil => intro m hm; cases hm
  | cons a r ih =>
    unfold findById at h
    split at h
    · cases h
    · rename_i hne
      intro m hm
      rcases List.mem_cons.1 hm with rfl | hm
      · exact hne
      · exact ih h m hm

theorem core_purgeNode (s : TextSt) (i : Id) :
    (purgeNode s i).map core = List.filter (fun c => c.1 != i) (s.map core) := by
  unfold purgeNode
  cases h : findById s i with
  | none =>
    simp only
    symm
    apply List.filter_eq_self.2
    intro c hc
    obtain ⟨m, hm, rfl⟩ := List.mem_map.1 hc
    simpa [core] using findById_none h m hm
  | some n =>
    simp only [List.map_map, List.filter_map]
    apply List.map_congr_left
    intro m _
    simp only [Function.comp, core]
    split <;> rfl

theorem core_foldl_purgeNode (K : List Id) (s : TextSt) :
    (K.foldl purgeNode s).map core = List.filter (fun c => !K.contains c.1) (s.map core) := by
  induction K generalizing s with
  | nil =>
    simp only [List.foldl_nil, List.contains_nil, Bool.not_false]
    exact (List.filter_eq_self.2 (fun _ _ => rfl)).symm
  | cons i K ih =>
    simp only [List.foldl_cons, ih, core_purgeNode, List.filter_filter]
    apply List.filter_congr
    intro c _
    by_cases h1 : c.1 = i
    · simp [h1]
    · have h2 : ¬ i = c.1 := fun e => h1 e.symm
      simp [h1, h2, bne]

/-- **`purge` is "drop the covered tombstones" up to insertion links** (whatever the order in which
    the Go map is walked: the right-hand side does not mention an order) -/
theorem purge_core {s : TextSt} (nd : (ids s).Nodup) (vv : VV) :
    (purge vv s).map core = (List.filter (fun n => !purgeable vv n) s).map core := by
  unfold purge
  rw [core_foldl_purgeNode, List.filter_map]
  congr 1
  apply List.filter_congr
  intro n hn
  simp only [Function.comp, core]
  congr 1
  cases hp : purgeable vv n with
  | true =>
    exact List.contains_iff_mem.2 (List.mem_map.2 ⟨n, List.mem_filter.2 ⟨hn, hp⟩, rfl⟩)
  | false =>
    cases hc : ((List.filter (purgeable vv) s).map (·.id)).contains n.id with
    | false => rfl
    | true =>
      obtain ⟨m, hm, e⟩ := List.mem_map.1 (List.contains_iff_mem.1 hc)
      obtain ⟨hms, hmp⟩ := List.mem_filter.1 hm
      have : m = n := eq_of_id_eq nd hms hn e
      rw [this, hp] at hmp; cases hmp

theorem absNode_core {n m : TNode} (h : core n = core m) : absNode n = absNode m := by
  unfold core at h
  simp only [Prod.mk.injEq] at h
  obtain ⟨h1, h2, h3, h4⟩ := h
  unfold absNode nodeAttrs
  rw [h1, h2, h3, h4]

theorem abs_core {a b : TextSt} (h : a.map core = b.map core) : abs a = abs b := by
  induction a generalizing b with
  | nil =>
    cases b with
    | nil => rfl
    | cons _ _ => simp at h
  | cons n r ih =>
    cases b with
    | nil => simp at h
    | cons m r' =>
      simp only [List.map_cons, List.cons.injEq] at h
      rw [abs_cons, abs_cons, absNode_core h.1, ih h.2]

/-- (a) the abstraction after a purge: the cells of the surviving nodes -/
theorem purge_abs {s : TextSt} (nd : (ids s).Nodup) (vv : VV) :
    abs (purge vv s) = abs (List.filter (fun n => !purgeable vv n) s) :=
  abs_core (purge_core nd vv)

theorem abs_filter_sublist (p : TNode → Bool) (s : TextSt) : (abs (List.filter p s)).Sublist (abs s) := by
  induction s with
  | nil => exact List.Sublist.refl _
  | cons n r ih =>
    rw [List.filter_cons, abs_cons]
    split
    · rw [abs_cons]; exact List.Sublist.append (List.Sublist.refl _) ih
    · exact List.Sublist.trans ih (List.sublist_append_right _ _)

theorem purgeable_removed {vv : VV} {n : TNode} (h : purgeable vv n = true) : n.removedAt.isSome = true := by
  unfold purgeable at h
  cases hr : n.removedAt with
  | none => rw [hr] at h; cases h
  | some _ => rfl

/-- the ids of the cells a purge erases -/
def purgedCids (vv : VV) (s : TextSt) : List Id := cids (abs (List.filter (purgeable vv) s))

/-- (a) in filter form: the abstraction with exactly the cells of the covered tombstones erased -/
theorem purge_abs_filter {s : TextSt} (nd : (ids s).Nodup)
    (dj : ∀ n ∈ s, ∀ m ∈ s, n.id.1 = m.id.1 → n.id.2 < m.id.2 → n.id.2 + n.len ≤ m.id.2) (vv : VV) :
    abs (purge vv s) = List.filter (fun c => !(purgedCids vv s).contains c.id) (abs s) := by
  rw [purge_abs nd]
  have key : ∀ t : TextSt, (∀ n ∈ t, n ∈ s) →
      abs (List.filter (fun n => !purgeable vv n) t) =
        List.filter (fun c => !(purgedCids vv s).contains c.id) (abs t) := by
    intro t
    induction t with
    | nil => intro _; rfl
    | cons n r ih =>
      intro hsub
      have hn : n ∈ s := hsub n (by simp)
      rw [List.filter_cons, abs_cons, List.filter_append, ← ih (fun m hm => hsub m (List.mem_cons_of_mem _ hm))]
      cases hp : purgeable vv n with
      | true =>
        simp only [Bool.not_true, Bool.false_eq_true, if_false]
        have : List.filter (fun c => !(purgedCids vv s).contains c.id) (absNode n) = [] := by
          apply List.filter_eq_nil_iff.2
          intro c hc
          have : c.id ∈ purgedCids vv s :=
            List.mem_map.2 ⟨c, mem_abs.2 ⟨n, List.mem_filter.2 ⟨hn, hp⟩, hc⟩, rfl⟩
          rw [List.contains_iff_mem.2 this]; simp
        rw [this, List.nil_append]
      | false =>
        simp only [Bool.not_false, if_true]
        rw [abs_cons]
        congr 1
        symm
        apply List.filter_eq_self.2
        intro c hc
        cases hcon : (purgedCids vv s).contains c.id with
        | false => rfl
        | true =>
          exfalso
          obtain ⟨c', hc', e⟩ := List.mem_map.1 (List.contains_iff_mem.1 hcon)
          obtain ⟨m, hm, hcm⟩ := mem_abs.1 hc'
          obtain ⟨hms, hmp⟩ := List.mem_filter.1 hm
          obtain ⟨a1, a2, a3, _⟩ := mem_absNode hc
          obtain ⟨b1, b2, b3, _⟩ := mem_absNode hcm
          rw [e] at b1 b2 b3
          have : n = m := by
            apply eq_of_id_eq nd hn hms
            apply Prod.ext (a1.symm.trans b1)
            show n.id.2 = m.id.2
            rcases Nat.lt_trichotomy n.id.2 m.id.2 with h | h | h
            · have := dj n hn m hms (a1.symm.trans b1) h; omega
            · exact h
            · have := dj m hms n hn (b1.symm.trans a1) h; omega
          rw [this, hmp] at hp; cases hp
  exact key s (fun _ h => h)

/-- everything a purge erases was a tombstone -/
theorem purged_cells_removed {s : TextSt} {vv : VV} {c : Cell}
    (h : c ∈ abs (List.filter (purgeable vv) s)) : c.removed = true := by
  obtain ⟨n, hn, hc⟩ := mem_abs.1 h
  have := purgeable_removed (List.mem_filter.1 hn).2
  rw [(mem_mkCells hc).2.2.2.1]; exact this

/-! ### observations -/

theorem visible_core {a b : TextSt} (h : a.map core = b.map core) : visible a = visible b := by
  rw [visible_eq_liveUnits, visible_eq_liveUnits, abs_core h]

theorem visible_filter_dead {p : TNode → Bool} {s : TextSt} (h : ∀ n ∈ s, p n = false → n.live = false) :
    visible (List.filter p s) = visible s := by
  induction s with
  | nil => rfl
  | cons n r ih =>
    rw [List.filter_cons, visible_cons]
    have ihr := ih (fun m hm => h m (List.mem_cons_of_mem _ hm))
    cases hp : p n with
    | true => simp only [if_true]; rw [visible_cons, ihr]
    | false =>
      simp only [Bool.false_eq_true, if_false]
      rw [h n (by simp) hp, ihr]; simp

theorem not_purgeable_of_live {vv : VV} {n : TNode} (h : n.live = true) : purgeable vv n = false := by
  unfold TNode.live at h
  unfold purgeable
  cases hr : n.removedAt with
  | none => rfl
  | some _ => rw [hr] at h; cases h

/-- (a) the live content is unchanged -/
theorem purge_visible {s : TextSt} (nd : (ids s).Nodup) (vv : VV) : visible (purge vv s) = visible s := by
  rw [visible_core (purge_core nd vv)]
  apply visible_filter_dead
  intro n _ hp
  cases hl : n.live with
  | false => rfl
  | true => rw [not_purgeable_of_live hl] at hp; cases hp

/-- the nodes `Text.String()`/`Text.Marshal()` print, up to links -/
theorem shown_core (tc : Ticket) {a b : TextSt} (h : a.map core = b.map core) :
    (shown tc a).map core = (shown tc b).map core := by
  unfold shown
  have hd : (a.drop 1).map core = (b.drop 1).map core := by
    rw [List.map_drop, List.map_drop, h]
  generalize a.drop 1 = x at hd
  generalize b.drop 1 = y at hd
  induction x generalizing y with
  | nil =>
    cases y with
    | nil => rfl
    | cons _ _ => simp at hd
  | cons n r ih =>
    cases y with
    | nil => simp at hd
    | cons m r' =>
      simp only [List.map_cons, List.cons.injEq] at hd
      have e := hd.1
      unfold core at e
      simp only [Prod.mk.injEq] at e
      have hp : (n.id.1.cmp tc != .eq && n.live) = (m.id.1.cmp tc != .eq && m.live) := by
        unfold TNode.live; rw [e.1, e.2.2.1]
      rw [List.filter_cons, List.filter_cons, hp]
      split
      · simp only [List.map_cons, hd.1, ih _ hd.2]
      · exact ih _ hd.2

theorem shown_filter_live (tc : Ticket) {p : TNode → Bool} {h : TNode} {r : TextSt} (hh : p h = true)
    (hp : ∀ n ∈ r, p n = false → n.live = false) :
    shown tc (List.filter p (h :: r)) = shown tc (h :: r) := by
  unfold shown
  rw [List.filter_cons, if_pos hh]
  simp only [List.drop_succ_cons, List.drop_zero, List.filter_filter]
  apply List.filter_congr
  intro n hn
  cases hpn : p n with
  | true => simp
  | false => rw [hp n hn hpn]; simp

theorem marshalNode_core {n m : TNode} (h : core n = core m) : marshalNode n = marshalNode m := by
  unfold core at h
  simp only [Prod.mk.injEq] at h
  unfold marshalNode marshalAttrs
  rw [h.2.1, h.2.2.2]

/-- the head is live: it is never a candidate of a deletion, so never purged -/
def HeadLive (s : TextSt) : Prop := ∀ h r, s = h :: r → h.removedAt = none

/-- (a) `Text.Marshal()` and `Text.String()` are unchanged -/
theorem purge_marshal_toString {s : TextSt} (nd : (ids s).Nodup) (hl : HeadLive s) (vv : VV) (tc : Ticket) :
    marshal tc (purge vv s) = marshal tc s ∧ Text.toString tc (purge vv s) = Text.toString tc s := by
  have hs : (shown tc (purge vv s)).map core = (shown tc s).map core := by
    rw [shown_core tc (purge_core nd vv)]
    cases s with
    | nil => rfl
    | cons h r =>
      rw [shown_filter_live tc]
      · have := hl h r rfl
        unfold purgeable; rw [this]; rfl
      · intro n _ hp
        cases hlive : n.live with
        | false => rfl
        | true => rw [not_purgeable_of_live hlive] at hp; cases hp
  have hm : (shown tc (purge vv s)).map marshalNode = (shown tc s).map marshalNode := by
    have : ∀ {x y : TextSt}, x.map core = y.map core → x.map marshalNode = y.map marshalNode := by
      intro x
      induction x with
      | nil => intro y hy; cases y with
        | nil => rfl
        | cons _ _ => simp at hy
      | cons n r ih =>
        intro y hy
        cases y with
        | nil => simp at hy
        | cons m r' =>
          simp only [List.map_cons, List.cons.injEq] at hy
          simp only [List.map_cons, marshalNode_core hy.1, ih hy.2]
    exact this hs
  have hu : (shown tc (purge vv s)).map (fun n => stringOfUnits n.units) =
      (shown tc s).map (fun n => stringOfUnits n.units) := by
    have := congrArg (List.map (fun c : Id × List Nat × Option Ticket × List AttrNode => stringOfUnits c.2.1)) hs
    rw [List.map_map, List.map_map] at this
    exact this
  exact ⟨by unfold marshal; rw [hm], by unfold Text.toString; rw [hu]⟩

end Yorkie.TextConv
