/-
C18, text level, part B: the JSON reader applied to the pre-processed text `marshalP v`
of a safe well-formed value yields exactly the tree `toJ v`.  Core Lean only.
-/
import YorkieModel.Lemmas.YsonPrepassMain
namespace Yorkie.Yson

/-! ### string literals written by strconv.Quote -/

theorem hexVal_hexDigit : ∀ n, n < 16 → hexVal (hexDigit n) = some n := by decide

theorem hex4_hexDigits (c : Nat) (hc : c < 0x10000) (X : Str) :
    hex4 (hexDigit (c / 4096) :: hexDigit (c / 256 % 16) :: hexDigit (c / 16 % 16) :: hexDigit (c % 16) :: X)
      = some (c, X) := by
  have h1 := hexVal_hexDigit (c / 4096) (by omega)
  have h2 := hexVal_hexDigit (c / 256 % 16) (by omega)
  have h3 := hexVal_hexDigit (c / 16 % 16) (by omega)
  have h4 := hexVal_hexDigit (c % 16) (by omega)
  simp only [hex4, h1, h2, h3, h4, Option.some.injEq, Prod.mk.injEq, and_true]
  omega

theorem isPrint_ge {c : Nat} (h : isPrint c = true) : 32 ≤ c := by
  simp only [isPrint] at h
  split at h
  · simp only [Bool.or_eq_true, Bool.and_eq_true, decide_eq_true_eq] at h
    omega
  · omega

/-- one `\uD8xx\uDCxx` pair -/
theorem jStringAux_pair (f hi lo : Nat) (X : Str) (h1 : 0xD800 ≤ hi) (h2 : hi < 0xDC00) (h3 : 0xDC00 ≤ lo)
    (h4 : lo < 0xE000) :
    jStringAux (f + 1) (92 :: 117 :: hexDigit (hi / 4096) :: hexDigit (hi / 256 % 16) :: hexDigit (hi / 16 % 16) ::
      hexDigit (hi % 16) :: 92 :: 117 :: hexDigit (lo / 4096) :: hexDigit (lo / 256 % 16) :: hexDigit (lo / 16 % 16) ::
      hexDigit (lo % 16) :: X)
    = (match jStringAux f X with
       | some (s, rest) => some (((hi - 0xD800) * 1024 + (lo - 0xDC00) + 0x10000) :: s, rest)
       | none => none) := by
  have c1 : (decide (0xD800 ≤ hi) && decide (hi < 0xE000)) = true := by
    simp only [Bool.and_eq_true, decide_eq_true_eq]; omega
  have c2 : (decide (hi < 0xDC00) && decide (0xDC00 ≤ lo) && decide (lo < 0xE000)) = true := by
    simp only [Bool.and_eq_true, decide_eq_true_eq]; omega
  rw [jStringAux]
  simp only [show ((92 : Nat) == 34) = false from by decide, show ¬ ((92 : Nat) < 32) from by decide,
    show ((92 : Nat) == 92) = true from by decide, show ((117 : Nat) == 34) = false from by decide,
    show ((117 : Nat) == 92) = false from by decide, show ((117 : Nat) == 47) = false from by decide,
    show ((117 : Nat) == 98) = false from by decide, show ((117 : Nat) == 102) = false from by decide,
    show ((117 : Nat) == 110) = false from by decide, show ((117 : Nat) == 114) = false from by decide,
    show ((117 : Nat) == 116) = false from by decide, show ((117 : Nat) == 117) = true from by decide,
    Bool.false_eq_true, if_false, if_true, hex4_hexDigits hi (by omega), hex4_hexDigits lo (by omega), c1, c2]
  cases jStringAux f X with
  | none => rfl
  | some p => cases p; rfl

theorem jStringAux_quoteBody : ∀ (s : Str) (fuel : Nat) (rest : Str), wfStr s = true →
    (quoteBody s).length < fuel →
    jStringAux fuel (quoteBody s ++ 34 :: rest) = some (s, rest)
  | [], fuel, rest, _, hf => by
    cases fuel with
    | zero => simp [quoteBody] at hf
    | succ f => simp [quoteBody, jStringAux]
  | c :: r, fuel, rest, hw, hf => by
    simp only [wfStr, List.all_cons, Bool.and_eq_true] at hw
    have hlen : (quoteBody (c :: r)).length = (quoteChar c).length + (quoteBody r).length := by
      simp [quoteBody]
    cases fuel with
    | zero => omega
    | succ f =>
      have ih : ∀ f', (quoteBody r).length < f' → jStringAux f' (quoteBody r ++ 34 :: rest) = some (r, rest) :=
        fun f' hf' => jStringAux_quoteBody r f' rest (by simpa [wfStr] using hw.2) hf'
      have hv := hw.1
      simp only [validCp, Bool.or_eq_true, Bool.and_eq_true, decide_eq_true_eq] at hv
      simp only [quoteBody, List.append_assoc]
      by_cases h34 : c = 34
      · subst h34
        have hq : quoteChar 34 = [92, 34] := by decide
        have hl : (quoteBody r).length < f := by rw [hq] at hlen; simp at hlen; omega
        simp only [hq, List.cons_append, List.nil_append, jStringAux]
        simp [ih f hl]
      by_cases h92 : c = 92
      · subst h92
        have hq : quoteChar 92 = [92, 92] := by decide
        have hl : (quoteBody r).length < f := by rw [hq] at hlen; simp at hlen; omega
        simp only [hq, List.cons_append, List.nil_append, jStringAux]
        simp [ih f hl]
      by_cases hp : isPrint c = true
      · have hq : quoteChar c = [c] := by simp [quoteChar, h34, h92, hp]
        have hl : (quoteBody r).length < f := by rw [hq] at hlen; simp at hlen; omega
        have h32 := isPrint_ge hp
        have hlt : ¬ c < 32 := by omega
        simp only [hq, List.cons_append, List.nil_append, jStringAux]
        simp [h34, h92, hlt, ih f hl]
      have hp' : isPrint c = false := by simpa using hp
      by_cases h8 : c = 8
      · subst h8
        have hq : quoteChar 8 = [92, 98] := by decide
        have hl : (quoteBody r).length < f := by rw [hq] at hlen; simp at hlen; omega
        simp only [hq, List.cons_append, List.nil_append, jStringAux]
        simp [ih f hl]
      by_cases h12 : c = 12
      · subst h12
        have hq : quoteChar 12 = [92, 102] := by decide
        have hl : (quoteBody r).length < f := by rw [hq] at hlen; simp at hlen; omega
        simp only [hq, List.cons_append, List.nil_append, jStringAux]
        simp [ih f hl]
      by_cases h10 : c = 10
      · subst h10
        have hq : quoteChar 10 = [92, 110] := by decide
        have hl : (quoteBody r).length < f := by rw [hq] at hlen; simp at hlen; omega
        simp only [hq, List.cons_append, List.nil_append, jStringAux]
        simp [ih f hl]
      by_cases h13 : c = 13
      · subst h13
        have hq : quoteChar 13 = [92, 114] := by decide
        have hl : (quoteBody r).length < f := by rw [hq] at hlen; simp at hlen; omega
        simp only [hq, List.cons_append, List.nil_append, jStringAux]
        simp [ih f hl]
      by_cases h9 : c = 9
      · subst h9
        have hq : quoteChar 9 = [92, 116] := by decide
        have hl : (quoteBody r).length < f := by rw [hq] at hlen; simp at hlen; omega
        simp only [hq, List.cons_append, List.nil_append, jStringAux]
        simp [ih f hl]
      by_cases hbig : c < 0x10000
      · -- \uXXXX, not a surrogate because the string is valid
        have hq : quoteChar c = [92, 117, hexDigit (c / 4096), hexDigit (c / 256 % 16), hexDigit (c / 16 % 16),
            hexDigit (c % 16)] := by
          simp [quoteChar, h34, h92, hp', h8, h12, h10, h13, h9, hbig]
        have hl : (quoteBody r).length < f := by rw [hq] at hlen; simp at hlen; omega
        have hsur : ¬ (0xD800 ≤ c ∧ c < 0xE000) := by omega
        simp only [hq, List.cons_append, List.nil_append, jStringAux]
        simp only [hex4_hexDigits c hbig]
        simp [hsur, ih f hl]
      · -- a UTF-16 surrogate pair
        have hc1 : 0x10000 ≤ c := by omega
        have hc2 : c < 0x110000 := by omega
        generalize hhi : 0xD800 + (c - 0x10000) / 1024 = hi
        generalize hlo : 0xDC00 + (c - 0x10000) % 1024 = lo
        have hhi1 : 0xD800 ≤ hi ∧ hi < 0xDC00 := by omega
        have hlo1 : 0xDC00 ≤ lo ∧ lo < 0xE000 := by omega
        have hq : quoteChar c = [92, 117, hexDigit (hi / 4096), hexDigit (hi / 256 % 16), hexDigit (hi / 16 % 16),
            hexDigit (hi % 16), 92, 117, hexDigit (lo / 4096), hexDigit (lo / 256 % 16), hexDigit (lo / 16 % 16),
            hexDigit (lo % 16)] := by
          simp [quoteChar, h34, h92, hp', h8, h12, h10, h13, h9, hbig, hhi, hlo]
        have hl : (quoteBody r).length < f := by rw [hq] at hlen; simp at hlen; omega
        have hcomb : (hi - 0xD800) * 1024 + (lo - 0xDC00) + 0x10000 = c := by omega
        simp only [hq, List.cons_append, List.nil_append]
        rw [jStringAux_pair f hi lo _ hhi1.1 hhi1.2 hlo1.1 hlo1.2, ih f hl, hcomb]

theorem jString_quote (s rest : Str) (hw : wfStr s = true) :
    jString (quoteBody s ++ 34 :: rest) = some (s, rest) :=
  jStringAux_quoteBody s _ rest hw (by simp; omega)

/-! ### raw string literals (constant names, base64 and date payloads) -/

theorem jStringAux_key : ∀ (k : Str) (fuel : Nat) (rest : Str), k.any keyNeedsEscape = false → k.length < fuel →
    jStringAux fuel (k ++ 34 :: rest) = some (k, rest)
  | [], fuel, rest, _, hf => by
    cases fuel with
    | zero => simp at hf
    | succ f => simp [jStringAux]
  | c :: r, fuel, rest, hk, hf => by
    simp only [List.any_cons, Bool.or_eq_false_iff] at hk
    cases fuel with
    | zero => simp at hf
    | succ f =>
      have hc := hk.1
      simp only [keyNeedsEscape, Bool.or_eq_false_iff, beq_eq_false_iff_ne, decide_eq_false_iff_not] at hc
      simp only [List.cons_append, jStringAux]
      simp [hc.1.1, hc.1.2, hc.2, jStringAux_key r f rest hk.2 (by simpa using hf)]

theorem jString_key (k rest : Str) (hk : k.any keyNeedsEscape = false) :
    jString (k ++ 34 :: rest) = some (k, rest) :=
  jStringAux_key k _ rest hk (by simp; omega)

/-! ### number literals -/

/-- what may follow a number literal: nothing that would extend it -/
def NumStop (rest : Str) : Prop := ∀ c t, rest = c :: t → isDigit c = false ∧ c ≠ 46 ∧ c ≠ 101 ∧ c ≠ 69

theorem takeDigits_append : ∀ (x rest : Str), NumStop rest →
    takeDigits (x ++ rest) = ((takeDigits x).1, (takeDigits x).2 ++ rest)
  | [], rest, hs => by
    cases rest with
    | nil => rfl
    | cons c t => simp [takeDigits, (hs c t rfl).1]
  | c :: x, rest, hs => by
    simp only [List.cons_append, takeDigits]
    split
    · simp [takeDigits_append x rest hs]
    · rfl

theorem jInt_append {y ip r rest : Str} (h : jInt y = some (ip, r)) (hs : NumStop rest) :
    jInt (y ++ rest) = some (ip, r ++ rest) := by
  cases y with
  | nil => simp [jInt] at h
  | cons c t =>
    simp only [jInt, List.cons_append] at h ⊢
    split at h
    · rename_i hc
      simp only [Option.some.injEq, Prod.mk.injEq] at h
      simp [hc, h.1, h.2]
    · rename_i hc
      split at h
      · rename_i hd
        simp only [Option.some.injEq] at h
        have := takeDigits_append (c :: t) rest hs
        simp only [List.cons_append] at this
        simp [hc, hd, this, h]
      · simp at h

theorem jFrac_append {y fp r rest : Str} (h : jFrac y = some (fp, r)) (hs : NumStop rest) :
    jFrac (y ++ rest) = some (fp, r ++ rest) := by
  cases y with
  | nil =>
    simp only [jFrac, Option.some.injEq, Prod.mk.injEq] at h
    obtain ⟨rfl, rfl⟩ := h
    cases rest with
    | nil => rfl
    | cons c t =>
      have := (hs c t rfl).2.1
      simp [jFrac, this]
  | cons c t =>
    simp only [jFrac, List.cons_append] at h ⊢
    split at h
    · rename_i hc
      split at h
      · simp at h
      · rename_i hne
        simp only [Option.some.injEq, Prod.mk.injEq] at h
        simp [hc, takeDigits_append t rest hs, hne, h.1, h.2]
    · rename_i hc
      simp only [Option.some.injEq, Prod.mk.injEq] at h
      simp [hc, ← h.1, ← h.2]

theorem jExpSign_append {t rest : Str} (ht : t ≠ []) :
    jExpSign (t ++ rest) = ((jExpSign t).1, (jExpSign t).2 ++ rest) := by
  cases t with
  | nil => exact absurd rfl ht
  | cons c u =>
    simp only [List.cons_append, jExpSign]
    split <;> rfl

theorem jExp_append {y ep r rest : Str} (h : jExp y = some (ep, r)) (hs : NumStop rest) :
    jExp (y ++ rest) = some (ep, r ++ rest) := by
  cases y with
  | nil =>
    simp only [jExp, Option.some.injEq, Prod.mk.injEq] at h
    obtain ⟨rfl, rfl⟩ := h
    cases rest with
    | nil => rfl
    | cons c t =>
      have := hs c t rfl
      simp [jExp, this.2.2.1, this.2.2.2]
  | cons c t =>
    simp only [jExp, List.cons_append] at h ⊢
    split at h
    · rename_i hc
      split at h
      · simp at h
      · rename_i hne
        simp only [Option.some.injEq, Prod.mk.injEq] at h
        have ht : t ≠ [] := by
          rintro rfl
          simp [jExpSign, takeDigits] at hne
        simp only [hc, if_true, jExpSign_append ht, takeDigits_append _ rest hs, hne]
        simp [h.1, h.2]
    · rename_i hc
      simp only [Option.some.injEq, Prod.mk.injEq] at h
      simp [hc, ← h.1, ← h.2]

theorem jSign_append {c : Nat} {t rest : Str} :
    jSign ((c :: t) ++ rest) = ((jSign (c :: t)).1, (jSign (c :: t)).2 ++ rest) := by
  simp only [List.cons_append, jSign]
  split
  · rename_i heq
    simp only [List.cons.injEq] at heq
    obtain ⟨rfl, rfl⟩ := heq
    rfl
  · rename_i hne
    split
    · rename_i heq
      simp only [List.cons.injEq] at heq
      obtain ⟨rfl, rfl⟩ := heq
      exact absurd rfl (hne _)
    · rfl

theorem jNumber_append {t a r rest : Str} (h : jNumber t = some (a, r)) (hs : NumStop rest) :
    jNumber (t ++ rest) = some (a, r ++ rest) := by
  cases t with
  | nil => simp [jNumber, jSign, jInt] at h
  | cons c u =>
    simp only [jNumber] at h
    split at h
    · simp at h
    · rename_i ip s2 hi
      split at h
      · simp at h
      · rename_i fp s3 hf
        split at h
        · simp at h
        · rename_i ep s4 he
          simp only [Option.some.injEq, Prod.mk.injEq] at h
          simp only [jNumber, jSign_append, jInt_append hi hs, jFrac_append hf hs, jExp_append he hs]
          simp [← h.1, h.2]

/-! ### `%d` -/

theorem digitsVal_natDigitsAux : ∀ (fuel n : Nat) (acc : Str), n < fuel →
    digitsVal (natDigitsAux fuel n acc) 0 = digitsVal acc n
  | 0, _, _, h => by omega
  | fuel + 1, n, acc, h => by
    simp only [natDigitsAux]
    split
    · simp [digitsVal]
    · rw [digitsVal_natDigitsAux fuel (n / 10) _ (by omega)]
      simp only [digitsVal]
      congr 1
      omega

theorem digitsVal_natDigits (n : Nat) : digitsVal (natDigits n) 0 = n := by
  simp [natDigits, digitsVal_natDigitsAux, digitsVal]

/-- no leading zero -/
theorem natDigitsAux_head : ∀ (fuel n : Nat) (acc : Str), 0 < n → n < fuel →
    ∃ d t, natDigitsAux fuel n acc = d :: t ∧ d ≠ 48 ∧ d ≠ 45
  | 0, _, _, _, h => by omega
  | fuel + 1, n, acc, hn, h => by
    simp only [natDigitsAux]
    split
    · exact ⟨48 + n, acc, rfl, by omega, by omega⟩
    · exact natDigitsAux_head fuel (n / 10) _ (by omega) (by omega)

theorem takeDigits_all : ∀ {s : Str}, s.all isDigit = true → takeDigits s = (s, [])
  | [], _ => rfl
  | c :: r, h => by
    simp only [List.all_cons, Bool.and_eq_true] at h
    simp [takeDigits, h.1, takeDigits_all h.2]

theorem jInt_natDigits (m : Nat) : jInt (natDigits m) = some (natDigits m, []) := by
  by_cases hm : m = 0
  · subst hm; decide
  · obtain ⟨d, t, hd, h48, _⟩ := natDigitsAux_head (m + 1) m [] (by omega) (by omega)
    have hall := natDigits_all m
    simp only [natDigits] at hall ⊢
    rw [hd] at hall ⊢
    have hdig : isDigit d = true := by
      simp only [List.all_cons, Bool.and_eq_true] at hall; exact hall.1
    simp [jInt, h48, hdig, takeDigits_all hall]

theorem isJsonNumber_showInt (n : Int) : isJsonNumber (showInt n) = true := by
  have hj : jNumber (showInt n) = some (showInt n, []) := by
    have hs := jSign_showInt n []
    simp only [List.append_nil] at hs
    simp only [jNumber, hs, jInt_natDigits, jFrac, jExp]
    rw [showInt_eq]; simp
  simp [isJsonNumber, hj]

theorem jNumber_showInt (n : Int) {rest : Str} (hs : NumStop rest) :
    jNumber (showInt n ++ rest) = some (showInt n, rest) := by
  have := jNumber_append (isJsonNumber_spec (isJsonNumber_showInt n)) hs
  simpa using this

theorem numTokOfText_showInt (n : Int) : numTokOfText (showInt n) = .int n := by
  have hval : intLitVal (showInt n) = n := by
    cases n with
    | ofNat m =>
      by_cases hm : m = 0
      · subst hm; decide
      · obtain ⟨d, t, hd, _, h45⟩ := natDigitsAux_head (m + 1) m [] (by omega) (by omega)
        have hv := digitsVal_natDigits m
        simp only [showInt, natDigits] at hv ⊢
        rw [hd] at hv ⊢
        simp only [intLitVal]
        split
        · rename_i heq; simp at heq; exact absurd heq.1 h45
        · simp [hv]
    | negSucc m =>
      simp only [showInt, intLitVal, digitsVal_natDigits]
      omega
  have hlit : isIntLit (showInt n) = true := by
    cases n with
    | ofNat m =>
      have hall := natDigits_all m
      have hne := natDigits_ne_nil m
      simp only [showInt, isIntLit]
      split
      · rename_i r heq
        rw [heq] at hall
        simp [isDigit] at hall
      · cases hd : natDigits m with
        | nil => exact absurd hd hne
        | cons => simpa [hd] using hall
    | negSucc m =>
      have hall := natDigits_all (m + 1)
      have hne := natDigits_ne_nil (m + 1)
      simp only [showInt, isIntLit]
      cases hd : natDigits (m + 1) with
      | nil => exact absurd hd hne
      | cons => simpa [hd] using hall
  simp [numTokOfText, hlit, hval]

end Yorkie.Yson
