/- `SafeRun` (the decidable side condition of `gc_equiv_partial`) and the induction over histories that carries
   the simulation `Sim` through operations and purges. -/
import YorkieModel.Lemmas.FDocSimOps
namespace Yorkie.FDoc
open Yorkie
open Yorkie.Crdt (Op Val Err rootId)

/-- `Safe`, evaluated along the two runs in lock-step (decidable).  At every operation that the GC-off run
    executes: the operation's ticket is fresh, `OpSafe` holds between the two current roots –
    array operations (`add`, `move`, `arraySet`) act on an array from which nothing has been purged
    (`Untouched`), a `Set` does not lose against an occupant that has been purged (`SetSafe`), `remove` and
    `increase` are unrestricted – and the operation finds its parent / anchors / targets in the GC-on root as
    well (it executes); every purge executes.  The four C03 findings all violate `Untouched`. -/
def SafeRun : List Step → Root → Root → Prop
  | [], _, _ => True
  | .op o :: rest, g, n =>
    match fexecute n o with
    | .error _ => True
    | .ok n' =>
      OpSafe g n o ∧ Fresh n o ∧
      match fexecute g o with
      | .ok g' => SafeRun rest g' n'
      | .error _ => False
  | .gc v :: rest, g, n =>
    match garbageCollect v g with
    | .ok p => SafeRun rest p.1 n
    | .error _ => False
  | .snap _ :: _, _, _ => False

instance safeRunDec : ∀ (h : List Step) (g n : Root), Decidable (SafeRun h g n)
  | [], _, _ => isTrue trivial
  | .op o :: rest, g, n => by
    unfold SafeRun
    cases hn : fexecute n o with
    | error e => exact isTrue trivial
    | ok n' =>
      simp only
      cases hg : fexecute g o with
      | error e =>
        simp only
        exact isFalse (fun h => h.2.2)
      | ok g' =>
        simp only
        have := safeRunDec rest g' n'
        infer_instance
  | .gc v :: rest, g, n => by
    unfold SafeRun
    cases garbageCollect v g with
    | error e => exact isFalse id
    | ok p => exact safeRunDec rest p.1 n
  | .snap _ :: _, _, _ => isFalse id

theorem fresh_of_sim {g n : Root} (s : Sim g n) {op : Op} (h : Fresh n op) : Fresh g op := by
  have key : ∀ t, n.get t = none → g.get t = none := by
    intro t ht
    cases hg : g.get t with
    | none => rfl
    | some eg => obtain ⟨en, a1, _⟩ := s.sub t eg hg; rw [ht] at a1; cases a1
  cases op <;> first | exact key _ h | trivial

/-- **`gc_equiv_partial`** (simulation form): if the GC-on root simulates the GC-off root, both are well-formed
    and the history is `Safe`, then wherever the GC-off run arrives the GC-on run arrives too (no operation and no
    purge fails), again in simulation – hence with the same `Marshal()` (`gc_equiv_partial` below). -/
theorem gc_equiv_sim : ∀ (h : List Step) (g n n' : Root), Sim g n → WF g → WF n → SafeRun h g n →
    run false h n = .ok n' → ∃ g', run true h g = .ok g' ∧ Sim g' n' ∧ WF g' ∧ WF n' := by
  intro h
  induction h with
  | nil =>
    intro g n n' s wg wn _ hr
    simp only [run] at hr
    injection hr with hr
    subst hr
    exact ⟨g, rfl, s, wg, wn⟩
  | cons st rest ih =>
    intro g n n' s wg wn safe hr
    cases st with
    | op o =>
      simp only [run, runStep] at hr ⊢
      cases hn : fexecute n o with
      | error e => simp [hn] at hr
      | ok n1 =>
        simp only [hn] at hr
        simp only [SafeRun, hn] at safe
        obtain ⟨hsafe, hfresh, hrest⟩ := safe
        cases hg : fexecute g o with
        | error e => simp [hg] at hrest
        | ok g1 =>
          simp only [hg] at hrest ⊢
          have s1 := sim_fexecute s wg wn hfresh hsafe hg hn
          have wg1 := FDoc.wf_fexecute wg (fresh_of_sim s hfresh) hg
          have wn1 := FDoc.wf_fexecute wn hfresh hn
          exact ih g1 n1 n' s1 wg1 wn1 hrest hr
    | gc v =>
      simp only [run, runStep] at hr ⊢
      simp only [SafeRun] at safe
      cases hg : garbageCollect v g with
      | error e => simp [hg] at safe
      | ok p =>
        simp only [hg] at safe ⊢
        simp only [Bool.false_eq_true, if_false] at hr
        have s1 := sim_garbageCollect (k := p.2) s wg (by rw [hg])
        have wg1 := (invisible_garbageCollect (n := p.2) wg (by rw [hg])).wf
        exact ih p.1 n n' s1 wg1 wn safe hr
    | snap p => exact absurd safe id

/-- a prefix of a successful run succeeds -/
theorem run_prefix_ok (gcOn : Bool) : ∀ (h₁ h₂ : List Step) (r r' : Root), run gcOn (h₁ ++ h₂) r = .ok r' →
    ∃ r₁, run gcOn h₁ r = .ok r₁ := by
  intro h₁
  induction h₁ with
  | nil => intro h₂ r r' _; exact ⟨r, rfl⟩
  | cons a rest ih =>
    intro h₂ r r' hr
    simp only [List.cons_append, run] at hr ⊢
    cases hs : runStep gcOn r a with
    | error e => simp [hs] at hr
    | ok r1 => simp only [hs] at hr ⊢; exact ih h₂ r1 r' hr

/-- `Safe` is prefix closed along the GC-off run -/
theorem safeRun_prefix : ∀ (h₁ h₂ : List Step) (g n : Root), SafeRun (h₁ ++ h₂) g n → SafeRun h₁ g n := by
  intro h₁
  induction h₁ with
  | nil => intro _ _ _ _; trivial
  | cons a rest ih =>
    intro h₂ g n hs
    cases a with
    | op o =>
      simp only [List.cons_append, SafeRun] at hs ⊢
      cases hn : fexecute n o with
      | error e => trivial
      | ok n1 =>
        simp only [hn] at hs ⊢
        refine ⟨hs.1, hs.2.1, ?_⟩
        cases hg : fexecute g o with
        | error e => have := hs.2.2; simp [hg] at this
        | ok g1 =>
          have := hs.2.2
          simp only [hg] at this ⊢
          exact ih h₂ g1 n1 this
    | gc v =>
      simp only [List.cons_append, SafeRun] at hs ⊢
      cases hg : garbageCollect v g with
      | error e => simp [hg] at hs
      | ok p => simp only [hg] at hs ⊢; exact ih h₂ p.1 n hs
    | snap p => exact absurd hs id

/-- freshness along a history (the GC-on or GC-off run of it) -/
def FreshRun (gcOn : Bool) : List Step → Root → Prop
  | [], _ => True
  | s :: rest, r =>
    (match s with | .op o => Fresh r o | _ => True) ∧
    match runStep gcOn r s with
    | .ok r' => FreshRun gcOn rest r'
    | .error _ => True

instance freshRunDec (gcOn : Bool) : ∀ (h : List Step) (r : Root), Decidable (FreshRun gcOn h r)
  | [], _ => isTrue trivial
  | s :: rest, r =>
    have d1 : Decidable (match s with | .op o => Fresh r o | _ => True) := by
      cases s <;> simp only <;> infer_instance
    have d2 : Decidable (match runStep gcOn r s with | .ok r' => FreshRun gcOn rest r' | .error _ => True) := by
      cases runStep gcOn r s with
      | ok r' => exact freshRunDec gcOn rest r'
      | error _ => exact isTrue trivial
    by unfold FreshRun; exact instDecidableAnd

end Yorkie.FDoc
