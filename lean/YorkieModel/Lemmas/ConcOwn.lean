/-
Helper lemmas for Model/Conc.lean, part 4: one phase of a request preserves the delivery invariant
of the store and re-establishes the request's own record (`own_step`).
-/
import YorkieModel.Lemmas.ConcStep
namespace Yorkie.Conc
open Yorkie Yorkie.Server

theorem respOf_cp (req : Request) (f : Flight) : (respOf req f).cp = f.resp.cp := by cases req <;> rfl
theorem respOf_changes (req : Request) (f : Flight) : (respOf req f).changes = f.resp.changes := by cases req <;> rfl
theorem respOf_snapshot (req : Request) (f : Flight) : (respOf req f).snapshot = f.resp.snapshot := by
  cases req <;> rfl

theorem stepFlight_lock (s : Server) (r : InFlight) : (stepFlight s r).2.lock = r.lock := by
  unfold stepFlight
  rcases r.pc.phase s r.f with ⟨s', e | f'⟩ <;> rfl

theorem not_active_error {r : InFlight} {e : ErrKind} : ¬ Active { r with pc := .done, out := .error e } := by
  intro h
  rcases h with h | ⟨resp, h⟩
  · exact h rfl
  · simp at h

theorem own_step {s : Server} {g : Ghost} {r : InFlight} (hD : DInv s g) (h : FOk s g r) (hpc : r.pc ≠ .done)
    (hsnap : (stepFlight s r).2.f.resp.snapshot = false) :
    DInv (stepFlight s r).1 g ∧ (Active (stepFlight s r).2 → FOk (stepFlight s r).1 g (stepFlight s r).2) ∧
    (∀ c d, (c ≠ r.f.client ∨ d ≠ r.f.doc) → entryOf (stepFlight s r).1 c d = entryOf s c d) := by
  obtain ⟨doc, hd, hl⟩ := h.hdoc
  have hgap := hD.gap r.f.doc doc hd
  have hview : doc.disablePresence = false → ViewOk r.f.client (g r.f.client r.f.doc) doc.log :=
    fun hdp => hD.view r.f.client r.f.doc doc hd hdp
  rcases hp : r.pc.phase s r.f with ⟨s', e | f'⟩
  · -- the phase fails: nothing but (possibly) the push has been written
    simp only [stepFlight, hp] at hsnap ⊢
    have hc := phase_clients hp (Or.inr ⟨e, rfl⟩)
    exact ⟨dinv_same_clients hD (phase_docsExt r.pc hp) hc, fun ha => absurd ha not_active_error,
      fun c d _ => entryOf_of_clients_eq hc c d⟩
  · simp only [stepFlight, hp] at hsnap ⊢
    cases hq : r.pc with
    | done => exact absurd hq hpc
    | validate =>
      simp only [hq, Pc.phase] at hp
      obtain ⟨e1, e2, _⟩ := validateClientSeq_ok hp
      subst e1; subst e2
      refine ⟨hD, fun _ => ?_, fun _ _ _ => rfl⟩
      exact h.repc rfl rfl hpc (by simp [Pc.next]) (by simp [hq, Pc.next, Pc.ord]) (by simp [hq, Pc.next])
        (by simp [hq, Pc.next, Pc.ord]) (by simp [hq, Pc.next, Pc.ord])
    | strip =>
      simp only [hq, Pc.phase] at hp
      rw [stripPresence_eq] at hp
      injection hp with e1 e2; injection e2 with e2
      subst e1; subst e2
      refine ⟨hD, fun _ => ?_, fun _ _ _ => rfl⟩
      refine ⟨by simpa using ⟨doc, hd, hl⟩, ?_, ?_, ?_, ?_, ?_, ?_, ?_, ?_, ?_⟩
      · simpa using h.dp
      · intro _; simpa using h.cp hpc
      · intro _; simpa using stripped_honest (h.own hpc)
      · intro _; simpa using h.att (by simp [hq, Pc.ord])
      · intro _; simpa using h.ackI (by simp [hq, Pc.ord])
      · intro hx; simp [Pc.next] at hx
      · intro hx; simp [Pc.next, Pc.ord] at hx
      · intro hx; simp [Pc.next, Pc.ord] at hx
      · intro hx; simp [Pc.next] at hx
    | push =>
      simp only [hq, Pc.phase] at hp
      obtain ⟨doc0, p, hd0, hguard, e1, e2⟩ := pushPack_ok hp
      rw [hd] at hd0; injection hd0 with hd0; subst hd0
      have hc : s'.clients = s.clients := by rw [e1]; rfl
      have hfd : s'.findDoc r.f.doc = some (pushedDoc doc r.f p) := by
        rw [e1]; simp [Server.findDoc, Server.setDoc, AL.get?_set_self]
      have hpo := pushedOk_of_push hd hgap hview (h.ackI (by simp [hq, Pc.ord])) (h.own hpc) hguard
      rw [← e1] at hpo
      subst e2
      refine ⟨dinv_same_clients hD (pushPack_docsExt hp) hc, fun _ => ?_, fun c d _ => entryOf_of_clients_eq hc c d⟩
      refine ⟨⟨_, hfd, hl⟩, ?_, ?_, ?_, ?_, ?_, ?_, ?_, ?_, ?_⟩
      · intro doc' hd'
        have hd'' : s'.findDoc r.f.doc = some doc' := hd'
        rw [hfd] at hd''; injection hd'' with hd''; subst hd''
        exact h.dp doc hd
      · intro _; exact h.cp hpc
      · intro _; exact h.own hpc
      · intro _; exact h.att (by simp [hq, Pc.ord])
      · intro hx; simp [Pc.next, Pc.ord] at hx
      · intro _; exact hpo
      · intro hx; simp [Pc.next, Pc.ord] at hx
      · intro hx; simp [Pc.next, Pc.ord] at hx
      · intro hx; simp [Pc.next] at hx
    | pull =>
      simp only [hq, Pc.phase] at hp
      obtain ⟨e1, r0, hpull, e2⟩ := preparePack_ok hp
      subst e1; subst e2
      have hs0 : r0.snapshot = false := by simpa [hq, Pc.next] using hsnap
      have hpl := pulledOk_of_pull hd hgap hview (h.pushed hq) (h.cp hpc) hpull hs0
      refine ⟨hD, fun _ => ?_, fun _ _ _ => rfl⟩
      refine ⟨⟨doc, hd, hl⟩, ?_, ?_, ?_, ?_, ?_, ?_, ?_, ?_, ?_⟩
      · exact h.dp
      · intro _; exact h.cp hpc
      · intro _; exact h.own hpc
      · intro _; exact h.att (by simp [hq, Pc.ord])
      · intro hx; simp [Pc.next, Pc.ord] at hx
      · intro hx; simp [Pc.next] at hx
      · intro _ _; exact hpl.congr rfl rfl rfl
      · intro hx; simp [Pc.next, Pc.ord] at hx
      · intro hx; simp [Pc.next] at hx
    | status =>
      simp only [hq, Pc.phase] at hp
      obtain ⟨e1, i, hi, e2⟩ := updateDocStatus_ok hp
      subst e1; subst e2
      refine ⟨hD, fun _ => ?_, fun _ _ _ => rfl⟩
      refine ⟨⟨doc, hd, hl⟩, ?_, ?_, ?_, ?_, ?_, ?_, ?_, ?_, ?_⟩
      · exact h.dp
      · intro _; exact h.cp hpc
      · intro _; exact h.own hpc
      · intro hx; simp [Pc.next, Pc.ord] at hx
      · intro hx; simp [Pc.next, Pc.ord] at hx
      · intro hx; simp [Pc.next] at hx
      · intro _ _; exact h.pulled (by simp [hq, Pc.ord]) hpc
      · intro _ _
        obtain ⟨cd0, hcd0, _, hpost⟩ := updateDocStatus_spec hi
        show ∃ cd, i.docs.get? r.f.doc = some cd ∧ (cd.status = .attached ∨ isOpenSt cd.status = false) ∧
          (cd.status = .attached → r.f.resp.cp.clientSeq ≤ cd.clientSeq)
        cases hst : r.f.status with
        | attached =>
          rw [hst] at hpost
          simp only [StatusPost] at hpost
          obtain ⟨cd1, hcd1, hat⟩ := h.att (by simp [hq, Pc.ord]) hst
          rw [hcd0] at hcd1; injection hcd1 with hcd1; subst hcd1
          exact ⟨{ cd0 with serverSeq := r.f.resp.cp.serverSeq, clientSeq := r.f.resp.cp.clientSeq },
            by rw [hpost]; exact AL.get?_set_self _ _ _, Or.inl hat, fun _ => Nat.le_refl _⟩
        | detached =>
          rw [hst] at hpost
          simp only [StatusPost] at hpost
          exact ⟨_, by rw [hpost.2.2]; exact AL.get?_set_self _ _ _, Or.inr (by simp [isOpenSt]), fun hx => by simp at hx⟩
        | removed =>
          rw [hst] at hpost
          simp only [StatusPost] at hpost
          exact ⟨_, by rw [hpost.2.2]; exact AL.get?_set_self _ _ _, Or.inr (by simp [isOpenSt]), fun hx => by simp at hx⟩
      · intro hx; simp [Pc.next] at hx
    | vvWrite =>
      simp only [hq, Pc.phase] at hp
      have hc := phase_clients (pc := .vvWrite) hp (Or.inl (by simp))
      have ext := vvWrite_docsExt hp
      obtain ⟨e2, _⟩ := vvWrite_ok hp
      subst e2
      refine ⟨dinv_same_clients hD ext hc, fun _ => ?_, fun c d _ => entryOf_of_clients_eq hc c d⟩
      have h' := h.frame (g' := g) ext hD.gap rfl (entryOf_of_clients_eq hc _ _)
      exact h'.repc rfl rfl hpc (by simp [hq, Pc.next]) (by simp [hq, Pc.next, Pc.ord]) (by simp [hq, Pc.next])
        (by simp [hq, Pc.next, Pc.ord]) (by simp [hq, Pc.next, Pc.ord])
    | vvRead =>
      simp only [hq, Pc.phase] at hp
      obtain ⟨e1, k1, k2, k3, k4, k5, k6, k7, k8, k9⟩ := vvRead_ok hp
      subst e1
      refine ⟨hD, fun _ => ?_, fun _ _ _ => rfl⟩
      refine ⟨by simp only [k1, k2]; exact ⟨doc, hd, hl⟩, ?_, ?_, ?_, ?_, ?_, ?_, ?_, ?_, ?_⟩
      · simp only [k2, k6]; exact h.dp
      · intro _; simp only [k1, k2, k4]; exact h.cp hpc
      · intro _; simp only [k1, k4]; exact h.own hpc
      · intro hx; simp [Pc.next, Pc.ord] at hx
      · intro hx; simp [Pc.next, Pc.ord] at hx
      · intro hx; simp [Pc.next] at hx
      · intro _ _; simp only [k1, k2]; exact (h.pulled (by simp [hq, Pc.ord]) hpc).congr k7 k8 k9
      · intro _ _; simp only [k2, k3, k7]; exact h.stat (by simp [hq, Pc.ord]) hpc
      · intro hx; simp [Pc.next] at hx
    | persist =>
      simp only [hq, Pc.phase] at hp
      obtain ⟨e2, cd, loaded, hcd, hload, e1⟩ := persistClientInfo_ok hp
      subst e2
      obtain ⟨cd1, hcd1, hst1, hcs1⟩ := h.stat (by simp [hq, Pc.ord]) hpc
      rw [hcd] at hcd1; injection hcd1 with hcd1; subst hcd1
      have hpl := h.pulled (by simp [hq, Pc.ord]) hpc
      have ext : DocsExt s s' := persistClientInfo_docsExt hp
      have hdocs : s'.docs = s.docs := by rw [e1]; rfl
      have hent : entryOf s' r.f.client r.f.doc = some (persistEntry cd loaded r.f.doc) := by
        rw [e1, entryOf_setClient]; simp [AL.get?_set_self]
      have hnew : ∀ cd', entryOf s' r.f.client r.f.doc = some cd' → isOpenSt cd'.status = true →
          r.f.resp.cp.clientSeq ≤ cd'.clientSeq := by
        intro cd' he ho
        rw [hent] at he; injection he with he; subst he
        unfold persistEntry at ho ⊢
        split
        · next hat =>
          have hat' : cd.status = .attached := by simpa using hat
          have := hcs1 hat'
          simp only [mergeClientDoc]; omega
        · next hat =>
          rw [if_neg hat] at ho
          rcases hst1 with h1 | h1
          · exact absurd (by simp [h1]) hat
          · simp only [] at ho; rw [h1] at ho; simp at ho
      have hoth : ∀ c d, (c ≠ r.f.client ∨ d ≠ r.f.doc) → entryOf s' c d = entryOf s c d := by
        intro c d hne
        rw [e1, entryOf_setClient]
        by_cases hc : r.f.client = c
        · rw [if_pos hc, ← hc, entryOf_findClient hload d]
          have hdne : r.f.doc ≠ d := by
            rcases hne with hne | hne
            · exact absurd hc.symm hne
            · exact fun e => hne e.symm
          simp only [AL.get?_set, hdne, if_false]
        · rw [if_neg hc]
      have hD' : DInv s' g := by
        have := dinv_update hD ext r.f.client r.f.doc (g r.f.client r.f.doc)
          (fun c' d' cd' hne he _ => by rw [← hoth c' d' hne]; exact he)
          (fun doc' hd' hdp => by rw [hdocs] at hd'; exact hD.view _ _ doc' hd' hdp)
          (fun hn => by rw [hdocs] at hn; exact hD.fresh _ _ hn)
          (fun cd' he ho => Nat.le_trans hpl.cs (hnew cd' he ho))
        rwa [Ghost.set_self] at this
      refine ⟨hD', fun _ => ?_, hoth⟩
      refine ⟨⟨doc, by simp only [Server.findDoc, hdocs]; exact hd, hl⟩, ?_, ?_, ?_, ?_, ?_, ?_, ?_, ?_, ?_⟩
      · intro doc' hd'
        simp only [Server.findDoc, hdocs] at hd'
        exact h.dp doc' hd'
      · intro hx; simp [Pc.next] at hx
      · intro hx; simp [Pc.next] at hx
      · intro hx; simp [Pc.next, Pc.ord] at hx
      · intro hx; simp [Pc.next, Pc.ord] at hx
      · intro hx; simp [Pc.next] at hx
      · intro _ hx; simp [Pc.next] at hx
      · intro _ hx; simp [Pc.next] at hx
      · intro _ resp hout
        simp only [Pc.next, if_true] at hout
        injection hout with hout; subst hout
        refine ⟨((hpl.frame ext hd hgap).congr (respOf_cp _ _) (respOf_changes _ _) (respOf_snapshot _ _)), ?_⟩
        intro cd' he ho
        rw [respOf_cp]; exact hnew cd' he ho

end Yorkie.Conc
