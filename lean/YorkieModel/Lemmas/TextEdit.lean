/-
The local `Text.Edit` as a splice of the visible string. Core Lean only.
-/
import YorkieModel.Lemmas.TextSpec
namespace Yorkie.Text

theorem nodup_append_parts {a b : TextSt} (h : (ids (a ++ b)).Nodup) :
    (ids a).Nodup ∧ (ids b).Nodup ∧ ∀ x ∈ a, ∀ y ∈ b, x.id ≠ y.id := by
  rw [ids_append, List.nodup_append] at h
  exact ⟨h.1, h.2.1, fun x hx y hy => h.2.2 _ (mem_ids hx) _ (mem_ids hy)⟩

theorem takeWhile_stop {M R : TextSt} (nd : (ids (M ++ R)).Nodup) :
    (M ++ R).takeWhile (fun m => some m.id != (R.head?).map (·.id)) = M := by
  induction M with
  | nil =>
    cases R with
    | nil => rfl
    | cons r0 t => simp
  | cons a M' ih =>
    have hd := nodup_append_parts nd
    have hp : (some a.id != (R.head?).map (·.id)) = true := by
      cases R with
      | nil => simp
      | cons r0 t =>
        have := hd.2.2 a (by simp) r0 (by simp)
        simpa using this
    simp only [List.cons_append, List.takeWhile, hp]
    congr 1
    apply ih
    simp only [List.cons_append, ids_cons, List.nodup_cons] at nd
    exact nd.2

/-- `findBetween(fromRight, toRight)` = the nodes strictly after the left node up to the right one -/
theorem between_spec {L M R : TextSt} (nd : (ids (L ++ (M ++ R))).Nodup) :
    between (L ++ (M ++ R)) (((M ++ R).head?).map (·.id)) ((R.head?).map (·.id)) = ids M := by
  cases hMR : M ++ R with
  | nil =>
    have : M = [] := (List.append_eq_nil_iff.mp hMR).1
    subst this; rfl
  | cons y rest =>
    have nd' := nd
    rw [hMR] at nd'
    have hy : y.id ∉ ids L := (nodup_decomp nd').1
    simp only [List.head?_cons, Option.map_some, between]
    rw [locate_append hy]
    simp only
    rw [← hMR, takeWhile_stop (nodup_append_parts nd).2.1]
    rfl

theorem applyTo_mem {l : List Id} {g : TNode → TNode} {m : TNode} (h : m.id ∈ l) : applyTo l g m = g m := by
  unfold applyTo; rw [if_pos (List.contains_iff_mem.mpr h)]

theorem applyTo_not_mem {l : List Id} {g : TNode → TNode} {m : TNode} (h : m.id ∉ l) : applyTo l g m = m := by
  unfold applyTo; rw [if_neg (fun hc => h (List.contains_iff_mem.mp hc))]

/-- `deleteNodes` / the styling loop touch exactly the nodes in between -/
theorem map_applyTo_mid {L M R : TextSt} (nd : (ids (L ++ (M ++ R))).Nodup) (g : TNode → TNode) :
    (L ++ (M ++ R)).map (applyTo (ids M) g) = L ++ (M.map g ++ R) := by
  have h1 := nodup_append_parts nd
  have h2 := nodup_append_parts h1.2.1
  rw [List.map_append, List.map_append]
  congr 1
  · conv => rhs; rw [← List.map_id L]
    apply List.map_congr_left
    intro m hm
    apply applyTo_not_mem
    intro hin
    obtain ⟨m', hm', e⟩ := exists_of_mem_ids hin
    exact h1.2.2 m hm m' (List.mem_append_left _ hm') e.symm
  · congr 1
    · apply List.map_congr_left
      intro m hm
      exact applyTo_mem (mem_ids hm)
    · conv => rhs; rw [← List.map_id R]
      apply List.map_congr_left
      intro m hm
      apply applyTo_not_mem
      intro hin
      obtain ⟨m', hm', e⟩ := exists_of_mem_ids hin
      exact h2.2.2 m' hm' m hm e

theorem known_local {vv : Option VV} (h : isLocal vv = true) (t : Ticket) : known vv t = true := by
  unfold isLocal at h; unfold known
  cases vv with
  | none => rfl
  | some v => simp only at h ⊢; rw [h]; rfl

/-- a local delete tombstones every candidate (already removed ones stay removed) -/
theorem removeNode_local_dead {vv : Option VV} (h : isLocal vv = true) (ts : Ticket) (n : TNode) :
    (removeNode ts vv n).live = false := by
  unfold removeNode
  rw [known_local h]
  simp only [Bool.not_true, Bool.false_eq_true, if_false]
  cases hr : n.removedAt with
  | none => simp [TNode.live]
  | some r =>
    simp only [known_local h, Bool.not_true, Bool.false_and, Bool.false_eq_true, if_false]
    simp [TNode.live, hr]

theorem newer_of_fnws {s : TextSt} (wf : WF s) {ts : Ticket} (nw : Newer s ts) {pos : Pos} {s1 : TextSt}
    {l : Id} {r : Option Id} (h : findNodeWithSplit s pos ts = .ok (s1, l, r)) : Newer s1 ts := by
  intro x hx
  obtain ⟨m, hm, e⟩ := (fnws_wf wf h).2 x hx
  rw [e]; exact nw m hm

/-- Sequential specification of a LOCAL `Text.Edit(from, to, content)`: it succeeds, and the visible
    UTF-16 string afterwards is the splice — the two kept pieces pass through a Go string, so a cut
    inside a surrogate pair turns the halves into U+FFFD (`sanitize`). -/
theorem edit_local_spec {s : TextSt} (wf : WF s) {ts : Ticket} (nw : Newer s ts) {vv : Option VV}
    (hlocal : isLocal vv = true) {fr to : Nat} (hft : fr ≤ to) (hto : to ≤ (visible s).length)
    {pf pt : Pos} (hpf : posOfIndex s fr = some pf) (hpt : posOfIndex s to = some pt)
    (content : List Nat) (attrs : List (String × String)) :
    ∃ s', edit pf pt content attrs ts vv s = .ok s' ∧
      visible s' = sanitize ((visible s).take fr) ++ content ++ sanitize ((visible s).drop to) := by
  have sne : s ≠ [] := by obtain ⟨h, r, hs, _⟩ := wf.head; rw [hs]; simp
  have den_t := posOfIndex_denotes wf hpt
  have den_f := posOfIndex_denotes wf hpf
  -- 01. split at `to`
  obtain ⟨A1, x1, M1, f1, _, ev1, vL1, vM1, pres1, _, _⟩ :=
    fnws_spec (s := s) (P := s) (S := []) (by simp) sne wf nw den_t hto
  simp only [List.map_nil, List.append_nil] at ev1 pres1
  have wf1 := (fnws_wf wf ev1).1
  have nw1 := newer_of_fnws wf nw ev1
  have den_f1 := pres1 _ fr hft den_f
  have lenL1 : (visible (A1 ++ [x1])).length = to := by
    rw [vL1, sanitize_length, List.length_take]; omega
  -- 02. split at `from`
  obtain ⟨A2, x2, M2, f2, sim2, ev2, vL2, vM2, _, _, _⟩ :=
    fnws_spec (s := A1 ++ x1 :: M1) (P := A1 ++ [x1]) (S := M1) (by simp) (by simp) wf1 nw1 den_f1
      (by omega)
  have wf2 := (fnws_wf wf1 ev2).1
  have nd2 : (ids ((A2 ++ [x2]) ++ (M2 ++ M1.map f2))).Nodup := by
    have := wf2.nodup; simpa using this
  have hx2 : x2.id ∉ ids A2 := by
    have : (ids (A2 ++ x2 :: (M2 ++ M1.map f2))).Nodup := wf2.nodup
    exact (nodup_decomp this).1
  have shape : A2 ++ x2 :: (M2 ++ M1.map f2) = (A2 ++ [x2]) ++ (M2 ++ M1.map f2) := by simp
  have hbetween : between (A2 ++ x2 :: (M2 ++ M1.map f2)) (((M2 ++ M1.map f2).head?).map (·.id))
      ((M1.head?).map (·.id)) = ids M2 := by
    rw [shape, ← sim2.head]; exact between_spec nd2
  -- the kept left piece
  have vLeft : visible (A2 ++ [x2]) = sanitize ((visible s).take fr) := by
    rw [vL2, vL1, sanitize_take_sanitize, List.take_take, Nat.min_eq_left hft]
  have vRight : visible (M1.map f2) = sanitize ((visible s).drop to) := by rw [sim2.visible, vM1]
  have vDead : visible (M2.map (removeNode ts vv)) = [] :=
    visible_all_dead (fun m hm => by
      obtain ⟨m', _, rfl⟩ := List.mem_map.mp hm
      exact removeNode_local_dead hlocal ts m')
  have hs3 : (A2 ++ x2 :: (M2 ++ M1.map f2)).map (applyTo (ids M2) (removeNode ts vv)) =
      A2 ++ x2 :: (M2.map (removeNode ts vv) ++ M1.map f2) := by
    rw [shape, map_applyTo_mid nd2]; simp
  unfold edit
  rw [ev1]; simp only
  rw [ev2]; simp only
  rw [hbetween, hs3]
  by_cases hc : content.isEmpty = true
  · rw [if_pos hc]
    refine ⟨_, rfl, ?_⟩
    have : content = [] := List.isEmpty_iff.mp hc
    subst this
    have : A2 ++ x2 :: (M2.map (removeNode ts vv) ++ M1.map f2) =
        (A2 ++ [x2]) ++ (M2.map (removeNode ts vv) ++ M1.map f2) := by simp
    have vLeft' : visible A2 ++ visible [x2] = sanitize ((visible s).take fr) := by
      rw [← visible_append]; exact vLeft
    rw [this]; simp only [visible_append]
    rw [vLeft', vDead, vRight]; simp
  · rw [if_neg hc]
    refine ⟨_, rfl, ?_⟩
    rw [insertAfterId_append hx2]
    have : A2 ++ x2 :: newNode ts content attrs :: (M2.map (removeNode ts vv) ++ M1.map f2) =
        (A2 ++ [x2]) ++ ([newNode ts content attrs] ++ (M2.map (removeNode ts vv) ++ M1.map f2)) := by simp
    have vLeft' : visible A2 ++ visible [x2] = sanitize ((visible s).take fr) := by
      rw [← visible_append]; exact vLeft
    rw [this]; simp only [visible_append]
    rw [vLeft', vDead, vRight]
    simp [visible_cons, newNode, TNode.live]

end Yorkie.Text
