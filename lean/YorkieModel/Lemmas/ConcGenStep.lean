/-
Helper lemmas for Model/Conc.lean, part 10: one phase of one request preserves the concurrent
generation invariant `GC`.
-/
import YorkieModel.Lemmas.ConcGen
namespace Yorkie.Conc
open Yorkie Yorkie.Server

theorem nodup_map_inj {l : List InFlight} (h : (l.map (·.lock)).Nodup) {x y : InFlight} (hx : x ∈ l) (hy : y ∈ l)
    (e : x.lock = y.lock) : x = y := by
  induction l with
  | nil => simp at hx
  | cons a t ih =>
    simp only [List.map_cons, List.nodup_cons] at h
    rcases List.mem_cons.mp hx with rfl | hx' <;> rcases List.mem_cons.mp hy with rfl | hy'
    · rfl
    · exact absurd (by rw [e]; exact List.mem_map_of_mem hy') h.1
    · exact absurd (by rw [← e]; exact List.mem_map_of_mem hx') h.1
    · exact ih h.2 hx' hy'

/-- two requests in flight on the same (client, document) are the same request -/
theorem same_target_eq {σ : Sys} {g : Ghost} (hC : CInv σ g) {x y : InFlight} (hx : x ∈ σ.flights) (hy : y ∈ σ.flights)
    (ax : Active x) (ay : Active y) (hc : x.f.client = y.f.client) (hd : x.f.doc = y.f.doc) : x = y := by
  refine nodup_map_inj hC.locks hx hy ?_
  by_cases e : x.lock = y.lock
  · exact e
  · rcases lock_target_ne (hC.fl y hy ay) (hC.fl x hx ax) e with h | h
    · exact absurd hc h
    · exact absurd hd h

theorem vvRead_ok2 {s s' : Server} {f f' : Flight} (h : vvRead s f = (s', .ok f')) :
    f'.cpAfterPush = f.cpAfterPush ∧ f'.pushed = f.pushed ∧ f'.docInfo = f.docInfo ∧ f'.initialSeq = f.initialSeq := by
  unfold vvRead at h
  split at h
  · injection h with _ h2; injection h2 with h2; subst h2; exact ⟨rfl, rfl, rfl, rfl⟩
  · injection h with _ h2; injection h2 with h2; subst h2
    split <;> exact ⟨rfl, rfl, rfl, rfl⟩

theorem pending_not_done {r : InFlight} (h : Pending r) : r.pc ≠ .done := h.2

/-- a request that has pushed cannot fail any more, except in its pull phase when it pushed nothing -/
theorem pending_error {s : Server} {g : Ghost} {r : InFlight} {s' : Server} {e : ErrKind} (hF : FOk s g r) (h2 : F2 s r)
    (hp : Pending r) (hph : r.pc.phase s r.f = (s', .error e)) : r.pc = .pull ∧ r.f.pushed = [] := by
  obtain ⟨cdS, hcdS, hopen, _, _⟩ := h2.stored
  obtain ⟨cd, hcd, hcl⟩ := h2.entry hp.2
  cases hq : r.pc with
  | validate => simp [Pending, hq, Pc.ord] at hp
  | strip => simp [Pending, hq, Pc.ord] at hp
  | push => simp [Pending, hq, Pc.ord] at hp
  | done => exact absurd hq hp.2
  | pull =>
    refine ⟨rfl, ?_⟩
    simp only [hq, Pc.phase] at hph
    unfold preparePack at hph
    split at hph
    · next e' he' =>
      cases hpe : r.f.pushed with
      | nil => rfl
      | cons a t =>
        exfalso
        obtain ⟨g1, g2⟩ := h2.guard hq (by rw [hpe]; simp)
        rcases pullPackResp_error he' with h | h
        · rw [g1] at h; simp at h
        · omega
    · injection hph with _ h; simp at h
  | status =>
    exfalso
    simp only [hq, Pc.phase] at hph
    obtain ⟨i', hi'⟩ := updateDocStatus_no_error (st := r.f.status) (cp := r.f.resp.cp) (h2.act hp.2) hcd
      (fun hne => hcl hne (by simp [hq, Pc.ord]))
    unfold updateDocStatus at hph
    rw [hi'] at hph
    injection hph with _ h; simp at h
  | vvWrite =>
    exfalso
    simp only [hq, Pc.phase] at hph
    unfold vvWrite at hph
    split at hph
    · injection hph with _ h; simp at h
    · split at hph
      · next e1 hs =>
        unfold updateVersionVector at hs
        simp only [Client.isAttached, hcd] at hs
        split at hs
        · simp at hs
        · split at hs <;> simp at hs
      · injection hph with _ h; simp at h
  | vvRead =>
    exfalso
    simp only [hq, Pc.phase] at hph
    unfold vvRead at hph
    split at hph <;> (injection hph with _ h; simp at h)
  | persist =>
    exfalso
    simp only [hq, Pc.phase] at hph
    rcases (persistClientInfo_error hph).2 with h | h
    · rw [hcd] at h; simp at h
    · simp only [entryOf, Server.findClient] at hcdS h; rw [h] at hcdS; simp at hcdS

theorem gc_phase {σ : Sys} {g : Ghost} {pre post : List InFlight} {r : InFlight} (hC : CInv σ g) (hG : GC σ)
    (hf : σ.flights = pre ++ r :: post) (hpc : r.pc ≠ .done)
    (hsnap : (stepFlight σ.srv r).2.f.resp.snapshot = false) :
    GC { σ with srv := (stepFlight σ.srv r).1, flights := pre ++ (stepFlight σ.srv r).2 :: post } := by
  have hr : r ∈ σ.flights := by rw [hf]; simp
  have hFr := hC.fl r hr (Or.inl hpc)
  have h2 := hG.fl2 r hr (Or.inl hpc)
  obtain ⟨_, _, hent⟩ := own_step hC.d hFr hpc hsnap
  have hlk := hC.locks
  rw [hf] at hlk
  obtain ⟨doc, hd, hl⟩ := hFr.hdoc
  obtain ⟨cdS, hcdS, hst1, hst2, hst3⟩ := h2.stored
  obtain ⟨hopenS, hgenS⟩ := hst1 hpc
  have memOld : ∀ x, x ∈ pre ∨ x ∈ post → x ∈ σ.flights := by
    intro x hm; rw [hf]
    rcases hm with hm | hm
    · exact List.mem_append_left _ hm
    · exact List.mem_append_right _ (List.mem_cons_of_mem _ hm)
  have memNew : ∀ x r', x ∈ pre ∨ x ∈ post → x ∈ pre ++ r' :: post := by
    intro x r' hm
    rcases hm with hm | hm
    · exact List.mem_append_left _ hm
    · exact List.mem_append_right _ (List.mem_cons_of_mem _ hm)
  have msplit : ∀ x ∈ σ.flights, x = r ∨ (x ∈ pre ∨ x ∈ post) := by
    intro x hx; rw [hf] at hx
    simp only [List.mem_append, List.mem_cons] at hx
    rcases hx with hx | hx | hx
    · exact Or.inr (Or.inl hx)
    · exact Or.inl hx
    · exact Or.inr (Or.inr hx)
  have others : ∀ x, x ∈ pre ∨ x ∈ post → Active x → F2 (stepFlight σ.srv r).1 x := by
    intro x hm ha
    have hFx := hC.fl x (memOld x hm) ha
    have hne := lock_target_ne hFr hFx (nodup_mid_ne hlk hm)
    exact (hG.fl2 x (memOld x hm) ha).frame (hent _ _ hne)
  -- the list part of `fl2`, given the record of the stepping request
  have fl2of : ∀ r', (Active r' → F2 (stepFlight σ.srv r).1 r') →
      ∀ x ∈ pre ++ r' :: post, Active x → F2 (stepFlight σ.srv r).1 x := by
    intro r' hr' x hx ha
    simp only [List.mem_append, List.mem_cons] at hx
    rcases hx with hx | hx | hx
    · exact others x (Or.inl hx) ha
    · subst hx; exact hr' ha
    · exact others x (Or.inr hx) ha
  -- witnesses other than the stepping request stay
  have keep : ∀ r' x, x ∈ pre ∨ x ∈ post → Pending x →
      ∃ y ∈ pre ++ r' :: post, Pending y ∧ y.f.client = x.f.client ∧ y.f.doc = x.f.doc ∧
        x.f.cpAfterPush.clientSeq ≤ y.f.cpAfterPush.clientSeq :=
    fun r' x hm hpx => ⟨x, memNew x r' hm, hpx, rfl, rfl, Nat.le_refl _⟩
  rcases hph : r.pc.phase σ.srv r.f with ⟨s', e | f'⟩
  · -- the phase fails
    simp only [stepFlight, hph] at others fl2of ⊢
    have hc := phase_clients hph (Or.inr ⟨e, rfl⟩)
    have hlogs : ∀ d, storedLog s' d = storedLog σ.srv d := by
      intro d'
      by_cases hq : r.pc = .push
      · rw [hq] at hph; simp only [Pc.phase] at hph; rw [pushPack_error hph]
      · exact phase_storedLog hph hq d'
    refine ⟨?_, fl2of _ (fun ha => absurd ha not_active_error)⟩
    refine hG.g.trans r.f.client r.f.doc [] cdS (by rw [hlogs]; simp) (fun d' _ => hlogs d')
      (fun c' d' _ => entryOf_of_clients_eq hc c' d') (by rw [entryOf_of_clients_eq hc]; exact hcdS)
      (hG.g.g3 _ _ cdS hcdS)
      (Or.inl ⟨cdS, hcdS, Nat.le_refl _, fun _ ho => ⟨ho, Nat.le_refl _⟩⟩) (by simp) ?_
    intro x hx hpx
    rcases msplit x hx with rfl | hm
    · obtain ⟨_, hpe⟩ := pending_error hFr h2 hpx hph
      exact Or.inr ⟨rfl, rfl, fun _ => Nat.le_of_eq ((hst3 hpx).2 hpe)⟩
    · exact Or.inl (keep _ x hm hpx)
  · simp only [stepFlight, hph] at hsnap others fl2of hent ⊢
    cases hq : r.pc with
    | done => exact absurd hq hpc
    | validate =>
      simp only [hq, Pc.phase] at hph
      obtain ⟨e1, e2, _⟩ := validateClientSeq_ok hph
      subst e1; subst e2
      refine ⟨hG.g.same (fun _ => rfl) (fun _ _ => rfl) ?_, fl2of _ (fun _ => ?_)⟩
      · intro x hx hpx
        rcases msplit x hx with rfl | hm
        · simp [Pending, hq, Pc.ord] at hpx
        · exact keep _ x hm hpx
      · exact h2.repc rfl hpc (by simp [Pc.next]) (by simp [hq, Pc.ord]) (by simp [Pc.next, Pc.ord])
          (by simp [Pc.next]) (by simp [hq, Pc.next, Pc.ord])
    | strip =>
      simp only [hq, Pc.phase] at hph
      rw [stripPresence_eq] at hph
      injection hph with e1 e2; injection e2 with e2
      subst e1; subst e2
      refine ⟨hG.g.same (fun _ => rfl) (fun _ _ => rfl) ?_, fl2of _ (fun _ => ?_)⟩
      · intro x hx hpx
        rcases msplit x hx with rfl | hm
        · simp [Pending, hq, Pc.ord] at hpx
        · exact keep _ x hm hpx
      · obtain ⟨cd, hcd, hcl⟩ := h2.entry hpc
        refine ⟨fun _ => by simpa using h2.act hpc, ⟨cdS, by simpa using hcdS, fun _ => by simpa using hst1 hpc,
          fun _ => by simpa using hst2 (by simp [hq, Pc.ord]), fun hx => by simp [Pending, Pc.next, Pc.ord] at hx⟩,
          fun _ => ⟨cd, by simpa using hcd, fun hne _ => hcl (by simpa using hne) (by simp [hq, Pc.ord])⟩, ?_, ?_, ?_, ?_, ?_⟩
        · intro hx; simp [Pc.next] at hx
        · intro hx; simp [Pc.next, Pc.ord] at hx
        · intro hx; simp [Pc.next, Pc.ord] at hx
        · intro hx; simp [Pc.next, Pc.ord] at hx
        · intro hx; simp [Pc.next] at hx
    | push =>
      simp only [hq, Pc.phase] at hph
      obtain ⟨doc0, p, hd0, hguard, e1, e2⟩ := pushPack_ok hph
      rw [hd] at hd0; injection hd0 with hd0; subst hd0
      subst e2
      have hc : s'.clients = σ.srv.clients := by rw [e1]; rfl
      have sp := assignSeqs_spec (r.f.info.genOf r.f.doc) doc.serverSeq (r.f.info.checkpoint r.f.doc) p
      simp only [] at sp
      obtain ⟨q1, q2, q3, q4, q5, q6⟩ := sp
      have hcs0 := hst2 (by simp [hq, Pc.ord])
      have hge := assignSeqs_cp_ge (r.f.info.genOf r.f.doc) doc.serverSeq (r.f.info.checkpoint r.f.doc) p
      have hpend' : ∀ o, Pending { r with f := pushedFlight doc r.f p, pc := Pc.next .push, out := o } :=
        fun o => ⟨by simp [Pc.next, Pc.ord], by simp [Pc.next]⟩
      refine ⟨?_, fl2of _ (fun _ => ?_)⟩
      · refine hG.g.trans r.f.client r.f.doc
          (assignSeqs (r.f.info.genOf r.f.doc) doc.serverSeq (r.f.info.checkpoint r.f.doc) p).1 cdS ?_ ?_
          (fun c' d' _ => entryOf_of_clients_eq hc c' d') (by rw [entryOf_of_clients_eq hc]; exact hcdS)
          (hG.g.g3 _ _ cdS hcdS)
          (Or.inl ⟨cdS, hcdS, Nat.le_refl _, fun _ ho => ⟨ho, Nat.le_refl _⟩⟩) ?_ ?_
        · rw [e1, storedLog_setDoc, if_pos rfl, storedLog_findDoc hd]; rfl
        · intro d' hd'; rw [e1, storedLog_setDoc, if_neg (Ne.symm hd')]
        · intro row hrow
          refine ⟨?_, by rw [q6 row hrow, hgenS], _, List.mem_append_right _ (List.mem_cons_self ..), hpend' _, rfl, rfl,
            assignSeqs_cp_covers _ _ _ _ row hrow⟩
          have : row.actor ∈ ((assignSeqs (r.f.info.genOf r.f.doc) doc.serverSeq (r.f.info.checkpoint r.f.doc) p).1).map
              (·.actor) := List.mem_map_of_mem (f := (·.actor)) hrow
          rw [q5] at this
          obtain ⟨y, hy, hya⟩ := List.mem_map.mp this
          rw [← hya]; exact hFr.own hpc y ((pushGuard_sub hguard y hy).1)
        · intro x hx hpx
          rcases msplit x hx with rfl | hm
          · simp [Pending, hq, Pc.ord] at hpx
          · exact Or.inl (keep _ x hm hpx)
      · obtain ⟨cd, hcd, hcl⟩ := h2.entry hpc
        refine ⟨fun _ => h2.act hpc, ⟨cdS, by rw [entryOf_of_clients_eq hc]; exact hcdS, fun _ => ⟨hopenS, hgenS⟩,
          fun hx => by simp [Pc.next, Pc.ord] at hx, fun _ => ⟨?_, ?_⟩⟩,
          fun _ => ⟨cd, hcd, fun hne _ => hcl hne (by simp [hq, Pc.ord])⟩, ?_, ?_, ?_, ?_, ?_⟩
        · show cdS.clientSeq ≤ (assignSeqs (r.f.info.genOf r.f.doc) doc.serverSeq (r.f.info.checkpoint r.f.doc) p).2.2.clientSeq
          rw [← hcs0]; exact hge
        · intro hnil
          have hnil' : (assignSeqs (r.f.info.genOf r.f.doc) doc.serverSeq (r.f.info.checkpoint r.f.doc) p).1 = [] := hnil
          have hp0 : p = [] := by
            have := q3; rw [hnil'] at this; simp at this
            exact List.eq_nil_of_length_eq_zero this.symm
          show (assignSeqs (r.f.info.genOf r.f.doc) doc.serverSeq (r.f.info.checkpoint r.f.doc) p).2.2.clientSeq = _
          rw [hp0, assignSeqs_nil_cp, hcs0]
        · intro _ hne
          have hne' : (assignSeqs (r.f.info.genOf r.f.doc) doc.serverSeq (r.f.info.checkpoint r.f.doc) p).1 ≠ [] := hne
          have hp0 : p ≠ [] := by
            intro h0; apply hne'; rw [h0]; rfl
          obtain ⟨g1, g2⟩ := pushGuard_nonempty hd hguard hp0
          exact ⟨g1, by rw [pushedFlight_initialSeq]; exact g2⟩
        · intro _
          show (pushedDoc doc r.f p).disablePresence = r.f.disablePresence
          exact (hFr.dp doc hd).symm
        · intro hx; simp [Pc.next, Pc.ord] at hx
        · intro hx; simp [Pc.next, Pc.ord] at hx
        · intro hx; simp [Pc.next] at hx
    | pull =>
      simp only [hq, Pc.phase] at hph
      obtain ⟨e1, r0, hpull, e2⟩ := preparePack_ok hph
      subst e1; subst e2
      have hs0 : r0.snapshot = false := by simpa [hq, Pc.next] using hsnap
      have hpr : Pending r := ⟨by simp [hq, Pc.ord], hpc⟩
      obtain ⟨hle3, hnil3⟩ := hst3 hpr
      refine ⟨hG.g.same (fun _ => rfl) (fun _ _ => rfl) ?_, fl2of _ (fun _ => ?_)⟩
      · intro x hx hpx
        rcases msplit x hx with rfl | hm
        · exact ⟨_, List.mem_append_right _ (List.mem_cons_self ..), ⟨by simp [Pc.next, Pc.ord], by simp [Pc.next]⟩, rfl, rfl,
            Nat.le_refl _⟩
        · exact keep _ x hm hpx
      · obtain ⟨cd, hcd, hcl⟩ := h2.entry hpc
        refine ⟨fun _ => h2.act hpc, ⟨cdS, hcdS, fun _ => ⟨hopenS, hgenS⟩, fun hx => by simp [Pc.next, Pc.ord] at hx,
          fun _ => ⟨hle3, hnil3⟩⟩, fun _ => ⟨cd, hcd, fun hne _ => hcl hne (by simp [hq, Pc.ord])⟩, ?_, ?_, ?_, ?_, ?_⟩
        · intro hx; simp [Pc.next] at hx
        · intro _; exact h2.dpI (by simp [hq, Pc.ord])
        · intro _ _
          show r0.cp.clientSeq = r.f.cpAfterPush.clientSeq
          exact pullPackResp_cp_clientSeq hpull
        · intro _ _ hdp row hrow hact
          have hdp' : r.f.docInfo.disablePresence = false := hdp
          have hrow' : row ∈ r0.changes := hrow
          have hact' : row.actor = r.f.client := hact
          rcases pullPackResp_ok hpull with ⟨_, k2, _⟩ | ⟨_, _, k2, _⟩ | hs
          · rw [k2] at hrow'; simp at hrow'
          · rw [k2] at hrow'
            simp only [pullChangeInfos, hdp'] at hrow'
            obtain ⟨hin, hna⟩ := pullFilter_mem _ _ _ _ hrow'
            rw [findBetween_eq] at hin
            have hlog : row ∈ storedLog σ.srv r.f.doc := (List.mem_filter.mp hin).1
            have hgt : ¬ (r.f.cpAfterPush.clientSeq ≥ row.clientSeq) := by
              intro hge
              simp [isOwnAcked, hact', hge] at hna
            obtain ⟨cd1, hcd1, hle1⟩ := hG.g.g1 r.f.client r.f.doc row hlog hact'
            rw [hcdS] at hcd1; injection hcd1 with hcd1; subst hcd1
            refine ⟨cdS, hcdS, ?_⟩
            rcases Nat.lt_or_ge row.gen cdS.gen with hlt | hge
            · exact hlt
            · exfalso
              rcases hG.g.g2 r.f.client r.f.doc cdS row hcdS hopenS hlog hact' (by omega) with hl | ⟨x, hx, hpx, hxc, hxd, hxs⟩
              · omega
              · have := same_target_eq hC hx hr (Or.inl hpx.2) (Or.inl hpc) hxc hxd
                subst this; omega
          · rw [hs0] at hs; simp at hs
        · intro hx; simp [Pc.next] at hx
    | status =>
      simp only [hq, Pc.phase] at hph
      obtain ⟨e1, i, hi, e2⟩ := updateDocStatus_ok hph
      subst e1; subst e2
      have hpr : Pending r := ⟨by simp [hq, Pc.ord], hpc⟩
      refine ⟨hG.g.same (fun _ => rfl) (fun _ _ => rfl) ?_, fl2of _ (fun _ => ?_)⟩
      · intro x hx hpx
        rcases msplit x hx with rfl | hm
        · exact ⟨_, List.mem_append_right _ (List.mem_cons_self ..), ⟨by simp [Pc.next, Pc.ord], by simp [Pc.next]⟩, rfl, rfl,
            Nat.le_refl _⟩
        · exact keep _ x hm hpx
      · obtain ⟨cd0, _, hact0, _⟩ := updateDocStatus_spec hi
        obtain ⟨cd', hcd'⟩ := updateDocStatus_entry hi
        refine ⟨fun _ => by rw [show ({ r.f with info := i } : Flight).info = i from rfl, hact0]; exact h2.act hpc,
          ⟨cdS, hcdS, fun _ => ⟨hopenS, by rw [hgenS]; exact (genOf_updateDocStatus hi).symm⟩,
            fun hx => by simp [Pc.next, Pc.ord] at hx, fun _ => hst3 hpr⟩,
          fun _ => ⟨cd', hcd', fun _ hx => by simp [Pc.next, Pc.ord] at hx⟩, ?_, ?_, ?_, ?_, ?_⟩
        · intro hx; simp [Pc.next] at hx
        · intro _; exact h2.dpI (by simp [hq, Pc.ord])
        · intro _ _; exact h2.rcs (by simp [hq, Pc.ord]) hpc
        · intro _ _; exact h2.echo (by simp [hq, Pc.ord]) hpc
        · intro hx; simp [Pc.next] at hx
    | vvWrite =>
      simp only [hq, Pc.phase] at hph
      have hc := phase_clients (pc := .vvWrite) hph (Or.inl (by simp))
      have hlogs := phase_storedLog (pc := .vvWrite) hph (by simp)
      obtain ⟨e2, _⟩ := vvWrite_ok hph
      subst e2
      refine ⟨hG.g.same hlogs (fun c d => entryOf_of_clients_eq hc c d) ?_, fl2of _ (fun _ => ?_)⟩
      · intro x hx hpx
        rcases msplit x hx with rfl | hm
        · exact ⟨_, List.mem_append_right _ (List.mem_cons_self ..), ⟨by simp [Pc.next, Pc.ord], by simp [Pc.next]⟩, rfl, rfl,
            Nat.le_refl _⟩
        · exact keep _ x hm hpx
      · exact (h2.frame (entryOf_of_clients_eq hc _ _)).repc rfl hpc (by simp [Pc.next]) (by simp [Pc.next, Pc.ord])
          (by simp [hq, Pc.ord]) (by simp [Pc.next]) (by simp [hq, Pc.next, Pc.ord])
    | vvRead =>
      simp only [hq, Pc.phase] at hph
      obtain ⟨e1, k1, k2, k3, k4, k5, k6, k7, k8, k9⟩ := vvRead_ok hph
      obtain ⟨m1, m2, m3, m4⟩ := vvRead_ok2 hph
      subst e1
      have hpr : Pending r := ⟨by simp [hq, Pc.ord], hpc⟩
      refine ⟨hG.g.same (fun _ => rfl) (fun _ _ => rfl) ?_, fl2of _ (fun _ => ?_)⟩
      · intro x hx hpx
        rcases msplit x hx with rfl | hm
        · exact ⟨_, List.mem_append_right _ (List.mem_cons_self ..), ⟨by simp [Pc.next, Pc.ord], by simp [Pc.next]⟩, k1, k2,
            by simp only [m1]; exact Nat.le_refl _⟩
        · exact keep _ x hm hpx
      · obtain ⟨cd, hcd, _⟩ := h2.entry hpc
        refine ⟨fun _ => by simp only [k3]; exact h2.act hpc,
          ⟨cdS, by simp only [k1, k2]; exact hcdS, fun _ => by simp only [k2, k3]; exact ⟨hopenS, hgenS⟩,
            fun hx => by simp [Pc.next, Pc.ord] at hx, fun _ => by simp only [m1, m2]; exact hst3 hpr⟩,
          fun _ => ⟨cd, by simp only [k2, k3]; exact hcd, fun _ hx => by simp [Pc.next, Pc.ord] at hx⟩, ?_, ?_, ?_, ?_, ?_⟩
        · intro hx; simp [Pc.next] at hx
        · intro _; simp only [k6, m3]; exact h2.dpI (by simp [hq, Pc.ord])
        · intro _ _; simp only [k7, m1]; exact h2.rcs (by simp [hq, Pc.ord]) hpc
        · intro _ _; simp only [k1, k2, k8, m3]; exact h2.echo (by simp [hq, Pc.ord]) hpc
        · intro hx; simp [Pc.next] at hx
    | persist =>
      simp only [hq, Pc.phase] at hph
      obtain ⟨e2, cd, loaded, hcd, hload, e1⟩ := persistClientInfo_ok hph
      subst e2
      have hpr : Pending r := ⟨by simp [hq, Pc.ord], hpc⟩
      obtain ⟨hle3, _⟩ := hst3 hpr
      obtain ⟨cd1, hcd1, hstat1, hcs1⟩ := hFr.stat (by simp [hq, Pc.ord]) hpc
      rw [hcd] at hcd1; injection hcd1 with hcd1; subst hcd1
      have hrcs := h2.rcs (by simp [hq, Pc.ord]) hpc
      have hlS : loaded.docs.get? r.f.doc = some cdS := by rw [← entryOf_findClient hload]; exact hcdS
      have hgcd : cd.gen = cdS.gen := by rw [hgenS]; simp [Client.genOf, hcd]
      have hent' : entryOf s' r.f.client r.f.doc = some (persistEntry cd loaded r.f.doc) := by
        rw [e1, entryOf_setClient]; simp [AL.get?_set_self]
      have hlogs : ∀ d, storedLog s' d = storedLog σ.srv d := fun d => by rw [e1]; rfl
      have hgen' : (persistEntry cd loaded r.f.doc).gen = cdS.gen := by
        unfold persistEntry; split <;> simp [mergeClientDoc, hgcd]
      have hcs' : isOpenSt (persistEntry cd loaded r.f.doc).status = true →
          cdS.clientSeq ≤ (persistEntry cd loaded r.f.doc).clientSeq ∧
          r.f.cpAfterPush.clientSeq ≤ (persistEntry cd loaded r.f.doc).clientSeq := by
        intro ho
        unfold persistEntry at ho ⊢
        split
        · next hat =>
          have hat' : cd.status = .attached := by simpa using hat
          have := hcs1 hat'
          simp only [mergeClientDoc, hlS, Option.getD_some]
          omega
        · next hat =>
          rw [if_neg hat] at ho
          rcases hstat1 with h1 | h1
          · exact absurd (by simp [h1]) hat
          · simp only [] at ho; rw [h1] at ho; simp at ho
      have he3 : (persistEntry cd loaded r.f.doc).status ≠ .attached → (persistEntry cd loaded r.f.doc).clientSeq = 0 := by
        intro hna
        unfold persistEntry at hna ⊢
        split
        · next hat =>
          exfalso; apply hna; rw [if_pos hat]
          simpa [mergeClientDoc] using hat
        · rfl
      refine ⟨?_, fl2of _ (fun _ => ?_)⟩
      · refine hG.g.trans r.f.client r.f.doc [] (persistEntry cd loaded r.f.doc) (by rw [hlogs]; simp)
          (fun d' _ => hlogs d') hent hent' he3
          (Or.inl ⟨cdS, hcdS, Nat.le_of_eq hgen'.symm, fun _ ho => ⟨hopenS, (hcs' ho).1⟩⟩) (by simp) ?_
        intro x hx hpx
        rcases msplit x hx with rfl | hm
        · exact Or.inr ⟨rfl, rfl, fun ho => (hcs' ho).2⟩
        · exact Or.inl (keep _ x hm hpx)
      · refine ⟨fun hx => by simp [Pc.next] at hx,
          ⟨_, hent', fun hx => by simp [Pc.next] at hx, fun hx => by simp [Pc.next, Pc.ord] at hx,
            fun hx => by simp [Pending, Pc.next] at hx⟩, fun hx => by simp [Pc.next] at hx, ?_, ?_, ?_, ?_, ?_⟩
        · intro hx; simp [Pc.next] at hx
        · intro _; exact h2.dpI (by simp [hq, Pc.ord])
        · intro _ hx; simp [Pc.next] at hx
        · intro _ hx; simp [Pc.next] at hx
        · intro _ resp hout hdp row hrow hact
          simp only [Pc.next, if_true] at hout
          injection hout with hout; subst hout
          rw [respOf_changes] at hrow
          obtain ⟨cdS', hcdS', hlt⟩ := h2.echo (by simp [hq, Pc.ord]) hpc hdp row hrow hact
          rw [hcdS] at hcdS'; injection hcdS' with hcdS'; subst hcdS'
          exact ⟨_, hent', by rw [hgen']; exact hlt⟩

end Yorkie.Conc
