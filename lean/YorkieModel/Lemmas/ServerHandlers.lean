/-
Helper lemmas for Model/Server.lean, part 5: inversion of the handlers – every handler either
rejects before touching the store or reaches `pushPull` with a flight we can name.
-/
import YorkieModel.Lemmas.ServerClients
namespace Yorkie.Server
open Yorkie

@[simp] theorem mkFlight_client (c d i p po st g dp) : (mkFlight c d i p po st g dp).client = c := rfl
@[simp] theorem mkFlight_doc (c d i p po st g dp) : (mkFlight c d i p po st g dp).doc = d := rfl
@[simp] theorem mkFlight_info (c d i p po st g dp) : (mkFlight c d i p po st g dp).info = i := rfl
@[simp] theorem mkFlight_pack (c d i p po st g dp) : (mkFlight c d i p po st g dp).pack = p := rfl
@[simp] theorem mkFlight_pushOnly (c d i p po st g dp) : (mkFlight c d i p po st g dp).pushOnly = po := rfl
@[simp] theorem mkFlight_status (c d i p po st g dp) : (mkFlight c d i p po st g dp).status = st := rfl
@[simp] theorem mkFlight_disableGC (c d i p po st g dp) : (mkFlight c d i p po st g dp).disableGC = g := rfl
@[simp] theorem mkFlight_dp (c d i p po st g dp) : (mkFlight c d i p po st g dp).disablePresence = dp := rfl

theorem findActiveClient_ok {s : Server} {c : ClientId} {info : Client} (h : s.findActiveClient c = .ok info) :
    s.findClient c = some info ∧ info.activated = true := by
  unfold Server.findActiveClient at h
  split at h
  · simp at h
  · next i hi =>
    split at h
    · next ha => injection h with h; subst h; exact ⟨hi, ha⟩
    · simp at h

theorem findActiveClient_error {s : Server} {c : ClientId} {e : ErrKind} (h : s.findActiveClient c = .error e) :
    (s.findClient c = none ∧ e = .clientNotFound) ∨
    (∃ i, s.findClient c = some i ∧ i.activated = false ∧ e = .clientNotActivated) := by
  unfold Server.findActiveClient at h
  split at h
  · next hn => injection h with h; exact Or.inl ⟨hn, h.symm⟩
  · next i hi =>
    split at h
    · simp at h
    · next ha => injection h with h; exact Or.inr ⟨i, hi, by simpa using ha, h.symm⟩

theorem finish_ok {r : PhaseResult} {s' : Server} {resp : Resp} (h : finish r = (s', .ok resp)) :
    ∃ f', r = (s', .ok f') ∧ resp = f'.resp := by
  obtain ⟨s, x⟩ := r
  cases x with
  | error e => simp [finish] at h
  | ok f => simp only [finish] at h; injection h with h1 h2; injection h2 with h2; exact ⟨f, by rw [h1], h2.symm⟩

theorem finish_error {r : PhaseResult} {s' : Server} {e : ErrKind} (h : finish r = (s', .error e)) :
    r = (s', .error e) := by
  obtain ⟨s, x⟩ := r
  cases x with
  | error e' => simp only [finish] at h; injection h with h1 h2; injection h2 with h2; rw [h1, h2]
  | ok f => simp [finish] at h

theorem ensureAttached_ok {i : Client} {d : DocId} (h : i.ensureAttached d = .ok ()) :
    i.activated = true ∧ i.statusOf d = some .attached := by
  unfold Client.ensureAttached at h
  split at h
  · simp at h
  · next ha =>
    split at h
    · next hs => exact ⟨by simpa using ha, by simpa using hs⟩
    · simp at h

/-- `PushPullChanges`: rejected before the store is touched, or `PushPull` with a named flight -/
theorem pushpullReq_inv {s s' : Server} {c : ClientId} {d : DocId} {pack : Pack} {po nogc : Bool}
    {out : Except ErrKind Resp} (h : pushpullReq s c d pack po nogc = (s', out)) :
    (s' = s ∧ ∃ e, out = .error e) ∨
    ∃ info doc, s.findClient c = some info ∧ info.activated = true ∧ info.statusOf d = some .attached ∧
      s.findDoc d = some doc ∧
      finish (pushPull s (mkFlight c d info pack po .attached nogc doc.disablePresence)) = (s', out) := by
  unfold pushpullReq at h
  split at h
  · injection h with h1 h2; exact Or.inl ⟨h1.symm, _, h2.symm⟩
  · next info hi =>
    split at h
    · injection h with h1 h2; exact Or.inl ⟨h1.symm, _, h2.symm⟩
    · next he =>
      split at h
      · injection h with h1 h2; exact Or.inl ⟨h1.symm, _, h2.symm⟩
      · next doc hd =>
        obtain ⟨h1, h2⟩ := findActiveClient_ok hi
        exact Or.inr ⟨info, doc, h1, h2, (ensureAttached_ok he).2, hd, h⟩

/-- `DetachDocument` -/
theorem detach_inv {s s' : Server} {c : ClientId} {d : DocId} {pack : Pack}
    {out : Except ErrKind Resp} (h : detach s c d pack = (s', out)) :
    (s' = s ∧ ∃ e, out = .error e) ∨
    ∃ info doc, s.findClient c = some info ∧ info.activated = true ∧ detachGuard s info d = .ok () ∧
      s.findDoc d = some doc ∧
      finish (pushPull s (mkFlight c d info (detachMode s c d pack).1 false (detachMode s c d pack).2 false
        doc.disablePresence)) = (s', out) := by
  unfold detach at h
  split at h
  · injection h with h1 h2; exact Or.inl ⟨h1.symm, _, h2.symm⟩
  · next info hi =>
    split at h
    · injection h with h1 h2; exact Or.inl ⟨h1.symm, _, h2.symm⟩
    · next he =>
      split at h
      · injection h with h1 h2; exact Or.inl ⟨h1.symm, _, h2.symm⟩
      · next doc hd =>
        obtain ⟨h1, h2⟩ := findActiveClient_ok hi
        exact Or.inr ⟨info, doc, h1, h2, he, hd, h⟩

/-- `RemoveDocument` -/
theorem remove_inv {s s' : Server} {c : ClientId} {d : DocId} {pack : Pack}
    {out : Except ErrKind Resp} (h : remove s c d pack = (s', out)) :
    (s' = s ∧ ∃ e, out = .error e) ∨
    ∃ info doc, s.findClient c = some info ∧ info.activated = true ∧ detachGuard s info d = .ok () ∧
      s.findDoc d = some doc ∧
      finish (pushPull s (mkFlight c d info pack false .removed false doc.disablePresence)) = (s', out) := by
  unfold remove at h
  split at h
  · injection h with h1 h2; exact Or.inl ⟨h1.symm, _, h2.symm⟩
  · next info hi =>
    split at h
    · injection h with h1 h2; exact Or.inl ⟨h1.symm, _, h2.symm⟩
    · next he =>
      split at h
      · injection h with h1 h2; exact Or.inl ⟨h1.symm, _, h2.symm⟩
      · next doc hd =>
        obtain ⟨h1, h2⟩ := findActiveClient_ok hi
        exact Or.inr ⟨info, doc, h1, h2, he, hd, h⟩

theorem detachGuard_ok {s : Server} {info : Client} {d : DocId} (h : detachGuard s info d = .ok ())
    (hg : s.cfg.detachGuardFirst = true) :
    info.statusOf d = some .attached ∨ info.statusOf d = some .attaching := by
  unfold detachGuard at h
  rw [if_pos hg] at h
  exact (ensureAttachedOrAttaching_ok h).2

/-! ### attach -/

/-- the in-flight entry `ClientInfo.AttachDocument` writes -/
def attachedEntry (i : Client) (d : DocId) (epoch : Int) : ClientDoc :=
  { status := .attached, serverSeq := 0, clientSeq := 0, epoch := epoch, gen := i.genOf d }

theorem attachDocument_ok {i i' : Client} {d : DocId} {b : Bool} {e : Int} (h : i.attachDocument d b e = .ok i') :
    i' = { i with docs := i.docs.set d (attachedEntry i d e) } ∧ i.statusOf d ≠ some .attached ∧
    i.isAlreadyDetached d b = false := by
  unfold Client.attachDocument at h
  split at h
  · simp at h
  · split at h
    · simp at h
    · next hd =>
      split at h
      · simp at h
      · next hs =>
        dsimp only at h
        injection h with h
        exact ⟨h.symm, by simpa using hs, by simpa using hd⟩

theorem tryAttaching_ok {s s' : Server} {c : ClientId} {d : DocId} {i' : Client}
    (h : tryAttaching s c d = (s', .ok i')) :
    ∃ i, s.findClient c = some i ∧ i.activated = true ∧ i.statusOf d ≠ some .attached ∧
      i' = i.markAttaching d ∧ s' = s.setClient c (i.markAttaching d) := by
  unfold tryAttaching at h
  split at h
  · injection h with _ h2; simp at h2
  · next i hi =>
    split at h
    · injection h with _ h2; simp at h2
    · next ha =>
      split at h
      · injection h with _ h2; simp at h2
      · next hs =>
        injection h with h1 h2; injection h2 with h2
        exact ⟨i, hi, by simpa using ha, by simpa using hs, h2.symm, h1.symm⟩

theorem tryAttaching_error {s s' : Server} {c : ClientId} {d : DocId} {e : ErrKind}
    (h : tryAttaching s c d = (s', .error e)) : s' = s ∧ e = .clientNotFound := by
  unfold tryAttaching at h
  split at h
  · injection h with h1 h2; injection h2 with h2; exact ⟨h1.symm, h2.symm⟩
  · split at h
    · injection h with h1 h2; injection h2 with h2; exact ⟨h1.symm, h2.symm⟩
    · split at h
      · injection h with h1 h2; injection h2 with h2; exact ⟨h1.symm, h2.symm⟩
      · injection h with _ h2; simp at h2

/-- `clients.AttachDocument` succeeded: the store holds `attaching` for (c,d) – written now by
`TryAttaching` or left by an earlier failed attach – and the in-flight copy says `attached (0,0)`. -/
theorem clientsAttach_ok {s s' : Server} {c : ClientId} {info info2 : Client} {d : DocId} {e : Int} {b : Bool}
    (h : clientsAttach s c info d e b = (s', .ok info2)) :
    ∃ info1, info2 = { info1 with docs := info1.docs.set d (attachedEntry info1 d e) } ∧
      info1.statusOf d = some .attaching ∧ info.isAlreadyDetached d b = false ∧
      ((info.isAttaching d = true ∧ s' = s ∧ info1 = info) ∨
       (info.isAttaching d = false ∧ ∃ i, s.findClient c = some i ∧ i.activated = true ∧
          i.statusOf d ≠ some .attached ∧ info1 = i.markAttaching d ∧ s' = s.setClient c (i.markAttaching d))) := by
  unfold clientsAttach at h
  split at h
  · injection h with _ h2; simp at h2
  · next hd =>
    split at h
    · injection h with _ h2; simp at h2
    · next s1 info1 has =>
      injection h with h1 h2
      subst h1
      obtain ⟨e1, _, _⟩ := attachDocument_ok h2
      unfold attachingStep at has
      split at has
      · next hat =>
        injection has with e2 e3; injection e3 with e3
        subst e2; subst e3
        exact ⟨info, e1, by simpa [Client.isAttaching] using hat, by simpa using hd, Or.inl ⟨hat, rfl, rfl⟩⟩
      · next hat =>
        obtain ⟨i, hi, ha, hs, e2, e3⟩ := tryAttaching_ok has
        refine ⟨info1, e1, ?_, by simpa using hd, Or.inr ⟨by simpa using hat, i, hi, ha, hs, e2, e3⟩⟩
        rw [e2]; simp [Client.statusOf, Client.markAttaching, AL.get?_set_self]

/-- `clients.AttachDocument` failed: nothing written, or only the `attaching` mark -/
theorem clientsAttach_error {s s' : Server} {c : ClientId} {info : Client} {d : DocId} {e : Int} {b : Bool}
    {err : ErrKind} (h : clientsAttach s c info d e b = (s', .error err)) :
    s' = s ∨ ∃ i, s.findClient c = some i ∧ i.statusOf d ≠ some .attached ∧ s' = s.setClient c (i.markAttaching d) := by
  unfold clientsAttach at h
  split at h
  · injection h with h1 _; exact Or.inl h1.symm
  · split at h
    · next s1 e1 has =>
      injection h with h1 _; subst h1
      unfold attachingStep at has
      split at has
      · injection has with _ h2; simp at h2
      · exact Or.inl (tryAttaching_error has).1
    · next s1 info1 has =>
      injection h with h1 _; subst h1
      unfold attachingStep at has
      split at has
      · injection has with h1 _; exact Or.inl h1.symm
      · obtain ⟨i, hi, _, hs, _, e3⟩ := tryAttaching_ok has
        exact Or.inr ⟨i, hi, hs, e3⟩

theorem findOrCreateDoc_clients (s : Server) (key : Nat) (dp : Bool) :
    (findOrCreateDoc s key dp).1.clients = s.clients ∧ (findOrCreateDoc s key dp).1.cfg = s.cfg ∧
    (findOrCreateDoc s key dp).1.nextClient = s.nextClient := by
  unfold findOrCreateDoc
  split <;> exact ⟨rfl, rfl, rfl⟩

/-- `AttachDocument` -/
theorem attach_inv {s s' : Server} {c : ClientId} {key : Nat} {pack : Pack} {dp nogc : Bool}
    {out : Except ErrKind Resp} (h : attach s c key pack dp nogc = (s', out)) :
    (s' = s ∧ ∃ e, out = .error e ∧ s.findActiveClient c = .error e) ∨
    ∃ info, s.findClient c = some info ∧ info.activated = true ∧
      attachWith (findOrCreateDoc s key dp).1 c info (findOrCreateDoc s key dp).2 pack nogc = (s', out) := by
  unfold attach at h
  split at h
  · next e he => injection h with h1 h2; exact Or.inl ⟨h1.symm, e, h2.symm, he⟩
  · next info hi =>
    obtain ⟨h1, h2⟩ := findActiveClient_ok hi
    exact Or.inr ⟨info, h1, h2, h⟩

theorem attachWith_inv {s1 s' : Server} {c : ClientId} {info : Client} {d : DocId} {pack : Pack} {nogc : Bool}
    {out : Except ErrKind Resp} (h : attachWith s1 c info d pack nogc = (s', out)) :
    (s1.findDoc d = none ∧ s' = s1 ∧ out = .error .documentNotFound) ∨
    ∃ doc, s1.findDoc d = some doc ∧
      ((∃ e, clientsAttach s1 c info d doc.epoch (pack.cp.serverSeq != 0) = (s', .error e) ∧ out = .error e) ∨
       ∃ s2 info2, clientsAttach s1 c info d doc.epoch (pack.cp.serverSeq != 0) = (s2, .ok info2) ∧
        ((∃ f', pushPull s2 (mkFlight c d info2 pack false .attached nogc doc.disablePresence) = (s', .ok f') ∧
            out = .ok { f'.resp with doc := some d }) ∨
         (∃ e, pushPull s2 (mkFlight c d info2 pack false .attached nogc doc.disablePresence) = (s', .error e) ∧
            out = .error e))) := by
  unfold attachWith at h
  split at h
  · next hn => injection h with h1 h2; exact Or.inl ⟨hn, h1.symm, h2.symm⟩
  · next doc hd =>
    refine Or.inr ⟨doc, hd, ?_⟩
    split at h
    · next s2 e hca =>
      injection h with h1 h2; subst h1
      exact Or.inl ⟨e, hca, h2.symm⟩
    · next s2 info2 hca =>
      refine Or.inr ⟨s2, info2, hca, ?_⟩
      split at h
      · next s3 f hpp =>
        injection h with h1 h2; subst h1
        exact Or.inl ⟨f, hpp, h2.symm⟩
      · next s3 e hpp =>
        injection h with h1 h2; subst h1
        exact Or.inr ⟨e, hpp, h2.symm⟩

end Yorkie.Server
