/-
The observable document model as an instance of the generic convergence semantics
(`YorkieModel.Lemmas.Convergence`), with all laws proved.
-/
import YorkieModel.Lemmas.DocSwap
import YorkieModel.Lemmas.Convergence
namespace Yorkie.Crdt
open Yorkie Yorkie.Convergence

def docSem : Sem Doc Op Ticket where
  apply := apply
  init := Doc.init
  author := fun a => a.ts.actor
  creates := creates
  refs := refs
  ids := ids
  Pre := Pre

theorem docLaws : docSem.Laws where
  H0 := H0
  H1 := fun _ _ h => ids_apply h
  H1r := fun _ _ h => refs_creates h
  H2 := fun _ _ _ ha hb hi => swap_closed ha hb hi
  H3 := fun _ _ _ ha hb hi => pre_stable ha hb hi

end Yorkie.Crdt
