/- Generic lemmas about the LLRB core (Model/RBCore.lean): every restructuring keeps the
in-order sequence of payload keys (`klist`), for any payload projection `key` that the
aggregate recomputation `upd` leaves alone. -/
import YorkieModel.Model.RBCore
namespace Yorkie.RB
open T

variable {α Q β : Type} (cfg : Cfg α Q) (key : α → β)

/-- in-order sequence of payload keys -/
def klist (t : T α) : List β := t.toList.map key

@[simp] theorem klist_nil : klist key (nil : T α) = [] := rfl
@[simp] theorem klist_node (l : T α) (a c r) :
    klist key (node l a c r) = klist key l ++ key a :: klist key r := by simp [klist, toList]

/-- `key` ignores the cached aggregates -/
def KeyOK : Prop := ∀ l a r, key (cfg.upd l a r) = key a

variable {cfg key}

@[simp] theorem klist_mkN (hk : KeyOK cfg key) (l : T α) (a c r) :
    klist key (mkN cfg l a c r) = klist key l ++ key a :: klist key r := by
  simp [mkN, hk l a r]

@[simp] theorem klist_refresh (hk : KeyOK cfg key) (t : T α) : klist key (refresh cfg t) = klist key t := by
  cases t <;> simp [refresh, hk]

@[simp] theorem klist_rotateLeft (hk : KeyOK cfg key) (t : T α) :
    klist key (rotateLeft cfg t) = klist key t := by
  unfold rotateLeft; split <;> simp [hk]

@[simp] theorem klist_rotateRight (hk : KeyOK cfg key) (t : T α) :
    klist key (rotateRight cfg t) = klist key t := by
  unfold rotateRight; split <;> simp [hk]

@[simp] theorem klist_flipRoot (t : T α) : klist key (flipRoot t) = klist key t := by
  cases t <;> simp [flipRoot]

@[simp] theorem klist_flipColors (t : T α) : klist key (flipColors t) = klist key t := by
  cases t <;> simp [flipColors]

@[simp] theorem klist_blacken (t : T α) : klist key t.blacken = klist key t := by
  cases t <;> simp [blacken]

@[simp] theorem klist_fixUp (hk : KeyOK cfg key) (s : Bool) (t : T α) :
    klist key (fixUp cfg s t) = klist key t := by
  unfold fixUp
  simp only []
  repeat' split
  all_goals simp [hk]

@[simp] theorem klist_moveRedLeft (hk : KeyOK cfg key) (t : T α) :
    klist key (moveRedLeft cfg t) = klist key t := by
  unfold moveRedLeft
  split
  · next l a c r h =>
    have e : klist key (flipColors t) = klist key t := klist_flipColors t
    rw [h] at e
    split
    · rw [← e]; simp [hk]
    · exact e
  · next h =>
    have e : klist key (flipColors t) = klist key t := klist_flipColors t
    rw [h] at e; exact e

@[simp] theorem klist_moveRedRight (hk : KeyOK cfg key) (t : T α) :
    klist key (moveRedRight cfg t) = klist key t := by
  unfold moveRedRight
  simp only []
  split <;> simp [hk]

/-- sizes -/
@[simp] theorem size_nil : (nil : T α).size = 0 := rfl
@[simp] theorem size_node (l : T α) (a c r) : (node l a c r).size = l.size + 1 + r.size := rfl

theorem length_klist (t : T α) : (klist key t).length = t.size := by
  induction t with
  | nil => rfl
  | node l a c r ihl ihr => simp [ihl, ihr]; omega

end Yorkie.RB
