/-
Text undo/redo, depth k: what ONE operation and ONE change (a run of operations) do to the block
list, to the liveness of cells and to the spans other stack entries hold (core Lean only).
-/
import YorkieModel.Lemmas.TextUndoLive
import YorkieModel.Lemmas.TextUndoProj
import YorkieModel.Lemmas.TextUndoChain
import YorkieModel.Lemmas.TextUndoTickets
import YorkieModel.Lemmas.TextUndoTotal
namespace Yorkie.TextUndo
open Yorkie Yorkie.Text

/-- tickets issued up to change `lam`, or by the running change `lam + 1` of `actor` before its
    `i`-th operation -/
def Tk (lam : Int) (actor : Actor) (i : Nat) (t : Ticket) : Prop :=
  t.lamport ≤ lam ∨ (t.lamport = lam + 1 ∧ t.actor = actor ∧ t.delim < i)

def TB (lam : Int) (actor : Actor) (i : Nat) (s : TextSt) : Prop := ∀ n ∈ s, Tk lam actor i n.id.1

theorem Tk.mono {lam : Int} {actor : Actor} {i j : Nat} (h : i ≤ j) {t : Ticket} (ht : Tk lam actor i t) :
    Tk lam actor j t := by
  rcases ht with h1 | ⟨h1, h2, h3⟩
  · exact Or.inl h1
  · exact Or.inr ⟨h1, h2, by omega⟩

theorem Tk.zero {lam : Int} {actor : Actor} {t : Ticket} : Tk lam actor 0 t ↔ t.lamport ≤ lam := by
  constructor
  · rintro (h | ⟨_, _, h⟩)
    · exact h
    · omega
  · exact Or.inl

theorem Tk.next {lam : Int} {actor : Actor} {i : Nat} {t : Ticket} (ht : Tk lam actor i t) :
    t.lamport ≤ lam + 1 := by
  rcases ht with h1 | ⟨h1, _, _⟩ <;> omega

theorem Tk.ne {lam : Int} {actor : Actor} {i : Nat} {t : Ticket} (ht : Tk lam actor i t) :
    (⟨lam + 1, i, actor⟩ : Ticket) ≠ t := by
  intro e; subst e
  rcases ht with h1 | ⟨_, _, h3⟩
  · simp at h1; omega
  · simp at h3

/-- the spans of a stacked reverse are tiled in `st` and carry the writer's tickets; no `noop` -/
def RevOK (lam : Int) (actor : Actor) (i : Nat) (st : TextSt) : TRev → Prop
  | .spans _ r _ k => ∀ sp ∈ r ++ k, Tiled st sp ∧ sp.ca.actor = actor ∧ Tk lam actor i sp.ca
  | .noop _ _ => False
  | .style _ _ _ _ => True

theorem RevOK.trans {lam : Int} {actor : Actor} {i j : Nat} {st st' : TextSt} {x : TRev}
    (hij : i ≤ j) (ht : ∀ sp, Tk lam actor i sp.ca → Tiled st sp → Tiled st' sp)
    (h : RevOK lam actor i st x) : RevOK lam actor j st' x := by
  cases x with
  | spans fr r m k =>
    intro sp hsp
    obtain ⟨t, a, b⟩ := h sp hsp
    exact ⟨ht sp b t, a, b.mono hij⟩
  | noop a b => exact h
  | style a b c d => trivial

theorem RevOK.revOld {lam : Int} {actor : Actor} {st : TextSt} {x : TRev}
    (h : RevOK lam actor 0 st x) : RevOld lam x := by
  cases x with
  | spans fr r m k => exact fun sp hsp => Tk.zero.mp (h sp hsp).2.2
  | noop a b => trivial
  | style a b c d => trivial

/-- after the change the clock is `lam + 1` -/
theorem RevOK.bump {lam : Int} {actor : Actor} {i : Nat} {st : TextSt} {x : TRev}
    (h : RevOK lam actor i st x) : RevOK (lam + 1) actor 0 st x := by
  cases x with
  | spans fr r m k =>
    intro sp hsp
    obtain ⟨t, a, b⟩ := h sp hsp
    exact ⟨t, a, Tk.zero.mpr b.next⟩
  | noop a b => exact h
  | style a b c d => trivial

def TRev.isNoop : TRev → Bool
  | .noop _ _ => true
  | _ => false

def OpFixed : TOp → Prop
  | .edit _ _ content _ => Fixed content
  | .style _ _ _ => True

theorem oldL_liveAt {lam : Int} {s : TextSt} (h : ∀ n ∈ s, n.id.1.lamport ≤ lam) : OldL lam (liveAt s) := by
  intro c hc
  unfold liveAt at hc
  obtain ⟨n, hn, hcov⟩ := List.any_eq_true.mp hc
  simp only [Bool.and_eq_true, covers, decide_eq_true_eq] at hcov
  rw [← hcov.2.1.1]; exact h n hn

/-! ### assign algebra -/

theorem assign_nil (L : Id → Bool) : assign [] [] L = L := by
  funext c; simp [assign, inAny]

/-- undoing the forward effect of an edit: the removed cells were live, the inserted ones did not exist -/
theorem assign_undo {R K : List Span} {L : Id → Bool} (hR : ∀ c, inAny R c = true → L c = true)
    (hK : ∀ c, inAny K c = true → L c = false) : assign R K (assign K R L) = L := by
  funext c
  unfold assign
  by_cases h1 : inAny R c = true
  · simp [h1, hR c h1]
  · by_cases h2 : inAny K c = true
    · simp [h1, h2, hK c h2]
    · simp [h1, h2]

/-! ### one forward operation -/

structure FwdStep (lam : Int) (actor : Actor) (i : Nat) (s : TextSt) (res : Res) : Prop where
  wf : WF res.st
  tb : TB lam actor (i + 1) res.st
  degr : ∀ B, OldL lam B → Degr (projC B s) (projC B res.st)
  tiled : ∀ sp, Tk lam actor i sp.ca → Tiled s sp → Tiled res.st sp
  posin : ∀ p, PosIn s p → PosIn res.st p
  rev : ∀ x, res.rev = some x → x.isNoop = false →
    RevOK lam actor (i + 1) res.st x ∧ effRev x (liveAt res.st) = liveAt s ∧
      effEntry (flipRev x) (liveAt s) = liveAt res.st
  norev : res.rev = none → liveAt res.st = liveAt s
  nobs : res.observable = false → liveAt res.st = liveAt s

theorem oldL_new {lam : Int} {B : Id → Bool} (hB : OldL lam B) (actor : Actor) (i o : Nat) :
    B ((⟨lam + 1, i, actor⟩ : Ticket), o) = false := by
  cases h : B ((⟨lam + 1, i, actor⟩ : Ticket), o)
  · rfl
  · have := hB _ h; simp at this; omega

theorem fresh_of_tb {lam : Int} {actor : Actor} {i : Nat} {s : TextSt} (tb : TB lam actor i s) :
    Fresh s ⟨lam + 1, i, actor⟩ := fun n hn e => (tb n hn).ne e.symm

theorem inAny_single_ca {sp : Span} {c : Id} (h : inAny [sp] c = true) : c.1 = sp.ca := by
  simp only [inAny, List.any_cons, List.any_nil, Bool.or_false, inSpanC, Bool.and_eq_true,
    decide_eq_true_eq] at h
  exact h.1.1

theorem fwd_edit_step {lam : Int} {actor : Actor} {i : Nat} {s : TextSt} (wf : WF s)
    (tb : TB lam actor i s) {fr to : Pos} {content : List Nat} {attrs : List (String × String)}
    (hc : Fixed content) {res : Res}
    (h : execEdit fr to content attrs ⟨lam + 1, i, actor⟩ (some [(actor, lam + 1)]) s = .ok res) :
    FwdStep lam actor i s res := by
  have hfresh := fresh_of_tb tb
  obtain ⟨hed, ⟨fp, hrev⟩, hobs, hlive, hRlive, hKdead, hRca⟩ := execEdit_sem wf hfresh hc h
  have wf' := wf_edit wf hfresh hc hed
  have tb' : TB lam actor (i + 1) res.st := by
    intro x hx
    rcases createdAt_edit wf hed x hx with ⟨m, hm, e⟩ | e
    · rw [e]; exact (tb m hm).mono (Nat.le_succ i)
    · rw [e]; exact Or.inr ⟨rfl, rfl, Nat.lt_succ_self i⟩
  -- facts about the two span sets
  have hKnew : ∀ c, inAny (if content.isEmpty then []
      else [({ ca := ⟨lam + 1, i, actor⟩, start := 0, stop := content.length, content := content } : Span)]) c
        = true → liveAt s c = false := by
    intro c hcK
    split at hcK
    · simp [inAny] at hcK
    · have e := inAny_single_ca hcK
      have : c = (c.1, c.2) := rfl
      rw [this, e]; exact hKdead c.2
  refine ⟨wf', tb', ?_, ?_, fun p hp => posIn_edit wf hed hp, ?_, ?_, ?_⟩
  · intro B hB
    exact degr_projC_edit wf B (fun o => oldL_new hB actor i o) hed
  · intro sp hsp t
    exact tiled_edit wf (Tk.ne hsp) hed t
  · intro x hx hnn
    rw [hrev] at hx
    injection hx with hx
    unfold reverseOfEdit at hx
    split at hx
    · subst hx
      refine ⟨?_, ?_, ?_⟩
      · intro sp hsp
        rcases List.mem_append.mp hsp with hsp | hsp
        · have hk := known_single (removedSpans_known hsp)
          obtain ⟨n, hn, e⟩ := hRca sp hsp
          exact ⟨tiled_removedSpans wf hfresh hc hed sp hsp, hk.1,
            by rw [← e]; exact (tb n hn).mono (Nat.le_succ i)⟩
        · split at hsp
          · cases hsp
          · rename_i hne
            simp only [List.mem_singleton] at hsp
            subst hsp
            exact ⟨tiled_inserted wf hfresh (by simpa using hne) hed, rfl,
              Or.inr ⟨rfl, rfl, Nat.lt_succ_self i⟩⟩
      · simp only [effRev]
        rw [hlive]
        exact assign_undo hRlive hKnew
      · simp only [flipRev, RMode.flip, effEntry, List.foldl_cons, List.foldl_nil, effRev]
        exact hlive.symm
    · subst hx; simp [TRev.isNoop] at hnn
  · intro hn; rw [hrev] at hn; cases hn
  · intro ho
    rw [hobs] at ho
    simp only [Bool.or_eq_false_iff, Bool.not_eq_false'] at ho
    rw [hlive, if_pos ho.1, List.isEmpty_iff.mp ho.2]
    exact assign_nil _

theorem fwd_style_step {lam : Int} {actor : Actor} {i : Nat} {s : TextSt} (wf : WF s)
    (tb : TB lam actor i s) {fr to : Pos} {attrs : List (String × String)} {keys : List String}
    {ts : Ticket} {vv : Option VV} {res : Res} (h : execStyle fr to attrs keys ts vv s = .ok res) :
    FwdStep lam actor i s res := by
  obtain ⟨hst, hlive, hobs, hrev⟩ := execStyle_sem wf h
  refine ⟨wf_styleOp wf hst, ?_, ?_, ?_, fun p hp => posIn_styleOp wf hst hp, ?_, ?_, ?_⟩
  · intro x hx
    obtain ⟨m, hm, e⟩ := createdAt_styleOp wf hst x hx
    rw [e]; exact (tb m hm).mono (Nat.le_succ i)
  · intro B _; exact degr_projC_styleOp wf B hst
  · intro sp _ t; exact tiled_styleOp wf hst t
  · intro x hx _
    rcases hrev with hn | ⟨f, t, a, k, hs⟩
    · rw [hn] at hx; cases hx
    · rw [hs] at hx; injection hx with hx; subst hx
      exact ⟨trivial, by simp only [effRev]; exact hlive, by simp [flipRev, effEntry_nil, hlive]⟩
  · intro _; exact hlive
  · intro ho; rw [hobs] at ho; cases ho

theorem fwd_step {lam : Int} {actor : Actor} {i : Nat} {s : TextSt} (wf : WF s) (tb : TB lam actor i s)
    {op : TOp} (hop : OpFixed op) {res : Res}
    (h : execFwd op ⟨lam + 1, i, actor⟩ (some [(actor, lam + 1)]) s = .ok res) :
    FwdStep lam actor i s res := by
  cases op with
  | edit fr to content attrs => exact fwd_edit_step wf tb hop h
  | style fr to attrs =>
    simp only [execFwd] at h
    exact fwd_style_step wf tb h

/-! ### one stacked reverse -/

structure RevStep (lam : Int) (actor : Actor) (x : TRev) (s : TextSt) (res : Res) : Prop where
  wf : WF res.st
  tb : TB lam actor 0 res.st
  degr : ∀ B, Degr (projC B s) (projC B res.st)
  tiled : ∀ sp, Tiled s sp → Tiled res.st sp
  posin : ∀ p, PosIn s p → PosIn res.st p
  live : liveAt res.st = effRev x (liveAt s)
  rev : (∀ y ∈ res.rev.toList, RevOK lam actor 0 res.st y) ∧ SameEff res.rev.toList (flipRev x) ∧
    SameEff (flipE res.rev.toList) [x]

theorem tb_map_keeps {lam : Int} {actor : Actor} {i : Nat} {s : TextSt} {g : TNode → TNode}
    (hg : Text.KeepsShape g) (tb : TB lam actor i s) : TB lam actor i (s.map g) := by
  intro x hx
  obtain ⟨y, hy, rfl⟩ := List.mem_map.mp hx
  rw [(hg y).1]; exact tb y hy

theorem rev_step {lam : Int} {actor : Actor} {s : TextSt} (wf : WF s) (tb : TB lam actor 0 s)
    {x : TRev} (hx : RevOK lam actor 0 s x) (i : Nat) {res : Res}
    (h : execRev x ⟨lam + 1, i, actor⟩ (some [(actor, lam + 1)]) s = .ok res) :
    RevStep lam actor x s res := by
  cases x with
  | spans fr R m K =>
    have tR : ∀ sp ∈ R, Tiled s sp := fun sp h => (hx sp (List.mem_append_left _ h)).1
    have tK : ∀ sp ∈ K, Tiled s sp := fun sp h => (hx sp (List.mem_append_right _ h)).1
    have vR : validSpans (some [(actor, lam + 1)]) R = true :=
      validSpans_single (fun sp h => ⟨(hx sp (List.mem_append_left _ h)).2.1,
        (hx sp (List.mem_append_left _ h)).2.2.next⟩)
    have vK : validSpans (some [(actor, lam + 1)]) K = true :=
      validSpans_single (fun sp h => ⟨(hx sp (List.mem_append_right _ h)).2.1,
        (hx sp (List.mem_append_right _ h)).2.2.next⟩)
    obtain ⟨res', g, hex, hst, hg, hrev, hlive⟩ :=
      execSpans_sem (fr := fr) (m := m) (ts := ⟨lam + 1, i, actor⟩) wf tR tK ⟨vR, vK⟩
    simp only [execRev] at h
    rw [hex] at h; injection h with h; subst h
    refine ⟨by rw [hst]; exact wf_map_keeps wf hg, by rw [hst]; exact tb_map_keeps hg tb, ?_, ?_,
      fun p hp => by rw [hst]; exact posIn_map_keeps hg hp, hlive, ?_⟩
    · intro B; rw [hst, projC_map_keeps hg]; exact degr_refl _
    · intro sp t; rw [hst]; exact tiled_map_keepsShape hg t
    · rw [hrev]
      refine ⟨?_, SameEff.refl _, ?_⟩
      · intro y hy
        simp only [Option.toList, List.mem_singleton] at hy
        subst hy
        intro sp hsp
        obtain ⟨t, a, b⟩ := hx sp hsp
        exact ⟨by rw [hst]; exact tiled_map_keepsShape hg t, a, b⟩
      · intro L
        simp [Option.toList, flipE, flipRev, effEntry, rmode_flip_flip]
  | noop a b => exact absurd hx (by simp [RevOK])
  | style fr to attrs keys =>
    simp only [execRev] at h
    obtain ⟨hst, hlive, _, hrev⟩ := execStyle_sem wf h
    refine ⟨wf_styleOp wf hst, ?_, fun B => degr_projC_styleOp wf B hst,
      fun sp t => tiled_styleOp wf hst t, fun p hp => posIn_styleOp wf hst hp,
      by simp only [effRev]; exact hlive, ?_⟩
    · intro y hy
      obtain ⟨m, hm, e⟩ := createdAt_styleOp wf hst y hy
      rw [e]; exact tb m hm
    · rcases hrev with hn | ⟨f, t, a, k, hs⟩
      · rw [hn]; exact ⟨by simp [Option.toList], fun _ => rfl, fun _ => rfl⟩
      · rw [hs]
        exact ⟨by simp [Option.toList, RevOK], fun _ => rfl, fun _ => rfl⟩

/-! ### runs -/

theorem runWith_failed {α} (exec : α → Ticket → Option VV → TextSt → Except Err Res) (lam : Int)
    (actor : Actor) (vv : Option VV) (i : Nat) (ops : List α) (r : Run) (h : r.failed = true) :
    runWith exec lam actor vv i ops r = r := by
  cases ops with
  | nil => rfl
  | cons op rest => simp [runWith, h]

theorem runWith_observable_mono {α} (exec : α → Ticket → Option VV → TextSt → Except Err Res) (lam : Int)
    (actor : Actor) (vv : Option VV) : ∀ (i : Nat) (ops : List α) (r : Run), r.observable = true →
    (runWith exec lam actor vv i ops r).observable = true
  | _, [], _, h => h
  | i, op :: rest, r, h => by
    simp only [runWith]
    split
    · exact h
    · split
      · exact h
      · exact runWith_observable_mono exec lam actor vv (i + 1) rest _ (by simp [h])

theorem sameEff_append {a a' b b' : List TRev} (h1 : SameEff a a') (h2 : SameEff b b') :
    SameEff (a ++ b) (a' ++ b') := by
  intro L; rw [effEntry_append, effEntry_append, h1, h2]

structure RevRun (lam : Int) (actor : Actor) (e : List TRev) (r r' : Run) : Prop where
  wf : WF r'.st
  tb : TB lam actor 0 r'.st
  degr : ∀ B, Degr (projC B r.st) (projC B r'.st)
  tiled : ∀ sp, Tiled r.st sp → Tiled r'.st sp
  posin : ∀ p, PosIn r.st p → PosIn r'.st p
  live : liveAt r'.st = effEntry e (liveAt r.st)
  revs : ∃ new, r'.revs = new ++ r.revs ∧ SameEff new (flipE e) ∧ SameEff (flipE new) e ∧
    ∀ y ∈ new, RevOK lam actor 0 r'.st y

theorem rev_run {lam : Int} {actor : Actor} : ∀ (e : List TRev) (i : Nat) (r : Run), r.failed = false →
    WF r.st → TB lam actor 0 r.st → (∀ x ∈ e, RevOK lam actor 0 r.st x) →
    (runWith execRev (lam + 1) actor (some [(actor, lam + 1)]) i e r).failed = false →
    RevRun lam actor e r (runWith execRev (lam + 1) actor (some [(actor, lam + 1)]) i e r)
  | [], _, r, _, wf, tb, _, _ =>
    ⟨wf, tb, fun _ => degr_refl _, fun _ t => t, fun _ hp => hp, rfl, [], rfl, fun _ => rfl, fun _ => rfl,
      by simp⟩
  | x :: rest, i, r, hf, wf, tb, hok, hnf => by
    simp only [runWith, hf, Bool.false_eq_true, if_false] at hnf ⊢
    cases hex : execRev x ⟨lam + 1, i, actor⟩ (some [(actor, lam + 1)]) r.st with
    | error err =>
      simp only [hex] at hnf
      cases hnf
    | ok res =>
      simp only [hex] at hnf ⊢
      have st1 := rev_step wf tb (hok x List.mem_cons_self) i hex
      have hok1 : ∀ y ∈ rest, RevOK lam actor 0 res.st y := fun y hy =>
        (hok y (List.mem_cons_of_mem _ hy)).trans (Nat.le_refl 0) (fun sp _ t => st1.tiled sp t)
      have ih := rev_run rest (i + 1)
        { st := res.st, observable := r.observable || res.observable,
          revs := consRev res.rev r.revs }
        rfl st1.wf st1.tb hok1 hnf
      obtain ⟨new, hnew, se1, se2, hrok⟩ := ih.revs
      have hrevs : consRev res.rev r.revs = res.rev.toList ++ r.revs := by
        cases res.rev <;> rfl
      refine ⟨ih.wf, ih.tb, fun B => degr_trans (st1.degr B) (ih.degr B),
        fun sp t => ih.tiled sp (st1.tiled sp t), fun p hp => ih.posin p (st1.posin p hp), ?_,
        new ++ res.rev.toList, ?_, ?_, ?_, ?_⟩
      · rw [ih.live, st1.live, effEntry_cons]
      · rw [hnew, hrevs, List.append_assoc]
      · simp only [flipE]
        exact sameEff_append se1 st1.rev.2.1
      · intro L
        rw [flipE_append, effEntry_append, st1.rev.2.2 L, se2, effEntry_cons, effEntry_nil, effEntry_cons]
      · intro y hy
        rcases List.mem_append.mp hy with hy | hy
        · exact hrok y hy
        · exact (st1.rev.1 y hy).trans (Nat.le_refl 0) (fun sp _ t => ih.tiled sp t)

structure FwdRun (lam : Int) (actor : Actor) (j : Nat) (r r' : Run) : Prop where
  wf : WF r'.st
  tb : TB lam actor j r'.st
  degr : ∀ B, OldL lam B → Degr (projC B r.st) (projC B r'.st)
  posin : ∀ p, PosIn r.st p → PosIn r'.st p
  revs : ∃ new, r'.revs = new ++ r.revs ∧ effEntry new (liveAt r'.st) = liveAt r.st ∧
    effEntry (flipE new) (liveAt r.st) = liveAt r'.st ∧ ∀ y ∈ new, RevOK lam actor j r'.st y
  nobs : r'.observable = false → liveAt r'.st = liveAt r.st

theorem fwd_run {lam : Int} {actor : Actor} : ∀ (ops : List TOp) (i : Nat) (r : Run), r.failed = false →
    WF r.st → TB lam actor i r.st → (∀ op ∈ ops, OpFixed op) →
    (runWith execFwd (lam + 1) actor (some [(actor, lam + 1)]) i ops r).failed = false →
    (∀ y ∈ (runWith execFwd (lam + 1) actor (some [(actor, lam + 1)]) i ops r).revs, y.isNoop = false) →
    FwdRun lam actor (i + ops.length) r (runWith execFwd (lam + 1) actor (some [(actor, lam + 1)]) i ops r) ∧
    ∀ sp, Tk lam actor i sp.ca → Tiled r.st sp →
      Tiled (runWith execFwd (lam + 1) actor (some [(actor, lam + 1)]) i ops r).st sp
  | [], _, r, _, wf, tb, _, _, _ =>
    ⟨⟨wf, tb, fun _ _ => degr_refl _, fun _ hp => hp, ⟨[], rfl, rfl, rfl, by simp⟩, fun _ => rfl⟩,
      fun _ _ t => t⟩
  | op :: rest, i, r, hf, wf, tb, hfix, hnf, hnn => by
    simp only [runWith, hf, Bool.false_eq_true, if_false] at hnf hnn ⊢
    cases hex : execFwd op ⟨lam + 1, i, actor⟩ (some [(actor, lam + 1)]) r.st with
    | error err =>
      simp only [hex] at hnf
      cases hnf
    | ok res =>
      simp only [hex] at hnf hnn ⊢
      have st1 := fwd_step wf tb (hfix op List.mem_cons_self) hex
      have hrevs : consRev res.rev r.revs = res.rev.toList ++ r.revs := by
        cases res.rev <;> rfl
      have ihf := fwd_run rest (i + 1)
        { st := res.st, observable := r.observable || res.observable,
          revs := consRev res.rev r.revs }
        rfl st1.wf st1.tb (fun o ho => hfix o (List.mem_cons_of_mem _ ho)) hnf hnn
      obtain ⟨ih, ihtiled⟩ := ihf
      obtain ⟨new, hnew, e1, e2, hrok⟩ := ih.revs
      have hlen : i + 1 + rest.length = i + (op :: rest).length := by simp; omega
      -- the reverse of this step is not a noop: it is on the final stack
      have hnn1 : ∀ x, res.rev = some x → x.isNoop = false := by
        intro x hx
        apply hnn
        rw [hnew, hrevs, hx]
        simp [Option.toList]
      have hstep : effEntry res.rev.toList (liveAt res.st) = liveAt r.st ∧
          effEntry (flipE res.rev.toList) (liveAt r.st) = liveAt res.st ∧
          ∀ y ∈ res.rev.toList, RevOK lam actor (i + 1) res.st y := by
        cases hr : res.rev with
        | none =>
          have := st1.norev hr
          simp [Option.toList, effEntry_nil, flipE, this]
        | some x =>
          obtain ⟨a, b, c⟩ := st1.rev x hr (hnn1 x hr)
          refine ⟨by simpa [Option.toList, effEntry_cons, effEntry_nil] using b,
            by simpa [Option.toList, flipE] using c, ?_⟩
          intro y hy
          simp only [Option.toList, List.mem_singleton] at hy
          subst hy; exact a
      refine ⟨⟨ih.wf, hlen ▸ ih.tb, fun B hB => degr_trans (st1.degr B hB) (ih.degr B hB),
        fun p hp => ih.posin p (st1.posin p hp), ⟨new ++ res.rev.toList, ?_, ?_, ?_, ?_⟩, ?_⟩, ?_⟩
      · rw [hnew, hrevs, List.append_assoc]
      · rw [effEntry_append, e1]; exact hstep.1
      · rw [flipE_append, effEntry_append, hstep.2.1]; exact e2
      · intro y hy
        rcases List.mem_append.mp hy with hy | hy
        · exact hlen ▸ hrok y hy
        · have h1 := hstep.2.2 y hy
          exact hlen ▸ h1.trans (Nat.le_add_right _ _)
            (fun sp hsp t => ihtiled sp hsp t)
      · intro ho
        have ho' := ih.nobs ho
        -- the accumulated flag is an `or`
        have hobs1 : (r.observable || res.observable) = false := by
          cases hh : (r.observable || res.observable) with
          | false => rfl
          | true =>
            have := runWith_observable_mono execFwd (lam + 1) actor (some [(actor, lam + 1)]) (i + 1) rest
              { st := res.st, observable := r.observable || res.observable,
                revs := consRev res.rev r.revs } hh
            rw [this] at ho; cases ho
        simp only [Bool.or_eq_false_iff] at hobs1
        rw [ho', st1.nobs hobs1.2]
      · intro sp hsp t
        exact ihtiled sp (hsp.mono (Nat.le_succ i)) (st1.tiled sp hsp t)

end Yorkie.TextUndo
