/-
Helper lemmas for Model/Conc.lean, part 13: one phase of one request preserves the concurrent
sequence invariant `SC`.
-/
import YorkieModel.Lemmas.ConcSeq
namespace Yorkie.Conc
open Yorkie Yorkie.Server

theorem range'_glue (a n : Nat) : List.range' 1 a ++ List.range' (a + 1) n = List.range' 1 (a + n) := by
  rw [show a + 1 = 1 + a by omega, ← List.range'_append_1]

/-- the rows a push appends continue the numbering of the attachment -/
theorem pushed_consecutive {s : Server} {f : Flight} {p : List ChangeReq}
    (hcont : seqsContinuous (f.info.checkpoint f.doc).clientSeq ((f.info.checkpoint f.doc).clientSeq + 1)
      f.pack.changes = true) (hguard : pushGuard s f = .ok p) :
    p.map (·.clientSeq) = List.range' ((f.info.checkpoint f.doc).clientSeq + 1) p.length := by
  rcases pushGuard_cases hguard with h | h
  · rw [h]; simp
  · rw [h]; exact pushable_consecutive _ _ _ (Nat.lt_succ_self _) hcont

theorem sc_phase {σ : Sys} {g : Ghost} {pre post : List InFlight} {r : InFlight} (hC : CInv σ g) (hG : GC σ) (hS : SC σ)
    (hf : σ.flights = pre ++ r :: post) (hpc : r.pc ≠ .done)
    (hsnap : (stepFlight σ.srv r).2.f.resp.snapshot = false) :
    SC { σ with srv := (stepFlight σ.srv r).1, flights := pre ++ (stepFlight σ.srv r).2 :: post } := by
  have hr : r ∈ σ.flights := by rw [hf]; simp
  have hFr := hC.fl r hr (Or.inl hpc)
  have h2 := hG.fl2 r hr (Or.inl hpc)
  have h3 := hS.fl3 r hr (Or.inl hpc)
  have hlk := hC.locks
  rw [hf] at hlk
  obtain ⟨doc, hd, hl⟩ := hFr.hdoc
  obtain ⟨cdS, hcdS, hst1, hst2, hst3⟩ := h2.stored
  obtain ⟨hopenS, hgenS⟩ := hst1 hpc
  have hdpr : dpOf σ.srv r.f.doc = r.f.disablePresence := by rw [dpOf_findDoc hd]; exact (hFr.dp doc hd).symm
  have memOld : ∀ x, x ∈ pre ∨ x ∈ post → x ∈ σ.flights := by
    intro x hm; rw [hf]
    rcases hm with hm | hm
    · exact List.mem_append_left _ hm
    · exact List.mem_append_right _ (List.mem_cons_of_mem _ hm)
  have memNew : ∀ x r', x ∈ pre ∨ x ∈ post → x ∈ pre ++ r' :: post := by
    intro x r' hm
    rcases hm with hm | hm
    · exact List.mem_append_left _ hm
    · exact List.mem_append_right _ (List.mem_cons_of_mem _ hm)
  have msplit : ∀ x ∈ σ.flights, x = r ∨ (x ∈ pre ∨ x ∈ post) := by
    intro x hx; rw [hf] at hx
    simp only [List.mem_append, List.mem_cons] at hx
    rcases hx with hx | hx | hx
    · exact Or.inr (Or.inl hx)
    · exact Or.inl hx
    · exact Or.inr (Or.inr hx)
  have tne : ∀ x, x ∈ pre ∨ x ∈ post → Active x → x.f.client ≠ r.f.client ∨ x.f.doc ≠ r.f.doc :=
    fun x hm ha => lock_target_ne hFr (hC.fl x (memOld x hm) ha) (nodup_mid_ne hlk hm)
  have ext := stepFlight_docsExt σ.srv r
  have hdpx := dpOf_ext ext
  obtain ⟨_, _, hent⟩ := own_step hC.d hFr hpc hsnap
  -- the list part of `fl3`
  have fl3of : ∀ r', (∀ x, x ∈ pre ∨ x ∈ post → Active x → F3 (stepFlight σ.srv r).1 x) →
      (Active r' → F3 (stepFlight σ.srv r).1 r') →
      ∀ x ∈ pre ++ r' :: post, Active x → F3 (stepFlight σ.srv r).1 x := by
    intro r' ho hr' x hx ha
    simp only [List.mem_append, List.mem_cons] at hx
    rcases hx with hx | hx | hx
    · exact ho x (Or.inl hx) ha
    · subst hx; exact hr' ha
    · exact ho x (Or.inr hx) ha
  -- when no log changes the other requests keep their record
  have othersSame : (∀ d, storedLog (stepFlight σ.srv r).1 d = storedLog σ.srv d) →
      ∀ x, x ∈ pre ∨ x ∈ post → Active x → F3 (stepFlight σ.srv r).1 x := by
    intro hlogs x hm ha
    exact (hS.fl3 x (memOld x hm) ha).frame (by simp only [ownRows, hlogs])
  have keepO : ∀ r' x, x ∈ pre ∨ x ∈ post → Pending x →
      ∃ y ∈ pre ++ r' :: post, Pending y ∧ y.f.client = x.f.client ∧ y.f.doc = x.f.doc :=
    fun r' x hm hpx => ⟨x, memNew x r' hm, hpx, rfl, rfl⟩
  -- no other request of (c,d) is pending
  have nopOthers : ∀ x, x ∈ pre ∨ x ∈ post → Pending x → ¬ (x.f.client = r.f.client ∧ x.f.doc = r.f.doc) := by
    intro x hm hpx hxt
    rcases tne x hm (Or.inl hpx.2) with h | h
    · exact h hxt.1
    · exact h hxt.2
  rcases hph : r.pc.phase σ.srv r.f with ⟨s', e | f'⟩
  · -- the phase fails
    simp only [stepFlight, hph] at fl3of othersSame hdpx ⊢
    have hc := phase_clients hph (Or.inr ⟨e, rfl⟩)
    have hlogs : ∀ d, storedLog s' d = storedLog σ.srv d := by
      intro d'
      by_cases hq : r.pc = .push
      · rw [hq] at hph; simp only [Pc.phase] at hph; rw [pushPack_error hph]
      · exact phase_storedLog hph hq d'
    refine ⟨?_, fl3of _ (othersSame hlogs) (fun ha => absurd ha not_active_error)⟩
    refine hS.s.trans r.f.client r.f.doc [] cdS (by rw [hlogs]; simp) (fun d' _ => hlogs d') hdpx (by simp)
      (fun c' d' _ => entryOf_of_clients_eq hc c' d') (by rw [entryOf_of_clients_eq hc]; exact hcdS) ?_ ?_ ?_
    · intro x hx hpx hxt
      rcases msplit x hx with rfl | hm
      · exact absurd ⟨rfl, rfl⟩ hxt
      · exact keepO _ x hm hpx
    · intro hdp; rw [List.append_nil]; exact hS.s.runs _ _ _ (hdpx _ hdp)
    · intro hdp _ hnp
      rw [List.append_nil]
      have hdpf : r.f.disablePresence = false := by rw [← hdpr]; exact hdpx _ hdp
      by_cases hpr : Pending r
      · obtain ⟨_, hpe⟩ := pending_error hFr h2 hpr hph
        rw [← (hst3 hpr).2 hpe, hgenS]; exact h3.cnt hpr hdpf
      · refine hS.s.cur _ _ cdS (hdpx _ hdp) hcdS hopenS ?_
        intro x hx hpx hxt
        rcases msplit x hx with rfl | hm
        · exact hpr hpx
        · exact nopOthers x hm hpx hxt
  · simp only [stepFlight, hph] at hsnap fl3of othersSame hdpx hent ⊢
    -- the cases in which neither a log nor an entry changes
    have quiet : ∀ (r' : InFlight), s'.clients = σ.srv.clients → (∀ d, storedLog s' d = storedLog σ.srv d) →
        (Pending r → Pending r' ∧ r'.f.client = r.f.client ∧ r'.f.doc = r.f.doc) →
        (Active r' → F3 s' r') → SC { σ with srv := s', flights := pre ++ r' :: post } := by
      intro r' hc hlogs hpend hr'
      refine ⟨hS.s.same hlogs hdpx (fun c d => entryOf_of_clients_eq hc c d) ?_, fl3of r' (othersSame hlogs) hr'⟩
      intro x hx hpx
      rcases msplit x hx with rfl | hm
      · obtain ⟨k1, k2, k3⟩ := hpend hpx
        exact ⟨r', List.mem_append_right _ (List.mem_cons_self ..), k1, k2, k3⟩
      · exact keepO _ x hm hpx
    cases hq : r.pc with
    | done => exact absurd hq hpc
    | validate =>
      simp only [hq, Pc.phase] at hph
      obtain ⟨e1, e2, hcont⟩ := validateClientSeq_ok hph
      subst e1; subst e2
      refine quiet _ rfl (fun _ => rfl) (fun hp => by simp [Pending, hq, Pc.ord] at hp) (fun _ => ?_)
      exact ⟨fun _ _ => hcont, fun hp => by simp [Pending, Pc.next, Pc.ord] at hp,
        fun hx => by simp [Pc.next, Pc.ord] at hx⟩
    | strip =>
      simp only [hq, Pc.phase] at hph
      rw [stripPresence_eq] at hph
      injection hph with e1 e2; injection e2 with e2
      subst e1; subst e2
      refine quiet _ rfl (fun _ => rfl) (fun hp => by simp [Pending, hq, Pc.ord] at hp) (fun _ => ?_)
      refine ⟨fun _ hdp => ?_, fun hp => by simp [Pending, Pc.next, Pc.ord] at hp,
        fun hx => by simp [Pc.next, Pc.ord] at hx⟩
      have hdp' : r.f.disablePresence = false := by simpa using hdp
      rw [stripped_of_not_dp hdp']
      exact h3.cont (Or.inl hq) hdp'
    | push =>
      simp only [hq, Pc.phase] at hph
      obtain ⟨doc0, p, hd0, hguard, e1, e2⟩ := pushPack_ok hph
      rw [hd] at hd0; injection hd0 with hd0; subst hd0
      subst e2
      have hc : s'.clients = σ.srv.clients := by rw [e1]; rfl
      have sp := assignSeqs_spec (r.f.info.genOf r.f.doc) doc.serverSeq (r.f.info.checkpoint r.f.doc) p
      simp only [] at sp
      obtain ⟨q1, q2, q3, q4, q5, q6⟩ := sp
      have hlog : storedLog s' r.f.doc = storedLog σ.srv r.f.doc ++
          (assignSeqs (r.f.info.genOf r.f.doc) doc.serverSeq (r.f.info.checkpoint r.f.doc) p).1 := by
        rw [e1, storedLog_setDoc, if_pos rfl, storedLog_findDoc hd]; rfl
      have hother : ∀ d', d' ≠ r.f.doc → storedLog s' d' = storedLog σ.srv d' := by
        intro d' hd'; rw [e1, storedLog_setDoc, if_neg (Ne.symm hd')]
      have hPa : ∀ row ∈ (assignSeqs (r.f.info.genOf r.f.doc) doc.serverSeq (r.f.info.checkpoint r.f.doc) p).1,
          row.actor = r.f.client ∧ row.gen = cdS.gen := by
        intro row hrow
        refine ⟨?_, by rw [q6 row hrow, hgenS]⟩
        have : row.actor ∈ ((assignSeqs (r.f.info.genOf r.f.doc) doc.serverSeq (r.f.info.checkpoint r.f.doc) p).1).map
            (·.actor) := List.mem_map_of_mem (f := (·.actor)) hrow
        rw [q5] at this
        obtain ⟨y, hy, hya⟩ := List.mem_map.mp this
        rw [← hya]; exact hFr.own hpc y ((pushGuard_sub hguard y hy).1)
      have hcs0 := hst2 (by simp [hq, Pc.ord])
      have hnp0 : NoPending σ.flights r.f.client r.f.doc := by
        intro x hx hpx hxt
        rcases msplit x hx with rfl | hm
        · simp [Pending, hq, Pc.ord] at hpx
        · exact nopOthers x hm hpx hxt
      have hnum : r.f.disablePresence = false →
          csOf (assignSeqs (r.f.info.genOf r.f.doc) doc.serverSeq (r.f.info.checkpoint r.f.doc) p).1 =
            List.range' (cdS.clientSeq + 1)
              (assignSeqs (r.f.info.genOf r.f.doc) doc.serverSeq (r.f.info.checkpoint r.f.doc) p).1.length ∧
          (assignSeqs (r.f.info.genOf r.f.doc) doc.serverSeq (r.f.info.checkpoint r.f.doc) p).2.2.clientSeq =
            cdS.clientSeq + (assignSeqs (r.f.info.genOf r.f.doc) doc.serverSeq (r.f.info.checkpoint r.f.doc) p).1.length := by
        intro hdp
        have hpc' := pushed_consecutive (h3.cont (Or.inr hq) hdp) hguard
        constructor
        · simp only [csOf]
          rw [q4, hpc', q3, hcs0]
        · rw [assignSeqs_cp_exact _ _ _ p hpc', q3, hcs0]
      have hold : r.f.disablePresence = false →
          csOf (ownRows σ.srv r.f.doc r.f.client cdS.gen) = List.range' 1 cdS.clientSeq :=
        fun hdp => hS.s.cur _ _ cdS (by rw [hdpr]; exact hdp) hcdS hopenS hnp0
      have hboth : r.f.disablePresence = false →
          csOf (ownRows σ.srv r.f.doc r.f.client cdS.gen ++
            (assignSeqs (r.f.info.genOf r.f.doc) doc.serverSeq (r.f.info.checkpoint r.f.doc) p).1) =
          List.range' 1 (cdS.clientSeq +
            (assignSeqs (r.f.info.genOf r.f.doc) doc.serverSeq (r.f.info.checkpoint r.f.doc) p).1.length) := by
        intro hdp
        have h1 := hold hdp
        have h2' := (hnum hdp).1
        simp only [csOf, List.map_append] at h1 h2' ⊢
        rw [h1, h2', range'_glue]
      refine ⟨?_, fl3of _ ?_ (fun _ => ?_)⟩
      · refine hS.s.trans r.f.client r.f.doc _ cdS hlog hother hdpx hPa
          (fun c' d' _ => entryOf_of_clients_eq hc c' d') (by rw [entryOf_of_clients_eq hc]; exact hcdS) ?_ ?_ ?_
        · intro x hx hpx hxt
          rcases msplit x hx with rfl | hm
          · exact absurd ⟨rfl, rfl⟩ hxt
          · exact keepO _ x hm hpx
        · intro hdp
          have hdpf : r.f.disablePresence = false := by rw [← hdpr]; exact hdpx _ hdp
          exact ⟨_, hboth hdpf⟩
        · intro _ _ hnp
          exfalso
          exact hnp _ (List.mem_append_right _ (List.mem_cons_self ..)) ⟨by simp [Pc.next, Pc.ord], by simp [Pc.next]⟩ ⟨rfl, rfl⟩
      · intro x hm ha
        refine (hS.fl3 x (memOld x hm) ha).frame ?_
        by_cases hdd : x.f.doc = r.f.doc
        · have hcne : x.f.client ≠ r.f.client := by
            rcases tne x hm ha with h | h
            · exact h
            · exact absurd hdd h
          rw [hdd, ownRows_append_same hlog, filter_byGen_none hPa (Or.inl hcne), List.append_nil]
        · simp only [ownRows, hother _ hdd]
      · refine ⟨fun hx => by simp [Pc.next] at hx, fun _ hdp => ?_, fun hx => by simp [Pc.next, Pc.ord] at hx⟩
        have hdp' : r.f.disablePresence = false := hdp
        show csOf (ownRows s' r.f.doc r.f.client (r.f.info.genOf r.f.doc)) =
          List.range' 1 (assignSeqs (r.f.info.genOf r.f.doc) doc.serverSeq (r.f.info.checkpoint r.f.doc) p).2.2.clientSeq
        have hPa' : ∀ row ∈ (assignSeqs (r.f.info.genOf r.f.doc) doc.serverSeq (r.f.info.checkpoint r.f.doc) p).1,
            row.actor = r.f.client ∧ row.gen = r.f.info.genOf r.f.doc := fun row hrow => ⟨(hPa row hrow).1, q6 row hrow⟩
        have hb := hboth hdp'
        rw [hgenS] at hb
        rw [ownRows_append_same hlog, filter_byGen_all hPa', hb, (hnum hdp').2]
    | pull =>
      simp only [hq, Pc.phase] at hph
      obtain ⟨e1, r0, hpull, e2⟩ := preparePack_ok hph
      subst e1; subst e2
      have hpr : Pending r := ⟨by simp [hq, Pc.ord], hpc⟩
      refine quiet _ rfl (fun _ => rfl) (fun _ => ⟨⟨by simp [Pc.next, Pc.ord], by simp [Pc.next]⟩, rfl, rfl⟩) (fun _ => ?_)
      exact ⟨fun hx => by simp [Pc.next] at hx, fun _ hdp => h3.cnt hpr hdp,
        fun hx => by simp [Pc.next, Pc.ord] at hx⟩
    | status =>
      simp only [hq, Pc.phase] at hph
      obtain ⟨e1, i, hi, e2⟩ := updateDocStatus_ok hph
      subst e1; subst e2
      have hpr : Pending r := ⟨by simp [hq, Pc.ord], hpc⟩
      refine quiet _ rfl (fun _ => rfl) (fun _ => ⟨⟨by simp [Pc.next, Pc.ord], by simp [Pc.next]⟩, rfl, rfl⟩) (fun _ => ?_)
      refine ⟨fun hx => by simp [Pc.next] at hx, fun _ hdp => ?_, fun _ _ cd hcd hat => ?_⟩
      · show csOf (ownRows σ.srv r.f.doc r.f.client (i.genOf r.f.doc)) = _
        rw [genOf_updateDocStatus hi]; exact h3.cnt hpr hdp
      · have hcd' : i.docs.get? r.f.doc = some cd := hcd
        show cd.clientSeq = r.f.resp.cp.clientSeq
        obtain ⟨cd0, hcd0, _, hpost⟩ := updateDocStatus_spec hi
        cases hst : r.f.status with
        | attached =>
          rw [hst] at hpost; simp only [StatusPost] at hpost
          rw [hpost, AL.get?_set_self] at hcd'; injection hcd' with hcd'; rw [← hcd']
        | detached =>
          rw [hst] at hpost; simp only [StatusPost] at hpost
          rw [hpost.2.2, AL.get?_set_self] at hcd'; injection hcd' with hcd'; rw [← hcd'] at hat; simp at hat
        | removed =>
          rw [hst] at hpost; simp only [StatusPost] at hpost
          rw [hpost.2.2, AL.get?_set_self] at hcd'; injection hcd' with hcd'; rw [← hcd'] at hat; simp at hat
    | vvWrite =>
      simp only [hq, Pc.phase] at hph
      have hc := phase_clients (pc := .vvWrite) hph (Or.inl (by simp))
      have hlogs := phase_storedLog (pc := .vvWrite) hph (by simp)
      obtain ⟨e2, _⟩ := vvWrite_ok hph
      subst e2
      have hpr : Pending r := ⟨by simp [hq, Pc.ord], hpc⟩
      refine quiet _ hc hlogs (fun _ => ⟨⟨by simp [Pc.next, Pc.ord], by simp [Pc.next]⟩, rfl, rfl⟩) (fun _ => ?_)
      exact ⟨fun hx => by simp [Pc.next] at hx, fun _ hdp => by simp only [ownRows, hlogs]; exact h3.cnt hpr hdp,
        fun _ _ => h3.exact (by simp [hq, Pc.ord]) hpc⟩
    | vvRead =>
      simp only [hq, Pc.phase] at hph
      obtain ⟨e1, k1, k2, k3, k4, k5, k6, k7, k8, k9⟩ := vvRead_ok hph
      obtain ⟨m1, m2, m3, m4⟩ := vvRead_ok2 hph
      subst e1
      have hpr : Pending r := ⟨by simp [hq, Pc.ord], hpc⟩
      refine quiet _ rfl (fun _ => rfl) (fun _ => ⟨⟨by simp [Pc.next, Pc.ord], by simp [Pc.next]⟩, k1, k2⟩) (fun _ => ?_)
      refine ⟨fun hx => by simp [Pc.next] at hx, fun _ hdp => ?_, fun _ _ => ?_⟩
      · simp only [k1, k2, k3, m1]; exact h3.cnt hpr (by simpa [k6] using hdp)
      · simp only [k2, k3, k7]; exact h3.exact (by simp [hq, Pc.ord]) hpc
    | persist =>
      simp only [hq, Pc.phase] at hph
      obtain ⟨e2, cd, loaded, hcd, hload, e1⟩ := persistClientInfo_ok hph
      subst e2
      have hpr : Pending r := ⟨by simp [hq, Pc.ord], hpc⟩
      obtain ⟨hle3, _⟩ := hst3 hpr
      obtain ⟨cd1, hcd1, hstat1, _⟩ := hFr.stat (by simp [hq, Pc.ord]) hpc
      rw [hcd] at hcd1; injection hcd1 with hcd1; subst hcd1
      have hrcs := h2.rcs (by simp [hq, Pc.ord]) hpc
      have hex := h3.exact (by simp [hq, Pc.ord]) hpc cd hcd
      have hlS : loaded.docs.get? r.f.doc = some cdS := by rw [← entryOf_findClient hload]; exact hcdS
      have hgcd : cd.gen = cdS.gen := by rw [hgenS]; simp [Client.genOf, hcd]
      have hent' : entryOf s' r.f.client r.f.doc = some (persistEntry cd loaded r.f.doc) := by
        rw [e1, entryOf_setClient]; simp [AL.get?_set_self]
      have hlogs : ∀ d, storedLog s' d = storedLog σ.srv d := fun d => by rw [e1]; rfl
      have hgen' : (persistEntry cd loaded r.f.doc).gen = cdS.gen := by
        unfold persistEntry; split <;> simp [mergeClientDoc, hgcd]
      refine ⟨?_, fl3of _ (othersSame hlogs) (fun _ => ?_)⟩
      · refine hS.s.trans r.f.client r.f.doc [] (persistEntry cd loaded r.f.doc) (by rw [hlogs]; simp)
          (fun d' _ => hlogs d') hdpx (by simp) hent hent' ?_ ?_ ?_
        · intro x hx hpx hxt
          rcases msplit x hx with rfl | hm
          · exact absurd ⟨rfl, rfl⟩ hxt
          · exact keepO _ x hm hpx
        · intro hdp; rw [List.append_nil]; exact hS.s.runs _ _ _ (hdpx _ hdp)
        · intro hdp ho _
          have hdpf : r.f.disablePresence = false := by rw [← hdpr]; exact hdpx _ hdp
          rw [List.append_nil, hgen', hgenS, h3.cnt hpr hdpf]
          congr 1
          unfold persistEntry at ho ⊢
          split
          · next hat =>
            have hat' : cd.status = .attached := by simpa using hat
            have := hex hat'
            simp only [mergeClientDoc, hlS, Option.getD_some]
            omega
          · next hat =>
            rw [if_neg hat] at ho
            rcases hstat1 with h1 | h1
            · exact absurd (by simp [h1]) hat
            · simp only [] at ho; rw [h1] at ho; simp at ho
      · exact ⟨fun hx => by simp [Pc.next] at hx, fun hx => by simp [Pending, Pc.next] at hx,
          fun _ hx => by simp [Pc.next] at hx⟩

end Yorkie.Conc
