/-
Lemmas for C14, part 8: undo and redo of array moves and of set-by-index never fail.
-/
import YorkieModel.Lemmas.UndoHist
namespace Yorkie.Undo
open Yorkie Yorkie.Crdt

/-! ### position lists -/

theorem mem_insertSkip (new n : PosNode) : ∀ l : List PosNode, n ∈ insertSkip new l ↔ n = new ∨ n ∈ l
  | [] => by simp [insertSkip]
  | a :: l => by
    unfold insertSkip
    split
    · simp only [List.mem_cons, mem_insertSkip new n l]
      constructor
      · rintro (h | h | h)
        · exact Or.inr (Or.inl h)
        · exact Or.inl h
        · exact Or.inr (Or.inr h)
      · rintro (h | h | h)
        · exact Or.inr (Or.inl h)
        · exact Or.inl h
        · exact Or.inr (Or.inr h)
    · simp

theorem mem_insertAfterWhere (s : PosNode → Bool) (new n : PosNode) :
    ∀ (l l' : List PosNode), insertAfterWhere s new l = some l' → (n ∈ l' ↔ n = new ∨ n ∈ l)
  | [], _, h => by simp [insertAfterWhere] at h
  | a :: l, l', h => by
    unfold insertAfterWhere at h
    split at h
    · cases h
      simp only [List.mem_cons, mem_insertSkip]
      constructor
      · rintro (h | h | h)
        · exact Or.inr (Or.inl h)
        · exact Or.inl h
        · exact Or.inr (Or.inr h)
      · rintro (h | h | h)
        · exact Or.inr (Or.inl h)
        · exact Or.inl h
        · exact Or.inr (Or.inr h)
    · cases hr : insertAfterWhere s new l with
      | none => simp [hr] at h
      | some l'' =>
        simp only [hr, Option.map_some, Option.some.injEq] at h
        subst h
        simp only [List.mem_cons, mem_insertAfterWhere s new n l l'' hr]
        constructor
        · rintro (h | h | h)
          · exact Or.inr (Or.inl h)
          · exact Or.inl h
          · exact Or.inr (Or.inr h)
        · rintro (h | h | h)
          · exact Or.inr (Or.inl h)
          · exact Or.inl h
          · exact Or.inr (Or.inr h)

theorem insertAfterWhere_isSome (s : PosNode → Bool) (new : PosNode) :
    ∀ (l : List PosNode), l.any s = true → ∃ l', insertAfterWhere s new l = some l'
  | [], h => by simp at h
  | a :: l, h => by
    unfold insertAfterWhere
    by_cases ha : s a = true
    · simp [ha]
    · have h : l.any s = true := by simpa [ha] using h
      obtain ⟨l', hl'⟩ := insertAfterWhere_isSome s new l h
      simp [ha, hl']

theorem hasPos_iff {l : List PosNode} {t : Ticket} : hasPos l t = true ↔ ∃ n ∈ l, n.pos = t := by
  simp [hasPos]

theorem holds_iff {l : List PosNode} {t : Ticket} : holds l t = true ↔ ∃ n ∈ l, n.elem = some t := by
  simp [holds]

theorem hasPos_vacate {l : List PosNode} {target t : Ticket} (h : hasPos l t = true) :
    hasPos (vacate target l) t = true := by
  rw [hasPos_iff] at h ⊢
  obtain ⟨n, hn, hp⟩ := h
  refine ⟨if n.elem = some target then { n with elem := none } else n, ?_, ?_⟩
  · simp only [vacate, List.mem_map]; exact ⟨n, hn, rfl⟩
  · split <;> exact hp

theorem prevLive_pos (d : Doc) : ∀ l : List PosNode, prevLive d l = headId ∨ ∃ n ∈ l, n.pos = prevLive d l
  | [] => Or.inl rfl
  | a :: l => by
    have ih := prevLive_pos d l
    have lift : prevLive d l = headId ∨ ∃ n ∈ a :: l, n.pos = prevLive d l := by
      rcases ih with h | ⟨n, hn, hp⟩
      · exact Or.inl h
      · exact Or.inr ⟨n, by simp [hn], hp⟩
    unfold prevLive
    split
    · exact lift
    · split
      · split
        · exact lift
        · exact Or.inr ⟨a, by simp, rfl⟩
      · exact lift

theorem prefixBefore_mem (target : Ticket) : ∀ (l acc pre : List PosNode),
    prefixBefore target acc l = some pre → ∀ n ∈ pre, n ∈ acc ∨ n ∈ l
  | [], _, _, h => by simp [prefixBefore] at h
  | a :: l, acc, pre, h => by
    unfold prefixBefore at h
    split at h
    · cases h; intro n hn; exact Or.inl hn
    · intro n hn
      rcases prefixBefore_mem target l (a :: acc) pre h n hn with h' | h'
      · simp only [List.mem_cons] at h'
        rcases h' with rfl | h'
        · exact Or.inr (by simp)
        · exact Or.inl h'
      · exact Or.inr (by simp [h'])

theorem prefixBefore_isSome (target : Ticket) : ∀ (l acc : List PosNode), holds l target = true →
    ∃ pre, prefixBefore target acc l = some pre
  | [], _, h => by simp [holds] at h
  | a :: l, acc, h => by
    unfold prefixBefore
    by_cases ha : a.elem = some target
    · simp [ha]
    · simp only [ha, if_false]
      apply prefixBefore_isSome target l
      simp only [holds, List.any_cons, Bool.or_eq_true, decide_eq_true_eq, ha, false_or] at h
      exact h

/-- `FindPrevCreatedAt` succeeds on a held element and returns the head or a position of the list -/
theorem findPrev_ok {d : Doc} {nodes : List PosNode} {target : Ticket} (h : holds nodes target = true) :
    ∃ prev, findPrev d nodes target = some prev ∧ (prev = headId ∨ hasPos nodes prev = true) := by
  obtain ⟨pre, hpre⟩ := prefixBefore_isSome target nodes [] h
  refine ⟨prevLive d pre, by simp [findPrev, hpre], ?_⟩
  rcases prevLive_pos d pre with h' | ⟨n, hn, hp⟩
  · exact Or.inl h'
  · right
    rw [hasPos_iff]
    rcases prefixBefore_mem target nodes [] pre hpre n hn with h'' | h''
    · simp at h''
    · exact ⟨n, h'', hp⟩


theorem insertPosAfter_ok {prev : Ticket} {new : PosNode} {l : List PosNode}
    (h : prev = headId ∨ hasPos l prev = true) :
    ∃ l', insertPosAfter prev new l = some l' ∧ ∀ n, n ∈ l' ↔ n = new ∨ n ∈ l := by
  unfold insertPosAfter
  by_cases hp : prev = headId
  · simp only [hp, if_true]
    exact ⟨_, rfl, fun n => mem_insertSkip new n l⟩
  · simp only [hp, if_false]
    rcases h with h | h
    · exact absurd h hp
    · obtain ⟨l', hl'⟩ := insertAfterWhere_isSome (fun n => n.pos = prev) new l h
      exact ⟨l', hl', fun n => mem_insertAfterWhere _ new n l l' hl'⟩

theorem arrMove_ok {prev target ts : Ticket} {nodes : List PosNode} {moved : Ticket → Option Ticket}
    (hp : prev = headId ∨ hasPos nodes prev = true) (hh : holds nodes target = true) :
    ∃ a', arrMove prev target ts ⟨nodes, moved⟩ = some a' ∧ holds a'.nodes target = true ∧
      ∀ t, hasPos nodes t = true → hasPos a'.nodes t = true := by
  unfold arrMove
  have h1 : (prev = headId || hasPos nodes prev) = true := by
    rcases hp with h | h <;> simp [h]
  simp only [h1, hh, Bool.not_true, Bool.false_eq_true, if_false]
  split
  · split
    · exact ⟨_, rfl, hh, fun _ h => h⟩
    · obtain ⟨l', hl', hm⟩ := insertPosAfter_ok (new := ⟨ts, none⟩) hp
      refine ⟨_, by rw [hl']; rfl, ?_, ?_⟩
      · rw [holds_iff] at hh ⊢
        obtain ⟨n, hn, he⟩ := hh
        exact ⟨n, (hm n).2 (Or.inr hn), he⟩
      · intro t ht
        rw [hasPos_iff] at ht ⊢
        obtain ⟨n, hn, he⟩ := ht
        exact ⟨n, (hm n).2 (Or.inr hn), he⟩
  · have hp' : prev = headId ∨ hasPos (vacate target nodes) prev = true := by
      rcases hp with h | h
      · exact Or.inl h
      · exact Or.inr (hasPos_vacate h)
    obtain ⟨l', hl', hm⟩ := insertPosAfter_ok (new := ⟨ts, some target⟩) hp'
    refine ⟨_, by rw [hl']; rfl, ?_, ?_⟩
    · rw [holds_iff]
      exact ⟨⟨ts, some target⟩, (hm _).2 (Or.inl rfl), rfl⟩
    · intro t ht
      have := hasPos_vacate (target := target) ht
      rw [hasPos_iff] at this ⊢
      obtain ⟨n, hn, he⟩ := this
      exact ⟨n, (hm n).2 (Or.inr hn), he⟩

/-- a `Move` whose array, element and anchor exist -/
def MoveOk (d : Doc) (p prev target : Ticket) : Prop :=
  ∃ pe nodes moved, d p = some pe ∧ pe.body = .arr nodes moved ∧ isChildOf d target p = true ∧
    holds nodes target = true ∧ (prev = headId ∨ hasPos nodes prev = true)

theorem move_exec {d : Doc} {tw : Ticket → Bool} {src : Source} {p prev target ts : Ticket}
    (hsrc : src.needsReverse = true) (ok : MoveOk d p prev target) :
    ∃ d' prev', uexecute d tw src (.move p prev target ts) = .ok (d', some (.move p prev' target ts)) ∧
      MoveOk d' p prev' target := by
  obtain ⟨pe, nodes, moved, hd, hb, hc, hh, hp⟩ := ok
  obtain ⟨prev', hf, hp'⟩ := findPrev_ok (d := d) hh
  obtain ⟨a', ha, hh', hpos⟩ := arrMove_ok (ts := ts) (moved := moved) hp hh
  refine ⟨d.set p { pe with body := .arr a'.nodes a'.moved }, prev', ?_, ?_⟩
  · simp only [uexecute, hsrc, if_true, hd, hb, reverseMove, hf, applyMove, hc, Bool.not_true,
      Bool.false_eq_true, if_false, ha]
    rfl
  · refine ⟨{ pe with body := .arr a'.nodes a'.moved }, a'.nodes, a'.moved, by simp [set_apply], rfl, ?_, hh', ?_⟩
    · unfold isChildOf at hc ⊢
      rw [set_apply]
      by_cases ht : target = p
      · subst ht; simp only [if_true]; simpa [hd] using hc
      · simpa [ht] using hc
    · rcases hp' with h | h
      · exact Or.inl h
      · exact Or.inr (hpos _ h)

/-- a successful forward `Move` has an array, a held child element and an existing anchor -/
theorem moveOk_of_exec {d d' : Doc} {tw : Ticket → Bool} {src : Source} {p prev target ts : Ticket} {r : Option UOp}
    (h : uexecute d tw src (.move p prev target ts) = .ok (d', r)) : MoveOk d p prev target := by
  have hm := uexecute_move_agrees d tw src p prev target ts
  rw [h] at hm
  unfold applyMove at hm
  cases hd : d p with
  | none => simp [hd, liftE, Except.map] at hm
  | some pe =>
    cases hb : pe.body <;> simp only [hd, hb, liftE, Except.map] at hm <;> try cases hm
    rename_i nodes moved
    by_cases hc : isChildOf d target p = true
    · simp only [hc, Bool.not_true, Bool.false_eq_true, if_false] at hm
      cases ha : arrMove prev target ts ⟨nodes, moved⟩ with
      | none => simp [ha] at hm
      | some a' =>
        unfold arrMove at ha
        by_cases h1 : (prev = headId || hasPos nodes prev) = true
        · by_cases h2 : holds nodes target = true
          · refine ⟨pe, nodes, moved, hd, hb, hc, h2, ?_⟩
            simpa using h1
          · simp [h1, h2] at ha
        · simp [h1] at ha
    · simp [hc] at hm


/-! ### totality of undo / redo for `Move` -/

def Outcome.isFailed : Outcome → Bool
  | .failed _ => true
  | _ => false

theorem undoRedo_one_undo {h : Hist} {r q : UOp} {rest : List (List UOp)} {d' : Doc} (hu : h.undo = [r] :: rest)
    (hp : r.plain = true) (he : uexecute h.doc noTw .undoRedo (r.withTs h.next) = .ok (d', some q)) :
    undoRedo h true = ({ h with undo := rest, redo := push h.redo [q], doc := d', lamport := h.lamport + 1 },
      .change [r.withTs h.next]) := by
  unfold Hist.next at he ⊢
  simp only [undoRedo_eq, hu, if_true, List.isEmpty_cons, Bool.false_eq_true, if_false,
    reticket_one _ hp, runOps_cons, runOps_nil, he, List.nil_append,
    Option.toList_some, List.reverse_cons, List.reverse_nil]

theorem undoRedo_one_redo {h : Hist} {r q : UOp} {rest : List (List UOp)} {d' : Doc} (hu : h.redo = [r] :: rest)
    (hp : r.plain = true) (he : uexecute h.doc noTw .undoRedo (r.withTs h.next) = .ok (d', some q)) :
    undoRedo h false = ({ h with redo := rest, undo := push h.undo [q], doc := d', lamport := h.lamport + 1 },
      .change [r.withTs h.next]) := by
  unfold Hist.next at he ⊢
  simp only [undoRedo_eq, hu, Bool.false_eq_true, if_false, List.isEmpty_cons,
    reticket_one _ hp, runOps_cons, runOps_nil, he, List.nil_append,
    Option.toList_some, List.reverse_cons, List.reverse_nil]

theorem move_undo_step {h1 : Hist} {p prev1 target ts0 : Ticket} {rest : List (List UOp)}
    (hu : h1.undo = [.move p prev1 target ts0] :: rest) (ok : MoveOk h1.doc p prev1 target) :
    ∃ h2 prev2 ts ops, undoRedo h1 true = (h2, .change ops) ∧
      h2.redo = [.move p prev2 target ts] :: pushTail h1.redo ∧ MoveOk h2.doc p prev2 target := by
  obtain ⟨d2, prev2, he2, ok2⟩ := move_exec (tw := noTw) (src := .undoRedo) (ts := h1.next) rfl ok
  exact ⟨_, prev2, h1.next, _, undoRedo_one_undo (r := .move p prev1 target ts0) hu (by rfl) he2,
    push_eq _ _, ok2⟩

theorem move_redo_step {h1 : Hist} {p prev1 target ts0 : Ticket} {rest : List (List UOp)}
    (hu : h1.redo = [.move p prev1 target ts0] :: rest) (ok : MoveOk h1.doc p prev1 target) :
    ∃ h2 ops, undoRedo h1 false = (h2, .change ops) := by
  obtain ⟨d2, prev2, he2, ok2⟩ := move_exec (tw := noTw) (src := .undoRedo) (ts := h1.next) rfl ok
  exact ⟨_, _, undoRedo_one_redo (r := .move p prev1 target ts0) hu (by rfl) he2⟩

/-- undo and the following redo of an array move never fail -/
theorem move_total {h : Hist} {p prev target : Ticket} (ok : MoveOk h.doc p prev target) :
    (undoRedo (doChange h [.move p prev target h.next]) true).2.isFailed = false ∧
    (undoRedo (undo (doChange h [.move p prev target h.next])) false).2.isFailed = false := by
  obtain ⟨d1, prev1, he1, ok1⟩ := move_exec (tw := noTw) (src := .loc) (ts := h.next) rfl ok
  rw [doChange_one (by rfl) he1]
  obtain ⟨h2, prev2, ts2, ops, hU, hr2, ok2⟩ := move_undo_step (p := p) (prev1 := prev1) (target := target)
    (h1 := { h with doc := d1, undo := push h.undo [UOp.move p prev1 target h.next], redo := [], lamport := h.lamport + 1 })
    (push_eq _ _) ok1
  refine ⟨by rw [hU]; rfl, ?_⟩
  have hun : undo _ = h2 := congrArg Prod.fst hU
  rw [hun]
  obtain ⟨h3, ops3, hR⟩ := move_redo_step hr2 ok2
  rw [hR]; rfl

/-! ### totality of undo / redo for `ArraySet` -/

theorem markRemoved_some {d : Doc} {t ts q : Ticket} {e : Elem} (h : d q = some e) :
    ∃ e', markRemoved d t ts q = some e' ∧ e'.body = e.body ∧ e'.parent = e.parent := by
  unfold markRemoved
  cases hd : d t with
  | none => exact ⟨e, h, rfl, rfl⟩
  | some te =>
    simp only []
    split
    · rw [set_apply]
      by_cases hq : q = t
      · subst hq; rw [hd] at h; injection h with h; subst h
        exact ⟨{ te with removed := true }, by simp, rfl, rfl⟩
      · exact ⟨e, by simp [hq, h], rfl, rfl⟩
    · exact ⟨e, h, rfl, rfl⟩

/-- a set-by-index whose array and element exist -/
def ASOk (d : Doc) (p target : Ticket) : Prop :=
  ∃ pe nodes moved, d p = some pe ∧ pe.body = .arr nodes moved ∧ isChildOf d target p = true ∧
    holds nodes target = true

theorem insertAfterNodes_ok {target : Ticket} {new : PosNode} {nodes : List PosNode}
    (hh : holds nodes target = true) :
    ∃ l', insertAfterNodes target new nodes = some l' ∧ new ∈ l' := by
  unfold insertAfterNodes
  split
  · rename_i h
    obtain ⟨l', hl'⟩ := insertAfterWhere_isSome (fun n => n.pos = target) new nodes h
    exact ⟨l', hl', (mem_insertAfterWhere _ new new nodes l' hl').2 (Or.inl rfl)⟩
  · obtain ⟨l', hl'⟩ := insertAfterWhere_isSome (fun n => n.elem = some target) new nodes hh
    exact ⟨l', hl', (mem_insertAfterWhere _ new new nodes l' hl').2 (Or.inl rfl)⟩

theorem instantiate_id (d : Doc) (p : Ticket) (v : UVal) (r : Bool) :
    ∃ b, instantiate d p v r v.id = some ⟨some p, r, b⟩ := by
  unfold instantiate
  exact ⟨(copyBody (lookupSub v.sub) copyFuel v.id v.body).1, by simp [set_apply]⟩

theorem aset_exec {d : Doc} {tw : Ticket → Bool} {src : Source} {p target ts : Ticket} {v : UVal}
    (hsrc : src.needsReverse = true) (hid : v.id = ts) (hne : ts ≠ p) (ok : ASOk d p target) :
    ∃ d' cv, uexecute d tw src (.arraySet p target v ts) = .ok (d', some (.arraySet p ts cv ts)) ∧
      ASOk d' p ts := by
  obtain ⟨pe, nodes, moved, hd, hb, hc, hh⟩ := ok
  obtain ⟨l', hl', hmem⟩ := insertAfterNodes_ok (new := ⟨ts, some ts⟩) hh
  have hset : arrSet target ts ⟨nodes, moved⟩ = some ⟨l', moved⟩ := by
    simp [arrSet, hh, hl']
  have htar : ∃ te, d target = some te := by
    unfold isChildOf at hc
    cases hdt : d target with
    | none => simp [hdt] at hc
    | some te => exact ⟨te, rfl⟩
  obtain ⟨te, hte⟩ := htar
  have hcap : ∃ cv, capture d target = some cv := by simp [capture, hte]
  obtain ⟨cv, hcv⟩ := hcap
  have hrev : reverseArraySet d p target v ts = some (.arraySet p ts cv ts) := by
    simp [reverseArraySet, hd, hb, arrGetByID, hh, hcv, hid]
  refine ⟨markRemoved ((instantiate d p v v.removed).set p { pe with body := .arr l' moved }) target ts, cv, ?_, ?_⟩
  · simp only [uexecute, hid, ne_eq, not_true_eq_false, if_false, applyArraySetU, hd, hb, hc, Bool.not_true,
      Bool.false_eq_true, hset, hsrc, gate, if_true, hrev]
    rfl
  · obtain ⟨b, hinst⟩ := instantiate_id d p v v.removed
    rw [hid] at hinst
    have hX1 : ((instantiate d p v v.removed).set p { pe with body := .arr l' moved }) p =
        some { pe with body := .arr l' moved } := by simp [set_apply]
    have hX2 : ((instantiate d p v v.removed).set p { pe with body := .arr l' moved }) ts =
        some ⟨some p, v.removed, b⟩ := by simp [set_apply, hne, hinst]
    obtain ⟨e1, he1, hb1, _⟩ := markRemoved_some (t := target) (ts := ts) hX1
    obtain ⟨e2, he2, _, hp2⟩ := markRemoved_some (t := target) (ts := ts) hX2
    refine ⟨e1, l', moved, he1, hb1, ?_, ?_⟩
    · simp [isChildOf, he2, hp2]
    · rw [holds_iff]; exact ⟨_, hmem, rfl⟩


theorem next_ne {h : Hist} {p : Ticket} (hp : p.lamport ≤ h.lamport) : h.next ≠ p := by
  intro hx; rw [← hx] at hp; simp only [Hist.next] at hp; omega

theorem aset_do {h : Hist} {p target : Ticket} {v : UVal} (hid : v.id = h.next) (hp : p.lamport ≤ h.lamport)
    (ok : ASOk h.doc p target) :
    ∃ cv rest, (doChange h [.arraySet p target v h.next]).undo = [.arraySet p h.next cv h.next] :: rest ∧
      (doChange h [.arraySet p target v h.next]).redo = [] ∧
      (doChange h [.arraySet p target v h.next]).lamport = h.lamport + 1 ∧
      ASOk (doChange h [.arraySet p target v h.next]).doc p h.next := by
  obtain ⟨d1, cv, he, ok1⟩ := aset_exec (tw := noTw) (src := .loc) rfl hid (next_ne hp) ok
  refine ⟨cv, pushTail (reconcileStack target v.id h.undo), ?_, ?_, ?_, ?_⟩ <;>
  simp only [doChange_eq, List.isEmpty_cons, Bool.false_eq_true, if_false, runOps_cons, runOps_nil, he,
    List.nil_append, Option.toList_some, List.reverse_cons, List.reverse_nil, push_eq]
  · rfl
  · exact ok1

theorem aset_undo_step {h1 : Hist} {p target ts0 : Ticket} {cv : UVal} {rest : List (List UOp)}
    (hu : h1.undo = [.arraySet p target cv ts0] :: rest) (hp : p.lamport ≤ h1.lamport)
    (ok : ASOk h1.doc p target) :
    (undoRedo h1 true).2.isFailed = false ∧
    ∃ cv2 rest2, (undo h1).redo = [.arraySet p h1.next cv2 h1.next] :: rest2 ∧
      (undo h1).lamport = h1.lamport + 1 ∧ ASOk (undo h1).doc p h1.next := by
  obtain ⟨d2, cv2, he, ok2⟩ := aset_exec (tw := noTw) (src := .undoRedo) (v := cv.reid h1.next) rfl rfl
    (next_ne hp) ok
  have he' : uexecute h1.doc noTw .undoRedo
      (.arraySet p target (cv.reid ⟨h1.lamport + 1, 1, h1.actor⟩) ⟨h1.lamport + 1, 1, h1.actor⟩) =
      .ok (d2, some (.arraySet p ⟨h1.lamport + 1, 1, h1.actor⟩ cv2 ⟨h1.lamport + 1, 1, h1.actor⟩)) := he
  refine ⟨?_, cv2, pushTail (reconcileStack cv.id h1.next (reconcileStack target h1.next h1.redo)), ?_, ?_, ?_⟩
  · simp only [undoRedo_eq, hu, if_true, List.isEmpty_cons, Bool.false_eq_true, if_false, reticket_single,
      Hist.reconcile_eq, runOps_cons, runOps_nil, he', List.nil_append, Option.toList_some, List.reverse_cons,
      List.reverse_nil]
    rfl
  · simp only [undo, undoRedo_eq, hu, if_true, List.isEmpty_cons, Bool.false_eq_true, if_false, reticket_single,
      Hist.reconcile_eq, runOps_cons, runOps_nil, he', List.nil_append, Option.toList_some, List.reverse_cons,
      List.reverse_nil, push_eq]
    rfl
  · simp only [undo, undoRedo_eq, hu, if_true, List.isEmpty_cons, Bool.false_eq_true, if_false, reticket_single,
      Hist.reconcile_eq, runOps_cons, runOps_nil, he', List.nil_append, Option.toList_some, List.reverse_cons,
      List.reverse_nil]
  · simp only [undo, undoRedo_eq, hu, if_true, List.isEmpty_cons, Bool.false_eq_true, if_false, reticket_single,
      Hist.reconcile_eq, runOps_cons, runOps_nil, he', List.nil_append, Option.toList_some, List.reverse_cons,
      List.reverse_nil]
    exact ok2

theorem aset_redo_step {h1 : Hist} {p target ts0 : Ticket} {cv : UVal} {rest : List (List UOp)}
    (hu : h1.redo = [.arraySet p target cv ts0] :: rest) (hp : p.lamport ≤ h1.lamport)
    (ok : ASOk h1.doc p target) :
    (undoRedo h1 false).2.isFailed = false := by
  obtain ⟨d2, cv2, he, ok2⟩ := aset_exec (tw := noTw) (src := .undoRedo) (v := cv.reid h1.next) rfl rfl
    (next_ne hp) ok
  have he' : uexecute h1.doc noTw .undoRedo
      (.arraySet p target (cv.reid ⟨h1.lamport + 1, 1, h1.actor⟩) ⟨h1.lamport + 1, 1, h1.actor⟩) =
      .ok (d2, some (.arraySet p ⟨h1.lamport + 1, 1, h1.actor⟩ cv2 ⟨h1.lamport + 1, 1, h1.actor⟩)) := he
  simp only [undoRedo_eq, hu, Bool.false_eq_true, if_false, List.isEmpty_cons, reticket_single,
    Hist.reconcile_eq, runOps_cons, runOps_nil, he', List.nil_append, Option.toList_some, List.reverse_cons,
    List.reverse_nil]
  rfl

/-- undo and the following redo of a set-by-index never fail -/
theorem aset_total {h : Hist} {p target : Ticket} {v : UVal} (hid : v.id = h.next) (hp : p.lamport ≤ h.lamport)
    (ok : ASOk h.doc p target) :
    (undoRedo (doChange h [.arraySet p target v h.next]) true).2.isFailed = false ∧
    (undoRedo (undo (doChange h [.arraySet p target v h.next])) false).2.isFailed = false := by
  obtain ⟨cv, rest, hu, _, hl, ok1⟩ := aset_do hid hp ok
  obtain ⟨hf, cv2, rest2, hr2, hl2, ok2⟩ := aset_undo_step hu (by rw [hl]; omega) ok1
  exact ⟨hf, aset_redo_step hr2 (by rw [hl2, hl]; omega) ok2⟩


/-- a successful forward set-by-index has an array holding the child element -/
theorem asOk_of_exec {d d' : Doc} {tw : Ticket → Bool} {src : Source} {p target ts : Ticket} {v : UVal}
    {r : Option UOp} (h : uexecute d tw src (.arraySet p target v ts) = .ok (d', r)) :
    ASOk d p target ∧ v.id = ts := by
  simp only [uexecute] at h
  by_cases hid : v.id = ts
  · refine ⟨?_, hid⟩
    simp only [hid, ne_eq, not_true_eq_false, if_false] at h
    unfold applyArraySetU at h
    cases hd : d p with
    | none => simp [hd, liftE, Except.map] at h
    | some pe =>
      cases hb : pe.body <;> simp only [hd, hb, liftE, Except.map] at h <;> try cases h
      rename_i nodes moved
      by_cases hc : isChildOf d target p = true
      · simp only [hc, Bool.not_true, Bool.false_eq_true, if_false] at h
        by_cases hh : holds nodes target = true
        · exact ⟨pe, nodes, moved, hd, hb, hc, hh⟩
        · simp [arrSet, hh] at h
      · simp [hc] at h
  · simp [hid] at h

end Yorkie.Undo
