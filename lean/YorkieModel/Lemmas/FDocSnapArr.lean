/- Snapshot round trip, array part: under the per-node sanity conditions `arrOk` (and, before repair (a), the
   exclusion of the `Add`-anchor defect) `fromJSONArray ∘ toRGANodes` / `Array.DeepCopy` rebuild the same list. -/
import YorkieModel.Lemmas.FDocView
namespace Yorkie.FDoc
open Yorkie
open Yorkie.Crdt (rootId headId)

/-! ### ticket order -/

def gt3 (l1 : Int) (a1 d1 : Nat) (l2 : Int) (a2 d2 : Nat) : Prop :=
  l1 > l2 ∨ (l1 = l2 ∧ (a1 > a2 ∨ (a1 = a2 ∧ d1 > d2)))

theorem gt3_asymm {l1 a1 d1 l2 a2 d2} (h : gt3 l1 a1 d1 l2 a2 d2) : ¬ gt3 l2 a2 d2 l1 a1 d1 := by
  unfold gt3 at *; omega
theorem gt3_trans {l1 a1 d1 l2 a2 d2 l3 a3 d3} (h : gt3 l1 a1 d1 l2 a2 d2) (h' : gt3 l2 a2 d2 l3 a3 d3) :
    gt3 l1 a1 d1 l3 a3 d3 := by
  unfold gt3 at *; omega

theorem cmp_gt_iff (a b : Ticket) : a.cmp b = .gt ↔ gt3 a.lamport a.actor a.delim b.lamport b.actor b.delim := by
  obtain ⟨l1, d1, a1⟩ := a
  obtain ⟨l2, d2, a2⟩ := b
  show Ticket.cmp ⟨l1, d1, a1⟩ ⟨l2, d2, a2⟩ = .gt ↔ gt3 l1 (a1 : Nat) d1 l2 (a2 : Nat) d2
  revert a1 a2
  intro (a1 : Nat) (a2 : Nat)
  unfold Ticket.cmp gt3
  dsimp only
  by_cases h1 : l1 > l2
  · rw [if_pos h1]; exact ⟨fun _ => Or.inl h1, fun _ => rfl⟩
  · rw [if_neg h1]
    by_cases h2 : l1 < l2
    · rw [if_pos h2]
      exact ⟨fun h => (by cases h), fun h => (by omega)⟩
    · rw [if_neg h2]
      by_cases h3 : a1 > a2
      · rw [if_pos h3]; exact ⟨fun _ => (by omega), fun _ => rfl⟩
      · rw [if_neg h3]
        by_cases h4 : a1 < a2
        · rw [if_pos h4]; exact ⟨fun h => (by cases h), fun h => (by omega)⟩
        · rw [if_neg h4]
          by_cases h5 : d1 > d2
          · rw [if_pos h5]; exact ⟨fun _ => (by omega), fun _ => rfl⟩
          · rw [if_neg h5]
            refine ⟨fun h => ?_, fun h => by omega⟩
            split at h <;> cases h

theorem after_iff (a b : Ticket) : a.after b = true ↔ gt3 a.lamport a.actor a.delim b.lamport b.actor b.delim := by
  unfold Ticket.after
  rw [← cmp_gt_iff]
  cases a.cmp b <;> simp

theorem after_asymm {a b : Ticket} (h : a.after b = true) : b.after a = false := by
  cases hb : b.after a with
  | false => rfl
  | true => exact absurd ((after_iff b a).mp hb) (gt3_asymm ((after_iff a b).mp h))

theorem after_trans {a b c : Ticket} (h1 : a.after b = true) (h2 : b.after c = true) : a.after c = true :=
  (after_iff a c).mpr (gt3_trans ((after_iff a b).mp h1) ((after_iff b c).mp h2))

theorem after_irrefl (a : Ticket) : a.after a = false := by
  cases h : a.after a with
  | false => rfl
  | true => exact absurd h (by rw [after_asymm h]; simp)

/-! ### array sanity -/

/-- conditions on one node relative to the nodes in front of it.  The first two lines and the first two
    conjuncts of each case are sanity conditions every list built by the operations satisfies (position
    identities unique and different from the dummy head; dead slots carry `removedAt`, occupied slots do not;
    an unmoved element sits in the slot it was inserted with).  The last conjunct of the `some` case is the
    EXCLUSION of the `Add`-anchor defect, needed only before repair (a): no earlier slot carries the element's
    identity as position identity (the element's dead original slot), no earlier slot holds it. -/
def NodeOk (onPos : Bool) (moved : List (Ticket × Ticket)) (pre : List PosNode) (n : PosNode) : Prop :=
  n.pos ≠ headId ∧ hasPos pre n.pos = false ∧
  match n.elem with
  | none => n.removedAt ≠ none
  | some e => n.removedAt = none ∧ (alGet moved e = none → n.pos = e) ∧
      (onPos = false → e ≠ headId ∧ (n.pos = e ∨ hasPos pre e = false) ∧ holds pre e = false)

instance (onPos : Bool) (moved : List (Ticket × Ticket)) (pre : List PosNode) (n : PosNode) :
    Decidable (NodeOk onPos moved pre n) := by
  unfold NodeOk
  cases n.elem <;> infer_instance

def arrOk (onPos : Bool) (moved : List (Ticket × Ticket)) : List PosNode → List PosNode → Prop
  | _, [] => True
  | pre, n :: rest => NodeOk onPos moved pre n ∧ arrOk onPos moved (pre ++ [n]) rest

instance arrOkDec (onPos : Bool) (moved : List (Ticket × Ticket)) : ∀ (pre rest : List PosNode),
    Decidable (arrOk onPos moved pre rest)
  | _, [] => isTrue trivial
  | pre, n :: rest =>
    have := arrOkDec onPos moved (pre ++ [n]) rest
    by unfold arrOk; infer_instance

/-- what the rebuild needs to know about the list built so far: its last node was appended under `NodeOk` -/
def LastOk (onPos : Bool) (acc : List PosNode) : Prop :=
  acc = [] ∨ ∃ init l, acc = init ++ [l] ∧ l.pos ≠ headId ∧ hasPos init l.pos = false ∧
    (onPos = false → ∀ x, l.elem = some x → x ≠ headId ∧ (l.pos = x ∨ hasPos init x = false) ∧ holds init x = false)

theorem insertAfterWhere_last (mv : List (Ticket × Ticket)) (ex : Ticket) (start : PosNode → Bool) (new l : PosNode) :
    ∀ (init : List PosNode), (∀ m ∈ init, start m = false) → start l = true →
      insertAfterWhere mv ex start new (init ++ [l]) = some (init ++ [l] ++ [new]) := by
  intro init
  induction init with
  | nil => intro _ hl; simp [insertAfterWhere, hl, insertSkip]
  | cons a r ih =>
    intro h hl
    have ha : start a = false := h a (List.mem_cons_self ..)
    have := ih (fun m hm => h m (List.mem_cons_of_mem _ hm)) hl
    simp only [List.cons_append, insertAfterWhere, ha, Bool.false_eq_true, if_false]
    rw [this]
    rfl

theorem hasPos_append (l : List PosNode) (n : PosNode) (t : Ticket) :
    hasPos (l ++ [n]) t = (hasPos l t || decide (n.pos = t)) := by
  simp [hasPos, List.any_append]

theorem hasPos_false {l : List PosNode} {t : Ticket} (h : hasPos l t = false) : ∀ m ∈ l, decide (m.pos = t) = false := by
  intro m hm
  unfold hasPos at h
  simp only [List.any_eq_false, decide_eq_true_eq] at h
  simpa using h m hm

theorem holds_false {l : List PosNode} {t : Ticket} (h : holds l t = false) : ∀ m ∈ l, decide (m.elem = some t) = false := by
  intro m hm
  unfold holds at h
  simp only [List.any_eq_false, decide_eq_true_eq] at h
  simpa using h m hm

/-- `RGATreeList.Add` on a list whose last node was appended under `NodeOk` appends at the end -/
theorem add_appends {onPos : Bool} (mv : List (Ticket × Ticket)) (e : Ticket) (new : PosNode) {acc : List PosNode}
    (h : LastOk onPos acc) : insertAfter mv (lastAnchorP onPos acc) e new acc = some (acc ++ [new]) := by
  rcases h with h | ⟨init, l, hacc, hl1, hl2, hl3⟩
  · subst h
    simp [lastAnchorP, insertAfter, insertSkip]
  · subst hacc
    have hlast : (init ++ [l]).getLast? = some l := by simp
    -- anchoring on the last node's position identity
    have byPos : insertAfter mv l.pos e new (init ++ [l]) = some (init ++ [l] ++ [new]) := by
      unfold insertAfter
      simp only [hl1, if_false]
      have : hasPos (init ++ [l]) l.pos = true := by rw [hasPos_append]; simp
      simp only [this, if_true]
      exact insertAfterWhere_last mv e _ new l init (hasPos_false hl2) (by simp)
    cases onPos with
    | true => simp only [lastAnchorP, hlast, if_true]; exact byPos
    | false =>
      simp only [lastAnchorP, hlast, Bool.false_eq_true, if_false]
      unfold nodeCreatedAt
      cases he : l.elem with
      | none => simp only; exact byPos
      | some x =>
        simp only
        obtain ⟨hx1, hx2, hx3⟩ := hl3 rfl x he
        rcases hx2 with hx2 | hx2
        · rw [← hx2]; exact byPos
        · by_cases hpx : l.pos = x
          · rw [← hpx]; exact byPos
          · unfold insertAfter
            simp only [hx1, if_false]
            have : hasPos (init ++ [l]) x = false := by rw [hasPos_append, hx2]; simp [hpx]
            simp only [this, Bool.false_eq_true, if_false]
            exact insertAfterWhere_last mv e _ new l init (holds_false hx3) (by simp [he])

theorem lastOk_append {onPos : Bool} {mv : List (Ticket × Ticket)} {acc : List PosNode} {n : PosNode}
    (h : NodeOk onPos mv acc n) : LastOk onPos (acc ++ [n]) := by
  refine Or.inr ⟨acc, n, rfl, h.1, h.2.1, ?_⟩
  intro hf x hx
  have h3 := h.2.2
  rw [hx] at h3
  exact h3.2.2 hf

/-- the rebuild loop reproduces the node list -/
theorem rebuild_fold {onPos : Bool} (mv : List (Ticket × Ticket)) : ∀ (rest acc : List PosNode) (m0 : List (Ticket × Ticket)),
    LastOk onPos acc → arrOk onPos mv acc rest →
      (rest.foldl (rebuildStepP onPos mv) (acc, m0)).1 = acc ++ rest := by
  intro rest
  induction rest with
  | nil => intro acc m0 _ _; simp
  | cons n rest ih =>
    intro acc m0 hl hok
    obtain ⟨hn, hrest⟩ := hok
    have hl' := lastOk_append hn
    simp only [List.foldl_cons]
    have hstep : ∃ m1, rebuildStepP onPos mv (acc, m0) n = (acc ++ [n], m1) := by
      unfold rebuildStepP
      have h3 := hn.2.2
      cases he : n.elem with
      | none =>
        rw [he] at h3
        simp only
        cases hra : n.removedAt with
        | none => exact absurd hra h3
        | some ra =>
          refine ⟨m0, ?_⟩
          simp only
          congr 2
          cases n
          simp_all
      | some e =>
        rw [he] at h3
        simp only
        obtain ⟨h31, h32, _⟩ := h3
        cases hm : alGet mv e with
        | some m =>
          refine ⟨alSet m0 e m, ?_⟩
          simp only
          congr 2
          cases n
          simp_all
        | none =>
          have hpe := h32 hm
          have hnew : (⟨e, some e, none⟩ : PosNode) = n := by cases n; simp_all
          simp only
          rw [add_appends m0 e ⟨e, some e, none⟩ hl]
          exact ⟨m0, by simp only [hnew]⟩
    obtain ⟨m1, hm1⟩ := hstep
    rw [hm1, ih (acc ++ [n]) m1 hl' hrest]
    simp

theorem rebuildArr_nodes {onPos : Bool} {nodes : List PosNode} {mv : List (Ticket × Ticket)}
    (h : arrOk onPos mv [] nodes) : (rebuildArrP onPos nodes mv).1 = nodes := by
  unfold rebuildArrP
  have := rebuild_fold mv nodes [] [] (Or.inl rfl) h
  simpa using this

end Yorkie.FDoc
