/-
The unary laws of the convergence instantiation: H1', H1'', WF preservation, and the
stability of enabledness under an independent operation (H3, `pre_stable`).
-/
import YorkieModel.Lemmas.DocOps
namespace Yorkie.Crdt
open Yorkie

theorem Pre.not_used {d : Doc} {a : Op} (h : Pre d a) : ∀ i ∈ creates a, ¬ used d i :=
  fun i hi hu => (h.2.2 i hi).2 ⟨(h.2.2 i hi).1, hu⟩

theorem Pre.ready {d : Doc} {a : Op} (h : Pre d a) : ∃ pe, Ready d a pe := by
  obtain ⟨pe, hp, hok⟩ := (exec_ok_iff d a).1 h.2.1
  exact ⟨pe, ⟨h.1, hp, hok, h.not_used⟩⟩

theorem Ready.pre {d : Doc} {a : Op} {pe : Elem} (h : Ready d a pe)
    (hroot : ∀ i ∈ creates a, i ≠ rootId) : Pre d a :=
  ⟨h.wf, (exec_ok_iff d a).2 ⟨pe, h.hp, h.ok⟩, fun i hi => ⟨hroot i hi, fun hu => h.fresh i hi hu.2⟩⟩

theorem Ready.apply_eq {d : Doc} {a : Op} {pe : Elem} (h : Ready d a pe) :
    apply d a = (eff pe.body a).run d := by
  unfold apply; rw [exec_eq_run h]

theorem Ready.unique {d : Doc} {a : Op} {pe pe' : Elem} (h : Ready d a pe) (h' : Ready d a pe') :
    pe = pe' := by
  have := h.hp; rw [h'.hp] at this; cases this; rfl

/-- (H1') an enabled operation adds exactly its created ids -/
theorem ids_apply {d : Doc} {a : Op} (h : Pre d a) (i : Ticket) :
    ids (apply d a) i ↔ ids d i ∨ i ∈ creates a := by
  obtain ⟨pe, hr⟩ := h.ready
  rw [hr.apply_eq]
  unfold ids
  rw [(valid_eff hr).used_run]
  constructor
  · rintro ⟨h1, h2 | h2⟩
    · exact Or.inl ⟨h1, h2⟩
    · exact Or.inr h2
  · rintro (⟨h1, h2⟩ | h2)
    · exact ⟨h1, Or.inl h2⟩
    · exact ⟨(h.2.2 i h2).1, Or.inr h2⟩

theorem Ready.refs_used {d : Doc} {a : Op} {pe : Elem} (h : Ready d a pe) :
    ∀ i ∈ rawRefs a, i ≠ rootId → used d i := by
  have hp := h.hp
  have hok := h.ok
  have hpar : used d a.parent := Or.inl (by simp [hp])
  have hchild : ∀ t, isChildOf d t a.parent = true → used d t := by
    intro t ht
    obtain ⟨e, he, _⟩ := isChildOf_iff.1 ht
    exact Or.inl (by simp [he])
  have hpos : ∀ t, pe.body.hasPos t = true ∨ pe.body.holds t = true → used d t :=
    fun t ht => Or.inr ⟨_, _, hp, ht⟩
  simp only [succB, Bool.and_eq_true, Bool.or_eq_true, bne_iff_ne, ne_eq] at hok
  obtain ⟨⟨hk, hc⟩, ha⟩ := hok
  cases a with
  | set p k v ts => simp [rawRefs]; intro _; exact hpar
  | increase p delta ts => simp [rawRefs]; intro _; exact hpar
  | add p prev v ts =>
    have harr : pe.body.kind = Kind.arr := by
      cases hb : pe.body <;> simp [hb, Op.okFor, Body.kind] at hk ⊢
    simp only [harr, not_true_eq_false, false_or, arrOk, Bool.or_eq_true, decide_eq_true_eq] at ha
    intro i hi hne
    simp [rawRefs] at hi
    rcases hi with rfl | rfl
    · exact hpar
    · rcases ha with (ha | ha) | ha
      · exact absurd ha hne
      · exact hpos _ (Or.inl ha)
      · exact hpos _ (Or.inr ha)
  | move p prev target ts =>
    have harr : pe.body.kind = Kind.arr := by
      cases hb : pe.body <;> simp [hb, Op.okFor, Body.kind] at hk ⊢
    simp only [harr, not_true_eq_false, false_or, arrOk, Bool.or_eq_true, Bool.and_eq_true,
      decide_eq_true_eq] at ha
    simp only [childOk, Op.target?] at hc
    intro i hi hne
    simp [rawRefs] at hi
    rcases hi with rfl | rfl | rfl
    · exact hpar
    · rcases ha.1 with ha | ha
      · exact absurd ha hne
      · exact hpos _ (Or.inl ha)
    · exact hchild _ hc
  | remove p target ts =>
    simp only [childOk, Op.target?] at hc
    intro i hi hne
    simp [rawRefs] at hi
    rcases hi with rfl | rfl
    · exact hpar
    · exact hchild _ hc
  | arraySet p target v ts =>
    simp only [childOk, Op.target?] at hc
    intro i hi hne
    simp [rawRefs] at hi
    rcases hi with rfl | rfl
    · exact hpar
    · exact hchild _ hc

/-- (H1'') an enabled operation references only existing ids and creates only new ones -/
theorem refs_creates {d : Doc} {a : Op} (h : Pre d a) :
    (∀ i ∈ refs a, ids d i) ∧ (∀ i ∈ creates a, ¬ ids d i) := by
  obtain ⟨pe, hr⟩ := h.ready
  refine ⟨fun i hi => ?_, fun i hi => (h.2.2 i hi).2⟩
  obtain ⟨h1, h2⟩ := mem_refs.1 hi
  exact ⟨h2, hr.refs_used i h1 h2⟩

/-- WF preservation -/
theorem wf_apply {d : Doc} {a : Op} (h : Pre d a) : WF (apply d a) := by
  obtain ⟨pe, hr⟩ := h.ready
  rw [hr.apply_eq]
  exact (valid_eff hr).wf_run h.1

/-! ### success is unaffected by an independent operation -/

theorem succB_congr {B B' : Body} {child child' : Ticket → Bool} {b : Op}
    (hk : B.kind = B'.kind)
    (h : ∀ i ∈ rawRefs b, B.hasPos i = B'.hasPos i ∧ B.holds i = B'.holds i ∧ child i = child' i) :
    succB B child b = succB B' child' b := by
  unfold succB
  rw [hk]
  cases b <;> simp [rawRefs] at h <;> simp [childOk, Op.target?, arrOk, *]

theorem Valid.obs_eq {E : Effect} {d : Doc} {pe : Elem} {C : List Ticket} (hv : Valid E d pe C)
    {i : Ticket} (hi : i ∉ C) :
    E.body.hasPos i = pe.body.hasPos i ∧ E.body.holds i = pe.body.holds i := by
  constructor
  · rw [Bool.eq_iff_iff]
    exact ⟨fun h => (hv.pos_new i h).resolve_right hi, hv.pos_mono i⟩
  · rw [Bool.eq_iff_iff]
    exact ⟨fun h => (hv.holds_new i h).resolve_right hi, hv.holds_mono i⟩

theorem Valid.succ_iff {E : Effect} {d : Doc} {pe : Elem} {C : List Ticket} (hv : Valid E d pe C)
    {b : Op} (hC : ∀ i ∈ rawRefs b, i ∉ C) : Succ (E.run d) b ↔ Succ d b := by
  have hbp : b.parent ∉ C := hC _ (parent_mem_rawRefs b)
  have hrun := run_of_not_mem hv hbp
  have key : ∀ e0, d b.parent = some e0 →
      succB (E.touch b.parent e0).body (fun t => isChildOf (E.run d) t b.parent) b =
        succB e0.body (fun t => isChildOf d t b.parent) b := by
    intro e0 h0
    apply succB_congr
    · by_cases hpp : b.parent = E.p
      · have : e0 = pe := by
          have := hv.hp; rw [← hpp, h0] at this; cases this; rfl
        subst this
        simp only [Effect.touch, hpp, if_true]; exact hv.kind
      · simp only [Effect.touch, hpp, if_false]
    · intro i hi
      have hiC := hC i hi
      have hch : isChildOf (E.run d) i b.parent = isChildOf d i b.parent :=
        isChildOf_run_old hv (fun e hm => hiC (hv.mk_ok i e hm).1) _
      by_cases hpp : b.parent = E.p
      · have : e0 = pe := by
          have := hv.hp; rw [← hpp, h0] at this; cases this; rfl
        subst this
        simp only [Effect.touch, hpp, if_true]
        exact ⟨(hv.obs_eq hiC).1, (hv.obs_eq hiC).2, hpp ▸ hch⟩
      · simp only [Effect.touch, hpp, if_false]
        exact ⟨trivial, trivial, hch⟩
  unfold Succ
  rw [hrun]
  constructor
  · rintro ⟨pe', hp', hs⟩
    cases h0 : d b.parent with
    | none => simp [h0] at hp'
    | some e0 =>
      simp only [h0, Option.map_some, Option.some.injEq] at hp'
      subst hp'
      exact ⟨e0, rfl, (key e0 h0) ▸ hs⟩
  · rintro ⟨e0, h0, hs⟩
    exact ⟨_, by rw [h0]; rfl, (key e0 h0).symm ▸ hs⟩

/-- the created tickets of `a` are not looked up by `b` (initial ticket included) -/
theorem Pre.not_rawRefs {d : Doc} {a b : Op} (h : Pre d a)
    (hi : ∀ i ∈ creates a, i ∉ refs b) : ∀ i ∈ rawRefs b, i ∉ creates a := by
  intro i hib hia
  exact hi i hia (mem_refs.2 ⟨hib, (h.2.2 i hia).1⟩)

theorem succ_apply_iff {d : Doc} {a b : Op} (h : Pre d a) (hi : ∀ i ∈ creates a, i ∉ refs b) :
    (∃ d', execute (apply d a) b = .ok d') ↔ ∃ d', execute d b = .ok d' := by
  obtain ⟨pe, hr⟩ := h.ready
  rw [exec_ok_iff, exec_ok_iff, hr.apply_eq]
  exact (valid_eff hr).succ_iff (h.not_rawRefs hi)

/-- (H3) two co-enabled independent operations stay enabled after one of them is applied -/
theorem pre_stable {d : Doc} {a b : Op} (ha : Pre d a) (hb : Pre d b) (hi : Indep a b) :
    Pre (apply d a) b := by
  refine ⟨wf_apply ha, (succ_apply_iff ha (fun i h => (hi.1 i h).1)).2 hb.2.1, ?_⟩
  intro i hib
  refine ⟨(hb.2.2 i hib).1, ?_⟩
  rw [ids_apply ha]
  rintro (h | h)
  · exact (hb.2.2 i hib).2 h
  · exact (hi.1 i h).2 hib

/-- first half of `swap`: the second operation was already enabled before the first one -/
theorem pre_back {d : Doc} {a b : Op} (ha : Pre d a) (hb : Pre (apply d a) b) (hi : Indep a b) :
    Pre d b := by
  refine ⟨ha.1, (succ_apply_iff ha (fun i h => (hi.1 i h).1)).1 hb.2.1, ?_⟩
  intro i hib
  refine ⟨(hb.2.2 i hib).1, fun h => (hb.2.2 i hib).2 ?_⟩
  rw [ids_apply ha]; exact Or.inl h

theorem Indep.symm {a b : Op} (h : Indep a b) : Indep b a :=
  ⟨fun i hb => ⟨h.2 i hb, fun ha => (h.1 i ha).2 hb⟩, fun i ha => (h.1 i ha).1⟩

end Yorkie.Crdt
