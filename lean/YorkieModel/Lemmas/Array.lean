/-
Array (RGATreeList) lemmas, top-level file.

  Array1: the skip-rule insertion on position lists (`insertSkip_comm`, `insertAfterWhere_comm`)
  Array2: anchors, total cores of the transitions, bookkeeping (`hasPos_*`, `holds_*`, `moved_*`,
          `*_isSome`, `elemSlots_*`, `fresh_*`), derived `insertAfter_comm`, `insertPosAfter_comm`
  Array3: commutation of independent transitions (`arrAdd_arrAdd_comm` … `arrMove_arrSet_comm`)

This file adds: success of a transition is not affected by an independent one (`Grows`),
the uniform-hypothesis corollaries, and machine-checked counterexamples showing that the
non-obvious hypotheses cannot be dropped.
-/
import YorkieModel.Lemmas.Array3
namespace Yorkie.Crdt
open Yorkie

/-! ### 7. an independent transition does not change whether another one succeeds -/

/-- `a'` differs from `a` only at ticket `s`, as far as positions and elements are concerned;
    every successful transition with new ticket `s` has this shape. -/
structure Grows (s : Ticket) (a a' : ArrSt) : Prop where
  hasPos : ∀ x, x ≠ s → hasPos a'.nodes x = hasPos a.nodes x
  holds : ∀ x, x ≠ s → holds a'.nodes x = holds a.nodes x

theorem grows_arrAdd {prev ts : Ticket} {a a' : ArrSt} (h : arrAdd prev ts a = some a') :
    Grows ts a a' :=
  ⟨fun x hx => by rw [hasPos_arrAdd h]; simp [hx], fun x hx => by rw [holds_arrAdd h]; simp [hx]⟩

theorem grows_arrSet {target ts : Ticket} {a a' : ArrSt} (h : arrSet target ts a = some a') :
    Grows ts a a' :=
  ⟨fun x hx => by rw [hasPos_arrSet h]; simp [hx], fun x hx => by rw [holds_arrSet h]; simp [hx]⟩

/-- for a move even `holds` at `ts` itself is unchanged (`holds_arrMove`) -/
theorem grows_arrMove {prev target ts : Ticket} {a a' : ArrSt}
    (h : arrMove prev target ts a = some a') : Grows ts a a' :=
  ⟨fun x hx => by rw [hasPos_arrMove h]; simp [hx], fun x _ => holds_arrMove h x⟩

theorem arrAdd_isSome_of_grows {s : Ticket} {a a' : ArrSt} (h : Grows s a a') {prev : Ticket}
    (hp : prev ≠ s) (ts : Ticket) : (arrAdd prev ts a').isSome = (arrAdd prev ts a).isSome := by
  rw [arrAdd_isSome, arrAdd_isSome, h.hasPos prev hp, h.holds prev hp]

theorem arrMove_isSome_of_grows {s : Ticket} {a a' : ArrSt} (h : Grows s a a') {prev target : Ticket}
    (hp : prev ≠ s) (hg : target ≠ s) (ts : Ticket) :
    (arrMove prev target ts a').isSome = (arrMove prev target ts a).isSome := by
  rw [arrMove_isSome, arrMove_isSome, h.hasPos prev hp, h.holds target hg]

theorem arrSet_isSome_of_grows {s : Ticket} {a a' : ArrSt} (h : Grows s a a') {target : Ticket}
    (hg : target ≠ s) (ts : Ticket) : (arrSet target ts a').isSome = (arrSet target ts a).isSome := by
  rw [arrSet_isSome, arrSet_isSome, h.holds target hg]

/-- after a move nothing at all is required of a following `arrSet`'s target -/
theorem arrSet_isSome_after_arrMove {prev g ts : Ticket} {a a' : ArrSt}
    (h : arrMove prev g ts a = some a') (target ts' : Ticket) :
    (arrSet target ts' a').isSome = (arrSet target ts' a).isSome := by
  rw [arrSet_isSome, arrSet_isSome, holds_arrMove h]

/-- the generic consequence of any of the commutation equations: if both succeed on `a`,
    both orders succeed and give the same state -/
theorem both_orders_of_comm {f g : ArrSt → Option ArrSt} {a a₁ a₂ : ArrSt}
    (hc : (f a).bind g = (g a).bind f) (h₁ : f a = some a₁) (h₂ : g a = some a₂) :
    g a₁ = f a₂ := by
  rw [h₁, h₂] at hc; simpa using hc

/-! ### uniform-hypothesis corollaries

`ElemSlots a.nodes`, `Fresh a.nodes t₁`, `Fresh a.nodes t₂`, `t₁ ≠ t₂` and independence are always
sufficient. The statements in `Array3` list what is really used; the ones that need `ElemSlots`
or `Fresh` are repeated here with the bundle. -/

theorem arrMove_arrMove_same_target_of_fresh (p₁ t₁ p₂ t₂ g : Ticket) (a : ArrSt)
    (hf₁ : Fresh a.nodes t₁) (hf₂ : Fresh a.nodes t₂) (ht : t₁ ≠ t₂) (h₁ : p₁ ≠ t₂) (h₂ : p₂ ≠ t₁) :
    (arrMove p₁ g t₁ a).bind (arrMove p₂ g t₂) = (arrMove p₂ g t₂ a).bind (arrMove p₁ g t₁) :=
  arrMove_arrMove_same_target p₁ t₁ p₂ t₂ g a ht h₁ h₂ hf₁.1 hf₂.1

/-- any two moves (same or different target) -/
theorem arrMove_arrMove_comm_of_fresh (p₁ g₁ t₁ p₂ g₂ t₂ : Ticket) (a : ArrSt)
    (hf₁ : Fresh a.nodes t₁) (hf₂ : Fresh a.nodes t₂) (ht : t₁ ≠ t₂) (h₁ : p₁ ≠ t₂) (h₂ : p₂ ≠ t₁) :
    (arrMove p₁ g₁ t₁ a).bind (arrMove p₂ g₂ t₂) = (arrMove p₂ g₂ t₂ a).bind (arrMove p₁ g₁ t₁) := by
  by_cases hg : g₁ = g₂
  · subst hg; exact arrMove_arrMove_same_target p₁ t₁ p₂ t₂ g₁ a ht h₁ h₂ hf₁.1 hf₂.1
  · exact arrMove_arrMove_comm p₁ g₁ t₁ p₂ g₂ t₂ a hg ht h₁ h₂

/-- LWW outcome of two moves of the same element, both orders: `moved g` ends as the larger of the
    two tickets unless an even larger one was recorded before (then it is unchanged). -/
theorem moved_after_two_moves {p₁ t₁ p₂ t₂ g : Ticket} {a a₁ a₂ : ArrSt}
    (h₁ : arrMove p₁ g t₁ a = some a₁) (h₂ : arrMove p₂ g t₂ a₁ = some a₂) (h12 : t₂.after t₁ = true) :
    a₂.moved g = if movedLoses a.moved g t₂ then a.moved g else some t₂ := by
  rw [moved_arrMove h₂, moved_arrMove h₁]
  cases hl₁ : movedLoses a.moved g t₁ <;> cases hl₂ : movedLoses a.moved g t₂
  · simp [movedLoses, h12]
  · have := after_of_wins_of_loses hl₁ hl₂
    rw [Ticket.after_asymm h12] at this; cases this
  · simp [hl₂]
  · simp [hl₂]

/-- with a fresh ticket the "list unchanged" branch of `arrMove` is dead: explicit form -/
theorem arrMove_eq_of_fresh (prev target ts : Ticket) (a : ArrSt) (hf : hasPos a.nodes ts = false) :
    arrMove prev target ts a =
      if moveOk prev target a then
        some (if movedLoses a.moved target ts then
            ⟨insT (posAnchor prev) ⟨ts, none⟩ a.nodes, a.moved⟩
          else
            ⟨insT (posAnchor prev) ⟨ts, some target⟩ (vacate target a.nodes),
              setMoved a.moved target ts⟩)
      else none := by
  rw [arrMove_eq]; unfold moveCore; rw [hf]; simp

/-- LWW, explicit final state: when `t₂` is the later of two moves of `g` and wins against the
    recorded move, then (in the order `t₁`, `t₂`, hence by `arrMove_arrMove_same_target` in either
    order) the element sits in `t₂`'s slot, `t₁`'s slot is dead whether or not `t₁` itself won,
    and `moved g = some t₂`. -/
theorem arrMove_arrMove_same_target_result (p₁ t₁ p₂ t₂ g : Ticket) (a : ArrSt)
    (h₂ : p₂ ≠ t₁) (hf₂ : hasPos a.nodes t₂ = false) (hf₁ : hasPos a.nodes t₁ = false)
    (h21 : t₂.after t₁ = true) (hw : movedLoses a.moved g t₂ = false)
    (ok₁ : moveOk p₁ g a = true) (ok₂ : moveOk p₂ g a = true) :
    (arrMove p₁ g t₁ a).bind (arrMove p₂ g t₂) =
      some ⟨insT (posAnchor p₂) ⟨t₂, some g⟩ (insT (posAnchor p₁) ⟨t₁, none⟩ (vacate g a.nodes)),
        setMoved a.moved g t₂⟩ := by
  have ht : t₂ ≠ t₁ := Ticket.after_ne h21
  have hP₂ : hasPos (moveCore p₁ g t₁ a).nodes t₂ = false := by
    rw [hasPos_moveCore ok₁, hf₂]; simp [ht]
  have hL₂ : movedLoses (moveCore p₁ g t₁ a).moved g t₂ = false := by
    rw [moved_moveCore]; split
    · exact hw
    · rw [movedLoses_setMoved_same, h21]; rfl
  rw [arrMove_eq, if_pos ok₁, Option.bind_some, arrMove_eq, moveOk_moveCore t₁ h₂ ok₁, if_pos ok₂,
    moveCore_eq_B p₂ g t₂ (moveCore p₁ g t₁ a), hP₂, hL₂, moveCore_eq_B p₁ g t₁ a, hf₁]
  cases movedLoses a.moved g t₁ <;>
    simp only [moveCoreB, Bool.false_eq_true, ↓reduceIte, vacate_insT_pos, vac1_mk_none,
      vac1_mk_self, vacate_idem, setMoved_setMoved_same]

/-! ### counterexamples (checked by the kernel) -/

namespace Counterexample

def x : Ticket := ⟨1, 0, 1⟩
def p : Ticket := ⟨2, 0, 1⟩
def t₁ : Ticket := ⟨5, 0, 1⟩
def t₂ : Ticket := ⟨5, 0, 2⟩

/-- element `x` sits in a position node whose identity is not `x`, and the original slot
    `pos = x` is gone: `ElemSlots` fails -/
def noSlot : ArrSt := ⟨[⟨p, some x⟩], fun _ => none⟩

def nodesOf (o : Option ArrSt) : Option (List PosNode) := o.map (·.nodes)

/-- `arrAdd_arrMove_comm` is false without `ElemSlots` (hypothesis `hs` of the primed version):
    add-after-`x` concurrent with move-`x`; all other hypotheses hold. -/
example :
    nodesOf ((arrAdd x t₁ noSlot).bind (arrMove headId x t₂)) =
      some [⟨t₂, some x⟩, ⟨p, none⟩, ⟨t₁, some t₁⟩] ∧
    nodesOf ((arrMove headId x t₂ noSlot).bind (arrAdd x t₁)) =
      some [⟨t₂, some x⟩, ⟨t₁, some t₁⟩, ⟨p, none⟩] ∧
    ¬ ElemSlots noSlot.nodes ∧ Fresh noSlot.nodes t₁ ∧ Fresh noSlot.nodes t₂ := by
  refine ⟨by decide, by decide, ?_, ⟨by decide, by decide⟩, ⟨by decide, by decide⟩⟩
  intro h
  exact absurd (h ⟨p, some x⟩ (by simp [noSlot]) x rfl) (by decide)

/-- `arrMove_arrSet_comm` is false without `ElemSlots`: set-`x` concurrent with move-`x`. -/
example :
    nodesOf ((arrMove headId x t₂ noSlot).bind (arrSet x t₁)) =
      some [⟨t₂, some x⟩, ⟨t₁, some t₁⟩, ⟨p, none⟩] ∧
    nodesOf ((arrSet x t₁ noSlot).bind (arrMove headId x t₂)) =
      some [⟨t₂, some x⟩, ⟨p, none⟩, ⟨t₁, some t₁⟩] := by
  refine ⟨by decide, by decide⟩

/-- the position `t₁` already exists: `Fresh` fails for `t₁` -/
def stale : ArrSt := ⟨[⟨x, some x⟩, ⟨t₁, none⟩], fun _ => none⟩

/-- `arrMove_arrMove_same_target` is false when a new ticket is already a position identity:
    the losing move then leaves the list unchanged instead of adding its dead node. -/
example :
    nodesOf ((arrMove headId x t₁ stale).bind (arrMove headId x t₂)) =
      some [⟨t₂, some x⟩, ⟨t₁, none⟩, ⟨x, none⟩, ⟨t₁, none⟩] ∧
    nodesOf ((arrMove headId x t₂ stale).bind (arrMove headId x t₁)) =
      some [⟨t₂, some x⟩, ⟨x, none⟩, ⟨t₁, none⟩] ∧
    ElemSlots stale.nodes := by
  refine ⟨by decide, by decide, ?_⟩
  rw [elemSlots_iff]; intro e he
  have : e = x := by
    simp [holds, stale] at he; exact he.symm
  subst this; decide

/-- independence cannot be dropped: a move whose target is the other operation's new element
    succeeds only after it (`g ≠ t₁` in `arrAdd_arrMove_comm`). -/
example :
    ((arrAdd headId t₁ ⟨[], fun _ => none⟩).bind (arrMove headId t₁ t₂)).isSome = true ∧
    ((arrMove headId t₁ t₂ ⟨[], fun _ => none⟩).bind (arrAdd headId t₁)).isSome = false := by
  refine ⟨by decide, by decide⟩

end Counterexample

end Yorkie.Crdt
