/-
Helper lemmas for C10: the generation invariant of C04 (`GInv`, Lemmas/ServerGen.lean) restated so
that it survives compactions – `GInvC` – and re-proved for every request.  The compacted change is
authored by the initial actor, which is no client and has no stored entry; the two clauses about
"the rows of actor `c`" are therefore about clients (`c ≠ initialActorNo`).  Everything else, and
every proof, follows Lemmas/ServerGen.lean line by line.
-/
import YorkieModel.Lemmas.ServerCompactDelivery
import YorkieModel.Lemmas.ServerSeq
namespace Yorkie.Server
open Yorkie

structure GInvC (s : Server) : Prop where
  /-- a row of actor `c` never comes from a generation `c` has not reached -/
  g1 : ∀ c d r, r ∈ storedLog s d → r.actor = c → c ≠ initialActorNo → ∃ cd, entryOf s c d = some cd ∧ r.gen ≤ cd.gen
  /-- the rows of the current generation of an open attachment are acknowledged by its stored
  client sequence (DESIGN F.1, I4) -/
  g2 : ∀ c d cd r, entryOf s c d = some cd → isOpenSt cd.status = true → r ∈ storedLog s d → r.actor = c →
    c ≠ initialActorNo → r.gen = cd.gen → r.clientSeq ≤ cd.clientSeq
  /-- only an attached entry carries a client sequence (`TryAttaching`, detach and remove store 0) -/
  g3 : ∀ c d cd, entryOf s c d = some cd → cd.status ≠ .attached → cd.clientSeq = 0

theorem GInvC.init (cfg : Config) : GInvC (Server.init cfg) :=
  ⟨fun _ _ _ h => by simp [storedLog, Server.findDoc, Server.init] at h,
   fun _ _ _ _ h => by simp [entryOf, Server.init] at h,
   fun _ _ _ h => by simp [entryOf, Server.init] at h⟩

theorem GInvC.of_eq {s s' : Server} (h : GInvC s) (hl : ∀ d, storedLog s' d = storedLog s d)
    (he : ∀ c d, entryOf s' c d = entryOf s c d) : GInvC s' :=
  ⟨fun c d r hr ha hn => by rw [hl] at hr; rw [he]; exact h.g1 c d r hr ha hn,
   fun c d cd r hcd ho hr ha hn hg => by rw [hl] at hr; rw [he] at hcd; exact h.g2 c d cd r hcd ho hr ha hn hg,
   fun c d cd hcd hs => by rw [he] at hcd; exact h.g3 c d cd hcd hs⟩

/-- the generic transition: client `c` appends its own rows `P` of generation `e'.gen` to document
`d` and its entry becomes `e'`; nothing else changes -/
theorem GInvC.trans {s s' : Server} (h : GInvC s) (c : ClientId) (d : DocId) (P : List Row) (e' : ClientDoc)
    (hlog : storedLog s' d = storedLog s d ++ P) (hother : ∀ d', d' ≠ d → storedLog s' d' = storedLog s d')
    (hP : ∀ r ∈ P, r.actor = c ∧ r.gen = e'.gen ∧ (isOpenSt e'.status = true → r.clientSeq ≤ e'.clientSeq))
    (hent : entryOf s' c d = some e') (he3 : e'.status ≠ .attached → e'.clientSeq = 0)
    (hents : ∀ c' d', (c' ≠ c ∨ d' ≠ d) → entryOf s' c' d' = entryOf s c' d')
    (hold : (∃ cd0, entryOf s c d = some cd0 ∧ cd0.gen = e'.gen ∧
              (isOpenSt e'.status = true → isOpenSt cd0.status = true ∧ cd0.clientSeq ≤ e'.clientSeq)) ∨
            (P = [] ∧ ∀ r ∈ storedLog s d, r.actor = c → r.gen < e'.gen)) : GInvC s' := by
  refine ⟨?_, ?_, ?_⟩
  rotate_left 2
  · intro c' d' cd hcd hs
    by_cases ht : c' = c ∧ d' = d
    · obtain ⟨hc, hd⟩ := ht
      subst hc; subst hd
      rw [hent] at hcd; injection hcd with hcd; subst hcd
      exact he3 hs
    · have hne : c' ≠ c ∨ d' ≠ d := by
        by_cases hc : c' = c
        · exact Or.inr (fun hd => ht ⟨hc, hd⟩)
        · exact Or.inl hc
      rw [hents c' d' hne] at hcd
      exact h.g3 c' d' cd hcd hs
  · intro c' d' r hr ha hn
    by_cases ht : c' = c ∧ d' = d
    · obtain ⟨hc, hd⟩ := ht
      subst hc; subst hd
      refine ⟨e', hent, ?_⟩
      rw [hlog, List.mem_append] at hr
      rcases hr with hr | hr
      · rcases hold with ⟨cd0, hcd0, hg0, _⟩ | ⟨_, hnew⟩
        · obtain ⟨cd, hcd, hle⟩ := h.g1 c' d' r hr ha hn
          rw [hcd0] at hcd; injection hcd with hcd; subst hcd; omega
        · exact Nat.le_of_lt (hnew r hr ha)
      · exact Nat.le_of_eq (hP r hr).2.1
    · have hne : c' ≠ c ∨ d' ≠ d := by
        by_cases hc : c' = c
        · exact Or.inr (fun hd => ht ⟨hc, hd⟩)
        · exact Or.inl hc
      rw [hents c' d' hne]
      by_cases hd : d' = d
      · subst hd
        rw [hlog, List.mem_append] at hr
        rcases hr with hr | hr
        · exact h.g1 c' d' r hr ha hn
        · have := (hP r hr).1
          rcases hne with hne | hne
          · exact absurd (ha.symm.trans this) hne
          · exact absurd rfl hne
      · rw [hother d' hd] at hr; exact h.g1 c' d' r hr ha hn
  · intro c' d' cd r hcd ho hr ha hn hg
    by_cases ht : c' = c ∧ d' = d
    · obtain ⟨hc, hd⟩ := ht
      subst hc; subst hd
      rw [hent] at hcd; injection hcd with hcd; subst hcd
      rw [hlog, List.mem_append] at hr
      rcases hr with hr | hr
      · rcases hold with ⟨cd0, hcd0, hg0, hopen⟩ | ⟨_, hnew⟩
        · obtain ⟨ho0, hle⟩ := hopen ho
          have := h.g2 c' d' cd0 r hcd0 ho0 hr ha hn (by rw [hg, hg0])
          omega
        · have := hnew r hr ha; omega
      · exact (hP r hr).2.2 ho
    · have hne : c' ≠ c ∨ d' ≠ d := by
        by_cases hc : c' = c
        · exact Or.inr (fun hd => ht ⟨hc, hd⟩)
        · exact Or.inl hc
      rw [hents c' d' hne] at hcd
      by_cases hd : d' = d
      · subst hd
        rw [hlog, List.mem_append] at hr
        rcases hr with hr | hr
        · exact h.g2 c' d' cd r hcd ho hr ha hn hg
        · have := (hP r hr).1
          rcases hne with hne | hne
          · exact absurd (ha.symm.trans this) hne
          · exact absurd rfl hne
      · rw [hother d' hd] at hr; exact h.g2 c' d' cd r hcd ho hr ha hn hg

/-- One `PushPull` of an honest flight keeps the generation invariant.  `cdS` is the stored entry,
`cd0` the in-flight one; they agree on generation and client sequence (they are the same entry for
every handler but Attach, where the in-flight copy already says `attached`). -/
theorem ginv_pushPullC {s s' : Server} {f : Flight} {x : Except ErrKind Flight} (h : GInvC s)
    (hpp : pushPull s f = (s', x)) {loaded : Client} (hc : s.findClient f.client = some loaded)
    (hhon : (∀ x ∈ f.pack.changes, x.actor = f.client) ∨ (∀ p, pushGuard s (stripped f) = .ok p → p = []))
    {cd0 cdS : ClientDoc} (hcd0 : f.info.docs.get? f.doc = some cd0) (hcdS : loaded.docs.get? f.doc = some cdS)
    (hgen : cdS.gen = cd0.gen)
    (hopen : isOpenSt cd0.status = isOpenSt cdS.status)
    (hatt : f.status = .attached → cd0.status = .attached) (hact : f.info.activated = true) : GInvC s' := by
  have hentS : entryOf s f.client f.doc = some cdS := by rw [entryOf_findClient hc]; exact hcdS
  have hrowsAll : ∀ (doc : Doc) (p : List ChangeReq), pushGuard s (stripped f) = .ok p →
      ∀ r ∈ pushedRows doc (stripped f) p, r.actor = f.client ∧ r.gen = cd0.gen ∧
        r.clientSeq ≤ (pushedFlight doc (stripped f) p).cpAfterPush.clientSeq := by
    intro doc p hguard
    rcases hhon with hhon | hno
    · exact pushedRows_spec (doc := doc) hguard hhon hcd0
    · have := hno p hguard; subst this
      intro r hr; simp [pushedRows, assignSeqs] at hr
  cases x with
  | ok f' =>
    have hp := pushPull_ppok hpp
    obtain ⟨cd0', loaded', doc, p, vv, hcd0', hl, hfd, hguard, _, hent, hdocs, _, _, _⟩ := ppok_target hp
    rw [hcd0] at hcd0'; injection hcd0' with hcd0'; subst hcd0'
    rw [hc] at hl; injection hl with hl; subst hl
    obtain ⟨_, _, _, _, _, r, _, _, _, _, _, hpull, _, _, _, _, _, _, _, _, hcp', _⟩ := hp.ex
    have hrows := hrowsAll doc p hguard
    have hcpcs : f'.resp.cp.clientSeq = (pushedFlight doc (stripped f) p).cpAfterPush.clientSeq := by
      -- the response checkpoint acknowledges everything pushed
      obtain ⟨doc2, p2, _, _, _, r2, _, hfd2, _, _, hg2, hpull2, _, _, _, _, _, _, _, _, hcp2, _⟩ := hp.ex
      rw [hfd] at hfd2; injection hfd2 with hfd2; subst hfd2
      rw [hguard] at hg2; injection hg2 with hg2; subst hg2
      rw [hcp2]; exact pullPackResp_cp_clientSeq hpull2
    have hge := assignSeqs_cp_ge ((stripped f).info.genOf (stripped f).doc) doc.serverSeq
      ((stripped f).info.checkpoint (stripped f).doc) p
    have hcp0 : ((stripped f).info.checkpoint (stripped f).doc).clientSeq = cd0.clientSeq := by
      simp [Client.checkpoint, hcd0]
    have he3 : (persistEntry (statusEntry f.status cd0 f'.resp.cp) loaded f.doc).status ≠ .attached →
        (persistEntry (statusEntry f.status cd0 f'.resp.cp) loaded f.doc).clientSeq = 0 := by
      intro hna
      by_cases hx : ((statusEntry f.status cd0 f'.resp.cp).status == DocStatus.attached) = true
      · exfalso; apply hna
        simp only [persistEntry, hx, if_true, mergeClientDoc]
        simpa using hx
      · simp only [persistEntry, hx, Bool.false_eq_true, if_false]
    refine h.trans f.client f.doc (pushedRows doc (stripped f) p)
      (persistEntry (statusEntry f.status cd0 f'.resp.cp) loaded f.doc) ?_ ?_ ?_ hent he3 ?_ (Or.inl ⟨cdS, hentS, ?_, ?_⟩)
    · rw [storedLog_docs_set hdocs, if_pos rfl, storedLog_findDoc hfd]; rfl
    · intro d' hd'; rw [storedLog_docs_set hdocs, if_neg (Ne.symm hd')]
    · intro r hr
      obtain ⟨h1, h2, h3⟩ := hrows r hr
      refine ⟨h1, ?_, ?_⟩
      · rw [h2]; cases hs : f.status <;> simp [persistEntry, statusEntry, mergeClientDoc] <;> split <;> rfl
      · intro ho
        cases hs : f.status with
        | attached =>
          have := hatt hs
          simp only [persistEntry, statusEntry, this, beq_self_eq_true, if_true, mergeClientDoc]
          rw [hcpcs]
          exact Nat.le_trans h3 (Nat.le_max_left _ _)
        | detached => rw [hs] at ho; simp [persistEntry, statusEntry, isOpenSt] at ho
        | removed => rw [hs] at ho; simp [persistEntry, statusEntry, isOpenSt] at ho
    · intro c' d' hne; exact pushPull_entries_other hpp hc c' d' hne
    · rw [hgen]; cases hs : f.status <;> simp [persistEntry, statusEntry, mergeClientDoc] <;> split <;> rfl
    · intro ho
      cases hs : f.status with
      | attached =>
        have hst := hatt hs
        refine ⟨by rw [← hopen]; simp [isOpenSt, hst], ?_⟩
        simp only [persistEntry, statusEntry, hst, beq_self_eq_true, if_true, mergeClientDoc, hcdS,
          Option.getD_some]
        exact Nat.le_max_right _ _
      | detached => rw [hs] at ho; simp [persistEntry, statusEntry, isOpenSt] at ho
      | removed => rw [hs] at ho; simp [persistEntry, statusEntry, isOpenSt] at ho
  | error e =>
    have hcl := (pushPull_err hpp hc).1
    rcases pushPull_error hpp hc with e1 | ⟨doc, p, hfd, hguard, e1, hcase⟩
    · subst e1; exact h
    · have hlogs : ∀ d', storedLog s' d' = if f.doc = d' then doc.log ++ pushedRows doc (stripped f) p else storedLog s d' := by
        intro d'
        rw [e1]
        by_cases hdd : f.doc = d'
        · subst hdd
          simp [storedLog, Server.findDoc, Server.setDoc, AL.get?_set_self, pushedDoc_log]
        · simp only [storedLog, Server.findDoc, Server.setDoc, AL.get?_set, hdd, if_false]
      rcases hcase with hpe | ⟨r, _, hst⟩
      · -- pull failed: nothing was pushed
        have hd' : s.findDoc (stripped f).doc = some doc := by simpa using hfd
        have hp := pull_error_no_push hd' hguard (by rw [e1] at hpe; simpa using hpe)
        refine h.of_eq ?_ (fun c d => entryOf_of_clients_eq hcl c d)
        intro d'
        rw [hlogs d']
        by_cases hdd : f.doc = d'
        · rw [if_pos hdd, ← hdd, storedLog_findDoc hfd, hp]; simp [pushedRows, assignSeqs]
        · rw [if_neg hdd]
      · -- `UpdateDocStatus` rejected after the push (only possible for a closing request on an
        -- entry that is not open): the rows stay, the entry is unchanged and not open
        have hrows := hrowsAll doc p hguard
        have hclosed : isOpenSt cd0.status = false := by
          cases hx : isOpenSt cd0.status with
          | false => rfl
          | true =>
            exfalso
            obtain ⟨i', hi'⟩ := updateDocStatus_no_error (st := f.status) (cp := r.cp) hact hcd0 (fun _ => hx)
            rw [hi'] at hst; simp at hst
        have hclosedS : isOpenSt cdS.status = false := by rw [← hopen]; exact hclosed
        refine h.trans f.client f.doc (pushedRows doc (stripped f) p) cdS ?_ ?_ ?_ ?_ (h.g3 _ _ _ hentS) ?_
          (Or.inl ⟨cdS, hentS, rfl, ?_⟩)
        · rw [hlogs, if_pos rfl, storedLog_findDoc hfd]
        · intro d' hd'; rw [hlogs, if_neg (Ne.symm hd')]
        · intro r' hr'
          obtain ⟨h1, h2, _⟩ := hrows r' hr'
          exact ⟨h1, by rw [h2, hgen], fun ho => by rw [hclosedS] at ho; simp at ho⟩
        · rw [entryOf_of_clients_eq hcl]; exact hentS
        · intro c' d' _; exact entryOf_of_clients_eq hcl c' d'
        · intro ho; rw [hclosedS] at ho; simp at ho

theorem ginv_markAttachingC {s : Server} (h : GInvC s) {c : ClientId} {d : DocId} {i : Client}
    (hi : s.findClient c = some i) (hcn : c ≠ initialActorNo) : GInvC (s.setClient c (i.markAttaching d)) := by
  have hent : entryOf (s.setClient c (i.markAttaching d)) c d = some (attachingEntry i d) := by
    rw [entryOf_setClient, if_pos rfl]; simp [Client.markAttaching, AL.get?_set_self, attachingEntry]
  refine h.trans c d [] (attachingEntry i d) (by simp [storedLog, Server.setClient, Server.findDoc])
    (fun d' _ => by simp [storedLog, Server.setClient, Server.findDoc]) (by simp) hent (fun _ => rfl) ?_ (Or.inr ⟨rfl, ?_⟩)
  · intro c' d' hne
    rw [entryOf_setClient]
    by_cases hc : c = c'
    · rw [if_pos hc, ← hc, entryOf_findClient hi]
      have hd : d ≠ d' := by
        rcases hne with hne | hne
        · exact absurd hc.symm hne
        · exact fun h => hne h.symm
      simp only [Client.markAttaching, AL.get?_set, hd, if_false]
    · rw [if_neg hc]
  · intro r hr ha
    obtain ⟨cd, hcd, hle⟩ := h.g1 c d r hr ha hcn
    rw [entryOf_findClient hi] at hcd
    simp only [attachingEntry, Client.nextGen, hcd]
    omega

theorem ginv_clientsAttachC {s s' : Server} {c : ClientId} {info : Client} {d : DocId} {e : Int} {b : Bool}
    {x : Except ErrKind Client} (h : GInvC s) (hca : clientsAttach s c info d e b = (s', x))
    (hcn : c ≠ initialActorNo) : GInvC s' := by
  have hx : s' = s ∨ ∃ i, s.findClient c = some i ∧ s' = s.setClient c (i.markAttaching d) := by
    cases x with
    | error err =>
      rcases clientsAttach_error hca with e1 | ⟨i, hi, _, e1⟩
      · exact Or.inl e1
      · exact Or.inr ⟨i, hi, e1⟩
    | ok info2 =>
      obtain ⟨info1, _, _, _, hcase⟩ := clientsAttach_ok hca
      rcases hcase with ⟨_, e1, _⟩ | ⟨_, i, hi, _, _, _, e1⟩
      · exact Or.inl e1
      · exact Or.inr ⟨i, hi, e1⟩
  rcases hx with e1 | ⟨i, hi, e1⟩
  · subst e1; exact h
  · subst e1; exact ginv_markAttachingC h hi hcn

theorem ginv_attachWithC {s1 s' : Server} {c : ClientId} {info : Client} {d : DocId} {pack : Pack} {nogc : Bool}
    {out : Except ErrKind Resp} (h : GInvC s1) (haw : attachWith s1 c info d pack nogc = (s', out))
    (hc : s1.findClient c = some info) (ha : info.activated = true)
    (hhon : ∀ x ∈ pack.changes, x.actor = c) (hcn : c ≠ initialActorNo) : GInvC s' := by
  rcases attachWith_inv haw with ⟨_, e1, _⟩ | ⟨doc, _, hcase⟩
  · subst e1; exact h
  · rcases hcase with ⟨e, hca, _⟩ | ⟨s2, info2, hca, hpp⟩
    · exact ginv_clientsAttachC h hca hcn
    · have h2 := ginv_clientsAttachC h hca hcn
      obtain ⟨info1, hi2, hst1, _, hcase⟩ := clientsAttach_ok hca
      -- the stored row in s2 is `info1`
      have hl2 : s2.findClient c = some info1 ∧ info1.activated = true := by
        rcases hcase with ⟨_, e1, e2⟩ | ⟨_, i, hi, hact, _, e2, e1⟩
        · rw [e1, e2]; exact ⟨hc, ha⟩
        · rw [e1, e2]; exact ⟨by simp [Server.findClient, Server.setClient, AL.get?_set_self], hact⟩
      obtain ⟨cdS, hcdS, hsS⟩ := statusOf_some hst1
      have hcd0 : info2.docs.get? d = some (attachedEntry info1 d doc.epoch) := by
        rw [hi2]; exact AL.get?_set_self _ _ _
      have key : ∀ {x : Except ErrKind Flight},
          pushPull s2 (mkFlight c d info2 pack false .attached nogc doc.disablePresence) = (s', x) → GInvC s' := by
        intro x hx
        refine ginv_pushPullC h2 hx (loaded := info1) (by simpa using hl2.1) (Or.inl (by simpa using hhon))
          (cd0 := attachedEntry info1 d doc.epoch) (cdS := cdS) (by simpa using hcd0) (by simpa using hcdS) ?_ ?_ ?_ ?_
        · simp [attachedEntry, genOf_of_get? hcdS]
        · simp [attachedEntry, isOpenSt, hsS]
        · intro _; rfl
        · simp only [mkFlight_info]; rw [hi2]; exact hl2.2
      rcases hpp with ⟨f', hpp, _⟩ | ⟨e, hpp, _⟩
      · exact key hpp
      · exact key hpp

theorem ginv_clusterDetachC {s s' : Server} {c : ClientId} {d : DocId} {x : Except ErrKind Unit} (h : GInvC s)
    (hcd : clusterDetach s c d = (s', x)) (hex : (entryOf s c d).isSome = true) : GInvC s' := by
  unfold clusterDetach at hcd
  split at hcd
  · injection hcd with h1 _; subst h1; exact h
  · next info hi =>
    obtain ⟨hcl, hact⟩ := findActiveClient_ok hi
    split at hcd
    · injection hcd with h1 _; subst h1; exact h
    · split at hcd
      · injection hcd with h1 _; subst h1; exact h
      · next doc hd =>
        rw [entryOf_findClient hcl] at hex
        obtain ⟨cd, hcdE⟩ := Option.isSome_iff_exists.mp hex
        have hne := detachMode_status_ne' s c d (clusterPack c (info.checkpoint d))
        have hhon : ∀ x ∈ (detachMode s c d (clusterPack c (info.checkpoint d))).1.changes, x.actor = c := by
          rw [(detachMode_pack s c d _).2]
          intro x hx
          simp only [clusterPack, List.mem_singleton] at hx
          rw [hx]; rfl
        have key : ∀ {y : Except ErrKind Flight},
            pushPull s (mkFlight c d info (detachMode s c d (clusterPack c (info.checkpoint d))).1 true
              (detachMode s c d (clusterPack c (info.checkpoint d))).2 false doc.disablePresence) = (s', y) → GInvC s' := by
          intro y hy
          exact ginv_pushPullC h hy (loaded := info) (by simpa using hcl) (Or.inl (by simpa using hhon))
            (cd0 := cd) (cdS := cd) (by simpa using hcdE) (by simpa using hcdE) rfl rfl
            (by simpa using fun hx => absurd hx hne) (by simpa using hact)
        split at hcd
        · next s2 f' hpp => injection hcd with h1 _; subst h1; exact key hpp
        · next s2 e hpp => injection hcd with h1 _; subst h1; exact key hpp

theorem ginv_clusterDetachAllC (c : ClientId) (s : Server) (h : GInvC s) (ds : List DocId)
    (hex : ∀ d ∈ ds, (entryOf s c d).isSome = true) : GInvC (clusterDetachAll c s ds).1 := by
  induction ds generalizing s with
  | nil => exact h
  | cons d r ih =>
    unfold clusterDetachAll
    split
    · next s' _ hcd =>
      refine ih s' (ginv_clusterDetachC h hcd (hex d (List.mem_cons_self ..))) ?_
      intro d' hd'
      exact entry_persists (clusterDetach_estep hcd) (fun _ _ h => h) (hex d' (List.mem_cons_of_mem _ hd'))
    · next s' e hcd => exact ginv_clusterDetachC h hcd (hex d (List.mem_cons_self ..))

/-- the requester of an Attach is a client, not the initial actor -/
def attacherOk : Request → Prop
  | .attach c _ _ _ _ => c ≠ initialActorNo
  | _ => True

/-- every honest request whose closer (Detach/Remove) has an entry keeps the generation invariant -/
theorem ginv_stepC (s : Server) (hw : WF s) (h : GInvC s) (req : Request) (hhon : honestReq req = true)
    (hcl : closerHasEntry s req = true) (hcn : attacherOk req) : GInvC (step s req).1 := by
  cases req with
  | activate =>
    have est := step_estep s hw .activate
    refine h.of_eq (fun d => by simp [step, activate, storedLog, Server.findDoc]) ?_
    intro c d
    rcases est c d with e | t | ⟨cd, hc, hcl⟩
    · exact e
    · exact t.elim
    · simp only [step, activate, entryOf, AL.get?_set]
      by_cases hn : s.nextClient = c
      · subst hn
        cases hs : s.clients.get? s.nextClient with
        | none => simp [AL.get?]
        | some x => exact absurd (hw.clients _ _ hs) (Nat.lt_irrefl _)
      · simp [hn]
  | deactivate c order =>
    simp only [step]
    unfold deactivate
    split
    · exact h
    · next info hi =>
      obtain ⟨hcl', _⟩ := findActiveClient_ok hi
      split
      · exact h
      · have h1 := ginv_clusterDetachAllC c s h (openDocs info order) (by
          intro d hd
          have := mem_openDocs hd
          rw [entryOf_findClient hcl']
          simp only [isOpenAt] at this
          cases hg : info.docs.get? d with
          | none => rw [hg] at this; simp at this
          | some cd => rfl)
        split
        · next s' e hx => rw [hx] at h1; exact h1
        · next s' _ hx =>
          rw [hx] at h1
          exact h1.of_eq (fun d => by simp only [storedLog, Server.findDoc, dbDeactivate_docs])
            (fun c' d' => dbDeactivate_entries s' c c' d')
  | attach c key pack dp nogc =>
    simp only [step]
    generalize ha : attach s c key pack dp nogc = res
    obtain ⟨s', out⟩ := res
    rcases attach_inv ha with ⟨e1, _⟩ | ⟨info, hi, hact, haw⟩
    · subst e1; exact h
    · have h1 : GInvC (findOrCreateDoc s key dp).1 :=
        h.of_eq (fun d => (findOrCreateDoc_sameDoc s hw key dp d).1)
          (fun c' d' => entryOf_of_clients_eq (findOrCreateDoc_clients s key dp).1 c' d')
      exact ginv_attachWithC h1 haw (by rw [findOrCreateDoc_findClient]; exact hi) hact (honest_all hhon) hcn
  | pushpull c d pack po nogc =>
    simp only [step]
    generalize ha : pushpullReq s c d pack po nogc = res
    obtain ⟨s', out⟩ := res
    rcases pushpullReq_inv ha with ⟨e1, _⟩ | ⟨info, doc, hi, hact, hst, _, hf⟩
    · subst e1; exact h
    · obtain ⟨x, hx⟩ := finish_inv hf
      obtain ⟨cd, hcd, hs⟩ := statusOf_some hst
      exact ginv_pushPullC h hx (loaded := info) (by simpa using hi) (Or.inl (by simpa using honest_all hhon))
        (cd0 := cd) (cdS := cd) (by simpa using hcd) (by simpa using hcd) rfl rfl (by simpa using hs)
        (by simpa using hact)
  | detach c d pack =>
    simp only [step]
    generalize ha : detach s c d pack = res
    obtain ⟨s', out⟩ := res
    rcases detach_inv ha with ⟨e1, _⟩ | ⟨info, doc, hi, hact, _, _, hf⟩
    · subst e1; exact h
    · obtain ⟨x, hx⟩ := finish_inv hf
      simp only [closerHasEntry, entryOf_findClient hi] at hcl
      obtain ⟨cd, hcd⟩ := Option.isSome_iff_exists.mp hcl
      have hne := detachMode_status_ne' s c d pack
      exact ginv_pushPullC h hx (loaded := info) (by simpa using hi)
        (Or.inl (by simp only [mkFlight_pack, mkFlight_client]; rw [(detachMode_pack s c d pack).2]; exact honest_all hhon))
        (cd0 := cd) (cdS := cd) (by simpa using hcd) (by simpa using hcd) rfl rfl
        (by simpa using fun hx => absurd hx hne) (by simpa using hact)
  | remove c d pack =>
    simp only [step]
    generalize ha : remove s c d pack = res
    obtain ⟨s', out⟩ := res
    rcases remove_inv ha with ⟨e1, _⟩ | ⟨info, doc, hi, hact, _, _, hf⟩
    · subst e1; exact h
    · obtain ⟨x, hx⟩ := finish_inv hf
      simp only [closerHasEntry, entryOf_findClient hi] at hcl
      obtain ⟨cd, hcd⟩ := Option.isSome_iff_exists.mp hcl
      exact ginv_pushPullC h hx (loaded := info) (by simpa using hi) (Or.inl (by simpa using honest_all hhon))
        (cd0 := cd) (cdS := cd) (by simpa using hcd) (by simpa using hcd) rfl rfl (by simp) (by simpa using hact)

theorem staleAt_inv {s : Server} {c : ClientId} {d : DocId} (h : staleAt s c d = true) :
    ∃ info doc cd, s.findClient c = some info ∧ s.findDoc d = some doc ∧ info.docs.get? d = some cd ∧
      epochDiffers info d doc.epoch = true := by
  unfold staleAt at h
  split at h
  · next info doc hi hd =>
    cases hcd : info.docs.get? d with
    | none => simp [epochDiffers, hcd] at h
    | some cd => exact ⟨info, doc, cd, hi, hd, hcd, h⟩
  · simp at h

theorem nopush_of_stale {s : Server} {f : Flight} {doc : Doc} (hd : s.findDoc f.doc = some doc)
    (he : epochDiffers f.info f.doc doc.epoch = true) : ∀ p, pushGuard s (stripped f) = .ok p → p = [] := by
  intro p hp
  rw [pushGuard_stale (g := stripped f) (by simpa using hd) (by simpa using he)] at hp
  injection hp with hp; exact hp.symm

/-- a sync / detach / remove of a stale client, with ANY pack (forged actors included: nothing it
carries is stored), keeps the generation invariant -/
theorem ginv_staleC (s : Server) (h : GInvC s) (req : Request) (hstale : staleReq s req = true) :
    GInvC (step s req).1 := by
  cases req with
  | activate => simp [staleReq] at hstale
  | deactivate c o => simp [staleReq] at hstale
  | attach c k p dp nogc => simp [staleReq] at hstale
  | pushpull c d pack po nogc =>
    obtain ⟨info0, doc0, cd, hi0, hd0, hcd, he⟩ := staleAt_inv (by simpa [staleReq] using hstale)
    simp only [step]
    generalize ha : pushpullReq s c d pack po nogc = res
    obtain ⟨s', out⟩ := res
    rcases pushpullReq_inv ha with ⟨e1, _⟩ | ⟨info, doc, hi, hact, hst, hd, hf⟩
    · subst e1; exact h
    · rw [hi0] at hi; injection hi with hi; subst hi
      rw [hd0] at hd; injection hd with hd; subst hd
      obtain ⟨x, hx⟩ := finish_inv hf
      obtain ⟨cd', hcd', hs⟩ := statusOf_some hst
      rw [hcd] at hcd'; injection hcd' with hcd'; subst hcd'
      exact ginv_pushPullC h hx (loaded := info0) (by simpa using hi0)
        (Or.inr (nopush_of_stale (by simpa using hd0) (by simpa using he)))
        (cd0 := cd) (cdS := cd) (by simpa using hcd) (by simpa using hcd) rfl rfl (by simpa using hs)
        (by simpa using hact)
  | detach c d pack =>
    obtain ⟨info0, doc0, cd, hi0, hd0, hcd, he⟩ := staleAt_inv (by simpa [staleReq] using hstale)
    simp only [step]
    generalize ha : detach s c d pack = res
    obtain ⟨s', out⟩ := res
    rcases detach_inv ha with ⟨e1, _⟩ | ⟨info, doc, hi, hact, _, hd, hf⟩
    · subst e1; exact h
    · rw [hi0] at hi; injection hi with hi; subst hi
      rw [hd0] at hd; injection hd with hd; subst hd
      obtain ⟨x, hx⟩ := finish_inv hf
      have hne := detachMode_status_ne' s c d pack
      exact ginv_pushPullC h hx (loaded := info0) (by simpa using hi0)
        (Or.inr (nopush_of_stale (by simpa using hd0) (by simpa using he)))
        (cd0 := cd) (cdS := cd) (by simpa using hcd) (by simpa using hcd) rfl rfl
        (by simpa using fun hx => absurd hx hne) (by simpa using hact)
  | remove c d pack =>
    obtain ⟨info0, doc0, cd, hi0, hd0, hcd, he⟩ := staleAt_inv (by simpa [staleReq] using hstale)
    simp only [step]
    generalize ha : remove s c d pack = res
    obtain ⟨s', out⟩ := res
    rcases remove_inv ha with ⟨e1, _⟩ | ⟨info, doc, hi, hact, _, hd, hf⟩
    · subst e1; exact h
    · rw [hi0] at hi; injection hi with hi; subst hi
      rw [hd0] at hd; injection hd with hd; subst hd
      obtain ⟨x, hx⟩ := finish_inv hf
      exact ginv_pushPullC h hx (loaded := info0) (by simpa using hi0)
        (Or.inr (nopush_of_stale (by simpa using hd0) (by simpa using he)))
        (cd0 := cd) (cdS := cd) (by simpa using hcd) (by simpa using hcd) rfl rfl (by simp) (by simpa using hact)

/-- a compaction keeps the generation invariant: the new log holds only the compacted change, whose
author is the initial actor (`hactor`), and no stored entry changes -/
theorem ginv_compactC {α : Type} (sem : ContentSem α) (force : Bool) {s : Server} (h : GInvC s) (d : DocId)
    (hactor : ∀ doc, s.findDoc d = some doc → ∀ x ∈ sem.rebuild (sem.fold doc.log), x.actor = initialActorNo) :
    GInvC (compactDoc sem force s d).1 := by
  rcases compactDoc_cases sem force s d with ⟨e', he⟩ | ⟨doc0, h1, _, _, _, he⟩
  · rw [he]; exact h
  · rw [he]
    have hent : ∀ c d', entryOf (s.setDoc d (compactedDoc doc0 (compactRows (sem.rebuild (sem.fold doc0.log))))) c d' = entryOf s c d' := by
      intro c d'; simp [entryOf, Server.setDoc]
    have hlog : ∀ d', storedLog (s.setDoc d (compactedDoc doc0 (compactRows (sem.rebuild (sem.fold doc0.log))))) d' =
        if d = d' then compactRows (sem.rebuild (sem.fold doc0.log)) else storedLog s d' := by
      intro d'
      by_cases hdd : d = d'
      · subst hdd; simp [storedLog, setDoc_findDoc_self, compactedDoc]
      · simp [storedLog, setDoc_findDoc_ne s _ hdd, hdd]
    have hphantom : ∀ r ∈ compactRows (sem.rebuild (sem.fold doc0.log)), r.actor = initialActorNo := by
      intro r hr
      simp only [compactRows, List.mem_map] at hr
      obtain ⟨x, hx, rfl⟩ := hr
      simpa [mkRow] using hactor doc0 h1 x hx
    refine ⟨?_, ?_, ?_⟩
    · intro c d' r hr ha hn
      rw [hlog] at hr
      by_cases hdd : d = d'
      · rw [if_pos hdd] at hr; exact absurd (ha.symm.trans (hphantom r hr)) hn
      · rw [if_neg hdd] at hr; rw [hent]; exact h.g1 c d' r hr ha hn
    · intro c d' cd r hcd ho hr ha hn hg
      rw [hlog] at hr; rw [hent] at hcd
      by_cases hdd : d = d'
      · rw [if_pos hdd] at hr; exact absurd (ha.symm.trans (hphantom r hr)) hn
      · rw [if_neg hdd] at hr; exact h.g2 c d' cd r hcd ho hr ha hn hg
    · intro c d' cd hcd hs
      rw [hent] at hcd; exact h.g3 c d' cd hcd hs

/-- One successful `PushPull`: a returned row that carries the requester's actor was written by an
EARLIER attachment generation than the one making the request (`cdS` = its stored, open entry). -/
theorem no_echo_pushPullC {s s' : Server} {f f' : Flight} (hp : PPOk s f s' f') (hG : GInvC s)
    {doc : Doc} (hfd : s.findDoc f.doc = some doc) (hdp : doc.disablePresence = false)
    {cdS : ClientDoc} (hentS : entryOf s f.client f.doc = some cdS) (hopenS : isOpenSt cdS.status = true)
    (hcs : cdS.clientSeq ≤ (f.info.checkpoint f.doc).clientSeq) (hcn : f.client ≠ initialActorNo) :
    ∀ row ∈ f'.resp.changes, row.actor = f.client → row.gen < cdS.gen := by
  obtain ⟨doc0, p, _, _, _, r, _, hd0, _, _, hguard, hpull, _, _, _, _, _, _, _, _, _, hch', _, _⟩ := hp.ex
  rw [hfd] at hd0; injection hd0 with hd0; subst hd0
  intro row hrow hact
  rw [hch'] at hrow
  rcases pullPackResp_ok hpull with ⟨_, h2, _⟩ | ⟨_, _, h2, _⟩ | hs
  · rw [h2] at hrow; simp at hrow
  · rw [h2] at hrow
    simp only [pullChangeInfos, pushedFlight] at hrow
    have hdp3 : (pushedDoc doc (stripped f) p).disablePresence = false := hdp
    rw [hdp3] at hrow
    obtain ⟨hmem, hnack⟩ := pullFilter_mem _ _ _ _ hrow
    rw [findBetween_eq] at hmem
    have hmem2 := (List.mem_filter.mp hmem).1
    have hstored : storedLog (s.setDoc f.doc (pushedDoc doc (stripped f) p)) (stripped f).doc
        = doc.log ++ pushedRows doc (stripped f) p := by
      simp [storedLog, Server.findDoc, Server.setDoc, AL.get?_set_self, pushedDoc_log]
    rw [hstored, List.mem_append] at hmem2
    -- not acknowledged ⇒ clientSeq beyond the checkpoint after the push
    have hgt : (assignSeqs ((stripped f).info.genOf (stripped f).doc) doc.serverSeq
        ((stripped f).info.checkpoint (stripped f).doc) p).2.2.clientSeq < row.clientSeq := by
      simp only [isOwnAcked, stripped_client, hact, beq_self_eq_true, Bool.true_and, decide_eq_false_iff_not,
        ge_iff_le, Nat.not_le] at hnack
      exact hnack
    rcases hmem2 with hL | hP
    · obtain ⟨cd, hcd, hle⟩ := hG.g1 f.client f.doc row (by rw [storedLog_findDoc hfd]; exact hL) hact hcn
      rw [hentS] at hcd; injection hcd with hcd; subst hcd
      rcases Nat.lt_or_eq_of_le hle with h | h
      · exact h
      · exfalso
        have h2 := hG.g2 f.client f.doc cdS row hentS hopenS (by rw [storedLog_findDoc hfd]; exact hL) hact hcn h
        have hge := assignSeqs_cp_ge ((stripped f).info.genOf (stripped f).doc) doc.serverSeq
          ((stripped f).info.checkpoint (stripped f).doc) p
        simp only [stripped_info, stripped_doc] at hge hgt
        omega
    · exfalso
      have := assignSeqs_cp_covers ((stripped f).info.genOf (stripped f).doc) doc.serverSeq
        ((stripped f).info.checkpoint (stripped f).doc) p row hP
      omega
  · -- snapshot responses carry no change list
    unfold pullPackResp at hpull
    split at hpull
    · next r' hr =>
      injection hpull with hpull; subst hpull
      unfold preparePackCore at hr
      split at hr
      · simp at hr
      · split at hr
        · injection hr with hr; subst hr; simp at hs
        · split at hr
          · simp at hr
          · split at hr
            · simp at hr
            · split at hr
              · injection hr with hr; subst hr; simp at hs
              · injection hr with hr; subst hr; simp at hrow
    · split at hpull
      · injection hpull with hpull; subst hpull; simp at hs
      · simp at hpull

/-- Attach: no row of the attachment generation that starts with this request is returned -/
theorem no_echo_attachC {s s' : Server} (hw : WF s) (hG : GInvC s) {c : ClientId} {key : Nat} {pack : Pack} {dp nogc : Bool}
    {r : Resp} (ha : attach s c key pack dp nogc = (s', .ok r))
    (hdp : ∀ doc', s'.findDoc (findOrCreateDoc s key dp).2 = some doc' → doc'.disablePresence = false)
    (hcn : c ≠ initialActorNo) :
    ∃ e', entryOf s' c (findOrCreateDoc s key dp).2 = some e' ∧
      ∀ row ∈ r.changes, row.actor = c → row.gen < e'.gen := by
  rcases attach_inv ha with ⟨_, e, he, _⟩ | ⟨info, hi, hact, haw⟩
  · simp at he
  · have h1 : GInvC (findOrCreateDoc s key dp).1 :=
      hG.of_eq (fun d => (findOrCreateDoc_sameDoc s hw key dp d).1)
        (fun c' d' => entryOf_of_clients_eq (findOrCreateDoc_clients s key dp).1 c' d')
    have hc1 : (findOrCreateDoc s key dp).1.findClient c = some info := by rw [findOrCreateDoc_findClient]; exact hi
    rcases attachWith_inv haw with ⟨_, _, he⟩ | ⟨doc, hd1, hcase⟩
    · simp at he
    · rcases hcase with ⟨e, _, he⟩ | ⟨s2, info2, hca, hpp⟩
      · simp at he
      · rcases hpp with ⟨f', hpp, hr⟩ | ⟨e, _, he⟩
        rotate_left
        · simp at he
        injection hr with hr
        have h2 := ginv_clientsAttachC h1 hca hcn
        have hp := pushPull_ppok hpp
        obtain ⟨info1, hi2, hst1, _, hcase⟩ := clientsAttach_ok hca
        have hl2 : s2.findClient c = some info1 := by
          rcases hcase with ⟨_, e1, e2⟩ | ⟨_, i, _, _, _, e2, e1⟩
          · rw [e1, e2]; exact hc1
          · rw [e1, e2]; simp [Server.findClient, Server.setClient, AL.get?_set_self]
        obtain ⟨cdS, hcdS, hsS⟩ := statusOf_some hst1
        have hentS : entryOf s2 c (findOrCreateDoc s key dp).2 = some cdS := by rw [entryOf_findClient hl2]; exact hcdS
        have hd2 : s2.findDoc (findOrCreateDoc s key dp).2 = some doc := by
          simp only [Server.findDoc] at hd1 ⊢; rw [clientsAttach_docs' hca]; exact hd1
        have hdpdoc : doc.disablePresence = false := by
          obtain ⟨y, hy, e⟩ := (pushPull_docsExt hpp).old _ doc hd2
          have := hdp y hy
          rw [← e.dp]; exact this
        have hcs0 : cdS.clientSeq = 0 := h2.g3 _ _ _ hentS (by rw [hsS]; simp)
        have hne := no_echo_pushPullC hp h2 (by simpa using hd2) hdpdoc (cdS := cdS) (by simpa using hentS)
          (by simp [isOpenSt, hsS]) (by rw [hcs0]; exact Nat.zero_le _) (by simpa using hcn)
        obtain ⟨cd0, e', hcd0, he', hgen⟩ := ppok_entry_gen hp
        simp only [mkFlight_info, mkFlight_doc, mkFlight_client] at hcd0 he' hne
        rw [hi2, AL.get?_set_self] at hcd0
        injection hcd0 with hcd0
        refine ⟨e', he', ?_⟩
        intro row hrow hact'
        have := hne row (by rw [hr] at hrow; exact hrow) hact'
        rw [hgen, ← hcd0]
        simp only [attachedEntry, genOf_of_get? hcdS]
        exact this

/-- the closing / syncing requests: no echo, in terms of the entry after the request -/
theorem no_echo_flightC {s s' : Server} {c : ClientId} {d : DocId} {info : Client} {doc : Doc} {pack : Pack}
    {po nogc : Bool} {st : ReqStatus} {r : Resp} (hG : GInvC s)
    (hi : s.findClient c = some info) (hd : s.findDoc d = some doc) (hdp : doc.disablePresence = false)
    (hopen : ∃ cd, info.docs.get? d = some cd ∧ isOpenSt cd.status = true)
    (hf : finish (pushPull s (mkFlight c d info pack po st nogc doc.disablePresence)) = (s', .ok r))
    (hcn : c ≠ initialActorNo) :
    ∃ e', entryOf s' c d = some e' ∧ ∀ row ∈ r.changes, row.actor = c → row.gen < e'.gen := by
  obtain ⟨f', hpp, hr⟩ := finish_ok hf
  have hp := pushPull_ppok hpp
  obtain ⟨cd, hcd, hop⟩ := hopen
  have hentS : entryOf s c d = some cd := by rw [entryOf_findClient hi]; exact hcd
  have hne := no_echo_pushPullC hp hG (by simpa using hd) hdp (cdS := cd) (by simpa using hentS) hop
    (by simp [Client.checkpoint, hcd]) (by simpa using hcn)
  obtain ⟨cd0, e', hcd0, he', hgen⟩ := ppok_entry_gen hp
  simp only [mkFlight_info, mkFlight_doc, mkFlight_client] at hcd0 he' hne
  rw [hcd] at hcd0; injection hcd0 with hcd0; subst hcd0
  refine ⟨e', he', ?_⟩
  intro row hrow hact
  rw [hgen]
  exact hne row (by rw [hr] at hrow; exact hrow) hact

/-! ### along schedules with compactions -/

/-- no Attach of the schedule is made under the initial actor's number (it is not a client) -/
def attachersOk : List EvC → Prop
  | [] => True
  | .wb req _ :: rest => attacherOk req ∧ attachersOk rest
  | _ :: rest => attachersOk rest

/-- the rebuilt (compacted) change is authored by the initial actor -/
def SemInitialActor {α : Type} (sem : ContentSem α) : Prop := ∀ a, ∀ x ∈ sem.rebuild a, x.actor = initialActorNo

theorem tagSem_initialActor : SemInitialActor tagSem := by
  intro a x hx
  cases a <;> simp [tagSem, compactChange] at hx
  subst hx; rfl

theorem wbRunC_ginvC {α : Type} (sem : ContentSem α) (hsem : SemInitialActor sem) {s0 : Server} {g0 : Ghost}
    (h0 : DInv s0 g0) (hg0 : GInvC s0) (evs : List EvC) (hok : attachersOk evs)
    {s : Server} {g : Ghost} (h : wbRunC sem s0 g0 evs = some (s, g)) : GInvC s := by
  induction evs generalizing s0 g0 with
  | nil => simp only [wbRunC] at h; injection h with h; injection h with h1 h2; subst h1; exact hg0
  | cons ev rest ih =>
    cases ev with
    | wb req lost =>
      simp only [wbRunC] at h
      simp only [attachersOk] at hok
      split at h
      · next hc =>
        simp only [Bool.and_eq_true] at hc
        have hns : ∀ r, (step s0 req).2 = .ok r → r.snapshot = false := by
          intro r hr
          have := hc.2
          rw [hr] at this
          simpa [noSnap] using this
        exact ih (dinv_step h0 req lost hc.1 hns)
          (ginv_stepC s0 h0.wf hg0 req (wbReq_honest hc.1).1 (wbReq_honest hc.1).2 hok.1) hok.2 h
      · simp at h
    | stale req =>
      simp only [wbRunC] at h
      simp only [attachersOk] at hok
      split at h
      · next hc => exact ih (dinv_ignored h0 req (staleReq_kind hc)) (ginv_staleC s0 hg0 req hc) hok h
      · simp at h
    | compact d force =>
      simp only [wbRunC] at h
      simp only [attachersOk] at hok
      exact ih (dinv_compact sem force h0 d) (ginv_compactC sem force hg0 d (fun doc _ => hsem _)) hok h

/-- never an echo, from any state that satisfies the generation invariant (the body of C04's
`no_echo`, for `GInvC`) -/
theorem no_echo_stateC {s : Server} {g : Ghost} (hw : WF s) (hG : GInvC s)
    (req : Request) (hwb : wbReq s g req = true) (r : Resp) (hout : (step s req).2 = .ok r)
    (c : ClientId) (d : DocId) (hcn : c ≠ initialActorNo)
    (hreq : (∃ p po nogc, req = .pushpull c d p po nogc) ∨ (∃ p, req = .detach c d p) ∨ (∃ p, req = .remove c d p) ∨
            (∃ key p dp nogc, req = .attach c key p dp nogc ∧ d = (findOrCreateDoc s key dp).2))
    (hdp : ∀ doc', (step s req).1.findDoc d = some doc' → doc'.disablePresence = false) :
    ∃ e', entryOf (step s req).1 c d = some e' ∧ ∀ row ∈ r.changes, row.actor = c → row.gen < e'.gen := by
  have ext := step_docsExt s hw req
  have dpOf : ∀ doc, s.findDoc d = some doc → doc.disablePresence = false := by
    intro doc hd
    obtain ⟨y, hy, e⟩ := ext.old d doc hd
    rw [← e.dp]; exact hdp y hy
  rcases hreq with ⟨p, po, nogc, rfl⟩ | ⟨p, rfl⟩ | ⟨p, rfl⟩ | ⟨key, p, dp, nogc, rfl, rfl⟩
  · simp only [step] at hout hdp ⊢
    generalize ha : pushpullReq s c d p po nogc = res at hout hdp
    obtain ⟨s', out⟩ := res
    simp only [] at hout hdp ⊢; subst hout
    rcases pushpullReq_inv ha with ⟨_, e, he⟩ | ⟨info, doc, hi, _, hst, hd, hf⟩
    · simp at he
    · obtain ⟨cd, hcd, hs⟩ := statusOf_some hst
      exact no_echo_flightC hG hi hd (dpOf doc hd) ⟨cd, hcd, by simp [isOpenSt, hs]⟩ hf hcn
  · simp only [step] at hout hdp ⊢
    generalize ha : detach s c d p = res at hout hdp
    obtain ⟨s', out⟩ := res
    simp only [] at hout hdp ⊢; subst hout
    simp only [wbReq, Bool.and_eq_true] at hwb
    rcases detach_inv ha with ⟨_, e, he⟩ | ⟨info, doc, hi, _, _, hd, hf⟩
    · simp at he
    · have hh := hwb.1.1
      simp only [holds, entryOf_findClient hi] at hh
      cases hcd : info.docs.get? d with
      | none => rw [hcd] at hh; simp at hh
      | some cd => rw [hcd] at hh; exact no_echo_flightC hG hi hd (dpOf doc hd) ⟨cd, hcd, hh⟩ hf hcn
  · simp only [step] at hout hdp ⊢
    generalize ha : remove s c d p = res at hout hdp
    obtain ⟨s', out⟩ := res
    simp only [] at hout hdp ⊢; subst hout
    simp only [wbReq, Bool.and_eq_true] at hwb
    rcases remove_inv ha with ⟨_, e, he⟩ | ⟨info, doc, hi, _, _, hd, hf⟩
    · simp at he
    · have hh := hwb.1.1
      simp only [holds, entryOf_findClient hi] at hh
      cases hcd : info.docs.get? d with
      | none => rw [hcd] at hh; simp at hh
      | some cd => rw [hcd] at hh; exact no_echo_flightC hG hi hd (dpOf doc hd) ⟨cd, hcd, hh⟩ hf hcn
  · simp only [step] at hout hdp ⊢
    generalize ha : attach s c key p dp nogc = res at hout hdp
    obtain ⟨s', out⟩ := res
    simp only [] at hout hdp ⊢; subst hout
    exact no_echo_attachC hw hG ha hdp hcn

end Yorkie.Server
