/-
C18, text level, part A2: a string printed by strconv.Quote, and a raw object key, are
inert for the pre-pass exactly when `prepassHits` is false (no `)`, no wrapper-opening
text, no trailing `BinData(` / `Date(`).  Core Lean only.
-/
import YorkieModel.Lemmas.YsonPrepass
namespace Yorkie.Yson

/-! ### occurrences as infixes -/

theorem containsSub_iff {p : Str} : ∀ {s : Str}, containsSub p s = true ↔ p <:+: s
  | [] => by
    simp only [containsSub, List.isEmpty_iff, List.infix_nil]
  | c :: r => by
    simp only [containsSub, Bool.or_eq_true, isPrefixOf_iff, containsSub_iff (s := r), List.infix_cons_iff]

theorem containsSub_false_iff {p s : Str} : containsSub p s = false ↔ ¬ p <:+: s := by
  rw [← containsSub_iff]; simp

theorem endsWith_iff {suf s : Str} : endsWith suf s = true ↔ suf <:+ s := by
  simp only [endsWith, isPrefixOf_iff, List.reverse_prefix]

/-- first characters of the patterns -/
def startChar (c : Nat) : Bool := c == 68 || c == 84 || c == 67 || c == 73 || c == 76 || c == 66 || c == 41

def headStart : Str → Bool
  | h :: _ => startChar h
  | [] => false

theorem allPats_headStart : allPats.all headStart = true := by decide
theorem allPats_no92 : allPats.all (fun p => p.all (· != 92)) = true := by decide
theorem allPats_no58 : allPats.all (fun p => p.all (· != 58)) = true := by decide

theorem isPrefixOf_cons_ne {p : Str} {x : Nat} {Y : Str} (hp : headStart p = true) (hx : startChar x = false) :
    ¬ p <+: x :: Y := by
  cases p with
  | nil => simp [headStart] at hp
  | cons h p' =>
    intro hpre
    have : h = x := by
      obtain ⟨t, ht⟩ := hpre
      simp only [List.cons_append, List.cons.injEq] at ht
      exact ht.1
    subst this
    simp only [headStart] at hp
    simp [hp] at hx

/-- an occurrence cannot start on a character that starts no pattern -/
theorem infix_skip {p : Str} (hp : headStart p = true) : ∀ {u Y : Str}, (∀ x ∈ u, startChar x = false) →
    p <:+: u ++ Y → p <:+: Y
  | [], _, _, h => h
  | x :: u, Y, hu, h => by
    simp only [List.cons_append, List.infix_cons_iff] at h
    rcases h with h | h
    · exact absurd h (isPrefixOf_cons_ne hp (hu x (List.mem_cons_self)))
    · exact infix_skip hp (fun y hy => hu y (List.mem_cons_of_mem _ hy)) h

/-! ### strconv.Quote: every character is written as itself or as `\` + characters that start no pattern -/

theorem startChar_hexDigit : ∀ n, n < 16 → startChar (hexDigit n) = false := by decide

theorem quoteChar_shape (c : Nat) :
    (quoteChar c = [c] ∧ c ≠ 34 ∧ c ≠ 92) ∨ (∃ t, quoteChar c = 92 :: t ∧ ∀ x ∈ t, startChar x = false) := by
  unfold quoteChar
  by_cases h34 : c = 34
  · subst h34; right; exact ⟨[34], by simp, by decide⟩
  by_cases h92 : c = 92
  · subst h92; right; exact ⟨[92], by simp, by decide⟩
  simp only [beq_iff_eq, h34, h92, if_false]
  by_cases hp : isPrint c = true
  · left; simp [hp, h34, h92]
  simp only [hp, Bool.false_eq_true, if_false]
  right
  have hx : ∀ n, n < 16 → startChar (hexDigit n) = false := startChar_hexDigit
  split
  · exact ⟨_, rfl, by decide⟩
  split
  · exact ⟨_, rfl, by decide⟩
  split
  · exact ⟨_, rfl, by decide⟩
  split
  · exact ⟨_, rfl, by decide⟩
  split
  · exact ⟨_, rfl, by decide⟩
  split
  · exact ⟨_, rfl, by decide⟩
  split
  · exact ⟨_, rfl, by decide⟩
  split
  · rename_i hc
    refine ⟨_, rfl, ?_⟩
    have hc' : c < 32 ∨ c = 127 := by simpa using hc
    intro x hxm
    simp only [List.mem_cons, List.not_mem_nil, or_false] at hxm
    rcases hxm with rfl | rfl | rfl
    · decide
    · exact hx _ (by omega)
    · exact hx _ (by omega)
  split
  · rename_i hc
    refine ⟨_, rfl, ?_⟩
    intro x hxm
    simp only [List.mem_cons, List.not_mem_nil, or_false] at hxm
    rcases hxm with rfl | rfl | rfl | rfl | rfl
    · decide
    · exact hx _ (by omega)
    · exact hx _ (by omega)
    · exact hx _ (by omega)
    · exact hx _ (by omega)
  · refine ⟨_, rfl, ?_⟩
    intro x hxm
    simp only [List.mem_cons, List.not_mem_nil, or_false] at hxm
    rcases hxm with rfl | rfl | rfl | rfl | rfl | rfl | rfl | rfl | rfl
    · decide
    all_goals exact hx _ (by omega)

/-- a text without backslash at the head of a quoted body is at the head of the string
itself (and then has no `"`), or is the whole string plus the closing quote -/
theorem prefix_quoteBody : ∀ (s q : Str), (∀ x ∈ q, x ≠ 92) → q <+: quoteBody s ++ [34] →
    (q <+: s ∧ ∀ x ∈ q, x ≠ 34) ∨ q = s ++ [34]
  | [], q, _, h => by
    simp only [quoteBody, List.nil_append] at h
    rcases List.prefix_cons_iff.mp h with rfl | ⟨t, rfl, ht⟩
    · left; simp
    · have : t = [] := List.prefix_nil.mp ht
      subst this; right; rfl
  | c :: r, [], _, _ => by left; simp
  | c :: r, d :: q, hq, h => by
    simp only [quoteBody, List.append_assoc] at h
    rcases quoteChar_shape c with ⟨hc, h34, _⟩ | ⟨t, hc, _⟩
    · rw [hc] at h
      simp only [List.singleton_append, List.cons_prefix_cons] at h
      obtain ⟨rfl, h'⟩ := h
      rcases prefix_quoteBody r q (fun x hx => hq x (List.mem_cons_of_mem _ hx)) h' with ⟨h1, h2⟩ | h1
      · left
        refine ⟨by simpa [List.cons_prefix_cons] using h1, ?_⟩
        intro x hx
        rcases List.mem_cons.mp hx with rfl | hx
        · exact h34
        · exact h2 x hx
      · right; simp [h1]
    · rw [hc] at h
      simp only [List.cons_append, List.cons_prefix_cons] at h
      exact absurd h.1 (hq d (List.mem_cons_self))

/-- an occurrence of a pattern inside `quoteBody s ++ "` is an occurrence inside `s`
(and then the pattern has no quote), or ends with the closing quote after a suffix of `s` -/
theorem infix_quoteBody {p : Str} (hp : headStart p = true) (h92 : ∀ x ∈ p, x ≠ 92) :
    ∀ (s : Str), p <:+: quoteBody s ++ [34] →
      (p <:+: s ∧ ∀ x ∈ p, x ≠ 34) ∨ (∃ u, u <:+ s ∧ p = u ++ [34])
  | [], h => by
    simp only [quoteBody, List.nil_append] at h
    have := infix_skip (u := [34]) (Y := []) hp (by decide) (by simpa using h)
    cases p with
    | nil => simp [headStart] at hp
    | cons a p' => simp at this
  | c :: r, h => by
    simp only [quoteBody, List.append_assoc] at h
    rcases quoteChar_shape c with ⟨hc, _, _⟩ | ⟨t, hc, ht⟩
    · rw [hc] at h
      simp only [List.singleton_append, List.infix_cons_iff] at h
      rcases h with h | h
      · have h' : p <+: quoteBody (c :: r) ++ [34] := by
          simpa [quoteBody, hc] using h
        rcases prefix_quoteBody (c :: r) p h92 h' with ⟨h1, h2⟩ | h1
        · exact Or.inl ⟨h1.isInfix, h2⟩
        · exact Or.inr ⟨c :: r, List.suffix_refl _, h1⟩
      · rcases infix_quoteBody hp h92 r h with ⟨h1, h2⟩ | ⟨u, hu, hpu⟩
        · exact Or.inl ⟨List.infix_cons h1, h2⟩
        · exact Or.inr ⟨u, hu.trans (List.suffix_cons c r), hpu⟩
    · rw [hc] at h
      have h' : p <:+: (92 :: t) ++ (quoteBody r ++ [34]) := by simpa using h
      have hskip := infix_skip hp (u := 92 :: t) (by
        intro x hx
        rcases List.mem_cons.mp hx with rfl | hx
        · decide
        · exact ht x hx) h'
      rcases infix_quoteBody hp h92 r hskip with ⟨h1, h2⟩ | ⟨u, hu, hpu⟩
      · exact Or.inl ⟨List.infix_cons h1, h2⟩
      · exact Or.inr ⟨u, hu.trans (List.suffix_cons c r), hpu⟩

/-! ### what `prepassHits s = false` excludes -/

theorem endsTerm_append_singleton {c : Nat} (hc : patChar c = false) : ∀ (x : Str), endsTerm (x ++ [c]) = true
  | [] => by simp [endsTerm, hc]
  | [a] => by simp [endsTerm, hc]
  | a :: b :: r => by
    have := endsTerm_append_singleton hc (b :: r)
    simpa [endsTerm] using this

theorem snoc_eq {p u : Str} {c : Nat} (h : p = u ++ [c]) : p.getLast? = some c ∧ p.dropLast = u := by
  subst h; simp

/-- the two ways a pattern can occur in a quoted string or key are both excluded -/
theorem pattern_absent {s : Str} (h : prepassHits s = false) {p : Str} (hp : p ∈ allPats) :
    ¬ ((p <:+: s ∧ ∀ x ∈ p, x ≠ 34) ∨ (∃ u, u <:+ s ∧ p = u ++ [34])) := by
  simp only [prepassHits, Bool.or_eq_false_iff, containsSub_false_iff] at h
  obtain ⟨⟨⟨⟨⟨⟨⟨h41, hC⟩, hTx⟩, hTr⟩, hI⟩, hL⟩, hB⟩, hD⟩ := h
  have h41' : (41 : Nat) ∉ s := by
    intro hm; simp at h41; exact h41 hm
  have hB' : ¬ cp%"BinData(" <:+ s := fun hh => by simp [endsWith_iff.mpr hh] at hB
  have hD' : ¬ cp%"Date(" <:+ s := fun hh => by simp [endsWith_iff.mpr hh] at hD
  have hInt : cp%"Int(" <:+: d17 := containsSub_iff.mp (by decide)
  simp only [allPats, replacements, List.map_cons, List.map_nil, List.mem_cons, List.not_mem_nil, or_false] at hp
  rintro (⟨hin, h34⟩ | ⟨u, hu, hpu⟩)
  · rcases hp with rfl | rfl | rfl | rfl | rfl | rfl | rfl | rfl | rfl | rfl | rfl
    · exact hI (hInt.trans hin)
    · exact h41' (hin.subset (by decide))
    · exact h41' (hin.subset (by decide))
    · exact hC hin
    · exact hTx hin
    · exact hTr hin
    · exact hI hin
    · exact hL hin
    · exact h34 34 (by decide) rfl
    · exact h34 34 (by decide) rfl
    · exact h41' (hin.subset (by decide))
  · obtain ⟨hl, hd⟩ := snoc_eq hpu
    rcases hp with rfl | rfl | rfl | rfl | rfl | rfl | rfl | rfl | rfl | rfl | rfl
    · simp [d17] at hl
    · simp at hl
    · simp at hl
    · simp at hl
    · simp at hl
    · simp at hl
    · simp at hl
    · simp at hl
    · exact hB' (by rw [← hd] at hu; simpa using hu)
    · exact hD' (by rw [← hd] at hu; simpa using hu)
    · simp at hl

/-- strconv.Quote of a string without pre-pass hits is inert -/
theorem quote_inert {s : Str} (h : prepassHits s = false) : inertAll (quote s) = true := by
  rw [inertAll_iff]
  intro p hp
  have hhead := (List.all_eq_true.mp allPats_headStart) p hp
  have h92 : ∀ x ∈ p, x ≠ 92 := by
    have := (List.all_eq_true.mp allPats_no92) p hp
    intro x hx; simpa using (List.all_eq_true.mp this) x hx
  have hdl := (List.all_eq_true.mp allPats_dropLast) p hp
  have hterm : endsTerm (quote s) = true := by
    have := endsTerm_append_singleton (c := 34) (by decide) (34 :: quoteBody s)
    simpa [quote] using this
  refine ⟨endSafe_of_endsTerm hdl hterm, ?_⟩
  rw [containsSub_false_iff]
  intro hin
  simp only [quote, List.infix_cons_iff] at hin
  rcases hin with hin | hin
  · exact isPrefixOf_cons_ne hhead (by decide) hin
  · exact pattern_absent h hp (infix_quoteBody hhead h92 s hin)

/-! ### raw keys -/

/-- an occurrence inside `k ++ ":` – `k` without quote – lies inside `k` or ends with the
closing quote after a suffix of `k` -/
theorem infix_key {p : Str} (hp : headStart p = true) (h58 : ∀ x ∈ p, x ≠ 58) :
    ∀ (k : Str), (∀ x ∈ k, x ≠ 34) → p <:+: k ++ [34, 58] →
      (p <:+: k ∧ ∀ x ∈ p, x ≠ 34) ∨ (∃ u, u <:+ k ∧ p = u ++ [34])
  | [], _, h => by
    have := infix_skip (u := [34, 58]) (Y := []) hp (by decide) (by simpa using h)
    cases p with
    | nil => simp [headStart] at hp
    | cons a p' => simp at this
  | c :: r, hk, h => by
    simp only [List.cons_append, List.infix_cons_iff] at h
    rcases h with h | h
    · -- the occurrence starts at c
      rcases List.prefix_or_prefix_of_prefix h (List.prefix_append (c :: r) [34, 58]) with h1 | h1
      · left
        refine ⟨h1.isInfix, ?_⟩
        intro x hx; exact hk x (h1.subset hx)
      · obtain ⟨t, ht⟩ := h1
        obtain ⟨t', ht'⟩ := h
        -- p = (c :: r) ++ t and p ++ t' = (c :: r) ++ [34, 58]
        have : t ++ t' = [34, 58] := by
          have h2 : (c :: r) ++ (t ++ t') = (c :: r) ++ [34, 58] := by
            rw [← List.append_assoc, ht]; simpa using ht'
          exact List.append_cancel_left h2
        match t, this with
        | [], _ =>
          left
          simp only [List.append_nil] at ht
          subst ht
          exact ⟨List.infix_refl _, hk⟩
        | [a], h3 =>
          have : a = 34 := by simp at h3; exact h3.1
          subst this
          right; exact ⟨c :: r, List.suffix_refl _, ht.symm⟩
        | a :: b :: t2, h3 =>
          have hb : b = 58 := by simp at h3; exact h3.2.1
          subst hb
          exact absurd rfl (h58 58 (by rw [← ht]; simp))
    · rcases infix_key hp h58 r (fun x hx => hk x (List.mem_cons_of_mem _ hx)) h with ⟨h1, h2⟩ | ⟨u, hu, hpu⟩
      · exact Or.inl ⟨List.infix_cons h1, h2⟩
      · exact Or.inr ⟨u, hu.trans (List.suffix_cons c r), hpu⟩

/-- the key piece `"k":` -/
def keyPiece (k : Str) : Str := [34] ++ k ++ [34, 58]

theorem key_inert {k : Str} (h : prepassHits k = false) (hq : ∀ x ∈ k, x ≠ 34) : inertAll (keyPiece k) = true := by
  rw [inertAll_iff]
  intro p hp
  have hhead := (List.all_eq_true.mp allPats_headStart) p hp
  have h58 : ∀ x ∈ p, x ≠ 58 := by
    have := (List.all_eq_true.mp allPats_no58) p hp
    intro x hx; simpa using (List.all_eq_true.mp this) x hx
  have hdl := (List.all_eq_true.mp allPats_dropLast) p hp
  have hterm : endsTerm (keyPiece k) = true := by
    have := endsTerm_append_singleton (c := 58) (by decide) ([34] ++ k ++ [34])
    simpa [keyPiece] using this
  refine ⟨endSafe_of_endsTerm hdl hterm, ?_⟩
  rw [containsSub_false_iff]
  intro hin
  simp only [keyPiece, List.cons_append, List.infix_cons_iff] at hin
  rcases hin with hin | hin
  · exact isPrefixOf_cons_ne hhead (by decide) hin
  · exact pattern_absent h hp (infix_key hhead h58 k hq hin)

end Yorkie.Yson
