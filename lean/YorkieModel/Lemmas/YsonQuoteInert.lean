/-
C18, text level, part A2 (pre-pass of /repo commit 0cf3884e): string literals – whatever
strconv.Quote printed, raw keys without quote or backslash, base64 and date payloads –
are copied verbatim, and the text between two literals is rewritten on its own.
Core Lean only.
-/
import YorkieModel.Lemmas.YsonPrepass
namespace Yorkie.Yson

/-! ### the scanner outside string literals -/

/-- the part of the text up to the next quote -/
def outPrefix : Str → Str
  | [] => []
  | c :: r => if c == 34 then [] else c :: outPrefix r

/-- what the scanner emits from the next quote on -/
def afterOut : Str → Str
  | [] => []
  | c :: r => if c == 34 then 34 :: ppIn r else afterOut r

theorem ppOut_eq : ∀ (t p : Str), ppOut p t = preprocessTokens (p ++ outPrefix t) ++ afterOut t
  | [], p => by simp [ppOut, outPrefix, afterOut]
  | c :: r, p => by
    simp only [ppOut, outPrefix, afterOut]
    split
    · simp
    · rw [ppOut_eq r (p ++ [c])]; simp

/-- flushing a pending piece early is harmless when `preprocessTokens` distributes after it -/
theorem ppOut_flush {seg : Str} (hd : Dist seg) (t : Str) :
    ppOut seg t = preprocessTokens seg ++ ppOut [] t := by
  rw [ppOut_eq t seg, ppOut_eq t [], hd]
  simp

theorem ppOut_noquote : ∀ (o seg rest : Str), (∀ c ∈ o, c ≠ 34) → ppOut seg (o ++ rest) = ppOut (seg ++ o) rest
  | [], seg, rest, _ => by simp
  | c :: o, seg, rest, h => by
    have hc : (c == 34) = false := by simpa using h c (List.mem_cons_self)
    simp only [List.cons_append, ppOut, hc, Bool.false_eq_true, if_false]
    rw [ppOut_noquote o (seg ++ [c]) rest (fun x hx => h x (List.mem_cons_of_mem _ hx))]
    simp

/-! ### complete literal bodies -/

/-- the text after an opening quote up to (not including) the closing one: no bare quote,
every backslash followed by the character it escapes -/
def litBody : Str → Bool
  | [] => true
  | [c] => c != 34 && c != 92
  | c :: d :: r => if c == 34 then false else if c == 92 then litBody r else litBody (d :: r)

theorem ppIn_lit : ∀ (body rest : Str), litBody body = true → ppIn (body ++ 34 :: rest) = body ++ 34 :: ppOut [] rest
  | [], rest, _ => by simp [ppIn]
  | [c], rest, h => by
    simp only [litBody, Bool.and_eq_true, bne_iff_ne, ne_eq] at h
    simp [ppIn, h.1, h.2]
  | c :: d :: r, rest, h => by
    simp only [litBody] at h
    by_cases h34 : (c == 34) = true
    · simp [h34] at h
    · by_cases h92 : (c == 92) = true
      · simp only [h34, h92, Bool.false_eq_true, if_false, if_true] at h
        have hc : c = 92 := by simpa using h92
        subst hc
        have e : ppIn (92 :: d :: r ++ 34 :: rest) = 92 :: d :: ppIn (r ++ 34 :: rest) := by
          simp only [List.cons_append]
          rw [ppIn]
          simp [ppEsc]
        rw [e, ppIn_lit r rest h]
        simp
      · simp only [h34, h92, Bool.false_eq_true, if_false] at h
        have e : ppIn (c :: d :: r ++ 34 :: rest) = c :: ppIn (d :: r ++ 34 :: rest) := by
          simp only [List.cons_append]
          rw [ppIn]
          simp [h34, h92]
        rw [e, ppIn_lit (d :: r) rest h]
        simp

theorem litBody_of_clean : ∀ {s : Str}, (∀ c ∈ s, c ≠ 34 ∧ c ≠ 92) → litBody s = true
  | [], _ => rfl
  | [c], h => by
    have := h c (List.mem_cons_self)
    simp [litBody, this.1, this.2]
  | c :: d :: r, h => by
    have hc := h c (List.mem_cons_self)
    simp only [litBody, beq_iff_eq, hc.1, hc.2, if_false]
    exact litBody_of_clean (fun x hx => h x (List.mem_cons_of_mem _ hx))

theorem litBody_append : ∀ {a b : Str}, litBody a = true → litBody b = true → litBody (a ++ b) = true
  | [], _, _, hb => by simpa using hb
  | [c], b, ha, hb => by
    simp only [litBody, Bool.and_eq_true, bne_iff_ne, ne_eq] at ha
    cases b with
    | nil => simp [litBody, ha.1, ha.2]
    | cons d r => simp [litBody, ha.1, ha.2, hb]
  | c :: d :: r, b, ha, hb => by
    simp only [litBody] at ha
    simp only [List.cons_append, litBody]
    by_cases h34 : (c == 34) = true
    · simp [h34] at ha
    · by_cases h92 : (c == 92) = true
      · simp only [h34, h92, Bool.false_eq_true, if_false, if_true] at ha ⊢
        exact litBody_append ha hb
      · simp only [h34, h92, Bool.false_eq_true, if_false] at ha ⊢
        have := litBody_append (a := d :: r) ha hb
        simpa using this

theorem litBody_esc {e : Nat} {t : Str} (ht : litBody t = true) : litBody (92 :: e :: t) = true := by
  simp [litBody, ht]

theorem hexDigit_clean (n : Nat) : hexDigit n ≠ 34 ∧ hexDigit n ≠ 92 := by
  simp only [hexDigit]; split <;> omega

/-- whatever quoteJSON writes for one character is a complete piece of a literal body -/
theorem litBody_quoteChar (c : Nat) : litBody (quoteChar c) = true := by
  have hx := hexDigit_clean
  by_cases h34 : c = 34
  · subst h34; decide
  by_cases h92 : c = 92
  · subst h92; decide
  by_cases hp : isPrint c = true
  · have hq : quoteChar c = [c] := by simp [quoteChar, h34, h92, hp]
    rw [hq]
    show (c != 34 && c != 92) = true
    simp [h34, h92]
  have hp' : isPrint c = false := by simpa using hp
  by_cases h8 : c = 8
  · subst h8; decide
  by_cases h12 : c = 12
  · subst h12; decide
  by_cases h10 : c = 10
  · subst h10; decide
  by_cases h13 : c = 13
  · subst h13; decide
  by_cases h9 : c = 9
  · subst h9; decide
  by_cases hbig : c < 0x10000
  · have hq : quoteChar c = [92, 117, hexDigit (c / 4096), hexDigit (c / 256 % 16), hexDigit (c / 16 % 16),
        hexDigit (c % 16)] := by
      simp [quoteChar, h34, h92, hp', h8, h12, h10, h13, h9, hbig]
    rw [hq]
    exact litBody_esc (litBody_of_clean (by
      intro x hxm
      simp only [List.mem_cons, List.not_mem_nil, or_false] at hxm
      rcases hxm with rfl | rfl | rfl | rfl <;> exact hx _))
  · have hq : ∃ a1 a2 a3 a4 b1 b2 b3 b4, quoteChar c
        = [92, 117, hexDigit a1, hexDigit a2, hexDigit a3, hexDigit a4, 92, 117, hexDigit b1, hexDigit b2,
           hexDigit b3, hexDigit b4] := by
      refine ⟨(0xD800 + (c - 0x10000) / 1024) / 4096, (0xD800 + (c - 0x10000) / 1024) / 256 % 16,
        (0xD800 + (c - 0x10000) / 1024) / 16 % 16, (0xD800 + (c - 0x10000) / 1024) % 16,
        (0xDC00 + (c - 0x10000) % 1024) / 4096, (0xDC00 + (c - 0x10000) % 1024) / 256 % 16,
        (0xDC00 + (c - 0x10000) % 1024) / 16 % 16, (0xDC00 + (c - 0x10000) % 1024) % 16, ?_⟩
      simp [quoteChar, h34, h92, hp', h8, h12, h10, h13, h9, hbig]
    obtain ⟨a1, a2, a3, a4, b1, b2, b3, b4, hq⟩ := hq
    rw [hq]
    have h2 : litBody [92, 117, hexDigit b1, hexDigit b2, hexDigit b3, hexDigit b4] = true :=
      litBody_esc (litBody_of_clean (by
        intro x hxm
        simp only [List.mem_cons, List.not_mem_nil, or_false] at hxm
        rcases hxm with rfl | rfl | rfl | rfl <;> exact hx _))
    have h1 : litBody [92, 117, hexDigit a1, hexDigit a2, hexDigit a3, hexDigit a4] = true :=
      litBody_esc (litBody_of_clean (by
        intro x hxm
        simp only [List.mem_cons, List.not_mem_nil, or_false] at hxm
        rcases hxm with rfl | rfl | rfl | rfl <;> exact hx _))
    exact litBody_append h1 h2

/-- every string printed by quoteJSON is a complete literal – no condition on the string -/
theorem litBody_quoteBody : ∀ (s : Str), litBody (quoteBody s) = true
  | [] => rfl
  | c :: r => by
    simp only [quoteBody]
    exact litBody_append (litBody_quoteChar c) (litBody_quoteBody r)

/-! ### pieces of the marshalled text and what the pre-pass makes of them -/

/-- starting outside a literal with nothing pending, the pre-pass turns `a` into `a'` and is
again outside a literal with nothing pending -/
def Good (a a' : Str) : Prop := ∀ rest, ppOut [] (a ++ rest) = a' ++ ppOut [] rest

theorem Good.nil : Good [] [] := fun _ => rfl

theorem Good.append {a a' b b' : Str} (ha : Good a a') (hb : Good b b') : Good (a ++ b) (a' ++ b') := by
  intro rest
  rw [List.append_assoc, ha, hb, List.append_assoc]

/-- a piece between literals -/
theorem Good.outside {o o' : Str} (hq : ∀ c ∈ o, c ≠ 34) (hd : Dist o) (he : preprocessTokens o = o') :
    Good o o' := by
  intro rest
  rw [ppOut_noquote o [] rest hq, List.nil_append, ppOut_flush hd, he]

/-- a string literal -/
theorem Good.strLit {body : Str} (h : litBody body = true) : Good (34 :: (body ++ [34])) (34 :: (body ++ [34])) := by
  intro rest
  have e : 34 :: (body ++ [34]) ++ rest = 34 :: (body ++ 34 :: rest) := by simp
  rw [e]
  simp only [ppOut, beq_self_eq_true, if_true]
  rw [ppIn_lit body rest h]
  simp [preprocessTokens, dedupHead, applyReplacements, replacements, replaceAll, replaceAllAux]

theorem Good.quote (s : Str) : Good (quote s) (quote s) := Good.strLit (litBody_quoteBody s)

theorem Good.eq {a a' : Str} (h : Good a a') : preprocess a = a' := by
  have := h []
  simpa [preprocess, ppOut, preprocessTokens, dedupHead, applyReplacements, replacements, replaceAll,
    replaceAllAux] using this

end Yorkie.Yson
