/-
Text convergence, part 8: what the per-node functions of the block model (`removeNode`, `styleNode`,
`RHT.Set`/`RHT.Remove`, `newNode`) are on cells.
Core Lean only.
-/
import YorkieModel.Lemmas.TextConvRange
import YorkieModel.Lemmas.TextStyle
set_option linter.unusedSimpArgs false
namespace Yorkie.TextConv
open Yorkie Yorkie.Text

/-! ### attribute registers -/

theorem normAttrs_attrPut (as : List AttrNode) (n : AttrNode) :
    normAttrs (attrPut as n) = fun x => if x = n.key then some (normAttr n) else normAttrs as x := by
  funext x
  unfold normAttrs
  by_cases h : x = n.key
  · subst h; rw [attrGet_attrPut_self]; simp
  · rw [attrGet_attrPut_other as n h]; simp [h]

theorem norm_rhtSet (as : List AttrNode) (k v : String) (t : Ticket) :
    normAttrs (rhtSet as k v t) = lww (normAttrs as) k ⟨v, t, false⟩ := by
  unfold rhtSet lww
  have hk : normAttrs as k = (attrGet as k).map normAttr := rfl
  cases hg : attrGet as k with
  | none =>
    simp only [hk, hg, Option.map_none]
    rw [normAttrs_attrPut]; rfl
  | some node =>
    simp only [hk, hg, Option.map_some]
    have : (normAttr node).at_ = node.updatedAt := rfl
    rw [this]
    split
    · rw [normAttrs_attrPut]; rfl
    · rfl

theorem norm_rhtRemove (as : List AttrNode) (k : String) (t : Ticket) :
    normAttrs (rhtRemove as k t) = lww (normAttrs as) k ⟨"", t, true⟩ := by
  unfold rhtRemove lww
  have hk : normAttrs as k = (attrGet as k).map normAttr := rfl
  cases hg : attrGet as k with
  | none =>
    simp only [hk, hg, Option.map_none]
    rw [normAttrs_attrPut]; rfl
  | some node =>
    simp only [hk, hg, Option.map_some]
    have : (normAttr node).at_ = node.updatedAt := rfl
    rw [this]
    split
    · rw [normAttrs_attrPut]; rfl
    · rfl

theorem norm_rhtSetAll (kvs : List (String × String)) (t : Ticket) (as : List AttrNode) :
    normAttrs (rhtSetAll as kvs t) = applyPuts (setPuts kvs t) (normAttrs as) := by
  unfold rhtSetAll applyPuts setPuts
  induction kvs generalizing as with
  | nil => rfl
  | cons kv r ih =>
    simp only [List.foldl_cons, List.map_cons]
    rw [ih, norm_rhtSet]

theorem norm_rhtRemoveAll (ks : List String) (t : Ticket) (as : List AttrNode) :
    normAttrs (rhtRemoveAll as ks t) = applyPuts (remPuts ks t) (normAttrs as) := by
  unfold rhtRemoveAll applyPuts remPuts
  induction ks generalizing as with
  | nil => rfl
  | cons k r ih =>
    simp only [List.foldl_cons, List.map_cons]
    rw [ih, norm_rhtRemove]

theorem normAttrs_nil : normAttrs [] = AAttrs.empty := rfl

theorem applyPuts_append (ps qs : Puts) (as : AAttrs) :
    applyPuts (ps ++ qs) as = applyPuts qs (applyPuts ps as) := by
  unfold applyPuts; rw [List.foldl_append]

/-! ### uniform maps over the cells of one block -/

theorem mkCells_map {t : Ticket} {rm rm' : Bool} {as as' : AAttrs} {f : Cell → Cell}
    (hf : ∀ c : Cell, c.id.1 = t → c.removed = rm → c.attrs = as →
      f c = { c with removed := rm', attrs := as' }) (off : Nat) (b : Bool) (u : List Nat) :
    (mkCells t rm as off b u).map f = mkCells t rm' as' off b u := by
  induction u generalizing off b with
  | nil => rfl
  | cons x r ih =>
    simp only [mkCells, List.map_cons, ih]
    rw [hf _ rfl rfl rfl]

theorem mkCells_map_id {t : Ticket} {rm : Bool} {as : AAttrs} {f : Cell → Cell}
    (hf : ∀ c : Cell, c.id.1 = t → c.removed = rm → c.attrs = as → f c = c) (off : Nat) (b : Bool)
    (u : List Nat) : (mkCells t rm as off b u).map f = mkCells t rm as off b u :=
  mkCells_map (fun c h1 h2 h3 => by rw [hf c h1 h2 h3]; cases c; simp_all) off b u

/-! ### `removeNode` -/

theorem absNode_removeNode (ts : Ticket) (vv : VV) (n : TNode) :
    absNode (removeNode ts (some vv) n) = (absNode n).map (delCell vv) := by
  unfold removeNode
  by_cases hk : known (some vv) n.id.1 = true
  · have hdel : ∀ c : Cell, c.id.1 = n.id.1 → delCell vv c = { c with removed := true, attrs := AAttrs.empty } := by
      intro c hc; unfold delCell knownB; rw [hc, hk]; rfl
    have target : (absNode n).map (delCell vv) = mkCells n.id.1 true AAttrs.empty n.id.2 true n.units :=
      mkCells_map (fun c h1 _ _ => hdel c h1) _ _ _
    rw [target]
    simp only [hk, Bool.not_true, Bool.false_eq_true, if_false]
    cases hr : n.removedAt with
    | none => simp [absNode, nodeAttrs]
    | some r =>
      simp only
      split <;> simp [absNode, nodeAttrs, hr]
  · have hk' : known (some vv) n.id.1 = false := by simpa using hk
    simp only [hk', Bool.not_false, if_true]
    symm
    apply mkCells_map_id
    intro c hc _ _
    unfold delCell knownB; rw [hc, hk']; rfl

/-! ### `styleNode` -/

theorem canStyle_live {ts : Ticket} {vv : VV} {n : TNode} (hr : n.removedAt = none) :
    canStyle ts (some vv) n = existedB vv n.id.1 := by
  unfold canStyle existedB; simp [hr]

theorem absNode_styleNode (ts : Ticket) (vv : VV) {g : List AttrNode → List AttrNode} {ps : Puts}
    (hg : ∀ as, normAttrs (g as) = applyPuts ps (normAttrs as)) (n : TNode) :
    absNode (styleNode ts (some vv) g n) = (absNode n).map (styCell vv ps) := by
  have hsn : styleNode ts (some vv) g n =
      if canStyle ts (some vv) n then { n with attrs := g n.attrs } else n := rfl
  rw [hsn]
  cases hr : n.removedAt with
  | some r =>
    -- a tombstone: whatever happens to its attributes is invisible
    have target : (absNode n).map (styCell vv ps) = absNode n := by
      apply mkCells_map_id
      intro c _ h2 _
      unfold styCell; rw [h2, hr]; simp
    rw [target]
    split
    · unfold absNode nodeAttrs; simp [hr]
    · rfl
  | none =>
    rw [canStyle_live hr]
    by_cases he : existedB vv n.id.1 = true
    · rw [if_pos he]
      have target : (absNode n).map (styCell vv ps) =
          mkCells n.id.1 false (applyPuts ps (normAttrs n.attrs)) n.id.2 true n.units := by
        unfold absNode nodeAttrs
        simp only [hr, Option.isSome_none, Bool.false_eq_true, if_false]
        apply mkCells_map
        intro c h1 h2 h3
        unfold styCell; rw [h1, he, h2, h3]; rfl
      rw [target]
      unfold absNode nodeAttrs
      simp [hr, hg]
    · rw [if_neg he]
      have he' : existedB vv n.id.1 = false := by simpa using he
      symm
      apply mkCells_map_id
      intro c h1 _ _
      unfold styCell; rw [h1, he']; rfl

/-! ### `newNode` -/

theorem absNode_newNode (ts : Ticket) (content : List Nat) (attrs : List (String × String)) :
    absNode (newNode ts content attrs) = newCells ts content attrs := by
  unfold absNode newNode newCells nodeAttrs
  simp only [Option.isSome_none, Bool.false_eq_true, if_false]
  rw [norm_rhtSetAll, normAttrs_nil]

end Yorkie.TextConv
