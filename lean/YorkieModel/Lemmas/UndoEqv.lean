/-
Lemmas for C14, part 2: well-formedness of heaps relative to a home assignment, observational
equivalence `Eqv` of heaps (same tombstone flags of containers, same live elements with the same
observable bodies), and what it preserves: `marshal`, `orphaned`.
-/
import YorkieModel.Lemmas.Undo
namespace Yorkie.Undo
open Yorkie Yorkie.Crdt

/-! ### heap well-formedness relative to a home assignment -/

/-- ghost data: the container and (for object members) the key an identity belongs to, for ever -/
structure Home where
  par : Ticket → Option Ticket
  key : Ticket → String

def leafBody : Body → Bool
  | .prim _ => true
  | .counter _ _ => true
  | .opaque _ => true
  | _ => false

structure WF (H : Home) (d : Doc) : Prop where
  par : ∀ t e, d t = some e → e.parent = H.par t
  parCont : ∀ t e q, d t = some e → H.par t = some q → isContainer d q = true
  objSorted : ∀ p pe keys member, d p = some pe → pe.body = .obj keys member → keys.Pairwise (· < ·)
  /-- only for containers that are not tombstones: a tombstoned array element whose content was
      restored under a new identity still refers to the (re-registered) descendants -/
  objMem : ∀ p pe keys member k m, d p = some pe → pe.removed = false → pe.body = .obj keys member →
    member k = some m → k ∈ keys ∧ H.key m.child = k ∧ H.par m.child = some p
  arrMem : ∀ x xe nodes moved n c, d x = some xe → xe.removed = false → xe.body = .arr nodes moved →
    n ∈ nodes → n.elem = some c → H.par c = some x

/-- every identity stored in the heap (entries, object members, array elements) and every
    `positionedAt` is at most `L` -/
structure Bounded (d : Doc) (L : Int) : Prop where
  ent : ∀ t e, d t = some e → t.lamport ≤ L
  pos : ∀ p pe keys member k m, d p = some pe → pe.body = .obj keys member → member k = some m →
    m.positionedAt.lamport ≤ L
  child : ∀ p pe keys member k m, d p = some pe → pe.body = .obj keys member → member k = some m →
    m.child.lamport ≤ L
  elem : ∀ x xe nodes moved n c, d x = some xe → xe.body = .arr nodes moved → n ∈ nodes →
    n.elem = some c → c.lamport ≤ L

/-! ### observational equivalence of heaps -/

inductive ABody
  | prim (r : String)
  | opq (r : String)
  | cnt (long : Bool) (v : Int)
  | obj (f : String → Option Ticket)
  | arr (l : List Ticket)

def absBody (d : Doc) : Body → ABody
  | .prim r => .prim r
  | .opaque r => .opq r
  | .counter l v => .cnt l v
  | .obj _ m => .obj (liveMember d m)
  | .arr ns _ => .arr (ns.filterMap (arrEntry d))

/-- what is observable of a live element -/
def absNode (d : Doc) (t : Ticket) : Option ABody :=
  match d t with
  | some e => if e.removed then none else some (absBody d e.body)
  | none => none

/-- the tombstone flag of containers (what `isRemovedOrOrphaned` reads besides the parents) -/
def skel (d : Doc) (t : Ticket) : Option Bool :=
  match d t with
  | some e => if leafBody e.body then none else some e.removed
  | none => none

structure Eqv (d d' : Doc) : Prop where
  skel : ∀ t, skel d t = skel d' t
  node : ∀ t, absNode d t = absNode d' t

theorem Eqv.refl (d : Doc) : Eqv d d := ⟨fun _ => rfl, fun _ => rfl⟩
theorem Eqv.symm {d d' : Doc} (h : Eqv d d') : Eqv d' d := ⟨fun t => (h.skel t).symm, fun t => (h.node t).symm⟩
theorem Eqv.trans {a b c : Doc} (h : Eqv a b) (h' : Eqv b c) : Eqv a c :=
  ⟨fun t => (h.skel t).trans (h'.skel t), fun t => (h.node t).trans (h'.node t)⟩

theorem live_eq_absNode (d : Doc) (t : Ticket) : live d t = (absNode d t).isSome := by
  unfold live absNode
  cases d t with
  | none => rfl
  | some e => cases hr : e.removed <;> simp [hr]

theorem Eqv.live {d d' : Doc} (h : Eqv d d') (t : Ticket) : live d t = live d' t := by
  rw [live_eq_absNode, live_eq_absNode, h.node]

theorem objEntry_eq (d : Doc) (m : String → Option Member) (k : String) :
    objEntry d m k = (liveMember d m k).map (fun c => (k, c)) := by
  unfold objEntry liveMember
  cases hm : m k with
  | none => rfl
  | some mm =>
    cases hc : d mm.child with
    | none => simp [live_none hc, hc]
    | some ce => cases hr : ce.removed <;> simp [live_some hc, hr, hc]

theorem sorted_ext : ∀ (l1 l2 : List String), l1.Pairwise (· < ·) → l2.Pairwise (· < ·) →
    (∀ x, x ∈ l1 ↔ x ∈ l2) → l1 = l2
  | [], [], _, _, _ => rfl
  | [], b :: l2, _, _, h => by have := (h b).2 (by simp); simp at this
  | a :: l1, [], _, _, h => by have := (h a).1 (by simp); simp at this
  | a :: l1, b :: l2, h1, h2, h => by
    rw [List.pairwise_cons] at h1 h2
    have hab : a = b := by
      have ha := (h a).1 (by simp)
      have hb := (h b).2 (by simp)
      simp only [List.mem_cons] at ha hb
      rcases ha with ha | ha
      · exact ha
      · rcases hb with hb | hb
        · exact hb.symm
        · exact absurd (h1.1 b hb) (String.lt_asymm (h2.1 a ha))
    subst hab
    congr 1
    apply sorted_ext l1 l2 h1.2 h2.2
    intro x
    constructor
    · intro hx
      have := (h x).1 (by simp [hx])
      simp only [List.mem_cons] at this
      rcases this with rfl | this
      · exact absurd (h1.1 _ hx) (String.lt_irrefl _)
      · exact this
    · intro hx
      have := (h x).2 (by simp [hx])
      simp only [List.mem_cons] at this
      rcases this with rfl | this
      · exact absurd (h2.1 _ hx) (String.lt_irrefl _)
      · exact this

theorem filterMap_filter_isSome {α β} (g : α → Option β) (l : List α) :
    l.filterMap g = (l.filter (fun x => (g x).isSome)).filterMap g := by
  induction l with
  | nil => rfl
  | cons a l ih =>
    cases h : g a with
    | none => simp [h, ih]
    | some b => simp [h]; exact ih

/-- the printed key list of an object is determined by its live-member function -/
theorem visKeys_ext {f : String → Option Ticket} {keys keys' : List String}
    (hs : keys.Pairwise (· < ·)) (hs' : keys'.Pairwise (· < ·))
    (hc : ∀ k, f k ≠ none → k ∈ keys) (hc' : ∀ k, f k ≠ none → k ∈ keys') :
    keys.filterMap (fun k => (f k).map (fun c => (k, c))) = keys'.filterMap (fun k => (f k).map (fun c => (k, c))) := by
  rw [filterMap_filter_isSome _ keys, filterMap_filter_isSome _ keys']
  congr 1
  apply sorted_ext
  · exact hs.sublist List.filter_sublist
  · exact hs'.sublist List.filter_sublist
  · intro x
    simp only [List.mem_filter, Option.isSome_map]
    constructor
    · intro ⟨_, h⟩; exact ⟨hc' x (by intro h0; simp [h0] at h), h⟩
    · intro ⟨_, h⟩; exact ⟨hc x (by intro h0; simp [h0] at h), h⟩


theorem liveMember_some {d : Doc} {m : String → Option Member} {k : String} {c : Ticket}
    (h : liveMember d m k = some c) : live d c = true ∧ ∃ mm, m k = some mm ∧ mm.child = c := by
  unfold liveMember at h
  split at h
  · cases h
  · rename_i mm hm
    split at h
    · rename_i ce hc
      split at h
      · cases h
      · cases h; exact ⟨by simp [live_some hc, *], mm, hm, rfl⟩
    · cases h

theorem absNode_live {d : Doc} {t : Ticket} (h : live d t = true) :
    ∃ e, d t = some e ∧ e.removed = false ∧ absNode d t = some (absBody d e.body) := by
  unfold live at h
  unfold absNode
  cases hd : d t with
  | none => simp [hd] at h
  | some e =>
    simp only [hd, Bool.not_eq_true'] at h
    exact ⟨e, rfl, h, by simp [h]⟩

theorem vis_eqv {H H' : Home} {d d' : Doc} (w : WF H d) (w' : WF H' d') (h : Eqv d d') {t : Ticket}
    (hl : live d t = true) : vis d t = vis d' t := by
  obtain ⟨e, hd, her, ha⟩ := absNode_live hl
  obtain ⟨e', hd', her', ha'⟩ := absNode_live ((h.live t).symm.trans hl)
  have hb : absBody d e.body = absBody d' e'.body := by
    have := h.node t
    rw [ha, ha'] at this
    exact Option.some.inj this
  simp only [vis, hd, hd']
  cases hbe : e.body <;> cases hbe' : e'.body <;> simp only [hbe, hbe', absBody, reduceCtorEq] at hb
  · injection hb with hb; simp [visBody, hb]
  · rename_i keys m keys' m'
    injection hb with hb
    simp only [visBody]
    congr 1
    rw [show objEntry d m = fun k => (liveMember d m k).map (fun c => (k, c)) from funext (objEntry_eq d m),
        show objEntry d' m' = fun k => (liveMember d' m' k).map (fun c => (k, c)) from funext (objEntry_eq d' m'),
        ← hb]
    apply visKeys_ext (w.objSorted _ _ _ _ hd hbe) (w'.objSorted _ _ _ _ hd' hbe')
    · intro k hk
      cases hk' : liveMember d m k with
      | none => exact absurd hk' hk
      | some c =>
        obtain ⟨_, mm, hmm, _⟩ := liveMember_some hk'
        exact (w.objMem _ _ _ _ _ _ hd her hbe hmm).1
    · intro k hk
      rw [hb] at hk
      cases hk' : liveMember d' m' k with
      | none => exact absurd hk' hk
      | some c =>
        obtain ⟨_, mm, hmm, _⟩ := liveMember_some hk'
        exact (w'.objMem _ _ _ _ _ _ hd' her' hbe' hmm).1
  · injection hb with hb; simp [visBody, hb]
  · injection hb with h1 h2; simp [visBody, h2]
  · injection hb with hb; simp [visBody, hb]

/-- equivalent well-formed heaps print alike below every live element -/
theorem marshal_eqv {H H' : Home} {d d' : Doc} (w : WF H d) (w' : WF H' d') (h : Eqv d d')
    (fuel : Nat) {t : Ticket} (hl : live d t = true) : marshal d fuel t = marshal d' fuel t :=
  marshal_congr (fun _ hc => vis_eqv w w' h hc) fuel t (vis_eqv w w' h hl)


theorem isContainer_iff {d : Doc} {t : Ticket} :
    isContainer d t = true ↔ ∃ e, d t = some e ∧ leafBody e.body = false := by
  unfold isContainer
  cases hd : d t with
  | none => simp
  | some e => cases hb : e.body <;> simp [leafBody, hb]

theorem skel_some {d : Doc} {t : Ticket} {r : Bool} :
    skel d t = some r ↔ ∃ e, d t = some e ∧ leafBody e.body = false ∧ e.removed = r := by
  unfold skel
  cases hd : d t with
  | none => simp
  | some e => cases hb : leafBody e.body <;> simp

theorem Eqv.container {d d' : Doc} (h : Eqv d d') {t : Ticket} {e : Elem} (hd : d t = some e)
    (hb : leafBody e.body = false) : ∃ e', d' t = some e' ∧ leafBody e'.body = false ∧ e'.removed = e.removed := by
  have : Undo.skel d t = some e.removed := skel_some.2 ⟨e, hd, hb, rfl⟩
  rw [h.skel] at this
  exact skel_some.1 this

theorem orphaned_eqv {H : Home} {d d' : Doc} (w : WF H d) (w' : WF H d') (h : Eqv d d')
    (tw : Ticket → Bool) : ∀ (f : Nat) (t : Ticket), isContainer d t = true →
    orphaned d tw f t = orphaned d' tw f t
  | 0, _, _ => rfl
  | f + 1, t, ht => by
    obtain ⟨e, hd, hb⟩ := isContainer_iff.1 ht
    obtain ⟨e', hd', _, hr⟩ := h.container hd hb
    simp only [orphaned, hd, hd', hr, w.par t e hd, w'.par t e' hd']
    cases hp : H.par t with
    | none => rfl
    | some q =>
      simp only []
      rw [orphaned_eqv w w' h tw f q (w.parCont t e q hd hp)]

theorem orphaned_mono (d : Doc) (tw : Ticket → Bool) : ∀ (f : Nat) (t : Ticket),
    orphaned d tw (f + 1) t = false → orphaned d tw f t = false
  | 0, _, _ => rfl
  | f + 1, t, h => by
    rw [orphaned] at h ⊢
    cases hd : d t with
    | none => rfl
    | some e =>
      simp only [hd, Bool.or_eq_false_iff] at h ⊢
      refine ⟨h.1, ?_⟩
      cases hp : e.parent with
      | none => rfl
      | some q =>
        simp only [hp] at h ⊢
        exact orphaned_mono d tw f q h.2

end Yorkie.Undo
