/-
Lemmas for C14, part 21: mixed histories at depth k, the stack invariant `Inv3` (as `Inv2`, over the
mixed alphabet; additionally every renamed identity and every identity a stacked `Add` waits for is
homed in a container that is never a live object, so the renaming fixes everything the object /
counter operations touch).
-/
import YorkieModel.Lemmas.UndoArray11
namespace Yorkie.Undo
open Yorkie Yorkie.Crdt

/-! ### identities homed in arrays -/

/-- the home container of `t` is not a live object of `cur` -/
def ArrHomed (H : Home) (cur : Doc) (t : Ticket) : Prop :=
  ∃ q, H.par t = some q ∧ ∀ f, absNode cur q ≠ some (.obj f)

theorem ArrHomed.step {H : Home} {Y X : Doc} {t : Ticket} (h : ArrHomed H Y t)
    (hb : ∀ q fq, absNode X q = some (.obj fq) → ∃ f', absNode Y q = some (.obj f')) : ArrHomed H X t := by
  obtain ⟨q, hq, hno⟩ := h
  refine ⟨q, hq, fun f hf => ?_⟩
  obtain ⟨f', hf'⟩ := hb q f hf
  exact hno f' hf'

theorem ArrHomed.update {H : Home} {cur : Doc} {t ts : Ticket} (h : ArrHomed H cur t) (hne : t ≠ ts) (p : Ticket)
    (k : String) : ArrHomed (H.update ts p k) cur t := by
  obtain ⟨q, hq, hno⟩ := h
  exact ⟨q, by simp only [Home.update, hne, if_false]; exact hq, hno⟩

theorem aexec3_obj_back {H : Home} {tw : Ticket → Bool} {Y : Doc} {r : UOp} (g : GoodOp3 H tw Y r) {q : Ticket}
    {fq : String → Option Ticket} (h : aexec3 H (absNode Y) r q = some (.obj fq)) :
    ∃ f', absNode Y q = some (.obj f') := by
  cases r with
  | add p prev val ts =>
    obtain ⟨l, ga⟩ := g
    exact aadd_obj_back (absLeaf_isLeaf ga.hleaf) h
  | remove p u ts =>
    simp only [aexec3] at h
    cases hp : absNode Y p with
    | none => simp only [hp] at h; exact aremove_obj_back h
    | some bp =>
      cases bp <;> simp only [hp] at h <;> first | exact adel_obj_back h | exact aremove_obj_back h
  | set p k val ts =>
    obtain ⟨f, gs⟩ := g
    exact aset_obj_back (absLeaf_isLeaf gs.hleaf) h
  | increase c delta ts => exact ainc_obj_back h
  | move => exact g.elim
  | arraySet => exact g.elim

/-! ### the stack invariant -/

structure EntryM (H : Home) (tw : Ticket → Bool) (N : Int) (r : UOp) (X Y : Doc) : Prop where
  wfX : WF H X
  bdX : Bounded X N
  plX : PlainArrs X N
  good : GoodOp3 H tw Y r
  back : absNode X = aexec3 H (absNode Y) r
  skel : ∀ t, skel X t = skel Y t
  idb : idBound3 r N
  pb : r.par.lamport ≤ N

def ChainM (H : Home) (tw : Ticket → Bool) (N : Int) : List UOp → Doc → List Doc → Prop
  | [], _, _ => True
  | _ :: _, _, [] => False
  | r :: rs, Y, X :: more => EntryM H tw N r X Y ∧ ChainM H tw N rs X more

structure Inv3 (H : Home) (N : Int) (ρ : Ticket → Ticket) (g : Hist) (ru rr : List UOp)
    (past : List Doc) (cur : Doc) (future : List Doc) : Prop where
  wf : WF H g.doc
  bd : Bounded g.doc g.lamport
  pl : PlainArrs g.doc g.lamport
  hN : N ≤ g.lamport
  hN0 : 0 ≤ N
  wfc : WF H cur
  bdc : Bounded cur N
  plc : PlainArrs cur N
  eskel : ∀ t, skel g.doc t = skel cur t
  sim : Sim ρ N (absNode cur) (absNode g.doc)
  rfix : ∀ t, skel cur t ≠ none → ρ t = t
  rhead : ρ headId = headId
  rng : ∀ t, t.lamport ≤ N → (ρ t).lamport ≤ g.lamport
  rnew : ∀ t, t.lamport ≤ N → ρ t = t ∨ N < (ρ t).lamport
  rarr : ∀ t, t.lamport ≤ N → ρ t ≠ t → ArrHomed H cur t
  hundo : ∃ rest, g.undo = stackOf ρ ru ++ rest
  hredo : ∃ rest, g.redo = stackOf ρ rr ++ rest
  chU : ChainM H noTw N ru cur past
  chR : ChainM H noTw N rr cur future
  uniqU : (addIds ru).Nodup
  uniqR : (addIds rr).Nodup
  uniqD : ∀ a ∈ addIds ru, ∀ b ∈ addIds rr, a ≠ b
  dead : ∀ a, a ∈ addIds ru ∨ a ∈ addIds rr → absNode cur a = none ∧ ArrHomed H cur a

theorem Inv3.flip {H : Home} {N : Int} {ρ : Ticket → Ticket} {g : Hist} {ru rr : List UOp} {past future : List Doc}
    {cur : Doc} (i : Inv3 H N ρ g ru rr past cur future) : Inv3 H N ρ g.flip rr ru future cur past :=
  { i with hundo := i.hredo, hredo := i.hundo, chU := i.chR, chR := i.chU, uniqU := i.uniqR, uniqR := i.uniqU,
           uniqD := fun a ha b hb h => i.uniqD b hb a ha h.symm, dead := fun a ha => i.dead a ha.symm }

/-- the renaming fixes everything homed in a live object -/
theorem Inv3.fixed {H : Home} {N : Int} {ρ : Ticket → Ticket} {g : Hist} {ru rr : List UOp} {past future : List Doc}
    {cur : Doc} (i : Inv3 H N ρ g ru rr past cur future) {t q : Ticket} {fq : String → Option Ticket}
    (ht : t.lamport ≤ N) (hpar : H.par t = some q) (hq : absNode cur q = some (.obj fq)) : ρ t = t := by
  cases Classical.em (ρ t = t) with
  | inl h => exact h
  | inr h =>
    obtain ⟨q', hq', hno⟩ := i.rarr t ht h
    rw [hpar] at hq'; injection hq' with hq'; subst hq'
    exact absurd hq (hno fq)

/-! ### chains -/

theorem EntryM.mono {H : Home} {tw : Ticket → Bool} {N N' : Int} {r : UOp} {X Y : Doc} (e : EntryM H tw N r X Y)
    (h : N ≤ N') : EntryM H tw N' r X Y :=
  { e with bdX := e.bdX.mono h, plX := e.plX.mono h, idb := idBound3_mono e.idb h,
           pb := by have := e.pb; omega }

theorem ChainM.mono {H : Home} {tw : Ticket → Bool} {N N' : Int} (h : N ≤ N') :
    ∀ {rs : List UOp} {Y : Doc} {past : List Doc}, ChainM H tw N rs Y past → ChainM H tw N' rs Y past
  | [], _, _, _ => trivial
  | _ :: _, _, [], c => c.elim
  | _ :: _, _, _ :: _, ⟨e, c⟩ => ⟨e.mono h, ChainM.mono h c⟩

theorem ChainM.dropLast {H : Home} {tw : Ticket → Bool} {N : Int} :
    ∀ {rs : List UOp} {Y : Doc} {past : List Doc}, ChainM H tw N rs Y past → ChainM H tw N rs.dropLast Y past
  | [], _, _, _ => trivial
  | [_], _, _, _ => trivial
  | _ :: _ :: _, _, [], c => c.elim
  | r :: r' :: rs, _, _ :: _, ⟨e, c⟩ => by
    rw [List.dropLast_cons_cons]
    exact ⟨e, ChainM.dropLast c⟩

theorem ChainM.idb {H : Home} {tw : Ticket → Bool} {N : Int} :
    ∀ {rs : List UOp} {Y : Doc} {past : List Doc}, ChainM H tw N rs Y past → ∀ r ∈ rs, idBound3 r N
  | [], _, _, _ => fun _ h => by simp at h
  | _ :: _, _, [], c => c.elim
  | r :: rs, _, _ :: _, ⟨e, c⟩ => by
    intro x hx
    simp only [List.mem_cons] at hx
    rcases hx with rfl | hx
    · exact e.idb
    · exact ChainM.idb c x hx

theorem ChainM.pb {H : Home} {tw : Ticket → Bool} {N : Int} :
    ∀ {rs : List UOp} {Y : Doc} {past : List Doc}, ChainM H tw N rs Y past → ∀ r ∈ rs, r.par.lamport ≤ N
  | [], _, _, _ => fun _ h => by simp at h
  | _ :: _, _, [], c => c.elim
  | r :: rs, _, _ :: _, ⟨e, c⟩ => by
    intro x hx
    simp only [List.mem_cons] at hx
    rcases hx with rfl | hx
    · exact e.pb
    · exact ChainM.pb c x hx

theorem GoodOp3.update {H : Home} {tw : Ticket → Bool} {d : Doc} {N : Int} {r : UOp} (g : GoodOp3 H tw d r)
    (hi : idBound3 r N) {ts : Ticket} (hts : N < ts.lamport) (p : Ticket) (k : String) :
    GoodOp3 (H.update ts p k) tw d r := by
  cases r with
  | add q prev val t0 =>
    obtain ⟨l, g⟩ := g
    have : val.id ≠ ts := fun h => by have := hi.2; rw [h] at this; omega
    exact ⟨l, { g with hpar := by simp only [Home.update, this, if_false]; exact g.hpar }⟩
  | remove q u t0 =>
    have : u ≠ ts := fun h => by have : u.lamport ≤ N := hi; rw [h] at this; omega
    rcases g with g | ⟨f, g⟩
    · exact Or.inl g
    · exact Or.inr ⟨f, { g with hk := by simp only [Home.update, this, if_false]; exact g.hk }⟩
  | set q k' val t0 =>
    obtain ⟨f, g⟩ := g
    have : val.id ≠ ts := fun h => by have : val.id.lamport ≤ N := hi; rw [h] at this; omega
    exact ⟨f, { g with hkey := by simp only [Home.update, this, if_false]; exact g.hkey,
                       hpar := by simp only [Home.update, this, if_false]; exact g.hpar }⟩
  | increase c delta t0 => exact g
  | move => exact g.elim
  | arraySet => exact g.elim

theorem aexec3_update {H : Home} {N : Int} {r : UOp} (hi : idBound3 r N) {ts : Ticket} (hts : N < ts.lamport)
    (p : Ticket) (k : String) (A : AHeap) : aexec3 (H.update ts p k) A r = aexec3 H A r := by
  cases r with
  | remove q u t0 =>
    have : u ≠ ts := fun h => by have : u.lamport ≤ N := hi; rw [h] at this; omega
    simp only [aexec3, Home.update, this, if_false]
  | add => rfl
  | set => rfl
  | increase => rfl
  | move => rfl
  | arraySet => rfl

theorem EntryM.update {H : Home} {tw : Ticket → Bool} {N : Int} {r : UOp} {X Y : Doc} (e : EntryM H tw N r X Y)
    {ts : Ticket} (hts : N < ts.lamport) (p : Ticket) (k : String) : EntryM (H.update ts p k) tw N r X Y :=
  { e with wfX := WF_update e.wfX e.bdX hts p k, good := e.good.update e.idb hts p k,
           back := by rw [aexec3_update e.idb hts]; exact e.back }

theorem ChainM.update {H : Home} {tw : Ticket → Bool} {N : Int} {ts : Ticket} (hts : N < ts.lamport) (p : Ticket)
    (k : String) : ∀ {rs : List UOp} {Y : Doc} {past : List Doc}, ChainM H tw N rs Y past →
      ChainM (H.update ts p k) tw N rs Y past
  | [], _, _, _ => trivial
  | _ :: _, _, [], c => c.elim
  | _ :: _, _, _ :: _, ⟨e, c⟩ => ⟨e.update hts p k, ChainM.update hts p k c⟩

theorem addIds_boundM {H : Home} {tw : Ticket → Bool} {N : Int} {rs : List UOp} {Y : Doc} {past : List Doc}
    (c : ChainM H tw N rs Y past) {a : Ticket} (ha : a ∈ addIds rs) : a.lamport ≤ N := by
  obtain ⟨r, hr, he⟩ := mem_addIds.1 ha
  have hi := c.idb r hr
  cases r <;> simp only [addId?, reduceCtorEq, Option.some.injEq] at he
  subst he
  exact hi.2

theorem addIds_cons_none {r : UOp} (h : addId? r = none) (rs : List UOp) : addIds (r :: rs) = addIds rs := by
  simp [addIds, h]

theorem addIds_cons_some {r : UOp} {a : Ticket} (h : addId? r = some a) (rs : List UOp) :
    addIds (r :: rs) = a :: addIds rs := by
  simp [addIds, h]

/-- what the invariant says about a recorded array -/
theorem Inv3.arr {H : Home} {N : Int} {ρ : Ticket → Ticket} {g : Hist} {ru rr : List UOp} {past future : List Doc}
    {cur : Doc} (i : Inv3 H N ρ g ru rr past cur future) {p : Ticket} {l : List Ticket}
    (hp : absNode cur p = some (.arr l)) :
    ρ p = p ∧ p.lamport ≤ N ∧ l.Nodup ∧ headId ∉ l ∧ (∀ c ∈ l, c.lamport ≤ N) ∧
    absNode g.doc p = some (.arr (l.map ρ)) ∧
    (orphaned cur noTw orphanFuel p = false → orphaned g.doc noTw orphanFuel p = false) := by
  have hρp : ρ p = p := i.rfix p (by rw [skel_of_arr hp]; simp)
  have hpN : p.lamport ≤ N := absNode_some_bound i.bdc (by rw [hp]; simp)
  obtain ⟨hn, hh, hb⟩ := absNode_arr_plain i.plc hp
  refine ⟨hρp, hpN, hn, hh, hb, ?_, ?_⟩
  · have := i.sim.node p hpN; rw [hρp, hp] at this; exact this
  · intro ho
    rw [← orphaned_of_skel i.wfc i.wf (fun t => (i.eskel t).symm) noTw _ _ (absNode_isContainer_arr hp)]
    exact ho

end Yorkie.Undo
