/-
Lemmas for C14, part 34: depth k with container VALUES, step 2.  The forward deletion of an object member
with content, the stack invariant for histories of leaf edits and such deletions, and the depth-k
undo theorem.
-/
import YorkieModel.Lemmas.UndoArray27
namespace Yorkie.Undo
open Yorkie Yorkie.Crdt

/-- `delete obj.k` is executable and recordable: the value `u` is a live member of the object `p`,
    what lies below it is a tree (`TreeBelowT`: removed members and elements are allowed), every identity
    occurs once in its copy, `p` is not inside and is not orphaned -/
structure RemoveCOk (d : Doc) (p u : Ticket) (k : String) (ue : Elem) : Prop where
  hp : isObj d p = true
  hk : winner d p k = some u
  hu : d u = some ue
  tree : TreeBelowT d copyFuel u ue.body
  hnd : ((copyBody d copyFuel u ue.body).2.map (·.1)).Nodup
  hpS : p ∉ u :: (copyBody d copyFuel u ue.body).2.map (·.1)
  horph : orphaned (kill d (some u)) noTw orphanFuel p = false

/-- the forward deletion of a member with content: result, reverse operation, and what is recorded -/
theorem removeC_step {H : Home} {X : Doc} {L : Int} {p u : Ticket} {k : String} {ue : Elem} {ts : Ticket}
    (w : WF H X) (bd : Bounded X L) (hts : L < ts.lamport) (ok : RemoveCOk X p u k ue) :
    uexecute X noTw .loc (.remove p u ts) = .ok (kill X (some u), some (.set p k (captured X u ue) ts)) ∧
    ∃ f, EntryR H L p k u ue f none X (kill X (some u)) := by
  obtain ⟨hp, hk, hu, tree, hnd, hpS, horph⟩ := ok
  simp only [List.mem_cons, not_or] at hpS
  obtain ⟨hpu, hpS⟩ := hpS
  obtain ⟨pe, keys, member, hd, hb, hw⟩ := isObj_winner hp k
  rw [hw] at hk
  obtain ⟨hlu, m, hm, hmc⟩ := liveMember_some hk
  obtain ⟨ue', hue', hur⟩ := live_elem hlu
  rw [hu] at hue'; injection hue' with hue'; subst hue'
  have hd1p : kill X (some u) p = some pe := by
    have : ¬ u = p := fun hx => hpu hx.symm
    simp [kill, this, hd]
  have hpr : pe.removed = false := (orphaned_root_removed (n := 63) horph hd1p).1
  obtain ⟨_, hkey, hparu⟩ := w.objMem _ _ _ _ _ _ hd hpr hb hm
  rw [hmc] at hkey hparu
  have hupar : ue.parent = some p := (w.par _ _ hu).trans hparu
  have hcap : capture X u = some (captured X u ue) := by simp [capture, hu, captured]
  have hcont : isContainer X p = true := by simp [isContainer, hd, hb]
  have hkeyOf : keyOf keys member u = some k := by
    have := keyOf_home w hd hpr hb (u := u) (mm := m) (by rw [hkey]; exact hm) hmc
    rw [hkey] at this; exact this
  have hchild : isChildOf X u p = true := by simp [isChildOf, hu, hupar]
  have hk1 : markRemoved X u ts = kill X (some u) :=
    markRemoved_eq_kill (fun e he => after_of_lamport (by have := bd.ent _ _ he; omega))
  have he1 : uexecute X noTw .loc (.remove p u ts) =
      .ok (kill X (some u), some (.set p k (captured X u ue) ts)) := by
    simp only [uexecute, hcont, Bool.not_true, Bool.false_eq_true, if_false, Source.needsReverse, if_true,
      reverseRemove, hcap, hd, hb, hkeyOf, applyRemove, hchild, hk1,
      show (Source.loc = Source.undoRedo) = False from by simp, decide_false, Bool.false_and]
    rfl
  obtain ⟨n1, n2, n3⟩ := absNode_killC w hd hpr hb hm hmc hpu
  exact ⟨he1, liveMember X member, w, bd, hu, hur, tree, hnd, hpu, hpS, absNode_of_obj hd hpr hb, hk,
    WF_kill w _, orphaned_of_kill _ _ horph, horph, n1, n2, fun t h1 h2 _ => n3 t h1 h2, skel_killC hu,
    (fun c hc => by cases hc), (fun c hc => by cases hc), (fun c hc => by cases hc)⟩

/-- the forward `obj.k = leaf` over a member with content -/
theorem setOverC_step {H : Home} {X : Doc} {L : Int} {p u : Ticket} {k : String} {ue : Elem} {ts : Ticket}
    {v : Val} (w : WF H X) (bd : Bounded X L) (hts : L < ts.lamport) (hts1 : ts.lamport = L + 1)
    (ok : RemoveCOk X p u k ue)
    (hv : leafBody v.body = true) (hkeyc : H.key ts = k) (hparc : H.par ts = some p) :
    ∃ Y, uexecute X noTw .loc (.set p k (UVal.ofVal v ts) ts) = .ok (Y, some (.set p k (captured X u ue) ts)) ∧
      WF H Y ∧ Bounded Y ts.lamport ∧ ∃ f, EntryR H L p k u ue f (some ts) X Y := by
  obtain ⟨hp, hk, hu, tree, hnd, hpS, horph⟩ := ok
  simp only [List.mem_cons, not_or] at hpS
  obtain ⟨hpu, hpS⟩ := hpS
  obtain ⟨pe, keys, member, hd, hb, hw⟩ := isObj_winner hp k
  rw [hw] at hk
  obtain ⟨hlu, m, hm, hmc⟩ := liveMember_some hk
  obtain ⟨ue', hue', hur⟩ := live_elem hlu
  rw [hu] at hue'; injection hue' with hue'; subst hue'
  have hfresh : X ts = none := by
    cases hx : X ts with
    | none => rfl
    | some e => have := bd.ent _ _ hx; omega
  have hd1p : kill X (some u) p = some pe := by
    have : ¬ u = p := fun hx => hpu hx.symm
    simp [kill, this, hd]
  have hpr : pe.removed = false := (orphaned_root_removed (n := 63) horph hd1p).1
  obtain ⟨_, hkey, hparu⟩ := w.objMem _ _ _ _ _ _ hd hpr hb hm
  rw [hmc] at hkey hparu
  have hupar : ue.parent = some p := (w.par _ _ hu).trans hparu
  have hcap : capture X u = some (captured X u ue) := by simp [capture, hu, captured]
  have hpts : p ≠ ts := by intro hx; rw [hx, hfresh] at hd; cases hd
  have huts : u ≠ ts := by intro hx; rw [hx, hfresh] at hu; cases hu
  have hwts : written (captured X u ue) ts = false := by
    cases hx : written (captured X u ue) ts with
    | false => rfl
    | true =>
      rcases (writtenT_iff tree hnd ts).1 hx with h | h
      · exact absurd h.symm huts
      · obtain ⟨x, hx1, hx2⟩ := List.mem_map.1 h
        obtain ⟨e, he, _⟩ := (copyBodyT_tree copyFuel u ue.body tree).2 x hx1
        rw [hx2, hfresh] at he; cases he
  -- the execution
  have happ := applySetU_eq (d := X) (p := p) (k := k) (val := UVal.ofVal v ts) (ts := ts) hd hb
    hv rfl (by
      intro m' hm'
      refine ⟨after_of_lamport ?_, fun e he => after_of_lamport ?_⟩
      · have := bd.pos _ _ _ _ _ _ hd hb hm'; omega
      · have := bd.ent _ _ he; omega)
  have hrev : reverseSet X p k (UVal.ofVal v ts) ts = some (.set p k (captured X u ue) ts) := by
    unfold reverseSet
    simp only [hd, hb, hk, hcap]
  have he1 : uexecute X noTw .loc (.set p k (UVal.ofVal v ts) ts) =
      .ok (setRes X p pe keys member k (UVal.ofVal v ts) ts, some (.set p k (captured X u ue) ts)) := by
    simp only [uexecute, hp, Bool.not_true, Bool.false_eq_true, if_false, happ, Source.needsReverse, gate, if_true,
      hrev, show (Source.loc = Source.undoRedo) = False from by simp, decide_false, Bool.false_and]
    rfl
  -- the same heap, as a `Set` of a fresh leaf on the heap with `u` tombstoned
  have hsame : setRes X p pe keys member k (UVal.ofVal v ts) ts =
      setRes (kill X (some u)) p pe keys member k (UVal.ofVal v ts) ts := by
    unfold setRes
    rw [hm, Option.map_some, hmc, kill_kill]
  have w1 : WF H (kill X (some u)) := WF_kill w _
  have bd1 : Bounded (kill X (some u)) L := Bounded_kill bd _
  have hlm1 : liveMember (kill X (some u)) member k = none := by
    rw [liveMember_eq, hm]; simp only [hmc, live_kill]; simp
  obtain ⟨f1, g⟩ := goodSet_new (H := H) (tw := noTw) (v := v) (ts := ts) hd1p hb horph hv hkeyc hparc
    (by unfold kill; split <;> simp [hfresh]) rfl (by intro c hc; rw [hlm1] at hc; cases hc)
  have hf1 : f1 = liveMember (kill X (some u)) member := by
    have := g.hp; rw [absNode_of_obj hd1p hpr hb] at this
    injection this with this; injection this with this; exact this.symm
  obtain ⟨n1, n2, n3⟩ := absNode_killC w hd hpr hb hm hmc hpu
  have hnode := absNode_setRes (ts := ts) w1 g hd1p hpr hb hf1
  have hskel := skel_setRes (ts := ts) g hd1p hb hf1
  have hf1k : f1 k = none := by rw [hf1]; exact hlm1
  have hA : absNode (kill X (some u)) p = some (.obj f1) := g.hp
  refine ⟨_, he1, ?_, ?_, liveMember X member, ?_⟩
  · rw [hsame]; exact WF_setRes w1 g hd1p hpr hb hf1
  · rw [hsame]; exact Bounded_setRes g bd1 hts (Int.le_refl _) hd1p hb
  · rw [hsame]
    refine ⟨w, bd, hu, hur, tree, hnd, hpu, hpS, absNode_of_obj hd hpr hb, hk,
      WF_setRes w1 g hd1p hpr hb hf1, orphaned_of_kill _ _ horph, ?_, ?_, ?_, ?_, ?_, ?_, ?_, ?_⟩
    · -- not orphaned
      have hagree : ∀ t e, kill X (some u) t = some e →
          ∃ e1, setRes (kill X (some u)) p pe keys member k (UVal.ofVal v ts) ts t = some e1 ∧
            e1.removed = e.removed ∧ e1.parent = e.parent := by
        intro t e hte
        rw [setRes_apply]
        by_cases h1 : t = p
        · subst h1
          rw [hd1p] at hte; injection hte with hte; subst hte
          exact ⟨{ pe with body := setBody keys member k (UVal.ofVal v ts).id ts }, by simp, rfl, rfl⟩
        · have h2 : t ≠ (UVal.ofVal v ts).id := by
            intro hx
            have hx' : t = ts := hx
            subst hx'
            have := kill_isSome X (some u) t
            rw [hte, hfresh] at this; cases this
          simp only [h1, h2, if_false, hm, Option.map_some, hmc]
          by_cases h3 : u = t
          · subst h3
            simp only [if_true, hte, Option.map_some]
            refine ⟨_, rfl, ?_, rfl⟩
            simp only [kill, if_true, hu, Option.map_some, Option.some.injEq] at hte
            rw [← hte]
          · have : ¬ some u = some t := fun hx => h3 (Option.some.inj hx)
            simp only [this, if_false]
            exact ⟨e, hte, rfl, rfl⟩
      have hcont : (kill X (some u) p).isSome = true := by rw [hd1p]; rfl
      rw [orphaned_ext w1 hagree orphanFuel p hcont]
      exact horph
    · rw [hnode]; simp only [aset, hA]
      have h1 : u ≠ (UVal.ofVal v ts).id := huts
      have h2 : u ≠ p := fun hx => hpu hx.symm
      simp [h1, h2, hf1k, n1]
    · rw [hnode]; simp only [aset, hA]
      have h1 : p ≠ (UVal.ofVal v ts).id := hpts
      simp only [h1, if_false, if_true]
      congr 2
      funext k'
      by_cases hk' : k' = k
      · simp [hk']; rfl
      · simp only [hk', if_false]
        have := congrFun hf1 k'
        rw [this]
        have hn2 := n2
        rw [absNode_of_obj hd1p hpr hb] at hn2
        injection hn2 with hn2; injection hn2 with hn2
        have := congrFun hn2 k'
        simp only [hk', if_false] at this
        exact this
    · intro t h1 h2 h3
      rw [hnode]; simp only [aset, hA]
      have h3' : t ≠ (UVal.ofVal v ts).id := fun hx => h3 (by rw [hx]; rfl)
      simp only [h3', h2, if_false, hf1k]
      simp only [reduceCtorEq, if_false]
      exact n3 t h1 h2
    · intro t
      rw [hskel]; exact skel_killC hu t
    · intro c hc
      injection hc with hc; subst hc
      exact ⟨hfresh, huts.symm, hpts.symm, hkeyc, hparc, hwts⟩
    · intro c hc
      injection hc with hc; subst hc
      refine ⟨absLeaf v.body, ?_, absLeaf_isLeaf hv⟩
      rw [hnode]; simp only [aset, hA]
      have : ts = (UVal.ofVal v ts).id := rfl
      simp [← this]; rfl
    · intro c hc
      injection hc with hc; subst hc
      omega

/-! ### histories of leaf edits and deletions of members with content -/

inductive EditC
  | leaf (e : Edit)
  /-- `delete obj.k` where the value `u` may have content -/
  | removeC (p u : Ticket)
  /-- `obj.k = leaf` over a live member that may have content -/
  | setOverC (p : Ticket) (k : String) (v : Val)

def EditC.op : EditC → Ticket → UOp
  | .leaf e, ts => e.op ts
  | .removeC p u, ts => .remove p u ts
  | .setOverC p k v, ts => .set p k (UVal.ofVal v ts) ts

def doEditC (h : Hist) (e : EditC) : Hist := doChange h [e.op h.next]

def runEditsC : Hist → List EditC → Hist
  | h, [] => h
  | h, e :: es => runEditsC (doEditC h e) es

def EditC.Ok (H : Home) (d : Doc) (ts : Ticket) : EditC → Prop
  | .leaf e => GoodOp H noTw d (e.op ts)
  | .removeC p u => ∃ k ue, RemoveCOk d p u k ue
  | .setOverC p k v => ∃ u ue, RemoveCOk d p u k ue ∧ leafBody v.body = true ∧ H.key ts = k ∧ H.par ts = some p

/-- every edit of the run is executable when its turn comes -/
def EditsOkC (H : Home) : Hist → List EditC → Prop
  | _, [] => True
  | h, e :: es => e.Ok H h.doc h.next ∧ EditsOkC H (doEditC h e) es

def statesC : Hist → List EditC → List Doc
  | h, [] => [h.doc]
  | h, e :: es => h.doc :: statesC (doEditC h e) es

theorem runEditsC_append (h : Hist) (a b : List EditC) :
    runEditsC h (a ++ b) = runEditsC (runEditsC h a) b := by
  induction a generalizing h with
  | nil => rfl
  | cons e a ih => exact ih _

theorem statesC_length (h : Hist) (es : List EditC) : (statesC h es).length = es.length + 1 := by
  induction es generalizing h with
  | nil => rfl
  | cons e es ih => simp [statesC, ih]

theorem statesC_get (h : Hist) (a b : List EditC) :
    (statesC h (a ++ b))[a.length]? = some (runEditsC h a).doc := by
  induction a generalizing h with
  | nil => cases b <;> rfl
  | cons e a ih => simpa [statesC, runEditsC] using ih (doEditC h e)

theorem EditsOkC_append {H : Home} : ∀ {a b : List EditC} {h : Hist}, EditsOkC H h (a ++ b) →
    EditsOkC H h a ∧ EditsOkC H (runEditsC h a) b
  | [], _, _, ok => ⟨trivial, ok⟩
  | _ :: a, _, _, ok => ⟨⟨ok.1, (EditsOkC_append (a := a) ok.2).1⟩, (EditsOkC_append (a := a) ok.2).2⟩

/-- an entry of the undo stack leads from the recorded state `Y` back to the recorded state `X` -/
inductive EntryC (H : Home) (L : Int) : UOp → Doc → Doc → Prop
  | leaf {r : UOp} {X Y : Doc} : Entry H noTw L r X Y → EntryC H L r X Y
  | rest {p : Ticket} {k : String} {u : Ticket} {ue : Elem} {f : String → Option Ticket} {oc : Option Ticket}
      {X Y : Doc} {ts : Ticket} :
      EntryR H L p k u ue f oc X Y → EntryC H L (.set p k (captured X u ue) ts) X Y

theorem EntryC.mono {H : Home} {L L' : Int} {r : UOp} {X Y : Doc} (h : EntryC H L r X Y) (hl : L ≤ L') :
    EntryC H L' r X Y := by
  cases h with
  | leaf en => exact .leaf (en.mono hl)
  | rest en => exact .rest { en with bdX := en.bdX.mono hl, hocB := fun c hc => by have := en.hocB c hc; omega }

def StackRelC (H : Home) (L : Int) : List (List UOp) → Doc → List Doc → Prop
  | _, _, [] => True
  | [], _, _ :: _ => True
  | e :: rest, Y, X :: more => (∃ r, e = [r] ∧ EntryC H L r X Y) ∧ StackRelC H L rest X more

theorem StackRelC.mono {H : Home} {L L' : Int} (hl : L ≤ L') :
    ∀ {s : List (List UOp)} {Y : Doc} {past : List Doc}, StackRelC H L s Y past → StackRelC H L' s Y past
  | _, _, [], _ => by unfold StackRelC; trivial
  | [], _, _ :: _, _ => trivial
  | _ :: _, _, _ :: _, ⟨⟨r, he, hr⟩, h⟩ => ⟨⟨r, he, hr.mono hl⟩, StackRelC.mono hl h⟩

theorem StackRelC.dropLast {H : Home} {L : Int} :
    ∀ {s : List (List UOp)} {Y : Doc} {past : List Doc}, StackRelC H L s Y past →
      StackRelC H L s.dropLast Y past
  | _, _, [], _ => by unfold StackRelC; trivial
  | [], _, _ :: _, _ => trivial
  | [_], _, _ :: _, _ => trivial
  | e :: e' :: rest, _, _ :: _, ⟨hr, h⟩ => by
    rw [List.dropLast_cons₂]
    exact ⟨hr, StackRelC.dropLast h⟩

theorem StackRelC.pushTail {H : Home} {L : Int} {s : List (List UOp)} {Y : Doc}
    {past : List Doc} (h : StackRelC H L s Y past) : StackRelC H L (Undo.pushTail s) Y past := by
  unfold Undo.pushTail; split
  · exact h.dropLast
  · exact h

/-- an entry of the redo stack leads from the recorded state `X` forward to the recorded state `Y` -/
inductive EntryD (H : Home) (L : Int) : UOp → Doc → Doc → Prop
  | leaf {q : UOp} {X Y : Doc} : Entry H noTw L q Y X → EntryD H L q Y X
  | fwd {p : Ticket} {k : String} {u : Ticket} {ue : Elem} {f : String → Option Ticket} {oc : Option Ticket}
      {X Y : Doc} {ts0 : Ticket} {q : UOp} :
      EntryR H L p k u ue f oc X Y → FwdOp Y oc p k u ts0 q → EntryD H L q Y X

theorem EntryD.mono {H : Home} {L L' : Int} {q : UOp} {X Y : Doc} (h : EntryD H L q Y X) (hl : L ≤ L') :
    EntryD H L' q Y X := by
  cases h with
  | leaf en => exact .leaf (en.mono hl)
  | fwd en hq =>
    exact .fwd { en with bdX := en.bdX.mono hl, hocB := fun c hc => by have := en.hocB c hc; omega } hq

def StackRelD (H : Home) (L : Int) : List (List UOp) → Doc → List Doc → Prop
  | _, _, [] => True
  | [], _, _ :: _ => True
  | e :: rest, X, Y :: more => (∃ q, e = [q] ∧ EntryD H L q Y X) ∧ StackRelD H L rest Y more

theorem StackRelD.mono {H : Home} {L L' : Int} (hl : L ≤ L') :
    ∀ {s : List (List UOp)} {X : Doc} {fut : List Doc}, StackRelD H L s X fut → StackRelD H L' s X fut
  | _, _, [], _ => by unfold StackRelD; trivial
  | [], _, _ :: _, _ => trivial
  | _ :: _, _, _ :: _, ⟨⟨r, he, hr⟩, h⟩ => ⟨⟨r, he, hr.mono hl⟩, StackRelD.mono hl h⟩

theorem StackRelD.dropLast {H : Home} {L : Int} :
    ∀ {s : List (List UOp)} {X : Doc} {fut : List Doc}, StackRelD H L s X fut →
      StackRelD H L s.dropLast X fut
  | _, _, [], _ => by unfold StackRelD; trivial
  | [], _, _ :: _, _ => trivial
  | [_], _, _ :: _, _ => trivial
  | e :: e' :: rest, _, _ :: _, ⟨hr, h⟩ => by
    rw [List.dropLast_cons₂]
    exact ⟨hr, StackRelD.dropLast h⟩

theorem StackRelD.pushTail {H : Home} {L : Int} {s : List (List UOp)} {X : Doc}
    {fut : List Doc} (h : StackRelD H L s X fut) : StackRelD H L (Undo.pushTail s) X fut := by
  unfold Undo.pushTail; split
  · exact h.dropLast
  · exact h

/-- the actual heap is equivalent to the recorded current state, the undo stack leads back through the
    recorded past states and the redo stack forward through the recorded future states -/
structure InvC (H : Home) (g : Hist) (past : List Doc) (cur : Doc) (future : List Doc) : Prop where
  wf : WF H g.doc
  bd : Bounded g.doc g.lamport
  wfc : WF H cur
  eskel : ∀ t, skel g.doc t = skel cur t
  enode : absNode g.doc = absNode cur
  undoRel : StackRelC H g.lamport g.undo cur past
  redoRel : StackRelD H g.lamport g.redo cur future

theorem InvC.eqv {H : Home} {g : Hist} {past : List Doc} {cur : Doc} {future : List Doc}
    (i : InvC H g past cur future) : Eqv g.doc cur :=
  ⟨i.eskel, fun t => congrFun i.enode t⟩

theorem invC_init {H : Home} {h : Hist} (w : WF H h.doc) (bd : Bounded h.doc h.lamport) : InvC H h [] h.doc [] :=
  ⟨w, bd, w, fun _ => rfl, rfl, by unfold StackRelC; trivial, by unfold StackRelD; trivial⟩

/-- one edit of the alphabet -/
theorem invC_do {H : Home} {g : Hist} {past : List Doc} {e : EditC} (i : InvC H g past g.doc [])
    (ok : e.Ok H g.doc g.next) :
    ∃ r, (doEditC g e).undo = push g.undo [r] ∧ InvC H (doEditC g e) (g.doc :: past) (doEditC g e).doc [] := by
  have hlam : g.next.lamport = g.lamport + 1 := rfl
  have hD : ∀ (s : List (List UOp)) (Y : Doc), StackRelD H (g.lamport + 1) s Y [] := by
    intro s Y; unfold StackRelD; trivial
  cases e with
  | leaf e =>
    obtain ⟨d', r, he, res⟩ := step_good (src := .loc) (ts := g.next) i.wf i.bd (by simp only [Hist.next]; omega)
      (Edit.op_idBound e g.next) ok rfl
    rw [Edit.op_withTs] at he
    unfold doEditC
    simp only [EditC.op]
    rw [doChange_one (Edit.op_plain e _) he]
    refine ⟨r, rfl, res.wf, hlam ▸ res.bd, res.wf, fun _ => rfl, rfl, ?_, hD _ _⟩
    show StackRelC H (g.lamport + 1) (push g.undo [r]) d' (g.doc :: past)
    rw [push_eq]
    refine ⟨⟨r, rfl, .leaf ⟨i.wf, res.good, res.back, fun t => (res.skel t).symm, hlam ▸ res.idb, res.plain⟩⟩, ?_⟩
    exact (i.undoRel.pushTail).mono (by omega)
  | removeC p u =>
    obtain ⟨k, ue, ok⟩ := ok
    obtain ⟨he, f, en⟩ := removeC_step (ts := g.next) i.wf i.bd (by simp only [Hist.next]; omega) ok
    unfold doEditC
    simp only [EditC.op]
    rw [doChange_one (by rfl) he]
    refine ⟨_, rfl, WF_kill i.wf _, (Bounded_kill i.bd _).mono (by simp only []; omega), WF_kill i.wf _,
      fun _ => rfl, rfl, ?_, hD _ _⟩
    show StackRelC H (g.lamport + 1) (push g.undo [.set p k (captured g.doc u ue) g.next])
      (kill g.doc (some u)) (g.doc :: past)
    rw [push_eq]
    exact ⟨⟨_, rfl, (EntryC.rest en).mono (by omega)⟩, (i.undoRel.pushTail).mono (by omega)⟩
  | setOverC p k v =>
    obtain ⟨u, ue, ok, hv, hkc, hpc⟩ := ok
    obtain ⟨Y, he, wY, bdY, f, en⟩ := setOverC_step (ts := g.next) i.wf i.bd (by simp only [Hist.next]; omega) rfl ok
      hv hkc hpc
    unfold doEditC
    simp only [EditC.op]
    rw [doChange_one (by rfl) he]
    refine ⟨_, rfl, wY, hlam ▸ bdY, wY, fun _ => rfl, rfl, ?_, hD _ _⟩
    show StackRelC H (g.lamport + 1) (push g.undo [.set p k (captured g.doc u ue) g.next]) Y (g.doc :: past)
    rw [push_eq]
    exact ⟨⟨_, rfl, (EntryC.rest en).mono (by omega)⟩, (i.undoRel.pushTail).mono (by omega)⟩

/-- one undo -/
theorem invC_undo {H : Home} {g : Hist} {X Y : Doc} {more future : List Doc} {e : List UOp}
    {rest : List (List UOp)} (i : InvC H g (X :: more) Y future) (hu : g.undo = e :: rest) :
    ∃ q, (undo g).undo = rest ∧ (undo g).redo = push g.redo [q] ∧ InvC H (undo g) more X (Y :: future) := by
  have hrel := i.undoRel
  rw [hu] at hrel
  obtain ⟨⟨r, rfl, en⟩, hrest⟩ := hrel
  cases en with
  | leaf en =>
    have i' : Inv H g [] Y [] := ⟨i.wf, i.bd, i.wfc, i.eskel, i.enode, StackRel.nil, StackRel.nil⟩
    obtain ⟨d', q, he, hwf, hbd, hsk, hnode, enq⟩ := entry_exec i' en
    rw [undo_one hu en.plain he]
    refine ⟨q, rfl, rfl, hwf, hbd, en.wfX, hsk, hnode, hrest.mono (by simp only []; omega), ?_⟩
    show StackRelD H (g.lamport + 1) (push g.redo [q]) X (Y :: future)
    rw [push_eq]
    exact ⟨⟨q, rfl, .leaf enq⟩, (i.redoRel.pushTail).mono (by omega)⟩
  | rest en =>
    obtain ⟨d', q, he, hwf, hbd, hsk, hnode, hfwd⟩ := restore_exec (ts := g.next) en i.wf i.bd (Int.le_refl _)
      (by simp only [Hist.next]; omega) i.eskel i.enode
    rw [undo_one hu (by rfl) (by simpa [UOp.withTs] using he)]
    refine ⟨q, rfl, rfl, hwf, hbd, en.wfX, hsk, hnode, hrest.mono (by simp only []; omega), ?_⟩
    show StackRelD H (g.lamport + 1) (push g.redo [q]) X (Y :: future)
    rw [push_eq]
    exact ⟨⟨q, rfl, (EntryD.fwd en hfwd).mono (by omega)⟩, (i.redoRel.pushTail).mono (by omega)⟩

theorem FwdOp.plain {Y : Doc} {oc : Option Ticket} {p : Ticket} {k : String} {u ts : Ticket} {q : UOp}
    (h : FwdOp Y oc p k u ts q) : q.plain = true := by
  cases oc with
  | none => have : q = .remove p u ts := h; rw [this]; rfl
  | some c => obtain ⟨cb, _, _, rfl⟩ := h; rfl

/-- one redo (what it pushes on the undo stack is not tracked) -/
theorem invC_redo {H : Home} {g : Hist} {X Y : Doc} {past more : List Doc} {e : List UOp}
    {rest : List (List UOp)} (i : InvC H g past X (Y :: more)) (hu : g.redo = e :: rest) :
    (redo g).redo = rest ∧ InvC H (redo g) [] Y more := by
  have hrel := i.redoRel
  rw [hu] at hrel
  obtain ⟨⟨q, rfl, en⟩, hrest⟩ := hrel
  have hU : ∀ (s : List (List UOp)), StackRelC H (g.lamport + 1) s Y [] := by
    intro s; unfold StackRelC; trivial
  cases en with
  | leaf en =>
    have i' : Inv H g [] X [] := ⟨i.wf, i.bd, i.wfc, i.eskel, i.enode, StackRel.nil, StackRel.nil⟩
    obtain ⟨d', q', he, hwf, hbd, hsk, hnode, _⟩ := entry_exec i' en
    rw [redo_one hu en.plain he]
    exact ⟨rfl, hwf, hbd, en.wfX, hsk, hnode, hU _, hrest.mono (by simp only []; omega)⟩
  | fwd en hq =>
    obtain ⟨d', r, he, hwf, hbd, hsk, hnode⟩ := redo_exec (ts := g.next) en hq i.wf i.bd (Int.le_refl _)
      (by simp only [Hist.next]; omega) i.eskel i.enode
    rw [redo_one hu hq.plain he]
    exact ⟨rfl, hwf, hbd, en.wfY, hsk, hnode, hU _, hrest.mono (by simp only []; omega)⟩

theorem runC_inv {H : Home} : ∀ (es : List EditC) (g : Hist) (past : List Doc) (n : Nat),
    InvC H g past g.doc [] → EditsOkC H g es → min n maxDepth ≤ g.undo.length →
    ∃ past', InvC H (runEditsC g es) past' (runEditsC g es).doc [] ∧
      past'.reverse ++ [(runEditsC g es).doc] = past.reverse ++ statesC g es ∧
      min (n + es.length) maxDepth ≤ (runEditsC g es).undo.length
  | [], g, past, n, i, _, hn => ⟨past, i, rfl, hn⟩
  | e :: es, g, past, n, i, ok, hn => by
    obtain ⟨r, hu, i'⟩ := invC_do (e := e) i ok.1
    have hn' : min (n + 1) maxDepth ≤ (doEditC g e).undo.length := by
      rw [hu]; exact push_length_ge _ _ _ hn
    obtain ⟨past', i'', hch, hlen⟩ := runC_inv es (doEditC g e) (g.doc :: past) (n + 1) i' ok.2 hn'
    refine ⟨past', i'', ?_, ?_⟩
    · simp only [runEditsC, statesC]; rw [hch]; simp
    · simp only [runEditsC, List.length_cons]; rw [show n + (es.length + 1) = n + 1 + es.length by omega]; exact hlen

theorem undoNC_inv {H : Home} : ∀ (k : Nat) (x : Hist) (past : List Doc) (cur : Doc) (fut : List Doc) (n : Nat),
    InvC H x past cur fut → k ≤ past.length → k ≤ x.undo.length → min n maxDepth ≤ x.redo.length →
    ∃ past' cur' fut', InvC H (undoN k x) past' cur' fut' ∧
      past'.reverse ++ cur' :: fut' = past.reverse ++ cur :: fut ∧ past'.length + k = past.length ∧
      min (n + k) maxDepth ≤ (undoN k x).redo.length
  | 0, x, past, cur, fut, n, i, _, _, hn => ⟨past, cur, fut, i, rfl, rfl, hn⟩
  | k + 1, x, past, cur, fut, n, i, hp, hu, hn => by
    cases past with
    | nil => simp at hp
    | cons X more =>
      cases hst : x.undo with
      | nil => rw [hst] at hu; simp at hu
      | cons e rest =>
        obtain ⟨q, h1, h2, i'⟩ := invC_undo i hst
        have hu' : k ≤ (undo x).undo.length := by rw [h1]; rw [hst] at hu; simpa using hu
        have hn' : min (n + 1) maxDepth ≤ (undo x).redo.length := by rw [h2]; exact push_length_ge _ _ _ hn
        obtain ⟨past', cur', fut', i'', hch, hlen, hr⟩ :=
          undoNC_inv k (undo x) more X (cur :: fut) (n + 1) i' (by simpa using hp) hu' hn'
        refine ⟨past', cur', fut', i'', ?_, ?_, ?_⟩
        · rw [hch]; simp
        · simp only [List.length_cons]; omega
        · rw [show n + (k + 1) = n + 1 + k by omega]; exact hr

theorem redoNC_inv {H : Home} : ∀ (k : Nat) (x : Hist) (past : List Doc) (cur : Doc) (fut : List Doc),
    InvC H x past cur fut → k ≤ fut.length → k ≤ x.redo.length →
    ∃ past' cur' fut', InvC H (redoN k x) past' cur' fut' ∧ (cur :: fut)[k]? = some cur'
  | 0, x, past, cur, fut, i, _, _ => ⟨past, cur, fut, i, rfl⟩
  | k + 1, x, past, cur, fut, i, hp, hu => by
    cases fut with
    | nil => simp at hp
    | cons Y more =>
      cases hst : x.redo with
      | nil => rw [hst] at hu; simp at hu
      | cons e rest =>
        obtain ⟨h1, i'⟩ := invC_redo i hst
        have hu' : k ≤ (redo x).redo.length := by rw [h1]; rw [hst] at hu; simpa using hu
        obtain ⟨past', cur', fut', i'', hget⟩ := redoNC_inv k (redo x) [] Y more i' (by simpa using hp) hu'
        exact ⟨past', cur', fut', i'', by simpa using hget⟩

/-- depth `k`: after the edits `a ++ b` (leaf edits, deletions and overwritings of members with content),
    undoing `|b|` times gives a heap equivalent to the one after `a` -/
theorem undoN_runC_eqv {H : Home} {h : Hist} (w : WF H h.doc) (bd : Bounded h.doc h.lamport) (a b : List EditC)
    (ok : EditsOkC H h (a ++ b)) (hb : b.length ≤ maxDepth) :
    WF H (undoN b.length (runEditsC h (a ++ b))).doc ∧ WF H (runEditsC h a).doc ∧
    Eqv (undoN b.length (runEditsC h (a ++ b))).doc (runEditsC h a).doc := by
  obtain ⟨past, i, hch, hlen⟩ := runC_inv (a ++ b) h [] 0 (invC_init w bd) ok (by simp)
  have hpl : past.length = (a ++ b).length := by
    have := congrArg List.length hch
    simp [statesC_length] at this; simpa using this
  obtain ⟨past', cur', fut', i', hch', hlen', _⟩ := undoNC_inv b.length _ past _ [] 0 i
    (by rw [hpl]; simp) (by simp only [Nat.zero_add, List.length_append] at hlen ⊢; omega) (by simp)
  have hcur : cur' = (runEditsC h a).doc := by
    have h1 := zipper_get hch'
    rw [hch] at h1
    simp only [List.reverse_nil, List.nil_append] at h1
    have : past'.length = a.length := by rw [hpl] at hlen'; simp at hlen'; omega
    rw [this, statesC_get] at h1
    exact (Option.some.inj h1).symm
  subst hcur
  exact ⟨i'.wf, i'.wfc, i'.eqv⟩

/-- depth `k` redo: after the edits `a ++ b ++ c`, undoing `|b ++ c|` times and redoing `|b|` times gives a
    heap equivalent to the one after `a ++ b` -/
theorem redoN_runC_eqv {H : Home} {h : Hist} (w : WF H h.doc) (bd : Bounded h.doc h.lamport) (a b c : List EditC)
    (ok : EditsOkC H h (a ++ (b ++ c))) (hb : (b ++ c).length ≤ maxDepth) :
    WF H (redoN b.length (undoN (b ++ c).length (runEditsC h (a ++ (b ++ c))))).doc ∧
    WF H (runEditsC h (a ++ b)).doc ∧
    Eqv (redoN b.length (undoN (b ++ c).length (runEditsC h (a ++ (b ++ c))))).doc (runEditsC h (a ++ b)).doc := by
  have hb' : b.length + c.length ≤ maxDepth := by simpa using hb
  obtain ⟨past, i, hch, hlen⟩ := runC_inv (a ++ (b ++ c)) h [] 0 (invC_init w bd) ok (by simp)
  have hpl : past.length = a.length + (b.length + c.length) := by
    have := congrArg List.length hch
    simp [statesC_length] at this; simpa using this
  obtain ⟨past', cur', fut', i', hch', hlen', hredo⟩ := undoNC_inv (b ++ c).length _ past _ [] 0 i
    (by rw [hpl]; simp) (by simp only [Nat.zero_add, List.length_append] at hlen ⊢; omega) (by simp)
  have hfl : fut'.length = b.length + c.length := by
    have := congrArg List.length hch'
    simp at this hlen'; omega
  have hpa : past'.length = a.length := by simp at hlen'; omega
  obtain ⟨past'', cur'', fut'', i'', hget⟩ := redoNC_inv b.length _ past' cur' fut' i'
    (by omega) (by simp only [Nat.zero_add, List.length_append] at hredo ⊢; omega)
  have hcur : cur'' = (runEditsC h (a ++ b)).doc := by
    have hall : (past'.reverse ++ cur' :: fut')[past'.length + b.length]? = some cur'' := by
      rw [List.getElem?_append_right (by simp)]
      simpa using hget
    rw [hch', hch] at hall
    simp only [List.reverse_nil, List.nil_append] at hall
    have : past'.length + b.length = (a ++ b).length := by simp [hpa]
    rw [this, ← List.append_assoc, statesC_get] at hall
    exact (Option.some.inj hall).symm
  subst hcur
  exact ⟨i''.wf, i''.wfc, i''.eqv⟩

theorem undo_runC_marshal {H : Home} {h : Hist} (w : WF H h.doc) (bd : Bounded h.doc h.lamport)
    (a b : List EditC) (ok : EditsOkC H h (a ++ b)) (hb : b.length ≤ maxDepth)
    (root : live (runEditsC h a).doc rootId = true) (fuel : Nat) :
    marshal (undoN b.length (runEditsC h (a ++ b))).doc fuel rootId = marshal (runEditsC h a).doc fuel rootId := by
  obtain ⟨w1, w2, e⟩ := undoN_runC_eqv w bd a b ok hb
  apply marshal_eqv w1 w2 e
  rw [e.live]
  exact root

theorem redo_runC_marshal {H : Home} {h : Hist} (w : WF H h.doc) (bd : Bounded h.doc h.lamport)
    (a b c : List EditC) (ok : EditsOkC H h (a ++ (b ++ c))) (hb : (b ++ c).length ≤ maxDepth)
    (root : live (runEditsC h (a ++ b)).doc rootId = true) (fuel : Nat) :
    marshal (redoN b.length (undoN (b ++ c).length (runEditsC h (a ++ (b ++ c))))).doc fuel rootId =
      marshal (runEditsC h (a ++ b)).doc fuel rootId := by
  obtain ⟨w1, w2, e⟩ := redoN_runC_eqv w bd a b c ok hb
  apply marshal_eqv w1 w2 e
  rw [e.live]
  exact root

/-! ### decidable executability (for concrete runs) -/

def checkRemoveC (d : Doc) (p u : Ticket) (k : String) : Bool :=
  match d u with
  | none => false
  | some ue =>
    isObj d p && (winner d p k == some u) && treeBelowTB d copyFuel u ue.body &&
    decide (((copyBody d copyFuel u ue.body).2.map (·.1)).Nodup) &&
    !(decide (p ∈ u :: (copyBody d copyFuel u ue.body).2.map (·.1))) &&
    !(orphaned (kill d (some u)) noTw orphanFuel p)

def checkEditC (H : Home) (d : Doc) (ts : Ticket) : EditC → Bool
  | .leaf e => checkOp H noTw d (e.op ts)
  | .removeC p u => checkRemoveC d p u (H.key u)
  | .setOverC p k v =>
    leafBody v.body && (H.key ts == k) && (H.par ts == some p) &&
    match winner d p k with
    | some u => checkRemoveC d p u k
    | none => false

def checkCRun (H : Home) : Hist → List EditC → Bool
  | _, [] => true
  | h, e :: es => checkEditC H h.doc h.next e && checkCRun H (doEditC h e) es

theorem checkRemoveC_ok {d : Doc} {p u : Ticket} {k : String} (h : checkRemoveC d p u k = true) :
    ∃ ue, RemoveCOk d p u k ue := by
  unfold checkRemoveC at h
  cases hu : d u with
  | none => simp [hu] at h
  | some ue =>
    simp only [hu, Bool.and_eq_true, beq_iff_eq, decide_eq_true_eq, Bool.not_eq_true', decide_eq_false_iff_not] at h
    obtain ⟨⟨⟨⟨⟨h1, h2⟩, h3⟩, h4⟩, h5⟩, h6⟩ := h
    exact ⟨ue, h1, h2, hu, treeBelowTB_sound _ _ _ h3, h4, h5, h6⟩

theorem checkCRun_ok {H : Home} : ∀ {es : List EditC} {h : Hist}, checkCRun H h es = true → EditsOkC H h es
  | [], _, _ => trivial
  | e :: es, h, hc => by
    simp only [checkCRun, Bool.and_eq_true] at hc
    refine ⟨?_, checkCRun_ok hc.2⟩
    cases e with
    | leaf e => exact checkOp_good hc.1
    | removeC p u =>
      obtain ⟨ue, ok⟩ := checkRemoveC_ok hc.1
      exact ⟨_, ue, ok⟩
    | setOverC p k v =>
      have h1 := hc.1
      simp only [checkEditC, Bool.and_eq_true, beq_iff_eq] at h1
      obtain ⟨⟨⟨hv, hk⟩, hp⟩, hw⟩ := h1
      cases hwin : winner h.doc p k with
      | none => rw [hwin] at hw; cases hw
      | some u =>
        rw [hwin] at hw
        obtain ⟨ue, ok⟩ := checkRemoveC_ok hw
        exact ⟨u, ue, ok, hv, hk, hp⟩

/-! ### a run on `{"o":{"x":1,"y":[2]}}` -/

namespace Nested

/-- homes for the tickets the run creates: `o.z`, `w` and the second `o` -/
def HNC : Home := ((HN.update ⟨5, 1, 0⟩ tO "z").update ⟨7, 1, 0⟩ rootId "w").update ⟨6, 1, 0⟩ rootId "o"

theorem wf_dN_C : WF HNC hN.doc :=
  WF_update (WF_update (WF_update wf_dN bounded_dN (by decide) _ _) bounded_dN (by decide) _ _) bounded_dN
    (by decide) _ _

/-- `o.z = 5 ; delete o ; w = 7` -/
def exNRun : List EditC :=
  [.leaf (.set tO "z" (.prim "5")), .removeC rootId tO, .leaf (.set rootId "w" (.prim "7"))]

theorem exNRun_ok : checkCRun HNC hN exNRun = true := by decide

/-- `o.z = 5 ; o = 9 ; w = 7` -/
def exNRun2 : List EditC :=
  [.leaf (.set tO "z" (.prim "5")), .setOverC rootId "o" (.prim "9"), .leaf (.set rootId "w" (.prim "7"))]

theorem exNRun2_ok : checkCRun HNC hN exNRun2 = true := by decide

/-- `delete o.x ; delete o ; w = 7`: the deleted value contains a tombstone -/
def exNRun3 : List EditC :=
  [.leaf (.remove tO tX), .removeC rootId tO, .leaf (.set rootId "w" (.prim "7"))]

theorem exNRun3_ok : checkCRun HNC hN exNRun3 = true := by decide

end Nested

end Yorkie.Undo
