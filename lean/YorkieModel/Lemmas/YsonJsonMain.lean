/-
C18, text level, part B3: parsing `marshalP v`.  Core Lean only.
-/
import YorkieModel.Lemmas.YsonJson
import YorkieModel.Lemmas.YsonCanon
namespace Yorkie.Yson

/-! ### one step of the object / array loops, with the sub-results as hypotheses -/

theorem skipWs_cons {c : Nat} {r : Str} (h : isWs c = false) : skipWs (c :: r) = c :: r := by
  simp [skipWs, h]

theorem pMembers_more {f : Nat} {k : Str} {j : J} {kvs : List (Str × J)} {T0 T1 T2 rest : Str}
    (hk : jString T0 = some (k, 58 :: T1)) (h1 : skipWs T1 = T1)
    (hv : pValue f T1 = some (j, 44 :: T2)) (h2 : skipWs T2 = T2)
    (hm : pMembers f T2 = some (kvs, rest)) :
    pMembers (f + 1) (34 :: T0) = some ((k, j) :: kvs, rest) := by
  simp [pMembers, hk, skipWs_cons, isWs, h1, hv, h2, hm]

theorem pMembers_last {f : Nat} {k : Str} {j : J} {T0 T1 rest : Str}
    (hk : jString T0 = some (k, 58 :: T1)) (h1 : skipWs T1 = T1)
    (hv : pValue f T1 = some (j, 125 :: rest)) :
    pMembers (f + 1) (34 :: T0) = some ([(k, j)], rest) := by
  simp [pMembers, hk, skipWs_cons, isWs, h1, hv]

theorem pElems_more {f : Nat} {j : J} {xs : List J} {T1 T2 rest : Str}
    (hv : pValue f T1 = some (j, 44 :: T2)) (h2 : skipWs T2 = T2)
    (hm : pElems f T2 = some (xs, rest)) :
    pElems (f + 1) T1 = some (j :: xs, rest) := by
  simp [pElems, skipWs_cons, isWs, hv, h2, hm]

theorem pElems_last {f : Nat} {j : J} {T1 rest : Str}
    (hv : pValue f T1 = some (j, 93 :: rest)) :
    pElems (f + 1) T1 = some ([j], rest) := by
  simp [pElems, skipWs_cons, isWs, hv]

theorem pValue_obj {f : Nat} {kvs : List (Str × J)} {T rest : Str}
    (hm : pMembers f (34 :: T) = some (kvs, rest)) :
    pValue (f + 1) (123 :: 34 :: T) = some (.obj (canonKvs kvs), rest) := by
  simp [pValue, skipWs_cons, isWs, hm]

theorem pValue_obj_empty {f : Nat} {rest : Str} : pValue (f + 1) (123 :: 125 :: rest) = some (.obj [], rest) := by
  simp [pValue, skipWs_cons, isWs]

theorem pValue_arr_empty {f : Nat} {rest : Str} : pValue (f + 1) (91 :: 93 :: rest) = some (.arr [], rest) := by
  simp [pValue, skipWs_cons, isWs]

theorem pValue_arr {f : Nat} {xs : List J} {c : Nat} {T rest : Str} (hc : isWs c = false) (h93 : c ≠ 93)
    (hm : pElems f (c :: T) = some (xs, rest)) :
    pValue (f + 1) (91 :: c :: T) = some (.arr xs, rest) := by
  simp [pValue, skipWs_cons, hc, h93, hm]

theorem pValue_str {f : Nat} {s rest : Str} (hw : wfStr s = true) :
    pValue (f + 1) (quote s ++ rest) = some (.str s, rest) := by
  have : quote s ++ rest = 34 :: (quoteBody s ++ 34 :: rest) := by simp [quote]
  rw [this]
  simp [pValue, jString_quote s rest hw]

/-- a string literal without anything to escape (base64, date, constant names) -/
theorem pValue_rawStr {f : Nat} {s rest : Str} (hk : s.any keyNeedsEscape = false) :
    pValue (f + 1) (34 :: (s ++ 34 :: rest)) = some (.str s, rest) := by
  simp [pValue, jString_key s rest hk]

/-! ### a typed wrapper `{"type":"T","value":body}` -/

theorem canon_wrap (ty : Str) (j : J) : canonKvs [(sType, J.str ty), (sValue, j)] = [(sType, .str ty), (sValue, j)] :=
  canonKvs_sorted (sortedK_of_sortedKeys (by simp only [List.map_cons, List.map_nil]; decide))

theorem pValue_wrap {f : Nat} {ty : Str} {j : J} {body rest : Str}
    (hty : ty.any keyNeedsEscape = false)
    (hb : skipWs (body ++ 125 :: rest) = body ++ 125 :: rest)
    (hv : pValue f (body ++ 125 :: rest) = some (j, 125 :: rest)) :
    pValue (f + 3) (cp%"{\"type\":\"" ++ ty ++ cp%"\",\"value\":" ++ body ++ 125 :: rest)
      = some (wrapJ ty j, rest) := by
  have e : cp%"{\"type\":\"" ++ ty ++ cp%"\",\"value\":" ++ body ++ 125 :: rest
      = 123 :: 34 :: (sType ++ 34 :: 58 :: (34 :: (ty ++ 34 :: 44 :: (34 :: (sValue ++ 34 :: 58 :: (body ++ 125 :: rest)))))) := by
    simp [sType, sValue]
  rw [e]
  have hlast : pMembers (f + 1) (34 :: (sValue ++ 34 :: 58 :: (body ++ 125 :: rest))) = some ([(sValue, j)], rest) :=
    pMembers_last (jString_key sValue _ (by decide)) hb hv
  have hfirst : pMembers (f + 2) (34 :: (sType ++ 34 :: 58 :: (34 :: (ty ++ 34 :: 44 :: (34 :: (sValue ++ 34 :: 58 :: (body ++ 125 :: rest)))))))
      = some ([(sType, .str ty), (sValue, j)], rest) :=
    pMembers_more (jString_key sType _ (by decide)) (skipWs_cons (by decide)) (pValue_rawStr hty)
      (skipWs_cons (by decide)) hlast
  rw [pValue_obj hfirst, canon_wrap]
  rfl

/-! ### attribute objects: printed in the order of the rendered strings, read back by key -/

def insertAttr (x : Str × Str) : Attrs → Attrs
  | [] => [x]
  | y :: r => if strLt (renderAttr y) (renderAttr x) then y :: insertAttr x r else x :: y :: r

/-- the order in which `Marshal` prints the attributes -/
def sortAttrs : Attrs → Attrs
  | [] => []
  | x :: r => insertAttr x (sortAttrs r)

theorem insertStr_map (x : Str × Str) : ∀ (l : Attrs),
    insertStr (renderAttr x) (l.map renderAttr) = (insertAttr x l).map renderAttr
  | [] => rfl
  | y :: r => by
    simp only [List.map_cons, insertStr, insertAttr]
    split
    · simp [insertStr_map x r]
    · rfl

theorem sortStrs_map : ∀ (a : Attrs), sortStrs (a.map renderAttr) = (sortAttrs a).map renderAttr
  | [] => rfl
  | x :: r => by simp [sortStrs, sortAttrs, sortStrs_map r, insertStr_map]

theorem insertAttr_perm (x : Str × Str) : ∀ (l : Attrs), (insertAttr x l).Perm (x :: l)
  | [] => List.Perm.refl _
  | y :: r => by
    simp only [insertAttr]
    split
    · exact ((insertAttr_perm x r).cons y).trans (List.Perm.swap x y r)
    · exact List.Perm.refl _

theorem sortAttrs_perm : ∀ (a : Attrs), (sortAttrs a).Perm a
  | [] => List.Perm.refl _
  | x :: r => (insertAttr_perm x (sortAttrs r)).trans ((sortAttrs_perm r).cons x)

theorem attrsJ_eq_map (a : Attrs) : attrsJ a = a.map (fun p => (p.1, J.str p.2)) := by
  induction a with
  | nil => rfl
  | cons p r ih => obtain ⟨k, v⟩ := p; simp [attrsJ, ih]

/-- what the reader needs to know about one attribute -/
def AttrOK (p : Str × Str) : Prop :=
  wfStr p.1 = true ∧ wfStr p.2 = true

theorem renderAttr_cons (p : Str × Str) (T : Str) :
    renderAttr p ++ T = 34 :: (quoteBody p.1 ++ 34 :: 58 :: (34 :: (quoteBody p.2 ++ 34 :: T))) := by
  simp [renderAttr, quote]

theorem pMembers_attrs : ∀ (P : Attrs) (f : Nat) (rest : Str), P ≠ [] → (∀ p ∈ P, AttrOK p) →
    (joinWith [44] (P.map renderAttr)).length < f →
    pMembers f (joinWith [44] (P.map renderAttr) ++ 125 :: rest) = some (attrsJ P, rest)
  | [], _, _, h, _, _ => absurd rfl h
  | [p], f, rest, _, hok, hf => by
    obtain ⟨h1, h2⟩ := hok p (List.mem_cons_self)
    have hl : (renderAttr p).length ≥ 5 := by simp [renderAttr, quote]; omega
    simp only [List.map_cons, List.map_nil, joinWith] at hf ⊢
    obtain ⟨f', rfl⟩ : ∃ f', f = f' + 2 := ⟨f - 2, by omega⟩
    rw [renderAttr_cons]
    obtain ⟨k, v⟩ := p
    have hv : pValue (f' + 1) (34 :: (quoteBody v ++ 34 :: 125 :: rest)) = some (.str v, 125 :: rest) := by
      have := pValue_str (f := f') (rest := 125 :: rest) h2
      simpa [quote] using this
    exact pMembers_last (jString_quote k _ h1) (skipWs_cons (by decide)) hv
  | p :: q :: r, f, rest, _, hok, hf => by
    obtain ⟨h1, h2⟩ := hok p (List.mem_cons_self)
    have hl : (renderAttr p).length ≥ 5 := by simp [renderAttr, quote]; omega
    simp only [List.map_cons, joinWith, List.length_append, List.length_cons, List.length_nil] at hf
    obtain ⟨f', rfl⟩ : ∃ f', f = f' + 2 := ⟨f - 2, by omega⟩
    have ih := pMembers_attrs (q :: r) (f' + 1) rest (List.cons_ne_nil _ _)
      (fun x hx => hok x (List.mem_cons_of_mem _ hx)) (by simp only [List.map_cons]; omega)
    have e : joinWith [44] (List.map renderAttr (p :: q :: r)) ++ 125 :: rest
        = renderAttr p ++ 44 :: (joinWith [44] (List.map renderAttr (q :: r)) ++ 125 :: rest) := by
      simp [joinWith]
    rw [e, renderAttr_cons]
    obtain ⟨k, v⟩ := p
    have hv : pValue (f' + 1) (34 :: (quoteBody v ++ 34 :: 44 ::
        (joinWith [44] (List.map renderAttr (q :: r)) ++ 125 :: rest)))
        = some (.str v, 44 :: (joinWith [44] (List.map renderAttr (q :: r)) ++ 125 :: rest)) := by
      have := pValue_str (f := f') (rest := 44 :: (joinWith [44] (List.map renderAttr (q :: r)) ++ 125 :: rest)) h2
      simpa [quote] using this
    have hs : skipWs (joinWith [44] (List.map renderAttr (q :: r)) ++ 125 :: rest)
        = joinWith [44] (List.map renderAttr (q :: r)) ++ 125 :: rest := by
      cases r with
      | nil => simp [joinWith, renderAttr, quote, skipWs, isWs]
      | cons _ _ => simp [joinWith, renderAttr, quote, skipWs, isWs]
    simpa [attrsJ] using pMembers_more (jString_quote k _ h1) (skipWs_cons (by decide)) hv hs ih

theorem attrOK_of_safe : ∀ {a : Attrs}, wfAttrs a = true → (attrAtoms a).all Atom.safe = true → ∀ p ∈ a, AttrOK p
  | [], _, _, p, hp => by simp at hp
  | (k, v) :: r, hw, hs, p, hp => by
    simp only [wfAttrs, List.map_cons, List.all_cons, Bool.and_eq_true] at hw
    simp only [attrAtoms, List.all_cons, Bool.and_eq_true] at hs
    rcases List.mem_cons.mp hp with rfl | hp
    · exact ⟨hw.2.1.1, hw.2.1.2⟩
    · have hw' : wfAttrs r = true := by
        simp only [wfAttrs, Bool.and_eq_true]
        refine ⟨?_, hw.2.2⟩
        cases r with
        | nil => rfl
        | cons _ _ =>
          have := hw.1
          simp only [List.map_cons, sortedKeys, Bool.and_eq_true] at this
          simpa using this.2
      exact attrOK_of_safe hw' hs.2.2 p hp

theorem joinWith_cons_exists (x : Str) (r : List Str) (T : Str) :
    ∃ T', joinWith [44] (x :: r) ++ T = x ++ T' := by
  cases r with
  | nil => exact ⟨T, by simp [joinWith]⟩
  | cons y r => exact ⟨[44] ++ joinWith [44] (y :: r) ++ T, by simp [joinWith]⟩

/-- `{` attrs `}` for a non-empty attribute map -/
theorem pValue_attrsObj {a : Attrs} {f : Nat} {rest : Str} (ha : a ≠ []) (hw : wfAttrs a = true)
    (hs : (attrAtoms a).all Atom.safe = true) (hf : (renderAttrs a).length + 1 < f) :
    pValue f (123 :: (renderAttrs a ++ 125 :: rest)) = some (.obj (attrsJ a), rest) := by
  have hperm := sortAttrs_perm a
  have hne : sortAttrs a ≠ [] := by
    intro h0; rw [h0] at hperm; exact ha (List.Perm.nil_eq hperm).symm
  have hok : ∀ p ∈ sortAttrs a, AttrOK p := fun p hp => attrOK_of_safe hw hs p (hperm.mem_iff.mp hp)
  obtain ⟨f', rfl⟩ : ∃ f', f = f' + 1 := ⟨f - 1, by omega⟩
  simp only [renderAttrs, sortStrs_map] at hf ⊢
  have hm := pMembers_attrs (sortAttrs a) f' rest hne hok (by omega)
  have hhead : ∃ T, joinWith [44] (List.map renderAttr (sortAttrs a)) ++ 125 :: rest = 34 :: T := by
    cases hsa : sortAttrs a with
    | nil => exact absurd hsa hne
    | cons p r =>
      obtain ⟨T', hT'⟩ := joinWith_cons_exists (renderAttr p) (r.map renderAttr) (125 :: rest)
      exact ⟨_, by rw [List.map_cons, hT', renderAttr_cons]⟩
  obtain ⟨T, hT⟩ := hhead
  rw [hT] at hm ⊢
  rw [pValue_obj hm]
  have hsorted : SortedK (attrsJ a) := by
    apply sortedK_of_sortedKeys
    simp only [wfAttrs, Bool.and_eq_true] at hw
    have : (attrsJ a).map (·.1) = a.map (·.1) := by simp [attrsJ_eq_map]
    rw [this]; exact hw.1
  have hp2 : (attrsJ (sortAttrs a)).Perm (attrsJ a) := by
    rw [attrsJ_eq_map, attrsJ_eq_map]; exact hperm.map _
  rw [canonKvs_perm hp2 hsorted]

/-! ### text runs -/

theorem canon_one (k : Str) (x : J) : canonKvs [(k, x)] = [(k, x)] := rfl

theorem canon_val_attrs (x y : J) : canonKvs [(sVal, x), (sAttrs, y)] = [(sAttrs, y), (sVal, x)] :=
  canonKvs_perm (List.Perm.swap _ _ []) (sortedK_of_sortedKeys (by simp only [List.map_cons, List.map_nil]; decide))

theorem quote_cons (s T : Str) : quote s ++ T = 34 :: (quoteBody s ++ 34 :: T) := by simp [quote]

theorem skipWs_quote (s T : Str) : skipWs (quote s ++ T) = quote s ++ T := by
  rw [quote_cons]; exact skipWs_cons (by decide)

theorem pValue_textNode {n : TextNode} {f : Nat} {rest : Str} (hw : n.wf = true)
    (hs : (textNodeAtoms n).all Atom.safe = true) (hf : (marshalTextNode n).length < f) :
    pValue f (marshalTextNode n ++ rest) = some (textNodeJ n, rest) := by
  obtain ⟨val, attrs⟩ := n
  simp only [TextNode.wf, Bool.and_eq_true] at hw
  simp only [textNodeAtoms, List.all_cons, Bool.and_eq_true] at hs
  cases attrs with
  | nil =>
    simp only [marshalTextNode, List.isEmpty_nil, if_true, List.length_append] at hf
    obtain ⟨f', rfl⟩ : ∃ f', f = f' + 3 := ⟨f - 3, by simp at hf; omega⟩
    have e : marshalTextNode ⟨val, []⟩ ++ rest = 123 :: 34 :: (sVal ++ 34 :: 58 :: (quote val ++ 125 :: rest)) := by
      simp [marshalTextNode, sVal]
    rw [e]
    have hm := pMembers_last (f := f' + 1) (jString_key sVal _ (by decide)) (skipWs_quote val _)
      (pValue_str (f := f') (rest := 125 :: rest) hw.1)
    rw [pValue_obj hm, canon_one]
    simp [textNodeJ]
  | cons p r =>
    have hne : (p :: r : Attrs) ≠ [] := List.cons_ne_nil _ _
    simp only [marshalTextNode, List.isEmpty_cons, Bool.false_eq_true, if_false, List.length_append] at hf
    simp only [List.length_cons, List.length_nil] at hf
    obtain ⟨f', rfl⟩ : ∃ f', f = f' + 3 := ⟨f - 3, by omega⟩
    have e : marshalTextNode ⟨val, p :: r⟩ ++ rest
        = 123 :: 34 :: (sVal ++ 34 :: 58 :: (quote val ++ 44 :: (34 :: (sAttrs ++ 34 :: 58 ::
            (123 :: (renderAttrs (p :: r) ++ 125 :: (125 :: rest))))))) := by
      simp [marshalTextNode, sVal, sAttrs]
    rw [e]
    have hobj := pValue_attrsObj (f := f') (rest := 125 :: rest) hne hw.2 hs.2 (by omega)
    have hlast := pMembers_last (f := f') (jString_key sAttrs _ (by decide)) (skipWs_cons (by decide)) hobj
    have hm := pMembers_more (f := f' + 1) (jString_key sVal _ (by decide)) (skipWs_quote val _)
      (pValue_str (f := f') hw.1) (skipWs_cons (by decide)) hlast
    rw [pValue_obj hm, canon_val_attrs]
    simp [textNodeJ]

theorem marshalTextNode_head (n : TextNode) : ∃ T, marshalTextNode n = 123 :: T := by
  simp only [marshalTextNode]
  split
  · exact ⟨cp%"\"val\":" ++ quote n.val ++ cp%"}", by simp⟩
  · exact ⟨cp%"\"val\":" ++ quote n.val ++ cp%",\"attrs\":{" ++ renderAttrs n.attrs ++ cp%"}}", by simp⟩

theorem pElems_textNodes : ∀ (ns : List TextNode) (f : Nat) (rest : Str), ns ≠ [] →
    (∀ n ∈ ns, n.wf = true ∧ (textNodeAtoms n).all Atom.safe = true) →
    (joinWith [44] (ns.map marshalTextNode)).length + 1 < f →
    pElems f (joinWith [44] (ns.map marshalTextNode) ++ 93 :: rest) = some (ns.map textNodeJ, rest)
  | [], _, _, h, _, _ => absurd rfl h
  | [n], f, rest, _, hok, hf => by
    obtain ⟨h1, h2⟩ := hok n (List.mem_cons_self)
    simp only [List.map_cons, List.map_nil, joinWith] at hf ⊢
    obtain ⟨f', rfl⟩ : ∃ f', f = f' + 1 := ⟨f - 1, by omega⟩
    exact pElems_last (pValue_textNode h1 h2 (by omega))
  | n :: m :: r, f, rest, _, hok, hf => by
    obtain ⟨h1, h2⟩ := hok n (List.mem_cons_self)
    simp only [List.map_cons, joinWith, List.length_append, List.length_cons, List.length_nil] at hf
    obtain ⟨f', rfl⟩ : ∃ f', f = f' + 1 := ⟨f - 1, by omega⟩
    have ih := pElems_textNodes (m :: r) f' rest (List.cons_ne_nil _ _)
      (fun x hx => hok x (List.mem_cons_of_mem _ hx)) (by simp only [List.map_cons]; omega)
    have e : joinWith [44] (List.map marshalTextNode (n :: m :: r)) ++ 93 :: rest
        = marshalTextNode n ++ 44 :: (joinWith [44] (List.map marshalTextNode (m :: r)) ++ 93 :: rest) := by
      simp [joinWith]
    rw [e]
    have hsk : skipWs (joinWith [44] (List.map marshalTextNode (m :: r)) ++ 93 :: rest)
        = joinWith [44] (List.map marshalTextNode (m :: r)) ++ 93 :: rest := by
      obtain ⟨T', hT'⟩ := joinWith_cons_exists (marshalTextNode m) (r.map marshalTextNode) (93 :: rest)
      obtain ⟨T, hT⟩ := marshalTextNode_head m
      rw [List.map_cons, hT', hT]
      exact skipWs_cons (by decide)
    simpa using pElems_more (pValue_textNode h1 h2 (by omega)) hsk ih

/-! ### tree nodes -/

theorem canon_type_value (x y : J) : canonKvs [(sType, x), (sValue, y)] = [(sType, x), (sValue, y)] :=
  canonKvs_sorted (sortedK_of_sortedKeys (by simp only [List.map_cons, List.map_nil]; decide))

theorem canon_type_children (x y : J) : canonKvs [(sType, x), (sChildren, y)] = [(sChildren, y), (sType, x)] :=
  canonKvs_perm (List.Perm.swap _ _ []) (sortedK_of_sortedKeys (by simp only [List.map_cons, List.map_nil]; decide))

theorem canon_type_attrs_children (x y z : J) :
    canonKvs [(sType, x), (sAttrs, y), (sChildren, z)] = [(sAttrs, y), (sChildren, z), (sType, x)] :=
  canonKvs_perm (List.perm_append_comm (l₁ := [(sType, x)]) (l₂ := [(sAttrs, y), (sChildren, z)]))
    (sortedK_of_sortedKeys (by simp only [List.map_cons, List.map_nil]; decide))

theorem marshalTree_head (r : TreeNode) : ∃ T, marshalTree r = 123 :: T := by
  rw [marshalTree_eq]; exact ⟨_, rfl⟩

/-- the `"children":[…]` value, given the parse of a non-empty child list -/
theorem pValue_kids {c : List TreeNode} {f : Nat} {rest : Str}
    (hkids : c ≠ [] → pElems f (joinWith [44] (marshalTreeList c) ++ 93 :: rest) = some (treeJList c, rest)) :
    pValue (f + 1) (91 :: (joinWith [44] (marshalTreeList c) ++ 93 :: rest)) = some (.arr (treeJList c), rest) := by
  cases c with
  | nil => simpa [marshalTreeList, joinWith, treeJList] using pValue_arr_empty (f := f) (rest := rest)
  | cons x r =>
    have h := hkids (List.cons_ne_nil _ _)
    obtain ⟨T', hT'⟩ := joinWith_cons_exists (marshalTree x) (marshalTreeList r) (93 :: rest)
    obtain ⟨T, hT⟩ := marshalTree_head x
    simp only [marshalTreeList] at h ⊢
    rw [hT', hT] at h ⊢
    exact pValue_arr (by decide) (by decide) h

mutual
theorem pValue_tree : ∀ (r : TreeNode) (f : Nat) (rest : Str), r.wf = true → (treeAtoms r).all Atom.safe = true →
    (marshalTree r).length < f → pValue f (marshalTree r ++ rest) = some (treeJ r, rest)
  | .mk ty v a c, f, rest, hw, hs, hf => by
    simp only [TreeNode.wf, Bool.and_eq_true] at hw
    obtain ⟨⟨⟨⟨hwty, hwv⟩, hwa⟩, _⟩, hwc⟩ := hw
    simp only [treeAtoms, List.all_cons, Bool.and_eq_true] at hs
    obtain ⟨hty, hv, hrest⟩ := hs
    obtain ⟨ha, hc⟩ := all_safe_append hrest
    by_cases htext : (ty == sText) = true
    · -- {"type":Q,"value":Q}
      simp only [marshalTree, htext, if_true, List.length_append, List.length_cons, List.length_nil] at hf
      obtain ⟨f', rfl⟩ : ∃ f', f = f' + 4 := ⟨f - 4, by omega⟩
      have e : marshalTree (.mk ty v a c) ++ rest
          = 123 :: 34 :: (sType ++ 34 :: 58 :: (quote ty ++ 44 :: (34 :: (sValue ++ 34 :: 58 ::
              (quote v ++ 125 :: rest))))) := by
        simp [marshalTree, htext, sType, sValue]
      rw [e]
      have hlast := pMembers_last (f := f' + 1) (jString_key sValue _ (by decide)) (skipWs_quote v _)
        (pValue_str (f := f') (rest := 125 :: rest) hwv)
      have hm := pMembers_more (f := f' + 2) (jString_key sType _ (by decide)) (skipWs_quote ty _)
        (pValue_str (f := f' + 1) hwty) (skipWs_cons (by decide)) hlast
      rw [pValue_obj hm, canon_type_value]
      simp [treeJ, htext]
    · have htext' : (ty == sText) = false := by simpa using htext
      cases a with
      | nil =>
        -- {"type":Q,"children":[…]}
        simp only [marshalTree, htext', Bool.false_eq_true, if_false, List.isEmpty_nil, if_true,
          List.length_append, List.length_cons, List.length_nil] at hf
        obtain ⟨f', rfl⟩ : ∃ f', f = f' + 5 := ⟨f - 5, by omega⟩
        have e : marshalTree (.mk ty v [] c) ++ rest
            = 123 :: 34 :: (sType ++ 34 :: 58 :: (quote ty ++ 44 :: (34 :: (sChildren ++ 34 :: 58 ::
                (91 :: (joinWith [44] (marshalTreeList c) ++ 93 :: (125 :: rest))))))) := by
          simp [marshalTree, htext', sType, sChildren]
        rw [e]
        have hkids := pValue_kids (c := c) (f := f' + 1) (rest := 125 :: rest)
          (fun hne => pElems_treeList c (f' + 1) _ hne hwc hc (by omega))
        have hlast := pMembers_last (f := f' + 2) (jString_key sChildren _ (by decide)) (skipWs_cons (by decide)) hkids
        have hm := pMembers_more (f := f' + 3) (jString_key sType _ (by decide)) (skipWs_quote ty _)
          (pValue_str (f := f' + 2) hwty) (skipWs_cons (by decide)) hlast
        rw [pValue_obj hm, canon_type_children]
        simp [treeJ, htext']
      | cons p r =>
        -- {"type":Q,"attrs":{…},"children":[…]}
        have hne : (p :: r : Attrs) ≠ [] := List.cons_ne_nil _ _
        simp only [marshalTree, htext', Bool.false_eq_true, if_false, List.isEmpty_cons,
          List.length_append, List.length_cons, List.length_nil] at hf
        obtain ⟨f', rfl⟩ : ∃ f', f = f' + 5 := ⟨f - 5, by omega⟩
        have e : marshalTree (.mk ty v (p :: r) c) ++ rest
            = 123 :: 34 :: (sType ++ 34 :: 58 :: (quote ty ++ 44 :: (34 :: (sAttrs ++ 34 :: 58 ::
                (123 :: (renderAttrs (p :: r) ++ 125 :: (44 :: (34 :: (sChildren ++ 34 :: 58 ::
                  (91 :: (joinWith [44] (marshalTreeList c) ++ 93 :: (125 :: rest)))))))))))) := by
          simp [marshalTree, htext', sType, sAttrs, sChildren]
        rw [e]
        have hkids := pValue_kids (c := c) (f := f') (rest := 125 :: rest)
          (fun hne => pElems_treeList c f' _ hne hwc hc (by omega))
        have hlast := pMembers_last (f := f' + 1) (jString_key sChildren _ (by decide)) (skipWs_cons (by decide)) hkids
        have hobj := pValue_attrsObj (f := f' + 2)
          (rest := 44 :: (34 :: (sChildren ++ 34 :: 58 :: (91 :: (joinWith [44] (marshalTreeList c) ++ 93 :: (125 :: rest))))))
          hne hwa ha (by omega)
        have hmid := pMembers_more (f := f' + 2) (jString_key sAttrs _ (by decide)) (skipWs_cons (by decide)) hobj
          (skipWs_cons (by decide)) hlast
        have hm := pMembers_more (f := f' + 3) (jString_key sType _ (by decide)) (skipWs_quote ty _)
          (pValue_str (f := f' + 2) hwty) (skipWs_cons (by decide)) hmid
        rw [pValue_obj hm, canon_type_attrs_children]
        simp [treeJ, htext']
theorem pElems_treeList : ∀ (c : List TreeNode) (f : Nat) (rest : Str), c ≠ [] → TreeNode.wfList c = true →
    (treeAtomsList c).all Atom.safe = true → (joinWith [44] (marshalTreeList c)).length + 1 < f →
    pElems f (joinWith [44] (marshalTreeList c) ++ 93 :: rest) = some (treeJList c, rest)
  | [], _, _, h, _, _, _ => absurd rfl h
  | [x], f, rest, _, hw, hs, hf => by
    simp only [TreeNode.wfList, Bool.and_eq_true] at hw
    simp only [treeAtomsList] at hs
    obtain ⟨hs1, _⟩ := all_safe_append hs
    simp only [marshalTreeList, joinWith] at hf ⊢
    obtain ⟨f', rfl⟩ : ∃ f', f = f' + 1 := ⟨f - 1, by omega⟩
    exact pElems_last (pValue_tree x f' _ hw.1 hs1 (by omega))
  | x :: y :: r, f, rest, _, hw, hs, hf => by
    simp only [TreeNode.wfList, Bool.and_eq_true] at hw
    have hs' : (treeAtoms x ++ treeAtomsList (y :: r)).all Atom.safe = true := by
      simpa only [treeAtomsList] using hs
    obtain ⟨hs1, hs2⟩ := all_safe_append hs'
    simp only [marshalTreeList, joinWith, List.length_append, List.length_cons, List.length_nil] at hf
    obtain ⟨f', rfl⟩ : ∃ f', f = f' + 1 := ⟨f - 1, by omega⟩
    have ih := pElems_treeList (y :: r) f' rest (List.cons_ne_nil _ _) (by simpa [TreeNode.wfList] using hw.2)
      hs2 (by simp only [marshalTreeList]; omega)
    have e : joinWith [44] (marshalTreeList (x :: y :: r)) ++ 93 :: rest
        = marshalTree x ++ 44 :: (joinWith [44] (marshalTreeList (y :: r)) ++ 93 :: rest) := by
      simp [marshalTreeList, joinWith]
    rw [e]
    have hsk : skipWs (joinWith [44] (marshalTreeList (y :: r)) ++ 93 :: rest)
        = joinWith [44] (marshalTreeList (y :: r)) ++ 93 :: rest := by
      obtain ⟨T', hT'⟩ := joinWith_cons_exists (marshalTree y) (marshalTreeList r) (93 :: rest)
      obtain ⟨T, hT⟩ := marshalTree_head y
      simp only [marshalTreeList]
      rw [hT', hT]
      exact skipWs_cons (by decide)
    simpa [treeJList] using pElems_more (pValue_tree x f' _ hw.1 hs1 (by omega)) hsk ih
end

/-! ### values -/

theorem numStop_cons {c : Nat} {t : Str} (h : c = 44 ∨ c = 93 ∨ c = 125) : NumStop (c :: t) := by
  intro c' t' heq
  simp only [List.cons.injEq] at heq
  obtain ⟨rfl, _⟩ := heq
  rcases h with rfl | rfl | rfl <;> decide

theorem numStop_nil : NumStop [] := by
  intro c t h; cases h

/-- a number literal starts with a digit or `-` -/
theorem jNumber_head {t a r : Str} (h : jNumber t = some (a, r)) :
    ∃ c u, t = c :: u ∧ (isDigit c = true ∨ c = 45) := by
  cases t with
  | nil => simp [jNumber, jSign, jInt] at h
  | cons c u =>
    refine ⟨c, u, rfl, ?_⟩
    by_cases hc : c = 45
    · exact Or.inr hc
    · left
      have hs : jSign (c :: u) = ([], c :: u) := by
        simp only [jSign]
        split
        · rename_i heq; simp at heq; exact absurd heq.1 hc
        · rfl
      simp only [jNumber, hs] at h
      split at h
      · simp at h
      · rename_i hi
        simp only [jInt] at hi
        split at hi
        · rename_i h48
          have : c = 48 := by simpa using h48
          subst this; decide
        · split at hi
          · assumption
          · simp at hi

theorem not_ws_of_numHead {c : Nat} (h : isDigit c = true ∨ c = 45) :
    isWs c = false ∧ c ≠ 123 ∧ c ≠ 91 ∧ c ≠ 34 ∧ c ≠ 110 ∧ c ≠ 116 ∧ c ≠ 102 ∧ c ≠ 93 ∧ c ≠ 125 := by
  rcases h with h | rfl
  · simp only [isDigit, Bool.and_eq_true, decide_eq_true_eq] at h
    simp only [isWs, Bool.or_eq_false_iff, beq_eq_false_iff_ne]
    omega
  · decide

theorem pValue_num {f c : Nat} {u a rest : Str} (hc : isDigit c = true ∨ c = 45)
    (hj : jNumber (c :: u) = some (a, rest)) :
    pValue (f + 1) (c :: u) = some (.num (numTokOfText a), rest) := by
  obtain ⟨_, h1, h2, h3, h4, h5, h6, _, _⟩ := not_ws_of_numHead hc
  simp [pValue, h1, h2, h3, h4, h5, h6, hj]

theorem showInt_head (n : Int) : ∃ c u, showInt n = c :: u ∧ (isDigit c = true ∨ c = 45) :=
  jNumber_head (isJsonNumber_spec (isJsonNumber_showInt n))

theorem pValue_showInt {f : Nat} (n : Int) {rest : Str} (hs : NumStop rest) :
    pValue (f + 1) (showInt n ++ rest) = some (.num (.int n), rest) := by
  obtain ⟨c, u, hcu, hc⟩ := showInt_head n
  have hj := jNumber_showInt n hs
  rw [hcu] at hj ⊢
  have := pValue_num (f := f) hc (by simpa using hj)
  rw [← hcu, numTokOfText_showInt] at this
  simpa using this

theorem skipWs_showInt (n : Int) (rest : Str) : skipWs (showInt n ++ rest) = showInt n ++ rest := by
  obtain ⟨c, u, hcu, hc⟩ := showInt_head n
  rw [hcu]
  exact skipWs_cons (not_ws_of_numHead hc).1

/-! ### the first character of a value's text -/

theorem marshalP_head : ∀ (v : Yson), v.wf = true → (atoms v).all Atom.safe = true →
    ∃ c T, marshalP v = c :: T ∧ isWs c = false ∧ c ≠ 93 ∧ c ≠ 125
  | .null, _, _ => ⟨_, _, rfl, by decide, by decide, by decide⟩
  | .bool true, _, _ => ⟨_, _, rfl, by decide, by decide, by decide⟩
  | .bool false, _, _ => ⟨_, _, rfl, by decide, by decide, by decide⟩
  | .double .nan, _, hs => by simp [atoms, not_safe_nan] at hs
  | .double .posInf, _, hs => by simp [atoms, not_safe_posInf] at hs
  | .double .negInf, _, hs => by simp [atoms, not_safe_negInf] at hs
  | .double (.fin t), hw, _ => by
    simp only [Yson.wf] at hw
    obtain ⟨c, u, hcu, hc⟩ := jNumber_head (isJsonNumber_spec hw)
    have := not_ws_of_numHead hc
    exact ⟨c, u, by simp [marshalP, marshalDbl, hcu], this.1, this.2.2.2.2.2.2.2.1, this.2.2.2.2.2.2.2.2⟩
  | .str s, _, _ => ⟨34, quoteBody s ++ [34], by simp [marshalP, quote], by decide, by decide, by decide⟩
  | .int a, _, _ => ⟨123, (marshalP (.int a)).tail, by simp [marshalP], by decide, by decide, by decide⟩
  | .long a, _, _ => ⟨123, (marshalP (.long a)).tail, by simp [marshalP], by decide, by decide, by decide⟩
  | .bytes a, _, _ => ⟨123, (marshalP (.bytes a)).tail, by simp [marshalP], by decide, by decide, by decide⟩
  | .date a, _, _ => ⟨123, (marshalP (.date a)).tail, by simp [marshalP], by decide, by decide, by decide⟩
  | .counter (.int a), _, _ => ⟨123, (marshalP (.counter (.int a))).tail, by simp [marshalP, marshalPCounter], by decide, by decide, by decide⟩
  | .counter (.long a), _, _ => ⟨123, (marshalP (.counter (.long a))).tail, by simp [marshalP, marshalPCounter], by decide, by decide, by decide⟩
  | .counter (.dedup n regs), _, _ =>
    ⟨123, (marshalP (.counter (.dedup n regs))).tail, by simp [marshalP, marshalPCounter, dedupJ], by decide, by decide, by decide⟩
  | .text a, _, _ => ⟨123, (marshalP (.text a)).tail, by simp [marshalP], by decide, by decide, by decide⟩
  | .tree a, _, _ => ⟨123, (marshalP (.tree a)).tail, by simp [marshalP], by decide, by decide, by decide⟩
  | .arr a, _, _ => ⟨91, (marshalP (.arr a)).tail, by simp [marshalP], by decide, by decide, by decide⟩
  | .obj a, _, _ => ⟨123, (marshalP (.obj a)).tail, by simp [marshalP], by decide, by decide, by decide⟩

theorem skipWs_marshalP {v : Yson} (hw : v.wf = true) (hs : (atoms v).all Atom.safe = true) (T : Str) :
    skipWs (marshalP v ++ T) = marshalP v ++ T := by
  obtain ⟨c, u, hcu, hc, _, _⟩ := marshalP_head v hw hs
  rw [hcu]; exact skipWs_cons hc

theorem textNodes_ok : ∀ {ns : List TextNode}, ns.all TextNode.wf = true → (textAtoms ns).all Atom.safe = true →
    ∀ n ∈ ns, n.wf = true ∧ (textNodeAtoms n).all Atom.safe = true
  | [], _, _, n, hn => by simp at hn
  | m :: r, hw, hs, n, hn => by
    simp only [List.all_cons, Bool.and_eq_true] at hw
    simp only [textAtoms] at hs
    obtain ⟨hs1, hs2⟩ := all_safe_append hs
    rcases List.mem_cons.mp hn with rfl | hn
    · exact ⟨hw.1, hs1⟩
    · exact textNodes_ok hw.2 hs2 n hn

theorem canon_dedup (a b c d : J) :
    canonKvs [(sType, a), (sCounterType, b), (sValue, c), (sHll, d)]
      = [(sCounterType, b), (sHll, d), (sType, a), (sValue, c)] := by
  apply canonKvs_perm
  · exact (List.Perm.swap (sCounterType, b) (sType, a) _).trans
      ((List.perm_append_comm (l₁ := [(sType, a), (sValue, c)]) (l₂ := [(sHll, d)])).cons _)
  · exact sortedK_of_sortedKeys (by simp only [List.map_cons, List.map_nil]; decide)

theorem pValue_dedup {f : Nat} (n : Int) (regs : List Nat) {rest : Str} :
    pValue (f + 6) (dedupJ n regs ++ rest) = some (counterJ (.dedup n regs), rest) := by
  have e : dedupJ n regs ++ rest
      = 123 :: 34 :: (sType ++ 34 :: 58 :: (34 :: (sDedupCounter ++ 34 :: 44 :: (34 :: (sCounterType ++ 34 :: 58 ::
          (34 :: (sInt ++ 34 :: 44 :: (34 :: (sValue ++ 34 :: 58 :: (showInt n ++ 44 :: (34 :: (sHll ++ 34 :: 58 ::
            (34 :: (b64Encode regs ++ 34 :: 125 :: rest)))))))))))))) := by
    simp [dedupJ, sType, sDedupCounter, sCounterType, sInt, sValue, sHll]
  rw [e]
  have h4 := pMembers_last (f := f + 1) (jString_key sHll _ (by decide)) (skipWs_cons (by decide))
    (pValue_rawStr (f := f) (rest := 125 :: rest) (b64_raw regs))
  have h3 := pMembers_more (f := f + 2) (jString_key sValue _ (by decide)) (skipWs_showInt n _)
    (pValue_showInt (f := f + 1) n (numStop_cons (Or.inl rfl))) (skipWs_cons (by decide)) h4
  have h2 := pMembers_more (f := f + 3) (jString_key sCounterType _ (by decide)) (skipWs_cons (by decide))
    (pValue_rawStr (f := f + 2) (s := sInt) (by decide)) (skipWs_cons (by decide)) h3
  have h1 := pMembers_more (f := f + 4) (jString_key sType _ (by decide)) (skipWs_cons (by decide))
    (pValue_rawStr (f := f + 3) (s := sDedupCounter) (by decide)) (skipWs_cons (by decide)) h2
  rw [pValue_obj h1, canon_dedup]
  rfl

/-! ### the main statement of part B -/

mutual
theorem pValue_marshalP : ∀ (v : Yson) (f : Nat) (rest : Str), v.wf = true → (atoms v).all Atom.safe = true →
    NumStop rest → (marshalP v).length < f → pValue f (marshalP v ++ rest) = some (toJ v, rest)
  | .null, f, rest, _, _, _, hf => by
    simp only [marshalP, List.length_cons, List.length_nil] at hf
    obtain ⟨f', rfl⟩ : ∃ f', f = f' + 1 := ⟨f - 1, by omega⟩
    simp [marshalP, pValue, stripPrefix, toJ]
  | .bool true, f, rest, _, _, _, hf => by
    simp only [marshalP, List.length_cons, List.length_nil] at hf
    obtain ⟨f', rfl⟩ : ∃ f', f = f' + 1 := ⟨f - 1, by omega⟩
    simp [marshalP, pValue, stripPrefix, toJ]
  | .bool false, f, rest, _, _, _, hf => by
    simp only [marshalP, List.length_cons, List.length_nil] at hf
    obtain ⟨f', rfl⟩ : ∃ f', f = f' + 1 := ⟨f - 1, by omega⟩
    simp [marshalP, pValue, stripPrefix, toJ]
  | .double .nan, _, _, _, hs, _, _ => by simp [atoms, not_safe_nan] at hs
  | .double .posInf, _, _, _, hs, _, _ => by simp [atoms, not_safe_posInf] at hs
  | .double .negInf, _, _, _, hs, _, _ => by simp [atoms, not_safe_negInf] at hs
  | .double (.fin t), f, rest, hw, _, hr, hf => by
    simp only [Yson.wf] at hw
    obtain ⟨f', rfl⟩ : ∃ f', f = f' + 1 := ⟨f - 1, by omega⟩
    have hj := jNumber_append (isJsonNumber_spec hw) hr
    obtain ⟨c, u, hcu, hc⟩ := jNumber_head (isJsonNumber_spec hw)
    simp only [marshalP, marshalDbl, toJ]
    rw [hcu] at hj ⊢
    have := pValue_num (f := f') hc (by simpa using hj)
    simpa using this
  | .str s, f, rest, hw, hs, _, hf => by
    simp only [Yson.wf] at hw
    simp only [atoms, List.all_cons, List.all_nil, Bool.and_true] at hs
    obtain ⟨f', rfl⟩ : ∃ f', f = f' + 1 := ⟨f - 1, by omega⟩
    exact pValue_str hw
  | .int n, f, rest, _, _, _, hf => by
    simp only [marshalP, List.length_append, List.length_cons, List.length_nil] at hf
    obtain ⟨f', rfl⟩ : ∃ f', f = f' + 4 := ⟨f - 4, by omega⟩
    have e : marshalP (.int n) ++ rest = cp%"{\"type\":\"" ++ sInt ++ cp%"\",\"value\":" ++ showInt n ++ 125 :: rest := by
      simp [marshalP, sInt]
    rw [e]
    exact pValue_wrap (by decide) (skipWs_showInt n _) (pValue_showInt n (numStop_cons (Or.inr (Or.inr rfl))))
  | .long n, f, rest, _, _, _, hf => by
    simp only [marshalP, List.length_append, List.length_cons, List.length_nil] at hf
    obtain ⟨f', rfl⟩ : ∃ f', f = f' + 4 := ⟨f - 4, by omega⟩
    have e : marshalP (.long n) ++ rest = cp%"{\"type\":\"" ++ sLong ++ cp%"\",\"value\":" ++ showInt n ++ 125 :: rest := by
      simp [marshalP, sLong]
    rw [e]
    exact pValue_wrap (by decide) (skipWs_showInt n _) (pValue_showInt n (numStop_cons (Or.inr (Or.inr rfl))))
  | .bytes b, f, rest, _, _, _, hf => by
    simp only [marshalP, List.length_append, List.length_cons, List.length_nil] at hf
    obtain ⟨f', rfl⟩ : ∃ f', f = f' + 4 := ⟨f - 4, by omega⟩
    have e : marshalP (.bytes b) ++ rest
        = cp%"{\"type\":\"" ++ sBinData ++ cp%"\",\"value\":" ++ (34 :: (b64Encode b ++ [34])) ++ 125 :: rest := by
      simp [marshalP, sBinData]
    rw [e]
    refine pValue_wrap (by decide) (skipWs_cons (by decide)) ?_
    have := pValue_rawStr (f := f') (rest := 125 :: rest) (b64_raw b)
    simpa using this
  | .date t, f, rest, _, hs, _, hf => by
    simp only [marshalP, List.length_append, List.length_cons, List.length_nil] at hf
    simp only [atoms, List.all_cons, List.all_nil, Bool.and_true] at hs
    obtain ⟨f', rfl⟩ : ∃ f', f = f' + 4 := ⟨f - 4, by omega⟩
    have e : marshalP (.date t) ++ rest
        = cp%"{\"type\":\"" ++ sDate ++ cp%"\",\"value\":" ++ (34 :: (t ++ [34])) ++ 125 :: rest := by
      simp [marshalP, sDate]
    rw [e]
    refine pValue_wrap (by decide) (skipWs_cons (by decide)) ?_
    have := pValue_rawStr (f := f') (rest := 125 :: rest) (date_raw (safe_date hs))
    simpa using this
  | .counter (.int n), f, rest, _, _, _, hf => by
    simp only [marshalP, marshalPCounter, List.length_append, List.length_cons, List.length_nil] at hf
    obtain ⟨f', rfl⟩ : ∃ f', f = f' + 7 := ⟨f - 7, by omega⟩
    have e : marshalP (.counter (.int n)) ++ rest
        = cp%"{\"type\":\"" ++ sCounter ++ cp%"\",\"value\":"
            ++ (cp%"{\"type\":\"" ++ sInt ++ cp%"\",\"value\":" ++ showInt n ++ [125]) ++ 125 :: rest := by
      simp [marshalP, marshalPCounter, sCounter, sInt]
    rw [e]
    refine pValue_wrap (f := f' + 4) (by decide) (by simp [skipWs, isWs]) ?_
    have := pValue_wrap (f := f' + 1) (ty := sInt) (rest := 125 :: rest) (by decide) (skipWs_showInt n _)
      (pValue_showInt (f := f') n (numStop_cons (Or.inr (Or.inr rfl))))
    simpa [toJ, counterJ] using this
  | .counter (.long n), f, rest, _, _, _, hf => by
    simp only [marshalP, marshalPCounter, List.length_append, List.length_cons, List.length_nil] at hf
    obtain ⟨f', rfl⟩ : ∃ f', f = f' + 7 := ⟨f - 7, by omega⟩
    have e : marshalP (.counter (.long n)) ++ rest
        = cp%"{\"type\":\"" ++ sCounter ++ cp%"\",\"value\":"
            ++ (cp%"{\"type\":\"" ++ sLong ++ cp%"\",\"value\":" ++ showInt n ++ [125]) ++ 125 :: rest := by
      simp [marshalP, marshalPCounter, sCounter, sLong]
    rw [e]
    refine pValue_wrap (f := f' + 4) (by decide) (by simp [skipWs, isWs]) ?_
    have := pValue_wrap (f := f' + 1) (ty := sLong) (rest := 125 :: rest) (by decide) (skipWs_showInt n _)
      (pValue_showInt (f := f') n (numStop_cons (Or.inr (Or.inr rfl))))
    simpa [toJ, counterJ] using this
  | .counter (.dedup n regs), f, rest, _, _, _, hf => by
    simp only [marshalP, marshalPCounter, dedupJ, List.length_append, List.length_cons, List.length_nil] at hf
    obtain ⟨f', rfl⟩ : ∃ f', f = f' + 6 := ⟨f - 6, by omega⟩
    simpa [marshalP, marshalPCounter, toJ] using pValue_dedup (f := f') n regs (rest := rest)
  | .text ns, f, rest, hw, hs, _, hf => by
    simp only [Yson.wf] at hw
    simp only [atoms] at hs
    simp only [marshalP, List.length_append, List.length_cons, List.length_nil] at hf
    obtain ⟨f', rfl⟩ : ∃ f', f = f' + 4 := ⟨f - 4, by omega⟩
    have e : marshalP (.text ns) ++ rest
        = cp%"{\"type\":\"" ++ sTextW ++ cp%"\",\"value\":"
            ++ (91 :: (joinWith [44] (ns.map marshalTextNode) ++ [93])) ++ 125 :: rest := by
      simp [marshalP, sTextW]
    rw [e]
    refine pValue_wrap (by decide) (skipWs_cons (by decide)) ?_
    cases hns : ns with
    | nil => simpa [joinWith, toJ, hns] using pValue_arr_empty (f := f') (rest := 125 :: rest)
    | cons m r =>
      have hne : ns ≠ [] := by rw [hns]; exact List.cons_ne_nil _ _
      have hel := pElems_textNodes ns f' (125 :: rest) hne (textNodes_ok hw hs) (by omega)
      obtain ⟨T', hT'⟩ := joinWith_cons_exists (marshalTextNode m) (r.map marshalTextNode) (93 :: 125 :: rest)
      obtain ⟨T, hT⟩ := marshalTextNode_head m
      rw [hns] at hel
      simp only [List.map_cons] at hel ⊢
      have e2 : joinWith [44] (marshalTextNode m :: List.map marshalTextNode r) ++ 93 :: 125 :: rest
          = 123 :: (T ++ T') := by rw [hT', hT]; rfl
      rw [e2] at hel
      have := pValue_arr (f := f') (by decide) (by decide) hel
      rw [← e2] at this
      simpa [toJ] using this
  | .tree r, f, rest, hw, hs, _, hf => by
    simp only [Yson.wf] at hw
    simp only [atoms] at hs
    simp only [marshalP, List.length_append, List.length_cons, List.length_nil] at hf
    obtain ⟨f', rfl⟩ : ∃ f', f = f' + 3 := ⟨f - 3, by omega⟩
    have e : marshalP (.tree r) ++ rest
        = cp%"{\"type\":\"" ++ sTree ++ cp%"\",\"value\":" ++ marshalTree r ++ 125 :: rest := by
      simp [marshalP, sTree]
    rw [e]
    obtain ⟨T, hT⟩ := marshalTree_head r
    refine pValue_wrap (by decide) (by rw [hT]; exact skipWs_cons (by decide)) ?_
    exact pValue_tree r f' _ hw hs (by omega)
  | .arr xs, f, rest, hw, hs, _, hf => by
    simp only [Yson.wf] at hw
    simp only [atoms] at hs
    simp only [marshalP, List.length_append, List.length_cons, List.length_nil] at hf
    obtain ⟨f', rfl⟩ : ∃ f', f = f' + 1 := ⟨f - 1, by omega⟩
    cases xs with
    | nil => simpa [marshalP, marshalPList, joinWith, toJ, toJList] using pValue_arr_empty (f := f') (rest := rest)
    | cons x r =>
      have hel := pElems_marshalP (x :: r) f' rest (List.cons_ne_nil _ _) hw hs (by omega)
      simp only [Yson.wfList, Bool.and_eq_true] at hw
      simp only [atomsList] at hs
      obtain ⟨c, T, hcT, hc, h93, _⟩ := marshalP_head x hw.1 (all_safe_append hs).1
      obtain ⟨T', hT'⟩ := joinWith_cons_exists (marshalP x) (marshalPList r) (93 :: rest)
      simp only [marshalPList] at hel
      have e2 : joinWith [44] (marshalP x :: marshalPList r) ++ 93 :: rest = c :: (T ++ T') := by
        rw [hT', hcT]; rfl
      rw [e2] at hel
      have := pValue_arr (f := f') hc h93 hel
      rw [← e2] at this
      simpa [marshalP, marshalPList, toJ] using this
  | .obj kvs, f, rest, hw, hs, _, hf => by
    simp only [Yson.wf, Bool.and_eq_true] at hw
    simp only [atoms] at hs
    obtain ⟨_, hs2⟩ := all_safe_append hs
    simp only [marshalP, List.length_append, List.length_cons, List.length_nil] at hf
    obtain ⟨f', rfl⟩ : ∃ f', f = f' + 1 := ⟨f - 1, by omega⟩
    cases kvs with
    | nil => simpa [marshalP, marshalPKvs, joinWith, toJ, toJKvs] using pValue_obj_empty (f := f') (rest := rest)
    | cons p r =>
      obtain ⟨k, x⟩ := p
      have hm := pMembers_marshalP ((k, x) :: r) f' rest (List.cons_ne_nil _ _) hw.2 hs2 (by omega)
      obtain ⟨T', hT'⟩ := joinWith_cons_exists (keyPiece k ++ marshalP x) (marshalPKvs r) (125 :: rest)
      simp only [marshalPKvs] at hm
      have hk : keyPiece k ++ marshalP x ++ T' = 34 :: (quoteBody k ++ 34 :: 58 :: (marshalP x ++ T')) := by simp [keyPiece, quote]
      rw [hT', hk] at hm
      have := pValue_obj hm
      rw [← hk, ← hT'] at this
      have hsorted : SortedK (toJKvs ((k, x) :: r)) := by
        apply sortedK_of_sortedKeys
        have : ∀ l : List (Str × Yson), (toJKvs l).map (·.1) = Yson.keysOf l := by
          intro l; induction l with
          | nil => rfl
          | cons q t ih => obtain ⟨a, b⟩ := q; simp [toJKvs, Yson.keysOf, ih]
        rw [this]; exact hw.1
      rw [canonKvs_sorted hsorted] at this
      simpa [marshalP, marshalPKvs, toJ] using this
theorem pElems_marshalP : ∀ (xs : List Yson) (f : Nat) (rest : Str), xs ≠ [] → Yson.wfList xs = true →
    (atomsList xs).all Atom.safe = true → (joinWith [44] (marshalPList xs)).length + 1 < f →
    pElems f (joinWith [44] (marshalPList xs) ++ 93 :: rest) = some (toJList xs, rest)
  | [], _, _, h, _, _, _ => absurd rfl h
  | [x], f, rest, _, hw, hs, hf => by
    simp only [Yson.wfList, Bool.and_eq_true] at hw
    simp only [atomsList] at hs
    obtain ⟨hs1, _⟩ := all_safe_append hs
    simp only [marshalPList, joinWith] at hf ⊢
    obtain ⟨f', rfl⟩ : ∃ f', f = f' + 1 := ⟨f - 1, by omega⟩
    exact pElems_last (pValue_marshalP x f' _ hw.1 hs1 (numStop_cons (Or.inr (Or.inl rfl))) (by omega))
  | x :: y :: r, f, rest, _, hw, hs, hf => by
    simp only [Yson.wfList, Bool.and_eq_true] at hw
    have hs' : (atoms x ++ atomsList (y :: r)).all Atom.safe = true := by simpa only [atomsList] using hs
    obtain ⟨hs1, hs2⟩ := all_safe_append hs'
    simp only [marshalPList, joinWith, List.length_append, List.length_cons, List.length_nil] at hf
    obtain ⟨f', rfl⟩ : ∃ f', f = f' + 1 := ⟨f - 1, by omega⟩
    have hw2 : Yson.wfList (y :: r) = true := by simpa [Yson.wfList] using hw.2
    have ih := pElems_marshalP (y :: r) f' rest (List.cons_ne_nil _ _) hw2 hs2 (by simp only [marshalPList]; omega)
    have e : joinWith [44] (marshalPList (x :: y :: r)) ++ 93 :: rest
        = marshalP x ++ 44 :: (joinWith [44] (marshalPList (y :: r)) ++ 93 :: rest) := by
      simp [marshalPList, joinWith]
    rw [e]
    have hsk : skipWs (joinWith [44] (marshalPList (y :: r)) ++ 93 :: rest)
        = joinWith [44] (marshalPList (y :: r)) ++ 93 :: rest := by
      simp only [Yson.wfList, Bool.and_eq_true] at hw2
      have hs2' : (atoms y ++ atomsList r).all Atom.safe = true := by simpa only [atomsList] using hs2
      obtain ⟨T', hT'⟩ := joinWith_cons_exists (marshalP y) (marshalPList r) (93 :: rest)
      simp only [marshalPList]
      rw [hT']
      exact skipWs_marshalP hw2.1 (all_safe_append hs2').1 _
    simpa [toJList] using pElems_more
      (pValue_marshalP x f' _ hw.1 hs1 (numStop_cons (Or.inl rfl)) (by omega)) hsk ih
theorem pMembers_marshalP : ∀ (kvs : List (Str × Yson)) (f : Nat) (rest : Str), kvs ≠ [] → Yson.wfKvs kvs = true →
    (atomsKvs kvs).all Atom.safe = true → (joinWith [44] (marshalPKvs kvs)).length + 1 < f →
    pMembers f (joinWith [44] (marshalPKvs kvs) ++ 125 :: rest) = some (toJKvs kvs, rest)
  | [], _, _, h, _, _, _ => absurd rfl h
  | [(k, x)], f, rest, _, hw, hs, hf => by
    simp only [Yson.wfKvs, Bool.and_eq_true] at hw
    simp only [atomsKvs, List.all_cons, Bool.and_eq_true] at hs
    obtain ⟨hs1, _⟩ := all_safe_append hs.2
    simp only [marshalPKvs, joinWith, List.length_append] at hf ⊢
    obtain ⟨f', rfl⟩ : ∃ f', f = f' + 1 := ⟨f - 1, by omega⟩
    have hk : keyPiece k ++ marshalP x ++ 125 :: rest
        = 34 :: (quoteBody k ++ 34 :: 58 :: (marshalP x ++ 125 :: rest)) := by
      simp [keyPiece, quote]
    rw [hk]
    exact pMembers_last (jString_quote k _ hw.1.1) (skipWs_marshalP hw.1.2 hs1 _)
      (pValue_marshalP x f' _ hw.1.2 hs1 (numStop_cons (Or.inr (Or.inr rfl))) (by omega))
  | (k, x) :: (k2, x2) :: r, f, rest, _, hw, hs, hf => by
    simp only [Yson.wfKvs, Bool.and_eq_true] at hw
    have hs' : (Atom.key k).safe = true ∧ (atoms x ++ atomsKvs ((k2, x2) :: r)).all Atom.safe = true := by
      simpa only [atomsKvs, List.all_cons, Bool.and_eq_true] using hs
    obtain ⟨hs1, hs2⟩ := all_safe_append hs'.2
    simp only [marshalPKvs, joinWith, List.length_append, List.length_cons, List.length_nil] at hf
    obtain ⟨f', rfl⟩ : ∃ f', f = f' + 1 := ⟨f - 1, by omega⟩
    have hw2 : Yson.wfKvs ((k2, x2) :: r) = true := by
      simp only [Yson.wfKvs, Bool.and_eq_true]; exact hw.2
    have ih := pMembers_marshalP ((k2, x2) :: r) f' rest (List.cons_ne_nil _ _) hw2 hs2 (by
      simp only [marshalPKvs]; omega)
    have e : joinWith [44] (marshalPKvs ((k, x) :: (k2, x2) :: r)) ++ 125 :: rest
        = 34 :: (quoteBody k ++ 34 :: 58 :: (marshalP x ++ 44 :: (joinWith [44] (marshalPKvs ((k2, x2) :: r)) ++ 125 :: rest))) := by
      simp [marshalPKvs, joinWith, keyPiece, quote]
    rw [e]
    have hsk : skipWs (joinWith [44] (marshalPKvs ((k2, x2) :: r)) ++ 125 :: rest)
        = joinWith [44] (marshalPKvs ((k2, x2) :: r)) ++ 125 :: rest := by
      obtain ⟨T', hT'⟩ := joinWith_cons_exists (keyPiece k2 ++ marshalP x2) (marshalPKvs r) (125 :: rest)
      simp only [marshalPKvs]
      rw [hT']
      simp [keyPiece, quote, skipWs, isWs]
    simpa [toJKvs] using pMembers_more (jString_quote k _ hw.1.1) (skipWs_marshalP hw.1.2 hs1 _)
      (pValue_marshalP x f' _ hw.1.2 hs1 (numStop_cons (Or.inl rfl)) (by omega)) hsk ih
end

end Yorkie.Yson
