/-
Text convergence, part 10: tie to the block model.  An enabled abstract operation is a SUCCESSFUL
call of `Text.edit` / `Text.styleOp` (Model/Text.lean) and the abstraction commutes with it; hence a
valid operation sequence replays on the block list without error and `abs` of the result is the fold
of the abstract semantics.  `visible` (the live UTF-16 content) is a function of the cells.
Core Lean only.
-/
import YorkieModel.Lemmas.TextConvEdit
set_option linter.unusedSimpArgs false
namespace Yorkie.TextConv
open Yorkie Yorkie.Text Yorkie.Convergence

/-- the Go call an operation stands for (remote execution: the change's version vector is passed) -/
def exec (o : TOp) (s : TextSt) : Except Err TextSt :=
  match o.body with
  | .edit content attrs => edit o.fr o.to content attrs o.ts (some o.vv) s
  | .style attrs keys => styleOp o.fr o.to attrs keys o.ts (some o.vv) s

def execAll : List TOp → TextSt → Except Err TextSt
  | [], s => .ok s
  | o :: L, s =>
    match exec o s with
    | .error e => .error e
    | .ok s' => execAll L s'

/-- every node of a block list that abstracts an `Inv` state was created by an applied operation,
    except the head -/
theorem node_applied {d : TState} {s : TextSt} (wf : WFg s) (hd : abs s = d.cells) (hinv : Inv d)
    {n : TNode} (hn : n ∈ s) : n.id = headId ∨ d.applied n.id.1 = true := by
  by_cases hh : n.id = headId
  · exact Or.inl hh
  · right
    have hu := wf.nonempty n hn hh
    have hlen : 0 < n.len := by
      unfold TNode.len; exact List.length_pos_iff.2 hu
    have hin : (n.id.1, n.id.2) ∈ cids (absNode n) := mem_cids_absNode (Nat.le_refl _) (by omega)
    obtain ⟨c, hc, e⟩ := List.mem_map.1 hin
    have := hinv c (by rw [← hd]; exact mem_abs.2 ⟨n, hn, hc⟩)
    rw [e] at this; exact this

theorem head_not_after {ts : Ticket} (h : 0 < ts.lamport) : headId.1.after ts = false := by
  cases e : headId.1.after ts
  · rfl
  · rw [Ticket.after_iff] at e; simp only [headId] at e; omega

/-- what `Pre` gives about the nodes of the block list -/
theorem pre_facts {d : TState} {o : TOp} {s : TextSt} (wf : WFg s) (hd : abs s = d.cells) (hp : Pre d o) :
    AnchorIn (abs s) o.fr ∧ AnchorIn (abs s) o.to ∧ Fresh s o.ts ∧
      (∀ n ∈ s, n.id.1.after o.ts = true → sees o.vv n.id.1 = false) := by
  obtain ⟨hinv, hfr, hto, hfresh, _, _, hmono, _, hpos, hN, _⟩ := hp
  refine ⟨by rw [hd]; exact hfr, by rw [hd]; exact hto, ?_, ?_⟩
  · intro n hn e
    rcases node_applied wf hd hinv hn with h | h
    · rw [h] at e
      have : o.ts.lamport = 0 := by rw [← e]; rfl
      omega
    · rw [e, hfresh] at h; cases h
  · intro n hn hnewer
    rcases node_applied wf hd hinv hn with h | h
    · rw [h, head_not_after hpos] at hnewer; cases hnewer
    · by_cases ha : n.id.1.actor = o.ts.actor
      · have := hmono n.id.1 h ha
        rw [Ticket.after_iff] at hnewer
        omega
      · cases hs : sees o.vv n.id.1 with
        | false => rfl
        | true => rw [hN n.id.1 hs ha] at hnewer; cases hnewer

/-- refinement of one step over the GC-tolerant invariant `WFg` (used by C01 through `WF.toG` and by
    C03 on purged lists): an enabled operation executes successfully on the block list, keeps
    the invariant, and `abs` commutes with it -/
theorem exec_refines_g {d : TState} {o : TOp} {s : TextSt} (wf : WFg s) (hd : abs s = d.cells)
    (hp : Pre d o) : ∃ s', exec o s = .ok s' ∧ WFg s' ∧ abs s' = (tapply d o).cells := by
  obtain ⟨hfr, hto, hfresh, hnew⟩ := pre_facts wf hd hp
  obtain ⟨_, _, hold, hfix, hsty⟩ := hp.2.2.2.2.2.2.2.2
  unfold exec
  cases hb : o.body with
  | edit content attrs =>
    simp only
    obtain ⟨s', h1, h2, h3⟩ := edit_abs (attrs := attrs) wf hfr hto hold hfresh (hfix content attrs hb)
      (fun n hn hnewer => by
        have := hnew n hn hnewer
        unfold sees at this
        exact (Bool.or_eq_false_iff.1 this).1)
    refine ⟨s', h1, h2, ?_⟩
    rw [h3, hd]
    simp only [tapply, AOp.run, AOp.M, TOp.aop, hb]
  | style attrs keys =>
    simp only
    obtain ⟨s', h1, h2, h3⟩ := styleOp_abs wf (hsty attrs keys hb) hfr hto hold
      (fun n hn hnewer => by
        have := hnew n hn hnewer
        unfold sees at this
        exact (Bool.or_eq_false_iff.1 this).2)
    refine ⟨s', h1, h2, ?_⟩
    rw [h3, hd]
    simp only [tapply, AOp.run, AOp.M, TOp.aop, TOp.puts, hb, Mof, insAfter_nil]

/-- **refinement of a run**: a valid operation sequence replays on the block list without error -/
theorem execAll_refines_g {L : List TOp} {d : TState} {s : TextSt} (wf : WFg s) (hd : abs s = d.cells)
    (hv : textSem.Valid d L) :
    ∃ s', execAll L s = .ok s' ∧ WFg s' ∧ abs s' = (L.foldl tapply d).cells := by
  induction L generalizing d s with
  | nil => exact ⟨s, rfl, wf, hd⟩
  | cons o L ih =>
    obtain ⟨hp, hv'⟩ := hv
    obtain ⟨s1, h1, wf1, hd1⟩ := exec_refines_g wf hd hp
    obtain ⟨s', h2, wf', hd'⟩ := ih wf1 hd1 hv'
    refine ⟨s', ?_, wf', hd'⟩
    simp only [execAll, h1]
    exact h2

/-- the full invariant `WF` (no purge so far) is kept as well -/
theorem wf_exec {s s' : TextSt} (wf : WF s) {o : TOp} (hfresh : Fresh s o.ts)
    (hfix : ∀ content attrs, o.body = .edit content attrs → Fixed content) (h : exec o s = .ok s') : WF s' := by
  unfold exec at h
  cases hb : o.body with
  | edit content attrs => rw [hb] at h; exact wf_edit wf hfresh (hfix content attrs hb) h
  | style attrs keys => rw [hb] at h; exact wf_styleOp wf h

/-- **refinement of one step**: an enabled operation executes successfully on the block list, keeps
    the invariant, and `abs` commutes with it -/
theorem exec_refines {d : TState} {o : TOp} {s : TextSt} (wf : WF s) (hd : abs s = d.cells)
    (hp : Pre d o) : ∃ s', exec o s = .ok s' ∧ WF s' ∧ abs s' = (tapply d o).cells := by
  obtain ⟨s', h1, _, h3⟩ := exec_refines_g wf.toG hd hp
  exact ⟨s', h1, wf_exec wf (pre_facts wf.toG hd hp).2.2.1 hp.2.2.2.2.2.2.2.2.2.2.2.1 h1, h3⟩

/-- **refinement of a run**: a valid operation sequence replays on the block list without error -/
theorem execAll_refines {L : List TOp} {d : TState} {s : TextSt} (wf : WF s) (hd : abs s = d.cells)
    (hv : textSem.Valid d L) :
    ∃ s', execAll L s = .ok s' ∧ WF s' ∧ abs s' = (L.foldl tapply d).cells := by
  induction L generalizing d s with
  | nil => exact ⟨s, rfl, wf, hd⟩
  | cons o L ih =>
    obtain ⟨hp, hv'⟩ := hv
    obtain ⟨s1, h1, wf1, hd1⟩ := exec_refines wf hd hp
    obtain ⟨s', h2, wf', hd'⟩ := ih wf1 hd1 hv'
    refine ⟨s', ?_, wf', hd'⟩
    simp only [execAll, h1]
    exact h2

theorem abs_init : abs Text.init = TState.init.cells := rfl

/-! ### observation -/

/-- live code units of a cell list -/
def liveUnits (l : Cells) : List Nat := (l.filter (fun c => !c.removed)).map (·.unit)

theorem liveUnits_mkCells (t : Ticket) (rm : Bool) (as : AAttrs) (off : Nat) (b : Bool) (u : List Nat) :
    liveUnits (mkCells t rm as off b u) = if rm then [] else u := by
  unfold liveUnits
  induction u generalizing off b with
  | nil => cases rm <;> rfl
  | cons x r ih =>
    simp only [mkCells, List.filter_cons]
    cases rm
    · simpa using ih (off + 1) false
    · simpa using ih (off + 1) false

/-- `Text.visible` (the content `Text.String()` decodes, block boundaries aside) is a function of
    the cells -/
theorem visible_eq_liveUnits (s : TextSt) : visible s = liveUnits (abs s) := by
  induction s with
  | nil => rfl
  | cons n r ih =>
    rw [visible_cons, abs_cons]
    have : liveUnits (absNode n ++ abs r) = liveUnits (absNode n) ++ liveUnits (abs r) := by
      simp [liveUnits]
    rw [this, ← ih]
    unfold absNode
    rw [liveUnits_mkCells]
    unfold TNode.live
    cases n.removedAt <;> simp

/-! ### `Text.String()` is a function of the cells -/

def startsBlock : Cells → Bool
  | [] => true
  | c :: _ => c.bnd

/-- regroup the cells into blocks: `(createdAt, tombstone flag, code units)` -/
def obsBlocks : Cells → List (Ticket × Bool × List Nat)
  | [] => []
  | c :: r =>
    match obsBlocks r with
    | [] => [(c.id.1, c.removed, [c.unit])]
    | (t, rm, us) :: bs =>
      if startsBlock r then (c.id.1, c.removed, [c.unit]) :: (t, rm, us) :: bs
      else (c.id.1, c.removed, c.unit :: us) :: bs

theorem obsBlocks_cons_of {c : Cell} {r : Cells} {t : Ticket} {rm : Bool} {us : List Nat}
    {bs : List (Ticket × Bool × List Nat)} (h : obsBlocks r = (t, rm, us) :: bs)
    (hb : startsBlock r = false) : obsBlocks (c :: r) = (c.id.1, c.removed, c.unit :: us) :: bs := by
  simp [obsBlocks, h, hb]

theorem obsBlocks_mkCells (t : Ticket) (rm : Bool) (as : AAttrs) (off : Nat) (b : Bool) {u : List Nat}
    (hu : u ≠ []) {rest : Cells} (hrest : startsBlock rest = true) :
    obsBlocks (mkCells t rm as off b u ++ rest) = (t, rm, u) :: obsBlocks rest := by
  induction u generalizing off b with
  | nil => exact absurd rfl hu
  | cons x r ih =>
    cases r with
    | nil =>
      simp only [mkCells, List.cons_append, List.nil_append, obsBlocks]
      cases h : obsBlocks rest with
      | nil => rfl
      | cons p bs => obtain ⟨t', rm', us'⟩ := p; simp [hrest]
    | cons y r' =>
      have := ih (off + 1) false (by simp)
      simp only [mkCells, List.cons_append] at this ⊢
      rw [obsBlocks_cons_of this rfl]

theorem startsBlock_abs (s : TextSt) : startsBlock (abs s) = true := by
  induction s with
  | nil => rfl
  | cons n r ih =>
    rw [abs_cons]
    unfold absNode
    cases n.units with
    | nil => simpa [mkCells] using ih
    | cons x u => rfl

theorem obsBlocks_abs (s : TextSt) :
    obsBlocks (abs s) =
      (s.filter (fun n => !n.units.isEmpty)).map (fun n => (n.id.1, n.removedAt.isSome, n.units)) := by
  induction s with
  | nil => rfl
  | cons n r ih =>
    rw [abs_cons]
    by_cases hu : n.units = []
    · have : absNode n = [] := by unfold absNode; rw [hu]; rfl
      rw [this, List.nil_append, ih, List.filter_cons]
      simp [hu]
    · unfold absNode
      rw [obsBlocks_mkCells _ _ _ _ _ hu (startsBlock_abs r), ih, List.filter_cons]
      have : (!n.units.isEmpty) = true := by
        cases h : n.units with
        | nil => exact absurd h hu
        | cons _ _ => rfl
      simp [this]

/-- the printed string, computed from the cells -/
def toStringC (tc : Ticket) (l : Cells) : String :=
  String.join (((obsBlocks l).filter (fun b => b.1.cmp tc != .eq && !b.2.1)).map
    (fun b => stringOfUnits b.2.2))

/-- under the invariant the non-empty nodes are exactly the nodes after the head -/
theorem filter_nonempty_eq_drop {s : TextSt} (wf : WFg s) :
    s.filter (fun n => !n.units.isEmpty) = s.drop 1 := by
  obtain ⟨hd, r, hs, hid, hu⟩ := wf.head
  rw [hs, List.filter_cons]
  simp only [hu, List.isEmpty_nil, Bool.not_true, Bool.false_eq_true, if_false, List.drop_succ_cons,
    List.drop_zero]
  apply List.filter_eq_self.2
  intro n hn
  have hmem : n ∈ s := by rw [hs]; exact List.mem_cons_of_mem _ hn
  have hne : n.id ≠ headId := by
    intro e
    have nd := wf.nodup
    rw [hs, ids_cons, List.nodup_cons] at nd
    exact nd.1 (by rw [hid, ← e]; exact mem_ids hn)
  have := wf.nonempty n hmem hne
  cases h : n.units with
  | nil => exact absurd h this
  | cons _ _ => rfl

/-- **`Text.String()` is a function of the abstract state** -/
theorem toString_eq {s : TextSt} (wf : WFg s) (tc : Ticket) : Text.toString tc s = toStringC tc (abs s) := by
  unfold Text.toString toStringC shown
  rw [obsBlocks_abs, filter_nonempty_eq_drop wf, List.filter_map, List.map_map]
  congr 1
  have : ((fun b : Ticket × Bool × List Nat => b.1.cmp tc != .eq && !b.2.1) ∘
      fun n : TNode => (n.id.1, n.removedAt.isSome, n.units)) =
      fun n => n.id.1.cmp tc != .eq && n.live := by
    funext n
    simp only [Function.comp, TNode.live]
    cases n.removedAt <;> rfl
  rw [this]
  rfl

end Yorkie.TextConv
