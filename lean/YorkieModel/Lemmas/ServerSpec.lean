/-
The documented lifecycle automaton (docs/design/document-client-lifecycle.md) transcribed as a
table, the refinement predicate `Refines`, and helper lemmas for Props/C11 `lifecycle_refines_spec`.
-/
import YorkieModel.Lemmas.ServerLifecycle
namespace Yorkie.Server
open Yorkie

/-- `findDocInfoByKey` never returns a removed document: an Attach by key cannot reach it -/
theorem attach_never_reaches_removed (s : Server) (key : Nat) (d : DocId)
    (h : s.findDocIdByKey key = some d) : removedOf s d = false := by
  simp only [Server.findDocIdByKey] at h
  have hm := List.mem_of_getLast? h
  simp only [List.mem_filter, Server.keyMatches] at hm
  simp only [removedOf]
  cases hd : s.findDoc d with
  | none => rfl
  | some x =>
    have h2 := hm.2
    rw [hd] at h2
    simp only [Bool.and_eq_true, Bool.not_eq_true'] at h2
    exact h2.2

/-- client status as docs/design/document-client-lifecycle.md sees it -/
inductive CSt
  | unknown | deactivated | activated
deriving DecidableEq, Repr

def clientSt (s : Server) (c : ClientId) : CSt :=
  match s.findClient c with
  | none => .unknown
  | some i => if i.activated then .activated else .deactivated

/-- the client's status for the document: `none` = nil -/
def docSt (s : Server) (c : ClientId) (d : DocId) : Option DocStatus := (entryOf s c d).map (·.status)

/-- request kinds on one (client, document); `attach fresh`: the pack comes from a new Document
instance (checkpoint serverSeq = 0) -/
inductive Kind
  | attach (fresh : Bool) | pushpull | detach | remove
deriving DecidableEq, Repr

/-- The documented automaton as a table: is the request allowed in this state?
("Document Attaching: Attach(retry), Detach, Remove, Deactivate"; "PushPull is only allowed in
Attached"; "Detached: reattach with a new Document instance"; "Removed: editing or reattaching is
no longer possible"; every request needs an activated client.) -/
def specAllows : CSt → Option DocStatus → Kind → Bool
  | .activated, none, .attach _ => true
  | .activated, some .attaching, .attach _ => true
  | .activated, some .detached, .attach fresh => fresh
  | .activated, some .attached, .pushpull => true
  | .activated, some .attaching, .detach => true
  | .activated, some .attached, .detach => true
  | .activated, some .attaching, .remove => true
  | .activated, some .attached, .remove => true
  | _, _, _ => false

/-- … and the document status an allowed request leads to (`last`: the project has RemoveOnDetach
and no other client holds the document) -/
def specNext (last : Bool) : Kind → DocStatus
  | .attach _ => .attached
  | .pushpull => .attached
  | .detach => if last then .removed else .detached
  | .remove => .removed

/-- the model's result `res` for a request of kind `k` by client `c` on document `d` in state `s`
equals the automaton:
 (a) not allowed ⇒ rejected with a lifecycle error, no client row changes;
 (b) accepted ⇒ it was allowed, and the client's document status is the documented next status;
 (c) allowed but failing ⇒ the error is about the pack, not about the lifecycle. -/
def Refines (s : Server) (c : ClientId) (d : DocId) (k : Kind) (last : Bool) (res : Result) : Prop :=
  (specAllows (clientSt s c) (docSt s c d) k = false →
    (∃ e, res.2 = .error e ∧ isLifecycleErr e = true) ∧ res.1.clients = s.clients) ∧
  (∀ r, res.2 = .ok r → specAllows (clientSt s c) (docSt s c d) k = true ∧ docSt res.1 c d = some (specNext last k)) ∧
  (specAllows (clientSt s c) (docSt s c d) k = true → ∀ e, res.2 = .error e → isLifecycleErr e = false)

theorem clientSt_cases (s : Server) (c : ClientId) :
    (clientSt s c = .activated ∧ ∃ i, s.findClient c = some i ∧ i.activated = true) ∨
    (clientSt s c ≠ .activated ∧ ∃ e, s.findActiveClient c = .error e ∧ isLifecycleErr e = true) := by
  unfold clientSt Server.findActiveClient
  cases h : s.findClient c with
  | none => exact Or.inr ⟨by simp, _, rfl, rfl⟩
  | some i =>
    by_cases ha : i.activated = true
    · exact Or.inl ⟨by simp [ha], i, rfl, ha⟩
    · exact Or.inr ⟨by simp [ha], .clientNotActivated, by simp [ha], rfl⟩

theorem docSt_eq {s : Server} {c : ClientId} {i : Client} (h : s.findClient c = some i) (d : DocId) :
    docSt s c d = i.statusOf d := by
  simp only [docSt, entryOf_findClient h, Client.statusOf]

theorem specAllows_not_activated {cs : CSt} (h : cs ≠ .activated) (ds : Option DocStatus) (k : Kind) :
    specAllows cs ds k = false := by
  cases cs <;> simp_all [specAllows]

/-- the status stored for the target after a successful `PushPull` -/
theorem docSt_after_ppok {s s' : Server} {f f' : Flight} (hp : PPOk s f s' f') :
    ∃ cd0, f.info.docs.get? f.doc = some cd0 ∧
      docSt s' f.client f.doc = some (match f.status with
        | .attached => cd0.status
        | .detached => .detached
        | .removed => .removed) := by
  obtain ⟨cd0, loaded, _, _, _, hcd0, _, _, _, _, hent, _⟩ := ppok_target hp
  refine ⟨cd0, hcd0, ?_⟩
  simp only [docSt, hent, Option.map_some]
  cases hs : f.status <;> simp only [statusEntry, persistEntry, mergeClientDoc]
  · by_cases hx : (cd0.status == DocStatus.attached) = true <;> simp [hx]
  · simp
  · simp

/-- "no other client holds the document and the project removes on detach" -/
def lastHolder (s : Server) (c : ClientId) (d : DocId) : Bool := s.cfg.removeOnDetach && !s.isDocHeldByOther d c

theorem detachMode_snd (s : Server) (c : ClientId) (d : DocId) (p : Pack) :
    (detachMode s c d p).2 = if lastHolder s c d then .removed else .detached := by
  unfold detachMode lastHolder; split <;> rfl

theorem open_cases {i : Client} {d : DocId} :
    (i.statusOf d = some .attached ∨ i.statusOf d = some .attaching) ∨
    ¬ (i.statusOf d = some .attached ∨ i.statusOf d = some .attaching) := Classical.em _

/-- the document status a closing request status stands for -/
def stOf : ReqStatus → DocStatus
  | .attached => .attached
  | .detached => .detached
  | .removed => .removed

/-- shared by Detach and Remove: the flight `f` built by the handler for an activated client `i` -/
theorem refines_closing {s : Server} {c : ClientId} {d : DocId} {i : Client} {k : Kind} {last : Bool}
    (hi : s.findClient c = some i) (ha : i.activated = true)
    (hcs : clientSt s c = .activated)
    (hop : i.statusOf d = some .attached ∨ i.statusOf d = some .attaching)
    (hk : k = .detach ∨ k = .remove)
    (pack : Pack) (st : ReqStatus) (hst : st ≠ .attached)
    (hnext : specNext last k = stOf st)
    (res : Result)
    (hres : res = (match s.findDoc d with
      | none => (s, .error .documentNotFound)
      | some doc => finish (pushPull s (mkFlight c d i pack false st false doc.disablePresence)))) :
    Refines s c d k last res := by
  have hal : specAllows (clientSt s c) (docSt s c d) k = true := by
    rw [hcs, docSt_eq hi]
    rcases hop with h | h <;> rcases hk with rfl | rfl <;> rw [h] <;> rfl
  obtain ⟨cd, hcd, hcdst⟩ : ∃ cd, i.docs.get? d = some cd ∧ isOpenSt cd.status = true := by
    rcases hop with h | h <;> obtain ⟨cd, hcd, hs⟩ := statusOf_some h <;> exact ⟨cd, hcd, by simp [isOpenSt, hs]⟩
  refine ⟨fun h => by rw [hal] at h; simp at h, ?_, ?_⟩
  · intro r hr
    refine ⟨hal, ?_⟩
    cases hd : s.findDoc d with
    | none => rw [hres, hd] at hr; simp at hr
    | some doc =>
      rw [hd] at hres
      simp only [] at hres
      obtain ⟨s', out⟩ := res
      simp only [] at hr ⊢; subst hr
      obtain ⟨f', hpp, _⟩ := finish_ok hres.symm
      obtain ⟨cd0, _, hds⟩ := docSt_after_ppok (pushPull_ppok hpp)
      simp only [mkFlight_client, mkFlight_doc, mkFlight_status] at hds
      rw [hds, hnext]
      cases st with
      | attached => exact absurd rfl hst
      | detached => rfl
      | removed => rfl
  · intro _ e he
    cases hd : s.findDoc d with
    | none => rw [hres, hd] at he; simp only [] at he; injection he with he; rw [← he]; rfl
    | some doc =>
      rw [hd] at hres
      simp only [] at hres
      obtain ⟨s', out⟩ := res
      simp only [] at he; subst he
      have hpe := finish_error hres.symm
      rcases pushPull_error_kind hpe (by simpa using hi) with h | ⟨cp, h⟩
      · exact h
      · obtain ⟨i', hi'⟩ := updateDocStatus_no_error (st := st) (cp := cp) ha hcd (fun _ => hcdst)
        simp only [mkFlight_info, mkFlight_doc, mkFlight_status] at h
        rw [hi'] at h; simp at h

/-- statuses the documented automaton talks about for Attach: everything except `removed`
(deviation D3 below) and the never-stored zero value -/
def regular (ds : Option DocStatus) : Prop := ds ≠ some .removed ∧ ds ≠ some .none

end Yorkie.Server
