/-
Text convergence, part 1: the CHARACTER-LEVEL state and its primitive transformations.

Every UTF-16 unit of the text is a `Cell` with the identity `(createdAt, absolute offset)`.  A block
list (`Model/Text.lean`) is the cell list plus the set of block boundaries, which is kept as a flag
`bnd` ("a block starts here") on the cells.  What an `edit`/`style` does to the block list is, on
cells, the composition of

  * `splitAfter a`   – make a block boundary right after the cell `a` (id-keyed pointwise map);
  * `rmap fr to f`   – apply `f` to the cells strictly after anchor `fr` up to and including anchor
                       `to` (the range is a function of the id list only);
  * `insAfter a ts X`– the RGA insertion of the cells `X` after anchor `a` with the skip rule.

This file defines them and proves the pairwise commutation lemmas (`splitAfter`/`splitAfter`,
`splitAfter`/`rmap`, `rmap`/`rmap`, each of them against `insAfter`, and `insAfter`/`insAfter`),
and from those the commutation of two whole abstract operations (`AOp.run_comm`).
Core Lean only.
-/
import YorkieModel.Lemmas.Ticket
import YorkieModel.Model.Text
set_option linter.unusedSimpArgs false
namespace Yorkie.TextConv
open Yorkie Yorkie.Text

/-! ### attribute registers, canonical form

The Go `RHT` is a map; the block model keeps an association list whose ORDER depends on the order
in which keys were first written, and `RHT.Remove` keeps the old value of a removed entry (which
depends on the arrival order of a concurrent `Set`).  Neither is observable (`RHT.Marshal` sorts the
live entries by key).  The canonical form is the lookup function with removed values blanked. -/

structure AAttr where
  val : String
  at_ : Ticket
  removed : Bool
deriving DecidableEq, Repr

abbrev AAttrs := String → Option AAttr

def AAttrs.empty : AAttrs := fun _ => none

/-- last-writer-wins write of one entry (`RHT.Set` and `RHT.Remove` are both this) -/
def lww (as : AAttrs) (k : String) (n : AAttr) : AAttrs :=
  match as k with
  | none => fun x => if x = k then some n else as x
  | some m => if n.at_.after m.at_ then fun x => if x = k then some n else as x else as

/-- a list of writes, all with the ticket of one operation -/
abbrev Puts := List (String × AAttr)

def applyPuts (ps : Puts) (as : AAttrs) : AAttrs := ps.foldl (fun a p => lww a p.1 p.2) as

/-- the winner of a register cell against a new write -/
def win (o : Option AAttr) (n : AAttr) : Option AAttr :=
  match o with
  | none => some n
  | some m => if n.at_.after m.at_ then some n else some m

theorem lww_apply (as : AAttrs) (k : String) (n : AAttr) (x : String) :
    lww as k n x = if x = k then win (as k) n else as x := by
  unfold lww win
  cases h : as k with
  | none => simp
  | some m =>
    simp only
    by_cases h1 : n.at_.after m.at_ = true
    · simp [h1]
    · simp only [h1]
      by_cases hx : x = k
      · simp [hx, h]
      · simp [hx]

local macro "tomega" : tactic => `(tactic| ((try unfold Actor at *); omega))

theorem win_comm (o : Option AAttr) (n n' : AAttr) (h : n.at_ ≠ n'.at_) :
    win (win o n) n' = win (win o n') n := by
  have hne : ¬ (n.at_.lamport = n'.at_.lamport ∧ n.at_.actor = n'.at_.actor ∧ n.at_.delim = n'.at_.delim) :=
    fun e => h ((Ticket.eq_iff _ _).2 e)
  cases o with
  | none =>
    simp only [win]
    by_cases h1 : n'.at_.after n.at_ = true <;> by_cases h2 : n.at_.after n'.at_ = true <;>
      simp only [h1, h2, if_true, if_false] <;> (try rfl) <;> exfalso <;>
      simp only [Ticket.after_iff] at h1 h2 <;> tomega
  | some m =>
    by_cases h1 : n.at_.after m.at_ = true <;> by_cases h2 : n'.at_.after m.at_ = true <;>
      by_cases h3 : n'.at_.after n.at_ = true <;> by_cases h4 : n.at_.after n'.at_ = true <;>
      simp [win, h1, h2, h3, h4] <;>
      simp only [Ticket.after_iff] at h1 h2 h3 h4 <;> tomega

theorem lww_comm (as : AAttrs) (k k' : String) (n n' : AAttr) (h : n.at_ ≠ n'.at_) :
    lww (lww as k n) k' n' = lww (lww as k' n') k n := by
  funext x
  simp only [lww_apply]
  by_cases hk : k = k'
  · subst hk
    by_cases hx : x = k
    · simp [hx, win_comm _ _ _ h]
    · simp [hx]
  · have hk' : k' ≠ k := fun e => hk e.symm
    by_cases hx : x = k <;> by_cases hx' : x = k' <;> simp_all

/-- two operations' write lists commute when all their tickets differ -/
theorem applyPuts_comm (ps qs : Puts) (h : ∀ p ∈ ps, ∀ q ∈ qs, p.2.at_ ≠ q.2.at_) (as : AAttrs) :
    applyPuts ps (applyPuts qs as) = applyPuts qs (applyPuts ps as) := by
  have one : ∀ (qs : Puts) (k : String) (n : AAttr), (∀ q ∈ qs, n.at_ ≠ q.2.at_) → ∀ as,
      lww (applyPuts qs as) k n = applyPuts qs (lww as k n) := by
    intro qs k n
    induction qs with
    | nil => intros; rfl
    | cons q r ih =>
      intro hq as
      simp only [applyPuts, List.foldl_cons] at ih ⊢
      rw [ih (fun q' hq' => hq q' (List.mem_cons_of_mem _ hq')),
        lww_comm as k q.1 n q.2 (hq q List.mem_cons_self)]
  induction ps generalizing as with
  | nil => rfl
  | cons p r ih =>
    simp only [applyPuts, List.foldl_cons] at ih ⊢
    have := one qs p.1 p.2 (fun q hq => h p List.mem_cons_self q hq) as
    simp only [applyPuts] at this
    rw [this]
    exact ih (fun p' hp' => h p' (List.mem_cons_of_mem _ hp')) _

/-! ### cells -/

structure Cell where
  /-- `(createdAt, absolute offset of this unit inside its insertion)` -/
  id : Id
  /-- current code unit (a split inside a surrogate pair turns both halves into U+FFFD) -/
  unit : Nat
  /-- tombstone flag (the value of `removedAt` is order-dependent and unobservable) -/
  removed : Bool
  /-- attribute register; blanked on tombstones (order-dependent and unobservable there) -/
  attrs : AAttrs
  /-- a block starts at this cell -/
  bnd : Bool

abbrev Cells := List Cell

def cids (l : Cells) : List Id := l.map (·.id)

@[simp] theorem cids_nil : cids [] = [] := rfl
@[simp] theorem cids_cons (c : Cell) (l : Cells) : cids (c :: l) = c.id :: cids l := rfl
@[simp] theorem cids_append (a b : Cells) : cids (a ++ b) = cids a ++ cids b := by simp [cids]

theorem cids_map {k : Cell → Cell} (hk : ∀ c, (k c).id = c.id) (l : Cells) : cids (l.map k) = cids l := by
  simp [cids, List.map_map, Function.comp_def, hk]

/-! ### split -/

/-- `TextValue.Split` on well-formed UTF-16: the left part ends with a lone high surrogate … -/
def fixL (u : Nat) : Nat := if isHigh u then 0xFFFD else u
/-- … and the right part starts with a lone low surrogate, iff the cut is inside a pair -/
def fixR (u : Nat) : Nat := if isLow u then 0xFFFD else u

theorem high_low_excl (u : Nat) : ¬ (isHigh u = true ∧ isLow u = true) := by
  unfold isHigh isLow; simp; omega

theorem fixL_fixR (u : Nat) : fixL (fixR u) = fixR (fixL u) := by
  unfold fixL fixR
  by_cases h1 : isHigh u = true <;> by_cases h2 : isLow u = true
  · exact absurd ⟨h1, h2⟩ (high_low_excl u)
  · simp [h1, h2, show isLow 0xFFFD = false by decide]
  · simp [h1, h2, show isHigh 0xFFFD = false by decide]
  · simp [h1, h2]

theorem fixL_idem (u : Nat) : fixL (fixL u) = fixL u := by
  unfold fixL; by_cases h : isHigh u = true <;> simp [h, show isHigh 0xFFFD = false by decide]
theorem fixR_idem (u : Nat) : fixR (fixR u) = fixR u := by
  unfold fixR; by_cases h : isLow u = true <;> simp [h, show isLow 0xFFFD = false by decide]

/-- the cell following `a` in its insertion -/
def nxt (a : Id) : Id := (a.1, a.2 + 1)

theorem nxt_ne (a : Id) : nxt a ≠ a := by
  intro h; have := congrArg Prod.snd h; simp [nxt] at this
theorem nxt_inj {a b : Id} (h : nxt a = nxt b) : a = b := by
  cases a; cases b; simp [nxt] at h; simp [h]

/-- what a split right after cell `a` does to every cell -/
def splitCell (a : Id) (c : Cell) : Cell :=
  if c.id = a then { c with unit := fixL c.unit }
  else if c.id = nxt a then { c with unit := fixR c.unit, bnd := true }
  else c

@[simp] theorem splitCell_id (a : Id) (c : Cell) : (splitCell a c).id = c.id := by
  unfold splitCell; (repeat' split) <;> rfl
@[simp] theorem splitCell_removed (a : Id) (c : Cell) : (splitCell a c).removed = c.removed := by
  unfold splitCell; (repeat' split) <;> rfl
@[simp] theorem splitCell_attrs (a : Id) (c : Cell) : (splitCell a c).attrs = c.attrs := by
  unfold splitCell; (repeat' split) <;> rfl

/-- is there a cell `q` that does not start a block yet? -/
def hasOpen (q : Id) (l : Cells) : Bool := l.any (fun c => decide (c.id = q) && !c.bnd)

/-- `splitNode` at the boundary right after cell `a`: nothing happens when the boundary exists -/
def splitAfter (a : Id) (l : Cells) : Cells :=
  if hasOpen (nxt a) l then l.map (splitCell a) else l

/-- anchors: `none` is the initial head (the beginning of the text) -/
def splitAfterO : Option Id → Cells → Cells
  | none, l => l
  | some a, l => splitAfter a l

theorem cids_splitAfter (a : Id) (l : Cells) : cids (splitAfter a l) = cids l := by
  unfold splitAfter; split
  · exact cids_map (splitCell_id a) l
  · rfl

theorem cids_splitAfterO (a : Option Id) (l : Cells) : cids (splitAfterO a l) = cids l := by
  cases a with
  | none => rfl
  | some a => exact cids_splitAfter a l

theorem splitCell_comm (a b : Id) (c : Cell) :
    splitCell a (splitCell b c) = splitCell b (splitCell a c) := by
  by_cases hab : a = b
  · subst hab; rfl
  have hn : nxt a ≠ nxt b := fun e => hab (nxt_inj e)
  unfold splitCell
  by_cases h1 : c.id = a <;> by_cases h2 : c.id = b <;> by_cases h3 : c.id = nxt a <;>
    by_cases h4 : c.id = nxt b <;>
    simp_all [fixL_fixR, nxt_ne]
  all_goals first
    | (exfalso; exact hab (h1.symm.trans h2))
    | (exfalso; exact hab (by rw [← h1, ← h2]))
    | skip

theorem hasOpen_map {k : Cell → Cell} {q : Id} (hid : ∀ c, (k c).id = c.id)
    (hb : ∀ c, c.id = q → (k c).bnd = c.bnd) (l : Cells) : hasOpen q (l.map k) = hasOpen q l := by
  unfold hasOpen
  induction l with
  | nil => rfl
  | cons c r ih =>
    simp only [List.map_cons, List.any_cons, ih, hid]
    by_cases h : c.id = q
    · simp [h, hb c h]
    · simp [h]

theorem splitCell_bnd_of_ne {a q : Id} (h : q ≠ nxt a) (c : Cell) (hc : c.id = q) :
    (splitCell a c).bnd = c.bnd := by
  unfold splitCell
  split
  · rfl
  · split
    · rename_i h2; exact absurd (hc.symm.trans h2) h
    · rfl

theorem splitAfter_comm (a b : Id) (l : Cells) :
    splitAfter a (splitAfter b l) = splitAfter b (splitAfter a l) := by
  by_cases hab : a = b
  · subst hab; rfl
  have hn : nxt a ≠ nxt b := fun e => hab (nxt_inj e)
  have h1 : hasOpen (nxt a) (l.map (splitCell b)) = hasOpen (nxt a) l :=
    hasOpen_map (splitCell_id b) (splitCell_bnd_of_ne hn) l
  have h2 : hasOpen (nxt b) (l.map (splitCell a)) = hasOpen (nxt b) l :=
    hasOpen_map (splitCell_id a) (splitCell_bnd_of_ne (Ne.symm hn)) l
  unfold splitAfter
  by_cases ha : hasOpen (nxt a) l = true <;> by_cases hb : hasOpen (nxt b) l = true <;>
    simp only [ha, hb, h1, h2, if_true, if_false, List.map_map, Bool.false_eq_true]
  apply List.map_congr_left
  intro c _
  exact splitCell_comm a b c

theorem splitAfterO_comm (a b : Option Id) (l : Cells) :
    splitAfterO a (splitAfterO b l) = splitAfterO b (splitAfterO a l) := by
  cases a <;> cases b <;> simp only [splitAfterO]
  exact splitAfter_comm _ _ l

/-! ### ranges -/

/-- the ids after the first occurrence of `i` -/
def dropAfter (i : Id) : List Id → List Id
  | [] => []
  | x :: r => if x = i then r else dropAfter i r

/-- the ids up to and including the first occurrence of `i` (everything when absent) -/
def takeThrough (i : Id) : List Id → List Id
  | [] => []
  | x :: r => if x = i then [x] else x :: takeThrough i r

/-- `findBetween`: the cells strictly after anchor `fr` up to and including anchor `to`
    (up to the end when `to` does not come after `fr`); empty when the anchors coincide -/
def rangeIds (fr to : Option Id) (L : List Id) : List Id :=
  if fr = to then []
  else
    let L1 := match fr with
      | none => L
      | some f => dropAfter f L
    match to with
    | none => L1
    | some t => takeThrough t L1

def mapOn (R : List Id) (f : Cell → Cell) (l : Cells) : Cells :=
  l.map (fun c => if c.id ∈ R then f c else c)

/-- apply `f` on the range between two anchors -/
def rmap (fr to : Option Id) (f : Cell → Cell) (l : Cells) : Cells :=
  mapOn (rangeIds fr to (cids l)) f l

/-- the per-cell functions of delete and style: they touch neither identity nor block structure -/
structure Good (f : Cell → Cell) : Prop where
  id : ∀ c, (f c).id = c.id
  bnd : ∀ c, (f c).bnd = c.bnd
  split : ∀ a c, splitCell a (f c) = f (splitCell a c)

theorem cids_mapOn {f : Cell → Cell} (hf : ∀ c, (f c).id = c.id) (R : List Id) (l : Cells) :
    cids (mapOn R f l) = cids l := by
  unfold mapOn
  apply cids_map
  intro c; split <;> simp [hf]

theorem cids_rmap {f : Cell → Cell} (hf : ∀ c, (f c).id = c.id) (fr to : Option Id) (l : Cells) :
    cids (rmap fr to f l) = cids l := cids_mapOn hf _ l

theorem splitAfter_rmap {f : Cell → Cell} (gf : Good f) (a : Id) (fr to : Option Id) (l : Cells) :
    splitAfter a (rmap fr to f l) = rmap fr to f (splitAfter a l) := by
  unfold rmap
  rw [cids_splitAfter]
  generalize rangeIds fr to (cids l) = R
  have h1 : hasOpen (nxt a) (mapOn R f l) = hasOpen (nxt a) l := by
    unfold mapOn
    apply hasOpen_map
    · intro c; split <;> simp [gf.id]
    · intro c _; split <;> simp [gf.bnd]
  unfold splitAfter
  rw [h1]
  split
  · unfold mapOn
    simp only [List.map_map]
    apply List.map_congr_left
    intro c _
    simp only [Function.comp, splitCell_id]
    split
    · exact gf.split a c
    · rfl
  · rfl

theorem splitAfterO_rmap {f : Cell → Cell} (gf : Good f) (a : Option Id) (fr to : Option Id) (l : Cells) :
    splitAfterO a (rmap fr to f l) = rmap fr to f (splitAfterO a l) := by
  cases a with
  | none => rfl
  | some a => exact splitAfter_rmap gf a fr to l

theorem rmap_comm {f g : Cell → Cell} (hf : ∀ c, (f c).id = c.id) (hg : ∀ c, (g c).id = c.id)
    (hfg : ∀ c, f (g c) = g (f c)) (fr to fr' to' : Option Id) (l : Cells) :
    rmap fr to f (rmap fr' to' g l) = rmap fr' to' g (rmap fr to f l) := by
  unfold rmap
  rw [cids_mapOn hg, cids_mapOn hf]
  generalize rangeIds fr to (cids l) = R
  generalize rangeIds fr' to' (cids l) = R'
  unfold mapOn
  simp only [List.map_map]
  apply List.map_congr_left
  intro c _
  simp only [Function.comp]
  by_cases h1 : c.id ∈ R <;> by_cases h2 : c.id ∈ R' <;> simp [h1, h2, hf, hg, hfg]

/-! ### insertion with the RGA skip rule -/

/-- `for node.next != nil && node.next.createdAt().After(ts) { node = node.next }`, then insert -/
def insSkip (ts : Ticket) (X : Cells) : Cells → Cells
  | [] => X
  | c :: r => if c.id.1.after ts then c :: insSkip ts X r else X ++ c :: r

/-- insert the cells `X` after anchor `a` (nothing happens when the anchor is absent) -/
def insAfter : Option Id → Ticket → Cells → Cells → Cells
  | none, ts, X, l => insSkip ts X l
  | some _, _, _, [] => []
  | some i, ts, X, c :: r =>
    if c.id = i then c :: insSkip ts X r else c :: insAfter (some i) ts X r

theorem insAfter_none (ts : Ticket) (X l : Cells) : insAfter none ts X l = insSkip ts X l := by
  cases l <;> rfl

theorem insSkip_nil (ts : Ticket) (l : Cells) : insSkip ts [] l = l := by
  induction l with
  | nil => rfl
  | cons c r ih => simp only [insSkip, ih]; split <;> simp

theorem insAfter_nil (a : Option Id) (ts : Ticket) (l : Cells) : insAfter a ts [] l = l := by
  cases a with
  | none => rw [insAfter_none]; exact insSkip_nil ts l
  | some i =>
    induction l with
    | nil => rfl
    | cons c r ih => simp only [insAfter, ih, insSkip_nil]; split <;> rfl

theorem map_insSkip {k : Cell → Cell} (hk : ∀ c, (k c).id = c.id) (ts : Ticket) (X l : Cells) :
    (insSkip ts X l).map k = insSkip ts (X.map k) (l.map k) := by
  induction l with
  | nil => rfl
  | cons c r ih =>
    simp only [insSkip, List.map_cons, hk]
    split <;> simp [ih]

theorem map_insAfter {k : Cell → Cell} (hk : ∀ c, (k c).id = c.id) (a : Option Id) (ts : Ticket)
    (X l : Cells) : (insAfter a ts X l).map k = insAfter a ts (X.map k) (l.map k) := by
  cases a with
  | none => simp only [insAfter_none]; exact map_insSkip hk ts X l
  | some i =>
    induction l with
    | nil => rfl
    | cons c r ih =>
      simp only [insAfter, List.map_cons, hk]
      split <;> simp [ih, map_insSkip hk]

theorem insSkip_decomp (ts : Ticket) (X l : Cells) :
    ∃ A B, l = A ++ B ∧ insSkip ts X l = A ++ X ++ B := by
  induction l with
  | nil => exact ⟨[], [], rfl, by simp [insSkip]⟩
  | cons c r ih =>
    obtain ⟨A, B, h1, h2⟩ := ih
    simp only [insSkip]
    split
    · exact ⟨c :: A, B, by simp [h1], by simp [h2]⟩
    · exact ⟨[], c :: r, rfl, by simp⟩

theorem insAfter_decomp (a : Option Id) (ts : Ticket) (X l : Cells) :
    insAfter a ts X l = l ∨ ∃ A B, l = A ++ B ∧ insAfter a ts X l = A ++ X ++ B := by
  cases a with
  | none => rw [insAfter_none]; exact Or.inr (insSkip_decomp ts X l)
  | some i =>
    induction l with
    | nil => exact Or.inl rfl
    | cons c r ih =>
      simp only [insAfter]
      split
      · obtain ⟨A, B, h1, h2⟩ := insSkip_decomp ts X r
        exact Or.inr ⟨c :: A, B, by simp [h1], by simp [h2]⟩
      · rcases ih with h | ⟨A, B, h1, h2⟩
        · exact Or.inl (by rw [h])
        · exact Or.inr ⟨c :: A, B, by simp [h1], by simp [h2]⟩

theorem hasOpen_append (q : Id) (a b : Cells) : hasOpen q (a ++ b) = (hasOpen q a || hasOpen q b) := by
  simp [hasOpen]

theorem hasOpen_insAfter {q : Id} {X : Cells} (hX : hasOpen q X = false) (a : Option Id) (ts : Ticket)
    (l : Cells) : hasOpen q (insAfter a ts X l) = hasOpen q l := by
  rcases insAfter_decomp a ts X l with h | ⟨A, B, h1, h2⟩
  · rw [h]
  · rw [h2, h1]; simp [hasOpen_append, hX]

/-- a block of cells of one ticket is skipped or not as a whole -/
theorem insSkip_block {u t : Ticket} {Y : Cells} (hY : ∀ y ∈ Y, y.id.1 = u) (hne : Y ≠ []) (X r : Cells) :
    insSkip t X (Y ++ r) = if u.after t then Y ++ insSkip t X r else X ++ Y ++ r := by
  induction Y with
  | nil => exact absurd rfl hne
  | cons y Y' ih =>
    have hy := hY y List.mem_cons_self
    simp only [List.cons_append, insSkip, hy]
    by_cases h : u.after t = true
    · simp only [h, if_true]
      by_cases hY' : Y' = []
      · subst hY'; rfl
      · rw [ih (fun z hz => hY z (List.mem_cons_of_mem _ hz)) hY', if_pos h]
    · simp [h]

theorem insSkip_comm {ta tb : Ticket} (hab : ta ≠ tb) {Xa Xb : Cells}
    (ha : ∀ x ∈ Xa, x.id.1 = ta) (hb : ∀ x ∈ Xb, x.id.1 = tb) (l : Cells) :
    insSkip ta Xa (insSkip tb Xb l) = insSkip tb Xb (insSkip ta Xa l) := by
  by_cases ea : Xa = []
  · subst ea; simp [insSkip_nil]
  by_cases eb : Xb = []
  · subst eb; simp [insSkip_nil]
  have hord := Ticket.after_eq_not_after hab
  induction l with
  | nil =>
    have h1 := insSkip_block (t := ta) hb eb Xa []
    have h2 := insSkip_block (t := tb) ha ea Xb []
    simp only [List.append_nil] at h1 h2
    simp only [insSkip, h1, h2, hord]
    cases tb.after ta <;> simp
  | cons c r ih =>
    have h1 := insSkip_block (t := ta) hb eb Xa
    have h2 := insSkip_block (t := tb) ha ea Xb
    cases hca : c.id.1.after ta <;> cases hcb : c.id.1.after tb
    · simp only [insSkip, hca, hcb, h1, h2, hord, Bool.false_eq_true, if_false]
      cases tb.after ta <;> simp [insSkip, hca, hcb]
    · have : ta.after tb = true := by
        rcases Ticket.not_after_iff.1 hca with e | h'
        · rw [← e]; exact hcb
        · exact Ticket.after_trans h' hcb
      have h3 : tb.after ta = false := Ticket.after_asymm this
      simp [insSkip, hca, hcb, h1, h2, this, h3]
    · have : tb.after ta = true := by
        rcases Ticket.not_after_iff.1 hcb with e | h'
        · rw [← e]; exact hca
        · exact Ticket.after_trans h' hca
      have h3 : ta.after tb = false := Ticket.after_asymm this
      simp [insSkip, hca, hcb, h1, h2, this, h3]
    · simp [insSkip, hca, hcb, ih]

theorem insAfter_absent {i : Id} {l : Cells} (h : i ∉ cids l) (ts : Ticket) (X : Cells) :
    insAfter (some i) ts X l = l := by
  induction l with
  | nil => rfl
  | cons c r ih =>
    simp only [cids_cons, List.mem_cons, not_or] at h
    simp only [insAfter]
    rw [if_neg (fun e => h.1 e.symm), ih h.2]

theorem insAfter_append_absent {i : Id} {Y : Cells} (h : i ∉ cids Y) (ts : Ticket) (X r : Cells) :
    insAfter (some i) ts X (Y ++ r) = Y ++ insAfter (some i) ts X r := by
  induction Y with
  | nil => rfl
  | cons c Y' ih =>
    simp only [cids_cons, List.mem_cons, not_or] at h
    simp only [List.cons_append, insAfter]
    rw [if_neg (fun e => h.1 e.symm), ih h.2]

theorem insAfter_cons_self (c : Cell) (ts : Ticket) (X r : Cells) :
    insAfter (some c.id) ts X (c :: r) = c :: insSkip ts X r := by simp [insAfter]
theorem insAfter_cons_ne {c : Cell} {i : Id} (h : c.id ≠ i) (ts : Ticket) (X r : Cells) :
    insAfter (some i) ts X (c :: r) = c :: insAfter (some i) ts X r := by simp [insAfter, h]
theorem insSkip_cons_pos {c : Cell} {ts : Ticket} (h : c.id.1.after ts = true) (X r : Cells) :
    insSkip ts X (c :: r) = c :: insSkip ts X r := by simp [insSkip, h]
theorem insSkip_cons_neg {c : Cell} {ts : Ticket} (h : ¬ c.id.1.after ts = true) (X r : Cells) :
    insSkip ts X (c :: r) = X ++ c :: r := by simp [insSkip, h]

theorem insSkip_insAfter {ta tb : Ticket} (hab : ta ≠ tb) {Xa Xb : Cells}
    (ha : ∀ x ∈ Xa, x.id.1 = ta) (hb : ∀ x ∈ Xb, x.id.1 = tb) {j : Id} (hj : j ∉ cids Xa) (l : Cells) :
    insSkip ta Xa (insAfter (some j) tb Xb l) = insAfter (some j) tb Xb (insSkip ta Xa l) := by
  induction l with
  | nil => simp only [insAfter, insSkip]; exact (insAfter_absent hj tb Xb).symm
  | cons c r ih =>
    by_cases hc : c.id = j
    · subst hc
      by_cases hn : c.id.1.after ta = true
      · rw [insAfter_cons_self, insSkip_cons_pos hn, insSkip_cons_pos hn, insAfter_cons_self,
          insSkip_comm hab ha hb]
      · rw [insAfter_cons_self, insSkip_cons_neg hn, insSkip_cons_neg hn,
          insAfter_append_absent hj, insAfter_cons_self]
    · by_cases hn : c.id.1.after ta = true
      · rw [insAfter_cons_ne hc, insSkip_cons_pos hn, insSkip_cons_pos hn, insAfter_cons_ne hc, ih]
      · rw [insAfter_cons_ne hc, insSkip_cons_neg hn, insSkip_cons_neg hn,
          insAfter_append_absent hj, insAfter_cons_ne hc]

theorem insAfter_comm {ta tb : Ticket} (hab : ta ≠ tb) {Xa Xb : Cells}
    (ha : ∀ x ∈ Xa, x.id.1 = ta) (hb : ∀ x ∈ Xb, x.id.1 = tb) {fa fb : Option Id}
    (hfa : ∀ i, fa = some i → i ∉ cids Xb) (hfb : ∀ j, fb = some j → j ∉ cids Xa) (l : Cells) :
    insAfter fa ta Xa (insAfter fb tb Xb l) = insAfter fb tb Xb (insAfter fa ta Xa l) := by
  cases fa with
  | none =>
    cases fb with
    | none => simp only [insAfter_none]; exact insSkip_comm hab ha hb l
    | some j => simp only [insAfter_none]; exact insSkip_insAfter hab ha hb (hfb j rfl) l
  | some i =>
    cases fb with
    | none => simp only [insAfter_none]; exact (insSkip_insAfter (Ne.symm hab) hb ha (hfa i rfl) l).symm
    | some j =>
      have hi := hfa i rfl
      have hj := hfb j rfl
      induction l with
      | nil => rfl
      | cons c r ih =>
        by_cases h1 : c.id = i <;> by_cases h2 : c.id = j
        · subst h1; subst h2
          simp only [insAfter_cons_self, insSkip_comm hab ha hb]
        · subst h1
          rw [insAfter_cons_ne h2, insAfter_cons_self, insAfter_cons_self, insAfter_cons_ne h2,
            insSkip_insAfter hab ha hb hj]
        · subst h2
          rw [insAfter_cons_self, insAfter_cons_ne h1, insAfter_cons_ne h1, insAfter_cons_self,
            insSkip_insAfter (Ne.symm hab) hb ha hi]
        · rw [insAfter_cons_ne h2, insAfter_cons_ne h1, insAfter_cons_ne h1, insAfter_cons_ne h2, ih]

/-! ### split and range maps against insertion -/

theorem splitAfter_insAfter {a : Id} {ts : Ticket} {X : Cells} (hX : ∀ x ∈ X, x.id.1 = ts)
    (ha : a.1 ≠ ts) (f : Option Id) (l : Cells) :
    splitAfter a (insAfter f ts X l) = insAfter f ts X (splitAfter a l) := by
  have hne : ∀ x ∈ X, x.id ≠ a ∧ x.id ≠ nxt a := by
    intro x hx
    constructor <;> intro e <;> apply ha <;> rw [← hX x hx, e] <;> rfl
  have hopen : hasOpen (nxt a) X = false := by
    unfold hasOpen
    rw [List.any_eq_false]
    intro x hx
    simp [(hne x hx).2]
  have hfix : X.map (splitCell a) = X := by
    rw [List.map_congr_left (g := id)]
    · simp
    · intro x hx
      unfold splitCell
      rw [if_neg (hne x hx).1, if_neg (hne x hx).2]; rfl
  unfold splitAfter
  rw [hasOpen_insAfter hopen]
  split
  · rw [map_insAfter (splitCell_id a), hfix]
  · rfl

theorem splitAfterO_insAfter {a : Option Id} {ts : Ticket} {X : Cells} (hX : ∀ x ∈ X, x.id.1 = ts)
    (ha : ∀ i, a = some i → i.1 ≠ ts) (f : Option Id) (l : Cells) :
    splitAfterO a (insAfter f ts X l) = insAfter f ts X (splitAfterO a l) := by
  cases a with
  | none => rfl
  | some i => exact splitAfter_insAfter hX (ha i rfl) f l

theorem dropAfter_append_absent {f : Id} {Y : List Id} (h : f ∉ Y) (B : List Id) :
    dropAfter f (Y ++ B) = dropAfter f B := by
  induction Y with
  | nil => rfl
  | cons y Y' ih =>
    simp only [List.mem_cons, not_or] at h
    simp only [List.cons_append, dropAfter]
    rw [if_neg (fun e => h.1 e.symm), ih h.2]

theorem dropAfter_ins {f : Id} {Xi : List Id} (h : f ∉ Xi) (A B : List Id) :
    (∃ A', dropAfter f (A ++ Xi ++ B) = A' ++ Xi ++ B ∧ dropAfter f (A ++ B) = A' ++ B) ∨
      dropAfter f (A ++ Xi ++ B) = dropAfter f (A ++ B) := by
  induction A with
  | nil => right; simp only [List.nil_append]; exact dropAfter_append_absent h B
  | cons x A ih =>
    simp only [List.cons_append, dropAfter]
    by_cases hx : x = f
    · left; exact ⟨A, by simp [hx], by simp [hx]⟩
    · simp only [hx, if_false]; simpa using ih

theorem mem_takeThrough_ins {t i : Id} {Xi : List Id} (ht : t ∉ Xi) (hi : i ∉ Xi) (A B : List Id) :
    i ∈ takeThrough t (A ++ Xi ++ B) ↔ i ∈ takeThrough t (A ++ B) := by
  induction A with
  | nil =>
    simp only [List.nil_append]
    induction Xi with
    | nil => rfl
    | cons x Xi' ih =>
      simp only [List.mem_cons, not_or] at ht hi
      simp only [List.cons_append, takeThrough]
      rw [if_neg (fun e => ht.1 e.symm)]
      simp only [List.mem_cons, hi.1, false_or]
      exact ih ht.2 hi.2
  | cons x A ih =>
    simp only [List.cons_append, takeThrough]
    by_cases hx : x = t
    · simp [hx]
    · simp only [hx, if_false, List.mem_cons]
      rw [ih]

theorem mem_rangeIds_ins {fr to : Option Id} {i : Id} {Xi : List Id}
    (hfr : ∀ f, fr = some f → f ∉ Xi) (hto : ∀ t, to = some t → t ∉ Xi) (hi : i ∉ Xi)
    (A B : List Id) :
    i ∈ rangeIds fr to (A ++ Xi ++ B) ↔ i ∈ rangeIds fr to (A ++ B) := by
  unfold rangeIds
  by_cases hft : fr = to
  · simp [hft]
  simp only [hft, if_false]
  have key : ∀ A', (i ∈ (match to with | none => A' ++ Xi ++ B | some t => takeThrough t (A' ++ Xi ++ B)) ↔
      i ∈ (match to with | none => A' ++ B | some t => takeThrough t (A' ++ B))) := by
    intro A'
    cases to with
    | none => simp [hi]
    | some t => exact mem_takeThrough_ins (hto t rfl) hi A' B
  cases fr with
  | none => exact key A
  | some f =>
    rcases dropAfter_ins (hfr f rfl) A B with ⟨A', h1, h2⟩ | h
    · simp only [h1, h2]; exact key A'
    · simp only [h]

theorem rmap_insAfter {f : Cell → Cell} (hf : ∀ c, (f c).id = c.id) {ts : Ticket} {X : Cells}
    (hfix : ∀ x ∈ X, f x = x) {fr to : Option Id}
    (hfr : ∀ i, fr = some i → i ∉ cids X) (hto : ∀ i, to = some i → i ∉ cids X)
    {l : Cells} (hl : ∀ c ∈ l, c.id ∉ cids X) (a : Option Id) :
    rmap fr to f (insAfter a ts X l) = insAfter a ts X (rmap fr to f l) := by
  have hk : ∀ R : List Id, ∀ c : Cell, ((fun c => if c.id ∈ R then f c else c) c).id = c.id := by
    intro R c; simp only; split <;> simp [hf]
  unfold rmap mapOn
  rw [map_insAfter (hk _)]
  have h1 : X.map (fun c => if c.id ∈ rangeIds fr to (cids (insAfter a ts X l)) then f c else c) = X := by
    rw [List.map_congr_left (g := id)]
    · simp
    · intro x hx; simp only [id]; split
      · exact hfix x hx
      · rfl
  rw [h1]
  congr 1
  apply List.map_congr_left
  intro c hc
  have : c.id ∈ rangeIds fr to (cids (insAfter a ts X l)) ↔ c.id ∈ rangeIds fr to (cids l) := by
    rcases insAfter_decomp a ts X l with h | ⟨A, B, e1, e2⟩
    · rw [h]
    · rw [e2, e1]
      simp only [cids_append]
      exact mem_rangeIds_ins hfr hto (hl c hc) (cids A) (cids B)
  simp only [this]

end Yorkie.TextConv
