/- Helper lemmas for the byte-level codecs (C09). -/
import YorkieModel.Model.ByteCodec
namespace Yorkie
namespace ByteCodec

@[simp] theorem natToBE_length (k n : Nat) : (natToBE k n).length = k := by
  induction k generalizing n with
  | zero => rfl
  | succ k ih => simp [natToBE, ih]

@[simp] theorem natToLE_length (k n : Nat) : (natToLE k n).length = k := by
  induction k generalizing n with
  | zero => rfl
  | succ k ih => simp [natToLE, ih]

theorem beToNat_append_singleton (l : Bytes) (b : UInt8) :
    beToNat (l ++ [b]) = beToNat l * 256 + b.toNat := by
  simp [beToNat, List.foldl_append]

theorem toNat_ofNat_mod (n : Nat) : (UInt8.ofNat (n % 256)).toNat = n % 256 := by
  simp [UInt8.toNat_ofNat']

theorem beToNat_natToBE (k n : Nat) (h : n < 256 ^ k) : beToNat (natToBE k n) = n := by
  induction k generalizing n with
  | zero => simp [natToBE, beToNat] at *; omega
  | succ k ih =>
    have h' : n / 256 < 256 ^ k := by
      rw [Nat.div_lt_iff_lt_mul (by decide)]
      simpa [Nat.pow_succ] using h
    simp only [natToBE, beToNat_append_singleton, ih _ h', toNat_ofNat_mod]
    omega

theorem leToNat_natToLE (k n : Nat) (h : n < 256 ^ k) : leToNat (natToLE k n) = n := by
  induction k generalizing n with
  | zero => simp [natToLE, leToNat] at *; omega
  | succ k ih =>
    have h' : n / 256 < 256 ^ k := by
      rw [Nat.div_lt_iff_lt_mul (by decide)]
      simpa [Nat.pow_succ] using h
    simp only [natToLE, leToNat, ih _ h', toNat_ofNat_mod]
    omega

theorem toU64_lt (x : Int) : toU64 x < 18446744073709551616 := by
  unfold toU64; omega

theorem ofU64_toU64 (x : Int) (h : InInt64 x) : ofU64 (toU64 x) = x := by
  unfold InInt64 at h
  unfold ofU64 toU64
  split <;> omega

/-- the unsigned image of an in-range value, explicitly -/
theorem toU64_of_nonneg (x : Int) (h0 : 0 ≤ x) (h : x < 18446744073709551616) : toU64 x = x.toNat := by
  unfold toU64; omega

theorem readPad_append (k : Nat) (l rest : Bytes) (hl : l.length = k) (hk : 0 < k) :
    readPad k (l ++ rest) = some (l, rest) := by
  cases l with
  | nil => simp at hl; omega
  | cons a l =>
    simp only [readPad, List.cons_append]
    have e1 : List.take k (a :: (l ++ rest)) = a :: l := by
      rw [← List.cons_append, List.take_left' hl]
    have e2 : List.drop k (a :: (l ++ rest)) = rest := by
      rw [← List.cons_append, List.drop_left' hl]
    simp [e1, e2, padRight, hl]

theorem readPad_length (k : Nat) (s d r : Bytes) (h : readPad k s = some (d, r)) :
    d.length = k ∧ r = s.drop k ∧ s ≠ [] := by
  cases s with
  | nil => simp [readPad] at h
  | cons a s =>
    simp only [readPad, Option.some.injEq, Prod.mk.injEq] at h
    obtain ⟨h1, h2⟩ := h
    subst h1 h2
    refine ⟨?_, rfl, by simp⟩
    simp only [padRight, List.length_append, List.length_replicate, List.length_take]
    omega

theorem readPad_isSome (k : Nat) (s : Bytes) : (readPad k s).isSome = !s.isEmpty := by
  cases s <;> simp [readPad]

theorem readInt64_writeInt64 (x : Int) (rest : Bytes) (h : InInt64 x) :
    readInt64 (writeInt64 x ++ rest) = some (x, rest) := by
  unfold readInt64 writeInt64
  rw [readPad_append 8 _ rest (natToBE_length _ _) (by decide)]
  simp only []
  rw [beToNat_natToBE 8 _ (by have := toU64_lt x; simpa using this), ofU64_toU64 x h]

end ByteCodec
end Yorkie
