/-
Text undo/redo: a tiled span stays tiled for ever (core Lean only).

`Tiled s sp` (the identity range `[sp.start, sp.stop)` of insertion `sp.ca` is a union of whole
blocks of `s`) is preserved by everything that happens to a text later: later operations only SPLIT
blocks (sub-blocks stay inside, coverage is kept), INSERT blocks of a fresh insertion, or change
`removedAt` / attributes. The spans an edit records are tiled in the state after it.
-/
import YorkieModel.Lemmas.TextUndoDefs
namespace Yorkie.TextUndo
open Yorkie Yorkie.Text

/-! ### `covers` only reads the id and the length -/

theorem covers_spec {ca : Ticket} {c : Nat} {n : TNode} :
    covers ca c n = true ↔ n.id.1 = ca ∧ n.id.2 ≤ c ∧ c < n.id.2 + n.len := by
  simp [covers, and_assoc]

theorem covers_eq_of_shape {ca : Ticket} {c : Nat} {a b : TNode} (hid : a.id = b.id) (hlen : a.len = b.len) :
    covers ca c a = covers ca c b := by
  simp [covers, hid, hlen]

theorem len_of_keeps {f : TNode → TNode} (hf : Text.KeepsShape f) (n : TNode) : (f n).len = n.len := by
  simp [TNode.len, (hf n).2.1]

/-! ### 1. maps that keep the shape -/

theorem tiled_map_keepsShape {s : TextSt} {sp : Span} {f : TNode → TNode} (hf : Text.KeepsShape f)
    (t : Tiled s sp) : Tiled (s.map f) sp := by
  refine ⟨?_, ?_⟩
  · intro x hx
    obtain ⟨n, hn, rfl⟩ := List.mem_map.mp hx
    rw [(hf n).1, len_of_keeps hf]
    exact t.inside n hn
  · intro c h1 h2
    obtain ⟨n, hn, hc⟩ := t.cover c h1 h2
    refine ⟨f n, List.mem_map.mpr ⟨n, hn, rfl⟩, ?_⟩
    rw [covers_eq_of_shape (hf n).1 (len_of_keeps hf n)]
    exact hc

/-! ### 2. splitting a block strictly inside -/

theorem rightPart_id1 (n : TNode) (k : Nat) : (rightPart n k).id.1 = n.id.1 := rfl
theorem rightPart_id2 (n : TNode) (k : Nat) : (rightPart n k).id.2 = n.id.2 + k := rfl

/-- only uniqueness of ids is needed (so that `n` is the only block that is truncated) -/
theorem tiled_splitNode_nd {s : TextSt} {sp : Span} (nd : (ids s).Nodup) {n : TNode} (hn : n ∈ s)
    {k : Nat} (h0 : 0 < k) (hk : k < n.len) (t : Tiled s sp) : Tiled (splitNode s n k) sp := by
  have mem := @mem_splitNode s n k hn h0 hk
  refine ⟨?_, ?_⟩
  · intro x hx
    rcases mem.mp hx with rfl | ⟨m, hm, rfl⟩
    · rw [rightPart_id1, rightPart_id2, rightPart_len]
      intro e1 e2 e3
      have := t.inside n hn e1 (by omega) (by omega)
      omega
    · simp only [splitMap_id]
      intro e1 e2 e3
      have hle := splitMap_len_le n k m
      have := t.inside m hm e1 e2 (by omega)
      omega
  · intro c h1 h2
    obtain ⟨m, hm, hc⟩ := t.cover c h1 h2
    rw [covers_spec] at hc
    by_cases hid : m.id = n.id
    · have : m = n := eq_of_id_eq nd hm hn hid
      subst this
      by_cases hck : c < m.id.2 + k
      · refine ⟨splitMap m k m, mem.mpr (Or.inr ⟨m, hm, rfl⟩), ?_⟩
        rw [covers_spec, splitMap_id, splitMap_len_self m (by omega)]
        exact ⟨hc.1, hc.2.1, hck⟩
      · refine ⟨rightPart m k, mem.mpr (Or.inl rfl), ?_⟩
        rw [covers_spec, rightPart_id1, rightPart_id2, rightPart_len]
        refine ⟨hc.1, by omega, by omega⟩
    · refine ⟨splitMap n k m, mem.mpr (Or.inr ⟨m, hm, rfl⟩), ?_⟩
      rw [covers_spec, splitMap_id, splitMap_len_other k hid]
      exact hc

theorem tiled_splitNode {s : TextSt} {sp : Span} (wf : WF s) {n : TNode} (hn : n ∈ s) {k : Nat}
    (h0 : 0 < k) (hk : k < n.len) (t : Tiled s sp) : Tiled (splitNode s n k) sp :=
  tiled_splitNode_nd wf.nodup hn h0 hk t

/-! ### 3. `findNodeWithSplit` -/

theorem tiled_fnws {s s1 : TextSt} (wf : WF s) {sp : Span} {pos : Pos} {ts : Ticket} {l : Id}
    {r : Option Id} (h : findNodeWithSplit s pos ts = .ok (s1, l, r)) (t : Tiled s sp) :
    Tiled s1 sp := by
  rcases fnws_cases h with rfl | ⟨n, hn, k, h0, hk, rfl⟩
  · exact t
  · exact tiled_splitNode wf hn h0 hk t

/-! ### 4. inserting a block of another insertion -/

theorem tiled_insert_new {s : TextSt} {sp : Span} {new : TNode} (i : Id) (hne : new.id.1 ≠ sp.ca)
    (t : Tiled s sp) : Tiled (insertAfterId s i new) sp := by
  refine ⟨?_, ?_⟩
  · intro x hx
    rcases mem_insertAfterId_imp hx with rfl | hx
    · intro e; exact absurd e hne
    · exact t.inside x hx
  · intro c h1 h2
    obtain ⟨n, hn, hc⟩ := t.cover c h1 h2
    exact ⟨n, mem_insertAfterId_of_mem hn, hc⟩

/-! ### 7a. a whole block is a tiled span -/

/-- no length hypothesis is needed: for an empty block the range is empty -/
theorem tiled_block {s : TextSt} (wf : WF s) {n : TNode} (hn : n ∈ s) : Tiled s (spanOf n) := by
  refine ⟨?_, ?_⟩
  · intro m hm e1 e2 e3
    simp only [spanOf] at e1 e2 e3 ⊢
    have hm2 : m.id.2 = n.id.2 := by
      rcases Nat.lt_trichotomy m.id.2 n.id.2 with hlt | heq | hgt
      · have := wf.disjoint m hm n hn e1 hlt; omega
      · exact heq
      · have := wf.disjoint n hn m hm e1.symm hgt; omega
    have : m = n := eq_of_id_eq wf.nodup hm hn (Prod.ext e1 hm2)
    subst this
    omega
  · intro c h1 h2
    simp only [spanOf] at h1 h2 ⊢
    exact ⟨n, hn, covers_spec.mpr ⟨rfl, h1, h2⟩⟩

theorem tiled_spanOf {s : TextSt} (wf : WF s) {n : TNode} (hn : n ∈ s) (_hlen : 0 < n.len) :
    Tiled s (spanOf n) := tiled_block wf hn

/-! ### 8. what a flip does to liveness -/

theorem revive_live (sp : Span) (n : TNode) : (revive sp n).live = (n.live || inSpan sp n) := by
  unfold revive
  split
  · rename_i h; simp [TNode.live, h]
  · rename_i h; simp [h]

theorem kill_live (ts : Ticket) (sp : Span) (n : TNode) :
    (kill ts sp n).live = (n.live && !inSpan sp n) := by
  unfold kill
  split
  · rename_i h
    simp only [Bool.and_eq_true] at h
    simp [TNode.live, h.1]
  · rename_i h
    cases h1 : inSpan sp n <;> cases h2 : n.live <;> simp_all

theorem revive_keepsShape (sp : Span) : Text.KeepsShape (revive sp) := by
  intro n; unfold revive; split <;> exact ⟨rfl, rfl, rfl⟩

theorem kill_keepsShape (ts : Ticket) (sp : Span) : Text.KeepsShape (kill ts sp) := by
  intro n; unfold kill; split <;> exact ⟨rfl, rfl, rfl⟩

/-! ### 5. a later edit (of another insertion) -/

theorem tiled_edit {s s' : TextSt} (wf : WF s) {sp : Span} {fr to : Pos} {content : List Nat}
    {attrs : List (String × String)} {ts : Ticket} {vv : Option VV} (hts : ts ≠ sp.ca)
    (h : edit fr to content attrs ts vv s = .ok s') (t : Tiled s sp) : Tiled s' sp := by
  unfold edit at h
  split at h
  · cases h
  · rename_i s1 l1 toRight h1
    split at h
    · cases h
    · rename_i s2 fromLeft fromRight h2
      have wf1 := (fnws_wf wf h1).1
      have t1 := tiled_fnws wf h1 t
      have t2 := tiled_fnws wf1 h2 t1
      have keeps := keeps_applyTo (keeps_removeNode ts vv) (between s2 fromRight toRight)
      have t3 := tiled_map_keepsShape keeps t2
      simp only at h
      split at h
      · injection h with h; subst h; exact t3
      · injection h with h; subst h
        exact tiled_insert_new fromLeft (by rw [newNode_id]; exact hts) t3

/-! ### 6. a later style operation -/

theorem tiled_styleWith {s s' : TextSt} (wf : WF s) {sp : Span} {fr to : Pos}
    {g : List AttrNode → List AttrNode} {ts : Ticket} {vv : Option VV}
    (h : styleWith fr to g ts vv s = .ok s') (t : Tiled s sp) : Tiled s' sp := by
  unfold styleWith at h
  split at h
  · cases h
  · rename_i s1 l1 toRight h1
    split at h
    · cases h
    · rename_i s2 fromLeft fromRight h2
      injection h with h; subst h
      exact tiled_map_keepsShape (keeps_applyTo (keeps_styleNode ts vv g) _)
        (tiled_fnws (fnws_wf wf h1).1 h2 (tiled_fnws wf h1 t))

theorem tiled_styleOp {s s' : TextSt} (wf : WF s) {sp : Span} {fr to : Pos}
    {attrs : List (String × String)} {keys : List String} {ts : Ticket} {vv : Option VV}
    (h : styleOp fr to attrs keys ts vv s = .ok s') (t : Tiled s sp) : Tiled s' sp := by
  unfold styleOp at h
  split at h
  · cases h
  · rename_i s1 h1
    have wt1 : WF s1 ∧ Tiled s1 sp := by
      split at h1
      · injection h1 with h1; subst h1; exact ⟨wf, t⟩
      · exact ⟨wf_styleWith wf h1, tiled_styleWith wf h1 t⟩
    split at h
    · injection h with h; subst h; exact wt1.2
    · exact tiled_styleWith wt1.1 h wt1.2

/-! ### 7b. the spans of the blocks an edit removed -/

theorem tiled_removedSpans {s s' : TextSt} (wf : WF s) {fr to : Pos} {content : List Nat}
    {attrs : List (String × String)} {ts : Ticket} {vv : Option VV} (hfresh : Fresh s ts)
    (_hc : Fixed content) (h : edit fr to content attrs ts vv s = .ok s') :
    ∀ sp ∈ removedSpans fr to ts vv s, Tiled s' sp := by
  intro sp hsp
  unfold edit at h
  unfold removedSpans at hsp
  split at h
  · cases h
  · rename_i s1 l1 toRight h1
    rw [h1] at hsp
    simp only at hsp
    split at h
    · cases h
    · rename_i s2 fromLeft fromRight h2
      rw [h2] at hsp
      simp only at hsp
      obtain ⟨n, hnf, rfl⟩ := List.mem_map.mp hsp
      have hn : n ∈ s2 := (List.mem_filter.mp hnf).1
      have wf1 := (fnws_wf wf h1).1
      have fr1 := fnws_fresh wf h1 hfresh
      have wf2 := (fnws_wf wf1 h2).1
      have fr2 := fnws_fresh wf1 h2 fr1
      have t2 := tiled_block wf2 hn
      have keeps := keeps_applyTo (keeps_removeNode ts vv) (between s2 fromRight toRight)
      have t3 := tiled_map_keepsShape keeps t2
      simp only at h
      split at h
      · injection h with h; subst h; exact t3
      · injection h with h; subst h
        refine tiled_insert_new fromLeft ?_ t3
        rw [newNode_id]
        exact fun e => fr2 n hn e.symm

/-! ### 7c. the inserted run -/

theorem locate_suffix {s : TextSt} {i : Id} {n : TNode} {rest : TextSt}
    (h : locate s i = some (n, rest)) : ∀ x ∈ n :: rest, x ∈ s := by
  induction s with
  | nil => simp [locate] at h
  | cons a r ih =>
    unfold locate at h
    split at h
    · injection h with h
      injection h with h1 h2
      subst h1; subst h2
      exact fun x hx => hx
    · exact fun x hx => List.mem_cons_of_mem _ (ih h x hx)

theorem skipFrom_fst_mem (ts : Ticket) (cur : TNode) (rest : List TNode) :
    (skipFrom ts cur rest).1 ∈ cur :: rest := by
  induction rest generalizing cur with
  | nil => simp [skipFrom]
  | cons nx r ih =>
    unfold skipFrom
    split
    · exact List.mem_cons_of_mem _ (ih nx)
    · simp

/-- the left id `findNodeWithSplit` returns is the id of a block of the new list -/
theorem fnws_left_mem {s : TextSt} {pos : Pos} {ts : Ticket} {s1 : TextSt} {l : Id} {r : Option Id}
    (h : findNodeWithSplit s pos ts = .ok (s1, l, r)) : l ∈ ids s1 := by
  unfold findNodeWithSplit at h
  simp only at h
  split at h
  · cases h
  · rename_i node hnode
    split at h
    · cases h
    · split at h
      · cases h
      · split at h
        · cases h
        · rename_i cur rest hloc
          injection h with h
          injection h with h1 h2
          injection h2 with h2 h3
          subst h1; subst h2
          exact mem_ids (locate_suffix hloc _ (skipFrom_fst_mem ts cur rest))

theorem tiled_inserted {s s' : TextSt} (wf : WF s) {fr to : Pos} {content : List Nat}
    {attrs : List (String × String)} {ts : Ticket} {vv : Option VV} (hfresh : Fresh s ts)
    (hne : content ≠ []) (h : edit fr to content attrs ts vv s = .ok s') :
    Tiled s' { ca := ts, start := 0, stop := content.length, content := content } := by
  unfold edit at h
  split at h
  · cases h
  · rename_i s1 l1 toRight h1
    split at h
    · cases h
    · rename_i s2 fromLeft fromRight h2
      have wf1 := (fnws_wf wf h1).1
      have fr1 := fnws_fresh wf h1 hfresh
      have fr2 := fnws_fresh wf1 h2 fr1
      have keeps := keeps_applyTo (keeps_removeNode ts vv) (between s2 fromRight toRight)
      have hleft : fromLeft ∈ ids (s2.map (applyTo (between s2 fromRight toRight) (removeNode ts vv))) := by
        rw [ids_map_keeps keeps]; exact fnws_left_mem h2
      simp only at h
      split at h
      · rename_i hemp
        exact absurd (List.isEmpty_iff.mp hemp) hne
      · injection h with h; subst h
        refine ⟨?_, ?_⟩
        · intro x hx e1 e2 e3
          rcases mem_insertAfterId_imp hx with rfl | hx
          · simp only [newNode_id] at e2 e3 ⊢
            simp [TNode.len, newNode_units]
          · obtain ⟨m, hm, rfl⟩ := List.mem_map.mp hx
            rw [(keeps m).1] at e1
            exact absurd e1 (fr2 m hm)
        · intro c _ h2'
          refine ⟨newNode ts content attrs, (mem_insertAfterId hleft).mpr (Or.inl rfl), ?_⟩
          refine covers_spec.mpr ⟨rfl, Nat.zero_le _, ?_⟩
          show c < 0 + content.length
          simpa using h2'

/-! ### 9. non-vacuity: a split chain with a tombstone -/

/-- head, then insertion `t = (1,1,7)` split in three: "ab" | "c" (tombstoned) | "de" -/
def exTicket : Ticket := ⟨1, 1, 7⟩

def exState : TextSt :=
  [ headNode,
    { id := (exTicket, 0), units := [97, 98], removedAt := none, attrs := [], insPrev := none },
    { id := (exTicket, 2), units := [99], removedAt := some ⟨2, 1, 7⟩, attrs := [],
      insPrev := some (exTicket, 0) },
    { id := (exTicket, 3), units := [100, 101], removedAt := none, attrs := [],
      insPrev := some (exTicket, 2) } ]

/-- the range `[2, 5)` of insertion `t` is the union of the third and fourth block -/
example : Tiled exState { ca := exTicket, start := 2, stop := 5 } := by
  refine ⟨?_, ?_⟩
  · intro n hn
    simp only [exState, List.mem_cons, List.not_mem_nil, or_false] at hn
    rcases hn with rfl | rfl | rfl | rfl <;> simp [TNode.len, headNode, headId, exTicket]
  · intro c h1 h2
    simp only at h1 h2
    have hc : c = 2 ∨ c = 3 ∨ c = 4 := by omega
    rcases hc with rfl | rfl | rfl <;> decide

/-- the range `[1, 3)` is NOT tiled there: the first block sticks out on the left -/
example : ¬ Tiled exState { ca := exTicket, start := 1, stop := 3 } := by
  intro t
  have := t.inside
    { id := (exTicket, 0), units := [97, 98], removedAt := none, attrs := [], insPrev := none }
    (by simp [exState]) rfl (by decide) (by decide)
  simp at this

end Yorkie.TextUndo
