/-
The delivery invariant of the pub/sub transition system (F.5 P4 + P5) used by
Props/C17.lean `notification_after_change`.
-/
import YorkieModel.Lemmas.PubSub
namespace Yorkie.PubSub

/-- the batch contains an event that the `Filter` does not skip for subscriber `own` -/
def HasRel (evs : List Event) (own : Nat) : Prop := ∃ e, e ∈ evs ∧ e.actor ≠ own

theorem hasRel_relevant {evs : List Event} {own : Nat} (h : HasRel evs own) : relevant evs own ≠ [] := by
  obtain ⟨e, he, ha⟩ := h
  intro hr
  have : e ∈ relevant evs own := by
    simp [relevant, List.mem_filter, he, ha]
  simp [hr] at this

/-- OnEnqueue: the published event is appended, or dropped because two `DocChanged` events of
the same actor are already waiting in the batch – either way the batch holds an event of that actor -/
theorem hasRel_enqueue (b : List Event) (e : Event) (own : Nat) (h : e.actor ≠ own) :
    HasRel (enqueue b e) own := by
  unfold enqueue
  split
  · rename_i hd
    simp only [Bool.and_eq_true, decide_eq_true_eq] at hd
    have hlen : 0 < (b.filter (fun x => x.changed && x.actor == e.actor)).length := by
      have := hd.2; unfold dedupCount at this; omega
    obtain ⟨x, hx⟩ := List.exists_mem_of_length_pos hlen
    simp only [List.mem_filter, Bool.and_eq_true, beq_iff_eq] at hx
    exact ⟨x, hx.1, by rw [hx.2.2]; exact h⟩
  · exact ⟨e, by simp, h⟩

theorem hasRel_enqueue_mono (b : List Event) (e : Event) (own : Nat) (h : HasRel b own) :
    HasRel (enqueue b e) own := by
  unfold enqueue
  split
  · exact h
  · obtain ⟨x, hx, ha⟩ := h
    exact ⟨x, by simp [hx], ha⟩

/-- subscription `i` (of subscriber `own`) is still going to be served by the flush in progress -/
def Loop.mid (l : Loop) (i own : Nat) : Prop :=
  match l with
  | .snap _ evs => HasRel evs own
  | .isDead _ evs c todo _ => HasRel evs own ∧ (c = i ∨ i ∈ todo)
  | .send _ evs c rest todo _ => (c = i ∧ rest ≠ []) ∨ (HasRel evs own ∧ i ∈ todo)
  | .isDead2 _ evs _ _ todo _ => HasRel evs own ∧ i ∈ todo
  | _ => False

theorem mid_nextSub (pick : Nat) (f : Bool) (evs : List Event) (todo dead : List Nat) (i own : Nat)
    (hr : HasRel evs own) (hi : i ∈ todo) : (Loop.nextSub pick f evs todo dead).mid i own := by
  cases todo with
  | nil => simp at hi
  | cons c t =>
    simp only [Loop.nextSub, Loop.mid]
    refine ⟨hr, ?_⟩
    by_cases hc : (if pick ∈ c :: t then pick else c) = i
    · left; exact hc
    · right
      exact (List.mem_erase_of_ne (fun h => hc h.symm)).mpr hi

theorem mid_nextEvent_other (pick : Nat) (f : Bool) (evs : List Event) (c : Nat) (rest : List Event)
    (todo dead : List Nat) (i own : Nat) (hr : HasRel evs own) (hi : i ∈ todo) :
    (Loop.nextEvent pick f evs c rest todo dead).mid i own := by
  cases rest with
  | nil => exact mid_nextSub pick f evs todo dead i own hr hi
  | cons e r => simp only [Loop.nextEvent, Loop.mid]; right; exact ⟨hr, hi⟩

theorem mid_nextEvent_self (pick : Nat) (f : Bool) (evs : List Event) (rest : List Event)
    (todo dead : List Nat) (i own : Nat) (hr : rest ≠ []) :
    (Loop.nextEvent pick f evs i rest todo dead).mid i own := by
  cases rest with
  | nil => exact absurd rfl hr
  | cons e r => simp [Loop.nextEvent, Loop.mid]

/-- the watcher of `i` has been told since clock `t`: its stream is closed, or a notification is
waiting in its buffer, or it received one after `t` -/
def Told (s : State) (i t : Nat) : Prop :=
  (s.subs i).closed = true ∨ (s.subs i).buffer ≠ [] ∨ t < (s.subs i).lastConsume

/-- a notification for `i` is still on its way: it waits in the batch that take number
`enqTake + 1` will pick up, or that flush is running and has not served `i` yet -/
def Pending (s : State) (i enqTake : Nat) : Prop :=
  ((s.objs (s.subs i).home).takes = enqTake ∧ HasRel (s.objs (s.subs i).home).batch (s.subs i).owner) ∨
  ((s.objs (s.subs i).home).takes = enqTake + 1 ∧ (s.objs (s.subs i).home).loop.mid i (s.subs i).owner)

def Deliv (s : State) : Prop :=
  ∀ k e n0 enqAt enqTake tgt, s.ops k = .publish e n0 enqAt enqTake (.done tgt) →
    ∀ i, i < n0 → (s.subs i).owner ≠ e.actor → Told s i enqAt ∨ Pending s i enqTake

/-- the enqueue stamp of every Publish call lies in the past -/
def PubClock (s : State) : Prop :=
  0 < s.clock ∧ ∀ k e n0 enqAt enqTake pc, s.ops k = .publish e n0 enqAt enqTake pc → enqAt < s.clock

theorem LoopMove.mid {s : State} {o : Nat} {l l' : Loop} (hm : LoopMove s o l l') (i : Nat)
    (hmem : (s.subs i).closed = true ∨ i ∈ (s.objs o).members)
    (h : l.mid i (s.subs i).owner) : (s.subs i).closed = true ∨ l'.mid i (s.subs i).owner := by
  cases hm with
  | snap f evs pick =>
    rcases hmem with hc | hmem
    · left; exact hc
    · right; exact mid_nextSub pick f evs _ [] i _ h hmem
  | isDeadDead f evs c todo dead pick hc =>
    obtain ⟨h1, h2 | h2⟩ := h
    · left; subst h2; exact hc
    · right; exact mid_nextSub pick f evs todo _ i _ h1 h2
  | isDeadLive f evs c todo dead pick hc =>
    obtain ⟨h1, h2 | h2⟩ := h
    · right; subst h2
      exact mid_nextEvent_self pick f evs _ todo dead c _ (hasRel_relevant h1)
    · right; exact mid_nextEvent_other pick f evs c _ todo dead i _ h1 h2
  | sendNil f evs c todo dead pick =>
    simp only [Loop.mid] at h
    rcases h with ⟨_, h2⟩ | ⟨h1, h2⟩
    · exact absurd rfl h2
    · right; exact mid_nextSub pick f evs todo dead i _ h1 h2
  | isDead2Dead f evs c rest todo dead pick hc =>
    right; exact mid_nextSub pick f evs todo _ i _ h.1 h.2
  | isDead2Live f evs c rest todo dead pick hc =>
    right; exact mid_nextEvent_other pick f evs c rest todo dead i _ h.1 h.2
  | reapNil f => simp [Loop.mid] at h

theorem deliv_carry {s s' : State} {i t n : Nat}
    (hsub : s'.subs i = s.subs i ∨ ((s'.subs i).owner = (s.subs i).owner ∧
      (s'.subs i).home = (s.subs i).home ∧ (s'.subs i).closed = true))
    (hobj : (s'.objs (s.subs i).home).takes = (s.objs (s.subs i).home).takes ∧
      (∀ own, (s.objs (s.subs i).home).loop.mid i own → (s'.objs (s.subs i).home).loop.mid i own) ∧
      (HasRel (s.objs (s.subs i).home).batch (s.subs i).owner →
        HasRel (s'.objs (s.subs i).home).batch (s.subs i).owner))
    (h : Told s i t ∨ Pending s i n) : Told s' i t ∨ Pending s' i n := by
  rcases hsub with hsub | ⟨h1, h2, h3⟩
  · rcases h with h | h
    · left; simpa [Told, hsub] using h
    · right
      simp only [Pending, hsub] at h ⊢
      rcases h with ⟨ha, hb⟩ | ⟨ha, hb⟩
      · left; exact ⟨by rw [hobj.1]; exact ha, hobj.2.2 hb⟩
      · right; exact ⟨by rw [hobj.1]; exact ha, hobj.2.1 _ hb⟩
  · left; left; exact h3

theorem deliv_tr {s s' : State} (htr : Tr s s') (h : Inv s) (hc : ChanInv s) (hp : PubInv s)
    (hk : PubClock s) (hd : Deliv s) : Deliv s' := by
  intro k e n0 enqAt enqTake tgt hop' i hi hown
  have hr := hp.range
  have hhr := h.homeRange
  cases htr
  case stutter => exact hd _ _ _ _ _ _ hop' i hi hown
  case startSub a l m =>
    st_norm; split at hop'
    · cases hop'
    · exact hd _ _ _ _ _ _ hop' i hi hown
  case startUnsub sid hs =>
    st_norm; split at hop'
    · cases hop'
    · exact hd _ _ _ _ _ _ hop' i hi hown
  case startPub e0 =>
    st_norm; split at hop'
    · cases hop'
    · exact hd _ _ _ _ _ _ hop' i hi hown
  case subPc k0 a l m pc pc' hop =>
    st_norm; split at hop'
    · cases hop'
    · exact hd _ _ _ _ _ _ hop' i hi hown
  case unsubGetNone k0 sid hop he =>
    st_norm; split at hop'
    · cases hop'
    · exact hd _ _ _ _ _ _ hop' i hi hown
  case unsubGetSome k0 sid p hop he =>
    st_norm; split at hop'
    · cases hop'
    · exact hd _ _ _ _ _ _ hop' i hi hown
  case unsubMapNone k0 sid hop he =>
    st_norm; split at hop'
    · cases hop'
    · exact hd _ _ _ _ _ _ hop' i hi hown
  case unsubMapKeep k0 sid o hop he hl =>
    st_norm; split at hop'
    · cases hop'
    · exact hd _ _ _ _ _ _ hop' i hi hown
  case pubGetSome k0 e0 n00 t1 t2 p hop he =>
    st_norm; split at hop'
    · cases hop'
    · exact hd _ _ _ _ _ _ hop' i hi hown
  case upsertOld k0 a l m o pc' hop he =>
    have hold : s.ops k = .publish e n0 enqAt enqTake (.done tgt) := by
      simp only [State.setOp] at hop'; split at hop'
      · cases hop'
      · exact hop'
    have hlt : i ≠ s.nSubs := by have := hr _ _ _ _ _ _ hold; omega
    refine deliv_carry (s := s) (Or.inl ?_) ?_ (hd _ _ _ _ _ _ hold i hi (by simpa [hlt] using hown))
    · simp [hlt]
    · simp only [State.setOp, State.setObj, State.setSub]
      split <;> simp_all
  case upsertNew k0 a l m pc' hop he =>
    have hold : s.ops k = .publish e n0 enqAt enqTake (.done tgt) := by
      simp only [State.setOp] at hop'; split at hop'
      · cases hop'
      · exact hop'
    have hlt : i < s.nSubs := by have := hr _ _ _ _ _ _ hold; omega
    have hne : i ≠ s.nSubs := by omega
    have hh := hhr i hlt
    refine deliv_carry (s := s) (Or.inl ?_) ?_ (hd _ _ _ _ _ _ hold i hi (by simpa [hne] using hown))
    · simp [hne]
    · simp only [State.setOp, State.setObj, State.setSub]
      split
      · omega
      · simp
  case unsubClose k0 sid hop =>
    have hold : s.ops k = .publish e n0 enqAt enqTake (.done tgt) := by
      simp only [State.setOp, closeSub_ops] at hop'; split at hop'
      · cases hop'
      · exact hop'
    have hown' : (s.subs i).owner ≠ e.actor := by
      simp only [State.setOp, closeSub_subs] at hown
      split at hown
      · subst_vars; simpa using hown
      · exact hown
    refine deliv_carry (s := s) ?_ ?_ (hd _ _ _ _ _ _ hold i hi hown')
    · simp only [State.setOp, closeSub_subs]
      split
      · right; subst_vars; simp
      · left; rfl
    · simp [State.setOp]
  case unsubDelete k0 sid p hop =>
    have hold : s.ops k = .publish e n0 enqAt enqTake (.done tgt) := by
      simp only [State.setOp, deleteMember_ops] at hop'; split at hop'
      · cases hop'
      · exact hop'
    have hown' : (s.subs i).owner ≠ e.actor := by
      simp only [State.setOp, deleteMember_subs] at hown
      split at hown
      · rename_i hh; obtain ⟨rfl, _⟩ := hh; simpa using hown
      · exact hown
    refine deliv_carry (s := s) ?_ ?_ (hd _ _ _ _ _ _ hold i hi hown')
    · simp only [State.setOp, deleteMember_subs]
      split
      · right; rename_i hh; obtain ⟨rfl, _⟩ := hh; simp
      · left; rfl
    · simp only [State.setOp, deleteMember_objs]
      split <;> simp_all
  case unsubMapClose k0 sid o hop he hl =>
    have hold : s.ops k = .publish e n0 enqAt enqTake (.done tgt) := by
      simp only [State.setOp] at hop'; split at hop'
      · cases hop'
      · exact hop'
    refine deliv_carry (s := s) (Or.inl rfl) ?_ (hd _ _ _ _ _ _ hold i hi hown)
    simp only [State.setOp, State.setObj]
    split <;> simp_all
  case tick o ho hl =>
    refine deliv_carry (s := s) (Or.inl rfl) ?_ (hd _ _ _ _ _ _ hop' i hi hown)
    simp only [State.setLoop, State.setObj]
    split
    · subst_vars; simp [hl, Loop.mid]
    · simp
  case wake o ho hl hcl =>
    refine deliv_carry (s := s) (Or.inl rfl) ?_ (hd _ _ _ _ _ _ hop' i hi hown)
    simp only [State.setLoop, State.setObj]
    split
    · subst_vars; simp [hl, Loop.mid]
    · simp
  case loopReap o f d dead ho hl =>
    have hown' : (s.subs i).owner ≠ e.actor := by
      simp only [State.setLoop, State.setObj, deleteMember_subs] at hown
      split at hown
      · rename_i hh; obtain ⟨rfl, _⟩ := hh; simpa using hown
      · exact hown
    have hop'' : s.ops k = .publish e n0 enqAt enqTake (.done tgt) := by
      simpa [State.setLoop] using hop'
    refine deliv_carry (s := s) ?_ ?_ (hd _ _ _ _ _ _ hop'' i hi hown')
    · simp only [State.setLoop, State.setObj, deleteMember_subs]
      split
      · right; rename_i hh; obtain ⟨rfl, _⟩ := hh; simp
      · left; rfl
    · simp only [State.setLoop, State.setObj, deleteMember_objs]
      split
      · subst_vars; simp [hl, Loop.mid]
      · simp
  case consume sid e0 rest hb =>
    have hlt := hk.2 _ _ _ _ _ _ hop'
    by_cases hs : i = sid
    · subst hs
      left; right; right
      simp [hlt]
    · refine deliv_carry (s := s) (Or.inl ?_) ?_ (hd _ _ _ _ _ _ hop' i hi (by simpa [hs] using hown))
      · simp [hs]
      · simp
  case pubGetNone k0 e0 n00 t1 t2 hop he =>
    simp only [State.setOp] at hop'
    split at hop'
    · -- the call that just finished without a target: every eligible subscription is closed
      left; left
      cases hc' : (s.subs i).closed with
      | true => exact hc'
      | false =>
        injection hop' with h1 h2 h3 h4 h5
        subst h2
        have hlt : i < s.nSubs := by have := hr _ _ _ _ _ _ hop; omega
        have := h.mem_entry _ _ (h.openMember i hlt hc')
        simp [he] at this
    · exact hd _ _ _ _ _ _ hop' i hi hown
  case pubEnqueue k0 e0 n00 t1 t2 p hop =>
    simp only [State.setOp] at hop'
    split at hop'
    · injection hop' with h1 h2 h3 h4 h5
      subst h1 h2
      cases hc' : (s.subs i).closed with
      | true => left; left; exact hc'
      | false =>
        right; left
        have hhome := hp.enq _ _ _ _ _ _ hop i hi hc'
        have hown' : (s.subs i).owner ≠ e0.actor := hown
        show ((if (s.subs i).home = p then _ else s.objs (s.subs i).home).takes = _) ∧
          HasRel (if (s.subs i).home = p then _ else s.objs (s.subs i).home).batch (s.subs i).owner
        rw [if_pos hhome]
        exact ⟨h4, hasRel_enqueue _ _ _ (fun h => hown' h.symm)⟩
    · refine deliv_carry (s := s) (Or.inl rfl) ?_ (hd _ _ _ _ _ _ hop' i hi hown)
      simp only [State.setOp, State.setObj]
      split
      · rename_i hh; subst hh
        exact ⟨rfl, fun _ h => h, hasRel_enqueue_mono _ _ _⟩
      · simp
  case loopTake o f ho hl =>
    have hold := hd _ _ _ _ _ _ hop' i hi hown
    rcases hold with hT | hP
    · left; exact hT
    · right
      simp only [Pending, State.setObj] at hP ⊢
      split
      · rename_i hh
        rw [hh] at hP
        rcases hP with ⟨ha, hb⟩ | ⟨ha, hb⟩
        · right; exact ⟨by simp [ha], by simpa [Loop.mid] using hb⟩
        · simp [hl, Loop.mid] at hb
      · exact hP
  case loopMove o l l' ho hl hm =>
    have hold := hd _ _ _ _ _ _ hop' i hi hown
    have hlt : i < s.nSubs := by have := hr _ _ _ _ _ _ hop'; omega
    rcases hold with hT | hP
    · left; exact hT
    · simp only [Pending, State.setLoop, State.setObj] at hP ⊢
      by_cases hh : (s.subs i).home = o
      · rw [if_pos hh]
        rw [hh] at hP
        rcases hP with ⟨ha, hb⟩ | ⟨ha, hb⟩
        · right; left; exact ⟨ha, hb⟩
        · have hmem : (s.subs i).closed = true ∨ i ∈ (s.objs o).members := by
            cases hc' : (s.subs i).closed with
            | true => left; rfl
            | false => right; have := h.openMember i hlt hc'; rwa [hh] at this
          rw [hl] at hb
          rcases hm.mid i hmem hb with h1 | h1
          · left; left; exact h1
          · right; right; exact ⟨ha, h1⟩
      · rw [if_neg hh]; right; exact hP
  case loopSend o f evs c e0 rest todo dead pick ho hl =>
    by_cases hci : i = c
    · subst hci
      left
      have := Sub.publish_outcome (s.subs i) e0 s.clock (hc.2 i)
      simp only [Told, State.setLoop, State.setObj, State.setSub, if_pos]
      rcases this with h1 | h1
      · left; exact h1
      · right; left; exact h1
    · have hold := hd _ _ _ _ _ _ hop' i hi (by simpa [State.setLoop, hci] using hown)
      rcases hold with hT | hP
      · left; simpa [Told, State.setLoop, hci] using hT
      · right
        simp only [Pending, State.setLoop, State.setObj, State.setSub, if_neg hci] at hP ⊢
        by_cases hh : (s.subs i).home = o
        · rw [if_pos hh]
          rw [hh] at hP
          rcases hP with ⟨ha, hb⟩ | ⟨ha, hb⟩
          · left; exact ⟨ha, hb⟩
          · right
            refine ⟨ha, ?_⟩
            rw [hl] at hb
            simp only [Loop.mid] at hb
            rcases hb with ⟨h1, _⟩ | ⟨h1, h2⟩
            · exact absurd h1.symm hci
            · split
              · exact mid_nextEvent_other pick f evs c rest todo dead i _ h1 h2
              · simp only [Loop.mid]; exact ⟨h1, h2⟩
        · rw [if_neg hh]; exact hP

theorem pubClock_tr {s s' : State} (htr : Tr s s') (hk : PubClock s) :
    s'.clock = s.clock ∧
    ∀ k e n0 enqAt enqTake pc, s'.ops k = .publish e n0 enqAt enqTake pc → enqAt ≤ s.clock := by
  obtain ⟨h0, h1⟩ := hk
  have h2 : ∀ k e n0 enqAt enqTake pc, s.ops k = .publish e n0 enqAt enqTake pc → enqAt ≤ s.clock :=
    fun k e n0 a t pc h => Nat.le_of_lt (h1 k e n0 a t pc h)
  cases htr <;> try exact ⟨rfl, h2⟩
  all_goals refine ⟨by simp [State.setLoop], ?_⟩
  all_goals st_norm
  all_goals grind

/-- everything that holds in every reachable state -/
structure AllInv (s : State) : Prop where
  inv : Inv s
  chan : ChanInv s
  pub : PubInv s
  fin : FinalInv s
  owner : EntryOwner s
  clock : PubClock s
  deliv : Deliv s

theorem allInv_init : AllInv init where
  inv := inv_init
  chan := by simp [ChanInv, init]
  pub := pubInv_init
  fin := finalInv_init
  owner := by simp [EntryOwner, init]
  clock := by simp [PubClock, init]
  deliv := by simp [Deliv, init]

theorem Inv.setClock {t : State} (h : Inv t) (c : Nat) : Inv { t with clock := c } :=
  ⟨h.entryOpen, h.otherClosed, h.closedEmpty, h.freshEmpty, h.memRange, h.memHome, h.homeRange,
   h.openMember, h.unsubRange, h.unsubDel, h.unsubGone, h.noPanicPub⟩

theorem allInv_step {s : State} (h : AllInv s) (l : Label) : AllInv (step s l) := by
  have htr := stepCore_tr s l
  have hck := pubClock_tr htr h.clock
  exact {
    inv := (inv_tr htr h.inv).setClock _
    chan := (chan_tr htr h.chan : ChanInv (stepCore s l))
    pub := let p := pubInv_tr htr h.inv h.pub; ⟨p.range, p.enq, p.done⟩
    fin := let p := finalInv_tr htr h.fin; ⟨p.closed, p.late, p.lateClosed⟩
    owner := (entryOwner_tr htr h.inv h.owner : EntryOwner (stepCore s l))
    clock := ⟨Nat.succ_pos _, fun k e n0 a t pc hop => Nat.lt_succ_of_le (hck.2 k e n0 a t pc hop)⟩
    deliv := (deliv_tr htr h.inv h.chan h.pub h.clock h.deliv : Deliv (stepCore s l)) }

theorem reachable_allInv {s : State} (h : Reachable s) : AllInv s := by
  induction h with
  | init => exact allInv_init
  | step _ l ih => exact allInv_step ih l

end Yorkie.PubSub
