/-
Text undo/redo: `Undo()` / `Redo()` never fail on histories of content edits AND styles (core Lean only).

The positions a stacked Style reverse carries are those of the forward Style, which the json layer
computed from visible indices (`posOfIndex`): they are resolvable (`PosIn`) and stay so under every
later operation; a Style whose positions are resolvable cannot fail (`execStyle_ok`); span reverses
cannot fail because their spans stay tiled. So no entry of either stack can ever fail.
-/
import YorkieModel.Lemmas.TextUndoMachine
namespace Yorkie.TextUndo
open Yorkie Yorkie.Text

/-- the positions of a stacked Style reverse are resolvable in `st` -/
def StyleOK (st : TextSt) : TRev → Prop
  | .style fr to _ _ => PosIn st fr ∧ PosIn st to
  | _ => True

theorem StyleOK.trans {st st' : TextSt} (hp : ∀ p, PosIn st p → PosIn st' p) {x : TRev}
    (h : StyleOK st x) : StyleOK st' x := by
  cases x with
  | spans a b c d => trivial
  | noop a b => trivial
  | style fr to a k => exact ⟨hp _ h.1, hp _ h.2⟩

theorem styleOK_of_spans {st : TextSt} {x : TRev} (h : x.isSpans = true) : StyleOK st x := by
  cases x <;> simp_all [TRev.isSpans, StyleOK]

theorem not_after_of_tb {lam : Int} {actor : Actor} {s : TextSt} (tb : TB lam actor 0 s) (i : Nat) :
    ∀ n ∈ s, n.id.1.after ⟨lam + 1, i, actor⟩ = false := by
  intro n hn
  have h := Tk.zero.mp (tb n hn)
  have h1 : ¬ (n.id.1.lamport > lam + 1) := by omega
  have h2 : n.id.1.lamport < lam + 1 := by omega
  simp [Ticket.after, Ticket.cmp, h1, h2]

/-- an entry whose spans are tiled and whose Style positions are resolvable runs without an error,
    and so does everything it leaves behind -/
theorem rev_run_total {lam : Int} {actor : Actor} : ∀ (e : List TRev) (i : Nat) (r : Run),
    r.failed = false → WF r.st → TB lam actor 0 r.st →
    (∀ x ∈ e, RevOK lam actor 0 r.st x ∧ StyleOK r.st x) → (∀ y ∈ r.revs, StyleOK r.st y) →
    (runWith execRev (lam + 1) actor (some [(actor, lam + 1)]) i e r).failed = false ∧
    ∀ y ∈ (runWith execRev (lam + 1) actor (some [(actor, lam + 1)]) i e r).revs,
      StyleOK (runWith execRev (lam + 1) actor (some [(actor, lam + 1)]) i e r).st y
  | [], _, _, hf, _, _, _, hr => ⟨hf, hr⟩
  | x :: rest, i, r, hf, wf, tb, hok, hr => by
    have hx := hok x List.mem_cons_self
    have hex : ∃ res, execRev x ⟨lam + 1, i, actor⟩ (some [(actor, lam + 1)]) r.st = .ok res ∧
        ∀ y, res.rev = some y → StyleOK res.st y := by
      cases x with
      | spans fr R m K =>
        obtain ⟨res, g, hex, _, _, hrev, _⟩ := rev_spans_ok wf hx.1 i
        exact ⟨res, hex, fun y hy => by rw [hrev] at hy; injection hy with hy; subst hy; trivial⟩
      | noop a b => exact absurd hx.1 (by simp [RevOK])
      | style fr to a k =>
        obtain ⟨res, hex, _, _, p1, p2, _, hrev⟩ :=
          execStyle_ok wf hx.2.1 hx.2.2 (not_after_of_tb tb i) a k (some [(actor, lam + 1)])
        refine ⟨res, hex, fun y hy => ?_⟩
        rcases hrev with hn | ⟨a', k', hs⟩
        · rw [hn] at hy; cases hy
        · rw [hs] at hy; injection hy with hy; subst hy; exact ⟨p1, p2⟩
    obtain ⟨res, hex, hnew⟩ := hex
    have st1 := rev_step wf tb hx.1 i hex
    simp only [runWith, hf, Bool.false_eq_true, if_false, hex]
    apply rev_run_total rest (i + 1) _ rfl st1.wf st1.tb
    · intro y hy
      have := hok y (List.mem_cons_of_mem _ hy)
      exact ⟨this.1.trans (Nat.le_refl 0) (fun sp _ t => st1.tiled sp t), this.2.trans st1.posin⟩
    · intro y hy
      simp only at hy
      cases hrv : res.rev with
      | none => rw [hrv] at hy; exact (hr y hy).trans st1.posin
      | some z =>
        rw [hrv] at hy
        rcases List.mem_cons.mp hy with rfl | hy
        · exact hnew _ hrv
        · exact (hr y hy).trans st1.posin

/-! ### histories of edits and styles -/

/-- any program of effective content edits and of `Text.Style` calls at visible indices; `Undo()` and
    `Redo()` at any time, with NO side condition -/
inductive ReachT : GHist → Prop
  | init (actor : Actor) (lam : Int) (h : 0 ≤ lam) : ReachT { h := { actor := actor, lamport := lam } }
  | edit {g : GHist} (ops : List TOp) : ReachT g → EditsOnly ops → (∀ op ∈ ops, OpFixed op) →
      (fwdRun g.h ops).failed = false → (∀ y ∈ (fwdRun g.h ops).revs, y.isNoop = false) →
      ReachT (g.change ops)
  | style {g : GHist} {fr to : Nat} {pf pt : Pos} (attrs : List (String × String)) : ReachT g →
      posOfIndex g.h.st fr = some pf → posOfIndex g.h.st to = some pt →
      ReachT (g.change [.style pf pt attrs])
  | undo {g : GHist} : ReachT g → ReachT g.undo
  | redo {g : GHist} : ReachT g → ReachT g.redo

def AllStyleOK (g : GHist) : Prop :=
  (∀ e ∈ g.h.undo, ∀ x ∈ e, StyleOK g.h.st x) ∧ (∀ e ∈ g.h.redo, ∀ x ∈ e, StyleOK g.h.st x)

theorem change_redo {g : GHist} {ops : List TOp} (hnf : (fwdRun g.h ops).failed = false) :
    (g.change ops).h.redo = (if (fwdRun g.h ops).observable then [] else g.h.redo) := by
  have : runWith execFwd (g.h.lamport + 1) g.h.actor g.h.nextVV 1 ops { st := g.h.st } = fwdRun g.h ops := rfl
  simp [GHist.change, doChange, doChangeFrom, this, hnf]

/-- what a change does to the `StyleOK` of the stacks, given what it does to the positions and that
    its own reverses are fine -/
theorem allStyleOK_change {g : GHist} (a : AllStyleOK g) {ops : List TOp}
    (hnf : (fwdRun g.h ops).failed = false)
    (hp : ∀ p, PosIn g.h.st p → PosIn (fwdRun g.h ops).st p)
    (hnew : ∀ y ∈ (fwdRun g.h ops).revs, StyleOK (fwdRun g.h ops).st y) : AllStyleOK (g.change ops) := by
  obtain ⟨c1, c2, _, _⟩ := change_fields hnf
  unfold AllStyleOK
  rw [c1, c2, change_redo hnf]
  constructor
  · split
    · exact fun e he x hx => (a.1 e he x hx).trans hp
    · intro e he x hx
      rcases mem_push he with rfl | he
      · exact hnew x hx
      · exact (a.1 e he x hx).trans hp
  · split
    · intro e he; cases he
    · exact fun e he x hx => (a.2 e he x hx).trans hp

theorem reachT_inv {g : GHist} (r : ReachT g) : Reach g ∧ AllStyleOK g := by
  induction r with
  | init actor lam h => exact ⟨Reach.init actor lam h, by simp [AllStyleOK]⟩
  | @edit g ops _ he hfix hnf hnn ih =>
    have inv := reach_inv ih.1
    have tb1 : TB g.h.lamport g.h.actor 1 g.h.st := fun n hn => (inv.tb n hn).mono (Nat.zero_le 1)
    have fr := (fwd_run (lam := g.h.lamport) (actor := g.h.actor) ops 1 { st := g.h.st } rfl inv.wf tb1
      hfix hnf hnn).1
    refine ⟨Reach.change ops ih.1 hfix hnf hnn, allStyleOK_change ih.2 hnf fr.posin ?_⟩
    exact fun y hy => styleOK_of_spans (fwdRun_spansOnly he hnn y hy)
  | @style g fr to pf pt attrs _ hpf hpt ih =>
    have inv := reach_inv ih.1
    have hvv : g.h.nextVV = some [(g.h.actor, g.h.lamport + 1)] := rfl
    have p1 := posIn_of_posOfIndex inv.wf hpf
    have p2 := posIn_of_posOfIndex inv.wf hpt
    obtain ⟨res, hex, hst, _, q1, q2, _, hrev⟩ :=
      execStyle_ok inv.wf p1 p2 (not_after_of_tb inv.tb 1) attrs [] (some [(g.h.actor, g.h.lamport + 1)])
    have hrun : fwdRun g.h [.style pf pt attrs] =
        { st := res.st, observable := false || res.observable, revs := consRev res.rev [] } :=
      run_single_ok execFwd (g.h.lamport + 1) g.h.actor g.h.nextVV (TOp.style pf pt attrs) g.h.st
        (by simp only [execFwd, hvv]; exact hex)
    have hnf : (fwdRun g.h [.style pf pt attrs]).failed = false := by rw [hrun]
    have hrevs : ∀ y ∈ (fwdRun g.h [.style pf pt attrs]).revs, ∃ a k, y = .style pf pt a k := by
      intro y hy
      rw [hrun] at hy
      rcases hrev with hn | ⟨a, k, hs⟩
      · rw [hn] at hy; cases hy
      · rw [hs] at hy
        simp only [consRev, List.mem_singleton] at hy
        exact ⟨a, k, hy⟩
    have hnn : ∀ y ∈ (fwdRun g.h [.style pf pt attrs]).revs, y.isNoop = false := by
      intro y hy; obtain ⟨a, k, rfl⟩ := hrevs y hy; rfl
    refine ⟨Reach.change _ ih.1 (opFixed_single trivial) hnf hnn, allStyleOK_change ih.2 hnf ?_ ?_⟩
    · rw [hrun]; exact fun p hp => posIn_styleOp inv.wf hst hp
    · intro y hy
      obtain ⟨a, k, rfl⟩ := hrevs y hy
      rw [hrun]; exact ⟨q1, q2⟩
  | @undo g _ ih =>
    have inv := reach_inv ih.1
    have key : ∀ e rest, g.h.undo = e :: rest →
        (revRun g.h e).failed = false ∧ ∀ y ∈ (revRun g.h e).revs, StyleOK (revRun g.h e).st y := by
      intro e rest hu
      have hm : e ∈ g.h.undo := by rw [hu]; exact List.mem_cons_self
      exact rev_run_total e 1 { st := g.h.st } rfl inv.wf inv.tb
        (fun x hx => ⟨inv.uok e hm x hx, ih.2.1 e hm x hx⟩) (by simp)
    refine ⟨Reach.undo ih.1 (fun e rest hu _ => (key e rest hu).1), ?_⟩
    unfold AllStyleOK
    rw [ghist_undo_h]
    cases hu : g.h.undo with
    | nil => rw [undo_nil hu]; exact ⟨fun e he => (by rw [hu] at he; cases he), ih.2.2⟩
    | cons e rest =>
      have hsub : ∀ e' ∈ rest, e' ∈ g.h.undo := fun e' he' => by rw [hu]; exact List.mem_cons_of_mem _ he'
      by_cases hem : e.isEmpty = true
      · obtain ⟨f1, f2, f3, _, _⟩ := undo_fields_empty hu hem
        rw [f1, f2, f3]
        exact ⟨fun e' he' => ih.2.1 e' (hsub e' he'), ih.2.2⟩
      · have hem' : e.isEmpty = false := by simpa using hem
        obtain ⟨k1, k2⟩ := key e rest hu
        obtain ⟨f1, f2, f3, _, _⟩ := undo_fields hu hem' k1
        have rr := rev_run (lam := g.h.lamport) (actor := g.h.actor) e 1 { st := g.h.st } rfl inv.wf inv.tb
          (fun x hx => inv.uok e (by rw [hu]; exact List.mem_cons_self) x hx) k1
        have hp : ∀ p, PosIn g.h.st p → PosIn (revRun g.h e).st p := rr.posin
        rw [f1, f2, f3]
        refine ⟨fun e' he' x hx => (ih.2.1 e' (hsub e' he') x hx).trans hp, ?_⟩
        split
        · exact fun e' he' x hx => (ih.2.2 e' he' x hx).trans hp
        · intro e' he' x hx
          rcases mem_push he' with rfl | he'
          · exact k2 x hx
          · exact (ih.2.2 e' he' x hx).trans hp
  | @redo g _ ih =>
    have inv := reach_inv ih.1
    have key : ∀ e rest, g.h.redo = e :: rest →
        (revRun g.h e).failed = false ∧ ∀ y ∈ (revRun g.h e).revs, StyleOK (revRun g.h e).st y := by
      intro e rest hu
      have hm : e ∈ g.h.redo := by rw [hu]; exact List.mem_cons_self
      exact rev_run_total e 1 { st := g.h.st } rfl inv.wf inv.tb
        (fun x hx => ⟨inv.rok e hm x hx, ih.2.2 e hm x hx⟩) (by simp)
    refine ⟨Reach.redo ih.1 (fun e rest hu _ => (key e rest hu).1), ?_⟩
    unfold AllStyleOK
    rw [ghist_redo_h]
    cases hu : g.h.redo with
    | nil => rw [redo_nil hu]; exact ⟨ih.2.1, fun e he => (by rw [hu] at he; cases he)⟩
    | cons e rest =>
      have hsub : ∀ e' ∈ rest, e' ∈ g.h.redo := fun e' he' => by rw [hu]; exact List.mem_cons_of_mem _ he'
      by_cases hem : e.isEmpty = true
      · obtain ⟨f1, f2, f3, _, _⟩ := redo_fields_empty hu hem
        rw [f1, f2, f3]
        exact ⟨ih.2.1, fun e' he' => ih.2.2 e' (hsub e' he')⟩
      · have hem' : e.isEmpty = false := by simpa using hem
        obtain ⟨k1, k2⟩ := key e rest hu
        obtain ⟨f1, f2, f3, _, _⟩ := redo_fields hu hem' k1
        have rr := rev_run (lam := g.h.lamport) (actor := g.h.actor) e 1 { st := g.h.st } rfl inv.wf inv.tb
          (fun x hx => inv.rok e (by rw [hu]; exact List.mem_cons_self) x hx) k1
        have hp : ∀ p, PosIn g.h.st p → PosIn (revRun g.h e).st p := rr.posin
        rw [f1, f2, f3]
        refine ⟨?_, fun e' he' x hx => (ih.2.2 e' (hsub e' he') x hx).trans hp⟩
        split
        · exact fun e' he' x hx => (ih.2.1 e' he' x hx).trans hp
        · intro e' he' x hx
          rcases mem_push he' with rfl | he'
          · exact k2 x hx
          · exact (ih.2.1 e' he' x hx).trans hp

/-- `Undo()` / `Redo()` return no error in any such history -/
theorem reachT_total {g : GHist} (r : ReachT g) (isUndo : Bool) :
    ((undoRedo g.h isUndo).2).isFailed = false := by
  cases hf : ((undoRedo g.h isUndo).2).isFailed with
  | false => rfl
  | true =>
    obtain ⟨e, rest, hst, _, hfail⟩ := undoRedo_failed hf
    obtain ⟨rr, all⟩ := reachT_inv r
    have inv := reach_inv rr
    cases isUndo with
    | true =>
      simp only [if_true] at hst
      have hm : e ∈ g.h.undo := by rw [hst]; exact List.mem_cons_self
      have := (rev_run_total e 1 { st := g.h.st } rfl inv.wf inv.tb
        (fun x hx => ⟨inv.uok e hm x hx, all.1 e hm x hx⟩) (by simp)).1
      unfold revRun at hfail
      rw [show g.h.nextVV = some [(g.h.actor, g.h.lamport + 1)] from rfl, this] at hfail; cases hfail
    | false =>
      simp only [Bool.false_eq_true, if_false] at hst
      have hm : e ∈ g.h.redo := by rw [hst]; exact List.mem_cons_self
      have := (rev_run_total e 1 { st := g.h.st } rfl inv.wf inv.tb
        (fun x hx => ⟨inv.rok e hm x hx, all.2 e hm x hx⟩) (by simp)).1
      unfold revRun at hfail
      rw [show g.h.nextVV = some [(g.h.actor, g.h.lamport + 1)] from rfl, this] at hfail; cases hfail

end Yorkie.TextUndo
