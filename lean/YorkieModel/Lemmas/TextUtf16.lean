/-
Helper lemmas about `sanitize` (the UTF-16 → Go string → UTF-16 round trip of `TextValue.Split`).
Core Lean only.
-/
import YorkieModel.Model.Text
namespace Yorkie.Text

/-- a code-unit list that survives the Go string round trip unchanged (well-formed UTF-16) -/
def Fixed (u : List Nat) : Prop := sanitize u = u

theorem fixUnit_not_surr (h : Nat) : isSurr (fixUnit h) = false := by
  unfold fixUnit
  split
  · decide
  · simp_all

theorem isHigh_surr {h : Nat} (hh : isHigh h = true) : isSurr h = true := by
  simp [isHigh, isSurr] at *; omega

theorem isLow_surr {h : Nat} (hh : isLow h = true) : isSurr h = true := by
  simp [isLow, isSurr] at *; omega

theorem not_high_of_not_surr {h : Nat} (hh : isSurr h = false) : isHigh h = false := by
  cases h' : isHigh h
  · rfl
  · rw [isHigh_surr h'] at hh; contradiction

theorem not_low_of_not_surr {h : Nat} (hh : isSurr h = false) : isLow h = false := by
  cases h' : isLow h
  · rfl
  · rw [isLow_surr h'] at hh; contradiction

theorem fixUnit_of_not_surr {h : Nat} (hh : isSurr h = false) : fixUnit h = h := by
  simp [fixUnit, hh]

theorem fixUnit_idem (h : Nat) : fixUnit (fixUnit h) = fixUnit h :=
  fixUnit_of_not_surr (fixUnit_not_surr h)

/-- F1 -/
theorem sanitize_length (u : List Nat) : (sanitize u).length = u.length := by
  fun_induction sanitize u <;> simp_all

/-- a head that is not a high surrogate is handled alone -/
theorem sanitize_cons_not_high {x : Nat} (hx : isHigh x = false) (t : List Nat) :
    sanitize (x :: t) = fixUnit x :: sanitize t := by
  cases t with
  | nil => simp [sanitize]
  | cons l r => simp [sanitize, hx]

/-- a head whose successor is not a low surrogate is handled alone -/
theorem sanitize_cons_not_low {x l : Nat} (hl : isLow l = false) (r : List Nat) :
    sanitize (x :: l :: r) = fixUnit x :: sanitize (l :: r) := by
  simp [sanitize, hl]

theorem sanitize_pair {h l : Nat} (hh : isHigh h = true) (hl : isLow l = true) (r : List Nat) :
    sanitize (h :: l :: r) = h :: l :: sanitize r := by
  simp [sanitize, hh, hl]

/-- F2 -/
theorem sanitize_idem (u : List Nat) : sanitize (sanitize u) = sanitize u := by
  fun_induction sanitize u with
  | case1 => simp [sanitize]
  | case2 h => simp [sanitize, fixUnit_idem]
  | case3 h l r hc ih =>
    simp only [Bool.and_eq_true] at hc
    rw [sanitize_pair hc.1 hc.2, ih]
  | case4 h l r hc ih =>
    rw [sanitize_cons_not_high (not_high_of_not_surr (fixUnit_not_surr h)), fixUnit_idem, ih]

theorem fixed_sanitize (u : List Nat) : Fixed (sanitize u) := sanitize_idem u

theorem fixed_nil : Fixed [] := by simp [Fixed, sanitize]

/-- the first unit of a well-formed list is not a (lone) low surrogate -/
theorem fixed_head_not_low {y : Nat} {t : List Nat} (h : Fixed (y :: t)) : isLow y = false := by
  cases hl : isLow y
  · rfl
  · have hh : isHigh y = false := by
      simp [isLow, isHigh] at *; omega
    have := sanitize_cons_not_high hh t
    unfold Fixed at h
    rw [this] at h
    have h1 : fixUnit y = y := by injection h
    have : isSurr (fixUnit y) = false := fixUnit_not_surr y
    rw [h1, isLow_surr hl] at this
    contradiction

/-- F3 -/
theorem sanitize_append_fixed_left {x : List Nat} (hx : Fixed x) (y : List Nat) :
    sanitize (x ++ y) = x ++ sanitize y := by
  unfold Fixed at hx
  fun_induction sanitize x with
  | case1 => simp
  | case2 h =>
    simp only [List.cons.injEq, and_true] at hx
    have hs : isSurr h = false := by rw [← hx]; exact fixUnit_not_surr h
    simp only [List.cons_append, List.nil_append]
    rw [sanitize_cons_not_high (not_high_of_not_surr hs), fixUnit_of_not_surr hs]
  | case3 h l r hc ih =>
    simp only [Bool.and_eq_true] at hc
    simp only [List.cons.injEq, true_and] at hx
    simp only [List.cons_append]
    rw [sanitize_pair hc.1 hc.2, ih hx]
  | case4 h l r hc ih =>
    simp only [List.cons.injEq] at hx
    have hs : isSurr h = false := by rw [← hx.1]; exact fixUnit_not_surr h
    simp only [List.cons_append]
    rw [sanitize_cons_not_high (not_high_of_not_surr hs), fixUnit_of_not_surr hs]
    have := ih hx.2
    simp only [List.cons_append] at this
    rw [this]

/-- F4 -/
theorem fixed_append {x y : List Nat} (hx : Fixed x) (hy : Fixed y) : Fixed (x ++ y) := by
  unfold Fixed
  rw [sanitize_append_fixed_left hx, hy]

/-- F8 -/
theorem sanitize_append_fixed_right (x : List Nat) {y : List Nat} (hy : Fixed y) :
    sanitize (x ++ y) = sanitize x ++ y := by
  fun_induction sanitize x with
  | case1 => simp only [List.nil_append]; exact hy
  | case2 h =>
    cases y with
    | nil => simp [sanitize]
    | cons y0 t =>
      simp only [List.cons_append, List.nil_append]
      rw [sanitize_cons_not_low (fixed_head_not_low hy), hy]
  | case3 h l r hc ih =>
    simp only [Bool.and_eq_true] at hc
    simp only [List.cons_append]
    rw [sanitize_pair hc.1 hc.2, ih]
  | case4 h l r hc ih =>
    simp only [List.cons_append] at ih ⊢
    have : sanitize (h :: l :: (r ++ y)) = fixUnit h :: sanitize (l :: (r ++ y)) := by
      simp [sanitize, hc]
    rw [this, ih]

/-- F6: cutting the sanitized text and sanitizing again = cutting the original and sanitizing -/
theorem sanitize_take_sanitize (w : List Nat) (k : Nat) :
    sanitize ((sanitize w).take k) = sanitize (w.take k) := by
  fun_induction sanitize w generalizing k with
  | case1 => simp
  | case2 h =>
    cases k with
    | zero => simp
    | succ k => simp [sanitize, fixUnit_idem]
  | case3 h l r hc ih =>
    simp only [Bool.and_eq_true] at hc
    match k with
    | 0 => simp
    | 1 => simp [sanitize]
    | k + 2 =>
      simp only [List.take_succ_cons]
      rw [sanitize_pair hc.1 hc.2, sanitize_pair hc.1 hc.2, ih]
  | case4 h l r hc ih =>
    cases k with
    | zero => simp
    | succ k =>
      simp only [List.take_succ_cons]
      rw [sanitize_cons_not_high (not_high_of_not_surr (fixUnit_not_surr h)), fixUnit_idem, ih]
      cases k with
      | zero => simp [sanitize]
      | succ k =>
        simp only [List.take_succ_cons]
        have : sanitize (h :: l :: List.take k r) = fixUnit h :: sanitize (l :: List.take k r) := by
          simp [sanitize, hc]
        rw [this]

/-- F7: the same for the right piece -/
theorem sanitize_drop_sanitize (w : List Nat) (k : Nat) :
    sanitize ((sanitize w).drop k) = sanitize (w.drop k) := by
  fun_induction sanitize w generalizing k with
  | case1 => simp
  | case2 h =>
    cases k with
    | zero => simp [sanitize, fixUnit_idem]
    | succ k => simp
  | case3 h l r hc ih =>
    simp only [Bool.and_eq_true] at hc
    match k with
    | 0 =>
      simp only [List.drop_zero]
      rw [← sanitize_pair hc.1 hc.2, sanitize_idem]
    | 1 =>
      simp only [List.drop_succ_cons, List.drop_zero]
      have hnh : isHigh l = false := by
        have := hc.2; simp [isLow, isHigh] at *; omega
      rw [sanitize_cons_not_high hnh, sanitize_cons_not_high hnh, sanitize_idem]
    | k + 2 =>
      simp only [List.drop_succ_cons]
      exact ih k
  | case4 h l r hc ih =>
    cases k with
    | zero =>
      simp only [List.drop_zero]
      have e : sanitize (h :: l :: r) = fixUnit h :: sanitize (l :: r) := by simp [sanitize, hc]
      rw [← e, sanitize_idem]
    | succ k =>
      simp only [List.drop_succ_cons]
      exact ih k

/-- units without any surrogate are well-formed -/
theorem fixed_of_no_surr {u : List Nat} (h : ∀ x ∈ u, isSurr x = false) : Fixed u := by
  unfold Fixed
  induction u with
  | nil => simp [sanitize]
  | cons x t ih =>
    have hx := h x (by simp)
    rw [sanitize_cons_not_high (not_high_of_not_surr hx), fixUnit_of_not_surr hx,
      ih (fun y hy => h y (by simp [hy]))]

end Yorkie.Text
