/-
Structural well-formedness of the arena of Model/Tree.lean and its preservation by the primitive mutators.

`Tree.WF t`: the cached size is the arena length, the root is allocated, the child lists and the parent
pointers describe the same relation (`c ∈ children p ↔ parent c = some p`), every pointer stored in a
node or in `NodeMapByID` is allocated (no dangling pointer: `Tree.get` never falls back to its default),
child lists have no duplicates, and every `NodeMapByID` entry points at a node carrying that id.

NOT part of `WF` (see Props/C19.lean): acyclicity of the parent relation and exactness of the cached
lengths - the latter was false of the code before two repairs (`stale_length_witness_off` - repaired, 7d079773 -, `surrogate_split_witness_off` - repaired, 0e18e1d8 -).
-/
import YorkieModel.Lemmas.TreeBasic
namespace Yorkie.Tree
open Yorkie

structure Tree.WF (t : Tree) : Prop where
  size_eq : t.size = t.nodes.length
  root_lt : t.root < t.size
  child_lt : ∀ p c, c ∈ (t.get p).children → c < t.size
  child_parent : ∀ p c, c ∈ (t.get p).children → (t.get c).parent = some p
  parent_child : ∀ c p, (t.get c).parent = some p → p < t.size ∧ c ∈ (t.get p).children
  nodup : ∀ p, (t.get p).children.Nodup
  idmap_ok : ∀ e ∈ t.idmap, e.2 < t.size ∧ (t.get e.2).id = e.1

theorem get_of_ge (t : Tree) (p : Ptr) (h : t.nodes.length ≤ p) : t.get p = default := by
  unfold Tree.get
  rw [List.getD_eq_getElem?_getD, List.getElem?_eq_none h]; rfl

@[simp] theorem default_children : (default : TNode).children = [] := rfl
@[simp] theorem default_parent : (default : TNode).parent = none := rfl

/-- a node with a child or a parent is allocated -/
theorem Tree.WF.lt_of_child {t : Tree} (w : t.WF) {p c : Ptr} (h : c ∈ (t.get p).children) : p < t.size := by
  rcases Nat.lt_or_ge p t.size with h' | h'
  · exact h'
  · rw [get_of_ge t p (w.size_eq ▸ h')] at h; simp at h

theorem Tree.WF.lt_of_parent {t : Tree} (w : t.WF) {p c : Ptr} (h : (t.get c).parent = some p) : c < t.size := by
  rcases Nat.lt_or_ge c t.size with h' | h'
  · exact h'
  · rw [get_of_ge t c (w.size_eq ▸ h')] at h; simp at h

/-! ### field updates that keep the links -/

/-- a `modify` that keeps `parent`, `children` and `id` keeps `WF` -/
theorem Tree.WF.modify {t : Tree} (w : t.WF) (p : Ptr) (f : TNode → TNode)
    (hp : ∀ n, (f n).parent = n.parent) (hc : ∀ n, (f n).children = n.children) (hi : ∀ n, (f n).id = n.id) :
    (t.modify p f).WF := by
  have gp : ∀ q, ((t.modify p f).get q).parent = (t.get q).parent := by
    intro q; rw [get_modify]; split <;> simp [hp]
  have gc : ∀ q, ((t.modify p f).get q).children = (t.get q).children := by
    intro q; rw [get_modify]; split <;> simp [hc]
  have gi : ∀ q, ((t.modify p f).get q).id = (t.get q).id := by
    intro q; rw [get_modify]; split <;> simp [hi]
  exact {
    size_eq := by simp [w.size_eq]
    root_lt := w.root_lt
    child_lt := fun q c h => w.child_lt q c (gc q ▸ h)
    child_parent := fun q c h => by rw [gp]; exact w.child_parent q c (gc q ▸ h)
    parent_child := fun c q h => by
      have := w.parent_child c q (gp c ▸ h)
      exact ⟨this.1, by rw [gc]; exact this.2⟩
    nodup := fun q => by rw [gc]; exact w.nodup q
    idmap_ok := fun e he => by
      have := w.idmap_ok e he
      exact ⟨this.1, by rw [gi]; exact this.2⟩ }

theorem Tree.WF.foldl {α} {g : Tree → α → Tree} (hg : ∀ t a, t.WF → (g t a).WF) :
    ∀ (l : List α) (t : Tree), t.WF → (l.foldl g t).WF
  | [], _, w => w
  | a :: r, t, w => Tree.WF.foldl hg r (g t a) (hg t a w)

/-- `UpdateAncestorsLength` -/
theorem Tree.WF.updAnc : ∀ (f : Nat) (t : Tree) (o : Option Ptr) (d : Int) (incl : Bool), t.WF → (updAnc f t o d incl).WF
  | 0, _, _, _, _, w => w
  | _ + 1, _, none, _, _, w => w
  | f + 1, t, some q, d, incl, w => by
    unfold Yorkie.Tree.updAnc
    split
    · exact Tree.WF.updAnc f _ _ d incl (w.modify q _ (fun _ => rfl) (fun _ => rfl) (fun _ => rfl))
    · simp only []
      split
      · exact w.modify q _ (fun _ => rfl) (fun _ => rfl) (fun _ => rfl)
      · exact Tree.WF.updAnc f _ _ d incl (w.modify q _ (fun _ => rfl) (fun _ => rfl) (fun _ => rfl))

theorem Tree.WF.addLens {t : Tree} (w : t.WF) (c : Ptr) : (t.addLens c).WF := by
  unfold Tree.addLens
  exact Tree.WF.updAnc _ _ _ _ _ (Tree.WF.updAnc _ _ _ _ _ w)

/-- `TreeNode.remove` -/
theorem Tree.WF.removeNode {t : Tree} (w : t.WF) (n : Ptr) (ts : Ticket) : (t.removeNode n ts).WF := by
  unfold Tree.removeNode
  split
  · exact Tree.WF.updAnc _ _ _ _ _ (w.modify n _ (fun _ => rfl) (fun _ => rfl) (fun _ => rfl))
  · split
    · exact w.modify n _ (fun _ => rfl) (fun _ => rfl) (fun _ => rfl)
    · exact w

theorem Tree.WF.recalcLength {t : Tree} (w : t.WF) (n : Ptr) : (t.recalcLength n).WF := by
  unfold Tree.recalcLength
  exact w.modify n _ (fun _ => rfl) (fun _ => rfl) (fun _ => rfl)

/-! ### `NodeMapByID` -/

theorem mem_putGo {id : NodeId} {p : Ptr} : ∀ {m : List (NodeId × Ptr)} {e : NodeId × Ptr},
    e ∈ putGo id p m → e = (id, p) ∨ e ∈ m
  | [], e, h => by simp [putGo] at h; exact Or.inl h
  | x :: r, e, h => by
    unfold putGo at h
    split at h
    · rcases List.mem_cons.mp h with h | h
      · exact Or.inl h
      · exact Or.inr (List.mem_cons_of_mem _ h)
    · rcases List.mem_cons.mp h with h | h
      · exact Or.inr (h ▸ List.mem_cons_self)
      · rcases mem_putGo h with h | h
        · exact Or.inl h
        · exact Or.inr (List.mem_cons_of_mem _ h)

theorem Tree.WF.put {t : Tree} (w : t.WF) (p : Ptr) (hp : p < t.size) : (t.put p).WF :=
  { size_eq := w.size_eq, root_lt := w.root_lt, child_lt := w.child_lt, child_parent := w.child_parent,
    parent_child := w.parent_child, nodup := w.nodup
    idmap_ok := fun e he => by
      rcases mem_putGo he with h | h
      · subst h; exact ⟨hp, rfl⟩
      · exact w.idmap_ok e h }

theorem Tree.WF.putNode {t : Tree} (w : t.WF) (p : Ptr) (hp : p < t.size) : (t.putNode p).WF := by
  unfold Tree.putNode
  split
  · split
    · exact w
    · exact w.put p hp
  · exact w.put p hp

theorem mem_floorGo {id : NodeId} : ∀ {m : List (NodeId × Ptr)} {best e : Option (NodeId × Ptr)},
    floorGo id m best = e → ∀ x, e = some x → x ∈ m ∨ best = some x
  | [], best, e, h, x, hx => by simp [floorGo] at h; exact Or.inr (h ▸ hx)
  | y :: r, best, e, h, x, hx => by
    unfold floorGo at h
    split at h
    · split at h
      · split at h
        · rcases mem_floorGo h x hx with h' | h'
          · exact Or.inl (List.mem_cons_of_mem _ h')
          · exact Or.inl (by simp at h'; exact h' ▸ List.mem_cons_self)
        · rcases mem_floorGo h x hx with h' | h'
          · exact Or.inl (List.mem_cons_of_mem _ h')
          · exact Or.inr h'
      · rcases mem_floorGo h x hx with h' | h'
        · exact Or.inl (List.mem_cons_of_mem _ h')
        · exact Or.inl (by simp at h'; exact h' ▸ List.mem_cons_self)
    · rcases mem_floorGo h x hx with h' | h'
      · exact Or.inl (List.mem_cons_of_mem _ h')
      · exact Or.inr h'

/-- whatever `findFloorNode` returns is allocated -/
theorem Tree.WF.findFloor_lt {t : Tree} (w : t.WF) {id : NodeId} {p : Ptr} (h : t.findFloor id = some p) : p < t.size := by
  unfold Tree.findFloor at h
  cases hf : floorGo id t.idmap none with
  | none => simp [hf] at h
  | some x =>
    simp [hf] at h
    rcases mem_floorGo hf x rfl with h' | h'
    · exact h ▸ (w.idmap_ok x h').1
    · simp at h'

theorem Tree.WF.findFloorO_lt {t : Tree} (w : t.WF) {id : Option NodeId} {p : Ptr} (h : t.findFloorO id = some p) : p < t.size := by
  unfold Tree.findFloorO at h
  split at h
  · exact w.findFloor_lt h
  · simp at h

end Yorkie.Tree
