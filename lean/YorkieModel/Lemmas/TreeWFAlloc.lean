/-
`Tree.WF` for trees built from the converter's node lists: `allocFlat` (`FromTreeNodes` up to `NewTree`: the
contents of an operation), `newTree`/`ofFlat` (a decoded tree: `Set` of a new tree, snapshots), `deepCopy`.
-/
import YorkieModel.Lemmas.TreeWFEdit
namespace Yorkie.Tree
open Yorkie

/-- the arena extended by detached, childless nodes -/
def Tree.extend (t : Tree) (fresh : List TNode) : Tree :=
  { t with nodes := t.nodes ++ fresh, size := t.size + fresh.length }

theorem get_extend (t : Tree) (fresh : List TNode) (q : Ptr) :
    (t.extend fresh).get q = if q < t.nodes.length then t.get q else fresh.getD (q - t.nodes.length) default := by
  unfold Tree.extend Tree.get
  simp only [List.getD_eq_getElem?_getD]
  split
  · rename_i h; rw [List.getElem?_append_left h]
  · rename_i h; rw [List.getElem?_append_right (Nat.le_of_not_lt h)]

theorem getD_prop {α} (P : α → Prop) (d : α) (hd : P d) : ∀ (l : List α) (i : Nat), (∀ x ∈ l, P x) → P (l.getD i d)
  | [], _, _ => by simpa using hd
  | a :: _, 0, h => by simpa using h a List.mem_cons_self
  | _ :: r, i + 1, h => by
    simp only [List.getD_cons_succ]
    exact getD_prop P d hd r i (fun x hx => h x (List.mem_cons_of_mem _ hx))

theorem Tree.WF.extend {t : Tree} (w : t.WF) (fresh : List TNode)
    (hf : ∀ x ∈ fresh, x.parent = none ∧ x.children = []) :
    (t.extend fresh).WF ∧ (∀ q, q < t.size → (t.extend fresh).get q = t.get q) ∧
    (∀ q, t.size ≤ q → ((t.extend fresh).get q).parent = none ∧ ((t.extend fresh).get q).children = []) := by
  have g := get_extend t fresh
  have hfd : ∀ i, (fresh.getD i default).parent = none ∧ (fresh.getD i default).children = [] :=
    fun i => getD_prop (fun x => x.parent = none ∧ x.children = []) default ⟨rfl, rfl⟩ fresh i hf
  have old : ∀ q, q < t.size → (t.extend fresh).get q = t.get q := by
    intro q hq; rw [g]; simp [w.size_eq ▸ hq]
  have new : ∀ q, t.size ≤ q → ((t.extend fresh).get q).parent = none ∧ ((t.extend fresh).get q).children = [] := by
    intro q hq; rw [g]
    have : ¬ q < t.nodes.length := by rw [← w.size_eq]; exact Nat.not_lt.mpr hq
    simp only [this, if_false]; exact hfd _
  have hsz : (t.extend fresh).size = t.size + fresh.length := rfl
  have lt_of_ch : ∀ q c, c ∈ ((t.extend fresh).get q).children → q < t.size := by
    intro q c h
    rcases Nat.lt_or_ge q t.size with h' | h'
    · exact h'
    · rw [(new q h').2] at h; simp at h
  refine ⟨{
    size_eq := by simp [Tree.extend, w.size_eq]
    root_lt := by rw [hsz]; exact Nat.lt_of_lt_of_le w.root_lt (Nat.le_add_right _ _)
    child_lt := fun q c h => by
      have hq := lt_of_ch q c h
      rw [old q hq] at h; rw [hsz]
      exact Nat.lt_of_lt_of_le (w.child_lt q c h) (Nat.le_add_right _ _)
    child_parent := fun q c h => by
      have hq := lt_of_ch q c h
      rw [old q hq] at h
      rw [old c (w.child_lt q c h)]; exact w.child_parent q c h
    parent_child := fun c q h => by
      rcases Nat.lt_or_ge c t.size with h' | h'
      · rw [old c h'] at h
        have := w.parent_child c q h
        exact ⟨by rw [hsz]; exact Nat.lt_of_lt_of_le this.1 (Nat.le_add_right _ _), by rw [old q this.1]; exact this.2⟩
      · rw [(new c h').1] at h; cases h
    nodup := fun q => by
      rcases Nat.lt_or_ge q t.size with h' | h'
      · rw [old q h']; exact w.nodup q
      · rw [(new q h').2]; exact List.nodup_nil
    idmap_ok := fun e he => by
      have := w.idmap_ok e he
      exact ⟨by rw [hsz]; exact Nat.lt_of_lt_of_le this.1 (Nat.le_add_right _ _), by rw [old e.2 this.1]; exact this.2⟩ }, old, new⟩

/-- `FromTreeNodes` main loop -/
theorem linkGo_good (base : Nat) : ∀ (order : List (Nat × Nat)) (tbl : List (Nat × Ptr)) (t t' : Tree), t.WF →
    (∀ e ∈ tbl, e.2 < t.size) → (∀ e ∈ order, base + e.1 < t.size ∧ (t.get (base + e.1)).parent = none) →
    (order.map (·.1)).Nodup → linkGo base order tbl t = .ok t' →
    t'.WF ∧ t'.size = t.size ∧ ∀ q, (∀ e ∈ order, q ≠ base + e.1) → (t'.get q).parent = (t.get q).parent
  | [], _, t, t', w, _, _, _, h => by unfold linkGo at h; cases h; exact ⟨w, rfl, fun _ _ => rfl⟩
  | (i, d) :: r, tbl, t, t', w, htbl, hord, hnd, h => by
    unfold linkGo at h
    split at h
    · cases h
    · rename_i d' par hfind
      simp only at h
      split at h
      · cases h
      · have hpar : par < t.size := by
          split at hfind
          · cases hfind
          · exact htbl _ (List.mem_of_find?_eq_some hfind)
        have hp := hord (i, d) List.mem_cons_self
        have w1 := w.link par (base + i) ((base + i) :: (t.get par).children) hpar hp.1 hp.2 (List.Perm.refl _)
        have ih := linkGo_good base r _ _ t' w1
          (fun e he => by
            rcases List.mem_cons.mp he with he | he
            · rw [he]; exact hp.1
            · exact htbl e (List.mem_filter.mp he).1)
          (fun e he => by
            have he' := hord e (List.mem_cons_of_mem _ he)
            refine ⟨he'.1, ?_⟩
            have hne : base + e.1 ≠ base + i := by
              intro eq
              have : e.1 = i := Nat.add_left_cancel eq
              have hnd' := (List.nodup_cons.mp hnd).1
              exact hnd' (this ▸ List.mem_map_of_mem (f := (·.1)) he)
            rw [link_parent t par (base + i) _ w hpar hp.1 _ hne]; exact he'.2)
          (List.nodup_cons.mp hnd).2 h
        refine ⟨ih.1, ih.2.1, fun q hq => ?_⟩
        rw [ih.2.2 q (fun e he => hq e (List.mem_cons_of_mem _ he))]
        exact link_parent t par (base + i) _ w hpar hp.1 q (hq (i, d) List.mem_cons_self)

theorem SameLinks.updDesc : ∀ (f : Nat) (incl : Bool) (p : Ptr) (t : Tree), SameLinks t (updDesc f incl p t).1
  | 0, _, _, t => SameLinks.refl t
  | f + 1, incl, p, t => by
    unfold Yorkie.Tree.updDesc
    simp only
    have fold : ∀ (l : List Ptr) (acc : Tree × Int), SameLinks t acc.1 →
        SameLinks t (l.foldl (fun (acc : Tree × Int) c =>
          if (!incl && (Yorkie.Tree.updDesc f incl c acc.1).1.removed c) = true then ((Yorkie.Tree.updDesc f incl c acc.1).1, acc.2)
          else ((Yorkie.Tree.updDesc f incl c acc.1).1, acc.2 + (Yorkie.Tree.updDesc f incl c acc.1).2)) acc).1 := by
      intro l
      induction l with
      | nil => intro acc h; exact h
      | cons c r ih =>
        intro acc h
        rw [List.foldl_cons]
        apply ih
        split
        · exact h.trans (SameLinks.updDesc f incl c acc.1)
        · exact h.trans (SameLinks.updDesc f incl c acc.1)
    exact (fold _ (t, 0) (SameLinks.refl t)).trans (SameLinks.modify _ _ _ (by intro n; split <;> rfl))

theorem wf_of_fresh (fresh : List TNode) (hf : ∀ x ∈ fresh, x.parent = none ∧ x.children = []) (hn : 0 < fresh.length) :
    ((Tree.mk [] 0 [] 0).extend fresh).WF := by
  have g : ∀ q, (((Tree.mk [] 0 [] 0).extend fresh).get q).parent = none ∧ (((Tree.mk [] 0 [] 0).extend fresh).get q).children = [] := by
    intro q
    rw [get_extend]
    simp only [List.length_nil, Nat.not_lt_zero, if_false]
    exact getD_prop (fun x => x.parent = none ∧ x.children = []) default ⟨rfl, rfl⟩ fresh _ hf
  exact {
    size_eq := by simp [Tree.extend]
    root_lt := by simp [Tree.extend]; exact hn
    child_lt := fun q c h => by rw [(g q).2] at h; simp at h
    child_parent := fun q c h => by rw [(g q).2] at h; simp at h
    parent_child := fun c q h => by rw [(g c).1] at h; cases h
    nodup := fun q => by rw [(g q).2]; exact List.nodup_nil
    idmap_ok := fun e he => by simp [Tree.extend] at he }

/-- the allocation step of `allocFlat`, as an `extend` -/
def flatFresh (fl : List Flat) : List TNode :=
  fl.map (fun f =>
    { mkNode f.node.id f.node.type f.node.value f.node.attrs with
      removedAt := f.node.removedAt, insPrev := f.node.insPrev, insNext := f.node.insNext,
      mergedFrom := f.node.mergedFrom, mergedAt := f.node.mergedAt })

theorem flatFresh_detached (fl : List Flat) : ∀ x ∈ flatFresh fl, x.parent = none ∧ x.children = [] := by
  intro x hx
  obtain ⟨f, _, rfl⟩ := List.mem_map.mp hx
  exact ⟨rfl, rfl⟩

theorem allocFlat_eq (t : Tree) (fl : List Flat) :
    t.allocFlat fl =
      if fl.isEmpty then .error .notFound else
      match linkGo t.size (((List.range (fl.length - 1)).zip ((fl.take (fl.length - 1)).map (·.depth))).reverse)
          [((fl.getLast?.map (·.depth)).getD 0, t.size + fl.length - 1)] (t.extend (flatFresh fl)) with
      | .error e => .error e
      | .ok t1 =>
        .ok ((updDesc (updDesc t1.fuel false (t.size + fl.length - 1) t1).1.fuel true (t.size + fl.length - 1)
              (updDesc t1.fuel false (t.size + fl.length - 1) t1).1).1, t.size + fl.length - 1) := by
  unfold Tree.allocFlat Tree.extend flatFresh
  simp only [List.length_map]
  rfl

/-- the shared part of `allocFlat`: from a well-formed extended arena -/
theorem allocFlat_core {t0 t' : Tree} {base n : Nat} {order : List (Nat × Nat)} {tbl : List (Nat × Ptr)} {rootP : Ptr}
    (w0 : t0.WF) (hn : 0 < n) (hsz : t0.size = base + n) (hroot : rootP = base + n - 1)
    (hfresh : ∀ q, base ≤ q → (t0.get q).parent = none)
    (hidx : ∀ e ∈ order, e.1 < n - 1) (hnd : (order.map (·.1)).Nodup) (htbl : ∀ e ∈ tbl, e.2 < t0.size)
    (h : linkGo base order tbl t0 = .ok t') :
    t'.WF ∧ t'.size = t0.size ∧ (t'.get rootP).parent = none ∧ ∀ q, q < base → (t'.get q).parent = (t0.get q).parent := by
  subst hroot
  have hlt : ∀ e ∈ order, base + e.1 < t0.size ∧ (t0.get (base + e.1)).parent = none := fun e he =>
    ⟨by rw [hsz]; have := hidx e he; omega, hfresh _ (Nat.le_add_right _ _)⟩
  have g := linkGo_good base order tbl t0 t' w0 htbl hlt hnd h
  refine ⟨g.1, g.2.1, ?_, fun q hq => ?_⟩
  · rw [g.2.2 (base + n - 1) (fun e he => by have := hidx e he; omega)]
    exact hfresh _ (by omega)
  · exact g.2.2 q (fun e _ => by unfold Ptr at *; omega)

theorem allocFlat_aux {t t' : Tree} {rootP : Ptr} (fl : List Flat) (w0 : (t.extend (flatFresh fl)).WF)
    (hfresh : ∀ q, t.size ≤ q → ((t.extend (flatFresh fl)).get q).parent = none)
    (h : t.allocFlat fl = .ok (t', rootP)) :
    t'.WF ∧ t'.size = t.size + fl.length ∧ t.size ≤ rootP ∧ rootP < t'.size ∧ (t'.get rootP).parent = none ∧
    ∀ q, q < t.size → (t'.get q).parent = ((t.extend (flatFresh fl)).get q).parent := by
  rw [allocFlat_eq] at h
  split at h
  · cases h
  · rename_i hne
    have hn : 0 < fl.length := by
      cases fl with
      | nil => simp at hne
      | cons a r => simp
    split at h
    · cases h
    · rename_i t1 h1
      cases h
      have hsz0 : (t.extend (flatFresh fl)).size = t.size + fl.length := by simp [Tree.extend, flatFresh]
      have hmem : ∀ e ∈ ((List.range (fl.length - 1)).zip ((fl.take (fl.length - 1)).map (·.depth))).reverse, e.1 < fl.length - 1 := by
        intro e he
        have := (List.of_mem_zip (List.mem_reverse.mp he)).1
        exact List.mem_range.mp this
      have hnd : ((((List.range (fl.length - 1)).zip ((fl.take (fl.length - 1)).map (·.depth))).reverse).map (·.1)).Nodup := by
        rw [List.map_reverse, List.map_fst_zip (by simp)]
        exact (List.reverse_perm _).nodup_iff.mpr List.nodup_range
      have core := allocFlat_core (base := t.size) (n := fl.length) (rootP := t.size + fl.length - 1) w0 hn hsz0 rfl hfresh hmem hnd
        (fun e he => by simp at he; rw [he, hsz0]; show t.size + fl.length - 1 < _; omega) h1
      have sl := (SameLinks.updDesc t1.fuel false (t.size + fl.length - 1) t1).trans
        (SameLinks.updDesc (updDesc t1.fuel false (t.size + fl.length - 1) t1).1.fuel true (t.size + fl.length - 1) _)
      refine ⟨core.1.sameLinks sl, by rw [sl.1, core.2.1, hsz0], by show t.size ≤ t.size + fl.length - 1; omega, ?_, ?_, fun q hq => ?_⟩
      · rw [sl.1, core.2.1, hsz0]; show t.size + fl.length - 1 < _; omega
      · rw [sl.parent]; exact core.2.2.1
      · rw [sl.parent]; exact core.2.2.2 q hq

/-- `FromTreeNodes` up to `NewTree` on top of a well-formed arena: a detached, well-formed subtree is added -/
theorem allocFlat_good {t t' : Tree} {rootP : Ptr} (w : t.WF) (fl : List Flat) (h : t.allocFlat fl = .ok (t', rootP)) :
    t'.WF ∧ Keeps t t' ∧ t.size ≤ rootP ∧ rootP < t'.size ∧ (t'.get rootP).parent = none := by
  have e := w.extend (flatFresh fl) (flatFresh_detached fl)
  have a := allocFlat_aux fl e.1 (fun q hq => (e.2.2 q hq).1) h
  refine ⟨a.1, ⟨by rw [a.2.1]; exact Nat.le_add_right _ _, fun q hq hp => ?_⟩, a.2.2.1, a.2.2.2.1, a.2.2.2.2.1⟩
  rw [a.2.2.2.2.2 q hq, e.2.1 q hq]; exact hp

/-! ### `NewTree`, `DeepCopy`, decoded trees -/

theorem SameLinks.rebuildMergeState (t : Tree) : SameLinks t t.rebuildMergeState := by
  unfold Tree.rebuildMergeState
  apply SameLinks.foldl
  intro a c
  split
  · split
    · exact SameLinks.refl _
    · simp only []
      refine SameLinks.trans ?_ (SameLinks.ite _ (SameLinks.modify _ _ _ (by intro _; rfl)) (SameLinks.refl _))
      split
      · exact SameLinks.modify _ _ _ (by intro _; rfl)
      · exact SameLinks.refl _
  · exact SameLinks.refl _

theorem foldl_put_wf : ∀ (l : List Ptr) (t : Tree), t.WF → (∀ p ∈ l, p < t.size) →
    (l.foldl (fun acc p => acc.put p) t).WF ∧ (l.foldl (fun acc p => acc.put p) t).size = t.size
  | [], _, w, _ => ⟨w, rfl⟩
  | p :: r, t, w, hl => by
    rw [List.foldl_cons]
    have ih := foldl_put_wf r (t.put p) (w.put p (hl p List.mem_cons_self)) (fun x hx => hl x (List.mem_cons_of_mem _ hx))
    exact ⟨ih.1, ih.2⟩

theorem foldl_putNode_wf : ∀ (l : List Ptr) (t : Tree), t.WF → (∀ p ∈ l, p < t.size) →
    (l.foldl (fun acc p => acc.putNode p) t).WF
  | [], _, w, _ => w
  | p :: r, t, w, hl => by
    rw [List.foldl_cons]
    exact foldl_putNode_wf r (t.putNode p) (w.putNode p (hl p List.mem_cons_self))
      (fun x hx => by rw [putNode_size]; exact hl x (List.mem_cons_of_mem _ hx))

/-- `NewTree(root)` on an allocated root -/
theorem newTree_wf {t : Tree} (w : t.WF) (r : Ptr) (hr : r < t.size) : (t.newTree r).WF := by
  unfold Tree.newTree
  refine Tree.WF.sameLinks ?_ (SameLinks.rebuildMergeState _)
  unfold Tree.register
  simp only
  have w0 : ({ t with root := r, idmap := [] } : Tree).WF :=
    { size_eq := w.size_eq, root_lt := hr, child_lt := w.child_lt, child_parent := w.child_parent,
      parent_child := w.parent_child, nodup := w.nodup, idmap_ok := fun e he => by cases he }
  have w1 : ({ t with root := r } : Tree).WF :=
    { size_eq := w.size_eq, root_lt := hr, child_lt := w.child_lt, child_parent := w.child_parent,
      parent_child := w.parent_child, nodup := w.nodup, idmap_ok := w.idmap_ok }
  have hpo : ∀ p ∈ ({ t with root := r } : Tree).postorderOf r, p < t.size := postorder_lt w1 _ r hr
  have f1 := foldl_put_wf _ _ w0 hpo
  split
  · exact foldl_putNode_wf _ _ f1.1 (fun p hp => by rw [f1.2]; exact hpo p hp)
  · exact f1.1

/-- **`Tree.DeepCopy` of a well-formed tree is well-formed** -/
theorem deepCopy_wf {t : Tree} (w : t.WF) : t.deepCopy.WF := newTree_wf w t.root w.root_lt

/-- **every tree the converter decodes is well-formed** (`Set` of a new tree, snapshots, `SNAP`) -/
theorem ofFlat_wf {fl : List Flat} {t : Tree} (h : Tree.ofFlat fl = .ok t) : t.WF := by
  unfold Tree.ofFlat at h
  split at h
  · cases h
  · rename_i t1 r h1
    cases h
    have hne : 0 < fl.length := by
      cases fl with
      | nil => simp [Tree.allocFlat] at h1
      | cons a r => simp
    have w0 := wf_of_fresh (flatFresh fl) (flatFresh_detached fl) (by simp [flatFresh]; exact hne)
    have a := allocFlat_aux (t := Tree.mk [] 0 [] 0) fl w0 (fun q _ => by
      rw [get_extend]
      simp only [List.length_nil, Nat.not_lt_zero, if_false]
      exact (getD_prop (fun (x : TNode) => x.parent = none ∧ x.children = []) default ⟨rfl, rfl⟩ _ _ (flatFresh_detached fl)).1) h1
    exact newTree_wf a.1 r a.2.2.2.1

/-- the snapshot codec yields a well-formed tree -/
theorem snapshot_wf {t t' : Tree} (h : t.snapshot = .ok t') : t'.WF := ofFlat_wf h

end Yorkie.Tree
