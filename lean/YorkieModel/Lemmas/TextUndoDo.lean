/-
Text undo/redo: the forward edit of the history machine at visible indices never fails, and an edit
with content always leaves a span reverse (core Lean only).
-/
import YorkieModel.Lemmas.TextUndoMachine
namespace Yorkie.TextUndo
open Yorkie Yorkie.Text

/-- whether `Text.edit` succeeds does not depend on the version vector (only the two
    `findNodeWithSplit` calls can fail) -/
theorem edit_ok_vv {s s' : TextSt} {fr to : Pos} {content : List Nat} {attrs : List (String × String)}
    {ts : Ticket} {vv : Option VV} (h : edit fr to content attrs ts vv s = .ok s') (vv' : Option VV) :
    ∃ s'', edit fr to content attrs ts vv' s = .ok s'' := by
  unfold edit at h ⊢
  split at h
  · cases h
  · rename_i s1 l1 toRight h1
    split at h
    · cases h
    · rename_i s2 fromLeft fromRight h2
      simp only
      split <;> exact ⟨_, rfl⟩

theorem ids_sub_fnws {s s1 : TextSt} {pos : Pos} {ts : Ticket} {l : Id} {r : Option Id}
    (h : findNodeWithSplit s pos ts = .ok (s1, l, r)) : ∀ i ∈ ids s, i ∈ ids s1 := by
  rcases fnws_cases h with rfl | ⟨n, hn, k, h0, hk, rfl⟩
  · exact fun i hi => hi
  · intro i hi
    obtain ⟨m, hm, rfl⟩ := exists_of_mem_ids hi
    have : splitMap n k m ∈ splitNode s n k := (mem_splitNode hn h0 hk).mpr (Or.inr ⟨m, hm, rfl⟩)
    have e := mem_ids this
    rwa [splitMap_id] at e

/-- no node id disappears in an edit -/
theorem ids_sub_edit {s s' : TextSt} {fr to : Pos} {content : List Nat} {attrs : List (String × String)}
    {ts : Ticket} {vv : Option VV} (h : edit fr to content attrs ts vv s = .ok s') :
    ∀ i ∈ ids s, i ∈ ids s' := by
  unfold edit at h
  split at h
  · cases h
  · rename_i s1 l1 toRight h1
    split at h
    · cases h
    · rename_i s2 fromLeft fromRight h2
      have keeps := keeps_applyTo (keeps_removeNode ts vv) (between s2 fromRight toRight)
      have step : ∀ i ∈ ids s, i ∈ ids (s2.map (applyTo (between s2 fromRight toRight) (removeNode ts vv))) := by
        intro i hi
        rw [ids_map_keeps keeps]
        exact ids_sub_fnws h2 i (ids_sub_fnws h1 i hi)
      simp only at h
      split at h
      · injection h with h; subst h; exact step
      · injection h with h; subst h
        intro i hi
        obtain ⟨m, hm, rfl⟩ := exists_of_mem_ids (step i hi)
        exact mem_ids (mem_insertAfterId_of_mem hm)

theorem posOfIndex_id_mem {s : TextSt} {i : Nat} {p : Pos} (h : posOfIndex s i = some p) : p.id ∈ ids s := by
  unfold posOfIndex at h
  split at h
  · cases h
  · rename_i hd tl
    split at h
    · injection h with h; subst h; simp [ids]
    · rename_i hi
      obtain ⟨A, n, C, hs, _, hp, _, _⟩ := findPos_spec h (Nat.pos_of_ne_zero hi)
      rw [hp, hs]; exact mem_ids (by simp)

theorem normalizePos_ok {s : TextSt} {p : Pos} (h : p.id ∈ ids s) : ∃ q, normalizePos s p = some q := by
  obtain ⟨m, hm, e⟩ := exists_of_mem_ids h
  obtain ⟨b, hb⟩ := findFloor_isSome (q := p.id) hm (by simp [better, e])
  unfold normalizePos
  rw [hb]
  cases s with
  | nil => cases hm
  | cons x r => exact ⟨_, rfl⟩

/-- **the forward edit never fails**: at visible indices `fr ≤ to` of a well-formed block list, with
    a ticket newer than the text, `Edit.Execute` (edit + the normalised anchor of its reverse)
    returns ok, whatever the version vector -/
theorem execEdit_ok {s : TextSt} (wf : WF s) {ts : Ticket} (nw : Newer s ts) {fr to : Nat} (hft : fr ≤ to)
    (hto : to ≤ (visible s).length) {pf pt : Pos} (hpf : posOfIndex s fr = some pf)
    (hpt : posOfIndex s to = some pt) (content : List Nat) (attrs : List (String × String))
    (vv : Option VV) : ∃ res, execEdit pf pt content attrs ts vv s = .ok res := by
  obtain ⟨s0, h0, _⟩ := edit_local_spec wf nw (vv := none) rfl hft hto hpf hpt content attrs
  obtain ⟨s', h'⟩ := edit_ok_vv h0 vv
  obtain ⟨q, hq⟩ := normalizePos_ok (ids_sub_edit h' pf.id (posOfIndex_id_mem hpf))
  unfold execEdit
  rw [h']; simp only; rw [hq]
  exact ⟨_, rfl⟩

theorem reverseOfEdit_content {fp : Pos} {R : List Span} {content : List Nat} {ts : Ticket}
    (h : content ≠ []) : (reverseOfEdit fp R content ts).isNoop = false := by
  unfold reverseOfEdit
  have : content.isEmpty = false := by cases content <;> simp_all
  simp [this, TRev.isNoop]

/-- on the machine: a single edit at visible indices runs; with content its reverse is a span reverse -/
theorem fwdRun_edit_ok {g : GHist} (inv : GInv g) {fr to : Nat} (hft : fr ≤ to)
    (hto : to ≤ (visible g.h.st).length) {pf pt : Pos} (hpf : posOfIndex g.h.st fr = some pf)
    (hpt : posOfIndex g.h.st to = some pt) (content : List Nat) (attrs : List (String × String)) :
    (fwdRun g.h [.edit pf pt content attrs]).failed = false ∧
    (content ≠ [] → ∀ y ∈ (fwdRun g.h [.edit pf pt content attrs]).revs, y.isNoop = false) := by
  have tb1 : TB g.h.lamport g.h.actor 1 g.h.st := fun n hn => (inv.tb n hn).mono (Nat.zero_le 1)
  obtain ⟨res, hex⟩ := execEdit_ok inv.wf (newer_of_tb tb1) hft hto hpf hpt content attrs
    (some [(g.h.actor, g.h.lamport + 1)])
  have hvv : g.h.nextVV = some [(g.h.actor, g.h.lamport + 1)] := rfl
  have hrun : fwdRun g.h [.edit pf pt content attrs] =
      { st := res.st, observable := false || res.observable, revs := consRev res.rev [] } :=
    run_single_ok execFwd (g.h.lamport + 1) g.h.actor g.h.nextVV (TOp.edit pf pt content attrs) g.h.st
      (by simp only [execFwd, hvv]; exact hex)
  refine ⟨by rw [hrun], fun hne y hy => ?_⟩
  obtain ⟨fp, R, hrev⟩ := execEdit_rev hex
  rw [hrun, hrev] at hy
  simp only [consRev, List.mem_singleton] at hy
  subst hy
  exact reverseOfEdit_content hne

end Yorkie.TextUndo
