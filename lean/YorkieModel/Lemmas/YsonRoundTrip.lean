/-
C18: the text-level round trip, assembled from part A (`preprocess (marshal v) = marshalP v`),
part B (`jsonParse (marshalP v) = toJ v`) and the tree level (`fromJ (toJ v) = v`).
Core Lean only.
-/
import YorkieModel.Lemmas.YsonJsonMain
namespace Yorkie.Yson

/-- part A for a root object (which may have a `type` member) -/
theorem pp_marshal_rootObj (kvs : List (Str × Yson)) (hw : Yson.wfKvs kvs = true)
    (hs : (atomsKvs kvs).all Atom.prepassOK = true) : PP (marshal (.obj kvs)) (marshalP (.obj kvs)) :=
  (pp_lbrace.append (pp_joinWith pp_comma (pp_marshalKvs kvs hw hs))).append pp_rbrace

/-- part B for a root object -/
theorem pValue_marshalP_rootObj (kvs : List (Str × Yson)) (f : Nat) (rest : Str)
    (hsorted : sortedKeys (Yson.keysOf kvs) = true) (hw : Yson.wfKvs kvs = true)
    (hs : (atomsKvs kvs).all Atom.safe = true) (hf : (marshalP (.obj kvs)).length < f) :
    pValue f (marshalP (.obj kvs) ++ rest) = some (toJ (.obj kvs), rest) := by
  simp only [marshalP, List.length_append, List.length_cons, List.length_nil] at hf
  obtain ⟨f', rfl⟩ : ∃ f', f = f' + 1 := ⟨f - 1, by omega⟩
  cases kvs with
  | nil => simpa [marshalP, marshalPKvs, joinWith, toJ, toJKvs] using pValue_obj_empty (f := f') (rest := rest)
  | cons p r =>
    obtain ⟨k, x⟩ := p
    have hm := pMembers_marshalP ((k, x) :: r) f' rest (List.cons_ne_nil _ _) hw hs (by omega)
    obtain ⟨T', hT'⟩ := joinWith_cons_exists (keyPiece k ++ marshalP x) (marshalPKvs r) (125 :: rest)
    simp only [marshalPKvs] at hm
    have hk : keyPiece k ++ marshalP x ++ T' = 34 :: (quoteBody k ++ 34 :: 58 :: (marshalP x ++ T')) := by simp [keyPiece, quote]
    rw [hT', hk] at hm
    have := pValue_obj hm
    rw [← hk, ← hT'] at this
    have hsortedK : SortedK (toJKvs ((k, x) :: r)) := by
      apply sortedK_of_sortedKeys
      have : ∀ l : List (Str × Yson), (toJKvs l).map (·.1) = Yson.keysOf l := by
        intro l; induction l with
        | nil => rfl
        | cons q t ih => obtain ⟨a, b⟩ := q; simp [toJKvs, Yson.keysOf, ih]
      rw [this]; exact hsorted
    rw [canonKvs_sorted hsortedK] at this
    simpa [marshalP, marshalPKvs, toJ] using this

theorem jsonParse_of_pValue {s : Str} {j : J} (hsk : skipWs s = s)
    (h : pValue (s.length + 1) s = some (j, [])) : jsonParse s = some j := by
  simp [jsonParse, hsk, h, skipWs]

/-- the text-level half: pre-pass + JSON reader produce exactly the JSON tree `toJ v` -/
theorem bridge_root (v : Yson) (hroot : v.isObj = true ∨ ∃ xs, v = .arr xs) (hw : v.wf = true)
    (hs : YsonSafe v = true) : jsonParse (preprocess (marshal v)) = some (toJ v) := by
  rcases hroot with h | ⟨xs, rfl⟩
  · cases v <;> simp [Yson.isObj] at h
    rename_i kvs
    simp only [Yson.wf, Bool.and_eq_true] at hw
    simp only [YsonSafe, rootAtoms] at hs
    rw [(pp_marshal_rootObj kvs hw.2 (all_prepassOK_of_safe hs)).eq]
    apply jsonParse_of_pValue
    · simp [marshalP, skipWs, isWs]
    · have := pValue_marshalP_rootObj kvs ((marshalP (.obj kvs)).length + 1) [] hw.1 hw.2 hs (by omega)
      simpa using this
  · have hs' : (atoms (.arr xs)).all Atom.safe = true := by simpa [YsonSafe, rootAtoms] using hs
    rw [(pp_marshal (.arr xs) hw (all_prepassOK_of_safe hs')).eq]
    apply jsonParse_of_pValue
    · simp [marshalP, skipWs, isWs]
    · have := pValue_marshalP (.arr xs) ((marshalP (.arr xs)).length + 1) [] hw hs' numStop_nil (by omega)
      simpa using this

end Yorkie.Yson
