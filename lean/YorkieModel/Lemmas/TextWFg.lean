/-
The invariant of Text block lists WITH garbage collection.

`WF` (Lemmas/TextWF.lean) says that a piece with offset > 0 directly continues its `insPrev` piece; a
purge removes pieces from the middle of an insertion, so that is false afterwards.  `WFg` keeps the
other five clauses and replaces the chain clause by what `RGATreeSplit.Purge`'s relinking maintains:
`insPrev` of a piece is the SURVIVING piece of the same insertion with the greatest smaller offset
(none if there is none).  `WF → WFg`; every lemma of the TextConv development only needs `WFg`.
Preserved by `splitNode`, shape-preserving maps, insertion of a new node, `edit`, `styleOp` (here)
and by `purge` (Lemmas/TextGcWF.lean).  Core Lean only.
-/
import YorkieModel.Lemmas.TextEdit
namespace Yorkie.Text

structure WFg (s : TextSt) : Prop where
  head : ∃ h r, s = h :: r ∧ h.id = headId ∧ h.units = []
  nodup : (ids s).Nodup
  nonempty : ∀ n ∈ s, n.id ≠ headId → n.units ≠ []
  disjoint : ∀ n ∈ s, ∀ m ∈ s, n.id.1 = m.id.1 → n.id.2 < m.id.2 → n.id.2 + n.len ≤ m.id.2
  /-- `insPrev` is the predecessor among the surviving pieces of the same insertion -/
  link : ∀ m ∈ s, 0 < m.id.2 →
    (∀ p, m.insPrev = some p → ∃ n ∈ s, n.id = p ∧ n.id.1 = m.id.1 ∧ n.id.2 < m.id.2 ∧
      ∀ x ∈ s, x.id.1 = m.id.1 → x.id.2 < m.id.2 → x.id.2 ≤ n.id.2) ∧
    (m.insPrev = none → ∀ x ∈ s, x.id.1 = m.id.1 → ¬ x.id.2 < m.id.2)
  fixed : ∀ n ∈ s, Fixed n.units

theorem WF.toG {s : TextSt} (wf : WF s) : WFg s := by
  refine ⟨wf.head, wf.nodup, wf.nonempty, wf.disjoint, ?_, wf.fixed⟩
  intro m hm hpos
  obtain ⟨n, hn, h1, h2, h3⟩ := wf.chain m hm hpos
  have hlen : 0 < n.len := by
    apply Classical.byContradiction
    intro h0
    have hz : n.len = 0 := by omega
    have hh : n.id = headId := by
      apply Classical.byContradiction
      intro hne
      exact wf.nonempty n hn hne (List.eq_nil_of_length_eq_zero hz)
    have : n.id.2 = 0 := by rw [hh]; rfl
    omega
  constructor
  · intro p hp
    rw [h3] at hp; injection hp with hp; subst hp
    refine ⟨n, hn, rfl, h1, by omega, ?_⟩
    intro x hx hx1 hx2
    apply Classical.byContradiction
    intro hgt
    have := wf.disjoint n hn x hx (h1.trans hx1.symm) (by omega)
    omega
  · intro hnone; rw [h3] at hnone; cases hnone

theorem rightPart_fresh_g {s : TextSt} (wf : WFg s) {n : TNode} (hn : n ∈ s) {k : Nat} (h0 : 0 < k)
    (hk : k < n.len) : (rightPart n k).id ∉ ids s := by
  intro h
  obtain ⟨m, hm, hid⟩ := exists_of_mem_ids h
  have h1 : n.id.1 = m.id.1 := by rw [hid]; rfl
  have h2 : m.id.2 = n.id.2 + k := by rw [hid]; rfl
  have := wf.disjoint n hn m hm h1 (by omega)
  omega

/-- splitting a node strictly inside preserves the invariant -/
theorem wfg_splitNode {s : TextSt} (wf : WFg s) {n : TNode} (hn : n ∈ s) {k : Nat} (h0 : 0 < k)
    (hk : k < n.len) : WFg (splitNode s n k) := by
  have hfresh := rightPart_fresh_g wf hn h0 hk
  have hnhead : n.id ≠ headId := by
    intro h
    obtain ⟨hd, r, hs, hid, hu⟩ := wf.head
    have : n = hd := eq_of_id_eq wf.nodup hn (by rw [hs]; simp) (by rw [h, hid])
    rw [this] at hk; simp [TNode.len, hu] at hk
  have mem := @mem_splitNode s n k hn h0 hk
  have rid1 : (rightPart n k).id.1 = n.id.1 := rfl
  have rid2 : (rightPart n k).id.2 = n.id.2 + k := rfl
  refine ⟨?_, ?_, ?_, ?_, ?_, ?_⟩
  · -- head
    obtain ⟨hd, r, hs, hid, hu⟩ := wf.head
    rw [splitNode_eq h0 hk, hs, List.map_cons]
    obtain ⟨r', hr'⟩ := @insertAfterId_head (splitMap n k hd) (r.map (splitMap n k)) n.id (rightPart n k)
    refine ⟨_, r', hr', by simp [hid], ?_⟩
    rw [splitMap_units, if_neg (by rw [hid]; exact fun h => hnhead h.symm), hu]
  · -- nodup
    rw [splitNode_eq h0 hk]
    apply nodup_insertAfterId
    · rw [ids_map_splitMap]; exact wf.nodup
    · rw [ids_map_splitMap]; exact hfresh
  · -- nonempty
    intro x hx hxh
    rcases mem.mp hx with rfl | ⟨m, hm, rfl⟩
    · intro h
      have h1 : (rightPart n k).units.length = n.len - k := rightPart_len n k
      rw [h] at h1
      simp only [List.length_nil] at h1
      omega
    · simp only [splitMap_id] at hxh
      rw [splitMap_units]
      split
      · intro h
        have h1 : (sanitize (List.take k m.units)).length = 0 := by rw [h]; rfl
        rw [sanitize_length, List.length_take] at h1
        have : m = n := eq_of_id_eq wf.nodup hm hn ‹_›
        subst this
        unfold TNode.len at hk; omega
      · exact wf.nonempty m hm hxh
  · -- disjoint
    intro a ha b hb h1 h2
    rcases mem.mp ha with rfl | ⟨a, ham, rfl⟩ <;> rcases mem.mp hb with rfl | ⟨b, hbm, rfl⟩
    · omega
    · simp only [splitMap_id] at h1 h2 ⊢
      rw [rightPart_len]
      rw [rid1] at h1; rw [rid2] at h2 ⊢
      have := wf.disjoint n hn b hbm h1 (by omega)
      omega
    · simp only [splitMap_id] at h1 h2 ⊢
      rw [rid1] at h1; rw [rid2] at h2 ⊢
      by_cases hid : a.id = n.id
      · have : a = n := eq_of_id_eq wf.nodup ham hn hid
        subst this
        rw [splitMap_len_self a (by omega)]; omega
      · rw [splitMap_len_other k hid]
        have hne : a.id.2 ≠ n.id.2 := by
          intro h; apply hid
          exact Prod.ext h1 h
        rcases Nat.lt_or_gt_of_ne hne with hlt | hgt
        · have := wf.disjoint a ham n hn h1 hlt; omega
        · have := wf.disjoint n hn a ham h1.symm hgt; omega
    · simp only [splitMap_id] at h1 h2 ⊢
      have := wf.disjoint a ham b hbm h1 h2
      have := splitMap_len_le n k a
      omega
  · -- link
    -- offsets of the members of the new list that belong to ticket `t` and lie below `o`, in terms of the old list
    have below : ∀ (x : TNode), x ∈ splitNode s n k → ∀ (t : Ticket) (o : Nat), x.id.1 = t → x.id.2 < o →
        (x.id.2 = n.id.2 + k ∧ n.id.1 = t) ∨ ∃ y ∈ s, y.id.1 = t ∧ y.id.2 = x.id.2 := by
      intro x hx t o h1 h2
      rcases mem.mp hx with rfl | ⟨y, hy, rfl⟩
      · exact Or.inl ⟨rfl, h1⟩
      · exact Or.inr ⟨y, hy, by simpa using h1, by simp⟩
    intro x hx hpos
    rcases mem.mp hx with rfl | ⟨m, hm, rfl⟩
    · -- the right part: its predecessor is the left part
      constructor
      · intro p hp
        have : p = n.id := by simpa [rightPart] using hp.symm
        subst this
        refine ⟨splitMap n k n, mem.mpr (Or.inr ⟨n, hn, rfl⟩), by simp, by simp [rightPart], by
          simp only [splitMap_id, rid2]; omega, ?_⟩
        intro y hy hy1 hy2
        simp only [splitMap_id]
        rw [rid1] at hy1; rw [rid2] at hy2
        rcases below y hy n.id.1 (n.id.2 + k) hy1 hy2 with ⟨e, _⟩ | ⟨z, hz, hz1, hz2⟩
        · omega
        · rw [← hz2]
          apply Classical.byContradiction
          intro hgt
          have := wf.disjoint n hn z hz hz1.symm (by omega)
          omega
      · intro hnone; simp [rightPart] at hnone
    · -- an old member
      simp only [splitMap_id] at hpos ⊢
      obtain ⟨l1, l2⟩ := wf.link m hm hpos
      constructor
      · intro p hp
        rw [splitMap_insPrev] at hp
        by_cases hmn : m.insPrev = some n.id
        · -- relinked to the right part
          rw [if_pos hmn] at hp
          injection hp with hp; subst hp
          obtain ⟨q, hq, hq0, hq1, hq2, hq3⟩ := l1 n.id hmn
          have hqn : q = n := eq_of_id_eq wf.nodup hq hn hq0
          subst hqn
          have hdis : q.id.2 + q.len ≤ m.id.2 := wf.disjoint q hn m hm hq1 hq2
          refine ⟨rightPart q k, mem.mpr (Or.inl rfl), rfl, hq1, by rw [rid2]; omega, ?_⟩
          intro y hy hy1 hy2
          rw [rid2]
          rcases below y hy m.id.1 m.id.2 hy1 hy2 with ⟨e, _⟩ | ⟨z, hz, hz1, hz2⟩
          · omega
          · have := hq3 z hz hz1 (by omega)
            omega
        · rw [if_neg hmn] at hp
          obtain ⟨q, hq, hq0, hq1, hq2, hq3⟩ := l1 p hp
          refine ⟨splitMap n k q, mem.mpr (Or.inr ⟨q, hq, rfl⟩), by simpa using hq0, by simpa using hq1,
            by simpa using hq2, ?_⟩
          intro y hy hy1 hy2
          simp only [splitMap_id]
          rcases below y hy m.id.1 m.id.2 hy1 hy2 with ⟨e, e1⟩ | ⟨z, hz, hz1, hz2⟩
          · -- the new right part lies below `m`: then `n` does too, and `q` is above `n`
            have hn1 : n.id.2 ≤ q.id.2 := hq3 n hn e1 (by omega)
            have hqn : q.id ≠ n.id := by
              intro e'; apply hmn; rw [hp, ← hq0, e']
            have hne : q.id.2 ≠ n.id.2 := by
              intro h; apply hqn
              exact Prod.ext (hq1.trans e1.symm) h
            have := wf.disjoint n hn q hq (e1.trans hq1.symm) (by omega)
            omega
          · have := hq3 z hz hz1 (by omega)
            omega
      · intro hnone
        rw [splitMap_insPrev] at hnone
        have hmn : ¬ m.insPrev = some n.id := by
          intro h; rw [if_pos h] at hnone; cases hnone
        rw [if_neg hmn] at hnone
        intro y hy hy1 hy2
        rcases below y hy m.id.1 m.id.2 hy1 hy2 with ⟨e, e1⟩ | ⟨z, hz, hz1, hz2⟩
        · exact l2 hnone n hn e1 (by omega)
        · exact l2 hnone z hz hz1 (by omega)
  · -- fixed
    intro x hx
    rcases mem.mp hx with rfl | ⟨m, hm, rfl⟩
    · exact fixed_sanitize _
    · unfold Fixed
      rw [splitMap_units]
      split
      · exact sanitize_idem _
      · exact wf.fixed m hm

theorem wfg_map_keeps {s : TextSt} (wf : WFg s) {f : TNode → TNode} (hf : KeepsShape f) :
    WFg (s.map f) := by
  have hlen : ∀ n, (f n).len = n.len := fun n => by simp [TNode.len, (hf n).2.1]
  refine ⟨?_, ?_, ?_, ?_, ?_, ?_⟩
  · obtain ⟨hd, r, hs, hid, hu⟩ := wf.head
    exact ⟨f hd, r.map f, by simp [hs], by rw [(hf hd).1, hid], by rw [(hf hd).2.1, hu]⟩
  · rw [ids_map_keeps hf]; exact wf.nodup
  · intro x hx
    obtain ⟨n, hn, rfl⟩ := List.mem_map.mp hx
    rw [(hf n).1, (hf n).2.1]; exact wf.nonempty n hn
  · intro a' ha' b' hb'
    obtain ⟨a, ha, rfl⟩ := List.mem_map.mp ha'
    obtain ⟨b, hb, rfl⟩ := List.mem_map.mp hb'
    rw [(hf a).1, (hf b).1, hlen]; exact wf.disjoint a ha b hb
  · intro x hx
    obtain ⟨m, hm, rfl⟩ := List.mem_map.mp hx
    rw [(hf m).1, (hf m).2.2]
    intro hpos
    obtain ⟨l1, l2⟩ := wf.link m hm hpos
    constructor
    · intro p hp
      obtain ⟨q, hq, hq0, hq1, hq2, hq3⟩ := l1 p hp
      refine ⟨f q, List.mem_map.mpr ⟨q, hq, rfl⟩, by rw [(hf q).1]; exact hq0, by rw [(hf q).1]; exact hq1,
        by rw [(hf q).1]; exact hq2, ?_⟩
      intro y hy hy1 hy2
      obtain ⟨z, hz, rfl⟩ := List.mem_map.mp hy
      rw [(hf z).1] at hy1 hy2 ⊢
      rw [(hf q).1]
      exact hq3 z hz hy1 hy2
    · intro hnone y hy hy1 hy2
      obtain ⟨z, hz, rfl⟩ := List.mem_map.mp hy
      rw [(hf z).1] at hy1 hy2
      exact l2 hnone z hz hy1 hy2
  · intro x hx
    obtain ⟨n, hn, rfl⟩ := List.mem_map.mp hx
    rw [(hf n).2.1]; exact wf.fixed n hn

theorem wfg_insert_new {s : TextSt} (wf : WFg s) {ts : Ticket} (fr : Fresh s ts) {new : TNode}
    (hid : new.id = (ts, 0)) (hne : new.units ≠ []) (hfix : Fixed new.units) (i : Id) :
    WFg (insertAfterId s i new) := by
  have hnot : new.id ∉ ids s := by
    intro h
    obtain ⟨m, hm, hmid⟩ := exists_of_mem_ids h
    exact fr m hm (by rw [hmid, hid])
  refine ⟨?_, nodup_insertAfterId wf.nodup hnot, ?_, ?_, ?_, ?_⟩
  · obtain ⟨hd, r, hs, hhid, hu⟩ := wf.head
    obtain ⟨r', hr'⟩ := @insertAfterId_head hd r i new
    exact ⟨hd, r', by rw [hs, hr'], hhid, hu⟩
  · intro x hx hxh
    rcases mem_insertAfterId_imp hx with rfl | hx
    · exact hne
    · exact wf.nonempty x hx hxh
  · intro a ha' b hb' h1 h2
    rcases mem_insertAfterId_imp ha' with ea | ha <;> rcases mem_insertAfterId_imp hb' with eb | hb
    · rw [ea, eb] at h2; omega
    · rw [ea, hid] at h1; exact absurd h1.symm (fr b hb)
    · rw [eb, hid] at h1; exact absurd h1 (fr a ha)
    · exact wf.disjoint a ha b hb h1 h2
  · intro x hx hpos
    rcases mem_insertAfterId_imp hx with e | hxs
    · rw [e, hid] at hpos; simp at hpos
    · obtain ⟨l1, l2⟩ := wf.link x hxs hpos
      constructor
      · intro p hp
        obtain ⟨q, hq, hq0, hq1, hq2, hq3⟩ := l1 p hp
        refine ⟨q, mem_insertAfterId_of_mem hq, hq0, hq1, hq2, ?_⟩
        intro y hy hy1 hy2
        rcases mem_insertAfterId_imp hy with e | hys
        · rw [e, hid] at hy1; exact absurd hy1.symm (fr x hxs)
        · exact hq3 y hys hy1 hy2
      · intro hnone y hy hy1 hy2
        rcases mem_insertAfterId_imp hy with e | hys
        · rw [e, hid] at hy1; exact absurd hy1.symm (fr x hxs)
        · exact l2 hnone y hys hy1 hy2
  · intro x hx
    rcases mem_insertAfterId_imp hx with rfl | hx
    · exact hfix
    · exact wf.fixed x hx

/-! ### lookups -/

theorem floor_head_g {s : TextSt} (wf : WFg s) {h : TNode} {r : TextSt} (hs : s = h :: r) :
    findFloorPreferLeft s headId = some h := by
  obtain ⟨h', r', hs', hid, _⟩ := wf.head
  rw [hs] at hs'; injection hs' with e1 e2; subst e1
  have hmem : h ∈ s := by rw [hs]; simp
  have hb : better h headId = true := by rw [better_iff, hid]; exact ⟨rfl, Nat.le_refl _⟩
  obtain ⟨b, hfl⟩ := findFloor_isSome hmem hb
  obtain ⟨hbm, hbb, _⟩ := findFloor_spec hfl
  rw [better_iff] at hbb
  have : b = h := by
    apply eq_of_id_eq wf.nodup hbm hmem
    rw [hid]
    apply Prod.ext hbb.1
    have : b.id.2 ≤ 0 := hbb.2
    show b.id.2 = 0; omega
  subst this
  unfold findFloorPreferLeft
  rw [hfl]
  simp [headId]

/-- **which anchors survive a purge**: a position `(createdAt, abs)` whose left character
    `(createdAt, abs-1)` lies in a surviving piece `n` resolves to `n` – directly, or from the piece
    that starts at `abs` through its (relinked) `insPrev` – whatever else of that insertion has been
    purged, the head piece included -/
theorem floor_node_g {s : TextSt} (wf : WFg s) {n : TNode} (hn : n ∈ s) {q : Id} (h1 : n.id.1 = q.1)
    (h2 : n.id.2 < q.2) (h3 : q.2 ≤ n.id.2 + n.len) : findFloorPreferLeft s q = some n := by
  have hb : better n q = true := by rw [better_iff]; exact ⟨h1, by omega⟩
  obtain ⟨b, hfl⟩ := findFloor_isSome hn hb
  obtain ⟨hbm, hbb, hmax⟩ := findFloor_spec hfl
  rw [better_iff] at hbb
  have hge := hmax n hn hb
  unfold findFloorPreferLeft
  rw [hfl]
  simp only
  by_cases hoff : b.id.2 = n.id.2
  · have : b = n := eq_of_id_eq wf.nodup hbm hn (Prod.ext (by rw [hbb.1, h1]) hoff)
    subst this
    have : ¬ (b.id.2 = q.2) := by omega
    simp [this]
  · have hlt : n.id.2 < b.id.2 := by omega
    have hdis := wf.disjoint n hn b hbm (by rw [h1, hbb.1]) hlt
    have heq : b.id.2 = q.2 := by omega
    have hpos : 0 < q.2 := by omega
    simp only [hpos, heq, decide_true, Bool.and_self, if_true]
    obtain ⟨l1, l2⟩ := wf.link b hbm (by omega)
    cases hp : b.insPrev with
    | none =>
      exfalso
      exact l2 hp n hn (by rw [h1, hbb.1]) hlt
    | some p =>
      simp only
      obtain ⟨x, hx, hx0, hx1, hx2, hx3⟩ := l1 p hp
      have hxn : x = n := by
        apply eq_of_id_eq wf.nodup hx hn
        have e1 : x.id.1 = n.id.1 := by rw [hx1, hbb.1, h1]
        apply Prod.ext e1
        show x.id.2 = n.id.2
        have hle := hx3 n hn (by rw [h1, hbb.1]) hlt
        rcases Nat.lt_or_eq_of_le hle with hlt' | heq'
        · have := wf.disjoint n hn x hx e1.symm hlt'
          omega
        · exact heq'.symm
      subst hxn
      rw [← hx0]
      exact findById_of_mem wf.nodup hx

/-! ### `findNodeWithSplit`, `edit`, `styleOp` -/

theorem fnws_wfg {s : TextSt} (wf : WFg s) {pos : Pos} {ts : Ticket} {s1 : TextSt} {l : Id} {r : Option Id}
    (h : findNodeWithSplit s pos ts = .ok (s1, l, r)) :
    WFg s1 ∧ ∀ x ∈ s1, ∃ m ∈ s, x.id.1 = m.id.1 := by
  rcases fnws_cases h with rfl | ⟨n, hn, k, h0, hk, rfl⟩
  · exact ⟨wf, fun x hx => ⟨x, hx, rfl⟩⟩
  · exact ⟨wfg_splitNode wf hn h0 hk, fun x hx => createdAt_splitNode hn h0 hk hx⟩

theorem fnws_fresh_g {s : TextSt} (wf : WFg s) {pos : Pos} {ts t : Ticket} {s1 : TextSt} {l : Id}
    {r : Option Id} (h : findNodeWithSplit s pos ts = .ok (s1, l, r)) (fr : Fresh s t) : Fresh s1 t := by
  intro x hx
  obtain ⟨m, hm, e⟩ := (fnws_wfg wf h).2 x hx
  rw [e]; exact fr m hm

theorem wfg_edit {s s' : TextSt} (wf : WFg s) {fr to : Pos} {content : List Nat}
    {attrs : List (String × String)} {ts : Ticket} {vv : Option VV} (hfresh : Fresh s ts)
    (hc : Fixed content) (h : edit fr to content attrs ts vv s = .ok s') : WFg s' := by
  unfold edit at h
  split at h
  · cases h
  · rename_i s1 l1 toRight h1
    split at h
    · cases h
    · rename_i s2 fromLeft fromRight h2
      have wf1 := (fnws_wfg wf h1).1
      have fr1 := fnws_fresh_g wf h1 hfresh
      have wf2 := (fnws_wfg wf1 h2).1
      have fr2 := fnws_fresh_g wf1 h2 fr1
      have keeps := keeps_applyTo (keeps_removeNode ts vv) (between s2 fromRight toRight)
      have wf3 := wfg_map_keeps wf2 keeps
      simp only at h
      split at h
      · injection h with h; subst h; exact wf3
      · injection h with h; subst h
        apply wfg_insert_new wf3 _ (newNode_id ts content attrs) _ hc
        · intro x hx
          obtain ⟨m, hm, rfl⟩ := List.mem_map.mp hx
          rw [(keeps m).1]; exact fr2 m hm
        · rw [newNode_units]; intro hnil; simp_all

theorem wfg_styleWith {s s' : TextSt} (wf : WFg s) {fr to : Pos} {g : List AttrNode → List AttrNode}
    {ts : Ticket} {vv : Option VV} (h : styleWith fr to g ts vv s = .ok s') : WFg s' := by
  unfold styleWith at h
  split at h
  · cases h
  · rename_i s1 l1 toRight h1
    split at h
    · cases h
    · rename_i s2 fromLeft fromRight h2
      injection h with h; subst h
      exact wfg_map_keeps (fnws_wfg (fnws_wfg wf h1).1 h2).1 (keeps_applyTo (keeps_styleNode ts vv g) _)

theorem wfg_styleOp {s s' : TextSt} (wf : WFg s) {fr to : Pos} {attrs : List (String × String)}
    {keys : List String} {ts : Ticket} {vv : Option VV}
    (h : styleOp fr to attrs keys ts vv s = .ok s') : WFg s' := by
  unfold styleOp at h
  split at h
  · cases h
  · rename_i s1 h1
    have wf1 : WFg s1 := by
      split at h1
      · injection h1 with h1; subst h1; exact wf
      · exact wfg_styleWith wf h1
    split at h
    · injection h with h; subst h; exact wf1
    · exact wfg_styleWith wf1 h

end Yorkie.Text
