/-
Text undo/redo: where the tickets of blocks and spans come from (core Lean only).
-/
import YorkieModel.Lemmas.TextUndoDefs
namespace Yorkie.TextUndo
open Yorkie Yorkie.Text

/-- every block after an edit carries the ticket of an old block or the edit's own ticket -/
theorem createdAt_edit {s s' : TextSt} (wf : WF s) {fr to : Pos} {content : List Nat}
    {attrs : List (String × String)} {ts : Ticket} {vv : Option VV}
    (h : edit fr to content attrs ts vv s = .ok s') :
    ∀ x ∈ s', (∃ m ∈ s, x.id.1 = m.id.1) ∨ x.id.1 = ts := by
  unfold edit at h
  split at h
  · cases h
  · rename_i s1 l1 toRight h1
    split at h
    · cases h
    · rename_i s2 fromLeft fromRight h2
      have c1 := (fnws_wf wf h1).2
      have c2 := (fnws_wf (fnws_wf wf h1).1 h2).2
      have keeps := keeps_applyTo (keeps_removeNode ts vv) (between s2 fromRight toRight)
      have old : ∀ x ∈ s2.map (applyTo (between s2 fromRight toRight) (removeNode ts vv)),
          ∃ m ∈ s, x.id.1 = m.id.1 := by
        intro x hx
        obtain ⟨y, hy, rfl⟩ := List.mem_map.mp hx
        rw [(keeps y).1]
        obtain ⟨m1, hm1, e1⟩ := c2 y hy
        obtain ⟨m, hm, e⟩ := c1 m1 hm1
        exact ⟨m, hm, e1.trans e⟩
      simp only at h
      split at h
      · injection h with h; subst h
        intro x hx; exact Or.inl (old x hx)
      · injection h with h; subst h
        intro x hx
        rcases mem_insertAfterId_imp hx with rfl | hx
        · exact Or.inr rfl
        · exact Or.inl (old x hx)

theorem createdAt_styleWith {s s' : TextSt} (wf : WF s) {fr to : Pos} {g : List AttrNode → List AttrNode}
    {ts : Ticket} {vv : Option VV} (h : styleWith fr to g ts vv s = .ok s') :
    ∀ x ∈ s', ∃ m ∈ s, x.id.1 = m.id.1 := by
  unfold styleWith at h
  split at h
  · cases h
  · rename_i s1 l1 toRight h1
    split at h
    · cases h
    · rename_i s2 fromLeft fromRight h2
      injection h with h; subst h
      have c1 := (fnws_wf wf h1).2
      have c2 := (fnws_wf (fnws_wf wf h1).1 h2).2
      have keeps := keeps_applyTo (keeps_styleNode ts vv g) (between s2 fromRight toRight)
      intro x hx
      obtain ⟨y, hy, rfl⟩ := List.mem_map.mp hx
      rw [(keeps y).1]
      obtain ⟨m1, hm1, e1⟩ := c2 y hy
      obtain ⟨m, hm, e⟩ := c1 m1 hm1
      exact ⟨m, hm, e1.trans e⟩

theorem createdAt_styleOp {s s' : TextSt} (wf : WF s) {fr to : Pos} {attrs : List (String × String)}
    {keys : List String} {ts : Ticket} {vv : Option VV}
    (h : styleOp fr to attrs keys ts vv s = .ok s') : ∀ x ∈ s', ∃ m ∈ s, x.id.1 = m.id.1 := by
  unfold styleOp at h
  split at h
  · cases h
  · rename_i s1 h1
    have a1 : WF s1 ∧ ∀ x ∈ s1, ∃ m ∈ s, x.id.1 = m.id.1 := by
      split at h1
      · injection h1 with h1; subst h1; exact ⟨wf, fun x hx => ⟨x, hx, rfl⟩⟩
      · exact ⟨wf_styleWith wf h1, createdAt_styleWith wf h1⟩
    split at h
    · injection h with h; subst h; exact a1.2
    · intro x hx
      obtain ⟨m1, hm1, e1⟩ := createdAt_styleWith a1.1 h x hx
      obtain ⟨m, hm, e⟩ := a1.2 m1 hm1
      exact ⟨m, hm, e1.trans e⟩

/-- the spans an edit records name blocks whose creation its version vector knows -/
theorem removedSpans_known {s : TextSt} {fr to : Pos} {ts : Ticket} {vv : Option VV} {sp : Span}
    (h : sp ∈ removedSpans fr to ts vv s) : known vv sp.ca = true := by
  unfold removedSpans at h
  split at h
  · cases h
  · split at h
    · cases h
    · simp only at h
      obtain ⟨n, hn, rfl⟩ := List.mem_map.mp h
      have := (List.mem_filter.mp hn).2
      simp only [Bool.and_eq_true] at this
      exact this.1.2

/-- the vector of a replica that never applied a remote change knows exactly its own tickets -/
theorem known_single {a : Actor} {l : Int} {t : Ticket} (h : known (some [(a, l)]) t = true) :
    t.actor = a ∧ t.lamport ≤ l := by
  simp only [known, List.isEmpty_cons, Bool.false_or, VV.equalToOrAfter, VV.get?] at h
  split at h
  · cases h
  · rename_i x hx
    split at hx
    · rename_i e
      injection hx with hx; subst hx
      exact ⟨e.symm, by simpa using h⟩
    · cases hx

theorem known_single_of {a : Actor} {l : Int} {t : Ticket} (ha : t.actor = a) (hl : t.lamport ≤ l) :
    known (some [(a, l)]) t = true := by
  simp only [known, List.isEmpty_cons, Bool.false_or, VV.equalToOrAfter, VV.get?]
  rw [if_pos ha.symm]
  simpa using hl

theorem validSpans_single {a : Actor} {l : Int} {sps : List Span}
    (h : ∀ sp ∈ sps, sp.ca.actor = a ∧ sp.ca.lamport ≤ l) : validSpans (some [(a, l)]) sps = true := by
  simp only [validSpans, List.isEmpty_cons, Bool.false_or, List.all_eq_true]
  intro sp hsp
  have := known_single_of (h sp hsp).1 (h sp hsp).2
  simpa only [known, List.isEmpty_cons, Bool.false_or] using this

end Yorkie.TextUndo
