/-
Helper lemmas for Model/Conc.lean, part 11: the concurrent generation invariant `GC` is inductive
for well-behaved runs (`gc_of_wbReach`).
-/
import YorkieModel.Lemmas.ConcGenStep
namespace Yorkie.Conc
open Yorkie Yorkie.Server

theorem gc_activate {σ : Sys} {g : Ghost} (hC : CInv σ g) (hG : GC σ) :
    GC { σ with srv := (Server.activate σ.srv).1 } := by
  have he := entryOf_activate hC.d.wf
  refine ⟨hG.g.same (fun d => storedLog_of_docs_eq rfl d) he (fun x hx hpx => ⟨x, hx, hpx, rfl, rfl, Nat.le_refl _⟩), ?_⟩
  intro x hx ha
  exact (hG.fl2 x hx ha).frame (he _ _)

theorem gc_finish {σ : Sys} {pre post : List InFlight} {r : InFlight} (hG : GC σ)
    (hf : σ.flights = pre ++ r :: post) (hpc : r.pc = .done) :
    GC { σ with flights := pre ++ post, hist := Sys.doneOf r :: σ.hist } := by
  have hsub : ∀ x, x ∈ pre ++ post → x ∈ σ.flights := by
    intro x hx; rw [hf]
    rcases List.mem_append.mp hx with hx | hx
    · exact List.mem_append_left _ hx
    · exact List.mem_append_right _ (List.mem_cons_of_mem _ hx)
  refine ⟨hG.g.same (fun _ => rfl) (fun _ _ => rfl) ?_, fun x hx ha => hG.fl2 x (hsub x hx) ha⟩
  intro x hx hpx
  rw [hf] at hx
  simp only [List.mem_append, List.mem_cons] at hx
  rcases hx with hx | hx | hx
  · exact ⟨x, List.mem_append_left _ hx, hpx, rfl, rfl, Nat.le_refl _⟩
  · subst hx; exact absurd hpc hpx.2
  · exact ⟨x, List.mem_append_right _ hx, hpx, rfl, rfl, Nat.le_refl _⟩

/-! ### a request starts -/

theorem findOrCreateDoc_storedLog {s : Server} (hw : WF s) (key : Nat) (dp : Bool) (d : DocId) :
    storedLog (findOrCreateDoc s key dp).1 d = storedLog s d := by
  unfold findOrCreateDoc
  split
  · rfl
  · simp only [storedLog, Server.findDoc, AL.get?_set]
    by_cases h : s.nextDoc = d
    · subst h
      simp only [if_true]
      cases hg : s.docs.get? s.nextDoc with
      | none => rfl
      | some x => exact absurd (hw.docs _ x hg) (Nat.lt_irrefl _)
    · simp only [h, if_false]

theorem begin_storedLog {s : Server} (hw : WF s) (req : Request) (d : DocId) :
    storedLog (begin s req).1 d = storedLog s d := by
  cases req with
  | activate => rfl
  | deactivate c o => rfl
  | attach c0 key pack dp nogc =>
    have h0 := findOrCreateDoc_storedLog hw key dp d
    simp only [begin]
    split
    · rfl
    · next info _ =>
      split
      · exact h0
      · next doc _ =>
        rcases hca : clientsAttach (findOrCreateDoc s key dp).1 c0 info (findOrCreateDoc s key dp).2 doc.epoch
            (pack.cp.serverSeq != 0) with ⟨s2, e | info2⟩
        · simp only []; rw [storedLog_of_docs_eq (clientsAttach_docs' hca)]; exact h0
        · simp only []; rw [storedLog_of_docs_eq (clientsAttach_docs' hca)]; exact h0
  | pushpull c0 d0 pack po nogc =>
    simp only [begin]
    split
    · rfl
    · split
      · rfl
      · split <;> rfl
  | detach c0 d0 pack =>
    simp only [begin]
    split
    · rfl
    · split
      · rfl
      · split <;> rfl
  | remove c0 d0 pack =>
    simp only [begin]
    split
    · rfl
    · split
      · rfl
      · split <;> rfl

/-- what the handler prefix does to the stored entry of its own (client, document): nothing, or
(`TryAttaching`) a fresh `attaching` entry of the next generation -/
theorem begin_target (s : Server) (req : Request) :
    entryOf (begin s req).1 (target s req).1 (target s req).2 = entryOf s (target s req).1 (target s req).2 ∨
    ∃ i, s.findClient (target s req).1 = some i ∧
      entryOf (begin s req).1 (target s req).1 (target s req).2 = some (attachingEntry i (target s req).2) := by
  cases req with
  | activate => exact Or.inl rfl
  | deactivate c o => exact Or.inl rfl
  | pushpull c0 d0 pack po nogc =>
    refine Or.inl ?_
    simp only [begin]
    split
    · rfl
    · split
      · rfl
      · split <;> rfl
  | detach c0 d0 pack =>
    refine Or.inl ?_
    simp only [begin]
    split
    · rfl
    · split
      · rfl
      · split <;> rfl
  | remove c0 d0 pack =>
    refine Or.inl ?_
    simp only [begin]
    split
    · rfl
    · split
      · rfl
      · split <;> rfl
  | attach c key pack dp nogc =>
    have h0 : ∀ c d, entryOf (findOrCreateDoc s key dp).1 c d = entryOf s c d :=
      fun c d => entryOf_of_clients_eq (findOrCreateDoc_clients s key dp).1 c d
    simp only [begin, target]
    split
    · exact Or.inl rfl
    · next info _ =>
      split
      · exact Or.inl (h0 _ _)
      · next doc _ =>
        rcases hca : clientsAttach (findOrCreateDoc s key dp).1 c info (findOrCreateDoc s key dp).2 doc.epoch
            (pack.cp.serverSeq != 0) with ⟨s2, x⟩
        have hx : s2 = (findOrCreateDoc s key dp).1 ∨ ∃ i, (findOrCreateDoc s key dp).1.findClient c = some i ∧
            s2 = (findOrCreateDoc s key dp).1.setClient c (i.markAttaching (findOrCreateDoc s key dp).2) := by
          cases x with
          | error err =>
            rcases clientsAttach_error hca with e1 | ⟨i, hi, _, e1⟩
            · exact Or.inl e1
            · exact Or.inr ⟨i, hi, e1⟩
          | ok info2 =>
            obtain ⟨info1, _, _, _, hcase⟩ := clientsAttach_ok hca
            rcases hcase with ⟨_, e1, _⟩ | ⟨_, i, hi, _, _, _, e1⟩
            · exact Or.inl e1
            · exact Or.inr ⟨i, hi, e1⟩
        have hres : entryOf s2 c (findOrCreateDoc s key dp).2 = entryOf s c (findOrCreateDoc s key dp).2 ∨
            ∃ i, s.findClient c = some i ∧ entryOf s2 c (findOrCreateDoc s key dp).2 =
              some (attachingEntry i (findOrCreateDoc s key dp).2) := by
          rcases hx with e1 | ⟨i, hi, e1⟩
          · exact Or.inl (by rw [e1]; exact h0 _ _)
          · refine Or.inr ⟨i, by rw [← findOrCreateDoc_findClient s key dp c]; exact hi, ?_⟩
            rw [e1, entryOf_setClient, if_pos rfl, markAttaching_eq]
            exact AL.get?_set_self _ _ _
        cases x <;> exact hres

theorem gc12_start {s : Server} {fl : List InFlight} (hw : WF s) (h : G12 s fl) (req : Request) (r0 : InFlight) :
    G12 (begin s req).1 (fl ++ [r0]) := by
  have hlogs := begin_storedLog hw req
  have keep : ∀ x ∈ fl, Pending x → ∃ y ∈ fl ++ [r0], Pending y ∧ y.f.client = x.f.client ∧ y.f.doc = x.f.doc ∧
      x.f.cpAfterPush.clientSeq ≤ y.f.cpAfterPush.clientSeq :=
    fun x hx hpx => ⟨x, List.mem_append_left _ hx, hpx, rfl, rfl, Nat.le_refl _⟩
  rcases begin_target s req with hsame | ⟨i, hi, hnew⟩
  · refine h.same hlogs ?_ keep
    intro c d
    by_cases ht : c = (target s req).1 ∧ d = (target s req).2
    · rw [ht.1, ht.2]; exact hsame
    · refine begin_entries s req c d ?_
      by_cases hc : c = (target s req).1
      · exact Or.inr (fun hd => ht ⟨hc, hd⟩)
      · exact Or.inl hc
  · refine h.trans (target s req).1 (target s req).2 [] (attachingEntry i (target s req).2) (by rw [hlogs]; simp)
      (fun d' _ => hlogs d') (fun c' d' hne => begin_entries s req c' d' hne) hnew (fun _ => rfl) ?_ (by simp)
      (fun x hx hpx => Or.inl (keep x hx hpx))
    cases hcd : entryOf s (target s req).1 (target s req).2 with
    | none => exact Or.inr rfl
    | some cd0 =>
      refine Or.inl ⟨cd0, rfl, ?_, ?_⟩
      · rw [entryOf_findClient hi] at hcd
        simp [attachingEntry, Client.nextGen, hcd]
      · intro hge
        rw [entryOf_findClient hi] at hcd
        simp [attachingEntry, Client.nextGen, hcd] at hge

/-- what the second record of a new request knows -/
structure BeginOk2 (s1 : Server) (f : Flight) : Prop where
  act : f.info.activated = true
  stored : ∃ cdS, entryOf s1 f.client f.doc = some cdS ∧ isOpenSt cdS.status = true ∧
    cdS.gen = f.info.genOf f.doc ∧ (f.info.checkpoint f.doc).clientSeq = cdS.clientSeq
  entry : ∃ cd, f.info.docs.get? f.doc = some cd ∧ (f.status ≠ .attached → isOpenSt cd.status = true)

theorem begin_ok2 {s s1 : Server} {g : Ghost} {req : Request} {f : Flight}
    (hg3 : ∀ c d cd, entryOf s c d = some cd → cd.status ≠ .attached → cd.clientSeq = 0)
    (hwb : wbReq s g req = true) (hb : begin s req = (s1, .ok f)) : BeginOk2 s1 f := by
  cases req with
  | activate => simp [begin] at hb
  | deactivate c o => simp [begin] at hb
  | pushpull c d pack po nogc =>
    simp only [begin] at hb
    split at hb
    · simp at hb
    · next info hfc =>
      split at hb
      · simp at hb
      · next he =>
        split at hb
        · simp at hb
        · next doc hfd =>
          injection hb with e1 e2; injection e2 with e2; subst e1; subst e2
          obtain ⟨hcl, hact⟩ := findActiveClient_ok hfc
          obtain ⟨_, hst⟩ := ensureAttached_ok he
          obtain ⟨cd, hcd, hcs⟩ := statusOf_some hst
          have hent : entryOf s c d = some cd := by rw [entryOf_findClient hcl]; exact hcd
          exact ⟨hact, ⟨cd, hent, by simp [isOpenSt, hcs],
            by simp [Client.genOf, hcd], by simp [Client.checkpoint, hcd]⟩, ⟨cd, hcd, fun _ => by simp [isOpenSt, hcs]⟩⟩
  | detach c d pack =>
    simp only [begin] at hb
    split at hb
    · simp at hb
    · next info hfc =>
      split at hb
      · simp at hb
      · split at hb
        · simp at hb
        · next doc hfd =>
          injection hb with e1 e2; injection e2 with e2; subst e1; subst e2
          obtain ⟨hcl, hact⟩ := findActiveClient_ok hfc
          simp only [wbReq, Bool.and_eq_true, beq_iff_eq] at hwb
          obtain ⟨cd, hcd, hop⟩ := holds_entry hwb.1.1
          have hcd' : info.docs.get? d = some cd := by rw [← entryOf_findClient hcl]; exact hcd
          exact ⟨hact, ⟨cd, hcd, hop, by simp [Client.genOf, hcd'], by simp [Client.checkpoint, hcd']⟩,
            ⟨cd, hcd', fun _ => hop⟩⟩
  | remove c d pack =>
    simp only [begin] at hb
    split at hb
    · simp at hb
    · next info hfc =>
      split at hb
      · simp at hb
      · split at hb
        · simp at hb
        · next doc hfd =>
          injection hb with e1 e2; injection e2 with e2; subst e1; subst e2
          obtain ⟨hcl, hact⟩ := findActiveClient_ok hfc
          simp only [wbReq, Bool.and_eq_true, beq_iff_eq] at hwb
          obtain ⟨cd, hcd, hop⟩ := holds_entry hwb.1.1
          have hcd' : info.docs.get? d = some cd := by rw [← entryOf_findClient hcl]; exact hcd
          exact ⟨hact, ⟨cd, hcd, hop, by simp [Client.genOf, hcd'], by simp [Client.checkpoint, hcd']⟩,
            ⟨cd, hcd', fun _ => hop⟩⟩
  | attach c key pack dp nogc =>
    simp only [begin] at hb
    split at hb
    · simp at hb
    · next info hfc =>
      split at hb
      · simp at hb
      · next doc hfd =>
        split at hb
        · simp at hb
        · next s2 info2 hca =>
          injection hb with e1 e2; injection e2 with e2; subst e1; subst e2
          obtain ⟨hcl, hact⟩ := findActiveClient_ok hfc
          obtain ⟨info1, hi2, hst1, _, hcase⟩ := clientsAttach_ok hca
          have h0 : ∀ c d, entryOf (findOrCreateDoc s key dp).1 c d = entryOf s c d :=
            fun c d => entryOf_of_clients_eq (findOrCreateDoc_clients s key dp).1 c d
          have hget2 : info2.docs.get? (findOrCreateDoc s key dp).2 =
              some (attachedEntry info1 (findOrCreateDoc s key dp).2 doc.epoch) := by
            rw [hi2]; exact AL.get?_set_self _ _ _
          have hgen2 : info2.genOf (findOrCreateDoc s key dp).2 = info1.genOf (findOrCreateDoc s key dp).2 := by
            simp [Client.genOf, hget2, attachedEntry]
          have hcp2 : (info2.checkpoint (findOrCreateDoc s key dp).2).clientSeq = 0 := by
            simp [Client.checkpoint, hget2, attachedEntry]
          have hact2 : info2.activated = info1.activated := by rw [hi2]
          obtain ⟨cd1, hcd1, hs1⟩ := statusOf_some hst1
          refine ⟨?_, ?_, ⟨_, hget2, fun hne => absurd rfl hne⟩⟩
          · rcases hcase with ⟨_, _, e3⟩ | ⟨_, i, _, hia, _, e3, _⟩
            · show info2.activated = true
              rw [hact2, e3]; exact hact
            · show info2.activated = true
              rw [hact2, e3]; exact hia
          · rcases hcase with ⟨_, e2, e3⟩ | ⟨_, i, hi, _, _, e3, e2⟩
            · -- the store already said `attaching`
              subst e3
              have hent : entryOf s2 c (findOrCreateDoc s key dp).2 = some cd1 := by
                rw [e2, h0, entryOf_findClient hcl]; exact hcd1
              refine ⟨cd1, hent, by simp [isOpenSt, hs1], ?_, ?_⟩
              · show cd1.gen = info2.genOf (findOrCreateDoc s key dp).2
                rw [hgen2]; simp [Client.genOf, hcd1]
              · show (info2.checkpoint (findOrCreateDoc s key dp).2).clientSeq = cd1.clientSeq
                rw [hcp2]
                have : entryOf s c (findOrCreateDoc s key dp).2 = some cd1 := by
                  rw [entryOf_findClient hcl]; exact hcd1
                exact (hg3 _ _ cd1 this (by rw [hs1]; simp)).symm
            · -- `TryAttaching` wrote it
              have hent : entryOf s2 c (findOrCreateDoc s key dp).2 = some (attachingEntry i (findOrCreateDoc s key dp).2) := by
                rw [e2, entryOf_setClient, if_pos rfl, markAttaching_eq]; exact AL.get?_set_self _ _ _
              refine ⟨_, hent, by simp [isOpenSt, attachingEntry], ?_, ?_⟩
              · show (attachingEntry i (findOrCreateDoc s key dp).2).gen = info2.genOf (findOrCreateDoc s key dp).2
                rw [hgen2, e3]; simp [Client.genOf, Client.markAttaching, AL.get?_set_self, attachingEntry]
              · show (info2.checkpoint (findOrCreateDoc s key dp).2).clientSeq =
                  (attachingEntry i (findOrCreateDoc s key dp).2).clientSeq
                rw [hcp2]; rfl

theorem gc_start {σ : Sys} {g : Ghost} (hC : CInv σ g) (hG : GC σ) (id : Nat) (req : Request) (lost : Bool)
    (hreq : isReq req = true) (hfree : σ.lockFree (lockOf σ.srv req) = true) (hwb : wbReq σ.srv g req = true) :
    GC { σ with srv := (startFlight σ.srv id req lost).1,
                flights := σ.flights ++ [(startFlight σ.srv id req lost).2] } := by
  have hnot : lockOf σ.srv req ∉ σ.flights.map (·.lock) := by
    simpa [Sys.lockFree, Sys.locks] using hfree
  refine ⟨by simp only [startFlight_fst]; exact gc12_start hC.d.wf hG.g req _, ?_⟩
  intro x hx ha
  simp only [List.mem_append, List.mem_singleton] at hx
  rcases hx with hx | hx
  · have hFx := hC.fl x hx ha
    obtain ⟨docx, hdx, hlx⟩ := hFx.hdoc
    have hne : x.f.client ≠ (target σ.srv req).1 ∨ x.f.doc ≠ (target σ.srv req).2 := by
      by_cases hc : x.f.client = (target σ.srv req).1
      · by_cases hd : x.f.doc = (target σ.srv req).2
        · exfalso
          have := target_lock hC.d.wf hreq (doc := docx) (by rw [← hd]; exact hdx)
          exact hnot (by rw [this, ← hc, ← hlx]; exact List.mem_map_of_mem hx)
        · exact Or.inr hd
      · exact Or.inl hc
    simp only [startFlight_fst]
    exact (hG.fl2 x hx ha).frame (begin_entries _ _ _ _ hne)
  · subst hx
    rcases hb : begin σ.srv req with ⟨s1, e | f⟩
    · exfalso
      simp only [startFlight, hb] at ha
      rcases ha with ha | ⟨resp, ha⟩
      · exact ha rfl
      · simp at ha
    · have hk := begin_ok2 hG.g.g3 hwb hb
      obtain ⟨cdS, h1, h2, h3, h4⟩ := hk.stored
      obtain ⟨cd, h5, h6⟩ := hk.entry
      simp only [startFlight, hb]
      refine ⟨fun _ => hk.act, ⟨cdS, h1, fun _ => ⟨h2, h3⟩, fun _ => h4, fun hx => by simp [Pending, Pc.ord] at hx⟩,
        fun _ => ⟨cd, h5, fun hne _ => h6 hne⟩, ?_, ?_, ?_, ?_, ?_⟩
      · intro hx; simp at hx
      · intro hx; simp [Pc.ord] at hx
      · intro hx; simp [Pc.ord] at hx
      · intro hx; simp [Pc.ord] at hx
      · intro hx; simp at hx

/-- The concurrent generation invariant holds at every state a well-behaved run reaches. -/
theorem gc_of_wbReach {cfg : Config} {σ : Sys} {g : Ghost} (h : WbReach cfg σ g) : GC σ := by
  induction h with
  | init =>
    exact ⟨⟨fun _ _ _ h => by simp [storedLog, Server.findDoc, Server.init, Sys.init] at h,
      fun _ _ _ _ h => by simp [entryOf, Server.init, Sys.init] at h,
      fun _ _ _ h => by simp [entryOf, Server.init, Sys.init] at h⟩, fun r hr => by simp [Sys.init] at hr⟩
  | activate hprev ih => exact gc_activate (cinv_of_wbReach hprev) ih
  | start id req lost hprev h1 h2 h3 ih => exact gc_start (cinv_of_wbReach hprev) ih id req lost h1 h2 h3
  | phase pre post r hprev h1 h2 h3 ih => exact gc_phase (cinv_of_wbReach hprev) ih h1 h2 h3
  | finish pre post r _ h1 h2 ih => exact gc_finish ih h1 h2

end Yorkie.Conc
