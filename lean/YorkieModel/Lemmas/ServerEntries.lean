/-
Helper lemmas for Model/Server.lean, part 6: which stored client entries a request can change.
A request changes at most the entry of its own target (client, document); `Deactivate` can in
addition only *close* entries (detached / removed).
-/
import YorkieModel.Lemmas.ServerHandlers
namespace Yorkie.Server
open Yorkie

def isOpenSt (st : DocStatus) : Bool := st == .attached || st == .attaching

theorem entryOf_setClient (s : Server) (c : ClientId) (x : Client) (c' : ClientId) (d' : DocId) :
    entryOf (s.setClient c x) c' d' = if c = c' then x.docs.get? d' else entryOf s c' d' := by
  simp only [entryOf, Server.setClient, AL.get?_set]
  by_cases h : c = c' <;> simp [h]

theorem entryOf_of_clients_eq {s s' : Server} (h : s'.clients = s.clients) (c : ClientId) (d : DocId) :
    entryOf s' c d = entryOf s c d := by
  simp only [entryOf, h]

theorem entryOf_findClient {s : Server} {c : ClientId} {i : Client} (h : s.findClient c = some i) (d : DocId) :
    entryOf s c d = i.docs.get? d := by
  simp only [Server.findClient] at h
  simp only [entryOf, h]

/-- `T c d`: (c,d) is the request's target; otherwise the entry is unchanged or closed -/
def EStep (T : ClientId → DocId → Prop) (s s' : Server) : Prop :=
  ∀ c d, entryOf s' c d = entryOf s c d ∨ T c d ∨ ∃ cd, entryOf s' c d = some cd ∧ isOpenSt cd.status = false

theorem EStep.refl (T) (s : Server) : EStep T s s := fun _ _ => Or.inl rfl

theorem EStep.of_clients_eq {T} {s s' : Server} (h : s'.clients = s.clients) : EStep T s s' :=
  fun c d => Or.inl (entryOf_of_clients_eq h c d)

theorem EStep.trans {T} {a b c : Server} (h1 : EStep T a b) (h2 : EStep T b c) : EStep T a c := by
  intro x d
  rcases h2 x d with e2 | t | ⟨cd, hc, ho⟩
  · rcases h1 x d with e1 | t | ⟨cd, hc, ho⟩
    · exact Or.inl (e2.trans e1)
    · exact Or.inr (Or.inl t)
    · exact Or.inr (Or.inr ⟨cd, by rw [e2]; exact hc, ho⟩)
  · exact Or.inr (Or.inl t)
  · exact Or.inr (Or.inr ⟨cd, hc, ho⟩)

theorem EStep.mono {T T' : ClientId → DocId → Prop} {s s' : Server} (h : EStep T s s') (hm : ∀ c d, T c d → T' c d) :
    EStep T' s s' := by
  intro c d
  rcases h c d with e | t | x
  · exact Or.inl e
  · exact Or.inr (Or.inl (hm c d t))
  · exact Or.inr (Or.inr x)

/-- writing one document entry of one existing client -/
theorem estep_setEntry {s : Server} {c : ClientId} {d : DocId} {loaded : Client} (x : ClientDoc)
    (hl : s.findClient c = some loaded) :
    EStep (fun c' d' => c' = c ∧ d' = d) s (s.setClient c { loaded with docs := loaded.docs.set d x }) := by
  intro c' d'
  rw [entryOf_setClient]
  by_cases hc : c = c'
  · by_cases hd : d = d'
    · exact Or.inr (Or.inl ⟨hc.symm, hd.symm⟩)
    · refine Or.inl ?_
      rw [if_pos hc, ← hc, entryOf_findClient hl d']
      simp only [AL.get?_set, hd, if_false]
  · rw [if_neg hc]; exact Or.inl rfl

/-- the in-flight entry after `UpdateDocStatus` -/
def statusEntry (st : ReqStatus) (cd0 : ClientDoc) (cp : Checkpoint) : ClientDoc :=
  match st with
  | .attached => { cd0 with serverSeq := cp.serverSeq, clientSeq := cp.clientSeq }
  | .detached => { cd0 with status := .detached, clientSeq := 0, serverSeq := 0 }
  | .removed => { cd0 with status := .removed, clientSeq := 0, serverSeq := 0 }

/-- everything a successful `PushPull` does to its target (client, document) -/
theorem ppok_target {s s' : Server} {f f' : Flight} (hp : PPOk s f s' f') :
    ∃ (cd0 : ClientDoc) (loaded : Client) (doc : Doc) (p : List ChangeReq) (vv : AL VV),
      f.info.docs.get? f.doc = some cd0 ∧ s.findClient f.client = some loaded ∧ s.findDoc f.doc = some doc ∧
      pushGuard s (stripped f) = .ok p ∧
      (f.status ≠ .attached → f.info.activated = true ∧ isOpenSt cd0.status = true) ∧
      entryOf s' f.client f.doc = some (persistEntry (statusEntry f.status cd0 f'.resp.cp) loaded f.doc) ∧
      s'.docs = s.docs.set f.doc { pushedDoc doc (stripped f) p with vvRows := vv } ∧
      (vv = doc.vvRows ∧ f.disableGC = true ∨
       f.disableGC = false ∧
        vv = (if (statusEntry f.status cd0 f'.resp.cp).status == .attached then doc.vvRows.set f.client f.pack.vv
              else doc.vvRows.erase f.client)) ∧
      s'.clients = s.clients.set f.client
        { loaded with docs := loaded.docs.set f.doc (persistEntry (statusEntry f.status cd0 f'.resp.cp) loaded f.doc) } ∧
      f'.resp.isRemoved = (doc.removed || f.pack.isRemoved) := by
  obtain ⟨doc, p, loaded, info', cd, r, vv, hfd, hl, _, hguard, _, hst, hcd, hdocs, hvv, hcl, _, _, _, hcp', _, _, hrem⟩ := hp.ex
  obtain ⟨cd0, hcd0, _, hm⟩ := updateDocStatus_spec hst
  have hcdeq : cd = statusEntry f.status cd0 f'.resp.cp := by
    cases hs : f.status <;> rw [hs] at hm <;> simp only [StatusPost] at hm <;> simp only [statusEntry]
    · rw [hm, AL.get?_set_self] at hcd; injection hcd with hcd; rw [← hcd, hcp']
    · rw [hm.2.2, AL.get?_set_self] at hcd; injection hcd with hcd; rw [← hcd]
    · rw [hm.2.2, AL.get?_set_self] at hcd; injection hcd with hcd; rw [← hcd]
  have hopen : f.status ≠ .attached → f.info.activated = true ∧ isOpenSt cd0.status = true := by
    intro hne
    cases hs : f.status <;> rw [hs] at hm <;> simp only [StatusPost] at hm
    · exact absurd hs hne
    · refine ⟨hm.1, ?_⟩; rcases hm.2.1 with h | h <;> simp [isOpenSt, h]
    · refine ⟨hm.1, ?_⟩; rcases hm.2.1 with h | h <;> simp [isOpenSt, h]
  subst hcdeq
  refine ⟨cd0, loaded, doc, p, vv, hcd0, hl, hfd, hguard, hopen, ?_, hdocs, hvv, hcl, ?_⟩
  · rw [entryOf_of_clients_eq (s' := s')
      (s := s.setClient f.client { loaded with docs := loaded.docs.set f.doc (persistEntry (statusEntry f.status cd0 f'.resp.cp) loaded f.doc) }) hcl,
      entryOf_setClient, if_pos rfl]
    exact AL.get?_set_self _ _ _
  · rw [hrem]; simp [pushedDoc]

theorem pushPull_estep {s s' : Server} {f : Flight} {x : Except ErrKind Flight} {loaded : Client}
    (h : pushPull s f = (s', x)) (hc : s.findClient f.client = some loaded) :
    EStep (fun c' d' => c' = f.client ∧ d' = f.doc) s s' := by
  cases x with
  | error e => exact EStep.of_clients_eq (pushPull_err h hc).1
  | ok f' =>
    obtain ⟨doc, p, loaded', info', cd, r, vv, _, hl, _, _, _, _, _, _, _, hcl, _⟩ := (pushPull_ppok h).ex
    intro c' d'
    have := estep_setEntry (persistEntry cd loaded' f.doc) hl (d := f.doc) c' d'
    rw [entryOf_of_clients_eq (s' := s')
      (s := s.setClient f.client { loaded' with docs := loaded'.docs.set f.doc (persistEntry cd loaded' f.doc) }) hcl]
    exact this

/-- the entry `TryAttaching` stores -/
def attachingEntry (i : Client) (d : DocId) : ClientDoc :=
  { status := .attaching, serverSeq := 0, clientSeq := 0, epoch := 0, gen := i.nextGen d }

theorem markAttaching_eq (i : Client) (d : DocId) :
    i.markAttaching d = { i with docs := i.docs.set d (attachingEntry i d) } := rfl

theorem clientsAttach_estep {s s' : Server} {c : ClientId} {info : Client} {d : DocId} {e : Int} {b : Bool}
    {x : Except ErrKind Client} (h : clientsAttach s c info d e b = (s', x)) :
    EStep (fun c' d' => c' = c ∧ d' = d) s s' := by
  cases x with
  | error err =>
    rcases clientsAttach_error h with e1 | ⟨i, hi, _, e1⟩
    · subst e1; exact EStep.refl _ _
    · subst e1; rw [markAttaching_eq]; exact estep_setEntry _ hi
  | ok info2 =>
    obtain ⟨info1, _, _, _, hcase⟩ := clientsAttach_ok h
    rcases hcase with ⟨_, e1, _⟩ | ⟨_, i, hi, _, _, _, e1⟩
    · subst e1; exact EStep.refl _ _
    · subst e1; rw [markAttaching_eq]; exact estep_setEntry _ hi

theorem clientsAttach_docs' {s s' : Server} {c : ClientId} {info : Client} {d : DocId} {e : Int} {b : Bool}
    {x : Except ErrKind Client} (h : clientsAttach s c info d e b = (s', x)) : s'.docs = s.docs := by
  have hx : s' = s ∨ ∃ i, s' = s.setClient c i := by
    cases x with
    | error err =>
      rcases clientsAttach_error h with e1 | ⟨i, _, _, e1⟩
      · exact Or.inl e1
      · exact Or.inr ⟨_, e1⟩
    | ok info2 =>
      obtain ⟨info1, _, _, _, hcase⟩ := clientsAttach_ok h
      rcases hcase with ⟨_, e1, _⟩ | ⟨_, i, _, _, _, _, e1⟩
      · exact Or.inl e1
      · exact Or.inr ⟨_, e1⟩
  rcases hx with e1 | ⟨i, e1⟩ <;> subst e1 <;> rfl

/-- the client row `clients.AttachDocument` leaves in the store still belongs to the same client -/
theorem clientsAttach_findClient {s s' : Server} {c : ClientId} {info : Client} {d : DocId} {e : Int} {b : Bool}
    {x : Except ErrKind Client} (h : clientsAttach s c info d e b = (s', x)) (hc : s.findClient c = some info) :
    ∃ l, s'.findClient c = some l := by
  have hx : s' = s ∨ ∃ i, s' = s.setClient c i := by
    cases x with
    | error err =>
      rcases clientsAttach_error h with e1 | ⟨i, _, _, e1⟩
      · exact Or.inl e1
      · exact Or.inr ⟨_, e1⟩
    | ok info2 =>
      obtain ⟨info1, _, _, _, hcase⟩ := clientsAttach_ok h
      rcases hcase with ⟨_, e1, _⟩ | ⟨_, i, _, _, _, _, e1⟩
      · exact Or.inl e1
      · exact Or.inr ⟨_, e1⟩
  rcases hx with e1 | ⟨i, e1⟩
  · subst e1; exact ⟨info, hc⟩
  · subst e1; exact ⟨i, by simp [Server.findClient, Server.setClient, AL.get?_set_self]⟩

theorem attachWith_estep {s1 s' : Server} {c : ClientId} {info : Client} {d : DocId} {pack : Pack} {nogc : Bool}
    {out : Except ErrKind Resp} (h : attachWith s1 c info d pack nogc = (s', out)) (hc : s1.findClient c = some info) :
    EStep (fun c' d' => c' = c ∧ d' = d) s1 s' := by
  rcases attachWith_inv h with ⟨_, e1, _⟩ | ⟨doc, _, hcase⟩
  · subst e1; exact EStep.refl _ _
  · rcases hcase with ⟨e, hca, _⟩ | ⟨s2, info2, hca, hpp⟩
    · exact clientsAttach_estep hca
    · obtain ⟨l, hl⟩ := clientsAttach_findClient hca hc
      refine (clientsAttach_estep hca).trans ?_
      rcases hpp with ⟨f', hpp, _⟩ | ⟨e, hpp, _⟩
      · exact pushPull_estep hpp (by simpa using hl)
      · exact pushPull_estep hpp (by simpa using hl)

theorem findOrCreateDoc_findClient (s : Server) (key : Nat) (dp : Bool) (c : ClientId) :
    (findOrCreateDoc s key dp).1.findClient c = s.findClient c := by
  simp only [Server.findClient, (findOrCreateDoc_clients s key dp).1]

theorem finish_inv {r : PhaseResult} {s' : Server} {out : Except ErrKind Resp} (h : finish r = (s', out)) :
    ∃ x, r = (s', x) := by
  obtain ⟨s, x⟩ := r
  have : s = s' := by
    have := congrArg Prod.fst h
    rw [finish_fst] at this; exact this
  exact ⟨x, by rw [this]⟩

/-- the target (client, document) of a request -/
def isTarget (s : Server) : Request → ClientId → DocId → Prop
  | .activate, _, _ => False
  | .deactivate _ _, _, _ => False
  | .attach c key _ dp _, c', d' => c' = c ∧ d' = (findOrCreateDoc s key dp).2
  | .pushpull c d _ _ _, c', d' => c' = c ∧ d' = d
  | .detach c d _, c', d' => c' = c ∧ d' = d
  | .remove c d _, c', d' => c' = c ∧ d' = d

theorem detachMode_status (s : Server) (c : ClientId) (d : DocId) (p : Pack) :
    (detachMode s c d p).2 = .detached ∨ (detachMode s c d p).2 = .removed := by
  unfold detachMode; split
  · exact Or.inr rfl
  · exact Or.inl rfl

theorem clusterDetach_estep {s s' : Server} {c : ClientId} {d : DocId} {x : Except ErrKind Unit}
    (h : clusterDetach s c d = (s', x)) : EStep (fun _ _ => False) s s' := by
  unfold clusterDetach at h
  split at h
  · injection h with h1 _; subst h1; exact EStep.refl _ _
  · next info hi =>
    obtain ⟨hcl, _⟩ := findActiveClient_ok hi
    split at h
    · injection h with h1 _; subst h1; exact EStep.refl _ _
    · split at h
      · injection h with h1 _; subst h1; exact EStep.refl _ _
      · next doc hd =>
        split at h
        · next s2 f' hpp =>
          injection h with h1 _; subst h1
          obtain ⟨doc', p, loaded, info', cd, r, vv, _, hl, _, _, _, hst, hcd, _, _, hcl', _⟩ := (pushPull_ppok hpp).ex
          simp only [mkFlight_client, mkFlight_doc, mkFlight_status, mkFlight_info] at hl hst hcd hcl'
          -- the in-flight status after UpdateDocStatus is detached or removed
          have hclosed : isOpenSt cd.status = false := by
            obtain ⟨cd0, hcd0, _, hm⟩ := updateDocStatus_spec hst
            rcases detachMode_status s c d (clusterPack c (info.checkpoint d)) with hdm | hdm
            · rw [hdm] at hm; simp only [StatusPost] at hm
              rw [hm.2.2, AL.get?_set_self] at hcd; injection hcd with hcd; rw [← hcd]; rfl
            · rw [hdm] at hm; simp only [StatusPost] at hm
              rw [hm.2.2, AL.get?_set_self] at hcd; injection hcd with hcd; rw [← hcd]; rfl
          have hna : (cd.status == DocStatus.attached) = false := by
            cases hs : cd.status <;> simp_all [isOpenSt]
          intro c' d'
          rw [entryOf_of_clients_eq (s' := s2)
            (s := s.setClient c { loaded with docs := loaded.docs.set d (persistEntry cd loaded d) }) hcl',
            entryOf_setClient]
          by_cases hc : c = c'
          · by_cases hdd : d = d'
            · refine Or.inr (Or.inr ⟨persistEntry cd loaded d, ?_, ?_⟩)
              · rw [if_pos hc, ← hdd]; exact AL.get?_set_self _ _ _
              · unfold persistEntry; rw [hna]; simpa using hclosed
            · refine Or.inl ?_
              rw [if_pos hc, ← hc, entryOf_findClient hl d']
              simp only [AL.get?_set, hdd, if_false]
          · rw [if_neg hc]; exact Or.inl rfl
        · next s2 e hpp =>
          injection h with h1 _; subst h1
          exact EStep.of_clients_eq (pushPull_err hpp (by simpa using hcl)).1

theorem clusterDetachAll_estep (c : ClientId) (s : Server) (ds : List DocId) :
    EStep (fun _ _ => False) s (clusterDetachAll c s ds).1 := by
  induction ds generalizing s with
  | nil => exact EStep.refl _ _
  | cons d r ih =>
    unfold clusterDetachAll
    split
    · next s' _ hcd => exact (clusterDetach_estep hcd).trans (ih s')
    · next s' e hcd => exact clusterDetach_estep hcd

theorem dbDeactivate_entries (s : Server) (c : ClientId) (c' : ClientId) (d' : DocId) :
    entryOf (dbDeactivate s c).1 c' d' = entryOf s c' d' := by
  unfold dbDeactivate
  split
  · rfl
  · next i hi =>
    split
    · rfl
    · split
      · rfl
      · rw [entryOf_setClient]
        by_cases hc : c = c'
        · subst hc; simp only [if_true]; exact (entryOf_findClient hi d').symm
        · simp [hc]

theorem deactivate_estep (s : Server) (c : ClientId) (order : List DocId) :
    EStep (fun _ _ => False) s (deactivate s c order).1 := by
  unfold deactivate
  split
  · exact EStep.refl _ _
  · split
    · exact EStep.refl _ _
    · next info _ _ =>
      have h1 := clusterDetachAll_estep c s (openDocs info order)
      split
      · next s' e hx => rw [hx] at h1; exact h1
      · next s' _ hx =>
        rw [hx] at h1
        refine h1.trans ?_
        intro c' d'; exact Or.inl (dbDeactivate_entries s' c c' d')

/-- a request changes at most the entry of its own target; `Deactivate` only closes entries -/
theorem step_estep (s : Server) (hw : WF s) (r : Request) : EStep (isTarget s r) s (step s r).1 := by
  cases r with
  | activate =>
    intro c d
    refine Or.inl ?_
    simp only [step, activate, entryOf, AL.get?_set]
    by_cases h : s.nextClient = c
    · subst h
      cases hs : s.clients.get? s.nextClient with
      | none => simp [AL.get?]
      | some x => exact absurd (hw.clients _ _ hs) (Nat.lt_irrefl _)
    · simp [h]
  | deactivate c order => exact (deactivate_estep s c order).mono (fun _ _ h => h.elim)
  | attach c key pack dp nogc =>
    simp only [step]
    generalize ha : attach s c key pack dp nogc = res
    obtain ⟨s', out⟩ := res
    rcases attach_inv ha with ⟨e1, _⟩ | ⟨info, hi, _, haw⟩
    · subst e1; exact EStep.refl _ _
    · have h1 : EStep (isTarget s (.attach c key pack dp nogc)) s (findOrCreateDoc s key dp).1 :=
        EStep.of_clients_eq (findOrCreateDoc_clients s key dp).1
      exact h1.trans (attachWith_estep haw (by rw [findOrCreateDoc_findClient]; exact hi))
  | pushpull c d pack po nogc =>
    simp only [step]
    generalize ha : pushpullReq s c d pack po nogc = res
    obtain ⟨s', out⟩ := res
    rcases pushpullReq_inv ha with ⟨e1, _⟩ | ⟨info, doc, hi, _, _, _, hf⟩
    · subst e1; exact EStep.refl _ _
    · obtain ⟨x, hx⟩ := finish_inv hf
      exact pushPull_estep hx (by simpa using hi)
  | detach c d pack =>
    simp only [step]
    generalize ha : detach s c d pack = res
    obtain ⟨s', out⟩ := res
    rcases detach_inv ha with ⟨e1, _⟩ | ⟨info, doc, hi, _, _, _, hf⟩
    · subst e1; exact EStep.refl _ _
    · obtain ⟨x, hx⟩ := finish_inv hf
      exact pushPull_estep hx (by simpa using hi)
  | remove c d pack =>
    simp only [step]
    generalize ha : remove s c d pack = res
    obtain ⟨s', out⟩ := res
    rcases remove_inv ha with ⟨e1, _⟩ | ⟨info, doc, hi, _, _, _, hf⟩
    · subst e1; exact EStep.refl _ _
    · obtain ⟨x, hx⟩ := finish_inv hf
      exact pushPull_estep hx (by simpa using hi)

end Yorkie.Server
