/-
`Tree.WF` through `SplitElement` (the children of the split element are divided between it and the new sibling,
§7.1/§7.3 included), the element branch of `TreeNode.Split` and the split loop of `Tree.Edit` (Phase 7).
-/
import YorkieModel.Lemmas.TreeWFEdit
namespace Yorkie.Tree
open Yorkie

/-! ### `SetChildren` -/

theorem get_setParents (n : Ptr) : ∀ (ch : List Ptr) (t : Tree) (q : Ptr), (∀ c ∈ ch, c < t.nodes.length) →
    ((ch.foldl (fun acc c => acc.setParent c (some n)) t).get q).parent = (if q ∈ ch then some n else (t.get q).parent) ∧
    ((ch.foldl (fun acc c => acc.setParent c (some n)) t).get q).children = (t.get q).children ∧
    ((ch.foldl (fun acc c => acc.setParent c (some n)) t).get q).id = (t.get q).id ∧
    (ch.foldl (fun acc c => acc.setParent c (some n)) t).nodes.length = t.nodes.length
  | [], t, q, _ => by simp
  | c :: r, t, q, h => by
    rw [List.foldl_cons]
    have hc := h c List.mem_cons_self
    have ih := get_setParents n r (t.setParent c (some n)) q
      (fun x hx => by simp [Tree.setParent]; exact h x (List.mem_cons_of_mem _ hx))
    refine ⟨?_, ?_, ?_, ?_⟩
    · rw [ih.1]
      by_cases hq : q ∈ r
      · simp [hq]
      · simp only [hq, if_false, List.mem_cons]
        unfold Tree.setParent
        rw [get_modify]
        by_cases hqc : q = c
        · simp [hqc, hc]
        · simp [hqc]
    · rw [ih.2.1]; unfold Tree.setParent; rw [get_modify]; split <;> rfl
    · rw [ih.2.2.1]; unfold Tree.setParent; rw [get_modify]; split <;> rfl
    · rw [ih.2.2.2]; simp [Tree.setParent]

theorem setParents_frame (n : Ptr) : ∀ (ch : List Ptr) (t : Tree),
    (ch.foldl (fun acc c => acc.setParent c (some n)) t).size = t.size ∧
    (ch.foldl (fun acc c => acc.setParent c (some n)) t).root = t.root ∧
    (ch.foldl (fun acc c => acc.setParent c (some n)) t).idmap = t.idmap
  | [], _ => ⟨rfl, rfl, rfl⟩
  | c :: r, t => by
    rw [List.foldl_cons]
    exact setParents_frame n r (t.setParent c (some n))

theorem get_setChildren (t : Tree) (n : Ptr) (ch : List Ptr) (q : Ptr) (hn : n < t.nodes.length)
    (hch : ∀ c ∈ ch, c < t.nodes.length) :
    ((t.setChildren n ch).get q).parent = (if q ∈ ch then some n else (t.get q).parent) ∧
    ((t.setChildren n ch).get q).children = (if q = n then ch else (t.get q).children) ∧
    ((t.setChildren n ch).get q).id = (t.get q).id ∧
    (t.setChildren n ch).nodes.length = t.nodes.length ∧ (t.setChildren n ch).size = t.size ∧
    (t.setChildren n ch).root = t.root ∧ (t.setChildren n ch).idmap = t.idmap := by
  unfold Tree.setChildren
  have g := get_setParents n ch (t.setChildren' n ch) q (fun c hc => by simp [Tree.setChildren']; exact hch c hc)
  have base : ((t.setChildren' n ch).get q).parent = (t.get q).parent ∧
      ((t.setChildren' n ch).get q).children = (if q = n then ch else (t.get q).children) ∧
      ((t.setChildren' n ch).get q).id = (t.get q).id := by
    unfold Tree.setChildren'
    rw [get_modify]
    by_cases hq : q = n
    · simp [hq, hn]
    · simp [hq]
  have fr := setParents_frame n ch (t.setChildren' n ch)
  exact ⟨by rw [g.1, base.1], by rw [g.2.1, base.2.1], by rw [g.2.2.1, base.2.2], by rw [g.2.2.2]; simp [Tree.setChildren'],
    fr.1, fr.2.1, fr.2.2⟩

/-- the children of `n` divided between `n` (keeps `L`) and a childless node `s` (gets `R`) -/
theorem Tree.WF.repartition {t : Tree} (w : t.WF) (n s : Ptr) (L R : List Ptr) (hn : n < t.size) (hs : s < t.size)
    (hne : n ≠ s) (hsc : (t.get s).children = []) (hperm : (L ++ R).Perm (t.get n).children) :
    ((t.setChildren n L).setChildren s R).WF ∧ ((t.setChildren n L).setChildren s R).size = t.size ∧
    ∀ q, (t.get q).parent = none → (((t.setChildren n L).setChildren s R).get q).parent = none := by
  have hn' : n < t.nodes.length := w.size_eq ▸ hn
  have hs' : s < t.nodes.length := w.size_eq ▸ hs
  have hmem : ∀ c, c ∈ L ++ R ↔ c ∈ (t.get n).children := fun c => hperm.mem_iff
  have hLlt : ∀ c ∈ L, c < t.nodes.length := fun c hc =>
    w.size_eq ▸ w.child_lt n c ((hmem c).mp (List.mem_append_left _ hc))
  have hRlt : ∀ c ∈ R, c < t.nodes.length := fun c hc =>
    w.size_eq ▸ w.child_lt n c ((hmem c).mp (List.mem_append_right _ hc))
  have hnd : (L ++ R).Nodup := hperm.nodup_iff.mpr (w.nodup n)
  have hdisj : ∀ c, c ∈ L → c ∉ R := fun c hl hr => (List.nodup_append.mp hnd).2.2 c hl c hr rfl
  have g1 := fun q => get_setChildren t n L q hn' hLlt
  have hlen1 : (t.setChildren n L).nodes.length = t.nodes.length := (g1 0).2.2.2.1
  have g2 := fun q => get_setChildren (t.setChildren n L) s R q (hlen1 ▸ hs') (fun c hc => hlen1 ▸ hRlt c hc)
  -- read back
  have P : ∀ q, (((t.setChildren n L).setChildren s R).get q).parent =
      if q ∈ R then some s else if q ∈ L then some n else (t.get q).parent := by
    intro q; rw [(g2 q).1, (g1 q).1]
  have C : ∀ q, (((t.setChildren n L).setChildren s R).get q).children =
      if q = s then R else if q = n then L else (t.get q).children := by
    intro q; rw [(g2 q).2.1, (g1 q).2.1]
  have I : ∀ q, (((t.setChildren n L).setChildren s R).get q).id = (t.get q).id := by
    intro q; rw [(g2 q).2.2.1, (g1 q).2.2.1]
  have hsz : ((t.setChildren n L).setChildren s R).size = t.size := by rw [(g2 0).2.2.2.2.1, (g1 0).2.2.2.2.1]
  have inN : ∀ c, (c ∈ L ∨ c ∈ R) → (t.get c).parent = some n := fun c h =>
    w.child_parent n c ((hmem c).mp (List.mem_append.mpr h))
  refine ⟨{
    size_eq := by rw [hsz, (g2 0).2.2.2.1, hlen1]; exact w.size_eq
    root_lt := by rw [hsz, (g2 0).2.2.2.2.2.1, (g1 0).2.2.2.2.2.1]; exact w.root_lt
    child_lt := fun q c h => by
      rw [hsz]; rw [C] at h
      split at h
      · exact w.size_eq ▸ hRlt c h
      · split at h
        · exact w.size_eq ▸ hLlt c h
        · exact w.child_lt q c h
    child_parent := fun q c h => by
      rw [C] at h; rw [P]
      split at h
      · rename_i hq; simp [h, hq]
      · split at h
        · rename_i _ hq; simp [hdisj c h, h, hq]
        · rename_i hqs hqn
          have hp := w.child_parent q c h
          have hnot : ¬ (c ∈ L ∨ c ∈ R) := fun hc => by
            have := inN c hc; rw [hp] at this; cases this; exact hqn rfl
          have hR : c ∉ R := fun hc => hnot (Or.inr hc)
          have hL : c ∉ L := fun hc => hnot (Or.inl hc)
          simp [hR, hL, hp]
    parent_child := fun c q h => by
      rw [P] at h; rw [hsz, C]
      split at h
      · cases h; rename_i hc; exact ⟨hs, by simp [hc]⟩
      · split at h
        · cases h; rename_i _ hc; exact ⟨hn, by simp [hne, hc]⟩
        · rename_i hcR hcL
          have := w.parent_child c q h
          refine ⟨this.1, ?_⟩
          have hqs : q ≠ s := fun e => by rw [e, hsc] at this; simp at this
          have hqn : q ≠ n := fun e => by
            have hin := (hmem c).mpr (e ▸ this.2)
            rcases List.mem_append.mp hin with h' | h'
            · exact hcL h'
            · exact hcR h'
          simp [hqs, hqn, this.2]
    nodup := fun q => by
      rw [C]; split
      · exact (List.nodup_append.mp hnd).2.1
      · split
        · exact (List.nodup_append.mp hnd).1
        · exact w.nodup q
    idmap_ok := fun e he => by
      rw [(g2 0).2.2.2.2.2.2, (g1 0).2.2.2.2.2.2] at he
      have := w.idmap_ok e he
      exact ⟨hsz ▸ this.1, by rw [I]; exact this.2⟩ }, hsz, fun q hq => ?_⟩
  rw [P]
  have hnot : ¬ (q ∈ L ∨ q ∈ R) := fun hc => by have := inN q hc; rw [hq] at this; cases this
  have hR : q ∉ R := fun hc => hnot (Or.inr hc)
  have hL : q ∉ L := fun hc => hnot (Or.inl hc)
  simp [hR, hL, hq]

/-! ### the partition of `SplitElement` is a permutation -/

theorem perm_step (left right r : List Ptr) (c : Ptr) : (left ++ [c] ++ right ++ r).Perm (left ++ right ++ c :: r) := by
  simp only [List.append_assoc]
  refine List.Perm.append_left left ?_
  show ([c] ++ (right ++ r)).Perm (right ++ ([c] ++ r))
  rw [← List.append_assoc, ← List.append_assoc]
  exact List.Perm.append_right r List.perm_append_comm

theorem split71_perm (t : Tree) (vv : VV) : ∀ (rest all left right : List Ptr),
    ((split71 t vv rest all left right).1 ++ (split71 t vv rest all left right).2).Perm (left ++ right ++ rest)
  | [], _, left, right => by simp [split71]
  | c :: r, all, left, right => by
    unfold split71
    simp only
    repeat' split
    all_goals first
      | exact (split71_perm t vv r _ (left ++ [c]) right).trans (perm_step left right r c)
      | exact (split71_perm t vv r all left (right ++ [c])).trans (by simp [List.append_assoc])

theorem split73_perm (t : Tree) (vv : VV) : ∀ (rest : List Ptr) (reached : Bool) (moved remaining : List Ptr),
    ((split73 t vv rest reached moved remaining).1 ++ (split73 t vv rest reached moved remaining).2).Perm (moved ++ remaining ++ rest)
  | [], _, moved, remaining => by simp [split73]
  | c :: r, reached, moved, remaining => by
    unfold split73
    split
    · refine (split73_perm t vv r reached moved (remaining ++ [c])).trans ?_
      simp [List.append_assoc]
    · split
      · exact (split73_perm t vv r reached (moved ++ [c]) remaining).trans (perm_step moved remaining r c)
      · refine (split73_perm t vv r true moved (remaining ++ [c])).trans ?_
        simp [List.append_assoc]

theorem kids_true (t : Tree) (p : Ptr) : t.kids p true = (t.get p).children := by
  unfold Tree.kids; simp

/-- the two child lists `SplitElement` computes (§7.1 then §7.3) -/
def splitParts (t3 : Tree) (n : Ptr) (offset : Nat) (vv : VV) : List Ptr × List Ptr :=
  if vv.isEmpty = true then
    ((split71 t3 vv ((t3.kids n true).drop offset) (t3.kids n true) ((t3.kids n true).take offset) []).1,
     (split71 t3 vv ((t3.kids n true).drop offset) (t3.kids n true) ((t3.kids n true).take offset) []).2)
  else if (split73 t3 vv (split71 t3 vv ((t3.kids n true).drop offset) (t3.kids n true) ((t3.kids n true).take offset) []).2 false [] []).1.isEmpty = true then
    ((split71 t3 vv ((t3.kids n true).drop offset) (t3.kids n true) ((t3.kids n true).take offset) []).1,
     (split71 t3 vv ((t3.kids n true).drop offset) (t3.kids n true) ((t3.kids n true).take offset) []).2)
  else
    ((split71 t3 vv ((t3.kids n true).drop offset) (t3.kids n true) ((t3.kids n true).take offset) []).1 ++
      (split73 t3 vv (split71 t3 vv ((t3.kids n true).drop offset) (t3.kids n true) ((t3.kids n true).take offset) []).2 false [] []).1,
     (split73 t3 vv (split71 t3 vv ((t3.kids n true).drop offset) (t3.kids n true) ((t3.kids n true).take offset) []).2 false [] []).2)

theorem splitParts_perm (t3 : Tree) (n : Ptr) (offset : Nat) (vv : VV) :
    ((splitParts t3 n offset vv).1 ++ (splitParts t3 n offset vv).2).Perm (t3.get n).children := by
  have h71 := split71_perm t3 vv ((t3.kids n true).drop offset) (t3.kids n true) ((t3.kids n true).take offset) []
  simp only [List.append_nil, List.take_append_drop, kids_true] at h71
  have h73 := split73_perm t3 vv (split71 t3 vv ((t3.kids n true).drop offset) (t3.kids n true) ((t3.kids n true).take offset) []).2 false [] []
  simp only [List.nil_append, kids_true] at h73
  unfold splitParts
  simp only [kids_true]
  split
  · exact h71
  · split
    · exact h71
    · simp only [List.append_assoc]
      exact (List.Perm.append_left _ h73).trans h71

theorem SameLinks.recalcLength (t : Tree) (n : Ptr) : SameLinks t (t.recalcLength n) := by
  unfold Tree.recalcLength
  exact SameLinks.modify _ _ _ (by intro _; rfl)

theorem SameLinks.addLensSplit (t : Tree) (c : Ptr) : SameLinks t (t.addLensSplit c) := by
  unfold Tree.addLensSplit Tree.addLensSplitW
  split
  · exact SameLinks.updAnc _ _ _ _ _
  · exact SameLinks.addLens _ _

/-- the part of `SplitElement` after the allocation and the insertion of the new sibling -/
theorem splitElement_core {t t2 : Tree} (w : t.WF) (n par : Ptr) (nd : TNode) (hp : nd.parent = none) (hc : nd.children = [])
    (hpar : (t.get n).parent = some par) (h2 : (t.alloc nd).1.insertAfterInternal par t.size n = .ok t2) (t3 : Tree) (sl3 : SameLinks t2 t3) (L R : List Ptr)
    (hperm : (L ++ R).Perm (t3.get n).children) :
    ((((t3.setChildren n L).setChildren t.size R).recalcLength n).recalcLength t.size).WF ∧
    Keeps t ((((t3.setChildren n L).setChildren t.size R).recalcLength n).recalcLength t.size) ∧
    ((((t3.setChildren n L).setChildren t.size R).recalcLength n).recalcLength t.size).size = t.size + 1 := by
  have w1 := w.alloc nd hp hc
  have hs1 : (t.alloc nd).1.size = t.size + 1 := rfl
  have g1 := get_alloc t nd w.size_eq
  have hparlt : par < t.size := (w.parent_child n par hpar).1
  have hnlt : n < t.size := w.lt_of_parent hpar
  have hn1 : par < (t.alloc nd).1.size := by rw [hs1]; exact Nat.lt_succ_of_lt hparlt
  have hnew1 : t.size < (t.alloc nd).1.size := by rw [hs1]; exact Nat.lt_succ_self _
  have hpn : ((t.alloc nd).1.get t.size).parent = none := by rw [g1]; simp [hp]
  have w2 := w1.insertAfterInternal par t.size n hn1 hnew1 hpn h2
  have k2 := insertAfterInternal_keeps w1 par t.size n hn1 hnew1 h2
  have w3 := w2.sameLinks sl3
  have hs3 : t3.size = t.size + 1 := by rw [sl3.1, k2.1, hs1]
  -- the new sibling has no children yet
  have hsc : (t3.get t.size).children = [] := by
    rw [sl3.children]
    unfold Tree.insertAfterInternal at h2
    split at h2
    · cases h2
    · split at h2
      · cases h2
      · rename_i _ o _
        cases h2
        have := (get_link (t.alloc nd).1 par t.size (insertNth ((t.alloc nd).1.get par).children (o + 1) t.size)
          (w1.size_eq ▸ hn1) (w1.size_eq ▸ hnew1) t.size).2.2
        rw [this]
        by_cases e : t.size = par
        · exact absurd e (Nat.ne_of_gt hparlt)
        · simp only [e, if_false]; rw [g1]; simp [hc]
  have rp := w3.repartition n t.size L R (by rw [hs3]; exact Nat.lt_succ_of_lt hnlt) (by rw [hs3]; exact Nat.lt_succ_self _)
    (Nat.ne_of_lt hnlt) hsc hperm
  have sl5 := (SameLinks.recalcLength ((t3.setChildren n L).setChildren t.size R) n).trans
    (SameLinks.recalcLength _ t.size)
  refine ⟨?_, ⟨?_, ?_⟩, ?_⟩
  · exact rp.1.sameLinks sl5
  · rw [sl5.1, rp.2.1, hs3]; exact Nat.le_succ _
  · intro q hq hpq
    rw [sl5.parent]
    apply rp.2.2
    rw [sl3.parent, k2.2 q (Nat.ne_of_lt hq), g1]
    simp [Nat.ne_of_lt hq, hpq]
  · rw [sl5.1, rp.2.1, hs3]

/-- `TreeNode.SplitElement` -/
theorem splitElement_good {t t' : Tree} {s : Ptr} {src src' : TickSrc} (w : t.WF) (n : Ptr) (offset : Nat) (vv : VV)
    (h : t.splitElement n offset src vv = .ok (t', s, src')) :
    t'.WF ∧ Keeps t t' ∧ s = t.size ∧ t'.size = t.size + 1 := by
  unfold Tree.splitElement at h
  simp only at h
  cases hnext : src.next with
  | mk tk src1 =>
    simp only [hnext] at h
    split at h
    · cases h
    · rename_i par hpar
      split at h
      · cases h
      · rename_i t2 h2
        split at h
        · cases h
        · cases h
          have core := splitElement_core w n par _ rfl rfl hpar h2 (t2.addLensSplit t.size) (SameLinks.addLensSplit t2 t.size) _ _
            (splitParts_perm (t2.addLensSplit t.size) n offset vv)
          exact ⟨core.1, core.2.1, rfl, core.2.2⟩

/-- `TreeNode.Split`, text or element -/
theorem splitAt_good {t t' : Tree} {src src' : TickSrc} (w : t.WF) (n : Ptr) (off : Int) (vv : VV)
    (h : t.splitAt n off src vv = .ok (t', src')) : t'.WF ∧ Keeps t t' := by
  by_cases ht : t.isText n = true
  · exact splitAt_text_good w n off vv ht h
  · rw [splitAt_eq] at h
    rw [if_neg ht] at h
    by_cases hoff : off < 0
    · rw [if_pos hoff] at h; cases h
    · rw [if_neg hoff] at h
      cases hse : t.splitElement n off.toNat src vv with
      | error e => simp only [hse] at h; cases h
      | ok x =>
        obtain ⟨t1, s, src1⟩ := x
        simp only [hse] at h
        have g := splitElement_good w n _ vv hse
        split at h
        · cases h
        · rename_i t6 h6
          cases h
          have hs1 : s < t1.size := by rw [g.2.2.2, g.2.2.1]; exact Nat.lt_succ_self _
          have m := splitMid_good g.1 n s hs1 h6
          have sl7 := SameLinks.modify t6 n (fun x => { x with insNext := some (t1.get s).id }) (by intro _; rfl)
          have w7 := m.1.sameLinks sl7
          refine ⟨w7.putNode s (by rw [sl7.1, m.2.1]; exact hs1), ?_⟩
          refine ⟨by rw [putNode_size, sl7.1, m.2.1]; exact g.2.1.1, fun q hq hp => ?_⟩
          rw [SameLinks.putNode, sl7.parent, m.2.2 q (by rw [g.2.2.1]; exact Nat.ne_of_lt hq)]
          exact g.2.1.2 q hq hp

/-- Phase 7 of `Tree.Edit` -/
theorem splitLoop_good (ts : Ticket) (vv : VV) : ∀ (k : Nat) (t : Tree) (parent left : Ptr) (src : TickSrc) (t' : Tree)
    (src' : TickSrc), t.WF → splitLoop ts vv k t parent left src = .ok (t', src') → t'.WF ∧ Keeps t t'
  | 0, t, _, _, _, t', _, w, h => by unfold splitLoop at h; cases h; exact ⟨w, Keeps.refl _⟩
  | k + 1, t, parent, left, src, t', src', w, h => by
    unfold splitLoop at h
    simp only at h
    split at h
    · cases h; exact ⟨w, Keeps.refl _⟩
    · split at h
      · cases h
      · split at h
        · cases h
        · rename_i t1 src1 hsp
          have g := splitAt_good w _ _ vv hsp
          have ih := splitLoop_good ts vv k t1 _ _ src1 t' src' g.1 h
          exact ⟨ih.1, g.2.trans ih.2⟩

end Yorkie.Tree
