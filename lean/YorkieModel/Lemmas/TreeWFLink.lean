/-
`Tree.WF` under the mutators that change the links: allocation, `insertAtInternal`/`InsertAt`/`InsertAfter`/
`InsertBefore`/`InsertAfterInternal` (a detached node becomes a child), `DetachChild`, `MoveChild`.
-/
import YorkieModel.Lemmas.TreeWF
namespace Yorkie.Tree
open Yorkie

/-- the link fields of a node -/
def TNode.lk (n : TNode) : NodeId × Option Ptr × List Ptr := (n.id, n.parent, n.children)

theorem lk_modify_keep (t : Tree) (p q : Ptr) (f : TNode → TNode) (hf : ∀ n, (f n).lk = n.lk) :
    ((t.modify p f).get q).lk = (t.get q).lk := by
  rw [get_modify]; split <;> simp [hf]

theorem lk_updAnc : ∀ (f : Nat) (t : Tree) (o : Option Ptr) (d : Int) (incl : Bool) (q : Ptr),
    ((updAnc f t o d incl).get q).lk = (t.get q).lk
  | 0, _, _, _, _, _ => rfl
  | _ + 1, _, none, _, _, _ => rfl
  | f + 1, t, some a, d, incl, q => by
    unfold updAnc
    split
    · rw [lk_updAnc f]; exact lk_modify_keep _ _ _ _ (fun _ => rfl)
    · simp only []
      split
      · exact lk_modify_keep _ _ _ _ (fun _ => rfl)
      · rw [lk_updAnc f]; exact lk_modify_keep _ _ _ _ (fun _ => rfl)

theorem updAnc_frame : ∀ (f : Nat) (t : Tree) (o : Option Ptr) (d : Int) (incl : Bool),
    (updAnc f t o d incl).size = t.size ∧ (updAnc f t o d incl).nodes.length = t.nodes.length ∧
    (updAnc f t o d incl).root = t.root ∧ (updAnc f t o d incl).idmap = t.idmap
  | 0, _, _, _, _ => ⟨rfl, rfl, rfl, rfl⟩
  | _ + 1, _, none, _, _ => ⟨rfl, rfl, rfl, rfl⟩
  | f + 1, t, some a, d, incl => by
    unfold updAnc
    split
    · have := updAnc_frame f (t.modify a fun n => { n with totLen := n.totLen + d }) (t.parentOf a) d incl
      simpa using this
    · simp only []
      split
      · simp
      · have := updAnc_frame f (t.modify a fun n => { n with visLen := n.visLen + d }) (t.parentOf a) d incl
        simpa using this

/-- `WF` only reads the frame and the link fields -/
theorem Tree.WF.congr {a b : Tree} (w : a.WF) (hs : b.size = a.size) (hl : b.nodes.length = a.nodes.length)
    (hr : b.root = a.root) (hm : b.idmap = a.idmap) (hk : ∀ q, (b.get q).lk = (a.get q).lk) : b.WF := by
  have gi : ∀ q, (b.get q).id = (a.get q).id := fun q => congrArg (·.1) (hk q)
  have gp : ∀ q, (b.get q).parent = (a.get q).parent := fun q => congrArg (·.2.1) (hk q)
  have gc : ∀ q, (b.get q).children = (a.get q).children := fun q => congrArg (·.2.2) (hk q)
  exact {
    size_eq := by rw [hs, hl]; exact w.size_eq
    root_lt := by rw [hs, hr]; exact w.root_lt
    child_lt := fun q c h => by rw [hs]; exact w.child_lt q c (gc q ▸ h)
    child_parent := fun q c h => by rw [gp]; exact w.child_parent q c (gc q ▸ h)
    parent_child := fun c q h => by
      have := w.parent_child c q (gp c ▸ h)
      exact ⟨hs ▸ this.1, by rw [gc]; exact this.2⟩
    nodup := fun q => by rw [gc]; exact w.nodup q
    idmap_ok := fun e he => by
      have := w.idmap_ok e (hm ▸ he)
      exact ⟨hs ▸ this.1, by rw [gi]; exact this.2⟩ }

/-! ### allocation -/

theorem get_alloc (t : Tree) (n : TNode) (hs : t.size = t.nodes.length) (q : Ptr) :
    (t.alloc n).1.get q = if q = t.size then n else t.get q := by
  unfold Tree.alloc Tree.get
  simp only
  by_cases h : q = t.size
  · subst h
    simp [hs, List.getD_eq_getElem?_getD]
  · simp only [h, if_false]
    rcases Nat.lt_or_ge q t.nodes.length with h' | h'
    · simp [List.getD_eq_getElem?_getD, List.getElem?_append_left h']
    · have hne : q ≠ t.nodes.length := fun e => h (e.trans hs.symm)
      have h'' : t.nodes.length + 1 ≤ q := Nat.lt_of_le_of_ne h' (Ne.symm hne)
      simp [List.getD_eq_getElem?_getD, List.getElem?_eq_none h', List.getElem?_eq_none (l := t.nodes ++ [n]) (by simpa using h'')]

/-- allocating a detached, childless node -/
theorem Tree.WF.alloc {t : Tree} (w : t.WF) (n : TNode) (hp : n.parent = none) (hc : n.children = []) :
    (t.alloc n).1.WF := by
  have g := get_alloc t n w.size_eq
  have hsz : (t.alloc n).1.size = t.size + 1 := rfl
  exact {
    size_eq := by simp [Tree.alloc, w.size_eq]
    root_lt := by rw [hsz]; exact Nat.lt_succ_of_lt w.root_lt
    child_lt := fun q c h => by
      rw [g] at h; rw [hsz]
      split at h
      · simp [hc] at h
      · exact Nat.lt_succ_of_lt (w.child_lt q c h)
    child_parent := fun q c h => by
      rw [g] at h
      split at h
      · simp [hc] at h
      · rw [g]
        have hlt := w.child_lt q c h
        simp [Nat.ne_of_lt hlt, w.child_parent q c h]
    parent_child := fun c q h => by
      rw [g] at h
      split at h
      · simp [hp] at h
      · have := w.parent_child c q h
        refine ⟨by rw [hsz]; exact Nat.lt_succ_of_lt this.1, ?_⟩
        rw [g]; simp [Nat.ne_of_lt this.1, this.2]
    nodup := fun q => by
      rw [g]; split
      · simp [hc]
      · exact w.nodup q
    idmap_ok := fun e he => by
      have := w.idmap_ok e he
      refine ⟨by rw [hsz]; exact Nat.lt_succ_of_lt this.1, ?_⟩
      rw [g]; simp [Nat.ne_of_lt this.1, this.2] }

/-! ### a detached node becomes a child -/

theorem Tree.WF.relink {t t' : Tree} (w : t.WF) (n new : Ptr) (l : List Ptr)
    (hn : n < t.size) (hpar : (t.get new).parent = none)
    (hl : l.Perm (new :: (t.get n).children))
    (hs : t'.size = t.size) (hlen : t'.nodes.length = t.nodes.length) (hr : t'.root = t.root) (hm : t'.idmap = t.idmap)
    (hI : ∀ q, (t'.get q).id = (t.get q).id)
    (hP : ∀ q, (t'.get q).parent = if q = new then some n else (t.get q).parent)
    (hC : ∀ q, (t'.get q).children = if q = n then l else (t.get q).children)
    (hnew : new < t.size) : t'.WF := by
  have notin : ∀ q, new ∉ (t.get q).children := fun q h => by
    have := w.child_parent q new h; rw [hpar] at this; cases this
  exact {
    size_eq := by rw [hs, hlen]; exact w.size_eq
    root_lt := by rw [hs, hr]; exact w.root_lt
    child_lt := fun q c h => by
      rw [hs]; rw [hC] at h
      split at h
      · rcases List.mem_cons.mp (hl.mem_iff.mp h) with h | h
        · exact h ▸ hnew
        · exact w.child_lt n c h
      · exact w.child_lt q c h
    child_parent := fun q c h => by
      rw [hC] at h; rw [hP]
      split at h
      · rename_i hq; subst hq
        rcases List.mem_cons.mp (hl.mem_iff.mp h) with h | h
        · simp [h]
        · have : c ≠ new := fun e => notin q (e ▸ h)
          simp [this, w.child_parent q c h]
      · have : c ≠ new := fun e => notin q (e ▸ h)
        simp [this, w.child_parent q c h]
    parent_child := fun c q h => by
      rw [hP] at h; rw [hs, hC]
      split at h
      · rename_i hc; cases h; subst hc
        exact ⟨hn, by simp; exact hl.mem_iff.mpr List.mem_cons_self⟩
      · have := w.parent_child c q h
        refine ⟨this.1, ?_⟩
        split
        · rename_i hq; subst hq; exact hl.mem_iff.mpr (List.mem_cons_of_mem _ this.2)
        · exact this.2
    nodup := fun q => by
      rw [hC]; split
      · exact hl.nodup_iff.mpr (List.nodup_cons.mpr ⟨notin n, w.nodup n⟩)
      · exact w.nodup q
    idmap_ok := fun e he => by
      have := w.idmap_ok e (hm ▸ he)
      exact ⟨hs ▸ this.1, by rw [hI]; exact this.2⟩ }

theorem perm_insertNth {α} (l : List α) (i : Nat) (x : α) : (insertNth l i x).Perm (x :: l) := by
  unfold insertNth
  have h1 : (l.take i ++ x :: l.drop i).Perm (x :: (l.take i ++ l.drop i)) := List.perm_middle
  rw [List.take_append_drop] at h1
  exact h1

/-- the two modifications of `insertAtInternal`-like functions, read back -/
theorem get_link (t : Tree) (n new : Ptr) (l : List Ptr) (hn : n < t.nodes.length) (hnew : new < t.nodes.length) (q : Ptr) :
    (((t.setChildren' n l).setParent new (some n)).get q).id = (t.get q).id ∧
    (((t.setChildren' n l).setParent new (some n)).get q).parent = (if q = new then some n else (t.get q).parent) ∧
    (((t.setChildren' n l).setParent new (some n)).get q).children = (if q = n then l else (t.get q).children) := by
  unfold Tree.setParent Tree.setChildren'
  rw [get_modify, get_modify]
  simp only [length_nodes_modify]
  by_cases h1 : q = new <;> by_cases h2 : q = n <;> simp [h1, h2, hn, hnew] <;> (try subst h1) <;> (try subst h2) <;> simp_all

theorem Tree.WF.link {t : Tree} (w : t.WF) (n new : Ptr) (l : List Ptr) (hn : n < t.size) (hnew : new < t.size)
    (hpar : (t.get new).parent = none) (hl : l.Perm (new :: (t.get n).children)) :
    ((t.setChildren' n l).setParent new (some n)).WF := by
  have g := get_link t n new l (w.size_eq ▸ hn) (w.size_eq ▸ hnew)
  exact w.relink n new l hn hpar hl rfl (by simp [Tree.setParent, Tree.setChildren']) rfl rfl
    (fun q => (g q).1) (fun q => (g q).2.1) (fun q => (g q).2.2) hnew

theorem Tree.WF.insertAtInternal {t : Tree} (w : t.WF) (n new : Ptr) (off : Nat) (hn : n < t.size) (hnew : new < t.size)
    (hpar : (t.get new).parent = none) : (t.insertAtInternal n new off).WF := by
  unfold Tree.insertAtInternal
  simp only
  apply w.link n new _ hn hnew hpar
  split
  · exact List.perm_append_singleton _ _
  · exact perm_insertNth _ _ _

theorem Tree.WF.insertAt {t t' : Tree} (w : t.WF) (n new : Ptr) (off : Nat) (hn : n < t.size) (hnew : new < t.size)
    (hpar : (t.get new).parent = none) (h : t.insertAt n new off = .ok t') : t'.WF := by
  unfold Tree.insertAt at h
  split at h
  · cases h
  · cases h; exact (w.insertAtInternal n new off hn hnew hpar).addLens new

theorem Tree.WF.insertAfter {t t' : Tree} (w : t.WF) (n new ref : Ptr) (hn : n < t.size) (hnew : new < t.size)
    (hpar : (t.get new).parent = none) (h : t.insertAfter n new ref = .ok t') : t'.WF := by
  unfold Tree.insertAfter at h
  split at h
  · cases h
  · split at h
    · cases h
    · cases h; exact (w.insertAtInternal n new _ hn hnew hpar).addLens new

theorem Tree.WF.insertBefore {t t' : Tree} (w : t.WF) (n new ref : Ptr) (hn : n < t.size) (hnew : new < t.size)
    (hpar : (t.get new).parent = none) (h : t.insertBefore n new ref = .ok t') : t'.WF := by
  unfold Tree.insertBefore at h
  split at h
  · cases h
  · split at h
    · cases h
    · cases h; exact (w.insertAtInternal n new _ hn hnew hpar).addLens new

theorem Tree.WF.insertAfterInternal {t t' : Tree} (w : t.WF) (n new prev : Ptr) (hn : n < t.size) (hnew : new < t.size)
    (hpar : (t.get new).parent = none) (h : t.insertAfterInternal n new prev = .ok t') : t'.WF := by
  unfold Tree.insertAfterInternal at h
  split at h
  · cases h
  · split at h
    · cases h
    · cases h; exact w.link n new _ hn hnew hpar (perm_insertNth _ _ _)

end Yorkie.Tree
