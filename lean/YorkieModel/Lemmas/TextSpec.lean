/-
`findNodeWithSplit` at a visible index, under the invariant and for a ticket newer than the text.
Core Lean only.
-/
import YorkieModel.Lemmas.TextSplit
namespace Yorkie.Text

theorem take_split {α} (a u c : List α) (i k : Nat) (hi : i = a.length + k) (hk : k ≤ u.length) :
    List.take i (a ++ u ++ c) = a ++ List.take k u := by
  subst hi
  rw [List.append_assoc, List.take_append, List.take_of_length_le (by omega)]
  congr 1
  rw [List.take_append, show a.length + k - a.length = k by omega]
  simp; omega

theorem drop_split {α} (a u c : List α) (i k : Nat) (hi : i = a.length + k) (hk : k ≤ u.length) :
    List.drop i (a ++ u ++ c) = List.drop k u ++ c := by
  subst hi
  rw [List.append_assoc, List.drop_append, List.drop_of_length_le (by omega)]
  simp only [List.nil_append]
  rw [List.drop_append, show a.length + k - a.length = k by omega]
  have : k - u.length = 0 := by omega
  rw [this]; simp

theorem nodup_decomp {A C : TextSt} {n : TNode} (h : (ids (A ++ n :: C)).Nodup) :
    n.id ∉ ids A ∧ n.id ∉ ids C ∧ (∀ m ∈ A, m.id ≠ n.id) ∧ (∀ m ∈ C, m.id ≠ n.id) := by
  rw [ids_append, ids_cons, List.nodup_append] at h
  obtain ⟨_, h2, h3⟩ := h
  rw [List.nodup_cons] at h2
  refine ⟨fun hm => h3 _ hm _ (by simp) rfl, h2.1, fun m hm e => h3 _ (mem_ids hm) _ (by simp) e,
    fun m hm e => h2.1 (e ▸ mem_ids hm)⟩

theorem newer_splitNode {s : TextSt} {ts : Ticket} (nw : Newer s ts) {n : TNode} (hn : n ∈ s) {k : Nat}
    (h0 : 0 < k) (hk : k < n.len) : Newer (splitNode s n k) ts := by
  intro x hx
  obtain ⟨m, hm, e⟩ := createdAt_splitNode hn h0 hk hx
  rw [e]; exact nw m hm

/-- The heart of the sequential specification. `s = P ++ S`; the position denotes the visible index
    `i`, which lies inside `P`. Then `findNodeWithSplit` returns a list `(A ++ [x]) ++ M ++ S'` where
    `x` is the returned left node, `A ++ [x]` shows exactly the first `i` units of `P`, `M` the rest
    of `P`, `S'` is `S` up to `insPrev` links, and the right node is the first node after `x`. -/
theorem fnws_spec {s P S : TextSt} (hs : s = P ++ S) (hP : P ≠ []) (wf : WF s) {ts : Ticket}
    (nw : Newer s ts) {p : Pos} {i : Nat} (den : Denotes s (p.id.1, p.id.2 + p.rel) i)
    (hi : i ≤ (visible P).length) :
    ∃ A x M f, SimOn f S ∧
      findNodeWithSplit s p ts =
        .ok (A ++ x :: (M ++ S.map f), x.id, ((M ++ S.map f).head?).map (·.id)) ∧
      visible (A ++ [x]) = sanitize ((visible P).take i) ∧
      visible M = sanitize ((visible P).drop i) ∧
      (∀ q j, j ≤ i → Denotes s q j → Denotes (A ++ x :: (M ++ S.map f)) q j) ∧
      visAttrs (A ++ [x]) = (visAttrs P).take i ∧
      visAttrs M = (visAttrs P).drop i := by
  have noskip := nw.noSkip
  have fixedP : Fixed (visible P) :=
    fixed_visible (fun m hm => wf.fixed m (by rw [hs]; exact List.mem_append_left _ hm))
  rcases den with ⟨hq, hi0⟩ | ⟨A, n, C, hsd, hl, h1, h2, h3, hidx⟩
  · -- the head position
    obtain ⟨hd, r, hsr, hid, hu⟩ := wf.head
    cases P with
    | nil => exact absurd rfl hP
    | cons x P' =>
      have hx : x = hd ∧ P' ++ S = r := by
        rw [hsr] at hs; simp only [List.cons_append, List.cons.injEq] at hs
        exact ⟨hs.1.symm, hs.2.symm⟩
      obtain ⟨rfl, hr⟩ := hx
      have hfl := floor_head wf hsr
      rw [← hq] at hfl
      have hq2 : p.id.2 + p.rel = 0 := by
        have := congrArg Prod.snd hq; simpa [headId] using this
      have hd2 : x.id.2 = 0 := by rw [hid]; rfl
      have hk : p.id.2 + p.rel - x.id.2 = 0 := by omega
      have hloc : locate (splitNode s x (p.id.2 + p.rel - x.id.2)) x.id = some (x, r) := by
        rw [splitNode_noop (Or.inl hk), hsr]; simp [locate]
      have ev := fnws_eval hfl (by omega) (by omega) hloc
        (fun y hy => noskip y (by rw [hsr]; simp [hy]))
      have vx : visible [x] = [] := by rw [visible_cons, hu]; simp
      have ax : visAttrs [x] = [] := by
        rw [visAttrs_cons]; simp [TNode.len, hu]
      refine ⟨[], x, P', id, simOn_id S, ?_, ?_, ?_, ?_, ?_, ?_⟩
      · rw [ev, splitNode_noop (Or.inl hk), hsr, ← hr]; simp
      · subst hi0; rw [List.nil_append, vx]; simp [sanitize]
      · subst hi0
        have : visible (x :: P') = visible P' := by
          rw [visible_cons, hu]; simp
        rw [List.drop_zero, fixedP, this]
      · intro q j _ hden
        rw [List.map_id, List.nil_append, hr, ← hsr]; exact hden
      · subst hi0; rw [List.nil_append, ax]; simp
      · subst hi0
        have : visAttrs (x :: P') = visAttrs [x] ++ visAttrs P' := visAttrs_append [x] P'
        rw [List.drop_zero, this, ax, List.nil_append]
  · -- a position inside / at the end of the live node `n`
    have hnd := wf.nodup
    rw [hsd] at hnd
    obtain ⟨hnA, hnC, hAne, hCne⟩ := nodup_decomp hnd
    have hnmem : n ∈ s := by rw [hsd]; simp
    have hfl := floor_node wf hnmem h1 h2 h3
    simp only at h1 h2 h3 hidx
    have hPS : P ++ S = A ++ n :: C := by rw [← hs, hsd]
    obtain ⟨c, hPc, hCc⟩ := split_in_prefix hPS (by omega)
    have vP : visible P = visible A ++ n.units ++ visible c := by
      rw [hPc, visible_append, visible_cons, hl]; simp
    have fixA : Fixed (visible A) :=
      fixed_visible (fun m hm => wf.fixed m (by rw [hsd]; exact List.mem_append_left _ hm))
    have fixc : Fixed (visible c) :=
      fixed_visible (fun m hm => wf.fixed m (by
        rw [hsd, hCc]; exact List.mem_append_right _ (List.mem_cons_of_mem _ (List.mem_append_left _ hm))))
    have fixn : Fixed n.units := wf.fixed n hnmem
    have hkl : p.id.2 + p.rel - n.id.2 ≤ n.units.length := by unfold TNode.len at h3; omega
    have aP : visAttrs P = visAttrs A ++ List.replicate n.len n.attrs ++ visAttrs c := by
      rw [hPc, visAttrs_append, visAttrs_cons, hl]; simp
    have hidxa : i = (visAttrs A).length + (p.id.2 + p.rel - n.id.2) := by
      rw [visAttrs_length]; exact hidx
    have hkla : p.id.2 + p.rel - n.id.2 ≤ (List.replicate n.len n.attrs).length := by
      rw [List.length_replicate]; unfold TNode.len; exact hkl
    by_cases hsplit : p.id.2 + p.rel - n.id.2 = n.len
    · -- the boundary after `n`: no split
      have hloc : locate (splitNode s n (p.id.2 + p.rel - n.id.2)) n.id = some (n, C) := by
        rw [splitNode_noop (Or.inr hsplit), hsd]; exact locate_append hnA
      have ev := fnws_eval hfl (by omega) (by omega) hloc
        (fun y hy => noskip y (by rw [hsd]; simp [hy]))
      refine ⟨A, n, c, id, simOn_id S, ?_, ?_, ?_, ?_, ?_, ?_⟩
      · rw [ev, splitNode_noop (Or.inr hsplit), hsd, hCc]; simp
      · rw [visible_append, visible_cons, hl, vP, take_split _ _ _ i _ hidx hkl]
        simp only [if_true, visible_nil, List.append_nil]
        have : List.take (p.id.2 + p.rel - n.id.2) n.units = n.units :=
          List.take_of_length_le (by unfold TNode.len at hsplit; omega)
        rw [this, fixed_append fixA fixn]
      · rw [vP, drop_split _ _ _ i _ hidx hkl]
        have : List.drop (p.id.2 + p.rel - n.id.2) n.units = [] :=
          List.drop_of_length_le (by unfold TNode.len at hsplit; omega)
        rw [this, List.nil_append, fixc]
      · intro q j _ hden
        rw [List.map_id, ← hCc, ← hsd]; exact hden
      · rw [visAttrs_append, visAttrs_cons, hl, aP, take_split _ _ _ i _ hidxa hkla]
        simp only [if_true, visAttrs_nil, List.append_nil]
        rw [List.take_of_length_le (by rw [List.length_replicate]; omega)]
      · rw [aP, drop_split _ _ _ i _ hidxa hkla]
        rw [List.drop_of_length_le (by rw [List.length_replicate]; omega), List.nil_append]
    · -- strictly inside `n`: split
      have h0 : 0 < p.id.2 + p.rel - n.id.2 := by omega
      have hk : p.id.2 + p.rel - n.id.2 < n.len := by omega
      generalize hkdef : p.id.2 + p.rel - n.id.2 = k at *
      have hsp : splitNode s n k =
          A.map (splitMap n k) ++ splitMap n k n :: rightPart n k :: C.map (splitMap n k) := by
        rw [hsd]; exact splitNode_append hnA h0 hk
      have hloc : locate (splitNode s n k) n.id =
          some (splitMap n k n, rightPart n k :: C.map (splitMap n k)) := by
        rw [hsp]
        have := @locate_append (A.map (splitMap n k)) (rightPart n k :: C.map (splitMap n k))
          (splitMap n k n) (by rw [ids_map_splitMap, splitMap_id]; exact hnA)
        rw [splitMap_id] at this; exact this
      have nw1 := newer_splitNode nw hnmem h0 hk
      have ev := fnws_eval hfl (by omega) (by omega) (by rw [hkdef]; exact hloc)
        (fun y hy => nw1.noSkip y (by
          rw [hsp]; exact List.mem_append_right _ (List.mem_cons_of_mem _ hy)))
      rw [hkdef] at ev
      have simA : SimOn (splitMap n k) A := simOn_splitMap k hnA
      have simC : SimOn (splitMap n k) C := simOn_splitMap k hnC
      have simc : SimOn (splitMap n k) c := simC.mono (fun m hm => by rw [hCc]; exact List.mem_append_left _ hm)
      have simS : SimOn (splitMap n k) S := simC.mono (fun m hm => by rw [hCc]; exact List.mem_append_right _ hm)
      have unL : (splitMap n k n).units = sanitize (n.units.take k) := by rw [splitMap_units, if_pos rfl]
      have liveL : (splitMap n k n).live = true := by rw [splitMap_live]; exact hl
      have liveR : (rightPart n k).live = true := hl
      refine ⟨A.map (splitMap n k), splitMap n k n, rightPart n k :: c.map (splitMap n k),
        splitMap n k, simS, ?_, ?_, ?_, ?_, ?_, ?_⟩
      · rw [ev, hsp, hCc]; simp
      · rw [visible_append, simA.visible, visible_cons, liveL, unL, vP, take_split _ _ _ i _ hidx hkl]
        simp only [if_true, visible_nil, List.append_nil]
        rw [sanitize_append_fixed_left fixA]
      · rw [visible_cons, liveR, simc.visible, vP, drop_split _ _ _ i _ hidx hkl]
        simp only [if_true]
        rw [sanitize_append_fixed_right _ fixc]; rfl
      · -- positions at or before `i` keep their meaning
        intro q j hj hden
        rcases hden with hh | ⟨A2, m, C2, hs2, hl2, g1, g2, g3, gidx⟩
        · exact Or.inl hh
        · right
          have hdec : A ++ n :: C = A2 ++ m :: C2 := by rw [← hsd, hs2]
          have hCmap : C.map (splitMap n k) = c.map (splitMap n k) ++ S.map (splitMap n k) := by
            rw [hCc, List.map_append]
          rcases decomp_cases hdec with ⟨eA, em, eC⟩ | ⟨X, eA, eC⟩ | ⟨X, eA, eC⟩
          · -- the same node: the left part still contains the position
            subst eA; subst em; subst eC
            refine ⟨A2.map (splitMap m k), splitMap m k m, rightPart m k :: (c.map (splitMap m k) ++ S.map (splitMap m k)),
              rfl, liveL, by simpa using g1, by simpa using g2, ?_, ?_⟩
            · rw [splitMap_id, splitMap_len_self m (by omega)]; omega
            · rw [simA.visible, splitMap_id]; exact gidx
          · -- an earlier node
            subst eA
            have hmne : m.id ≠ n.id := hAne m (by simp)
            have simA2 : SimOn (splitMap n k) A2 := simA.mono (fun y hy => List.mem_append_left _ hy)
            refine ⟨A2.map (splitMap n k), splitMap n k m,
              X.map (splitMap n k) ++ splitMap n k n :: rightPart n k :: (c.map (splitMap n k) ++ S.map (splitMap n k)),
              by simp, by rw [splitMap_live]; exact hl2, by simpa using g1, by simpa using g2, ?_, ?_⟩
            · rw [splitMap_id, splitMap_len_other k hmne]; exact g3
            · rw [simA2.visible, splitMap_id]; exact gidx
          · -- a later node would denote an index beyond `i`
            exfalso
            subst eA
            rw [visible_append, visible_cons, hl, List.length_append, List.length_append] at gidx
            simp only [if_true] at gidx
            omega
      · rw [visAttrs_append, simA.visAttrs, visAttrs_cons, liveL, aP, take_split _ _ _ i _ hidxa hkla]
        simp only [if_true, visAttrs_nil, List.append_nil, splitMap_attrs]
        rw [splitMap_len_self n (by omega), List.take_replicate, Nat.min_eq_left (by omega)]
      · rw [visAttrs_cons, liveR, simc.visAttrs, aP, drop_split _ _ _ i _ hidxa hkla]
        simp only [if_true]
        rw [rightPart_len, List.drop_replicate]; rfl

end Yorkie.Text
