/-
Lemmas for C14, part 32: depth 2 through a restored array element (the shape of history S1):
`arr[i].k = v ; delete arr[i] ; undo ; undo`.  The first undo brings the element back under a new
identity `t'` and rewrites the entry below it on the stack - target AND parent (`ReconcileCreatedAt`
with the repair) - so the second undo is `Remove t' c`, which finds the member re-registered below `t'`.
-/
import YorkieModel.Lemmas.UndoArray22
namespace Yorkie.Undo
open Yorkie Yorkie.Crdt

theorem filterMap_insertKey {β} (g : String → Option β) (k : String) (hk : g k = none) :
    ∀ l : List String, (insertKey k l).filterMap g = l.filterMap g
  | [] => by simp [insertKey, hk]
  | a :: l => by
    unfold insertKey
    split
    · simp [List.filterMap_cons, hk]
    · split
      · rfl
      · simp only [List.filterMap_cons, filterMap_insertKey g k hk l]

theorem pushTail_cons (e : List UOp) (T : List (List UOp)) : ∃ T', pushTail (e :: T) = e :: T' := by
  unfold pushTail
  split
  · rename_i hlen
    cases T with
    | nil =>
      have h1 : (1 : Nat) ≥ maxDepth := hlen
      exact absurd h1 (by decide)
    | cons b T => exact ⟨(b :: T).dropLast, rfl⟩
  · exact ⟨T, rfl⟩

/-- `Remove` of a member of an object under undo/redo, the reverse left unnamed -/
theorem uexecute_remove_obj {d : Doc} {tw : Ticket → Bool} {p u ts : Ticket} {pe ue : Elem} {keys : List String}
    {member : String → Option Member} {k : String}
    (hd : d p = some pe) (hb : pe.body = .obj keys member) (hk : k ∈ keys) (hm : memberChild member k = some u)
    (hu : d u = some ue) (hup : ue.parent = some p) (horph : orphaned d tw orphanFuel u = false)
    (hafter : ts.after u = true) :
    ∃ q, uexecute d tw .undoRedo (.remove p u ts) = .ok (kill d (some u), some q) := by
  have hcont : isContainer d p = true := by simp [isContainer, hd, hb]
  have hkeyOf : ∃ k2, keyOf keys member u = some k2 := by
    cases hx : keyOf keys member u with
    | some k2 => exact ⟨k2, rfl⟩
    | none =>
      unfold keyOf at hx
      rw [List.find?_eq_none] at hx
      have := hx k hk
      simp [hm] at this
  obtain ⟨k2, hkeyOf⟩ := hkeyOf
  have hchild : isChildOf d u p = true := by simp [isChildOf, hu, hup]
  have hk3 : markRemoved d u ts = kill d (some u) := markRemoved_eq_kill (fun _ _ => hafter)
  have hcap : ∃ cv, capture d u = some cv := by simp [capture, hu]
  obtain ⟨cv, hcap⟩ := hcap
  refine ⟨.set p k2 cv ts, ?_⟩
  simp only [uexecute, hcont, Bool.not_true, Bool.false_eq_true, if_false, Source.needsReverse, if_true,
    reverseRemove, hcap, hd, hb, hkeyOf, applyRemove, hchild, hk3, horph, Bool.and_false]
  rfl

theorem copyBody_obj_child_mem {look : Ticket → Option Elem} {f : Nat} {self : Ticket} {keys : List String}
    {member : String → Option Member} {k : String} {c : Ticket} {ce : Elem} (hk : k ∈ keys)
    (hc : memberChild member k = some c) (hmem : (c, ce) ∈ copyChild look (copyBody look f) self (some c)) :
    (c, ce) ∈ (copyBody look (f + 1) self (.obj keys member)).2 := by
  simp only [copyBody, List.mem_flatMap]
  exact ⟨k, hk, by rw [hc]; exact hmem⟩

section
variable {H : Home} {d : Doc} {L : Int} {p x : Ticket} {pe xe : Elem} {nodes : List PosNode}
  {moved : Ticket → Option Ticket}

/-- a member of the restored object element: re-registered below the new identity -/
theorem restoreC_child (a : ArrAtC d L p x pe xe nodes moved) (nodes2 : List PosNode) {t' : Ticket}
    {keys : List String} {member : String → Option Member} {k : String} {c : Ticket}
    (hb : xe.body = .obj keys member) (hk : k ∈ keys) (hc : memberChild member k = some c) (hct : c ≠ t') :
    ∃ ce, d c = some ce ∧ ce.removed = false ∧ ce.parent = some x ∧
      restoreC d p x pe xe nodes2 moved t' c = some { ce with parent := some t' } := by
  have tree := a.tree
  rw [hb, show copyFuel = 63 + 1 from rfl] at tree
  obtain ⟨ce, hl, hr, hp, htc⟩ := tree k hk c hc
  refine ⟨ce, hl, hr, hp, ?_⟩
  obtain ⟨hb1, hent⟩ := copyBody_tree copyFuel x xe.body a.tree
  have hlook : lookupSub ((captured d x xe).reid t').sub =
      fun c => (lookupSub (copyBody d copyFuel x xe.body).2 c).map (rehome x t') := by
    funext c
    simp only [UVal.reid, captured, reparent_eq]
    exact lookupSub_map _ _ c
  have htree := tree_rehome (t' := t') a.hnd a.hxS copyFuel x xe.body a.tree (Or.inl rfl) (fun _ h => h)
  simp only [if_true] at htree
  have hcR : copyR d x xe t' = copyBody (fun c => (lookupSub (copyBody d copyFuel x xe.body).2 c).map (rehome x t'))
      copyFuel t' xe.body := by
    unfold copyR copy2
    rw [hlook]
    simp only [UVal.reid, captured, hb1]
  have htree' := htree
  rw [hb, show copyFuel = 63 + 1 from rfl] at htree'
  obtain ⟨ce', hl', hr', hp', htc'⟩ := htree' k hk c hc
  have hmem : (c, ce') ∈ (copyR d x xe t').2 := by
    rw [hcR, hb]
    exact copyBody_obj_child_mem (f := 63) hk hc (copyChild_mem hl' hr' hp' (copyBody_tree 63 c ce'.body htc').1)
  have hsome : (lookupSub (copyR d x xe t').2 c).isSome = true :=
    (lookupSub_isSome _ c).2 (List.mem_map.2 ⟨(c, ce'), hmem, rfl⟩)
  cases hl2 : lookupSub (copyR d x xe t').2 c with
  | none => rw [hl2] at hsome; cases hsome
  | some e =>
    obtain ⟨e0, he0, hee, hcS⟩ := (copyR_spec a t').2 c e hl2
    rw [hl] at he0; injection he0 with he0; subst he0
    have hcp : c ≠ p := fun hx => a.hpS (hx ▸ List.mem_cons_of_mem _ hcS)
    rw [restoreC_apply a]
    simp only [hcp, hct, if_false, hl2, hee]
    unfold rehome
    simp [hp]

end

/-- the history after `delete arr[i]` (an element with content) and its undo -/
theorem undo_array_delete_container_hist {h : Hist} {p x : Ticket} {pe xe : Elem} {nodes : List PosNode}
    {moved : Ticket → Option Ticket} (fr : Fresh h) (a : ArrAtC h.doc h.lamport p x pe xe nodes moved)
    {t' : Ticket} (ht' : t' = ⟨h.lamport + 1 + 1, 1, h.actor⟩) :
    ∃ pv nodes2,
      undo (doChange h [.remove p x h.next]) =
        { h with
          doc := restoreC h.doc p x pe xe nodes2 moved t'
          undo := reconcileStack x t' (pushTail h.undo)
          redo := push (reconcileStack x t' []) [.remove p t' t']
          lamport := h.lamport + 1 + 1 } ∧
      findPrev h.doc nodes x = some pv ∧ holds nodes2 t' = true ∧
      (∀ c, live h.doc c = true →
        vis (restoreC h.doc p x pe xe nodes2 moved t') (ren1 x t' c) = (vis h.doc c).map (ren1 x t')) := by
  obtain ⟨H, w⟩ := fr.wf
  obtain ⟨pv1, hfp1, hdo⟩ := doChange_array_delete fr a
  have ht'l : t'.lamport = h.lamport + 2 := by rw [ht']; simp only []; omega
  obtain ⟨pv, nodes2, hfp, he2, hh2, hvis⟩ := reinsertC_core w fr.bd a noTw (t' := t') (by omega)
  rw [hfp1] at hfp
  have hpv : pv1 = pv := Option.some.inj hfp
  subst hpv
  refine ⟨pv1, nodes2, ?_, hfp1, hh2, hvis⟩
  rw [hdo, undo_add_entry (cv := captured h.doc x xe) (push_eq _ _)
    (by simp only [Hist.next]; rw [← ht']; exact he2)]
  simp only [Hist.next, ← ht']
  rfl

/-- depth 2 through a restored element: `x.k = v ; delete arr[i] (= x) ; undo ; undo` -/
theorem undo2_set_delete_elem_lemma {h h1 : Hist} (fr : Fresh h) {p x : Ticket} {k : String} {v : Val}
    {pe xe1 : Elem} {nodes : List PosNode} {moved : Ticket → Option Ticket}
    (hx : isObj h.doc x = true) (horph : orphaned h.doc noTw orphanFuel x = false)
    (hv : leafBody v.body = true) (hk : winner h.doc x k = none)
    (e1 : h1 = doChange h [.set x k (UVal.ofVal v h.next) h.next])
    (a1 : ArrAtC h1.doc h1.lamport p x pe xe1 nodes moved) (hroot : x ≠ rootId)
    (hrt : rootedAvoid h1.doc (x :: (copyBody h1.doc copyFuel x xe1.body).2.map (·.1)) 63 p = true)
    (fuel : Nat) :
    marshal (undo (undo (doChange h1 [.remove p x h1.next]))).doc fuel rootId = marshal h.doc fuel rootId := by
  obtain ⟨H, w, g⟩ := good_set_of_fresh fr hx horph hv (k := k) (by intro u hu; rw [hk] at hu; cases hu)
  have fr1 : Fresh h1 := by
    rw [e1]; exact (fresh_run [Edit.set x k v] h w fr ⟨g, trivial⟩).1
  have bd := fr.bd
  obtain ⟨xe0, keys, member, hd, hb, hw⟩ := isObj_winner hx k
  rw [hw] at hk
  obtain ⟨hfresh, _⟩ := fresh_next fr
  have hxc : x ≠ h.next := by intro hx'; rw [hx', hfresh] at hd; cases hd
  -- the first edit
  have happ := applySetU_eq (d := h.doc) (p := x) (k := k) (val := UVal.ofVal v h.next) (ts := h.next) hd hb
    hv rfl (by
      intro m' hm'
      refine ⟨after_of_lamport ?_, fun e he => after_of_lamport ?_⟩
      · have := bd.pos _ _ _ _ _ _ hd hb hm'; simp only [Hist.next]; omega
      · have := bd.ent _ _ he; simp only [Hist.next]; omega)
  have hold : kill h.doc ((member k).map (·.child)) = h.doc := by
    cases hmk : member k with
    | none => exact kill_none _
    | some m =>
      funext t
      simp only [Option.map_some, kill]
      split
      · rename_i hmt
        injection hmt with hmt
        cases hdt : h.doc t with
        | none => rfl
        | some e =>
          have : e.removed = true := by
            cases hr : e.removed with
            | true => rfl
            | false =>
              have : liveMember h.doc member k = some m.child := by
                simp [liveMember, hmk, hmt, hdt, hr]
              rw [this] at hk; cases hk
          simp only [Option.map_some]
          cases e; simp_all
      · rfl
  rw [hold] at happ
  have hrev : reverseSet h.doc x k (UVal.ofVal v h.next) h.next = some (.remove x h.next h.next) := by
    unfold reverseSet
    simp only [hd, hb, hk]
    rfl
  simp only [show (UVal.ofVal v h.next).id = h.next from rfl, show (UVal.ofVal v h.next).body = v.body from rfl]
    at happ
  generalize hkeys1 : (if (member k).isNone then insertKey k keys else keys) = keys1 at happ
  obtain ⟨member1, hmem1⟩ : ∃ m1 : String → Option Member,
      m1 = fun k' => if k' = k then some (⟨h.next, h.next⟩ : Member) else member k' := ⟨_, rfl⟩
  rw [← hmem1] at happ
  have he1 := happ
  generalize hd1 : ((h.doc.set h.next ⟨some x, false, v.body⟩).set x { xe0 with body := .obj keys1 member1 }) = d1
    at he1
  have hex1 : uexecute h.doc noTw .loc (.set x k (UVal.ofVal v h.next) h.next) =
      .ok (d1, some (.remove x h.next h.next)) := by
    simp only [uexecute, hx, Bool.not_true, Bool.false_eq_true, if_false, he1, Source.needsReverse, gate, if_true,
      hrev, show (Source.loc = Source.undoRedo) = False from by simp, decide_false, Bool.false_and]
    rfl
  rw [doChange_one (by rfl) hex1] at e1
  subst e1
  simp only [] at a1 hrt fr1 ⊢
  have hd1x : d1 x = some { xe0 with body := .obj keys1 member1 } := by
    rw [← hd1]; simp [set_apply]
  have hd1c : d1 h.next = some ⟨some x, false, v.body⟩ := by
    have : ¬ h.next = x := fun hx' => hxc hx'.symm
    rw [← hd1]; simp [set_apply, this]
  have hd1o : ∀ t, t ≠ x → t ≠ h.next → d1 t = h.doc t := by
    intro t h1 h2
    rw [← hd1]; simp [set_apply, h1, h2]
  have hxe1 : xe1 = { xe0 with body := .obj keys1 member1 } := by
    have := a1.hx; rw [hd1x] at this; exact (Option.some.inj this).symm
  have hb1 : xe1.body = .obj keys1 member1 := by rw [hxe1]
  have hm1k : member1 k = some ⟨h.next, h.next⟩ := by rw [hmem1]; simp
  have hmc : memberChild member1 k = some h.next := by simp [memberChild, hm1k]
  obtain ⟨H1, w1⟩ := fr1.wf
  have hkin : k ∈ keys1 := (w1.objMem _ _ _ _ k ⟨h.next, h.next⟩ a1.hx a1.hxr hb1 hm1k).1
  -- delete + first undo
  generalize ht' : (⟨h.lamport + 1 + 1 + 1, 1, h.actor⟩ : Ticket) = t'
  have ht'l : t'.lamport = h.lamport + 3 := by rw [← ht']; simp only []; omega
  obtain ⟨pv, nodes2, hundo, _, _, hvis⟩ := undo_array_delete_container_hist fr1 a1 (t' := t') (by rw [← ht'])
  simp only [] at hundo
  rw [hundo]
  have hct : h.next ≠ t' := by intro hx'; rw [← hx'] at ht'l; simp only [Hist.next] at ht'l; omega
  have hbd1 := fr1.bd
  simp only [] at hbd1
  have hagree := restoreC_agree hbd1 a1 nodes2 (t' := t') (by omega)
  obtain ⟨ce, hce, _, _, hd3c⟩ := restoreC_child a1 nodes2 (t' := t') hb1 hkin hmc hct
  rw [hd1c] at hce; injection hce with hce; subst hce
  have htp : t' ≠ p := fun hx' => by have := hbd1.ent _ _ (hx' ▸ a1.hd); omega
  generalize hd3 : restoreC d1 p x pe xe1 nodes2 moved t' = d3 at hvis hagree hd3c
  have hd3t : d3 t' = some ⟨some p, false, xe1.body⟩ := by rw [← hd3, restoreC_apply a1]; simp [htp]
  -- the second undo
  obtain ⟨T', hT'⟩ := pushTail_cons [UOp.remove x h.next h.next] (pushTail h.undo)
  have hstack : reconcileStack x t' (pushTail (push h.undo [.remove x h.next h.next])) =
      [.remove t' h.next h.next] :: reconcileStack x t' T' := by
    rw [push_eq, hT']
    simp [reconcileStack_eq, Undo.rw, hxc.symm]
  have h62 : orphaned d3 noTw 62 p = false := orphaned_of_rooted hagree 63 p hrt 62
  have horph4 : orphaned d3 noTw orphanFuel h.next = false := by
    rw [show orphanFuel = 63 + 1 from rfl, orphaned_succ_some hd3c rfl,
      show (63 : Nat) = 62 + 1 from rfl, orphaned_succ_some hd3t rfl, h62]
    rfl
  generalize ht4 : (⟨h.lamport + 1 + 1 + 1 + 1, 1, h.actor⟩ : Ticket) = ts4
  have hafter4 : ts4.after h.next = true := after_of_lamport (by rw [← ht4]; simp only [Hist.next]; omega)
  obtain ⟨q4, he4⟩ := uexecute_remove_obj (tw := noTw) (ts := ts4) hd3t hb1 hkin hmc hd3c rfl horph4 hafter4
  rw [undo_one hstack (by rfl) (by simp only [Hist.next, UOp.withTs]; rw [ht4]; exact he4)]
  simp only []
  -- comparison
  have hlive1 : ∀ y, live h.doc y = true → live d1 y = true ∧ y ≠ h.next := by
    intro y hy
    have hyc : y ≠ h.next := by intro hx'; rw [hx', live_none hfresh] at hy; cases hy
    refine ⟨?_, hyc⟩
    by_cases hyx : y = x
    · subst hyx; simp [live, a1.hx, a1.hxr]
    · unfold live; rw [hd1o y hyx hyc]; exact hy
  have hliveK : ∀ s, live (kill d1 (some h.next)) s = live h.doc s := by
    intro s
    rw [live_kill]
    by_cases hs : s = h.next
    · simp [hs, live_none hfresh]
    · simp only [hs, if_false]
      by_cases hsx : s = x
      · subst hsx; simp [live, hd1x, hd]
      · unfold live; rw [hd1o s hsx hs]
  have hF3 : ∀ y, live h.doc y = true → vis (kill d1 (some h.next)) y = vis h.doc y := by
    intro y hy
    obtain ⟨_, hyc⟩ := hlive1 y hy
    have hyc' : ¬ h.next = y := fun hx' => hyc hx'.symm
    by_cases hyx : y = x
    · subst hyx
      unfold vis
      have : kill d1 (some h.next) y = d1 y := by simp [kill, hyc']
      rw [this, hd1x, hd]
      simp only [hb, visBody]
      congr 1
      have hent : ∀ k', objEntry (kill d1 (some h.next)) member1 k' = objEntry h.doc member k' := by
        intro k'
        by_cases hk' : k' = k
        · subst hk'
          have h0 : objEntry h.doc member k' = none := by
            unfold objEntry
            cases hmk : member k' with
            | none => rfl
            | some m =>
              simp only []
              cases hlm : live h.doc m.child with
              | false => rfl
              | true =>
                obtain ⟨e, he, her⟩ := live_elem hlm
                have : liveMember h.doc member k' = some m.child := by simp [liveMember, hmk, he, her]
                rw [this] at hk; cases hk
          rw [h0]
          simp [objEntry, hm1k, hliveK, live_none hfresh]
        · rw [hmem1]; simp only [objEntry, hk', if_false, hliveK]
      rw [← hkeys1]
      cases hmk : (member k).isNone with
      | false =>
        simp only [Bool.false_eq_true, if_false]
        exact filterMap_congr' (fun k' _ => hent k')
      | true =>
        simp only [if_true]
        rw [filterMap_insertKey _ k (by
          rw [hent k]
          unfold objEntry
          have : member k = none := by simpa using hmk
          rw [this])]
        exact filterMap_congr' (fun k' _ => hent k')
    · exact vis_congr (by simp [kill, hyc', hd1o y hyx hyc]) hliveK
  have key := marshal_rename (d1 := h.doc) (d2 := kill d3 (some h.next)) (ren1 x t') rootId ?_
    fuel rootId (Or.inr rfl)
  · rw [key]; simp [ren1, hroot.symm]
  · intro y hy
    have hly : live h.doc y = true := by
      rcases hy with hy | hy
      · exact hy
      · exact hy ▸ live_of_skel fr.root
    obtain ⟨hly1, _⟩ := hlive1 y hly
    rw [vis_kill, hvis y hly1, Vis.drop_map (u := h.next), ← vis_kill, hF3 y hly]
    intro z hz
    have hzl := vis_children_live hz
    unfold ren1
    by_cases hzx : z = x
    · simp only [hzx, if_true]
      constructor
      · intro hx'; exact absurd hx'.symm hct
      · intro hx'; exact absurd hx' hxc
    · simp [hzx]

/-! ### non-vacuity: history S1 continued on the heap `hR` -/

namespace Restored

/-- `hR` after `arr[0].a = 1` -/
def hR1 : Hist := doChange hR [.set tX' "a" (UVal.ofVal (.prim "1") hR.next) hR.next]

theorem hR1_some : (hR1.doc tX').isSome = true := by decide

/-- the element after the edit -/
def eX1 : Elem := (hR1.doc tX').get hR1_some

theorem arrAtC_hR1 : ArrAtC hR1.doc hR1.lamport tA tX' eArr eX1 [⟨tX', some tX'⟩, ⟨tX, some tX⟩] (fun _ => none) := by
  refine ⟨rfl, rfl, rfl, (Option.some_get hR1_some).symm, by decide, treeBelowB_sound _ _ _ (by decide), by decide,
    by decide, by decide, by decide, ?_, by decide, by decide, by decide⟩
  intro a ha b hb hae hbe
  simp at ha hb
  rcases ha with rfl | rfl <;> rcases hb with rfl | rfl <;> first | rfl | (simp [tX, tX'] at hae hbe)

theorem rooted_hR1 : rootedAvoid hR1.doc (tX' :: (copyBody hR1.doc copyFuel tX' eX1.body).2.map (·.1)) 63 tA = true := by
  decide

end Restored

end Yorkie.Undo
