/- helper lemmas for the cache wrappers (C20, secondary part) -/
import YorkieModel.Model.Lru
namespace Yorkie.Lru
variable {K V : Type} [DecidableEq K]

/-- every cached entry sits in the shard of its key and is the reference map's entry -/
def Inv (c : Cache K V) (m : K → Option V) : Prop :=
  ∀ i k v, (k, v) ∈ c.shards i → i = c.shardOf k ∧ m k = some v

theorem mem_touch {l : List (K × V)} {k k' : K} {v v' : V} (h : (k', v') ∈ touch l k v) :
    (k' = k ∧ v' = v) ∨ (k' ≠ k ∧ (k', v') ∈ l) := by
  unfold touch at h
  rcases List.mem_cons.mp h with h | h
  · injection h with h1 h2; exact Or.inl ⟨h1, h2⟩
  · have := List.mem_filter.mp h
    exact Or.inr ⟨by simpa using this.2, this.1⟩

theorem lookup_mem {c : Cache K V} {k : K} {v : V} (h : c.lookup k = some v) :
    (k, v) ∈ c.shards (c.shardOf k) := by
  unfold Cache.lookup at h
  cases hf : (c.shards (c.shardOf k)).find? (fun p => p.1 = k) with
  | none => rw [hf] at h; simp at h
  | some p =>
    rw [hf] at h
    simp only [Option.map_some, Option.some.injEq] at h
    have hk : p.1 = k := by simpa using List.find?_some hf
    have := List.mem_of_find?_eq_some hf
    subst hk; subst h; exact this

omit [DecidableEq K] in
theorem inv_empty (cap : Nat) (shardOf : K → Nat) (m : K → Option V) : Inv (Cache.empty cap shardOf : Cache K V) m := by
  intro i k v h; simp [Cache.empty] at h

theorem inv_step {c : Cache K V} {m : K → Option V} (h : Inv c m) (op : Op K V) :
    Inv (step c op).1 (refStep m op) := by
  intro i k' v' hm
  cases op with
  | add k v =>
    simp only [step, Cache.add, Cache.onShard] at hm ⊢
    simp only [refStep]
    split at hm
    · rename_i hi
      rcases mem_touch (List.mem_of_mem_take hm) with ⟨h1, h2⟩ | ⟨h1, h2⟩
      · rw [if_pos h1, h2, h1]; exact ⟨hi, rfl⟩
      · rw [if_neg h1]; exact h i k' v' h2
    · rename_i hi
      have := h i k' v' hm
      have hk : k' ≠ k := by intro e; rw [e] at this; exact hi this.1
      rw [if_neg hk]; exact this
  | get k =>
    simp only [step, Cache.get, refStep] at hm ⊢
    split at hm
    · rename_i v hv
      simp only [Cache.onShard] at hm ⊢
      split at hm
      · rename_i hi
        rcases mem_touch hm with ⟨h1, h2⟩ | ⟨h1, h2⟩
        · rw [h1, h2]; exact ⟨hi, (h _ k v (lookup_mem hv)).2⟩
        · exact h i k' v' h2
      · exact h i k' v' hm
    · exact h i k' v' hm
  | peek k => exact h i k' v' hm
  | remove k =>
    simp only [step, Cache.remove, Cache.onShard] at hm ⊢
    simp only [refStep]
    split at hm
    · have hf := List.mem_filter.mp hm
      have hk : k' ≠ k := by simpa using hf.2
      rw [if_neg hk]; exact h i k' v' hf.1
    · rename_i hi
      have := h i k' v' hm
      have hk : k' ≠ k := by intro e; rw [e] at this; exact hi this.1
      rw [if_neg hk]; exact this
  | purge => simp [step, Cache.purge] at hm
  | drop keep =>
    simp only [step, Cache.drop] at hm ⊢
    exact h i k' v' (List.mem_filter.mp hm).1

theorem inv_run (ops : List (Op K V)) : ∀ {c : Cache K V} {m : K → Option V}, Inv c m →
    Inv (run c ops) (ref m ops) := by
  induction ops with
  | nil => intro c m h; exact h
  | cons op ops ih => intro c m h; exact ih (inv_step h op)

/-! ### snapshot cache -/
variable {D C : Type}

theorem closest_spec (init : D) (snaps : List (Nat × D)) (k : Nat) :
    closest init snaps k = (0, init) ∨ (closest init snaps k ∈ snaps ∧ (closest init snaps k).1 ≤ k) := by
  unfold closest
  suffices ∀ (best : Nat × D), (best = (0, init) ∨ (best ∈ snaps ∧ best.1 ≤ k)) →
      ∀ (l : List (Nat × D)), (∀ s ∈ l, s ∈ snaps) →
      (l.foldl (fun best s => if s.1 ≤ k ∧ best.1 ≤ s.1 then s else best) best = (0, init) ∨
       (l.foldl (fun best s => if s.1 ≤ k ∧ best.1 ≤ s.1 then s else best) best ∈ snaps ∧
        (l.foldl (fun best s => if s.1 ≤ k ∧ best.1 ≤ s.1 then s else best) best).1 ≤ k)) from
    this (0, init) (Or.inl rfl) snaps (fun _ h => h)
  intro best hb l
  induction l generalizing best with
  | nil => intro _; exact hb
  | cons s l ih =>
    intro hl
    rw [List.foldl_cons]
    apply ih _ _ (fun x hx => hl x (List.mem_cons_of_mem _ hx))
    split
    · rename_i hc
      exact Or.inr ⟨hl s (List.mem_cons_self ..), hc.1⟩
    · exact hb

/-- applying the changes `(k0, k]` to the cold document of `k0` gives the cold document of `k` -/
theorem cold_resume (apply : D → C → D) (init : D) (log : List C) (k0 k : Nat) (h : k0 ≤ k) :
    ((log.drop k0).take (k - k0)).foldl apply (cold apply init log k0) = cold apply init log k := by
  unfold cold
  rw [← List.foldl_append]
  congr 1
  have : k = k0 + (k - k0) := by omega
  conv => rhs; rw [this, List.take_add]

theorem cold_append (apply : D → C → D) (init : D) (log cs : List C) (k : Nat) (h : k ≤ log.length) :
    cold apply init (log ++ cs) k = cold apply init log k := by
  unfold cold
  rw [List.take_append_of_le_length h]

/-- every stored or cached document is the cold rebuild of its sequence number -/
def SnapInv (apply : D → C → D) (init : D) (w : SnapWorld D C) : Prop :=
  (∀ s ∈ w.snaps, s.1 ≤ w.log.length ∧ s.2 = cold apply init w.log s.1) ∧
  (∀ s, w.cached = some s → s.1 ≤ w.log.length ∧ s.2 = cold apply init w.log s.1)

theorem build_spec (apply : D → C → D) (init : D) (w : SnapWorld D C) (h : SnapInv apply init w) (k : Nat)
    (hk : k ≤ w.log.length) :
    (build apply init w k).2 = cold apply init w.log k ∧ SnapInv apply init (build apply init w k).1 := by
  have hstart : ∀ st : Nat × D, (st = (0, init) ∨ (st ∈ w.snaps ∧ st.1 ≤ k) ∨ (w.cached = some st ∧ st.1 ≤ k)) →
      ((w.log.drop st.1).take (k - st.1)).foldl apply st.2 = cold apply init w.log k := by
    intro st hst
    rcases hst with rfl | ⟨hs, hle⟩ | ⟨hs, hle⟩
    · have := cold_resume apply init w.log 0 k (Nat.zero_le _)
      simp [cold] at this ⊢
    · rw [(h.1 st hs).2]; exact cold_resume apply init w.log st.1 k hle
    · rw [(h.2 st hs).2]; exact cold_resume apply init w.log st.1 k hle
  have hcl : ∀ k, closest init w.snaps k = (0, init) ∨ (closest init w.snaps k ∈ w.snaps ∧ (closest init w.snaps k).1 ≤ k) ∨
      (w.cached = some (closest init w.snaps k) ∧ (closest init w.snaps k).1 ≤ k) := by
    intro k
    rcases closest_spec init w.snaps k with h | h
    · exact Or.inl h
    · exact Or.inr (Or.inl h)
  have hdoc : (build apply init w k).2 = cold apply init w.log k := by
    unfold build
    simp only []
    split
    · rename_i k0 d0 hc
      split
      · exact hstart _ (hcl k)
      · rename_i hlt
        exact hstart (k0, d0) (Or.inr (Or.inr ⟨hc, by simp only []; omega⟩))
    · exact hstart _ (hcl k)
  refine ⟨hdoc, ?_⟩
  refine ⟨h.1, ?_⟩
  intro s hs
  have : (build apply init w k).1.cached = some (k, (build apply init w k).2) := rfl
  rw [this] at hs
  injection hs with hs
  rw [← hs]
  exact ⟨hk, hdoc⟩

theorem snapInv_step (apply : D → C → D) (init : D) (w : SnapWorld D C) (h : SnapInv apply init w)
    (op : SnapOp C) : SnapInv apply init (snapStep apply init w op) := by
  cases op with
  | push cs =>
    simp only [snapStep]
    refine ⟨?_, ?_⟩
    · intro s hs
      have := h.1 s hs
      exact ⟨by simp only [List.length_append]; omega, by rw [cold_append apply init w.log cs s.1 this.1]; exact this.2⟩
    · intro s hs
      have := h.2 s hs
      exact ⟨by simp only [List.length_append]; omega, by rw [cold_append apply init w.log cs s.1 this.1]; exact this.2⟩
  | build k => exact (build_spec apply init w h _ (Nat.min_le_right _ _)).2
  | evict => exact ⟨h.1, by intro s hs; simp [snapStep] at hs⟩
  | storeSnapshot =>
    simp only [snapStep]
    refine ⟨?_, h.2⟩
    intro s hs
    rcases List.mem_cons.mp hs with rfl | hs
    · exact ⟨Nat.le_refl _, rfl⟩
    · exact h.1 s hs

theorem snapInv_run (apply : D → C → D) (init : D) (ops : List (SnapOp C)) : ∀ (w : SnapWorld D C),
    SnapInv apply init w → SnapInv apply init (snapRun apply init w ops) := by
  induction ops with
  | nil => intro w h; exact h
  | cons op ops ih => intro w h; exact ih _ (snapInv_step apply init w h op)

end Yorkie.Lru
