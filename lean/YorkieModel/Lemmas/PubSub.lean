/-
Invariants of the pub/sub transition system (Model/PubSub.lean) used by Props/C17.lean.
-/
import YorkieModel.Model.PubSub
namespace Yorkie.PubSub

/-! ### the transitions, one constructor per critical section

`Tr s s'` lists every way `stepCore` can change the state, with the guard of each case as
hypotheses and the new state as an explicit term.  All invariants are proved by cases on `Tr`.
-/

/-- transitions of `publish()` that only move its program counter -/
inductive LoopMove (s : State) (o : Nat) : Loop → Loop → Prop
  | snap (f evs pick) :
      LoopMove s o (.snap f evs) (Loop.nextSub pick f evs (s.objs o).members [])
  | isDeadDead (f evs c todo dead pick) (h : (s.subs c).closed = true) :
      LoopMove s o (.isDead f evs c todo dead) (Loop.nextSub pick f evs todo (dead ++ [c]))
  | isDeadLive (f evs c todo dead pick) (h : (s.subs c).closed = false) :
      LoopMove s o (.isDead f evs c todo dead)
        (Loop.nextEvent pick f evs c (relevant evs (s.subs c).owner) todo dead)
  | sendNil (f evs c todo dead pick) :
      LoopMove s o (.send f evs c [] todo dead) (Loop.nextSub pick f evs todo dead)
  | isDead2Dead (f evs c rest todo dead pick) (h : (s.subs c).closed = true) :
      LoopMove s o (.isDead2 f evs c rest todo dead) (Loop.nextSub pick f evs todo (dead ++ [c]))
  | isDead2Live (f evs c rest todo dead pick) (h : (s.subs c).closed = false) :
      LoopMove s o (.isDead2 f evs c rest todo dead) (Loop.nextEvent pick f evs c rest todo dead)
  | reapNil (f) : LoopMove s o (.reap f []) (Loop.finish f)

inductive Tr (s : State) : State → Prop
  | stutter : Tr s s
  | startSub (a l m : Nat) :
      Tr s { s.setOp s.nOps (.subscribe a l m .upsert) with nOps := s.nOps + 1 }
  | startUnsub (sid : Nat) (h : sid < s.nSubs) :
      Tr s { s.setOp s.nOps (.unsubscribe sid .close) with nOps := s.nOps + 1 }
  | startPub (e : Event) :
      Tr s { s.setOp s.nOps (.publish e s.nSubs 0 0 .get) with nOps := s.nOps + 1 }
  /-- a Subscribe call moves its program counter without touching shared state
  (limit rejection, `ClientIDs`) -/
  | subPc (k a l m : Nat) (pc pc' : SubPc) (hop : s.ops k = .subscribe a l m pc) :
      Tr s (s.setOp k (.subscribe a l m pc'))
  /-- Upsert into the existing `Subscriptions` object -/
  | upsertOld (k a l m o : Nat) (pc' : SubPc) (hop : s.ops k = .subscribe a l m .upsert)
      (he : s.entry = some o) :
      Tr s ({ (s.setSub s.nSubs { owner := a, maxFailures := m, home := o }).setObj o
                { s.objs o with members := (s.objs o).members ++ [s.nSubs] } with
              nSubs := s.nSubs + 1 }.setOp k (.subscribe a l m pc'))
  /-- Upsert creating a new `Subscriptions` object (and its process loop) -/
  | upsertNew (k a l m : Nat) (pc' : SubPc) (hop : s.ops k = .subscribe a l m .upsert)
      (he : s.entry = none) :
      Tr s ({ (s.setSub s.nSubs { owner := a, maxFailures := m, home := s.nObjs }).setObj s.nObjs
                { members := [s.nSubs] } with
              nSubs := s.nSubs + 1, nObjs := s.nObjs + 1, entry := some s.nObjs }.setOp k
                (.subscribe a l m pc'))
  | unsubClose (k sid : Nat) (hop : s.ops k = .unsubscribe sid .close) :
      Tr s ((s.closeSub sid).setOp k (.unsubscribe sid .get))
  | unsubGetNone (k sid : Nat) (hop : s.ops k = .unsubscribe sid .get) (he : s.entry = none) :
      Tr s (s.setOp k (.unsubscribe sid .done))
  | unsubGetSome (k sid p : Nat) (hop : s.ops k = .unsubscribe sid .get) (he : s.entry = some p) :
      Tr s (s.setOp k (.unsubscribe sid (.delete p)))
  | unsubDelete (k sid p : Nat) (hop : s.ops k = .unsubscribe sid (.delete p)) :
      Tr s ((s.deleteMember p sid).setOp k (.unsubscribe sid .mapDelete))
  | unsubMapNone (k sid : Nat) (hop : s.ops k = .unsubscribe sid .mapDelete) (he : s.entry = none) :
      Tr s (s.setOp k (.unsubscribe sid .done))
  | unsubMapKeep (k sid o : Nat) (hop : s.ops k = .unsubscribe sid .mapDelete)
      (he : s.entry = some o) (hl : 0 < (s.objs o).members.length) :
      Tr s (s.setOp k (.unsubscribe sid .done))
  | unsubMapClose (k sid o : Nat) (hop : s.ops k = .unsubscribe sid .mapDelete)
      (he : s.entry = some o) (hl : (s.objs o).members = []) :
      Tr s (({ s.setObj o { s.objs o with closed := true } with
               panicPub := s.panicPub || (s.objs o).closed, entry := none } : State).setOp k
             (.unsubscribe sid .done))
  | pubGetNone (k : Nat) (e : Event) (n0 t1 t2 : Nat) (hop : s.ops k = .publish e n0 t1 t2 .get)
      (he : s.entry = none) :
      Tr s (s.setOp k (.publish e n0 t1 t2 (.done none)))
  | pubGetSome (k : Nat) (e : Event) (n0 t1 t2 p : Nat) (hop : s.ops k = .publish e n0 t1 t2 .get)
      (he : s.entry = some p) :
      Tr s (s.setOp k (.publish e n0 t1 t2 (.enqueue p)))
  | pubEnqueue (k : Nat) (e : Event) (n0 t1 t2 p : Nat)
      (hop : s.ops k = .publish e n0 t1 t2 (.enqueue p)) :
      Tr s ((s.setObj p { s.objs p with
                batch := enqueue (s.objs p).batch e,
                lateEnq := (if (s.objs p).closed then (s.objs p).lateEnq + 1 else (s.objs p).lateEnq) }).setOp k
             (.publish e n0 s.clock (s.objs p).takes (.done (some p))))
  | tick (o : Nat) (ho : o < s.nObjs) (hl : (s.objs o).loop = .wait) :
      Tr s (s.setLoop o (.take false))
  | wake (o : Nat) (ho : o < s.nObjs) (hl : (s.objs o).loop = .wait) (hc : (s.objs o).closed = true) :
      Tr s (s.setLoop o (.take true))
  | loopTake (o : Nat) (f : Bool) (ho : o < s.nObjs) (hl : (s.objs o).loop = .take f) :
      Tr s (s.setObj o { s.objs o with batch := [], takes := (s.objs o).takes + 1,
                                        loop := .snap f (s.objs o).batch })
  | loopMove (o : Nat) (l l' : Loop) (ho : o < s.nObjs) (hl : (s.objs o).loop = l)
      (hm : LoopMove s o l l') :
      Tr s (s.setLoop o l')
  | loopSend (o : Nat) (f : Bool) (evs : List Event) (c : Nat) (e : Event) (rest : List Event)
      (todo dead : List Nat) (pick : Nat) (ho : o < s.nObjs)
      (hl : (s.objs o).loop = .send f evs c (e :: rest) todo dead) :
      Tr s (({ s.setSub c ((s.subs c).publish e s.clock).1 with
               panicSub := s.panicSub || ((s.subs c).publish e s.clock).2.2 } : State).setLoop o
             (if ((s.subs c).publish e s.clock).2.1 then Loop.nextEvent pick f evs c rest todo dead
              else .isDead2 f evs c rest todo dead))
  | loopReap (o : Nat) (f : Bool) (d : Nat) (dead : List Nat) (ho : o < s.nObjs)
      (hl : (s.objs o).loop = .reap f (d :: dead)) :
      Tr s ((s.deleteMember o d).setLoop o (Loop.afterSubs f dead))
  | consume (sid : Nat) (e : Event) (rest : List Event) (hb : (s.subs sid).buffer = e :: rest) :
      Tr s (s.setSub sid { s.subs sid with buffer := rest, lastConsume := s.clock })

theorem stepSubscribe_tr (s : State) (k a l m : Nat) (pc : SubPc) (hop : s.ops k = .subscribe a l m pc) :
    Tr s (stepSubscribe s k a l m pc) := by
  cases pc with
  | upsert =>
    simp only [stepSubscribe]
    split
    · rename_i o he
      split
      · exact Tr.subPc k a l m _ _ hop
      · exact Tr.upsertOld k a l m o _ hop he
    · rename_i he
      exact Tr.upsertNew k a l m _ hop he
  | idsGet sid => simp only [stepSubscribe]; split <;> exact Tr.subPc k a l m _ _ hop
  | idsVals sid p => exact Tr.subPc k a l m _ _ hop
  | done r => exact Tr.stutter

theorem stepUnsubscribe_tr (s : State) (k sid : Nat) (pc : UnsubPc) (hop : s.ops k = .unsubscribe sid pc) :
    Tr s (stepUnsubscribe s k sid pc) := by
  cases pc with
  | close => exact Tr.unsubClose k sid hop
  | get =>
    simp only [stepUnsubscribe]
    split
    · rename_i he; exact Tr.unsubGetNone k sid hop he
    · rename_i p he; exact Tr.unsubGetSome k sid p hop he
  | delete p => exact Tr.unsubDelete k sid p hop
  | mapDelete =>
    simp only [stepUnsubscribe]
    split
    · rename_i he; exact Tr.unsubMapNone k sid hop he
    · rename_i o he
      split
      · rename_i hl; exact Tr.unsubMapKeep k sid o hop he hl
      · rename_i hl
        have : (s.objs o).members = [] := by
          cases hm : (s.objs o).members with
          | nil => rfl
          | cons a b => simp [hm] at hl
        exact Tr.unsubMapClose k sid o hop he this
  | done => exact Tr.stutter

theorem stepPublish_tr (s : State) (k : Nat) (e : Event) (n0 t1 t2 : Nat) (pc : PubPc)
    (hop : s.ops k = .publish e n0 t1 t2 pc) : Tr s (stepPublish s k e n0 t1 t2 pc) := by
  cases pc with
  | get =>
    simp only [stepPublish]
    split
    · rename_i he; exact Tr.pubGetNone k e n0 t1 t2 hop he
    · rename_i p he; exact Tr.pubGetSome k e n0 t1 t2 p hop he
  | enqueue p => exact Tr.pubEnqueue k e n0 t1 t2 p hop
  | done t => exact Tr.stutter

theorem stepLoop_tr (s : State) (o pick : Nat) (ho : o < s.nObjs) : Tr s (stepLoop s o pick) := by
  unfold stepLoop
  split
  · exact Tr.stutter
  · exact Tr.stutter
  · rename_i f hl; exact Tr.loopTake o f ho hl
  · rename_i f evs hl; exact Tr.loopMove o _ _ ho hl (.snap f evs pick)
  · rename_i f evs c todo dead hl
    split
    · rename_i hc; exact Tr.loopMove o _ _ ho hl (.isDeadDead f evs c todo dead pick hc)
    · rename_i hc; exact Tr.loopMove o _ _ ho hl (.isDeadLive f evs c todo dead pick (by simpa using hc))
  · rename_i f evs c todo dead hl; exact Tr.loopMove o _ _ ho hl (.sendNil f evs c todo dead pick)
  · rename_i f evs c e rest todo dead hl
    have := Tr.loopSend o f evs c e rest todo dead pick ho hl
    simp only []
    split
    · rename_i hok; simpa [hok] using this
    · rename_i hok; simpa [hok] using this
  · rename_i f evs c rest todo dead hl
    split
    · rename_i hc; exact Tr.loopMove o _ _ ho hl (.isDead2Dead f evs c rest todo dead pick hc)
    · rename_i hc; exact Tr.loopMove o _ _ ho hl (.isDead2Live f evs c rest todo dead pick (by simpa using hc))
  · rename_i f hl; exact Tr.loopMove o _ _ ho hl (.reapNil f)
  · rename_i f d dead hl; exact Tr.loopReap o f d dead ho hl

theorem stepCore_tr (s : State) (l : Label) : Tr s (stepCore s l) := by
  cases l with
  | startSub a l m => exact Tr.startSub a l m
  | startUnsub sid =>
    simp only [stepCore]
    split
    · rename_i h; exact Tr.startUnsub sid h
    · exact Tr.stutter
  | startPub e => exact Tr.startPub e
  | op k =>
    simp only [stepCore, stepOp]
    split
    · exact Tr.stutter
    · rename_i a l m pc hop; exact stepSubscribe_tr s k a l m pc hop
    · rename_i sid pc hop; exact stepUnsubscribe_tr s k sid pc hop
    · rename_i e n0 t1 t2 pc hop; exact stepPublish_tr s k e n0 t1 t2 pc hop
  | tick o =>
    simp only [stepCore, stepTick]
    split
    · rename_i hl
      split
      · rename_i ho; exact Tr.tick o ho hl
      · exact Tr.stutter
    · exact Tr.stutter
  | wake o =>
    simp only [stepCore, stepWake]
    split
    · rename_i hl
      split
      · rename_i ho; exact Tr.wake o ho.1 hl ho.2
      · exact Tr.stutter
    · exact Tr.stutter
  | loop o pick =>
    simp only [stepCore]
    split
    · rename_i ho; exact stepLoop_tr s o pick ho
    · exact Tr.stutter
  | consume sid =>
    simp only [stepCore, stepConsume]
    split
    · exact Tr.stutter
    · rename_i e rest hb; exact Tr.consume sid e rest hb

/-! ### channel discipline -/

/-- the Go channel of a subscription is closed exactly when the `closed` flag is set, and no
send/close ever hit a closed subscription channel -/
def ChanInv (s : State) : Prop :=
  s.panicSub = false ∧ ∀ i, (s.subs i).chanClosed = (s.subs i).closed

theorem Sub.close_chan (x : Sub) (h : x.chanClosed = x.closed) :
    x.close.2 = false ∧ x.close.1.chanClosed = x.close.1.closed := by
  unfold Sub.close
  split <;> simp_all

theorem Sub.publish_chan (x : Sub) (e : Event) (now : Nat) (h : x.chanClosed = x.closed) :
    (x.publish e now).2.2 = false ∧ (x.publish e now).1.chanClosed = (x.publish e now).1.closed := by
  unfold Sub.publish
  split
  · simp_all
  · split
    · simp_all
    · split
      · simp_all
      · split <;> simp_all

theorem closeSub_chan (s : State) (i : Nat) (h : ChanInv s) : ChanInv (s.closeSub i) := by
  obtain ⟨h1, h2⟩ := h
  have := Sub.close_chan (s.subs i) (h2 i)
  refine ⟨by simp [State.closeSub, h1, this.1], ?_⟩
  intro j
  simp only [State.closeSub, State.setSub]
  split
  · exact this.2
  · exact h2 j

theorem deleteMember_chan (s : State) (o i : Nat) (h : ChanInv s) : ChanInv (s.deleteMember o i) := by
  unfold State.deleteMember
  split
  · exact closeSub_chan s i h
  · exact h

theorem chan_tr {s s' : State} (htr : Tr s s') (h : ChanInv s) : ChanInv s' := by
  cases htr <;> try exact h
  case upsertOld k a l m o pc' hop he =>
    refine ⟨h.1, fun j => ?_⟩
    show (if j = s.nSubs then _ else s.subs j).chanClosed = (if j = s.nSubs then _ else s.subs j).closed
    split
    · rfl
    · exact h.2 j
  case upsertNew k a l m pc' hop he =>
    refine ⟨h.1, fun j => ?_⟩
    show (if j = s.nSubs then _ else s.subs j).chanClosed = (if j = s.nSubs then _ else s.subs j).closed
    split
    · rfl
    · exact h.2 j
  case unsubClose k sid hop => exact closeSub_chan s sid h
  case unsubDelete k sid p hop => exact deleteMember_chan s p sid h
  case loopSend o f evs c e rest todo dead pick ho hl =>
    have := Sub.publish_chan (s.subs c) e s.clock (h.2 c)
    refine ⟨by simp [State.setLoop, h.1, this.1], fun j => ?_⟩
    show (if j = c then _ else s.subs j).chanClosed = (if j = c then _ else s.subs j).closed
    split
    · exact this.2
    · exact h.2 j
  case loopReap o f d dead ho hl => exact deleteMember_chan s o d h
  case consume sid e rest hb =>
    refine ⟨h.1, fun j => ?_⟩
    show (if j = sid then _ else s.subs j).chanClosed = (if j = sid then _ else s.subs j).closed
    split
    · exact h.2 sid
    · exact h.2 j


/-! ### frame lemmas for the compound updates -/

@[simp] theorem closeSub_entry (s : State) (i : Nat) : (s.closeSub i).entry = s.entry := rfl
@[simp] theorem closeSub_objs (s : State) (i : Nat) : (s.closeSub i).objs = s.objs := rfl
@[simp] theorem closeSub_nObjs (s : State) (i : Nat) : (s.closeSub i).nObjs = s.nObjs := rfl
@[simp] theorem closeSub_nSubs (s : State) (i : Nat) : (s.closeSub i).nSubs = s.nSubs := rfl
@[simp] theorem closeSub_ops (s : State) (i : Nat) : (s.closeSub i).ops = s.ops := rfl
@[simp] theorem closeSub_nOps (s : State) (i : Nat) : (s.closeSub i).nOps = s.nOps := rfl
@[simp] theorem closeSub_clock (s : State) (i : Nat) : (s.closeSub i).clock = s.clock := rfl
@[simp] theorem closeSub_panicPub (s : State) (i : Nat) : (s.closeSub i).panicPub = s.panicPub := rfl
theorem closeSub_subs (s : State) (i j : Nat) :
    (s.closeSub i).subs j = if j = i then (s.subs i).close.1 else s.subs j := rfl

@[simp] theorem deleteMember_entry (s : State) (o i : Nat) : (s.deleteMember o i).entry = s.entry := by
  unfold State.deleteMember; split <;> rfl
@[simp] theorem deleteMember_nObjs (s : State) (o i : Nat) : (s.deleteMember o i).nObjs = s.nObjs := by
  unfold State.deleteMember; split <;> rfl
@[simp] theorem deleteMember_nSubs (s : State) (o i : Nat) : (s.deleteMember o i).nSubs = s.nSubs := by
  unfold State.deleteMember; split <;> rfl
@[simp] theorem deleteMember_ops (s : State) (o i : Nat) : (s.deleteMember o i).ops = s.ops := by
  unfold State.deleteMember; split <;> rfl
@[simp] theorem deleteMember_nOps (s : State) (o i : Nat) : (s.deleteMember o i).nOps = s.nOps := by
  unfold State.deleteMember; split <;> rfl
@[simp] theorem deleteMember_clock (s : State) (o i : Nat) : (s.deleteMember o i).clock = s.clock := by
  unfold State.deleteMember; split <;> rfl
@[simp] theorem deleteMember_panicPub (s : State) (o i : Nat) :
    (s.deleteMember o i).panicPub = s.panicPub := by
  unfold State.deleteMember; split <;> rfl

theorem deleteMember_objs (s : State) (o i j : Nat) :
    (s.deleteMember o i).objs j =
      if j = o then { s.objs o with members := (s.objs o).members.filter (· != i) } else s.objs j := by
  unfold State.deleteMember
  split <;> rfl

theorem deleteMember_subs (s : State) (o i j : Nat) :
    (s.deleteMember o i).subs j =
      if j = i ∧ i ∈ (s.objs o).members then (s.subs i).close.1 else s.subs j := by
  unfold State.deleteMember
  split
  · rename_i h; simp [h, closeSub_subs]
  · rename_i h; simp [h]

/-! facts about `Sub.close` / `Sub.publish` -/

@[simp] theorem Sub.close_closed (x : Sub) : x.close.1.closed = true := by
  unfold Sub.close; split <;> simp_all
@[simp] theorem Sub.close_owner (x : Sub) : x.close.1.owner = x.owner := by
  unfold Sub.close; split <;> rfl
@[simp] theorem Sub.close_home (x : Sub) : x.close.1.home = x.home := by
  unfold Sub.close; split <;> rfl
@[simp] theorem Sub.close_buffer (x : Sub) : x.close.1.buffer = x.buffer := by
  unfold Sub.close; split <;> rfl
@[simp] theorem Sub.close_lastConsume (x : Sub) : x.close.1.lastConsume = x.lastConsume := by
  unfold Sub.close; split <;> rfl

@[simp] theorem Sub.publish_owner (x : Sub) (e : Event) (now : Nat) :
    (x.publish e now).1.owner = x.owner := by
  unfold Sub.publish; repeat' split
  all_goals rfl
@[simp] theorem Sub.publish_home (x : Sub) (e : Event) (now : Nat) :
    (x.publish e now).1.home = x.home := by
  unfold Sub.publish; repeat' split
  all_goals rfl
@[simp] theorem Sub.publish_lastConsume (x : Sub) (e : Event) (now : Nat) :
    (x.publish e now).1.lastConsume = x.lastConsume := by
  unfold Sub.publish; repeat' split
  all_goals rfl
theorem Sub.publish_closed_mono (x : Sub) (e : Event) (now : Nat) (h : x.closed = true) :
    (x.publish e now).1.closed = true := by
  unfold Sub.publish; simp [h]
/-- (P5) after `Subscription.Publish` returns, the subscription is closed or its buffer holds a
notification: a send either succeeds, or times out because the one-slot buffer is occupied -/
theorem Sub.publish_outcome (x : Sub) (e : Event) (now : Nat) (hc : x.chanClosed = x.closed) :
    (x.publish e now).1.closed = true ∨ (x.publish e now).1.buffer ≠ [] := by
  unfold Sub.publish
  split
  · left; assumption
  · split
    · simp_all
    · split
      · right; simp
      · rename_i hlen
        have hb : x.buffer ≠ [] := by
          intro hb; simp [hb, bufCap] at hlen
        split
        · left; rfl
        · right; exact hb
/-- a closed subscription's buffer never grows -/
theorem Sub.publish_closed_buffer (x : Sub) (e : Event) (now : Nat) (h : x.closed = true) :
    (x.publish e now).1.buffer = x.buffer := by
  unfold Sub.publish; simp [h]

/-! ### structural invariants -/

/-- normalise projections of the updated state -/
macro "st_norm" : tactic =>
  `(tactic| try simp only [State.setOp, State.setObj, State.setSub, State.setLoop,
      closeSub_entry, closeSub_objs, closeSub_nObjs, closeSub_nSubs, closeSub_ops, closeSub_nOps,
      closeSub_clock, closeSub_panicPub, closeSub_subs,
      deleteMember_entry, deleteMember_nObjs, deleteMember_nSubs, deleteMember_ops,
      deleteMember_nOps, deleteMember_clock, deleteMember_panicPub, deleteMember_objs,
      deleteMember_subs] at *)

/-- structural invariants (F.5 P1, P2 and well-formedness) -/
structure Inv (s : State) : Prop where
  /-- (P1) the object in the map is open … -/
  entryOpen : ∀ o, s.entry = some o → o < s.nObjs ∧ (s.objs o).closed = false
  /-- (P1) … and every other object ever created has been closed -/
  otherClosed : ∀ o, o < s.nObjs → s.entry ≠ some o → (s.objs o).closed = true
  closedEmpty : ∀ o, (s.objs o).closed = true → (s.objs o).members = []
  freshEmpty : ∀ o, s.nObjs ≤ o → (s.objs o).members = []
  memRange : ∀ o i, i ∈ (s.objs o).members → i < s.nSubs
  memHome : ∀ o i, i ∈ (s.objs o).members → (s.subs i).home = o
  homeRange : ∀ i, i < s.nSubs → (s.subs i).home < s.nObjs
  /-- (P2) an open subscription is a member of the object it was added to -/
  openMember : ∀ i, i < s.nSubs → (s.subs i).closed = false → i ∈ (s.objs (s.subs i).home).members
  unsubRange : ∀ k sid pc, s.ops k = .unsubscribe sid pc → sid < s.nSubs
  unsubDel : ∀ k sid p, s.ops k = .unsubscribe sid (.delete p) →
    ∀ o, sid ∈ (s.objs o).members → o = p
  unsubGone : ∀ k sid, (s.ops k = .unsubscribe sid .mapDelete ∨ s.ops k = .unsubscribe sid .done) →
    ∀ o, sid ∉ (s.objs o).members
  noPanicPub : s.panicPub = false

theorem inv_init : Inv init := by
  constructor <;> simp [init]

/-- only the object in the map has members -/
theorem Inv.mem_entry {s : State} (h : Inv s) : ∀ o i, i ∈ (s.objs o).members → s.entry = some o := by
  intro o i hi
  by_cases ho : o < s.nObjs
  · by_cases he : s.entry = some o
    · exact he
    · have := h.closedEmpty o (h.otherClosed o ho he)
      simp [this] at hi
  · have := h.freshEmpty o (by omega)
    simp [this] at hi

theorem entryOpen_tr {s s' : State} (htr : Tr s s') (h : Inv s) :
    ∀ o, s'.entry = some o → o < s'.nObjs ∧ (s'.objs o).closed = false := by
  have := h.entryOpen
  cases htr <;> try exact this
  all_goals st_norm
  all_goals grind

theorem otherClosed_tr {s s' : State} (htr : Tr s s') (h : Inv s) :
    ∀ o, o < s'.nObjs → s'.entry ≠ some o → (s'.objs o).closed = true := by
  have := h.otherClosed
  have := h.entryOpen
  cases htr <;> try exact h.otherClosed
  all_goals st_norm
  all_goals grind


theorem closedEmpty_tr {s s' : State} (htr : Tr s s') (h : Inv s) :
    ∀ o, (s'.objs o).closed = true → (s'.objs o).members = [] := by
  have := h.closedEmpty
  have := h.entryOpen
  cases htr <;> try exact h.closedEmpty
  all_goals st_norm
  all_goals grind

theorem freshEmpty_tr {s s' : State} (htr : Tr s s') (h : Inv s) :
    ∀ o, s'.nObjs ≤ o → (s'.objs o).members = [] := by
  have := h.freshEmpty
  have := h.entryOpen
  cases htr <;> try exact h.freshEmpty
  all_goals st_norm
  all_goals grind

theorem memRange_tr {s s' : State} (htr : Tr s s') (h : Inv s) :
    ∀ o i, i ∈ (s'.objs o).members → i < s'.nSubs := by
  have := h.memRange
  cases htr <;> try exact h.memRange
  all_goals st_norm
  all_goals grind

theorem memHome_tr {s s' : State} (htr : Tr s s') (h : Inv s) :
    ∀ o i, i ∈ (s'.objs o).members → (s'.subs i).home = o := by
  have := h.memHome
  have := h.memRange
  cases htr <;> try exact h.memHome
  all_goals st_norm
  all_goals grind [Sub.close_home, Sub.publish_home]

theorem homeRange_tr {s s' : State} (htr : Tr s s') (h : Inv s) :
    ∀ i, i < s'.nSubs → (s'.subs i).home < s'.nObjs := by
  have := h.homeRange
  have := h.entryOpen
  cases htr <;> try exact h.homeRange
  all_goals st_norm
  all_goals grind [Sub.close_home, Sub.publish_home]

theorem openMember_tr {s s' : State} (htr : Tr s s') (h : Inv s) :
    ∀ i, i < s'.nSubs → (s'.subs i).closed = false → i ∈ (s'.objs (s'.subs i).home).members := by
  have := h.openMember
  have := h.homeRange
  have := h.entryOpen
  cases htr <;> try exact h.openMember
  all_goals st_norm
  all_goals grind [Sub.close_home, Sub.publish_home, Sub.close_closed, Sub.publish_closed_mono]

theorem unsubRange_tr {s s' : State} (htr : Tr s s') (h : Inv s) :
    ∀ k sid pc, s'.ops k = .unsubscribe sid pc → sid < s'.nSubs := by
  have := h.unsubRange
  cases htr <;> try exact h.unsubRange
  all_goals st_norm
  all_goals grind

theorem unsubDel_tr {s s' : State} (htr : Tr s s') (h : Inv s) :
    ∀ k sid p, s'.ops k = .unsubscribe sid (.delete p) → ∀ o, sid ∈ (s'.objs o).members → o = p := by
  have := h.unsubDel
  have := h.unsubRange
  have := h.mem_entry
  have := h.memRange
  cases htr <;> try exact h.unsubDel
  all_goals st_norm
  all_goals grind

theorem unsubGone_tr {s s' : State} (htr : Tr s s') (h : Inv s) :
    ∀ k sid, (s'.ops k = .unsubscribe sid .mapDelete ∨ s'.ops k = .unsubscribe sid .done) →
      ∀ o, sid ∉ (s'.objs o).members := by
  have := h.unsubGone
  have := h.unsubDel
  have := h.unsubRange
  have := h.mem_entry
  have := h.memRange
  cases htr <;> try exact h.unsubGone
  all_goals st_norm
  all_goals grind

theorem noPanicPub_tr {s s' : State} (htr : Tr s s') (h : Inv s) : s'.panicPub = false := by
  have := h.noPanicPub
  have := h.entryOpen
  cases htr <;> try exact h.noPanicPub
  all_goals st_norm
  all_goals grind

theorem inv_tr {s s' : State} (htr : Tr s s') (h : Inv s) : Inv s' :=
  ⟨entryOpen_tr htr h, otherClosed_tr htr h, closedEmpty_tr htr h, freshEmpty_tr htr h, memRange_tr htr h, memHome_tr htr h,
   homeRange_tr htr h, openMember_tr htr h, unsubRange_tr htr h, unsubDel_tr htr h, unsubGone_tr htr h,
   noPanicPub_tr htr h⟩


/-! ### no leak -/

/-- the object in the map has a subscriber that has not finished unsubscribing -/
def EntryOwner (s : State) : Prop :=
  ∀ o, s.entry = some o →
    ∃ sid, sid < s.nSubs ∧ (s.subs sid).home = o ∧ ∀ k, s.ops k ≠ .unsubscribe sid .done

theorem entryOwner_tr {s s' : State} (htr : Tr s s') (h : Inv s) (ho : EntryOwner s) : EntryOwner s' := by
  have h1 := h.unsubRange
  have h2 := h.unsubGone
  have h3 := h.memRange
  have h4 := h.memHome
  unfold EntryOwner at ho ⊢
  cases htr <;> try exact ho
  case unsubMapKeep k sid o hop he hl =>
    intro o' he'
    have : o' = o := by simp_all
    subst this
    obtain ⟨m, hm⟩ : ∃ m, m ∈ (s.objs o').members := by
      cases hmm : (s.objs o').members with
      | nil => simp [hmm] at hl
      | cons a b => exact ⟨a, by simp⟩
    refine ⟨m, h3 _ _ hm, h4 _ _ hm, ?_⟩
    intro k'
    st_norm
    grind
  all_goals st_norm
  all_goals intro o' he'
  case upsertNew k a l m pc' hop he =>
    refine ⟨s.nSubs, by omega, by simp_all, ?_⟩
    grind
  all_goals first
    | (exact absurd he' (by simp))
    | (obtain ⟨w, hw1, hw2, hw3⟩ := ho o' he'
       refine ⟨w, by first | exact hw1 | omega, ?_, ?_⟩
       · grind [Sub.close_home, Sub.publish_home]
       · grind)
    | grind

/-! ### where a Publish call is routed -/

structure PubInv (s : State) : Prop where
  range : ∀ k e n0 a t pc, s.ops k = .publish e n0 a t pc → n0 ≤ s.nSubs
  /-- the object a Publish call picked up is the home of every subscription that existed when
  the call began and is still open -/
  enq : ∀ k e n0 a t p, s.ops k = .publish e n0 a t (.enqueue p) →
    ∀ i, i < n0 → (s.subs i).closed = false → (s.subs i).home = p
  done : ∀ k e n0 a t tgt, s.ops k = .publish e n0 a t (.done tgt) →
    ∀ i, i < n0 → (s.subs i).closed = false → tgt = some (s.subs i).home

theorem pubInv_init : PubInv init := by constructor <;> simp [init]

theorem pubRange_tr {s s' : State} (htr : Tr s s') (hp : PubInv s) :
    ∀ k e n0 a t pc, s'.ops k = .publish e n0 a t pc → n0 ≤ s'.nSubs := by
  have := hp.range
  cases htr <;> try exact hp.range
  all_goals st_norm
  all_goals grind

theorem pubEnq_tr {s s' : State} (htr : Tr s s') (h : Inv s) (hp : PubInv s) :
    ∀ k e n0 a t p, s'.ops k = .publish e n0 a t (.enqueue p) →
      ∀ i, i < n0 → (s'.subs i).closed = false → (s'.subs i).home = p := by
  have := hp.range
  have := hp.enq
  have := h.openMember
  have := h.mem_entry
  cases htr <;> try exact hp.enq
  all_goals st_norm
  all_goals grind [Sub.close_home, Sub.publish_home, Sub.close_closed, Sub.publish_closed_mono]

theorem pubDone_tr {s s' : State} (htr : Tr s s') (h : Inv s) (hp : PubInv s) :
    ∀ k e n0 a t tgt, s'.ops k = .publish e n0 a t (.done tgt) →
      ∀ i, i < n0 → (s'.subs i).closed = false → tgt = some (s'.subs i).home := by
  have := hp.range
  have := hp.enq
  have := hp.done
  have := h.openMember
  have := h.mem_entry
  cases htr <;> try exact hp.done
  all_goals st_norm
  all_goals grind [Sub.close_home, Sub.publish_home, Sub.close_closed, Sub.publish_closed_mono]

theorem pubInv_tr {s s' : State} (htr : Tr s s') (h : Inv s) (hp : PubInv s) : PubInv s' :=
  ⟨pubRange_tr htr hp, pubEnq_tr htr h hp, pubDone_tr htr h hp⟩

/-! ### the final flush -/

/-- the loop was woken by `closeChan` (or has returned) -/
def Loop.final : Loop → Bool
  | .wait => false
  | .take f => f
  | .snap f _ => f
  | .isDead f .. => f
  | .send f .. => f
  | .isDead2 f .. => f
  | .reap f _ => f
  | .exited => true

/-- the final `publish()` has already taken the batch -/
def Loop.pastFinalTake : Loop → Bool
  | .take _ => false
  | l => l.final

@[simp] theorem Loop.final_finish (f : Bool) : (Loop.finish f).final = f := by
  cases f <;> rfl
@[simp] theorem Loop.final_afterSubs (f : Bool) (dead : List Nat) : (Loop.afterSubs f dead).final = f := by
  cases dead with
  | nil => exact Loop.final_finish f
  | cons => rfl
@[simp] theorem Loop.final_nextSub (p : Nat) (f : Bool) (evs todo dead) :
    (Loop.nextSub p f evs todo dead).final = f := by
  cases todo with
  | nil => exact Loop.final_afterSubs f dead
  | cons => rfl
@[simp] theorem Loop.final_nextEvent (p : Nat) (f : Bool) (evs c rest todo dead) :
    (Loop.nextEvent p f evs c rest todo dead).final = f := by
  cases rest with
  | nil => exact Loop.final_nextSub p f evs todo dead
  | cons => rfl

@[simp] theorem Loop.pft_finish (f : Bool) : (Loop.finish f).pastFinalTake = f := by
  cases f <;> rfl
@[simp] theorem Loop.pft_afterSubs (f : Bool) (dead : List Nat) :
    (Loop.afterSubs f dead).pastFinalTake = f := by
  cases dead with
  | nil => exact Loop.pft_finish f
  | cons => rfl
@[simp] theorem Loop.pft_nextSub (p : Nat) (f : Bool) (evs todo dead) :
    (Loop.nextSub p f evs todo dead).pastFinalTake = f := by
  cases todo with
  | nil => exact Loop.pft_afterSubs f dead
  | cons => rfl
@[simp] theorem Loop.pft_nextEvent (p : Nat) (f : Bool) (evs c rest todo dead) :
    (Loop.nextEvent p f evs c rest todo dead).pastFinalTake = f := by
  cases rest with
  | nil => exact Loop.pft_nextSub p f evs todo dead
  | cons => rfl

theorem LoopMove.final {s : State} {o : Nat} {l l' : Loop} (h : LoopMove s o l l') :
    l'.final = l.final ∧ l'.pastFinalTake = l.pastFinalTake := by
  cases h
  all_goals first
    | exact ⟨by simp; rfl, by simp; rfl⟩
    | exact ⟨by simp, by simp⟩

theorem enqueue_length (b : List Event) (e : Event) : (enqueue b e).length ≤ b.length + 1 := by
  unfold enqueue; split <;> simp

structure FinalInv (s : State) : Prop where
  /-- the `closeChan` case of the select is only taken once the channel is closed -/
  closed : ∀ o, (s.objs o).loop.final = true → (s.objs o).closed = true
  /-- (P4) after the final take, whatever is in the batch was enqueued after `closeChan` was closed -/
  late : ∀ o, (s.objs o).loop.pastFinalTake = true → (s.objs o).batch.length ≤ (s.objs o).lateEnq
  /-- enqueues are counted as late only on a closed publisher -/
  lateClosed : ∀ o, 0 < (s.objs o).lateEnq → (s.objs o).closed = true

theorem finalInv_init : FinalInv init := by constructor <;> simp [init, Loop.final, Loop.pastFinalTake]

theorem finalClosed_tr {s s' : State} (htr : Tr s s') (hf : FinalInv s) :
    ∀ o, (s'.objs o).loop.final = true → (s'.objs o).closed = true := by
  have := hf.closed
  cases htr <;> try exact hf.closed
  case loopMove o l l' ho hl hm =>
    have := hm.final
    st_norm
    grind
  all_goals st_norm
  all_goals grind [Loop.final, Loop.final_afterSubs, Loop.final_nextEvent]

theorem finalLate_tr {s s' : State} (htr : Tr s s') (hf : FinalInv s) :
    ∀ o, (s'.objs o).loop.pastFinalTake = true → (s'.objs o).batch.length ≤ (s'.objs o).lateEnq := by
  have := hf.closed
  have := hf.late
  cases htr <;> try exact hf.late
  case loopMove o l l' ho hl hm =>
    have := hm.final
    st_norm
    grind
  case pubEnqueue k e n0 t1 t2 p hop =>
    have := enqueue_length (s.objs p).batch e
    have hpf : ∀ l : Loop, l.pastFinalTake = true → l.final = true := by
      intro l; cases l <;> simp [Loop.pastFinalTake]
    st_norm
    grind
  all_goals st_norm
  all_goals grind [Loop.final, Loop.pastFinalTake, Loop.pft_afterSubs, Loop.pft_nextEvent]

theorem finalLateClosed_tr {s s' : State} (htr : Tr s s') (hf : FinalInv s) :
    ∀ o, 0 < (s'.objs o).lateEnq → (s'.objs o).closed = true := by
  have := hf.lateClosed
  cases htr <;> try exact hf.lateClosed
  all_goals st_norm
  all_goals grind

theorem finalInv_tr {s s' : State} (htr : Tr s s') (hf : FinalInv s) : FinalInv s' :=
  ⟨finalClosed_tr htr hf, finalLate_tr htr hf, finalLateClosed_tr htr hf⟩

end Yorkie.PubSub
