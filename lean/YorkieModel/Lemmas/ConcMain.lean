/-
Helper lemmas for Model/Conc.lean, part 5: `CInv` is inductive for the small-step relation of
well-behaved runs (`cinv_of_wbReach`).
-/
import YorkieModel.Lemmas.ConcOwn
namespace Yorkie.Conc
open Yorkie Yorkie.Server

/-! ### one request per `pull` key ⇒ different requests have different (client, document) -/

theorem lock_target_ne {s : Server} {g : Ghost} {r1 r2 : InFlight} (h1 : FOk s g r1) (h2 : FOk s g r2)
    (hne : r2.lock ≠ r1.lock) : r2.f.client ≠ r1.f.client ∨ r2.f.doc ≠ r1.f.doc := by
  by_cases hc : r2.f.client = r1.f.client
  · by_cases hd : r2.f.doc = r1.f.doc
    · exfalso
      obtain ⟨d1, hd1, hl1⟩ := h1.hdoc
      obtain ⟨d2, hd2, hl2⟩ := h2.hdoc
      rw [hd, hd1] at hd2; injection hd2 with hd2; subst hd2
      exact hne (by rw [hl1, hl2, hc])
    · exact Or.inr hd
  · exact Or.inl hc

theorem nodup_mid_ne {pre post : List InFlight} {r x : InFlight}
    (h : ((pre ++ r :: post).map (·.lock)).Nodup) (hx : x ∈ pre ∨ x ∈ post) : x.lock ≠ r.lock := by
  simp only [List.map_append, List.map_cons, List.nodup_append, List.nodup_cons] at h
  obtain ⟨_, ⟨h2, _⟩, h3⟩ := h
  rcases hx with hx | hx
  · exact h3 _ (List.mem_map_of_mem hx) _ (List.mem_cons_self ..)
  · intro e; exact h2 (by rw [← e]; exact List.mem_map_of_mem hx)

theorem nodup_mid_rm {pre post : List InFlight} {r : InFlight}
    (h : ((pre ++ r :: post).map (·.lock)).Nodup) : ((pre ++ post).map (·.lock)).Nodup := by
  simp only [List.map_append, List.map_cons, List.nodup_append, List.nodup_cons] at h ⊢
  obtain ⟨h1, ⟨_, h2⟩, h3⟩ := h
  exact ⟨h1, h2, fun a ha b hb => h3 a ha b (List.mem_cons_of_mem _ hb)⟩

/-! ### a phase of one request -/

theorem cinv_phase {σ : Sys} {g : Ghost} {pre post : List InFlight} {r : InFlight} (h : CInv σ g)
    (hf : σ.flights = pre ++ r :: post) (hpc : r.pc ≠ .done)
    (hsnap : (stepFlight σ.srv r).2.f.resp.snapshot = false) :
    CInv { σ with srv := (stepFlight σ.srv r).1, flights := pre ++ (stepFlight σ.srv r).2 :: post } g := by
  have hr : r ∈ σ.flights := by rw [hf]; simp
  have hFr := h.fl r hr (Or.inl hpc)
  obtain ⟨hD', hown, hent⟩ := own_step h.d hFr hpc hsnap
  have hlk := h.locks
  rw [hf] at hlk
  refine ⟨hD', ?_, ?_⟩
  · simp only [List.map_append, List.map_cons, stepFlight_lock]
    simpa using hlk
  · intro x hx ha
    have other : x ∈ pre ∨ x ∈ post → FOk (stepFlight σ.srv r).1 g x := by
      intro hm
      have hxin : x ∈ σ.flights := by
        rw [hf]; rcases hm with hm | hm
        · exact List.mem_append_left _ hm
        · exact List.mem_append_right _ (List.mem_cons_of_mem _ hm)
      have hFx := h.fl x hxin ha
      have hne := lock_target_ne hFr hFx (nodup_mid_ne hlk hm)
      exact hFx.frame (stepFlight_docsExt _ _) h.d.gap rfl (hent _ _ hne)
    simp only [List.mem_append, List.mem_cons] at hx
    rcases hx with hx | hx | hx
    · exact other (Or.inl hx)
    · subst hx; exact hown ha
    · exact other (Or.inr hx)

/-! ### a response arrives -/

theorem cinv_finish {σ : Sys} {g : Ghost} {pre post : List InFlight} {r : InFlight} (h : CInv σ g)
    (hf : σ.flights = pre ++ r :: post) (hpc : r.pc = .done) :
    CInv { σ with flights := pre ++ post, hist := Sys.doneOf r :: σ.hist } (ghostFinish g r) := by
  have hlk := h.locks
  rw [hf] at hlk
  have hsub : ∀ x, x ∈ pre ++ post → x ∈ σ.flights := by
    intro x hx; rw [hf]
    rcases List.mem_append.mp hx with hx | hx
    · exact List.mem_append_left _ hx
    · exact List.mem_append_right _ (List.mem_cons_of_mem _ hx)
  -- the ghost is unchanged unless a response is delivered
  have same : ghostFinish g r = g → CInv { σ with flights := pre ++ post, hist := Sys.doneOf r :: σ.hist } (ghostFinish g r) := by
    intro e; rw [e]
    exact ⟨h.d, nodup_mid_rm hlk, fun x hx ha => h.fl x (hsub x hx) ha⟩
  cases hout : r.out with
  | error e => exact same (by simp [ghostFinish, hout])
  | ok resp =>
    cases hlost : r.lost with
    | true => exact same (by simp [ghostFinish, hout, hlost])
    | false =>
      have hr : r ∈ σ.flights := by rw [hf]; simp
      have hFr := h.fl r hr (Or.inr ⟨resp, hout⟩)
      obtain ⟨hpl, hack⟩ := hFr.fin hpc resp hout
      obtain ⟨doc, hd, _⟩ := hFr.hdoc
      have hg : ghostFinish g r = g.set r.f.client r.f.doc (receive (g r.f.client r.f.doc) resp) := by
        simp [ghostFinish, hout, hlost]
      rw [hg]
      refine ⟨?_, nodup_mid_rm hlk, ?_⟩
      · refine dinv_update h.d (DocsExt.refl _) r.f.client r.f.doc _ (fun _ _ _ _ he _ => he) ?_ ?_ ?_
        · intro doc' hd' hdp; exact (hpl.view doc' hd' hdp).1
        · intro hn
          have : σ.srv.docs.get? r.f.doc = some doc := hd
          rw [hn] at this; simp at this
        · intro cd' he ho; exact Nat.le_trans (Nat.le_refl _) (hack cd' he ho)
      · intro x hx ha
        have hFx := h.fl x (hsub x hx) ha
        have hne := lock_target_ne hFr hFx (nodup_mid_ne hlk (List.mem_append.mp hx))
        refine hFx.frame (DocsExt.refl _) h.d.gap ?_ rfl
        simp only [Ghost.set]
        rw [if_neg]
        rintro ⟨e1, e2⟩
        rcases hne with hne | hne
        · exact hne e1
        · exact hne e2

/-! ### activation -/

theorem entryOf_activate {s : Server} (hw : WF s) (c : ClientId) (d : DocId) :
    entryOf (Server.activate s).1 c d = entryOf s c d := by
  simp only [entryOf, Server.activate, AL.get?_set]
  by_cases hc : s.nextClient = c
  · subst hc
    simp only [if_true]
    cases hg : s.clients.get? s.nextClient with
    | none => rfl
    | some x => exact absurd (hw.clients _ x hg) (Nat.lt_irrefl _)
  · simp only [hc, if_false]

theorem cinv_activate {σ : Sys} {g : Ghost} (h : CInv σ g) :
    CInv { σ with srv := (Server.activate σ.srv).1 } g := by
  have ext := activate_docsExt σ.srv
  have he := entryOf_activate h.d.wf
  refine ⟨dinv_keep h.d ext (fun c d cd' hx ho => ⟨cd', by rw [← he c d]; exact hx, ho, Nat.le_refl _⟩), h.locks, ?_⟩
  intro x hx ha
  exact (h.fl x hx ha).frame ext h.d.gap rfl (he _ _)

end Yorkie.Conc
