/-
Text undo/redo: undo / redo of a Style operation never fails (core Lean only).

A stacked reverse Style carries the two positions of the forward Style. `PosIn s p` ("the cell left
of the position exists in `s`, or the position is the head") is all `findNodeWithSplit` needs to
resolve a position; it holds for every position the json layer produces (`posOfIndex`), and it is
kept by everything that happens to a text later (blocks are only split, inserted, or change
`removedAt` / attributes: a covered cell stays covered). So `Style.Execute` on the stacked positions
succeeds, and its own reverse carries the same two positions again.
-/
import YorkieModel.Lemmas.TextUndoTiled
import YorkieModel.Lemmas.TextUndoTickets
import YorkieModel.Lemmas.TextConvEdit
namespace Yorkie.TextUndo
open Yorkie Yorkie.Text

/-- the cell left of the position exists (or the position is the head): the position can be resolved -/
def PosIn (s : TextSt) (p : Pos) : Prop :=
  (p.id.2 + p.rel = 0 ∧ p.id.1 = headId.1) ∨
  (0 < p.id.2 + p.rel ∧ ∃ n ∈ s, covers p.id.1 (p.id.2 + p.rel - 1) n = true)

/-- cell `(ca, c)` is covered by a block of `s` -/
def tt_Cov (s : TextSt) (ca : Ticket) (c : Nat) : Prop := ∃ n ∈ s, covers ca c n = true

theorem tt_posIn_mono {s s' : TextSt} {p : Pos} (h : ∀ ca c, tt_Cov s ca c → tt_Cov s' ca c) :
    PosIn s p → PosIn s' p := by
  rintro (h0 | ⟨h1, h2⟩)
  · exact Or.inl h0
  · exact Or.inr ⟨h1, h _ _ h2⟩

/-! ### 1. `PosIn` is the block-level reading of `AnchorIn` -/

theorem tt_cov_iff_cids (s : TextSt) (ca : Ticket) (c : Nat) :
    tt_Cov s ca c ↔ (ca, c) ∈ TextConv.cids (TextConv.abs s) := by
  constructor
  · rintro ⟨n, hn, hc⟩
    obtain ⟨e1, e2, e3⟩ := covers_spec.mp hc
    have := TextConv.mem_cids_absNode (n := n) (j := c) e2 e3
    rw [e1] at this
    obtain ⟨cell, hcell, e⟩ := List.mem_map.1 this
    exact List.mem_map.2 ⟨cell, TextConv.mem_abs.2 ⟨n, hn, hcell⟩, e⟩
  · intro h
    obtain ⟨n, hn, h1, h2, h3⟩ := TextConv.block_of_cell h
    exact ⟨n, hn, covers_spec.mpr ⟨h1, h2, h3⟩⟩

set_option linter.unusedVariables false in
theorem posIn_iff_anchorIn {s : TextSt} (wf : WF s) (p : Pos) :
    PosIn s p ↔ TextConv.AnchorIn (TextConv.abs s) p := by
  unfold PosIn TextConv.AnchorIn
  rw [← tt_cov_iff_cids]
  rfl

/-! ### 2. the positions of the json layer -/

theorem posIn_of_posOfIndex {s : TextSt} (wf : WF s) {i : Nat} {p : Pos}
    (h : posOfIndex s i = some p) : PosIn s p := by
  obtain ⟨hd, r, hs, hid, _⟩ := wf.head
  subst hs
  unfold posOfIndex at h
  simp only at h
  split at h
  · injection h with h; subst h
    left
    simp [hid, headId]
  · rename_i h0
    obtain ⟨A, n, C, hs, _, hp, h1, h2⟩ := findPos_spec h (by omega)
    right
    subst hp
    simp only
    refine ⟨by omega, n, by rw [hs]; simp, covers_spec.mpr ⟨rfl, by omega, by omega⟩⟩

/-! ### 3. a covered cell stays covered -/

theorem tt_cov_map_keeps {s : TextSt} {f : TNode → TNode} (hf : Text.KeepsShape f) {ca : Ticket}
    {c : Nat} : tt_Cov s ca c → tt_Cov (s.map f) ca c := by
  rintro ⟨n, hn, hc⟩
  refine ⟨f n, List.mem_map.mpr ⟨n, hn, rfl⟩, ?_⟩
  rw [covers_eq_of_shape (hf n).1 (len_of_keeps hf n)]
  exact hc

theorem posIn_map_keeps {s : TextSt} {p : Pos} {f : TNode → TNode} (hf : Text.KeepsShape f) :
    PosIn s p → PosIn (s.map f) p :=
  tt_posIn_mono (fun _ _ => tt_cov_map_keeps hf)

theorem tt_cov_splitNode {s : TextSt} (wf : WF s) {n : TNode} (hn : n ∈ s) {k : Nat} (h0 : 0 < k)
    (hk : k < n.len) {ca : Ticket} {c : Nat} : tt_Cov s ca c → tt_Cov (splitNode s n k) ca c := by
  have mem := @mem_splitNode s n k hn h0 hk
  rintro ⟨m, hm, hc⟩
  rw [covers_spec] at hc
  by_cases hid : m.id = n.id
  · have : m = n := eq_of_id_eq wf.nodup hm hn hid
    subst this
    by_cases hck : c < m.id.2 + k
    · refine ⟨splitMap m k m, mem.mpr (Or.inr ⟨m, hm, rfl⟩), ?_⟩
      rw [covers_spec, splitMap_id, splitMap_len_self m (by omega)]
      exact ⟨hc.1, hc.2.1, hck⟩
    · refine ⟨rightPart m k, mem.mpr (Or.inl rfl), ?_⟩
      rw [covers_spec, rightPart_id1, rightPart_id2, rightPart_len]
      refine ⟨hc.1, by omega, by omega⟩
  · refine ⟨splitMap n k m, mem.mpr (Or.inr ⟨m, hm, rfl⟩), ?_⟩
    rw [covers_spec, splitMap_id, splitMap_len_other k hid]
    exact hc

theorem posIn_splitNode {s : TextSt} {p : Pos} (wf : WF s) {n : TNode} (hn : n ∈ s) {k : Nat}
    (h0 : 0 < k) (hk : k < n.len) : PosIn s p → PosIn (splitNode s n k) p :=
  tt_posIn_mono (fun _ _ => tt_cov_splitNode wf hn h0 hk)

theorem posIn_fnws {s s1 : TextSt} {p : Pos} (wf : WF s) {pos : Pos} {ts : Ticket} {l : Id}
    {r : Option Id} (h : findNodeWithSplit s pos ts = .ok (s1, l, r)) : PosIn s p → PosIn s1 p := by
  rcases fnws_cases h with rfl | ⟨n, hn, k, h0, hk, rfl⟩
  · exact id
  · exact posIn_splitNode wf hn h0 hk

theorem posIn_insert {s : TextSt} {p : Pos} (i : Id) (new : TNode) :
    PosIn s p → PosIn (insertAfterId s i new) p :=
  tt_posIn_mono (fun _ _ ⟨n, hn, hc⟩ => ⟨n, mem_insertAfterId_of_mem hn, hc⟩)

theorem posIn_edit {s s' : TextSt} {p : Pos} (wf : WF s) {fr to : Pos} {content : List Nat}
    {attrs : List (String × String)} {ts : Ticket} {vv : Option VV}
    (h : edit fr to content attrs ts vv s = .ok s') : PosIn s p → PosIn s' p := by
  intro hp
  unfold edit at h
  split at h
  · cases h
  · rename_i s1 l1 toRight h1
    split at h
    · cases h
    · rename_i s2 fromLeft fromRight h2
      have wf1 := (fnws_wf wf h1).1
      have p2 := posIn_fnws wf1 h2 (posIn_fnws wf h1 hp)
      have keeps := keeps_applyTo (keeps_removeNode ts vv) (between s2 fromRight toRight)
      have p3 := posIn_map_keeps keeps p2
      simp only at h
      split at h
      · injection h with h; subst h; exact p3
      · injection h with h; subst h
        exact posIn_insert _ _ p3

theorem tt_posIn_styleWith {s s' : TextSt} {p : Pos} (wf : WF s) {fr to : Pos}
    {g : List AttrNode → List AttrNode} {ts : Ticket} {vv : Option VV}
    (h : styleWith fr to g ts vv s = .ok s') : PosIn s p → PosIn s' p := by
  intro hp
  unfold styleWith at h
  split at h
  · cases h
  · rename_i s1 l1 toRight h1
    split at h
    · cases h
    · rename_i s2 fromLeft fromRight h2
      injection h with h; subst h
      exact posIn_map_keeps (keeps_applyTo (keeps_styleNode ts vv g) _)
        (posIn_fnws (fnws_wf wf h1).1 h2 (posIn_fnws wf h1 hp))

theorem posIn_styleOp {s s' : TextSt} {p : Pos} (wf : WF s) {fr to : Pos}
    {attrs : List (String × String)} {keys : List String} {ts : Ticket} {vv : Option VV}
    (h : styleOp fr to attrs keys ts vv s = .ok s') : PosIn s p → PosIn s' p := by
  intro hp
  unfold styleOp at h
  split at h
  · cases h
  · rename_i s1 h1
    have wt1 : WF s1 ∧ PosIn s1 p := by
      split at h1
      · injection h1 with h1; subst h1; exact ⟨wf, hp⟩
      · exact ⟨wf_styleWith wf h1, tt_posIn_styleWith wf h1 hp⟩
    split at h
    · injection h with h; subst h; exact wt1.2
    · exact tt_posIn_styleWith wt1.1 h wt1.2

/-! ### 4. a style on resolvable positions succeeds -/

/-- the anchor cell of a resolvable position carries the ticket of a block -/
theorem tt_anchor_ticket {s : TextSt} {p : Pos} (hp : PosIn s p) {j : Id}
    (e : TextConv.anchorOf p = some j) : ∃ n ∈ s, n.id.1 = j.1 := by
  unfold TextConv.anchorOf at e
  split at e
  · cases e
  · injection e with e; subst e
    rcases hp with ⟨h0, _⟩ | ⟨_, n, hn, hc⟩
    · omega
    · exact ⟨n, hn, (covers_spec.mp hc).1⟩

theorem styleWith_ok {s : TextSt} (wf : WF s) {fr to : Pos} (hfr : PosIn s fr) (hto : PosIn s to)
    {ts : Ticket} (hnew : ∀ n ∈ s, n.id.1.after ts = false) (g : List AttrNode → List AttrNode)
    (vv : Option VV) : ∃ s', styleWith fr to g ts vv s = .ok s' := by
  have hold : ∀ j, TextConv.anchorOf fr = some j ∨ TextConv.anchorOf to = some j →
      j.1.after ts = false := by
    rintro j (e | e)
    · obtain ⟨n, hn, e1⟩ := tt_anchor_ticket hfr e
      rw [← e1]; exact hnew n hn
    · obtain ⟨n, hn, e1⟩ := tt_anchor_ticket hto e
      rw [← e1]; exact hnew n hn
  obtain ⟨s1, l1, toRight, s2, AF, curF, KF, DF, AT, bT, KT, DT, e1, e2, _⟩ :=
    TextConv.two_fnws wf.toG ((posIn_iff_anchorIn wf fr).mp hfr) ((posIn_iff_anchorIn wf to).mp hto) hold
  refine ⟨s2.map (applyTo (between s2 (DF.head?.map (·.id)) toRight) (styleNode ts vv g)), ?_⟩
  unfold styleWith
  rw [e1]; simp only
  rw [e2]

/-- block tickets after a style pass are block tickets before it -/
theorem tt_hnew_styleWith {s s' : TextSt} (wf : WF s) {fr to : Pos}
    {g : List AttrNode → List AttrNode} {ts ts' : Ticket} {vv : Option VV}
    (h : styleWith fr to g ts vv s = .ok s') (hnew : ∀ n ∈ s, n.id.1.after ts' = false) :
    ∀ n ∈ s', n.id.1.after ts' = false := by
  intro n hn
  obtain ⟨m, hm, e⟩ := createdAt_styleWith wf h n hn
  rw [e]; exact hnew m hm

/-- the two passes of `Style.Execute` (removal, then setting) both succeed -/
theorem tt_passes_ok {s : TextSt} (wf : WF s) {fr to : Pos} (hfr : PosIn s fr) (hto : PosIn s to)
    {ts : Ticket} (hnew : ∀ n ∈ s, n.id.1.after ts = false) (attrs : List (String × String))
    (keys : List String) (vv : Option VV) :
    ∃ s1 s2, (if keys.isEmpty then Except.ok s else removeStyle fr to keys ts vv s) = .ok s1 ∧
      (if attrs.isEmpty then Except.ok s1 else style fr to attrs ts vv s1) = .ok s2 := by
  have first : ∃ s1, (if keys.isEmpty then Except.ok s else removeStyle fr to keys ts vv s) = .ok s1 ∧
      WF s1 ∧ PosIn s1 fr ∧ PosIn s1 to ∧ ∀ n ∈ s1, n.id.1.after ts = false := by
    split
    · exact ⟨s, rfl, wf, hfr, hto, hnew⟩
    · obtain ⟨s1, h1⟩ := styleWith_ok wf hfr hto hnew (fun a => rhtRemoveAll a keys ts) vv
      exact ⟨s1, h1, wf_styleWith wf h1, tt_posIn_styleWith wf h1 hfr, tt_posIn_styleWith wf h1 hto,
        tt_hnew_styleWith wf h1 hnew⟩
  obtain ⟨s1, h1, wf1, pf1, pt1, hn1⟩ := first
  by_cases ha : attrs.isEmpty = true
  · exact ⟨s1, s1, h1, by rw [if_pos ha]⟩
  · obtain ⟨s2, h2⟩ := styleWith_ok wf1 pf1 pt1 hn1 (fun a => rhtSetAll a attrs ts) vv
    exact ⟨s1, s2, h1, by rw [if_neg ha]; exact h2⟩

theorem tt_styleOp_of_passes {s s1 s2 : TextSt} {fr to : Pos} {attrs : List (String × String)}
    {keys : List String} {ts : Ticket} {vv : Option VV}
    (h1 : (if keys.isEmpty then Except.ok s else removeStyle fr to keys ts vv s) = .ok s1)
    (h2 : (if attrs.isEmpty then Except.ok s1 else style fr to attrs ts vv s1) = .ok s2) :
    styleOp fr to attrs keys ts vv s = .ok s2 := by
  unfold styleOp
  rw [h1]
  exact h2

theorem styleOp_ok {s : TextSt} (wf : WF s) {fr to : Pos} (hfr : PosIn s fr) (hto : PosIn s to)
    {ts : Ticket} (hnew : ∀ n ∈ s, n.id.1.after ts = false) (attrs : List (String × String))
    (keys : List String) (vv : Option VV) : ∃ s', styleOp fr to attrs keys ts vv s = .ok s' := by
  obtain ⟨s1, s2, h1, h2⟩ := tt_passes_ok wf hfr hto hnew attrs keys vv
  exact ⟨s2, tt_styleOp_of_passes h1 h2⟩

/-! ### 5. `Style.Execute`: same state as `styleOp`, a reverse with the same positions -/

theorem tt_execStyle_shape {s s1 s2 : TextSt} {fr to : Pos} {attrs : List (String × String)}
    {keys : List String} {ts : Ticket} {vv : Option VV}
    (h1 : (if keys.isEmpty then Except.ok s else removeStyle fr to keys ts vv s) = .ok s1)
    (h2 : (if attrs.isEmpty then Except.ok s1 else style fr to attrs ts vv s1) = .ok s2) :
    ∃ prev rem, execStyle fr to attrs keys ts vv s =
      .ok ⟨s2, if prev.isEmpty && rem.isEmpty then none else some (TRev.style fr to prev rem), true⟩ := by
  unfold execStyle
  cases hk : keys.isEmpty <;> cases ha : attrs.isEmpty <;>
    simp only [hk, ha, Bool.false_eq_true, if_false, if_true] at h1 h2 ⊢
  · simp only [h1, h2]
    cases firstStyled fr to ts vv s1
    · exact ⟨_, _, rfl⟩
    · exact ⟨_, _, rfl⟩
  · injection h2 with h2; subst h2
    simp only [h1]
    exact ⟨_, _, rfl⟩
  · injection h1 with h1; subst h1
    simp only [h2]
    cases firstStyled fr to ts vv s
    · exact ⟨_, _, rfl⟩
    · exact ⟨_, _, rfl⟩
  · injection h1 with h1; subst h1
    injection h2 with h2; subst h2
    exact ⟨_, _, rfl⟩

/-- **undo / redo of a Style never fails**: on a well-formed text whose blocks are not newer than the
    executing ticket, `Style.Execute` on two resolvable positions succeeds, computes the state of
    `styleOp`, keeps the two positions resolvable, and its reverse (if any) is a Style on the SAME
    two positions -/
theorem execStyle_ok {s : TextSt} (wf : WF s) {fr to : Pos} (hfr : PosIn s fr) (hto : PosIn s to)
    {ts : Ticket} (hnew : ∀ n ∈ s, n.id.1.after ts = false) (attrs : List (String × String))
    (keys : List String) (vv : Option VV) :
    ∃ res, execStyle fr to attrs keys ts vv s = .ok res ∧
      styleOp fr to attrs keys ts vv s = .ok res.st ∧ WF res.st ∧ PosIn res.st fr ∧ PosIn res.st to ∧
      (∀ f t a k, res.rev = some (.style f t a k) → f = fr ∧ t = to) ∧
      (res.rev = none ∨ ∃ a k, res.rev = some (.style fr to a k)) := by
  obtain ⟨s1, s2, h1, h2⟩ := tt_passes_ok wf hfr hto hnew attrs keys vv
  have hop := tt_styleOp_of_passes h1 h2
  obtain ⟨prev, rem, hex⟩ := tt_execStyle_shape h1 h2
  refine ⟨_, hex, hop, wf_styleOp wf hop, posIn_styleOp wf hop hfr, posIn_styleOp wf hop hto, ?_, ?_⟩
  · intro f t a k e
    simp only at e
    split at e
    · cases e
    · injection e with e
      injection e with e1 e2 _ _
      exact ⟨e1.symm, e2.symm⟩
  · simp only
    split
    · exact Or.inl rfl
    · exact Or.inr ⟨_, _, rfl⟩

/-! ### 6. non-vacuity: the split chain with a tombstone of Lemmas/TextUndoTiled.lean -/

theorem tt_exState_wf : WF exState :=
  ⟨⟨_, _, rfl, rfl, rfl⟩, by decide, by decide, by decide, by decide, by decide⟩

/-- between "a" and "b" (strictly inside the first block) -/
def tt_exFr : Pos := ⟨(exTicket, 0), 1⟩
/-- between "d" and "e", addressed from the FIRST block of the insertion (offset 4 = 3 + 1) -/
def tt_exTo : Pos := ⟨(exTicket, 0), 4⟩
/-- the ticket of the undo change -/
def tt_exTs : Ticket := ⟨3, 1, 7⟩

/-- a position right after the tombstoned "c" is resolvable: the cell `(t, 2)` is covered -/
example : PosIn exState ⟨(exTicket, 2), 1⟩ :=
  Or.inr ⟨by decide,
    { id := (exTicket, 2), units := [99], removedAt := some ⟨2, 1, 7⟩, attrs := [],
      insPrev := some (exTicket, 0) }, by simp [exState], by decide⟩

theorem tt_exFr_in : PosIn exState tt_exFr :=
  Or.inr ⟨by decide,
    { id := (exTicket, 0), units := [97, 98], removedAt := none, attrs := [], insPrev := none },
    by simp [exState], by decide⟩

theorem tt_exTo_in : PosIn exState tt_exTo :=
  Or.inr ⟨by decide,
    { id := (exTicket, 3), units := [100, 101], removedAt := none, attrs := [],
      insPrev := some (exTicket, 2) }, by simp [exState], by decide⟩

/-- the head position -/
example : PosIn exState ⟨headId, 0⟩ := Or.inl ⟨rfl, rfl⟩

/-- a position behind the end of the insertion is NOT resolvable -/
example : ¬ PosIn exState ⟨(exTicket, 0), 6⟩ := by
  rintro (⟨h, _⟩ | ⟨_, n, hn, hc⟩)
  · simp at h
  · simp only [exState, List.mem_cons, List.not_mem_nil, or_false] at hn
    rcases hn with rfl | rfl | rfl | rfl <;> revert hc <;> decide

/-- no block of the example is newer than the executing ticket -/
theorem tt_exState_old : ∀ n ∈ exState, n.id.1.after tt_exTs = false := by decide

/-- styling "b|c|d" bold: both positions split their block, the reverse is a Style that removes the
    key again, on the same two positions -/
example : (execStyle tt_exFr tt_exTo [("b", "1")] [] tt_exTs none exState).toOption.map
    (fun r => (r.rev, ids r.st)) =
    some (some (.style tt_exFr tt_exTo [] ["b"]),
      [headId, (exTicket, 0), (exTicket, 1), (exTicket, 2), (exTicket, 3), (exTicket, 4)]) := by
  decide

/-- running that reverse (the undo): succeeds, and ITS reverse (the redo) sets the value again,
    still on the same two positions -/
example : ((execStyle tt_exFr tt_exTo [("b", "1")] [] tt_exTs none exState).toOption.bind
    (fun r => (execStyle tt_exFr tt_exTo [] ["b"] ⟨4, 1, 7⟩ none r.st).toOption)).map (·.rev) =
    some (some (.style tt_exFr tt_exTo [("b", "1")] [])) := by
  decide

/-- the hypotheses of `execStyle_ok` are satisfiable -/
example : ∃ res, execStyle tt_exFr tt_exTo [("b", "1")] [] tt_exTs none exState = .ok res ∧
    WF res.st ∧ PosIn res.st tt_exFr ∧ PosIn res.st tt_exTo := by
  obtain ⟨res, h, _, h1, h2, h3, _⟩ :=
    execStyle_ok tt_exState_wf tt_exFr_in tt_exTo_in tt_exState_old [("b", "1")] [] none
  exact ⟨res, h, h1, h2, h3⟩

end Yorkie.TextUndo
