/-
Lemmas for C14, part 24: mixed histories at depth k, edits and runs.
-/
import YorkieModel.Lemmas.UndoArray14
namespace Yorkie.Undo
open Yorkie Yorkie.Crdt

/-! ### edits of the mixed alphabet -/

/-- content edits as the json layer issues them: `obj.k = leaf`, `delete` of a leaf member of an object
    or of a visible leaf of an array, `counter.Increase`, insertion of a new leaf into an array -/
inductive MEdit
  | set (p : Ticket) (k : String) (v : Val)
  | remove (p u : Ticket)
  | increase (c : Ticket) (delta : Int)
  | insert (p prev : Ticket) (v : Val)

def MEdit.op : MEdit → Ticket → UOp
  | .set p k v, ts => .set p k (UVal.ofVal v ts) ts
  | .remove p u, ts => .remove p u ts
  | .increase c delta, ts => .increase c delta ts
  | .insert p prev v, ts => .add p prev (UVal.ofVal v ts) ts

def doMEdit (h : Hist) (e : MEdit) : Hist := doChange h [e.op h.next]

def runMEdits : Hist → List MEdit → Hist
  | h, [] => h
  | h, e :: es => runMEdits (doMEdit h e) es

/-- every edit of the run is executable when its turn comes -/
def MEditsOk (H : Home) : Hist → List MEdit → Prop
  | _, [] => True
  | h, e :: es => GoodOp3 H noTw h.doc (e.op h.next) ∧ MEditsOk H (doMEdit h e) es

/-- the recorded documents of a run, oldest first -/
def mstates : Hist → List MEdit → List Doc
  | h, [] => [h.doc]
  | h, e :: es => h.doc :: mstates (doMEdit h e) es

theorem runMEdits_append (h : Hist) (a b : List MEdit) :
    runMEdits h (a ++ b) = runMEdits (runMEdits h a) b := by
  induction a generalizing h with
  | nil => rfl
  | cons e a ih => exact ih _

theorem mstates_length (h : Hist) (es : List MEdit) : (mstates h es).length = es.length + 1 := by
  induction es generalizing h with
  | nil => rfl
  | cons e es ih => simp [mstates, ih]

theorem mstates_get (h : Hist) (a b : List MEdit) :
    (mstates h (a ++ b))[a.length]? = some (runMEdits h a).doc := by
  induction a generalizing h with
  | nil => cases b <;> rfl
  | cons e a ih => simp only [List.cons_append, mstates, List.length_cons, List.getElem?_cons_succ]; exact ih _

theorem MEditsOk_append {H : Home} : ∀ {a b : List MEdit} {h : Hist}, MEditsOk H h (a ++ b) →
    MEditsOk H h a ∧ MEditsOk H (runMEdits h a) b
  | [], _, _, ok => ⟨trivial, ok⟩
  | _ :: a, _, _, ok => ⟨⟨ok.1, (MEditsOk_append (a := a) ok.2).1⟩, (MEditsOk_append (a := a) ok.2).2⟩

/-! ### bookkeeping of a forward edit -/

theorem GoodOp3.par_bound {H : Home} {tw : Ticket → Bool} {d : Doc} {L : Int} {op : UOp} (g : GoodOp3 H tw d op)
    (bd : Bounded d L) : op.par.lamport ≤ L := by
  cases op with
  | add p prev val ts =>
    obtain ⟨l, ga⟩ := g
    exact absNode_some_bound bd (by simp only [UOp.par]; rw [ga.hp]; simp)
  | remove p u ts =>
    rcases g with ⟨l, gd⟩ | ⟨f, gr⟩
    · exact absNode_some_bound bd (by simp only [UOp.par]; rw [gd.hp]; simp)
    · exact absNode_some_bound bd (by simp only [UOp.par]; rw [gr.hp]; simp)
  | set p k val ts =>
    obtain ⟨f, gs⟩ := g
    exact absNode_some_bound bd (by simp only [UOp.par]; rw [gs.hp]; simp)
  | increase c delta ts =>
    obtain ⟨l, v, hc, _⟩ := g
    exact absNode_some_bound bd (by simp only [UOp.par]; rw [hc]; simp)
  | move => exact g.elim
  | arraySet => exact g.elim

theorem inv3_do_finish {H : Home} {g : Hist} {ru rr : List UOp} {past future : List Doc} {op : UOp} {d' : Doc}
    (i : Inv3 H g.lamport id g ru rr past g.doc future)
    (hdo : doChange g [op] =
      { g with doc := d', undo := push g.undo [inv3 H g.doc op], redo := [], lamport := g.lamport + 1 })
    (hg : GoodOp3 H noTw g.doc op) (hib : idBound3 op (g.lamport + 1))
    (hwf : WF H d') (hbd : Bounded d' (g.lamport + 1)) (hpl : PlainArrs d' (g.lamport + 1))
    (hsk : ∀ t, skel d' t = skel g.doc t) (hnode : absNode d' = aexec3 H (absNode g.doc) op)
    (hqa : ∀ a, addId? (inv3 H g.doc op) = some a →
      absNode g.doc a ≠ none ∧ absNode d' a = none ∧ ArrHomed H d' a)
    (hdead' : ∀ a ∈ addIds ru, absNode d' a = none) :
    ∃ ru', Inv3 H (doChange g [op]).lamport id (doChange g [op]) ru' [] (g.doc :: past) (doChange g [op]).doc [] ∧
      (∀ t, skel (doChange g [op]).doc t = skel g.doc t) ∧
      (ru'.length = ru.length + 1 ∨ maxDepth ≤ ru'.length) := by
  have hN0 := i.hN0
  obtain ⟨urest, hurest⟩ := i.hundo
  obtain ⟨ru2, urest2, hpt, hcase⟩ := pushTail_stackOf id ru urest
  have hsub2 : (addIds ru2).Sublist (addIds ru) := by
    rcases hcase with rfl | ⟨rfl, _⟩
    · exact List.Sublist.refl _
    · exact addIds_dropLast_sublist ru
  have hch2 : ChainM H noTw (g.lamport + 1) ru2 g.doc past := by
    rcases hcase with rfl | ⟨rfl, _⟩
    · exact i.chU.mono (by omega)
    · exact (i.chU.mono (by omega)).dropLast
  have hgood := inv3_good (N := g.lamport + 1) i.wf hwf (i.bd.mono (by omega)) (i.pl.mono (by omega)) hsk hg hib
    (by omega) hnode
  have hback : ∀ q fq, absNode d' q = some (.obj fq) → ∃ f', absNode g.doc q = some (.obj f') := by
    intro q fq h; rw [hnode] at h; exact aexec3_obj_back hg h
  rw [hdo]
  simp only []
  refine ⟨inv3 H g.doc op :: ru2, ?_, hsk, length_after_push hcase⟩
  refine
    { wf := hwf, bd := hbd, pl := hpl, hN := Int.le_refl _, hN0 := (show 0 ≤ g.lamport + 1 by omega),
      wfc := hwf,
      bdc := hbd, plc := hpl,
      eskel := fun _ => rfl, sim := Sim.refl _ _, rfix := fun _ _ => rfl, rhead := rfl,
      rng := fun t ht => ht, rnew := fun _ _ => Or.inl rfl, rarr := fun _ _ h => absurd rfl h,
      hundo := ⟨urest2, ?_⟩, hredo := ⟨[], rfl⟩, chU := ?_, chR := trivial,
      uniqU := ?_, uniqR := List.nodup_nil, uniqD := fun _ _ _ hb => by simp [addIds] at hb, dead := ?_ }
  · show push g.undo _ = _
    rw [push_eq, hurest, hpt, stackOf_cons, fullRen_id]; rfl
  · exact ⟨⟨i.wf, i.bd.mono (by omega), i.pl.mono (by omega), hgood.1, hgood.2.1, fun t => (hsk t).symm,
      hgood.2.2, by rw [inv3_par]; have := hg.par_bound i.bd; omega⟩, hch2⟩
  · cases hqid : addId? (inv3 H g.doc op) with
    | none => rw [addIds_cons_none hqid]; exact List.Nodup.sublist hsub2 i.uniqU
    | some a =>
      rw [addIds_cons_some hqid, List.nodup_cons]
      refine ⟨fun hm => ?_, List.Nodup.sublist hsub2 i.uniqU⟩
      exact (hqa a hqid).1 (i.dead a (Or.inl (hsub2.subset hm))).1
  · intro a ha
    rcases ha with ha | ha
    · have hother : ∀ a, a ∈ addIds ru2 → absNode d' a = none ∧ ArrHomed H d' a := fun a ha =>
        ⟨hdead' a (hsub2.subset ha), (i.dead a (Or.inl (hsub2.subset ha))).2.step hback⟩
      cases hqid : addId? (inv3 H g.doc op) with
      | none => rw [addIds_cons_none hqid] at ha; exact hother a ha
      | some a' =>
        rw [addIds_cons_some hqid] at ha
        simp only [List.mem_cons] at ha
        rcases ha with rfl | ha
        · exact (hqa a hqid).2
        · exact hother a ha
    · simp [addIds] at ha

/-- a local change with one operation of the mixed alphabet (nothing was undone yet: `ρ = id`) -/
theorem inv3_doMEdit {H : Home} {g : Hist} {ru rr : List UOp} {past future : List Doc} {e : MEdit}
    (i : Inv3 H g.lamport id g ru rr past g.doc future) (hg : GoodOp3 H noTw g.doc (e.op g.next)) :
    ∃ ru', Inv3 H (doMEdit g e).lamport id (doMEdit g e) ru' [] (g.doc :: past) (doMEdit g e).doc [] ∧
      (∀ t, skel (doMEdit g e).doc t = skel g.doc t) ∧
      (ru'.length = ru.length + 1 ∨ maxDepth ≤ ru'.length) := by
  have hN0 := i.hN0
  have hL : g.lamport < g.next.lamport := by simp only [Hist.next]; omega
  have hnl : g.next.lamport = g.lamport + 1 := rfl
  have hdeadA : ∀ a ∈ addIds ru, absNode g.doc a = none ∧ ArrHomed H g.doc a ∧ a.lamport ≤ g.lamport :=
    fun a ha => ⟨(i.dead a (Or.inl ha)).1, (i.dead a (Or.inl ha)).2, addIds_boundM i.chU ha⟩
  cases e with
  | set p k v =>
    obtain ⟨f, gs⟩ := hg
    obtain ⟨d', he, res, hpl⟩ := set_explicit (ts0 := g.next) (ts := g.next) (src := .loc) i.wf i.bd i.pl hL
      (Int.le_refl _) gs rfl
    have hinv : inv3 H g.doc (.set p k (UVal.ofVal v g.next) g.next) =
        setRev g.doc p k (UVal.ofVal v g.next) g.next f := by simp only [inv3, gs.hp]
    have hAp : absNode g.doc p ≠ none := by rw [gs.hp]; simp
    refine inv3_do_finish (op := .set p k (UVal.ofVal v g.next) g.next) i
      (by rw [hinv]; exact doChange_one (by rfl) he) ⟨f, gs⟩ (show g.next.lamport ≤ g.lamport + 1 by omega)
      res.wf res.bd (hpl.mono (by omega)) res.skel res.node ?_ ?_
    · intro a ha; rw [hinv, setRev_addId] at ha; cases ha
    · intro a ha
      obtain ⟨hAa, _, haN⟩ := hdeadA a ha
      have h1 : a ≠ g.next := fun h => by rw [h] at haN; omega
      have h2 : a ≠ p := fun h => hAp (h ▸ hAa)
      have h3 : f k ≠ some a := by
        intro h
        obtain ⟨⟨b, hb, _⟩, _⟩ := gs.hold a h
        rw [hAa] at hb; cases hb
      rw [res.node]; simp [aexec, aset, gs.hp, UVal.ofVal, h1, h2, h3, hAa]
  | remove p u =>
    rcases hg with ⟨l, gd⟩ | ⟨f, gr⟩
    · obtain ⟨ue, hue, hul, he, hwf, hbd, hpl, hsk, hnode⟩ := step_del (src := .loc) (ts := g.next) i.wf i.bd i.pl
        hL gd.hp gd.horph gd.hmem gd.hleaf gd.htw rfl
      have hinv : inv3 H g.doc (.remove p u g.next) = .add p (predOf u l) (leafCopy u ue) g.next := by
        simp only [inv3, gd.hp, hue]
      obtain ⟨b, hbu, hbl⟩ := gd.hleaf
      have hAu : absNode g.doc u ≠ none := by rw [hbu]; simp
      have hAp : absNode g.doc p ≠ none := by rw [gd.hp]; simp
      have hpu : p ≠ u := by
        intro h; subst h; rw [gd.hp] at hbu; injection hbu with hbu; subst hbu; simp [ABody.isLeaf] at hbl
      have hnode' : absNode (kill g.doc (some u)) = aexec3 H (absNode g.doc) (.remove p u g.next) := by
        rw [hnode]; simp only [aexec3, gd.hp]
      refine inv3_do_finish (op := .remove p u g.next) i
        (by rw [hinv]; exact doChange_one (by rfl) he) (Or.inl ⟨l, gd⟩)
        (show u.lamport ≤ g.lamport + 1 by have := absNode_some_bound i.bd hAu; omega)
        hwf (hbd.mono (by omega)) (hpl.mono (by omega)) hsk hnode' ?_ ?_
      · intro a ha
        rw [hinv] at ha
        simp only [addId?, leafCopy, Option.some.injEq] at ha
        subst ha
        refine ⟨hAu, by rw [hnode]; simp [adel, gd.hp], p, absNode_arr_par i.wf gd.hp gd.hmem, fun f hf => ?_⟩
        rw [hnode] at hf; simp [adel, gd.hp, hpu] at hf
      · intro a ha
        obtain ⟨hAa, _, _⟩ := hdeadA a ha
        have h1 : a ≠ u := fun h => hAu (h ▸ hAa)
        have h2 : a ≠ p := fun h => hAp (h ▸ hAa)
        rw [hnode]; simp [adel, gd.hp, h1, h2, hAa]
    · obtain ⟨d', he, res, hpl⟩ := remove_explicit (ts0 := g.next) (ts := g.next) (src := .loc) i.wf i.bd i.pl hL
        gr rfl
      have hinv : inv3 H g.doc (.remove p u g.next) = removeRev H g.doc p u g.next := by simp only [inv3, gr.hp]
      obtain ⟨b, hbu, hbl⟩ := gr.hleaf
      have hAu : absNode g.doc u ≠ none := by rw [hbu]; simp
      have hAp : absNode g.doc p ≠ none := by rw [gr.hp]; simp
      have hnode' : absNode d' = aexec3 H (absNode g.doc) (.remove p u g.next) := by
        rw [res.node]; simp only [aexec3, aexec, gr.hp]
      refine inv3_do_finish (op := .remove p u g.next) i
        (by rw [hinv]; exact doChange_one (by rfl) he) (Or.inr ⟨f, gr⟩)
        (show u.lamport ≤ g.lamport + 1 by have := absNode_some_bound i.bd hAu; omega)
        res.wf res.bd (hpl.mono (by omega)) res.skel hnode' ?_ ?_
      · intro a ha; rw [hinv, removeRev_addId] at ha; cases ha
      · intro a ha
        obtain ⟨hAa, _, _⟩ := hdeadA a ha
        have h1 : a ≠ u := fun h => hAu (h ▸ hAa)
        have h2 : a ≠ p := fun h => hAp (h ▸ hAa)
        rw [res.node]; simp [aexec, aremove, gr.hp, h1, h2, hAa]
  | increase c delta =>
    obtain ⟨l, v, hc, hwd, hwv⟩ := hg
    obtain ⟨d', he, res, hpl⟩ := inc_explicit (tw := noTw) (ts0 := g.next) (ts := g.next) (src := .loc) i.wf i.bd
      i.pl hL hc hwd hwv rfl
    have hinv : inv3 H g.doc (.increase c delta g.next) = .increase c (wrap l (-delta)) g.next := by
      simp only [inv3, hc]
    have hAc : absNode g.doc c ≠ none := by rw [hc]; simp
    refine inv3_do_finish (op := .increase c delta g.next) i
      (by rw [hinv]; exact doChange_one (by rfl) he) ⟨l, v, hc, hwd, hwv⟩
      (show c.lamport ≤ g.lamport + 1 by have := absNode_some_bound i.bd hAc; omega)
      res.wf res.bd (hpl.mono (by omega)) res.skel res.node ?_ ?_
    · intro a ha; rw [hinv] at ha; cases ha
    · intro a ha
      obtain ⟨hAa, _, _⟩ := hdeadA a ha
      have h1 : a ≠ c := fun h => hAc (h ▸ hAa)
      rw [res.node]; simp [aexec, ainc, h1, hAa]
  | insert p prev v =>
    obtain ⟨l, ga⟩ := hg
    have hts : g.next ≠ headId := by
      intro h
      have : g.next.lamport = 0 := by rw [h]; rfl
      omega
    obtain ⟨d', he, hwf, hbd, hpl, hsk, hnode⟩ := step_add (tw := noTw) (src := .loc) (ts := g.next)
      (val := UVal.ofVal v g.next) i.wf i.bd i.pl hL hts ga.hp ga.hprev ga.hleaf ga.hrem ga.hpar rfl
    have he' : uexecute g.doc noTw .loc (.add p prev (UVal.ofVal v g.next) g.next) =
        .ok (d', some (.remove p g.next g.next)) := he
    have hAp : absNode g.doc p ≠ none := by rw [ga.hp]; simp
    have hprevN : prev.lamport ≤ g.lamport + 1 := by
      rcases ga.hprev with h | h
      · rw [h]; show (0 : Int) ≤ g.lamport + 1; omega
      · have := (absNode_arr_plain i.pl ga.hp).2.2 prev h; omega
    refine inv3_do_finish (op := .add p prev (UVal.ofVal v g.next) g.next) i (doChange_add he') ⟨l, ga⟩
      ⟨hprevN, show g.next.lamport ≤ g.lamport + 1 by omega⟩ hwf hbd hpl hsk hnode ?_ ?_
    · intro a ha; cases ha
    · intro a ha
      obtain ⟨hAa, _, haN⟩ := hdeadA a ha
      have h1 : a ≠ g.next := fun h => by rw [h] at haN; omega
      have h2 : a ≠ p := fun h => hAp (h ▸ hAa)
      rw [hnode]; simp [aadd, ga.hp, h1, h2, hAa]

end Yorkie.Undo
