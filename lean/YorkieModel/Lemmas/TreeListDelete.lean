/- pkg/treelist Delete: exact aggregates are preserved, the addressing scheme (structural
index against exact cached counts) satisfies `NavSpec`, hence Delete removes exactly the
addressed node and keeps the red-black invariants. -/
import YorkieModel.Lemmas.TreeList2
import YorkieModel.Lemmas.RBDelete3
namespace Yorkie.TreeList
open Yorkie.RB Yorkie.RB.T

/-! ### sizes are not changed by restructuring -/

theorem size_rotateLeft (t : T) : (rotateLeft cfg t).size = t.size := by
  unfold rotateLeft; split <;> simp [mkN]; omega

theorem size_rotateRight (t : T) : (rotateRight cfg t).size = t.size := by
  unfold rotateRight; split <;> simp [mkN]; omega

theorem weight_flipRoot (t : T) : weight (flipRoot t) = weight t := by cases t <;> rfl
theorem count_flipRoot (t : T) : count (flipRoot t) = count t := by cases t <;> rfl

/-! ### exact aggregates under rotations etc. (full `wf`, not only below the root) -/

theorem wf_rotateLeft_full {t : T} (h : wf t) :
    wf (rotateLeft cfg t) ∧ weight (rotateLeft cfg t) = weight t ∧ count (rotateLeft cfg t) = count t := by
  unfold rotateLeft; split
  · next l a c rl b _ rr =>
    simp only [wf_node] at h
    obtain ⟨h1, ⟨h2, h3, h4, h5⟩, h6, h7⟩ := h
    simp only [wf_mkN, weight_mkN, count_mkN, weight_node, count_node]
    exact ⟨⟨⟨h1, h2⟩, h3⟩, by simp only [weight_node] at h6 ⊢; omega, by simp only [count_node] at h7 ⊢; omega⟩
  · exact ⟨h, rfl, rfl⟩

theorem wf_rotateRight_full {t : T} (h : wf t) :
    wf (rotateRight cfg t) ∧ weight (rotateRight cfg t) = weight t ∧ count (rotateRight cfg t) = count t := by
  unfold rotateRight; split
  · next ll b _ lr a c r =>
    simp only [wf_node] at h
    obtain ⟨⟨h1, h2, h4, h5⟩, h3, h6, h7⟩ := h
    simp only [wf_mkN, weight_mkN, count_mkN, weight_node, count_node]
    exact ⟨⟨h1, h2, h3⟩, by simp only [weight_node] at h6 ⊢; omega, by simp only [count_node] at h7 ⊢; omega⟩
  · exact ⟨h, rfl, rfl⟩

theorem wf_node_congr {l r r' : T} {a : P} {c c' : Bool} (h : wf (node l a c r)) (hr : wf r')
    (hw : weight r' = weight r) (hc : count r' = count r) : wf (node l a c' r') := by
  simp only [wf_node] at h ⊢
  exact ⟨h.1, hr, by rw [hw]; exact h.2.2.1, by rw [hc]; exact h.2.2.2⟩

theorem wf_recolor {l r : T} {a : P} {c : Bool} (c' : Bool) (h : wf (node l a c r)) : wf (node l a c' r) := h

theorem wf_flipL {l r : T} {a : P} {c : Bool} (h : wf (node l a c r)) : wf (node (flipRoot l) a c r) := by
  simp only [wf_node, wf_flipRoot, weight_flipRoot, count_flipRoot] at h ⊢; exact h

theorem wf_flipR {l r : T} {a : P} {c : Bool} (h : wf (node l a c r)) : wf (node l a c (flipRoot r)) := by
  simp only [wf_node, wf_flipRoot, weight_flipRoot, count_flipRoot] at h ⊢; exact h

theorem wf_moveRedLeft {t : T} (h : wf t) : wf (moveRedLeft cfg t) := by
  have h1 := wf_flip h
  unfold moveRedLeft
  split
  · next l a c r e =>
    rw [e] at h1
    split
    · obtain ⟨g1, g2, g3⟩ := wf_rotateRight_full (t := r) h1.2.1
      exact wf_flip (wf_rotateLeft_full (wf_node_congr h1 g1 g2 g3)).1
    · exact h1
  · trivial

theorem wf_moveRedRight {t : T} (h : wf t) : wf (moveRedRight cfg t) := by
  have h1 := wf_flip h
  unfold moveRedRight
  simp only []
  split
  · exact wf_flip (wf_rotateRight_full h1).1
  · exact h1

theorem wf_removeMin : ∀ (f : Nat) (t : T), wf t → wf (removeMin cfg f t) := by
  intro f
  induction f with
  | zero => intro t h; simpa [removeMin] using h
  | succ f ih =>
    intro t h
    rcases t with _ | ⟨l, a, c, r⟩
    · trivial
    rcases l with _ | ⟨ll, la, lc, lr⟩
    · simp [removeMin]
    · simp only [removeMin]
      split
      · next l1 a1 c1 r1 e =>
        have : wf (node l1 a1 c1 r1) := by
          rw [← e]; split
          · exact wf_moveRedLeft h
          · exact h
        exact wf_fixUp _ ⟨ih l1 this.1, this.2.1⟩
      · trivial

theorem wf_del : ∀ (f : Nat) (t : T) (q : Nat), wf t → wf (del cfg f t q) := by
  intro f
  induction f with
  | zero => intro t q h; simpa [del] using h
  | succ f ih =>
    intro t q h
    rcases t with _ | ⟨l, a, c, r⟩
    · trivial
    simp only [del]
    split
    · split
      · exact h
      · split
        · next l1 a1 c1 r1 e =>
          have : wf (node l1 a1 c1 r1) := by
            rw [← e]; split
            · exact wf_moveRedLeft h
            · exact h
          exact wf_fixUp _ ⟨ih l1 q this.1, this.2.1⟩
        · trivial
    · have h1 : wf (if l.isRed = true then rotateRight cfg (node l a c r) else node l a c r) := by
        split
        · exact (wf_rotateRight_full h).1
        · exact h
      split
      · trivial
      · next l1 a1 c1 r1 e =>
        rw [e] at h1
        split
        · trivial
        · split
          · exact h1
          · split
            · trivial
            · next l2 a2 c2 r2 e2 =>
              have h2 : wf (node l2 a2 c2 r2) := by
                rw [← e2]; split
                · exact wf_moveRedRight h1
                · exact h1
              split
              · split
                · exact wf_fixUp _ ⟨h2.1, wf_removeMin f r2 h2.2.1⟩
                · exact h2
              · exact wf_fixUp _ ⟨h2.1, ih r2 _ h2.2.1⟩

theorem wf_rbdelete {t : T} (q : Nat) (h : wf t) : wf (RB.delete cfg t q) := by
  rcases t with _ | ⟨l, a, c, r⟩
  · trivial
  simp only [RB.delete]
  apply wf_blacken.2
  apply wf_del
  split <;> exact h

/-! ### the addressing scheme -/

/-- structural index `i` against exact cached counts -/
def Tgt (t : T) (q i : Nat) : Prop := wf t ∧ q = i ∧ i < t.size

theorem navSpec : NavSpec cfg Tgt where
  lt_iff := by
    rintro l a c r q i ⟨hw, rfl, hi⟩
    have := count_eq_size hw.1
    simp only [cfg_nav, this]
    split
    · simp [*]
    · split <;> simp_all
  eq_iff := by
    rintro l a c r q i ⟨hw, rfl, hi⟩
    have := count_eq_size hw.1
    simp only [cfg_nav, this]
    split
    · simp; omega
    · split <;> simp_all
  bound := fun h => h.2.2
  left := by
    rintro l a c r q i ⟨hw, rfl, hi⟩ hlt
    exact ⟨hw.1, rfl, hlt⟩
  right := by
    rintro l a c r q i ⟨hw, rfl, hi⟩ hgt
    have := count_eq_size hw.1
    simp only [size_node] at hi
    exact ⟨hw.2.1, by simp [cfg_nav, this], by omega⟩
  recolor := by
    rintro l a c r q i c' ⟨hw, rfl, hi⟩
    exact ⟨wf_recolor c' hw, rfl, hi⟩
  flipL := by
    rintro l a c r q i ⟨hw, rfl, hi⟩
    exact ⟨wf_flipL hw, rfl, by simpa [size_flipRoot] using hi⟩
  flipR := by
    rintro l a c r q i ⟨hw, rfl, hi⟩
    exact ⟨wf_flipR hw, rfl, by simpa [size_flipRoot] using hi⟩
  rotL := by
    rintro t q i ⟨hw, rfl, hi⟩
    exact ⟨(wf_rotateLeft_full hw).1, rfl, by rw [size_rotateLeft]; exact hi⟩
  rotR := by
    rintro t q i ⟨hw, rfl, hi⟩
    exact ⟨(wf_rotateRight_full hw).1, rfl, by rw [size_rotateRight]; exact hi⟩
  rotRchild := by
    rintro l a c r q i ⟨hw, rfl, hi⟩
    obtain ⟨g1, g2, g3⟩ := wf_rotateRight_full (t := r) hw.2.1
    exact ⟨wf_node_congr hw g1 g2 g3, rfl, by simpa [size_rotateRight] using hi⟩

/-! ### Delete -/

theorem spec_delete_idx {x : Nat} {L : Spec.L} {i : Nat} (hn : (Spec.ids L).Nodup)
    (hi : (Spec.ids L)[i]? = some x) : Spec.delete x L = L.eraseIdx i := by
  induction L generalizing i with
  | nil => simp [Spec.ids] at hi
  | cons a L ih =>
    simp only [Spec.ids, List.map_cons, List.nodup_cons] at hn
    cases i with
    | zero =>
      simp [Spec.ids] at hi
      simp [Spec.delete, hi]
    | succ i =>
      simp only [Spec.ids, List.map_cons, List.getElem?_cons_succ] at hi
      have hne : a.1 ≠ x := by
        rintro rfl
        exact hn.1 (List.mem_of_getElem? hi)
      simp only [Spec.delete, hne, if_false, List.eraseIdx_cons_succ]
      rw [ih hn.2 hi]

/-- invariant of the position index between calls -/
def Inv (t : T) : Prop := wf t ∧ (ids t).Nodup ∧ RBInv t

instance (t : T) : Decidable (Inv t) := by unfold Inv; infer_instance

theorem delete_spec {x : Nat} {t : T} (hi : Inv t) (hx : x ∈ ids t) :
    toList (delete x t) = Spec.delete x (toList t) ∧ wf (delete x t) ∧ RBInv (delete x t) := by
  obtain ⟨hw, hn, hrb⟩ := hi
  obtain ⟨i, h1, h2, h3⟩ := sIndexOf_spec hw hn hx
  obtain ⟨g1, g2⟩ := delete_good (key := key) keyOK navSpec (t := t) (q := i) (i := i) ⟨hw, rfl, h2⟩ hrb
  simp only [delete, h1]
  refine ⟨?_, wf_rbdelete i hw, g1⟩
  have e : Spec.ids (klist key t) = ids t := (ids_eq t).symm
  rw [toList_eq_klist, g2, toList_eq_klist, spec_delete_idx (i := i) (by rw [e]; exact hn) (by rw [e]; exact h3)]

end Yorkie.TreeList
