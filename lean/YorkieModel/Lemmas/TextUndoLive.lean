/-
Text undo/redo: how every operation changes the liveness of CELLS (`liveAt`). Core Lean only.

Splits re-chunk cells but never change which of them are live; maps that keep the shape and the
liveness of blocks change nothing; a flip on a tiled span sets / clears exactly the cells of the
span; the identity-preserving reverse Edit is `effRev`; a forward edit is
`assign [inserted run] removedSpans`; styling changes nothing.
-/
import YorkieModel.Lemmas.TextUndoCells
import YorkieModel.Lemmas.TextUndoRestore
import YorkieModel.Lemmas.TextUndoTiled
namespace Yorkie.TextUndo
open Yorkie Yorkie.Text

/-! ### basic facts -/

theorem lv_liveAt_iff {s : TextSt} {c : Id} :
    liveAt s c = true ↔ ∃ n ∈ s, n.live = true ∧ covers c.1 c.2 n = true := by
  simp [liveAt, List.any_eq_true]

theorem lv_ext {f g : Id → Bool} (h : ∀ c, f c = true ↔ g c = true) : f = g := by
  funext c
  exact Bool.eq_iff_iff.mpr (h c)

theorem lv_liveAt_map_iff {f : TNode → TNode} (hf : Text.KeepsShape f) {s : TextSt} {c : Id} :
    liveAt (s.map f) c = true ↔ ∃ n ∈ s, (f n).live = true ∧ covers c.1 c.2 n = true := by
  rw [lv_liveAt_iff]
  constructor
  · rintro ⟨x, hx, hl, hc⟩
    obtain ⟨n, hn, rfl⟩ := List.mem_map.mp hx
    exact ⟨n, hn, hl, by rw [← covers_congr (hf n).1 (keeps_len hf n)]; exact hc⟩
  · rintro ⟨n, hn, hl, hc⟩
    exact ⟨f n, List.mem_map.mpr ⟨n, hn, rfl⟩, hl,
      by rw [covers_congr (hf n).1 (keeps_len hf n)]; exact hc⟩

/-- under `WF` the block covering a cell is unique -/
theorem lv_cover_unique {s : TextSt} (wf : WF s) {a b : TNode} (ha : a ∈ s) (hb : b ∈ s) {ca : Ticket}
    {c : Nat} (h1 : covers ca c a = true) (h2 : covers ca c b = true) : a = b := by
  rw [covers_iff] at h1 h2
  have e : a.id.1 = b.id.1 := by rw [h1.1, h2.1]
  rcases Nat.lt_trichotomy a.id.2 b.id.2 with hlt | heq | hgt
  · have := wf.disjoint a ha b hb e hlt; omega
  · exact eq_of_id_eq wf.nodup ha hb (Prod.ext e heq)
  · have := wf.disjoint b hb a ha e.symm hgt; omega

/-! ### 1. splits -/

theorem liveAt_splitNode {s : TextSt} (wf : WF s) {n : TNode} (hn : n ∈ s) {k : Nat} (h0 : 0 < k)
    (hk : k < n.len) : liveAt (splitNode s n k) = liveAt s := by
  have mem := @mem_splitNode s n k hn h0 hk
  apply lv_ext; intro c
  rw [lv_liveAt_iff, lv_liveAt_iff]
  constructor
  · rintro ⟨x, hx, hl, hc⟩
    rcases mem.mp hx with rfl | ⟨m, hm, rfl⟩
    · refine ⟨n, hn, hl, ?_⟩
      rw [covers_iff] at hc ⊢
      rw [rightPart_id1, rightPart_id2, rightPart_len] at hc
      exact ⟨hc.1, by omega, by omega⟩
    · refine ⟨m, hm, by simpa using hl, ?_⟩
      rw [covers_iff] at hc ⊢
      simp only [splitMap_id] at hc
      have := splitMap_len_le n k m
      exact ⟨hc.1, hc.2.1, by omega⟩
  · rintro ⟨m, hm, hl, hc⟩
    rw [covers_iff] at hc
    by_cases hid : m.id = n.id
    · have : m = n := eq_of_id_eq wf.nodup hm hn hid
      subst this
      by_cases hck : c.2 < m.id.2 + k
      · refine ⟨splitMap m k m, mem.mpr (Or.inr ⟨m, hm, rfl⟩), by simpa using hl, ?_⟩
        rw [covers_iff, splitMap_id, splitMap_len_self m (by omega)]
        exact ⟨hc.1, hc.2.1, hck⟩
      · refine ⟨rightPart m k, mem.mpr (Or.inl rfl), hl, ?_⟩
        rw [covers_iff, rightPart_id1, rightPart_id2, rightPart_len]
        exact ⟨hc.1, by omega, by omega⟩
    · refine ⟨splitMap n k m, mem.mpr (Or.inr ⟨m, hm, rfl⟩), by simpa using hl, ?_⟩
      rw [covers_iff, splitMap_id, splitMap_len_other k hid]
      exact hc

theorem liveAt_fnws {s s1 : TextSt} (wf : WF s) {pos : Pos} {ts : Ticket} {l : Id} {r : Option Id}
    (h : findNodeWithSplit s pos ts = .ok (s1, l, r)) : liveAt s1 = liveAt s := by
  rcases fnws_cases h with rfl | ⟨n, hn, k, h0, hk, rfl⟩
  · rfl
  · exact liveAt_splitNode wf hn h0 hk

/-! ### 2. maps that keep shape and liveness -/

theorem liveAt_map_keeps {f : TNode → TNode} (hf : Text.KeepsShape f) (hl : ∀ n, (f n).live = n.live)
    (s : TextSt) : liveAt (s.map f) = liveAt s := by
  apply lv_ext; intro c
  rw [lv_liveAt_map_iff hf, lv_liveAt_iff]
  simp only [hl]

/-! ### 3. flips on a tiled span -/

/-- on a tiled span, a block is in the span iff (any of) its cells are -/
theorem lv_inSpan_cell {s : TextSt} {sp : Span} (t : Tiled s sp) {n : TNode} (hn : n ∈ s) {c : Id}
    (hc : covers c.1 c.2 n = true) : inSpan sp n = inSpanC sp c := by
  rw [covers_iff] at hc
  apply Bool.eq_iff_iff.mpr
  rw [inSpan_iff]
  simp only [inSpanC, Bool.and_eq_true, decide_eq_true_eq]
  constructor
  · rintro ⟨h1, h2, h3, h4⟩
    have := t.inside n hn h1 h3 (by omega)
    exact ⟨⟨by rw [← hc.1, h1], by omega⟩, by omega⟩
  · rintro ⟨⟨h1, h2⟩, h3⟩
    have e : n.id.1 = sp.ca := by rw [hc.1, h1]
    have := t.inside n hn e (by omega) (by omega)
    exact ⟨e, by omega, by omega, by omega⟩

theorem lv_inSpanC_covered {s : TextSt} {sp : Span} (t : Tiled s sp) {c : Id}
    (h : inSpanC sp c = true) : ∃ n ∈ s, covers c.1 c.2 n = true := by
  simp only [inSpanC, Bool.and_eq_true, decide_eq_true_eq] at h
  obtain ⟨n, hn, hc⟩ := t.cover c.2 h.1.2 h.2
  exact ⟨n, hn, by rw [h.1.1]; exact hc⟩

theorem liveAt_revive {s : TextSt} (wf : WF s) {sp : Span} (t : Tiled s sp) :
    liveAt (s.map (revive sp)) = fun c => liveAt s c || inSpanC sp c := by
  have _ := wf
  apply lv_ext; intro c
  rw [lv_liveAt_map_iff (keeps_revive sp)]
  simp only [Bool.or_eq_true, lv_liveAt_iff]
  constructor
  · rintro ⟨n, hn, hl, hc⟩
    rw [revive_live, Bool.or_eq_true] at hl
    rcases hl with hl | hl
    · exact Or.inl ⟨n, hn, hl, hc⟩
    · rw [lv_inSpan_cell t hn hc] at hl; exact Or.inr hl
  · rintro (⟨n, hn, hl, hc⟩ | h)
    · exact ⟨n, hn, by rw [revive_live, hl]; rfl, hc⟩
    · obtain ⟨n, hn, hc⟩ := lv_inSpanC_covered t h
      exact ⟨n, hn, by rw [revive_live, lv_inSpan_cell t hn hc, h]; simp, hc⟩

theorem liveAt_kill {s : TextSt} (wf : WF s) {sp : Span} (t : Tiled s sp) (ts : Ticket) :
    liveAt (s.map (kill ts sp)) = fun c => liveAt s c && !inSpanC sp c := by
  have _ := wf
  apply lv_ext; intro c
  rw [lv_liveAt_map_iff (keeps_kill ts sp)]
  simp only [Bool.and_eq_true, lv_liveAt_iff, Bool.not_eq_true', ]
  constructor
  · rintro ⟨n, hn, hl, hc⟩
    rw [kill_live, Bool.and_eq_true, Bool.not_eq_true', lv_inSpan_cell t hn hc] at hl
    exact ⟨⟨n, hn, hl.1, hc⟩, hl.2⟩
  · rintro ⟨⟨n, hn, hl, hc⟩, h⟩
    exact ⟨n, hn, by rw [kill_live, lv_inSpan_cell t hn hc, hl, h]; rfl, hc⟩

theorem lv_keeps_reviveAll (sps : List Span) : Text.KeepsShape (reviveAll sps) := fun n =>
  ⟨(onlyRemoved_reviveAll sps n).1, (onlyRemoved_reviveAll sps n).2.1, (onlyRemoved_reviveAll sps n).2.2.2⟩

theorem lv_keeps_killAll (ts : Ticket) (sps : List Span) : Text.KeepsShape (killAll ts sps) := fun n =>
  ⟨(onlyRemoved_killAll ts sps n).1, (onlyRemoved_killAll ts sps n).2.1,
    (onlyRemoved_killAll ts sps n).2.2.2⟩

theorem lv_inAny_nil (c : Id) : inAny [] c = false := rfl

theorem lv_inAny_cons (sp : Span) (r : List Span) (c : Id) :
    inAny (sp :: r) c = (inSpanC sp c || inAny r c) := rfl

theorem lv_map_reviveAll_cons (sp : Span) (r : List Span) (s : TextSt) :
    s.map (reviveAll (sp :: r)) = (s.map (revive sp)).map (reviveAll r) := by
  rw [List.map_map]; rfl

theorem lv_map_killAll_cons (ts : Ticket) (sp : Span) (r : List Span) (s : TextSt) :
    s.map (killAll ts (sp :: r)) = (s.map (kill ts sp)).map (killAll ts r) := by
  rw [List.map_map]; rfl

theorem liveAt_reviveAll {s : TextSt} (wf : WF s) {sps : List Span} (t : ∀ sp ∈ sps, Tiled s sp) :
    liveAt (s.map (reviveAll sps)) = fun c => liveAt s c || inAny sps c := by
  induction sps generalizing s with
  | nil =>
    funext c
    rw [show reviveAll [] = id from rfl, List.map_id, lv_inAny_nil, Bool.or_false]
  | cons sp r ih =>
    have kp := keeps_revive sp
    rw [lv_map_reviveAll_cons, ih (wf_map_keeps wf kp)
      (fun sp' h' => tiled_map_keeps_r kp (t sp' (List.mem_cons_of_mem _ h'))),
      liveAt_revive wf (t sp (by simp))]
    funext c
    rw [lv_inAny_cons, Bool.or_assoc]

theorem liveAt_killAll {s : TextSt} (wf : WF s) {sps : List Span} (t : ∀ sp ∈ sps, Tiled s sp)
    (ts : Ticket) : liveAt (s.map (killAll ts sps)) = fun c => liveAt s c && !inAny sps c := by
  induction sps generalizing s with
  | nil =>
    funext c
    rw [show killAll ts [] = id from rfl, List.map_id, lv_inAny_nil]; simp
  | cons sp r ih =>
    have kp := keeps_kill ts sp
    rw [lv_map_killAll_cons, ih (wf_map_keeps wf kp)
      (fun sp' h' => tiled_map_keeps_r kp (t sp' (List.mem_cons_of_mem _ h'))),
      liveAt_kill wf (t sp (by simp))]
    funext c
    rw [lv_inAny_cons, Bool.not_or, Bool.and_assoc]

/-! ### 4. the identity-preserving reverse Edit -/

theorem lv_assign_eq (on off : List Span) (L : Id → Bool) :
    assign on off L = fun c => (L c && !inAny off c) || inAny on c := by
  funext c
  unfold assign
  cases inAny on c <;> cases inAny off c <;> cases L c <;> rfl

theorem execSpans_sem {s : TextSt} (wf : WF s) {fr : Pos} {R K : List Span} {m : RMode} {ts : Ticket}
    {vv : Option VV} (tR : ∀ sp ∈ R, Tiled s sp) (tK : ∀ sp ∈ K, Tiled s sp)
    (hv : validSpans vv R = true ∧ validSpans vv K = true) :
    ∃ res g, execSpans fr R m K ts vv s = .ok res ∧ res.st = s.map g ∧ Text.KeepsShape g ∧
      res.rev = some (.spans fr R m.flip K) ∧ liveAt res.st = effRev (.spans fr R m K) (liveAt s) := by
  have hv' : (!(validSpans vv R && validSpans vv K)) = false := by simp [hv.1, hv.2]
  cases m with
  | restore =>
    obtain ⟨c1, e1⟩ := retombAll_tiled wf ts tK false
    have kK := lv_keeps_killAll ts K
    have wf1 := wf_map_keeps wf kK
    have tR1 : ∀ sp ∈ R, Tiled (s.map (killAll ts K)) sp := fun sp h => tiled_map_keeps_r kK (tR sp h)
    obtain ⟨c2, e2⟩ := restoreAll_tiled wf1 tR1 c1
    refine ⟨⟨(s.map (killAll ts K)).map (reviveAll R), some (.spans fr R RMode.restore.flip K), c2⟩, reviveAll R ∘ killAll ts K, ?_, ?_, ?_, rfl, ?_⟩
    · unfold execSpans
      simp only [hv', Bool.false_eq_true, if_false, e1, e2]
    · simp only [List.map_map]
    · intro n
      have h1 := lv_keeps_reviveAll R (killAll ts K n)
      have h2 := kK n
      exact ⟨h1.1.trans h2.1, h1.2.1.trans h2.2.1, h1.2.2.trans h2.2.2⟩
    · show liveAt ((s.map (killAll ts K)).map (reviveAll R)) = assign R K (liveAt s)
      rw [liveAt_reviveAll wf1 tR1, liveAt_killAll wf tK, lv_assign_eq]
  | retombstone =>
    obtain ⟨c1, e1⟩ := retombAll_tiled wf ts tR false
    have kK := lv_keeps_killAll ts R
    have wf1 := wf_map_keeps wf kK
    have tK1 : ∀ sp ∈ K, Tiled (s.map (killAll ts R)) sp := fun sp h => tiled_map_keeps_r kK (tK sp h)
    obtain ⟨c2, e2⟩ := restoreAll_tiled wf1 tK1 c1
    refine ⟨⟨(s.map (killAll ts R)).map (reviveAll K), some (.spans fr R RMode.retombstone.flip K), c2⟩, reviveAll K ∘ killAll ts R, ?_, ?_, ?_, rfl, ?_⟩
    · unfold execSpans
      simp only [hv', Bool.false_eq_true, if_false, e1, e2]
    · simp only [List.map_map]
    · intro n
      have h1 := lv_keeps_reviveAll K (killAll ts R n)
      have h2 := kK n
      exact ⟨h1.1.trans h2.1, h1.2.1.trans h2.2.1, h1.2.2.trans h2.2.2⟩
    · show liveAt ((s.map (killAll ts R)).map (reviveAll K)) = assign K R (liveAt s)
      rw [liveAt_reviveAll wf1 tK1, liveAt_killAll wf tR, lv_assign_eq]

/-! ### 5. the forward edit -/

/-- `deleteNodes` on one block: it dies iff it is a known, live candidate -/
theorem lv_applyRemove_live (cand : List Id) (ts : Ticket) (vv : Option VV) (m : TNode) :
    (applyTo cand (removeNode ts vv) m).live =
      (m.live && !(cand.contains m.id && known vv m.id.1 && m.live)) := by
  unfold applyTo
  cases hc : cand.contains m.id with
  | false => simp
  | true =>
    simp only [if_true]
    unfold removeNode
    cases hk : known vv m.id.1 with
    | false => simp
    | true =>
      simp only [Bool.not_true, Bool.false_eq_true, if_false]
      cases hr : m.removedAt with
      | none => simp [TNode.live, hr]
      | some r =>
        simp only
        split <;> simp [TNode.live, hr]

/-- the cells of the span of a block are the cells the block covers -/
theorem lv_inSpanC_iff {sp : Span} {c : Id} :
    inSpanC sp c = true ↔ c.1 = sp.ca ∧ sp.start ≤ c.2 ∧ c.2 < sp.stop := by
  simp [inSpanC, and_assoc]

theorem lv_inSpanC_spanOf (m : TNode) (c : Id) : inSpanC (spanOf m) c = covers c.1 c.2 m := by
  apply Bool.eq_iff_iff.mpr
  rw [lv_inSpanC_iff, covers_iff]
  show c.1 = m.id.1 ∧ m.id.2 ≤ c.2 ∧ c.2 < m.id.2 + m.len ↔ _
  constructor
  · rintro ⟨h1, h2, h3⟩; exact ⟨h1.symm, h2, h3⟩
  · rintro ⟨h1, h2, h3⟩; exact ⟨h1.symm, h2, h3⟩

theorem lv_inAny_spans {s : TextSt} {P : TNode → Bool} {c : Id} :
    inAny ((List.filter P s).map spanOf) c = true ↔
      ∃ m ∈ s, P m = true ∧ covers c.1 c.2 m = true := by
  unfold inAny
  rw [List.any_eq_true]
  constructor
  · rintro ⟨sp, hsp, h⟩
    obtain ⟨m, hm, rfl⟩ := List.mem_map.mp hsp
    rw [lv_inSpanC_spanOf] at h
    have := List.mem_filter.mp hm
    exact ⟨m, this.1, this.2, h⟩
  · rintro ⟨m, hm, hp, hc⟩
    exact ⟨spanOf m, List.mem_map.mpr ⟨m, List.mem_filter.mpr ⟨hm, hp⟩, rfl⟩,
      by rw [lv_inSpanC_spanOf]; exact hc⟩

theorem lv_liveAt_remove {s : TextSt} (wf : WF s) (cand : List Id) (ts : Ticket) (vv : Option VV) :
    liveAt (s.map (applyTo cand (removeNode ts vv))) = fun c => liveAt s c &&
      !inAny ((List.filter (fun n => cand.contains n.id && known vv n.id.1 && n.live) s).map spanOf) c := by
  apply lv_ext; intro c
  rw [lv_liveAt_map_iff (keeps_applyTo (keeps_removeNode ts vv) cand), Bool.and_eq_true,
    Bool.not_eq_true', ← Bool.not_eq_true, lv_inAny_spans, lv_liveAt_iff]
  constructor
  · rintro ⟨m, hm, hl, hc⟩
    rw [lv_applyRemove_live, Bool.and_eq_true, Bool.not_eq_true'] at hl
    refine ⟨⟨m, hm, hl.1, hc⟩, ?_⟩
    rintro ⟨m', hm', hp, hc'⟩
    have := lv_cover_unique wf hm hm' hc hc'
    subst this
    rw [hl.2] at hp; cases hp
  · rintro ⟨⟨m, hm, hl, hc⟩, hno⟩
    refine ⟨m, hm, ?_, hc⟩
    cases hp : (cand.contains m.id && known vv m.id.1 && m.live) with
    | false => rw [lv_applyRemove_live, hp, hl]; rfl
    | true => exact absurd ⟨m, hm, hp, hc⟩ hno

theorem lv_removed_live {s : TextSt} {cand : List Id} {vv : Option VV} {c : Id}
    (h : inAny ((List.filter (fun n => cand.contains n.id && known vv n.id.1 && n.live) s).map spanOf) c
      = true) : liveAt s c = true := by
  obtain ⟨m, hm, hp, hc⟩ := lv_inAny_spans.mp h
  simp only [Bool.and_eq_true] at hp
  exact lv_liveAt_iff.mpr ⟨m, hm, hp.2, hc⟩

theorem lv_liveAt_insert {s : TextSt} {i : Id} (hi : i ∈ ids s) (new : TNode) (c : Id) :
    liveAt (insertAfterId s i new) c = (liveAt s c || (new.live && covers c.1 c.2 new)) := by
  apply Bool.eq_iff_iff.mpr
  simp only [Bool.or_eq_true, Bool.and_eq_true, lv_liveAt_iff]
  constructor
  · rintro ⟨x, hx, hl, hc⟩
    rcases (mem_insertAfterId hi).mp hx with rfl | hx
    · exact Or.inr ⟨hl, hc⟩
    · exact Or.inl ⟨x, hx, hl, hc⟩
  · rintro (⟨x, hx, hl, hc⟩ | ⟨hl, hc⟩)
    · exact ⟨x, (mem_insertAfterId hi).mpr (Or.inr hx), hl, hc⟩
    · exact ⟨new, (mem_insertAfterId hi).mpr (Or.inl rfl), hl, hc⟩

theorem lv_newNode_cell (ts : Ticket) (content : List Nat) (attrs : List (String × String)) (c : Id) :
    ((newNode ts content attrs).live && covers c.1 c.2 (newNode ts content attrs)) =
      inAny [{ ca := ts, start := 0, stop := content.length, content := content }] c := by
  apply Bool.eq_iff_iff.mpr
  rw [lv_inAny_cons, lv_inAny_nil, Bool.or_false, lv_inSpanC_iff, Bool.and_eq_true, covers_iff]
  show _ ∧ (ts = c.1 ∧ 0 ≤ c.2 ∧ c.2 < 0 + content.length) ↔
    c.1 = ts ∧ 0 ≤ c.2 ∧ c.2 < content.length
  constructor
  · rintro ⟨_, h1, h2, h3⟩; exact ⟨h1.symm, h2, by omega⟩
  · rintro ⟨h1, h2, h3⟩; exact ⟨rfl, h1.symm, h2, by omega⟩

theorem lv_fresh_dead {s : TextSt} {ts : Ticket} (hf : Fresh s ts) (o : Nat) : liveAt s (ts, o) = false := by
  rw [← Bool.not_eq_true, lv_liveAt_iff]
  rintro ⟨n, hn, _, hc⟩
  exact hf n hn (covers_iff.mp hc).1

/-- `Text.Edit` on cells (any version vector) -/
theorem lv_edit_sem {s s' : TextSt} (wf : WF s) {fr to : Pos} {content : List Nat}
    {attrs : List (String × String)} {ts : Ticket} {vv : Option VV}
    (h : edit fr to content attrs ts vv s = .ok s') :
    liveAt s' = assign (if content.isEmpty then [] else
        [{ ca := ts, start := 0, stop := content.length, content := content }])
        (removedSpans fr to ts vv s) (liveAt s) ∧
    (∀ c, inAny (removedSpans fr to ts vv s) c = true → liveAt s c = true) ∧
    (∀ sp ∈ removedSpans fr to ts vv s, ∃ n ∈ s, n.id.1 = sp.ca) := by
  unfold edit at h
  unfold removedSpans
  split at h
  · cases h
  · rename_i s1 l1 toRight h1
    rw [h1]; simp only
    split at h
    · cases h
    · rename_i s2 fromLeft fromRight h2
      rw [h2]; simp only
      have wf1 := (fnws_wf wf h1).1
      have wf2 := (fnws_wf wf1 h2).1
      have hL : liveAt s2 = liveAt s := (liveAt_fnws wf1 h2).trans (liveAt_fnws wf h1)
      have keeps := keeps_applyTo (keeps_removeNode ts vv) (between s2 fromRight toRight)
      have h3 := lv_liveAt_remove wf2 (between s2 fromRight toRight) ts vv
      rw [hL] at h3
      refine ⟨?_, ?_, ?_⟩
      · simp only at h
        rw [lv_assign_eq]
        split at h
        · rename_i hemp
          injection h with h; subst h
          rw [h3, if_pos hemp]; funext c; rw [lv_inAny_nil, Bool.or_false]
        · rename_i hemp
          injection h with h; subst h
          rw [if_neg hemp]
          funext c
          rw [lv_liveAt_insert (by rw [ids_map_keeps keeps]; exact fnws_left_mem h2), h3,
            lv_newNode_cell]
      · intro c hc; rw [← hL]; exact lv_removed_live hc
      · intro sp hsp
        obtain ⟨n, hnf, rfl⟩ := List.mem_map.mp hsp
        have hn := (List.mem_filter.mp hnf).1
        obtain ⟨m1, hm1, e1⟩ := (fnws_wf wf1 h2).2 n hn
        obtain ⟨m0, hm0, e0⟩ := (fnws_wf wf h1).2 m1 hm1
        exact ⟨m0, hm0, by rw [← e0, ← e1]; rfl⟩

theorem execEdit_sem {s : TextSt} (wf : WF s) {fr to : Pos} {content : List Nat}
    {attrs : List (String × String)} {ts : Ticket} {vv : Option VV} {res : Res} (hfresh : Fresh s ts)
    (hc : Fixed content) (h : execEdit fr to content attrs ts vv s = .ok res) :
    edit fr to content attrs ts vv s = .ok res.st ∧
    (∃ fp, res.rev = some (reverseOfEdit fp (removedSpans fr to ts vv s) content ts)) ∧
    res.observable = (!content.isEmpty || !(removedSpans fr to ts vv s).isEmpty) ∧
    liveAt res.st = assign (if content.isEmpty then [] else
        [{ ca := ts, start := 0, stop := content.length, content := content }])
        (removedSpans fr to ts vv s) (liveAt s) ∧
    (∀ c, inAny (removedSpans fr to ts vv s) c = true → liveAt s c = true) ∧
    (∀ o, liveAt s (ts, o) = false) ∧
    (∀ sp ∈ removedSpans fr to ts vv s, ∃ n ∈ s, n.id.1 = sp.ca) := by
  have _ := hc
  unfold execEdit at h
  split at h
  · cases h
  · rename_i s' he
    simp only at h
    split at h
    · cases h
    · rename_i fp hfp
      injection h with h; subst h
      obtain ⟨h1, h2, h3⟩ := lv_edit_sem wf he
      exact ⟨he, ⟨fp, rfl⟩, rfl, h1, h2, lv_fresh_dead hfresh, h3⟩

/-! ### 6. style -/

theorem lv_styleNode_live (l : List Id) (ts : Ticket) (vv : Option VV)
    (g : List AttrNode → List AttrNode) (n : TNode) : (applyTo l (styleNode ts vv g) n).live = n.live := by
  unfold applyTo styleNode
  split
  · split <;> rfl
  · rfl

theorem lv_liveAt_styleWith {s s' : TextSt} (wf : WF s) {fr to : Pos}
    {g : List AttrNode → List AttrNode} {ts : Ticket} {vv : Option VV}
    (h : styleWith fr to g ts vv s = .ok s') : liveAt s' = liveAt s := by
  unfold styleWith at h
  split at h
  · cases h
  · rename_i s1 l1 toRight h1
    split at h
    · cases h
    · rename_i s2 fromLeft fromRight h2
      injection h with h; subst h
      rw [liveAt_map_keeps (keeps_applyTo (keeps_styleNode ts vv g) _) (lv_styleNode_live _ ts vv g),
        liveAt_fnws (fnws_wf wf h1).1 h2, liveAt_fnws wf h1]

theorem liveAt_styleOp {s s' : TextSt} (wf : WF s) {fr to : Pos} {attrs : List (String × String)}
    {keys : List String} {ts : Ticket} {vv : Option VV}
    (h : styleOp fr to attrs keys ts vv s = .ok s') : liveAt s' = liveAt s := by
  unfold styleOp at h
  split at h
  · cases h
  · rename_i s1 h1
    have w1 : WF s1 ∧ liveAt s1 = liveAt s := by
      split at h1
      · injection h1 with h1; subst h1; exact ⟨wf, rfl⟩
      · exact ⟨wf_styleWith wf h1, lv_liveAt_styleWith wf h1⟩
    split at h
    · injection h with h; subst h; exact w1.2
    · exact (lv_liveAt_styleWith w1.1 h).trans w1.2

theorem lv_rev_shape (fr to : Pos) (prev : List (String × String)) (rem : List String) :
    (if (prev.isEmpty && rem.isEmpty) = true then none else some (TRev.style fr to prev rem)) = none ∨
    ∃ f t a k, (if (prev.isEmpty && rem.isEmpty) = true then none else some (TRev.style fr to prev rem))
      = some (TRev.style f t a k) := by
  split
  · exact Or.inl rfl
  · exact Or.inr ⟨_, _, _, _, rfl⟩

theorem lv_execStyle_shape {s : TextSt} {fr to : Pos} {attrs : List (String × String)}
    {keys : List String} {ts : Ticket} {vv : Option VV} {res : Res}
    (h : execStyle fr to attrs keys ts vv s = .ok res) :
    styleOp fr to attrs keys ts vv s = .ok res.st ∧ res.observable = true ∧
      (res.rev = none ∨ ∃ f t a k, res.rev = some (.style f t a k)) := by
  unfold execStyle at h
  unfold styleOp
  simp only at h
  cases hk : keys.isEmpty with
  | true =>
    simp only [hk, if_true] at h ⊢
    cases ha : attrs.isEmpty with
    | true =>
      simp only [ha, if_true] at h ⊢
      injection h with h; subst h; exact ⟨rfl, rfl, Or.inl rfl⟩
    | false =>
      simp only [ha, Bool.false_eq_true, if_false] at h ⊢
      cases hs : style fr to attrs ts vv s with
      | error e => simp only [hs] at h; cases h
      | ok s2 =>
        simp only [hs] at h
        cases hf : firstStyled fr to ts vv s with
        | none =>
          simp only [hf] at h
          injection h with h; subst h; exact ⟨rfl, rfl, Or.inl rfl⟩
        | some as =>
          simp only [hf] at h
          injection h with h; subst h; exact ⟨rfl, rfl, lv_rev_shape _ _ _ _⟩
  | false =>
    simp only [hk, Bool.false_eq_true, if_false] at h ⊢
    cases hrm : removeStyle fr to keys ts vv s with
    | error e => simp only [hrm] at h; cases h
    | ok s1 =>
      simp only [hrm] at h ⊢
      cases ha : attrs.isEmpty with
      | true =>
        simp only [ha, if_true] at h ⊢
        injection h with h; subst h; exact ⟨rfl, rfl, lv_rev_shape _ _ _ _⟩
      | false =>
        simp only [ha, Bool.false_eq_true, if_false] at h ⊢
        cases hs : style fr to attrs ts vv s1 with
        | error e => simp only [hs] at h; cases h
        | ok s2 =>
          simp only [hs] at h
          cases hf : firstStyled fr to ts vv s1 with
          | none =>
            simp only [hf] at h
            injection h with h; subst h; exact ⟨rfl, rfl, lv_rev_shape _ _ _ _⟩
          | some as =>
            simp only [hf] at h
            injection h with h; subst h; exact ⟨rfl, rfl, lv_rev_shape _ _ _ _⟩

theorem execStyle_sem {s : TextSt} (wf : WF s) {fr to : Pos} {attrs : List (String × String)}
    {keys : List String} {ts : Ticket} {vv : Option VV} {res : Res}
    (h : execStyle fr to attrs keys ts vv s = .ok res) :
    styleOp fr to attrs keys ts vv s = .ok res.st ∧ liveAt res.st = liveAt s ∧ res.observable = true ∧
      (res.rev = none ∨ ∃ f t a k, res.rev = some (.style f t a k)) := by
  have key := lv_execStyle_shape h
  exact ⟨key.1, liveAt_styleOp wf key.1, key.2.1, key.2.2⟩

/-! ### 7. non-vacuity: a split chain with a tombstone and a second insertion -/

def lv_tA : Ticket := ⟨2, 1, 7⟩
def lv_tB : Ticket := ⟨3, 1, 7⟩
def lv_tC : Ticket := ⟨5, 1, 7⟩
def lv_tD : Ticket := ⟨4, 1, 7⟩

/-- head, insertion `tA` split in three: "a" | "bc" (tombstoned at `tB`) | "d", then insertion `tD` "xy" -/
def lv_exS : TextSt :=
  [headNode,
   ⟨(lv_tA, 0), [0x61], none, [], none⟩,
   ⟨(lv_tA, 1), [0x62, 0x63], some lv_tB, [], some (lv_tA, 0)⟩,
   ⟨(lv_tA, 3), [0x64], none, [], some (lv_tA, 1)⟩,
   ⟨(lv_tD, 0), [0x78, 0x79], none, [], none⟩]

def lv_exR : List Span := [{ ca := lv_tA, start := 1, stop := 3 }]
def lv_exK : List Span := [{ ca := lv_tD, start := 0, stop := 2 }]
def lv_exCells : List Id :=
  [(lv_tA, 0), (lv_tA, 1), (lv_tA, 2), (lv_tA, 3), (lv_tA, 4), (lv_tD, 0), (lv_tD, 1), (lv_tD, 2)]
def lv_exAfter : Option TextSt :=
  (execSpans ⟨headId, 0⟩ lv_exR .restore lv_exK lv_tC none lv_exS).toOption.map (·.st)


theorem lv_exS_wf : WF lv_exS :=
  ⟨⟨_, _, rfl, rfl, rfl⟩, by decide, by decide, by decide, by decide, by decide⟩

theorem lv_exR_tiled : ∀ sp ∈ lv_exR, Tiled lv_exS sp := by
  intro sp hsp
  simp only [lv_exR, List.mem_cons, List.not_mem_nil, or_false] at hsp
  subst hsp
  refine ⟨by decide, ?_⟩
  intro c h1 h2
  have hc : c = 1 ∨ c = 2 := by simp only at h1 h2; omega
  rcases hc with rfl | rfl <;> decide

theorem lv_exK_tiled : ∀ sp ∈ lv_exK, Tiled lv_exS sp := by
  intro sp hsp
  simp only [lv_exK, List.mem_cons, List.not_mem_nil, or_false] at hsp
  subst hsp
  refine ⟨by decide, ?_⟩
  intro c h1 h2
  have hc : c = 0 ∨ c = 1 := by simp only at h1 h2; omega
  rcases hc with rfl | rfl <;> decide

/-- before: "a" live, "bc" dead, "d" live, "xy" live -/
example : lv_exCells.map (liveAt lv_exS) = [true, false, false, true, false, true, true, false] := by
  decide

/-- the reverse Edit "re-remove xy, revive bc": exactly those cells flip -/
example : lv_exAfter.map (fun s => lv_exCells.map (liveAt s)) =
    some [true, true, true, true, false, false, false, false] := by decide

/-- ... which is what `effRev` / `assign` predict from the liveness before -/
example : lv_exAfter.map (fun s => lv_exCells.map (liveAt s)) =
    some (lv_exCells.map (effRev (.spans ⟨headId, 0⟩ lv_exR .restore lv_exK) (liveAt lv_exS))) := by
  decide

example : lv_exCells.map (assign lv_exR lv_exK (liveAt lv_exS)) =
    [true, true, true, true, false, false, false, false] := by decide

/-- the hypotheses of `execSpans_sem` are satisfiable -/
example : ∃ res g, execSpans ⟨headId, 0⟩ lv_exR .restore lv_exK lv_tC none lv_exS = .ok res ∧
    res.st = lv_exS.map g ∧ Text.KeepsShape g ∧
    res.rev = some (.spans ⟨headId, 0⟩ lv_exR .retombstone lv_exK) ∧
    liveAt res.st = effRev (.spans ⟨headId, 0⟩ lv_exR .restore lv_exK) (liveAt lv_exS) :=
  execSpans_sem lv_exS_wf lv_exR_tiled lv_exK_tiled ⟨rfl, rfl⟩

/-- running the flipped reverse afterwards brings the liveness of every listed cell back -/
example : (lv_exAfter.bind (fun s =>
      (execSpans ⟨headId, 0⟩ lv_exR .retombstone lv_exK lv_tC none s).toOption)).map
      (fun r => lv_exCells.map (liveAt r.st)) = some (lv_exCells.map (liveAt lv_exS)) := by decide

/-- a forward edit that splits "xy", skips the tombstone "bc", removes "d" and "x" and inserts "Z"
    after "a" -/
def lv_exEdit : Except Err Res :=
  execEdit ⟨(lv_tA, 0), 1⟩ ⟨(lv_tD, 0), 1⟩ [0x5a] [] lv_tC none lv_exS

def lv_exRemoved : List Span := removedSpans ⟨(lv_tA, 0), 1⟩ ⟨(lv_tD, 0), 1⟩ lv_tC none lv_exS

def lv_exCells2 : List Id := lv_exCells ++ [(lv_tC, 0), (lv_tC, 1)]

example : lv_exRemoved =
    [{ ca := lv_tA, start := 3, stop := 4, content := [0x64] },
     { ca := lv_tD, start := 0, stop := 1, content := [0x78] }] := by decide

example : lv_exEdit.toOption.map (fun r => lv_exCells2.map (liveAt r.st)) =
    some [true, false, false, false, false, false, true, false, true, false] := by decide

example : lv_exEdit.toOption.map (fun r => lv_exCells2.map (liveAt r.st)) =
    some (lv_exCells2.map (assign [{ ca := lv_tC, start := 0, stop := 1, content := [0x5a] }]
      lv_exRemoved (liveAt lv_exS))) := by decide

/-- the hypotheses of `execEdit_sem` are satisfiable -/
example : Fresh lv_exS lv_tC ∧ Fixed [0x5a] ∧ ∃ res, lv_exEdit = .ok res := by
  refine ⟨by decide, by decide, ?_⟩
  have h : lv_exEdit.toOption.isSome = true := by decide
  cases h' : lv_exEdit with
  | ok res => exact ⟨res, rfl⟩
  | error e => rw [h'] at h; cases h

example {res : Res} (h : lv_exEdit = .ok res) :
    liveAt res.st = assign [{ ca := lv_tC, start := 0, stop := 1, content := [0x5a] }] lv_exRemoved
      (liveAt lv_exS) :=
  (execEdit_sem lv_exS_wf (by decide) (by decide) h).2.2.2.1

end Yorkie.TextUndo
