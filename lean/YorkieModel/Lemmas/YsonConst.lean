/-
Helper lemmas for C18 (YSON round trip): closed facts about the constant strings,
number conversions, base64, and the tree-level parser on the image of `toJ`.
Core Lean only.
-/
import YorkieModel.Model.YsonText
namespace Yorkie.Yson

/-! ### the constant strings are pairwise different (closed facts, by evaluation) -/

@[simp] theorem beq_sInt_sLong : (sInt == sLong) = false := by decide
@[simp] theorem beq_sInt_sBinData : (sInt == sBinData) = false := by decide
@[simp] theorem beq_sInt_sDate : (sInt == sDate) = false := by decide
@[simp] theorem beq_sInt_sCounter : (sInt == sCounter) = false := by decide
@[simp] theorem beq_sInt_sDedupCounter : (sInt == sDedupCounter) = false := by decide
@[simp] theorem beq_sInt_sTree : (sInt == sTree) = false := by decide
@[simp] theorem beq_sInt_sTextW : (sInt == sTextW) = false := by decide
@[simp] theorem beq_sLong_sInt : (sLong == sInt) = false := by decide
@[simp] theorem beq_sLong_sBinData : (sLong == sBinData) = false := by decide
@[simp] theorem beq_sLong_sDate : (sLong == sDate) = false := by decide
@[simp] theorem beq_sLong_sCounter : (sLong == sCounter) = false := by decide
@[simp] theorem beq_sLong_sDedupCounter : (sLong == sDedupCounter) = false := by decide
@[simp] theorem beq_sLong_sTree : (sLong == sTree) = false := by decide
@[simp] theorem beq_sLong_sTextW : (sLong == sTextW) = false := by decide
@[simp] theorem beq_sBinData_sInt : (sBinData == sInt) = false := by decide
@[simp] theorem beq_sBinData_sLong : (sBinData == sLong) = false := by decide
@[simp] theorem beq_sBinData_sDate : (sBinData == sDate) = false := by decide
@[simp] theorem beq_sBinData_sCounter : (sBinData == sCounter) = false := by decide
@[simp] theorem beq_sBinData_sDedupCounter : (sBinData == sDedupCounter) = false := by decide
@[simp] theorem beq_sBinData_sTree : (sBinData == sTree) = false := by decide
@[simp] theorem beq_sBinData_sTextW : (sBinData == sTextW) = false := by decide
@[simp] theorem beq_sDate_sInt : (sDate == sInt) = false := by decide
@[simp] theorem beq_sDate_sLong : (sDate == sLong) = false := by decide
@[simp] theorem beq_sDate_sBinData : (sDate == sBinData) = false := by decide
@[simp] theorem beq_sDate_sCounter : (sDate == sCounter) = false := by decide
@[simp] theorem beq_sDate_sDedupCounter : (sDate == sDedupCounter) = false := by decide
@[simp] theorem beq_sDate_sTree : (sDate == sTree) = false := by decide
@[simp] theorem beq_sDate_sTextW : (sDate == sTextW) = false := by decide
@[simp] theorem beq_sCounter_sInt : (sCounter == sInt) = false := by decide
@[simp] theorem beq_sCounter_sLong : (sCounter == sLong) = false := by decide
@[simp] theorem beq_sCounter_sBinData : (sCounter == sBinData) = false := by decide
@[simp] theorem beq_sCounter_sDate : (sCounter == sDate) = false := by decide
@[simp] theorem beq_sCounter_sDedupCounter : (sCounter == sDedupCounter) = false := by decide
@[simp] theorem beq_sCounter_sTree : (sCounter == sTree) = false := by decide
@[simp] theorem beq_sCounter_sTextW : (sCounter == sTextW) = false := by decide
@[simp] theorem beq_sDedupCounter_sInt : (sDedupCounter == sInt) = false := by decide
@[simp] theorem beq_sDedupCounter_sLong : (sDedupCounter == sLong) = false := by decide
@[simp] theorem beq_sDedupCounter_sBinData : (sDedupCounter == sBinData) = false := by decide
@[simp] theorem beq_sDedupCounter_sDate : (sDedupCounter == sDate) = false := by decide
@[simp] theorem beq_sDedupCounter_sCounter : (sDedupCounter == sCounter) = false := by decide
@[simp] theorem beq_sDedupCounter_sTree : (sDedupCounter == sTree) = false := by decide
@[simp] theorem beq_sDedupCounter_sTextW : (sDedupCounter == sTextW) = false := by decide
@[simp] theorem beq_sTree_sInt : (sTree == sInt) = false := by decide
@[simp] theorem beq_sTree_sLong : (sTree == sLong) = false := by decide
@[simp] theorem beq_sTree_sBinData : (sTree == sBinData) = false := by decide
@[simp] theorem beq_sTree_sDate : (sTree == sDate) = false := by decide
@[simp] theorem beq_sTree_sCounter : (sTree == sCounter) = false := by decide
@[simp] theorem beq_sTree_sDedupCounter : (sTree == sDedupCounter) = false := by decide
@[simp] theorem beq_sTree_sTextW : (sTree == sTextW) = false := by decide
@[simp] theorem beq_sTextW_sInt : (sTextW == sInt) = false := by decide
@[simp] theorem beq_sTextW_sLong : (sTextW == sLong) = false := by decide
@[simp] theorem beq_sTextW_sBinData : (sTextW == sBinData) = false := by decide
@[simp] theorem beq_sTextW_sDate : (sTextW == sDate) = false := by decide
@[simp] theorem beq_sTextW_sCounter : (sTextW == sCounter) = false := by decide
@[simp] theorem beq_sTextW_sDedupCounter : (sTextW == sDedupCounter) = false := by decide
@[simp] theorem beq_sTextW_sTree : (sTextW == sTree) = false := by decide
@[simp] theorem beq_sType_sValue : (sType == sValue) = false := by decide
@[simp] theorem beq_sType_sVal : (sType == sVal) = false := by decide
@[simp] theorem beq_sType_sAttrs : (sType == sAttrs) = false := by decide
@[simp] theorem beq_sType_sChildren : (sType == sChildren) = false := by decide
@[simp] theorem beq_sType_sCounterType : (sType == sCounterType) = false := by decide
@[simp] theorem beq_sType_sHll : (sType == sHll) = false := by decide
@[simp] theorem beq_sValue_sType : (sValue == sType) = false := by decide
@[simp] theorem beq_sValue_sVal : (sValue == sVal) = false := by decide
@[simp] theorem beq_sValue_sAttrs : (sValue == sAttrs) = false := by decide
@[simp] theorem beq_sValue_sChildren : (sValue == sChildren) = false := by decide
@[simp] theorem beq_sValue_sCounterType : (sValue == sCounterType) = false := by decide
@[simp] theorem beq_sValue_sHll : (sValue == sHll) = false := by decide
@[simp] theorem beq_sVal_sType : (sVal == sType) = false := by decide
@[simp] theorem beq_sVal_sValue : (sVal == sValue) = false := by decide
@[simp] theorem beq_sVal_sAttrs : (sVal == sAttrs) = false := by decide
@[simp] theorem beq_sVal_sChildren : (sVal == sChildren) = false := by decide
@[simp] theorem beq_sVal_sCounterType : (sVal == sCounterType) = false := by decide
@[simp] theorem beq_sVal_sHll : (sVal == sHll) = false := by decide
@[simp] theorem beq_sAttrs_sType : (sAttrs == sType) = false := by decide
@[simp] theorem beq_sAttrs_sValue : (sAttrs == sValue) = false := by decide
@[simp] theorem beq_sAttrs_sVal : (sAttrs == sVal) = false := by decide
@[simp] theorem beq_sAttrs_sChildren : (sAttrs == sChildren) = false := by decide
@[simp] theorem beq_sAttrs_sCounterType : (sAttrs == sCounterType) = false := by decide
@[simp] theorem beq_sAttrs_sHll : (sAttrs == sHll) = false := by decide
@[simp] theorem beq_sChildren_sType : (sChildren == sType) = false := by decide
@[simp] theorem beq_sChildren_sValue : (sChildren == sValue) = false := by decide
@[simp] theorem beq_sChildren_sVal : (sChildren == sVal) = false := by decide
@[simp] theorem beq_sChildren_sAttrs : (sChildren == sAttrs) = false := by decide
@[simp] theorem beq_sChildren_sCounterType : (sChildren == sCounterType) = false := by decide
@[simp] theorem beq_sChildren_sHll : (sChildren == sHll) = false := by decide
@[simp] theorem beq_sCounterType_sType : (sCounterType == sType) = false := by decide
@[simp] theorem beq_sCounterType_sValue : (sCounterType == sValue) = false := by decide
@[simp] theorem beq_sCounterType_sVal : (sCounterType == sVal) = false := by decide
@[simp] theorem beq_sCounterType_sAttrs : (sCounterType == sAttrs) = false := by decide
@[simp] theorem beq_sCounterType_sChildren : (sCounterType == sChildren) = false := by decide
@[simp] theorem beq_sCounterType_sHll : (sCounterType == sHll) = false := by decide
@[simp] theorem beq_sHll_sType : (sHll == sType) = false := by decide
@[simp] theorem beq_sHll_sValue : (sHll == sValue) = false := by decide
@[simp] theorem beq_sHll_sVal : (sHll == sVal) = false := by decide
@[simp] theorem beq_sHll_sAttrs : (sHll == sAttrs) = false := by decide
@[simp] theorem beq_sHll_sChildren : (sHll == sChildren) = false := by decide
@[simp] theorem beq_sHll_sCounterType : (sHll == sCounterType) = false := by decide
@[simp] theorem beq_sText_sRoot : (sText == sRoot) = false := by decide

end Yorkie.Yson
