/-
Text garbage collection, part 2: `purge` preserves the GC-tolerant invariant `WFg` – i.e.
`RGATreeSplit.Purge`'s relinking (`insNext.insPrev = insPrev`) keeps "insPrev = the surviving
predecessor piece of the same insertion", which is what position lookup (`floor_node_g`) needs.
Two small extra invariants are needed for that: pieces with offset 0 have no `insPrev` (`Zero`), and
the head is live (`HeadLive`, so it is never purged).  Core Lean only.
-/
import YorkieModel.Lemmas.TextGc
set_option linter.unusedSimpArgs false
namespace Yorkie.TextConv
open Yorkie Yorkie.Text

/-- the first piece of an insertion has no insertion predecessor -/
def Zero (s : TextSt) : Prop := ∀ m ∈ s, m.id.2 = 0 → m.insPrev = none

/-- the invariant of block lists under garbage collection -/
structure GcInv (s : TextSt) : Prop where
  wf : WFg s
  zero : Zero s
  headLive : HeadLive s

def relinkTo (i : Id) (p : Option Id) (m : TNode) : TNode :=
  if m.insPrev = some i then { m with insPrev := p } else m

@[simp] theorem relinkTo_id (i : Id) (p : Option Id) (m : TNode) : (relinkTo i p m).id = m.id := by
  unfold relinkTo; split <;> rfl
@[simp] theorem relinkTo_units (i : Id) (p : Option Id) (m : TNode) : (relinkTo i p m).units = m.units := by
  unfold relinkTo; split <;> rfl
@[simp] theorem relinkTo_removedAt (i : Id) (p : Option Id) (m : TNode) :
    (relinkTo i p m).removedAt = m.removedAt := by
  unfold relinkTo; split <;> rfl

theorem purgeNode_eq {s : TextSt} {i : Id} {n : TNode} (h : findById s i = some n) :
    purgeNode s i = (List.filter (fun m => m.id != i) s).map (relinkTo i n.insPrev) := by
  unfold purgeNode; rw [h]; rfl

theorem mem_purgeNode {s : TextSt} {i : Id} {n : TNode} (h : findById s i = some n) {x : TNode} :
    x ∈ purgeNode s i ↔ ∃ m ∈ s, m.id ≠ i ∧ x = relinkTo i n.insPrev m := by
  rw [purgeNode_eq h]
  simp only [List.mem_map, List.mem_filter, bne_iff_ne, ne_eq]
  constructor
  · rintro ⟨m, ⟨hm, hne⟩, rfl⟩; exact ⟨m, hm, hne, rfl⟩
  · rintro ⟨m, hm, hne, rfl⟩; exact ⟨m, ⟨hm, hne⟩, rfl⟩

/-- purging one (non-head) node keeps the invariant -/
theorem wfg_purgeNode {s : TextSt} (wf : WFg s) (z : Zero s) {i : Id} (hi : i ≠ headId) :
    WFg (purgeNode s i) ∧ Zero (purgeNode s i) := by
  cases hf : findById s i with
  | none => unfold purgeNode; rw [hf]; exact ⟨wf, z⟩
  | some n =>
    obtain ⟨hn, hnid⟩ := findById_mem hf
    have mem := @mem_purgeNode s i n hf
    have hlen : ∀ m, (relinkTo i n.insPrev m).len = m.len := fun m => by simp [TNode.len]
    constructor
    · refine ⟨?_, ?_, ?_, ?_, ?_, ?_⟩
      · -- head
        obtain ⟨hd, r, hs, hid, hu⟩ := wf.head
        have hne : (hd.id != i) = true := by rw [hid]; simpa using (Ne.symm hi)
        rw [purgeNode_eq hf, hs, List.filter_cons, if_pos hne, List.map_cons]
        exact ⟨_, _, rfl, by simp [hid], by simp [hu]⟩
      · -- nodup
        rw [purgeNode_eq hf]
        have : ids ((List.filter (fun m => m.id != i) s).map (relinkTo i n.insPrev)) =
            ids (List.filter (fun m => m.id != i) s) := by
          simp [ids, List.map_map, Function.comp_def]
        rw [this]
        exact List.Nodup.sublist (List.Sublist.map _ List.filter_sublist) wf.nodup
      · intro x hx hxh
        obtain ⟨m, hm, _, rfl⟩ := mem.1 hx
        simp only [relinkTo_id, relinkTo_units] at hxh ⊢
        exact wf.nonempty m hm hxh
      · intro a ha b hb h1 h2
        obtain ⟨a, ham, _, rfl⟩ := mem.1 ha
        obtain ⟨b, hbm, _, rfl⟩ := mem.1 hb
        simp only [relinkTo_id, hlen] at h1 h2 ⊢
        exact wf.disjoint a ham b hbm h1 h2
      · -- link
        intro x hx hpos
        obtain ⟨m, hm, hmi, rfl⟩ := mem.1 hx
        simp only [relinkTo_id] at hpos ⊢
        obtain ⟨l1, l2⟩ := wf.link m hm hpos
        -- members of the new list below `m`, in terms of the old list
        have old : ∀ y, y ∈ purgeNode s i → ∃ z ∈ s, z.id ≠ i ∧ y.id = z.id := by
          intro y hy
          obtain ⟨z, hz, hzi, rfl⟩ := mem.1 hy
          exact ⟨z, hz, hzi, by simp⟩
        by_cases hmi' : m.insPrev = some i
        · -- `m` was the insertion successor of the purged node
          have hrel : (relinkTo i n.insPrev m).insPrev = n.insPrev := by
            unfold relinkTo; rw [if_pos hmi']
          obtain ⟨q, hq, hq0, hq1, hq2, hq3⟩ := l1 i hmi'
          have hqn : q = n := eq_of_id_eq wf.nodup hq hn (by rw [hq0, hnid])
          subst hqn
          -- everything else below `m` lies strictly below `q`
          have strict : ∀ z ∈ s, z.id ≠ i → z.id.1 = m.id.1 → z.id.2 < m.id.2 → z.id.2 < q.id.2 := by
            intro z hz hzi hz1 hz2
            have hle := hq3 z hz hz1 hz2
            rcases Nat.lt_or_eq_of_le hle with h | h
            · exact h
            · exfalso; apply hzi; rw [← hnid]
              exact Prod.ext (hz1.trans hq1.symm) h
          rw [hrel]
          by_cases hq0' : q.id.2 = 0
          · -- the purged node was the first piece: nothing is left below `m`
            rw [z q hq hq0']
            constructor
            · intro p hp; cases hp
            · intro _ y hy hy1 hy2
              obtain ⟨z', hz', hzi, e⟩ := old y hy
              rw [e] at hy1 hy2
              have := strict z' hz' hzi hy1 hy2
              omega
          · obtain ⟨k1, k2⟩ := wf.link q hq (by omega)
            constructor
            · intro p hp
              obtain ⟨w, hw, hw0, hw1, hw2, hw3⟩ := k1 p hp
              have hwi : w.id ≠ i := by
                intro e; rw [← hnid] at e
                have : w.id.2 = q.id.2 := congrArg Prod.snd e
                omega
              refine ⟨relinkTo i q.insPrev w, mem.2 ⟨w, hw, hwi, rfl⟩, by simpa using hw0,
                by simp only [relinkTo_id]; rw [hw1, hq1], by simp only [relinkTo_id]; omega, ?_⟩
              intro y hy hy1 hy2
              obtain ⟨z', hz', hzi, e⟩ := old y hy
              rw [e] at hy1 hy2 ⊢
              simp only [relinkTo_id]
              exact hw3 z' hz' (hy1.trans hq1.symm) (strict z' hz' hzi hy1 hy2)
            · intro hnone y hy hy1 hy2
              obtain ⟨z', hz', hzi, e⟩ := old y hy
              rw [e] at hy1 hy2
              exact k2 hnone z' hz' (hy1.trans hq1.symm) (strict z' hz' hzi hy1 hy2)
        · have hrel : (relinkTo i n.insPrev m).insPrev = m.insPrev := by
            unfold relinkTo; rw [if_neg hmi']
          rw [hrel]
          constructor
          · intro p hp
            obtain ⟨q, hq, hq0, hq1, hq2, hq3⟩ := l1 p hp
            have hqi : q.id ≠ i := by
              intro e; apply hmi'; rw [hp, ← hq0, e]
            refine ⟨relinkTo i n.insPrev q, mem.2 ⟨q, hq, hqi, rfl⟩, by simpa using hq0, by simpa using hq1,
              by simpa using hq2, ?_⟩
            intro y hy hy1 hy2
            obtain ⟨z', hz', _, e⟩ := old y hy
            rw [e] at hy1 hy2 ⊢
            simp only [relinkTo_id]
            exact hq3 z' hz' hy1 hy2
          · intro hnone y hy hy1 hy2
            obtain ⟨z', hz', _, e⟩ := old y hy
            rw [e] at hy1 hy2
            exact l2 hnone z' hz' hy1 hy2
      · intro x hx
        obtain ⟨m, hm, _, rfl⟩ := mem.1 hx
        simp only [relinkTo_units]
        exact wf.fixed m hm
    · -- Zero
      intro x hx h0
      obtain ⟨m, hm, _, rfl⟩ := mem.1 hx
      simp only [relinkTo_id] at h0
      have := z m hm h0
      unfold relinkTo
      rw [if_neg (by rw [this]; intro h; cases h)]
      exact this

theorem wfg_foldl_purgeNode (K : List Id) (hK : ∀ i ∈ K, i ≠ headId) {s : TextSt} (wf : WFg s) (z : Zero s) :
    WFg (K.foldl purgeNode s) ∧ Zero (K.foldl purgeNode s) := by
  induction K generalizing s with
  | nil => exact ⟨wf, z⟩
  | cons i K ih =>
    obtain ⟨w1, z1⟩ := wfg_purgeNode wf z (hK i (by simp))
    exact ih (fun j hj => hK j (List.mem_cons_of_mem _ hj)) w1 z1

/-- **`purge` preserves the invariant of block lists under GC** -/
theorem gcInv_purge {s : TextSt} (inv : GcInv s) (vv : VV) : GcInv (purge vv s) := by
  obtain ⟨hd, r, hs, hid, hu⟩ := inv.wf.head
  have hlive := inv.headLive hd r hs
  have hK : ∀ i ∈ (List.filter (purgeable vv) s).map (·.id), i ≠ headId := by
    intro i hi e
    obtain ⟨m, hm, rfl⟩ := List.mem_map.1 hi
    obtain ⟨hms, hmp⟩ := List.mem_filter.1 hm
    have : m = hd := eq_of_id_eq inv.wf.nodup hms (by rw [hs]; simp) (by rw [e, hid])
    rw [this] at hmp
    unfold purgeable at hmp; rw [hlive] at hmp; cases hmp
  obtain ⟨w, z⟩ := wfg_foldl_purgeNode _ hK inv.wf inv.zero
  refine ⟨w, z, ?_⟩
  -- the head survives with its fields
  intro h' r' hs'
  have hc := purge_core inv.wf.nodup vv
  have hp : purgeable vv hd = false := by unfold purgeable; rw [hlive]
  rw [hs'] at hc
  rw [hs, List.filter_cons, hp] at hc
  simp only [Bool.not_false, if_true, List.map_cons, List.cons.injEq] at hc
  have := hc.1
  unfold core at this
  simp only [Prod.mk.injEq] at this
  rw [this.2.2.1]; exact hlive

end Yorkie.TextConv
