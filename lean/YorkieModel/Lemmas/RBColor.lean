/- Red-black invariants of the LLRB core: definitions, `fixUp` in the situations that
occur, and preservation by insert. -/
import YorkieModel.Lemmas.RBCore
namespace Yorkie.RB
open T

variable {α Q : Type} {cfg : Cfg α Q}

/-- black height along the left spine -/
def bhOf : T α → Nat
  | nil => 0
  | node l _ c _ => bhOf l + (if c then 0 else 1)

/-- every root-to-leaf path has the same number of black nodes -/
def Bal : T α → Prop
  | nil => True
  | node l _ _ r => Bal l ∧ Bal r ∧ bhOf l = bhOf r

/-- left-leaning, no red node with a red child -/
def LL : T α → Prop
  | nil => True
  | node l _ c r => LL l ∧ LL r ∧ r.isRed = false ∧ (c = true → l.isRed = false)

/-- `LL` except that the root may be red with a red left child -/
def LLroot : T α → Prop
  | nil => True
  | node l _ _ r => LL l ∧ LL r ∧ r.isRed = false

instance decBal : (t : T α) → Decidable (Bal t)
  | nil => isTrue trivial
  | node l _ _ r =>
    have := decBal l
    have := decBal r
    inferInstanceAs (Decidable (Bal l ∧ Bal r ∧ bhOf l = bhOf r))

instance decLL : (t : T α) → Decidable (LL t)
  | nil => isTrue trivial
  | node l _ c r =>
    have := decLL l
    have := decLL r
    inferInstanceAs (Decidable (LL l ∧ LL r ∧ r.isRed = false ∧ (c = true → l.isRed = false)))

@[simp] theorem bhOf_nil : bhOf (nil : T α) = 0 := rfl
@[simp] theorem bhOf_node (l : T α) (a c r) : bhOf (node l a c r) = bhOf l + (if c then 0 else 1) := rfl
@[simp] theorem Bal_nil : Bal (nil : T α) := trivial
@[simp] theorem Bal_node (l : T α) (a c r) : Bal (node l a c r) ↔ Bal l ∧ Bal r ∧ bhOf l = bhOf r := Iff.rfl
@[simp] theorem LL_nil : LL (nil : T α) := trivial
@[simp] theorem LL_node (l : T α) (a c r) :
    LL (node l a c r) ↔ LL l ∧ LL r ∧ r.isRed = false ∧ (c = true → l.isRed = false) := Iff.rfl
@[simp] theorem LLroot_nil : LLroot (nil : T α) := trivial
@[simp] theorem LLroot_node (l : T α) (a c r) : LLroot (node l a c r) ↔ LL l ∧ LL r ∧ r.isRed = false := Iff.rfl
@[simp] theorem isRed_nil : (nil : T α).isRed = false := rfl
@[simp] theorem isRed_node (l : T α) (a c r) : (node l a c r).isRed = c := rfl
@[simp] theorem left_nil : (nil : T α).left = nil := rfl
@[simp] theorem left_node (l : T α) (a c r) : (node l a c r).left = l := rfl
@[simp] theorem right_nil : (nil : T α).right = nil := rfl
@[simp] theorem right_node (l : T α) (a c r) : (node l a c r).right = r := rfl
@[simp] theorem isNil_nil : (nil : T α).isNil = true := rfl
@[simp] theorem isNil_node (l : T α) (a c r) : (node l a c r).isNil = false := rfl

theorem LLroot_of_LL {t : T α} (h : LL t) : LLroot t := by
  cases t with
  | nil => trivial
  | node l a c r => exact ⟨h.1, h.2.1, h.2.2.1⟩

theorem LL_of_LLroot {t : T α} (h : LLroot t) (hc : t.isRed = false ∨ t.left.isRed = false) : LL t := by
  cases t with
  | nil => trivial
  | node l a c r =>
    refine ⟨h.1, h.2.1, h.2.2, fun hc' => ?_⟩
    rcases hc with hc | hc
    · simp at hc; simp [hc] at hc'
    · simpa using hc

/-- a balanced tree of black height 0 without red root is empty -/
theorem nil_of_bh0 {t : T α} (h0 : bhOf t = 0) (hr : t.isRed = false) : t = nil := by
  cases t with
  | nil => rfl
  | node l a c r => simp at hr; simp [hr] at h0

theorem LL_blacken {t : T α} (h : LLroot t) : LL t.blacken := by
  cases t with
  | nil => trivial
  | node l a c r => exact ⟨h.1, h.2.1, h.2.2, by simp⟩

theorem Bal_blacken {t : T α} (h : Bal t) : Bal t.blacken := by
  cases t <;> simp_all [blacken]

theorem isRed_blacken (t : T α) : t.blacken.isRed = false := by cases t <;> rfl

/-! ### `fixUp` in the situations that occur -/

/-- nothing to repair: black right child, no two reds in a row on the left -/
theorem fixUp_id (s : Bool) {l r : T α} {a : α} {c : Bool} (hr : r.isRed = false)
    (hl : l.isRed = false ∨ l.left.isRed = false) :
    fixUp cfg s (node l a c r) = mkN cfg l a c r := by
  have h2 : (l.isRed && l.left.isRed) = false := by
    rcases hl with h | h <;> simp [h]
  simp [fixUp, hr, h2, refresh]

/-- a red right child next to a black left one is rotated to the left -/
theorem fixUp_rotL (s : Bool) {l rl rr : T α} {a b : α} {c : Bool} (hl : l.isRed = false)
    (hrr : rr.isRed = false) :
    ∃ a' b', fixUp cfg s (node l a c (node rl b true rr)) = node (node l a' true rl) b' c rr := by
  simp [fixUp, hl, hrr, rotateLeft, mkN, refresh]

/-- two red children of a black node: colour flip (reached via different rotations in the
strict and the non-strict `fixUp`, same colours) -/
theorem fixUp_flip (s : Bool) {ll lr rl rr : T α} {la a b : α}
    (hll : ll.isRed = false) (_hrl : rl.isRed = false) (_hrr : rr.isRed = false) :
    ∃ la' a' b', fixUp cfg s (node (node ll la true lr) a false (node rl b true rr)) =
      node (node ll la' false lr) a' true (node rl b' false rr) := by
  cases s <;> simp [fixUp, hll, rotateLeft, rotateRight, flipColors, flipRoot, mkN, refresh]

/-- insert only: red left child with red left grandchild under a black node -/
theorem fixUp_rotR_flip {lr r : T α} {lla la a : α} {lll llr : T α} (hr : r.isRed = false) :
    ∃ la' a', fixUp cfg true (node (node (node lll lla true llr) la true lr) a false r) =
      node (node lll lla false llr) la' true (node lr a' false r) := by
  simp [fixUp, hr, rotateRight, flipColors, flipRoot, mkN, refresh]

/-! ### insert preserves the invariants -/

theorem ins_good (t : T α) (q : Q) (new : α) (hl : LL t) (hb : Bal t) :
    LLroot (ins cfg t q new) ∧ (t.isRed = false → LL (ins cfg t q new)) ∧
    Bal (ins cfg t q new) ∧ bhOf (ins cfg t q new) = bhOf t := by
  induction t generalizing q with
  | nil => simp [ins]
  | node l a c r ihl ihr =>
    obtain ⟨hll, hlr, hrb, hcl⟩ := hl
    obtain ⟨hbl, hbr, hbe⟩ := hb
    simp only [ins]
    split
    · -- into the left subtree
      obtain ⟨g1, g2, g3, g4⟩ := ihl q hll hbl
      generalize ins cfg l q new = l' at g1 g2 g3 g4
      cases hlc : l.isRed <;> cases c <;>
      rcases l' with _ | ⟨ll, la, lc, lr⟩ <;> (try rcases ll with _ | ⟨lll, lla, llc, llr⟩) <;>
      (try cases lc) <;> (try cases llc) <;>
      simp_all [fixUp, rotateLeft, rotateRight, flipColors, flipRoot, mkN, refresh] <;> omega
    · -- into the right subtree (`r` is black, so the result below is fully `LL`)
      obtain ⟨g1, g2, g3, g4⟩ := ihr (cfg.navI l a q).2 hlr hbr
      generalize ins cfg r (cfg.navI l a q).2 new = r' at g1 g2 g3 g4
      cases hlc : l.isRed <;> cases c <;>
      rcases r' with _ | ⟨rl, ra, rc, rr⟩ <;> (try cases rc) <;>
      (try rcases l with _ | ⟨ll, la, lc, lr⟩) <;>
      simp_all [fixUp, rotateLeft, rotateRight, flipColors, flipRoot, mkN, refresh] <;> omega
    · -- existing address: the payload is replaced, nothing to repair
      rw [fixUp_id true hrb (by
        cases hlc : l.isRed with
        | false => exact .inl rfl
        | true =>
          right
          rcases l with _ | ⟨ll, la, lc, lr⟩
          · rfl
          · simp at hlc; subst hlc; simpa using hll.2.2.2)]
      cases c <;> simp_all [mkN]

/-- top-level insert keeps a red-black tree with black root -/
theorem insert_good (t : T α) (q : Q) (new : α) (hl : LL t) (hb : Bal t) :
    LL (insert cfg t q new) ∧ Bal (insert cfg t q new) ∧ (insert cfg t q new).isRed = false := by
  obtain ⟨g1, -, g3, -⟩ := ins_good (cfg := cfg) t q new hl hb
  exact ⟨LL_blacken g1, Bal_blacken g3, isRed_blacken _⟩

end Yorkie.RB
