/-
Helper lemmas for C04: the delivery invariant `DInv` and its preservation by every well-behaved
request (`dinv_step`).
-/
import YorkieModel.Lemmas.ServerDelivery
namespace Yorkie.Server
open Yorkie

/-- the sequential delivery invariant (DESIGN F.1: I3 = `view`, the client-sequence half of I2/I4 = `ack`) -/
structure DInv (s : Server) (g : Ghost) : Prop where
  wf : WF s
  gap : ∀ d doc, s.docs.get? d = some doc → GapFree doc
  fresh : ∀ c d, s.docs.get? d = none → (g c d).cp = Checkpoint.initial ∧ (g c d).applied = []
  view : ∀ c d doc, s.docs.get? d = some doc → doc.disablePresence = false → ViewOk c (g c d) doc.log
  ack : ∀ c d cd, entryOf s c d = some cd → isOpenSt cd.status = true → (g c d).cp.clientSeq ≤ cd.clientSeq

theorem DInv.init (cfg : Config) : DInv (Server.init cfg) Ghost.init :=
  ⟨WF_init cfg, fun _ _ h => by simp [Server.init] at h, fun _ _ _ => ⟨rfl, rfl⟩,
   fun _ _ _ h => by simp [Server.init] at h, fun _ _ _ h => by simp [entryOf, Server.init] at h⟩

theorem viewOk_of_initial (c : ClientId) (v : View) (log : List Row) (h : seqFrom 0 log)
    (h1 : v.cp = Checkpoint.initial) (h2 : v.applied = []) : ViewOk c v log := by
  refine ⟨by rw [h1]; exact Int.le_refl _, by rw [h1]; simp [Checkpoint.initial], ?_⟩
  rw [h2, h1]
  have : log.filter (ssLe (0 : Int)) = [] := filter_ssLe_nil 0 0 log h (Int.le_refl _)
  simp [Checkpoint.initial, this]

theorem gapFree_after {s s' : Server} (ext : DocsExt s s') (hg : ∀ d doc, s.docs.get? d = some doc → GapFree doc) :
    ∀ d doc, s'.docs.get? d = some doc → GapFree doc := by
  intro d doc' hd'
  cases hd : s.docs.get? d with
  | none => exact GapFree.ext (ext.new d doc' hd hd') (GapFree.fresh _ _)
  | some doc =>
    obtain ⟨y, hy, e⟩ := ext.old d doc hd
    rw [hd'] at hy; injection hy with hy; subst hy
    exact GapFree.ext e (hg d doc hd)

theorem Ghost.set_self (g : Ghost) (c : ClientId) (d : DocId) : g.set c d (g c d) = g := by
  funext c' d'
  simp only [Ghost.set]
  split
  · next h => rw [h.1, h.2]
  · rfl

/-- move the invariant along one request: all entries other than (c,d) are unchanged or closed,
the view of (c,d) is replaced by `v` -/
theorem dinv_update {s s' : Server} {g : Ghost} (h : DInv s g) (ext : DocsExt s s') (c : ClientId) (d : DocId)
    (v : View)
    (hother : ∀ c' d' cd', (c' ≠ c ∨ d' ≠ d) → entryOf s' c' d' = some cd' → isOpenSt cd'.status = true →
      entryOf s c' d' = some cd')
    (hv : ∀ doc', s'.docs.get? d = some doc' → doc'.disablePresence = false → ViewOk c v doc'.log)
    (hfresh : s'.docs.get? d = none → v.cp = Checkpoint.initial ∧ v.applied = [])
    (hack : ∀ cd', entryOf s' c d = some cd' → isOpenSt cd'.status = true → v.cp.clientSeq ≤ cd'.clientSeq) :
    DInv s' (g.set c d v) := by
  have hgap := gapFree_after ext h.gap
  refine ⟨ext.wf h.wf, hgap, ?_, ?_, ?_⟩
  · intro c' d' hn
    simp only [Ghost.set]
    split
    · next ht => rw [ht.2] at hn; exact hfresh hn
    · cases hd : s.docs.get? d' with
      | none => exact h.fresh c' d' hd
      | some doc => obtain ⟨y, hy, _⟩ := ext.old d' doc hd; rw [hn] at hy; simp at hy
  · intro c' d' doc' hd' hdp
    simp only [Ghost.set]
    split
    · next ht => rw [ht.1]; rw [ht.2] at hd'; exact hv doc' hd' hdp
    · cases hd : s.docs.get? d' with
      | none =>
        obtain ⟨h1, h2⟩ := h.fresh c' d' hd
        exact viewOk_of_initial c' _ _ (hgap d' doc' hd').1 h1 h2
      | some doc =>
        obtain ⟨y, hy, e⟩ := ext.old d' doc hd
        rw [hd'] at hy; injection hy with hy; subst hy
        obtain ⟨rows, hl, hq, _⟩ := e.rows
        rw [hl]
        refine (h.view c' d' doc hd (by rw [← e.dp]; exact hdp)).ext ?_
        rw [← (h.gap d' doc hd).2]; exact hq
  · intro c' d' cd' he ho
    simp only [Ghost.set]
    split
    · next ht => rw [ht.1, ht.2] at he; exact hack cd' he ho
    · next ht =>
      have : c' ≠ c ∨ d' ≠ d := by
        by_cases hc : c' = c
        · exact Or.inr (fun hd => ht ⟨hc, hd⟩)
        · exact Or.inl hc
      exact h.ack c' d' cd' (hother c' d' cd' this he ho) ho

/-- entries other than the request's target are unchanged when they are still open -/
theorem open_entry_unchanged {T : ClientId → DocId → Prop} {s s' : Server} (est : EStep T s s')
    {c : ClientId} {d : DocId} {cd' : ClientDoc} (hT : ¬ T c d) (he : entryOf s' c d = some cd')
    (ho : isOpenSt cd'.status = true) : entryOf s c d = some cd' := by
  rcases est c d with e | t | ⟨cd, hc, hcl⟩
  · rw [← e]; exact he
  · exact absurd t hT
  · rw [he] at hc; injection hc with hc; subst hc; rw [ho] at hcl; simp at hcl

/-- a request that does not reach any client leaves the invariant in place -/
theorem dinv_keep {s s' : Server} {g : Ghost} (h : DInv s g) (ext : DocsExt s s')
    (hopen : ∀ c d cd', entryOf s' c d = some cd' → isOpenSt cd'.status = true →
      ∃ cd, entryOf s c d = some cd ∧ isOpenSt cd.status = true ∧ cd.clientSeq ≤ cd'.clientSeq) :
    DInv s' g := by
  have hgap := gapFree_after ext h.gap
  refine ⟨ext.wf h.wf, hgap, ?_, ?_, ?_⟩
  · intro c' d' hn
    cases hd : s.docs.get? d' with
    | none => exact h.fresh c' d' hd
    | some doc => obtain ⟨y, hy, _⟩ := ext.old d' doc hd; rw [hn] at hy; simp at hy
  · intro c' d' doc' hd' hdp
    cases hd : s.docs.get? d' with
    | none =>
      obtain ⟨h1, h2⟩ := h.fresh c' d' hd
      exact viewOk_of_initial c' _ _ (hgap d' doc' hd').1 h1 h2
    | some doc =>
      obtain ⟨y, hy, e⟩ := ext.old d' doc hd
      rw [hd'] at hy; injection hy with hy; subst hy
      obtain ⟨rows, hl, hq, _⟩ := e.rows
      rw [hl]
      refine (h.view c' d' doc hd (by rw [← e.dp]; exact hdp)).ext ?_
      rw [← (h.gap d' doc hd).2]; exact hq
  · intro c' d' cd' he ho
    obtain ⟨cd, hcd, hco, hle⟩ := hopen c' d' cd' he ho
    exact Nat.le_trans (h.ack c' d' cd hcd hco) hle

end Yorkie.Server
