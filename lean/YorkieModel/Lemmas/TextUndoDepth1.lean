/-
Text undo/redo, depth 1 at full strength (core Lean only): what is visible after edit-then-undo,
exactly (the three pieces of the old content around the two cut points, each through the Go-string
round trip of `TextValue.Split`), and after edit-undo-redo (exactly what the edit showed).

Route: undo is a flip of whole blocks of the post-edit list (tiled spans), so what it shows is what
the OLD liveness selects from the post-edit list; the post-edit list is the twice-split list plus
dead or new blocks; the twice-split list is the one `Text.Style` on the same range produces, whose
visible content `style_local_spec` (C07) gives.
-/
import YorkieModel.Lemmas.TextUndoStack
namespace Yorkie.TextUndo
open Yorkie Yorkie.Text

/-- `Text.edit` and `Text.Style` on the same range split the list in the same way -/
theorem edit_split_style {s s' : TextSt} (wf : WF s) {fr to : Pos} {content : List Nat}
    {attrs : List (String × String)} {ts : Ticket} {vv : Option VV}
    (h : edit fr to content attrs ts vv s = .ok s') (g : List AttrNode → List AttrNode) :
    ∃ s2 cand i, WF s2 ∧ liveAt s2 = liveAt s ∧
      styleWith fr to g ts none s = .ok (s2.map (applyTo cand (styleNode ts none g))) ∧
      s' = (if content.isEmpty then s2.map (applyTo cand (removeNode ts vv))
            else insertAfterId (s2.map (applyTo cand (removeNode ts vv))) i (newNode ts content attrs)) := by
  unfold edit at h
  split at h
  · cases h
  · rename_i s1 l1 toRight h1
    split at h
    · cases h
    · rename_i s2 fromLeft fromRight h2
      have wf1 := (fnws_wf wf h1).1
      have wf2 := (fnws_wf wf1 h2).1
      refine ⟨s2, between s2 fromRight toRight, fromLeft, wf2,
        (liveAt_fnws wf1 h2).trans (liveAt_fnws wf h1), ?_, ?_⟩
      · unfold styleWith; rw [h1]; simp only; rw [h2]
      · simp only at h
        split at h
        · rename_i hc; injection h with h; rw [if_pos hc]; exact h.symm
        · rename_i hc; injection h with h; rw [if_neg hc]; exact h.symm

theorem newer_of_tb {lam : Int} {actor : Actor} {i : Nat} {s : TextSt} (tb : TB lam actor i s) :
    Newer s ⟨lam + 1, i, actor⟩ :=
  newer_of_lamport (fun n hn => by
    rcases tb n hn with h | ⟨h1, h2, h3⟩
    · exact Or.inl (by simp only; omega)
    · exact Or.inr ⟨h1, h2, h3⟩)

/-- what the OLD liveness selects from the list after a local edit at visible indices `fr ≤ to` -/
theorem projC_old_after_edit {lam : Int} {actor : Actor} {i : Nat} {s s' : TextSt} (wf : WF s)
    (tb : TB lam actor i s) {fr to : Nat} (hft : fr ≤ to) (hto : to ≤ (visible s).length) {pf pt : Pos}
    (hpf : posOfIndex s fr = some pf) (hpt : posOfIndex s to = some pt) {content : List Nat}
    {attrs : List (String × String)} {vv : Option VV}
    (h : edit pf pt content attrs ⟨lam + 1, i, actor⟩ vv s = .ok s') :
    projC (liveAt s) s' = sanitize ((visible s).take fr) ++ sanitize (((visible s).take to).drop fr) ++
      sanitize ((visible s).drop to) := by
  obtain ⟨s2, cand, j, wf2, hl2, hsty, hs'⟩ := edit_split_style wf h id
  obtain ⟨sS, hS, hvis, _⟩ := style_local_spec wf (newer_of_tb tb) (vv := none) rfl hft hto hpf hpt id
  rw [hsty] at hS; injection hS with hS
  have hdead : ∀ o, liveAt s ((newNode ⟨lam + 1, i, actor⟩ content attrs).id.1, o) = false := by
    intro o
    cases hb : liveAt s ((newNode ⟨lam + 1, i, actor⟩ content attrs).id.1, o)
    · rfl
    · have := oldL_liveAt (lam := lam + 1) (s := s) (fun n hn => (tb n hn).next)
      obtain ⟨n, hn, hcov⟩ := List.any_eq_true.mp (by unfold liveAt at hb; exact hb)
      simp only [Bool.and_eq_true, covers, decide_eq_true_eq] at hcov
      exact absurd hcov.2.1.1 (fresh_of_tb tb n hn)
  have keeps := keeps_applyTo (keeps_removeNode ⟨lam + 1, i, actor⟩ vv) cand
  have e1 : projC (liveAt s) s' = projC (liveAt s) s2 := by
    rw [hs']
    split
    · exact projC_map_keeps keeps _ _
    · rw [projC_insert_dead _ _ hdead]; exact projC_map_keeps keeps _ _
  rw [e1, ← hl2, ← visible_eq_projC wf2, ← hvis, ← hS]
  exact (visible_map_core (fun n => by
    have := keeps_applyTo (keeps_styleNode ⟨lam + 1, i, actor⟩ none id) cand n
    refine ⟨this.2.1, ?_⟩
    unfold applyTo; split
    · unfold styleNode; split <;> rfl
    · rfl) s2).symm

theorem RevOK.le {lam lam' : Int} {actor : Actor} {st : TextSt} {x : TRev} (h : lam ≤ lam')
    (hx : RevOK lam actor 0 st x) : RevOK lam' actor 0 st x := by
  cases x with
  | spans fr r m k =>
    intro sp hsp
    obtain ⟨t, a, b⟩ := hx sp hsp
    exact ⟨t, a, Tk.zero.mpr (Int.le_trans (Tk.zero.mp b) h)⟩
  | noop a b => exact hx
  | style a b c d => trivial

/-- a stacked span reverse whose spans are tiled runs -/
theorem rev_spans_ok {lam : Int} {actor : Actor} {s : TextSt} (wf : WF s) {fr : Pos} {R K : List Span}
    {m : RMode} (hx : RevOK lam actor 0 s (.spans fr R m K)) (i : Nat) :
    ∃ res g, execRev (.spans fr R m K) ⟨lam + 1, i, actor⟩ (some [(actor, lam + 1)]) s = .ok res ∧
      res.st = s.map g ∧ Text.KeepsShape g ∧ res.rev = some (.spans fr R m.flip K) ∧
      liveAt res.st = effRev (.spans fr R m K) (liveAt s) := by
  have tR : ∀ sp ∈ R, Tiled s sp := fun sp h => (hx sp (List.mem_append_left _ h)).1
  have tK : ∀ sp ∈ K, Tiled s sp := fun sp h => (hx sp (List.mem_append_right _ h)).1
  have vR : validSpans (some [(actor, lam + 1)]) R = true :=
    validSpans_single (fun sp h => ⟨(hx sp (List.mem_append_left _ h)).2.1,
      (hx sp (List.mem_append_left _ h)).2.2.next⟩)
  have vK : validSpans (some [(actor, lam + 1)]) K = true :=
    validSpans_single (fun sp h => ⟨(hx sp (List.mem_append_right _ h)).2.1,
      (hx sp (List.mem_append_right _ h)).2.2.next⟩)
  exact execSpans_sem (fr := fr) (m := m) (ts := ⟨lam + 1, i, actor⟩) wf tR tK ⟨vR, vK⟩

/-- the reverse of an edit that did something is a span reverse in restore direction -/
theorem reverseOfEdit_spans {fp : Pos} {R : List Span} {content : List Nat} {ts : Ticket}
    (h : (reverseOfEdit fp R content ts).isNoop = false) :
    ∃ K, reverseOfEdit fp R content ts = .spans fp R .restore K := by
  unfold reverseOfEdit at h ⊢
  split
  · exact ⟨_, rfl⟩
  · rename_i hc; rw [if_neg hc] at h; simp [TRev.isNoop] at h

/-- **depth 1, operation level**: edit, undo, redo -/
theorem undo_redo_do_ops {lam : Int} {actor : Actor} {i : Nat} {s : TextSt} (wf : WF s)
    (tb : TB lam actor i s) {fr to : Nat} (hft : fr ≤ to) (hto : to ≤ (visible s).length) {pf pt : Pos}
    (hpf : posOfIndex s fr = some pf) (hpt : posOfIndex s to = some pt) {content : List Nat}
    {attrs : List (String × String)} (hc : Fixed content) {res : Res}
    (he : execEdit pf pt content attrs ⟨lam + 1, i, actor⟩ (some [(actor, lam + 1)]) s = .ok res)
    {x : TRev} (hx : res.rev = some x) (hnn : x.isNoop = false) (i1 : Nat) {lam1 : Int}
    (hl1 : lam + 1 ≤ lam1) :
    ∃ res1 y,
      execRev x ⟨lam1 + 1, i1, actor⟩ (some [(actor, lam1 + 1)]) res.st = .ok res1 ∧
      res1.rev = some y ∧
      visible res1.st = sanitize ((visible s).take fr) ++ sanitize (((visible s).take to).drop fr) ++
        sanitize ((visible s).drop to) ∧
      (res1.st.map (·.id) = res.st.map (·.id)) ∧
      ∀ (i2 : Nat) (lam2 : Int), lam + 1 ≤ lam2 → ∃ res2 z,
        execRev y ⟨lam2 + 1, i2, actor⟩ (some [(actor, lam2 + 1)]) res1.st = .ok res2 ∧
        res2.rev = some z ∧ visible res2.st = visible res.st := by
  have st1 := fwd_edit_step wf tb hc he
  obtain ⟨hed, ⟨fp, hrev⟩, _⟩ := execEdit_sem wf (fresh_of_tb tb) hc he
  obtain ⟨okx, hback, hfwd⟩ := st1.rev x hx hnn
  rw [hrev] at hx; injection hx with hx
  obtain ⟨K, hK⟩ := reverseOfEdit_spans (hx ▸ hnn)
  rw [hK] at hx; subst hx
  -- undo
  obtain ⟨res1, g1, h1, hst1, hg1, hrev1, hl1'⟩ := rev_spans_ok st1.wf (okx.bump.le hl1) i1
  have wf1 : WF res1.st := by rw [hst1]; exact wf_map_keeps st1.wf hg1
  have ok1 : RevOK (lam + 1) actor 0 res1.st (.spans fp (removedSpans pf pt ⟨lam + 1, i, actor⟩
      (some [(actor, lam + 1)]) s) RMode.restore.flip K) := by
    intro sp hsp
    obtain ⟨t, a, b⟩ := okx.bump sp hsp
    exact ⟨by rw [hst1]; exact tiled_map_keepsShape hg1 t, a, b⟩
  refine ⟨res1, _, h1, hrev1, ?_, ?_, ?_⟩
  · rw [visible_eq_projC wf1, hl1', hback, hst1, projC_map_keeps hg1]
    exact projC_old_after_edit wf tb hft hto hpf hpt hed
  · rw [hst1, List.map_map]
    exact List.map_congr_left (fun n _ => (hg1 n).1)
  · intro i2 lam2 hl2
    -- redo
    obtain ⟨res2, g2, h2, hst2, hg2, hrev2, hl2'⟩ := rev_spans_ok wf1 (ok1.le hl2) i2
    refine ⟨res2, _, h2, hrev2, ?_⟩
    have wf2 : WF res2.st := by rw [hst2]; exact wf_map_keeps wf1 hg2
    have hlive : liveAt res2.st = liveAt res.st := by
      rw [hl2', hl1', hback]
      simpa [flipRev, effEntry] using hfwd
    rw [visible_eq_projC wf2, hlive, hst2, projC_map_keeps hg2, hst1, projC_map_keeps hg1,
      ← visible_eq_projC st1.wf]

end Yorkie.TextUndo
