/-
The delivery invariant for `DocChanged` events under the side condition "no publish timeout hit
the watcher" (Props/C17 `change_notification_partial`).  Same skeleton as Lemmas/PubSubDeliv.lean,
with the event kind tracked through the batch, the flush locals and the send step.
-/
import YorkieModel.Lemmas.PubSubDeliv
namespace Yorkie.PubSub

/-- the batch contains a `DocChanged` event that the `Filter` does not skip for subscriber `own` -/
def HasRelC (evs : List Event) (own : Nat) : Prop := ∃ e, e ∈ evs ∧ e.actor ≠ own ∧ e.changed = true

def HasC (evs : List Event) : Prop := ∃ e, e ∈ evs ∧ e.changed = true

theorem hasRelC_relevant {evs : List Event} {own : Nat} (h : HasRelC evs own) : HasC (relevant evs own) := by
  obtain ⟨e, he, ha, hc⟩ := h
  exact ⟨e, by simp [relevant, List.mem_filter, he, ha], hc⟩

/-- OnEnqueue keeps, for every `DocChanged` event offered, a `DocChanged` event of the same actor
in the batch (the event itself, or the two that caused it to be dropped) -/
theorem hasRelC_enqueue (b : List Event) (e : Event) (own : Nat) (h : e.actor ≠ own)
    (hc : e.changed = true) : HasRelC (enqueue b e) own := by
  unfold enqueue
  split
  · rename_i hd
    simp only [Bool.and_eq_true, decide_eq_true_eq] at hd
    have hlen : 0 < (b.filter (fun x => x.changed && x.actor == e.actor)).length := by
      have := hd.2; unfold dedupCount at this; omega
    obtain ⟨x, hx⟩ := List.exists_mem_of_length_pos hlen
    simp only [List.mem_filter, Bool.and_eq_true, beq_iff_eq] at hx
    exact ⟨x, hx.1, by rw [hx.2.2]; exact h, hx.2.1⟩
  · exact ⟨e, by simp, h, hc⟩

theorem hasRelC_enqueue_mono (b : List Event) (e : Event) (own : Nat) (h : HasRelC b own) :
    HasRelC (enqueue b e) own := by
  unfold enqueue
  split
  · exact h
  · obtain ⟨x, hx, ha⟩ := h
    exact ⟨x, by simp [hx], ha⟩

def Loop.midC (l : Loop) (i own : Nat) : Prop :=
  match l with
  | .snap _ evs => HasRelC evs own
  | .isDead _ evs c todo _ => HasRelC evs own ∧ (c = i ∨ i ∈ todo)
  | .send _ evs c rest todo _ => (c = i ∧ HasC rest) ∨ (HasRelC evs own ∧ i ∈ todo)
  | .isDead2 _ evs _ _ todo _ => HasRelC evs own ∧ i ∈ todo
  | _ => False

theorem midC_nextSub (pick : Nat) (f : Bool) (evs : List Event) (todo dead : List Nat) (i own : Nat)
    (hr : HasRelC evs own) (hi : i ∈ todo) : (Loop.nextSub pick f evs todo dead).midC i own := by
  cases todo with
  | nil => simp at hi
  | cons c t =>
    simp only [Loop.nextSub, Loop.midC]
    refine ⟨hr, ?_⟩
    by_cases hc : (if pick ∈ c :: t then pick else c) = i
    · left; exact hc
    · right
      exact (List.mem_erase_of_ne (fun h => hc h.symm)).mpr hi

theorem midC_nextEvent_other (pick : Nat) (f : Bool) (evs : List Event) (c : Nat) (rest : List Event)
    (todo dead : List Nat) (i own : Nat) (hr : HasRelC evs own) (hi : i ∈ todo) :
    (Loop.nextEvent pick f evs c rest todo dead).midC i own := by
  cases rest with
  | nil => exact midC_nextSub pick f evs todo dead i own hr hi
  | cons e r => simp only [Loop.nextEvent, Loop.midC]; right; exact ⟨hr, hi⟩

theorem midC_nextEvent_self (pick : Nat) (f : Bool) (evs : List Event) (rest : List Event)
    (todo dead : List Nat) (i own : Nat) (hr : HasC rest) :
    (Loop.nextEvent pick f evs i rest todo dead).midC i own := by
  cases rest with
  | nil => obtain ⟨e, he, _⟩ := hr; simp at he
  | cons e r => simp only [Loop.nextEvent, Loop.midC]; left; exact ⟨trivial, hr⟩

/-- since clock `t`: the stream was closed, or a send to `i` timed out, or a `DocChanged`
notification was put into `i`'s buffer -/
def ToldC (s : State) (i t : Nat) : Prop :=
  (s.subs i).closed = true ∨ t < (s.subs i).lastDrop ∨ t < (s.subs i).lastChanged

def PendingC (s : State) (i enqTake : Nat) : Prop :=
  ((s.objs (s.subs i).home).takes = enqTake ∧ HasRelC (s.objs (s.subs i).home).batch (s.subs i).owner) ∨
  ((s.objs (s.subs i).home).takes = enqTake + 1 ∧ (s.objs (s.subs i).home).loop.midC i (s.subs i).owner)

def DelivC (s : State) : Prop :=
  ∀ k e n0 enqAt enqTake tgt, s.ops k = .publish e n0 enqAt enqTake (.done tgt) → e.changed = true →
    ∀ i, i < n0 → (s.subs i).owner ≠ e.actor → ToldC s i enqAt ∨ PendingC s i enqTake


@[simp] theorem Sub.close_lastDrop (x : Sub) : x.close.1.lastDrop = x.lastDrop := by
  unfold Sub.close; split <;> rfl
@[simp] theorem Sub.close_lastChanged (x : Sub) : x.close.1.lastChanged = x.lastChanged := by
  unfold Sub.close; split <;> rfl

/-- the three ways `Subscription.Publish` can end, with the ghost stamps -/
theorem Sub.publish_strong (x : Sub) (e : Event) (now : Nat) (hc : x.chanClosed = x.closed) :
    (x.publish e now).1.closed = true ∨
    ((x.publish e now).2.1 = false ∧ (x.publish e now).1.lastDrop = now) ∨
    ((x.publish e now).2.1 = true ∧ (x.publish e now).1.lastDrop = x.lastDrop ∧
      (x.publish e now).1.lastChanged = if e.changed then now else x.lastChanged) := by
  unfold Sub.publish
  split
  · left; assumption
  · split
    · simp_all
    · split
      · right; right; simp
      · split
        · left; rfl
        · right; left; simp

/-- the stamps only move forward to `now` -/
theorem Sub.publish_stamps (x : Sub) (e : Event) (now : Nat) :
    ((x.publish e now).1.lastDrop = x.lastDrop ∨ (x.publish e now).1.lastDrop = now) ∧
    ((x.publish e now).1.lastChanged = x.lastChanged ∨ (x.publish e now).1.lastChanged = now) := by
  unfold Sub.publish
  repeat' split
  all_goals simp_all

theorem LoopMove.midC {s : State} {o : Nat} {l l' : Loop} (hm : LoopMove s o l l') (i : Nat)
    (hmem : (s.subs i).closed = true ∨ i ∈ (s.objs o).members)
    (h : l.midC i (s.subs i).owner) : (s.subs i).closed = true ∨ l'.midC i (s.subs i).owner := by
  cases hm with
  | snap f evs pick =>
    rcases hmem with hc | hmem
    · left; exact hc
    · right; exact midC_nextSub pick f evs _ [] i _ h hmem
  | isDeadDead f evs c todo dead pick hc =>
    obtain ⟨h1, h2 | h2⟩ := h
    · left; subst h2; exact hc
    · right; exact midC_nextSub pick f evs todo _ i _ h1 h2
  | isDeadLive f evs c todo dead pick hc =>
    obtain ⟨h1, h2 | h2⟩ := h
    · right; subst h2
      exact midC_nextEvent_self pick f evs _ todo dead c _ (hasRelC_relevant h1)
    · right; exact midC_nextEvent_other pick f evs c _ todo dead i _ h1 h2
  | sendNil f evs c todo dead pick =>
    simp only [Loop.midC] at h
    rcases h with ⟨_, h2⟩ | ⟨h1, h2⟩
    · obtain ⟨e, he, _⟩ := h2; simp at he
    · right; exact midC_nextSub pick f evs todo dead i _ h1 h2
  | isDead2Dead f evs c rest todo dead pick hc =>
    right; exact midC_nextSub pick f evs todo _ i _ h.1 h.2
  | isDead2Live f evs c rest todo dead pick hc =>
    right; exact midC_nextEvent_other pick f evs c rest todo dead i _ h.1 h.2
  | reapNil f => simp [Loop.midC] at h

theorem delivC_carry {s s' : State} {i t n : Nat}
    (hsub : (s'.subs i).owner = (s.subs i).owner ∧ (s'.subs i).home = (s.subs i).home ∧
      ((s.subs i).closed = true → (s'.subs i).closed = true) ∧
      (s'.subs i).lastDrop = (s.subs i).lastDrop ∧ (s'.subs i).lastChanged = (s.subs i).lastChanged)
    (hobj : (s'.objs (s.subs i).home).takes = (s.objs (s.subs i).home).takes ∧
      (∀ own, (s.objs (s.subs i).home).loop.midC i own → (s'.objs (s.subs i).home).loop.midC i own) ∧
      (HasRelC (s.objs (s.subs i).home).batch (s.subs i).owner →
        HasRelC (s'.objs (s.subs i).home).batch (s.subs i).owner))
    (h : ToldC s i t ∨ PendingC s i n) : ToldC s' i t ∨ PendingC s' i n := by
  obtain ⟨h1, h2, h3, h4, h5⟩ := hsub
  rcases h with h | h
  · left
    simp only [ToldC, h4, h5] at h ⊢
    rcases h with h | h
    · left; exact h3 h
    · right; exact h
  · right
    simp only [PendingC, h1, h2] at h ⊢
    rcases h with ⟨ha, hb⟩ | ⟨ha, hb⟩
    · left; exact ⟨by rw [hobj.1]; exact ha, hobj.2.2 hb⟩
    · right; exact ⟨by rw [hobj.1]; exact ha, hobj.2.1 _ hb⟩

theorem delivC_tr {s s' : State} (htr : Tr s s') (h : Inv s) (hc : ChanInv s) (hp : PubInv s)
    (hk : PubClock s) (hd : DelivC s) : DelivC s' := by
  intro k e n0 enqAt enqTake tgt hop' hch i hi hown
  have hr := hp.range
  have hhr := h.homeRange
  have same : ∀ {x : Sub}, x.owner = x.owner ∧ x.home = x.home ∧ (x.closed = true → x.closed = true) ∧
      x.lastDrop = x.lastDrop ∧ x.lastChanged = x.lastChanged := fun {_} => ⟨rfl, rfl, id, rfl, rfl⟩
  cases htr
  case stutter => exact hd _ _ _ _ _ _ hop' hch i hi hown
  case startSub a l m =>
    st_norm; split at hop'
    · cases hop'
    · exact hd _ _ _ _ _ _ hop' hch i hi hown
  case startUnsub sid hs =>
    st_norm; split at hop'
    · cases hop'
    · exact hd _ _ _ _ _ _ hop' hch i hi hown
  case startPub e0 =>
    st_norm; split at hop'
    · cases hop'
    · exact hd _ _ _ _ _ _ hop' hch i hi hown
  case subPc k0 a l m pc pc' hop =>
    st_norm; split at hop'
    · cases hop'
    · exact hd _ _ _ _ _ _ hop' hch i hi hown
  case unsubGetNone k0 sid hop he =>
    st_norm; split at hop'
    · cases hop'
    · exact hd _ _ _ _ _ _ hop' hch i hi hown
  case unsubGetSome k0 sid p hop he =>
    st_norm; split at hop'
    · cases hop'
    · exact hd _ _ _ _ _ _ hop' hch i hi hown
  case unsubMapNone k0 sid hop he =>
    st_norm; split at hop'
    · cases hop'
    · exact hd _ _ _ _ _ _ hop' hch i hi hown
  case unsubMapKeep k0 sid o hop he hl =>
    st_norm; split at hop'
    · cases hop'
    · exact hd _ _ _ _ _ _ hop' hch i hi hown
  case pubGetSome k0 e0 n00 t1 t2 p hop he =>
    st_norm; split at hop'
    · cases hop'
    · exact hd _ _ _ _ _ _ hop' hch i hi hown
  case upsertOld k0 a l m o pc' hop he =>
    have hold : s.ops k = .publish e n0 enqAt enqTake (.done tgt) := by
      simp only [State.setOp] at hop'; split at hop'
      · cases hop'
      · exact hop'
    have hlt : i ≠ s.nSubs := by have := hr _ _ _ _ _ _ hold; omega
    refine delivC_carry (s := s) ?_ ?_ (hd _ _ _ _ _ _ hold hch i hi (by simpa [hlt] using hown))
    · simp [hlt]
    · simp only [State.setOp, State.setObj, State.setSub]
      split <;> simp_all
  case upsertNew k0 a l m pc' hop he =>
    have hold : s.ops k = .publish e n0 enqAt enqTake (.done tgt) := by
      simp only [State.setOp] at hop'; split at hop'
      · cases hop'
      · exact hop'
    have hlt : i < s.nSubs := by have := hr _ _ _ _ _ _ hold; omega
    have hne : i ≠ s.nSubs := by omega
    have hh := hhr i hlt
    refine delivC_carry (s := s) ?_ ?_ (hd _ _ _ _ _ _ hold hch i hi (by simpa [hne] using hown))
    · simp [hne]
    · simp only [State.setOp, State.setObj, State.setSub]
      split
      · omega
      · simp
  case unsubClose k0 sid hop =>
    have hold : s.ops k = .publish e n0 enqAt enqTake (.done tgt) := by
      simp only [State.setOp, closeSub_ops] at hop'; split at hop'
      · cases hop'
      · exact hop'
    have hown' : (s.subs i).owner ≠ e.actor := by
      simp only [State.setOp, closeSub_subs] at hown
      split at hown
      · subst_vars; simpa using hown
      · exact hown
    refine delivC_carry (s := s) ?_ ?_ (hd _ _ _ _ _ _ hold hch i hi hown')
    · simp only [State.setOp, closeSub_subs]
      split
      · subst_vars; simp
      · exact same
    · simp [State.setOp]
  case unsubDelete k0 sid p hop =>
    have hold : s.ops k = .publish e n0 enqAt enqTake (.done tgt) := by
      simp only [State.setOp, deleteMember_ops] at hop'; split at hop'
      · cases hop'
      · exact hop'
    have hown' : (s.subs i).owner ≠ e.actor := by
      simp only [State.setOp, deleteMember_subs] at hown
      split at hown
      · rename_i hh; obtain ⟨rfl, _⟩ := hh; simpa using hown
      · exact hown
    refine delivC_carry (s := s) ?_ ?_ (hd _ _ _ _ _ _ hold hch i hi hown')
    · simp only [State.setOp, deleteMember_subs]
      split
      · rename_i hh; obtain ⟨rfl, _⟩ := hh; simp
      · exact same
    · simp only [State.setOp, deleteMember_objs]
      split <;> simp_all
  case unsubMapClose k0 sid o hop he hl =>
    have hold : s.ops k = .publish e n0 enqAt enqTake (.done tgt) := by
      simp only [State.setOp] at hop'; split at hop'
      · cases hop'
      · exact hop'
    refine delivC_carry (s := s) same ?_ (hd _ _ _ _ _ _ hold hch i hi hown)
    simp only [State.setOp, State.setObj]
    split <;> simp_all
  case tick o ho hl =>
    refine delivC_carry (s := s) same ?_ (hd _ _ _ _ _ _ hop' hch i hi hown)
    simp only [State.setLoop, State.setObj]
    split
    · rename_i hh; rw [hh, hl]; simp [Loop.midC]
    · simp
  case wake o ho hl hcl =>
    refine delivC_carry (s := s) same ?_ (hd _ _ _ _ _ _ hop' hch i hi hown)
    simp only [State.setLoop, State.setObj]
    split
    · rename_i hh; rw [hh, hl]; simp [Loop.midC]
    · simp
  case loopReap o f d dead ho hl =>
    have hown' : (s.subs i).owner ≠ e.actor := by
      simp only [State.setLoop, State.setObj, deleteMember_subs] at hown
      split at hown
      · rename_i hh; obtain ⟨rfl, _⟩ := hh; simpa using hown
      · exact hown
    have hop'' : s.ops k = .publish e n0 enqAt enqTake (.done tgt) := by
      simpa [State.setLoop] using hop'
    refine delivC_carry (s := s) ?_ ?_ (hd _ _ _ _ _ _ hop'' hch i hi hown')
    · simp only [State.setLoop, State.setObj, deleteMember_subs]
      split
      · rename_i hh; obtain ⟨rfl, _⟩ := hh; simp
      · exact same
    · simp only [State.setLoop, State.setObj, deleteMember_objs]
      split
      · rename_i hh; rw [hh, hl]; simp [Loop.midC]
      · simp
  case consume sid e0 rest hb =>
    by_cases hs : i = sid
    · subst hs
      refine delivC_carry (s := s) ?_ ?_ (hd _ _ _ _ _ _ hop' hch i hi (by simpa using hown))
      · simp
      · simp
    · refine delivC_carry (s := s) ?_ ?_ (hd _ _ _ _ _ _ hop' hch i hi (by simpa [hs] using hown))
      · simp [hs]
      · simp
  case pubGetNone k0 e0 n00 t1 t2 hop he =>
    simp only [State.setOp] at hop'
    split at hop'
    · left; left
      cases hc' : (s.subs i).closed with
      | true => exact hc'
      | false =>
        injection hop' with h1 h2 h3 h4 h5
        subst h2
        have hlt : i < s.nSubs := by have := hr _ _ _ _ _ _ hop; omega
        have := h.mem_entry _ _ (h.openMember i hlt hc')
        simp [he] at this
    · exact hd _ _ _ _ _ _ hop' hch i hi hown
  case pubEnqueue k0 e0 n00 t1 t2 p hop =>
    simp only [State.setOp] at hop'
    split at hop'
    · injection hop' with h1 h2 h3 h4 h5
      subst h1 h2
      cases hc' : (s.subs i).closed with
      | true => left; left; exact hc'
      | false =>
        right; left
        have hhome := hp.enq _ _ _ _ _ _ hop i hi hc'
        have hown' : (s.subs i).owner ≠ e0.actor := hown
        show ((if (s.subs i).home = p then _ else s.objs (s.subs i).home).takes = _) ∧
          HasRelC (if (s.subs i).home = p then _ else s.objs (s.subs i).home).batch (s.subs i).owner
        rw [if_pos hhome]
        exact ⟨h4, hasRelC_enqueue _ _ _ (fun h => hown' h.symm) hch⟩
    · refine delivC_carry (s := s) same ?_ (hd _ _ _ _ _ _ hop' hch i hi hown)
      simp only [State.setOp, State.setObj]
      split
      · rename_i hh; subst hh
        exact ⟨rfl, fun _ h => h, hasRelC_enqueue_mono _ _ _⟩
      · simp
  case loopTake o f ho hl =>
    have hold := hd _ _ _ _ _ _ hop' hch i hi hown
    rcases hold with hT | hP
    · left; exact hT
    · right
      simp only [PendingC, State.setObj] at hP ⊢
      split
      · rename_i hh
        rw [hh] at hP
        rcases hP with ⟨ha, hb⟩ | ⟨ha, hb⟩
        · right; exact ⟨by simp [ha], by simpa [Loop.midC] using hb⟩
        · simp [hl, Loop.midC] at hb
      · exact hP
  case loopMove o l l' ho hl hm =>
    have hold := hd _ _ _ _ _ _ hop' hch i hi hown
    have hlt : i < s.nSubs := by have := hr _ _ _ _ _ _ hop'; omega
    rcases hold with hT | hP
    · left; exact hT
    · simp only [PendingC, State.setLoop, State.setObj] at hP ⊢
      by_cases hh : (s.subs i).home = o
      · rw [if_pos hh]
        rw [hh] at hP
        rcases hP with ⟨ha, hb⟩ | ⟨ha, hb⟩
        · right; left; exact ⟨ha, hb⟩
        · have hmem : (s.subs i).closed = true ∨ i ∈ (s.objs o).members := by
            cases hc' : (s.subs i).closed with
            | true => left; rfl
            | false => right; have := h.openMember i hlt hc'; rwa [hh] at this
          rw [hl] at hb
          rcases hm.midC i hmem hb with h1 | h1
          · left; left; exact h1
          · right; right; exact ⟨ha, h1⟩
      · rw [if_neg hh]; right; exact hP
  case loopSend o f evs c e0 rest todo dead pick ho hl =>
    have hnow := hk.2 _ _ _ _ _ _ hop'
    by_cases hci : i = c
    · subst hci
      have hown' : (s.subs i).owner ≠ e.actor := by simpa [State.setLoop] using hown
      have hold := hd _ _ _ _ _ _ hop' hch i hi hown'
      have hst := Sub.publish_stamps (s.subs i) e0 s.clock
      have hout := Sub.publish_strong (s.subs i) e0 s.clock (hc.2 i)
      rcases hold with hT | hP
      · -- already told: the stamps only move forward
        left
        simp only [ToldC, State.setLoop, State.setObj, State.setSub, if_pos] at hT ⊢
        rcases hT with h1 | h1 | h1
        · left; exact Sub.publish_closed_mono _ _ _ h1
        · right; left; rcases hst.1 with h2 | h2 <;> omega
        · right; right; rcases hst.2 with h2 | h2 <;> omega
      · rcases hout with h1 | ⟨_, h1⟩ | ⟨hok, h1, h2⟩
        · left; left; simpa [State.setLoop] using h1
        · left; right; left
          simp only [State.setLoop, State.setObj, State.setSub, if_pos]
          omega
        · -- the send succeeded
          by_cases hce : e0.changed = true
          · left; right; right
            simp only [State.setLoop, State.setObj, State.setSub, if_pos]
            rw [h2, if_pos hce]; exact hnow
          · -- a non-change event went through: the change event is still ahead in `rest`
            right
            simp only [PendingC, State.setLoop, State.setObj, State.setSub, if_pos,
              Sub.publish_home, Sub.publish_owner] at hP ⊢
            by_cases hh : (s.subs i).home = o
            · rw [if_pos hh]
              rw [hh] at hP
              rcases hP with ⟨ha, hb⟩ | ⟨ha, hb⟩
              · left; exact ⟨ha, hb⟩
              · right
                refine ⟨ha, ?_⟩
                rw [hl] at hb
                simp only [Loop.midC] at hb
                show Loop.midC (if _ then _ else _) i _
                rw [if_pos hok]
                rcases hb with ⟨_, x, hx, hxc⟩ | ⟨h3, h4⟩
                · have hx' : x ∈ rest := by
                    rcases List.mem_cons.mp hx with h5 | h5
                    · subst h5; exact absurd hxc hce
                    · exact h5
                  exact midC_nextEvent_self pick f evs rest todo dead i _ ⟨x, hx', hxc⟩
                · exact midC_nextEvent_other pick f evs i rest todo dead i _ h3 h4
            · rw [if_neg hh]; exact hP
    · have hold := hd _ _ _ _ _ _ hop' hch i hi (by simpa [State.setLoop, hci] using hown)
      rcases hold with hT | hP
      · left; simpa [ToldC, State.setLoop, hci] using hT
      · right
        simp only [PendingC, State.setLoop, State.setObj, State.setSub, if_neg hci] at hP ⊢
        by_cases hh : (s.subs i).home = o
        · rw [if_pos hh]
          rw [hh] at hP
          rcases hP with ⟨ha, hb⟩ | ⟨ha, hb⟩
          · left; exact ⟨ha, hb⟩
          · right
            refine ⟨ha, ?_⟩
            rw [hl] at hb
            simp only [Loop.midC] at hb
            rcases hb with ⟨h1, _⟩ | ⟨h1, h2⟩
            · exact absurd h1.symm hci
            · split
              · exact midC_nextEvent_other pick f evs c rest todo dead i _ h1 h2
              · simp only [Loop.midC]; exact ⟨h1, h2⟩
        · rw [if_neg hh]; exact hP


/-- a `DocChanged` notification put into the buffer after the watcher's last receive is still in
the buffer (the channel is FIFO and a receive takes the oldest element) -/
def BufInv (s : State) : Prop :=
  ∀ i, (s.subs i).lastChanged < s.clock ∧
    ((s.subs i).lastConsume < (s.subs i).lastChanged → ∃ x, x ∈ (s.subs i).buffer ∧ x.changed = true)

theorem Sub.publish_buf (x : Sub) (e : Event) (now : Nat) (h1 : x.lastChanged < now)
    (h2 : x.lastConsume < x.lastChanged → ∃ y, y ∈ x.buffer ∧ y.changed = true) :
    (x.publish e now).1.lastChanged ≤ now ∧
    ((x.publish e now).1.lastConsume < (x.publish e now).1.lastChanged →
      ∃ y, y ∈ (x.publish e now).1.buffer ∧ y.changed = true) := by
  unfold Sub.publish
  split
  · exact ⟨Nat.le_of_lt h1, h2⟩
  · split
    · exact ⟨Nat.le_of_lt h1, h2⟩
    · split
      · by_cases hc : e.changed = true
        · simp only [hc, if_true]
          exact ⟨Nat.le_refl _, fun _ => ⟨e, by simp, hc⟩⟩
        · simp only [hc]
          refine ⟨Nat.le_of_lt h1, fun h => ?_⟩
          obtain ⟨y, hy, hyc⟩ := h2 h
          exact ⟨y, by simp [hy], hyc⟩
      · split
        · exact ⟨Nat.le_of_lt h1, h2⟩
        · exact ⟨Nat.le_of_lt h1, h2⟩

theorem bufInv_tr {s s' : State} (htr : Tr s s') (hb : BufInv s) :
    ∀ i, (s'.subs i).lastChanged ≤ s.clock ∧
      ((s'.subs i).lastConsume < (s'.subs i).lastChanged → ∃ x, x ∈ (s'.subs i).buffer ∧ x.changed = true) := by
  have hb' : ∀ i, (s.subs i).lastChanged ≤ s.clock ∧
      ((s.subs i).lastConsume < (s.subs i).lastChanged → ∃ x, x ∈ (s.subs i).buffer ∧ x.changed = true) :=
    fun i => ⟨Nat.le_of_lt (hb i).1, (hb i).2⟩
  have hcl : ∀ i, ((s.subs i).close.1).lastChanged ≤ s.clock ∧
      (((s.subs i).close.1).lastConsume < ((s.subs i).close.1).lastChanged →
        ∃ x, x ∈ ((s.subs i).close.1).buffer ∧ x.changed = true) := by
    intro i; simpa using hb' i
  cases htr <;> try exact hb'
  case upsertOld k a l m o pc' hop he =>
    intro j; simp only [State.setOp, State.setObj, State.setSub]
    split
    · exact ⟨Nat.zero_le _, fun h => absurd h (Nat.lt_irrefl 0)⟩
    · exact hb' j
  case upsertNew k a l m pc' hop he =>
    intro j; simp only [State.setOp, State.setObj, State.setSub]
    split
    · exact ⟨Nat.zero_le _, fun h => absurd h (Nat.lt_irrefl 0)⟩
    · exact hb' j
  case unsubClose k sid hop =>
    intro j; simp only [State.setOp, closeSub_subs]
    split
    · exact hcl sid
    · exact hb' j
  case unsubDelete k sid p hop =>
    intro j; simp only [State.setOp, deleteMember_subs]
    split
    · exact hcl sid
    · exact hb' j
  case loopReap o f d dead ho hl =>
    intro j; simp only [State.setLoop, State.setObj, deleteMember_subs]
    split
    · exact hcl d
    · exact hb' j
  case loopSend o f evs c e rest todo dead pick ho hl =>
    intro j; simp only [State.setLoop, State.setObj, State.setSub]
    split
    · exact Sub.publish_buf _ _ _ (hb c).1 (hb c).2
    · exact hb' j
  case consume sid e rest hbuf =>
    intro j; simp only [State.setSub]
    split
    · refine ⟨(hb' sid).1, fun h => ?_⟩
      have := (hb sid).1
      simp only [] at h
      omega
    · exact hb' j

/-- everything that holds in every reachable state, including the `DocChanged` bookkeeping -/
structure StrongInv (s : State) : Prop where
  all : AllInv s
  delivC : DelivC s
  buf : BufInv s

theorem reachable_strongInv {s : State} (h : Reachable s) : StrongInv s := by
  induction h with
  | init => exact ⟨allInv_init, by simp [DelivC, init], by intro i; simp [init]⟩
  | @step s0 _ l ih =>
    have htr := stepCore_tr s0 l
    refine ⟨allInv_step ih.all l, ?_, ?_⟩
    · exact (delivC_tr htr ih.all.inv ih.all.chan ih.all.pub ih.all.clock ih.delivC : DelivC (stepCore s0 l))
    · intro i
      have := bufInv_tr htr ih.buf i
      exact ⟨Nat.lt_succ_of_le this.1, this.2⟩

end Yorkie.PubSub
