/-
Helper lemmas for Model/Conc.lean, part 1: the small-step model run without interleaving is the
sequential model (`solo_eq_step`, `rest_validate`, `runRest_spec`); every step only extends the
documents (`Step.docsExt`), hence the log shape of every reachable state.
-/
import YorkieModel.Model.Conc
import YorkieModel.Lemmas.ServerDeliveryInv
namespace Yorkie.Conc
open Yorkie Yorkie.Server

/-! ### sequential composition -/

theorem andThen_assoc (p q r : Phase) : (p ⨟ q) ⨟ r = p ⨟ (q ⨟ r) := by
  funext s f
  simp only [Phase.andThen]
  rcases p s f with ⟨s1, x | f1⟩ <;> rfl

/-- the phases of the small-step model, composed, are `packs.PushPull` -/
theorem rest_validate : Pc.rest .validate = pushPull := by
  simp only [Pc.rest, pushPull, ← vvWrite_vvRead, andThen_assoc]

theorem rest_unfold (pc : Pc) (h1 : pc ≠ .persist) (h2 : pc ≠ .done) : pc.rest = pc.phase ⨟ pc.next.rest := by
  cases pc <;> first | rfl | exact absurd rfl h1 | exact absurd rfl h2

/-- run the remaining phases of one request without interleaving -/
def runRest : Nat → Server → InFlight → Server × InFlight
  | 0, s, r => (s, r)
  | n + 1, s, r => if r.pc = .done then (s, r) else runRest n (stepFlight s r).1 (stepFlight s r).2

def Pc.dist : Pc → Nat
  | .validate => 8 | .strip => 7 | .push => 6 | .pull => 5 | .status => 4 | .vvWrite => 3 | .vvRead => 2
  | .persist => 1 | .done => 0

def outOf (req : Request) : Except ErrKind Flight → Except ErrKind Resp
  | .ok f => .ok (respOf req f)
  | .error e => .error e

theorem runRest_done (n : Nat) (s : Server) (r : InFlight) (h : r.pc = .done) : runRest n s r = (s, r) := by
  cases n <;> simp [runRest, h]

/-- stepping through the phases one at a time computes `Pc.rest` -/
theorem runRest_spec (n : Nat) (s : Server) (r : InFlight) (hn : r.pc.dist ≤ n) (hpc : r.pc ≠ .done) :
    (runRest n s r).1 = (r.pc.rest s r.f).1 ∧ (runRest n s r).2.pc = .done ∧
    (runRest n s r).2.out = outOf r.req (r.pc.rest s r.f).2 ∧
    (runRest n s r).2.req = r.req ∧ (runRest n s r).2.id = r.id ∧ (runRest n s r).2.lock = r.lock ∧
    (runRest n s r).2.lost = r.lost := by
  induction n generalizing s r with
  | zero => cases hp : r.pc <;> simp [hp, Pc.dist] at hn hpc
  | succ n ih =>
    simp only [runRest, if_neg hpc]
    by_cases hper : r.pc = .persist
    · -- last phase
      simp only [stepFlight, hper, Pc.phase, Pc.rest, Pc.next]
      rcases hp : persistClientInfo s r.f with ⟨s', e | f'⟩
      · simp [runRest_done, outOf]
      · simp [runRest_done, outOf]
    · rw [rest_unfold r.pc hper hpc]
      simp only [stepFlight, Phase.andThen]
      rcases hp : r.pc.phase s r.f with ⟨s', e | f'⟩
      · simp [runRest_done, outOf]
      · simp only []
        have hnd : r.pc.next ≠ .done := by
          cases hq : r.pc <;> simp [hq, Pc.next] at hper hpc ⊢
        have hd : r.pc.next.dist ≤ n := by
          cases hq : r.pc <;> simp [hq, Pc.next, Pc.dist] at hper hpc hn ⊢ <;> omega
        rw [if_neg hnd]
        have := ih s' { r with f := f', pc := r.pc.next } hd hnd
        simpa using this

/-- a request run alone: the handler prefix followed by `PushPull` is the sequential handler -/
theorem solo_eq_step (s : Server) (req : Request) (h : isReq req = true) : solo s req = Server.step s req := by
  cases req with
  | activate => simp [isReq] at h
  | deactivate c o => simp [isReq] at h
  | attach c key pack dp nogc =>
    simp only [solo, begin, Server.step, attach]
    cases hfc : s.findActiveClient c with
    | error e => rfl
    | ok info =>
      simp only [attachWith]
      cases hfd : (findOrCreateDoc s key dp).1.findDoc (findOrCreateDoc s key dp).2 with
      | none => rfl
      | some doc =>
        simp only []
        rcases hca : clientsAttach (findOrCreateDoc s key dp).1 c info (findOrCreateDoc s key dp).2 doc.epoch
            (pack.cp.serverSeq != 0) with ⟨s2, e | info2⟩
        · rfl
        · simp only []
          rcases hpp : pushPull s2 (mkFlight c (findOrCreateDoc s key dp).2 info2 pack false .attached nogc
              doc.disablePresence) with ⟨s3, e | f'⟩
          · rfl
          · have hd : f'.doc = (findOrCreateDoc s key dp).2 := by
              obtain ⟨ch⟩ := pushPull_ok hpp
              rw [ch.flight]; simp [pushedFlight, mkFlight]
            simp [respOf, hd]
  | pushpull c d pack po nogc =>
    simp only [solo, begin, Server.step, pushpullReq]
    cases hfc : s.findActiveClient c with
    | error e => rfl
    | ok info =>
      simp only []
      cases he : info.ensureAttached d with
      | error e => rfl
      | ok u =>
        simp only []
        cases hfd : s.findDoc d with
        | none => rfl
        | some doc =>
          simp only [finish]
          rcases pushPull s (mkFlight c d info pack po .attached nogc doc.disablePresence) with ⟨s3, e | f'⟩ <;> rfl
  | detach c d pack =>
    simp only [solo, begin, Server.step, detach]
    cases hfc : s.findActiveClient c with
    | error e => rfl
    | ok info =>
      simp only []
      cases he : detachGuard s info d with
      | error e => rfl
      | ok u =>
        simp only []
        cases hfd : s.findDoc d with
        | none => rfl
        | some doc =>
          simp only [finish]
          rcases pushPull s (mkFlight c d info (detachMode s c d pack).1 false (detachMode s c d pack).2 false
            doc.disablePresence) with ⟨s3, e | f'⟩ <;> rfl
  | remove c d pack =>
    simp only [solo, begin, Server.step, remove]
    cases hfc : s.findActiveClient c with
    | error e => rfl
    | ok info =>
      simp only []
      cases he : detachGuard s info d with
      | error e => rfl
      | ok u =>
        simp only []
        cases hfd : s.findDoc d with
        | none => rfl
        | some doc =>
          simp only [finish]
          rcases pushPull s (mkFlight c d info pack false .removed false doc.disablePresence) with ⟨s3, e | f'⟩ <;> rfl

/-! ### every step only extends the documents -/

theorem vvWrite_docsExt {s s' : Server} {f : Flight} {r} (h : vvWrite s f = (s', r)) : DocsExt s s' := by
  unfold vvWrite at h
  split at h
  · injection h with h1 _; subst h1; exact DocsExt.refl s
  · split at h
    · injection h with h1 _; subst h1; exact DocsExt.refl s
    · next s1 hs => injection h with h1 _; subst h1; exact updateVersionVector_docsExt hs

theorem vvRead_frame {s s' : Server} {f : Flight} {r} (h : vvRead s f = (s', r)) : s' = s := by
  unfold vvRead at h
  split at h <;> injection h with h1 _ <;> exact h1.symm

theorem phase_docsExt (pc : Pc) {s s' : Server} {f : Flight} {r} (h : pc.phase s f = (s', r)) : DocsExt s s' := by
  cases pc <;> simp only [Pc.phase] at h
  · rw [(validateClientSeq_frame h).1]; exact DocsExt.refl s
  · rw [(stripPresence_frame h).1]; exact DocsExt.refl s
  · exact pushPack_docsExt h
  · rw [preparePack_frame h]; exact DocsExt.refl s
  · rw [updateDocStatus_frame h]; exact DocsExt.refl s
  · exact vvWrite_docsExt h
  · rw [vvRead_frame h]; exact DocsExt.refl s
  · exact persistClientInfo_docsExt h
  · injection h with h1 _; subst h1; exact DocsExt.refl s

theorem stepFlight_docsExt (s : Server) (r : InFlight) : DocsExt s (stepFlight s r).1 := by
  unfold stepFlight
  rcases hp : r.pc.phase s r.f with ⟨s', e | f'⟩ <;> exact phase_docsExt r.pc hp

theorem begin_docsExt (s : Server) (hw : WF s) (req : Request) : DocsExt s (begin s req).1 := by
  cases req with
  | activate => exact DocsExt.refl s
  | deactivate c o => exact DocsExt.refl s
  | attach c key pack dp nogc =>
    simp only [begin]
    split
    · exact DocsExt.refl s
    · next info _ =>
      have h1 := findOrCreateDoc_docsExt s hw key dp
      split
      · exact h1
      · next doc _ =>
        have h2 := clientsAttach_docsExt (findOrCreateDoc s key dp).1 c info (findOrCreateDoc s key dp).2 doc.epoch
          (pack.cp.serverSeq != 0)
        split
        · next s2 e hca => rw [hca] at h2; exact h1.trans h2
        · next s2 i hca => rw [hca] at h2; exact h1.trans h2
  | pushpull c d pack po nogc =>
    simp only [begin]
    split
    · exact DocsExt.refl s
    · split
      · exact DocsExt.refl s
      · split <;> exact DocsExt.refl s
  | detach c d pack =>
    simp only [begin]
    split
    · exact DocsExt.refl s
    · split
      · exact DocsExt.refl s
      · split <;> exact DocsExt.refl s
  | remove c d pack =>
    simp only [begin]
    split
    · exact DocsExt.refl s
    · split
      · exact DocsExt.refl s
      · split <;> exact DocsExt.refl s

theorem startFlight_fst (s : Server) (id : Nat) (req : Request) (lost : Bool) :
    (startFlight s id req lost).1 = (begin s req).1 := by
  unfold startFlight
  rcases begin s req with ⟨s1, e | f⟩ <;> rfl

theorem Step.docsExt {σ σ' : Sys} (hw : WF σ.srv) (h : Step σ σ') : DocsExt σ.srv σ'.srv := by
  cases h with
  | activate => exact activate_docsExt σ.srv
  | start id req lost _ _ => simp only [startFlight_fst]; exact begin_docsExt σ.srv hw req
  | phase pre post r _ _ => exact stepFlight_docsExt σ.srv r
  | finish pre post r _ _ => exact DocsExt.refl σ.srv

theorem Reachable.wf {cfg : Config} {σ : Sys} (h : Reachable cfg σ) : WF σ.srv := by
  induction h with
  | init => exact WF_init cfg
  | step _ hs ih => exact (hs.docsExt ih).wf ih

theorem Reachable.docsExt {cfg : Config} {σ : Sys} (h : Reachable cfg σ) : DocsExt (Server.init cfg) σ.srv := by
  induction h with
  | init => exact DocsExt.refl _
  | step hr hs ih => exact ih.trans (hs.docsExt hr.wf)

/-! ### the scheduler function takes steps of the relation -/

theorem splitAt_eq {id : Nat} {l pre post : List InFlight} {r : InFlight} (h : splitAt id l = some (pre, r, post)) :
    l = pre ++ r :: post := by
  induction l generalizing pre with
  | nil => simp [splitAt] at h
  | cons x xs ih =>
    simp only [splitAt] at h
    split at h
    · injection h with h; injection h with h1 h2; injection h2 with h2 h3; subst h1; subst h2; subst h3; rfl
    · split at h
      · simp at h
      · next pre' x' post' hs =>
        injection h with h; injection h with h1 h2; injection h2 with h2 h3; subst h1; subst h2; subst h3
        simp [ih hs]

/-- `stepFn` either takes a step of the relation or (item not enabled) does nothing -/
theorem stepFn_step (σ : Sys) (it : Item) : Step σ (stepFn σ it) ∨ stepFn σ it = σ := by
  cases it with
  | activate => exact Or.inl (Step.activate σ)
  | start id req lost =>
    simp only [stepFn]
    split
    · next h =>
      simp only [Bool.and_eq_true] at h
      exact Or.inl (Step.start σ id req lost h.1 h.2)
    · exact Or.inr rfl
  | phase id =>
    simp only [stepFn]
    split
    · exact Or.inr rfl
    · next pre r post hs =>
      split
      · exact Or.inr rfl
      · next hpc => exact Or.inl (Step.phase σ pre post r (splitAt_eq hs) hpc)
  | finish id =>
    simp only [stepFn]
    split
    · exact Or.inr rfl
    · next pre r post hs =>
      split
      · next hpc => exact Or.inl (Step.finish σ pre post r (splitAt_eq hs) hpc)
      · exact Or.inr rfl

theorem runItems_reachable {cfg : Config} {σ : Sys} (h : Reachable cfg σ) (items : List Item) :
    Reachable cfg (runItems σ items) := by
  induction items generalizing σ with
  | nil => exact h
  | cons it rest ih =>
    simp only [runItems, List.foldl_cons]
    rcases stepFn_step σ it with hs | he
    · exact ih (Reachable.step h hs)
    · rw [he]; exact ih h

end Yorkie.Conc
