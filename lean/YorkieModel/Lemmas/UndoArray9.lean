/-
Lemmas for C14, part 18: restoring a container-valued member of an object (`Set` over a live
container, `Remove` of a live container; the reverse is `Set p k (capture d u)`, which `Execute`
deep-copies a second time).  Proved under the decidable copy-stability predicate `copyStableB`.
-/
import YorkieModel.Lemmas.UndoArray2
namespace Yorkie.Undo
open Yorkie Yorkie.Crdt

deriving instance DecidableEq for Vis

/-! ### what `instantiate` writes -/

theorem writeAll_apply : ∀ (l : List (Ticket × Elem)) (d : Doc) (t : Ticket),
    writeAll d l t = match lookupSub l t with
      | some e => some e
      | none => d t
  | [], _, _ => rfl
  | (k, e) :: r, d, t => by
    simp only [writeAll, lookupSub]
    rw [writeAll_apply r (d.set k e) t]
    cases h : lookupSub r t with
    | some e' => rfl
    | none =>
      simp only [set_apply]
      by_cases hk : k = t
      · simp [hk]
      · have : ¬ t = k := fun h => hk h.symm
        simp [hk, this]

/-- the second deep copy, made by `Execute` from the captured value -/
def copy2 (cv : UVal) : Body × List (Ticket × Elem) := copyBody (lookupSub cv.sub) copyFuel cv.id cv.body

/-- the identities `instantiate` (re)writes -/
def written (cv : UVal) (t : Ticket) : Bool := t == cv.id || (lookupSub (copy2 cv).2 t).isSome

def writtenList (cv : UVal) : List Ticket := cv.id :: (copy2 cv).2.map (·.1)

theorem lookupSub_isSome : ∀ (l : List (Ticket × Elem)) (t : Ticket), (lookupSub l t).isSome = true ↔ t ∈ l.map (·.1)
  | [], _ => by simp [lookupSub]
  | (k, e) :: r, t => by
    simp only [lookupSub, List.map_cons, List.mem_cons]
    cases h : lookupSub r t with
    | some e' =>
      have := (lookupSub_isSome r t).1 (by simp [h])
      simp [this]
    | none =>
      have hn : t ∉ r.map (·.1) := fun hm => by
        have := (lookupSub_isSome r t).2 hm; simp [h] at this
      by_cases hk : k = t
      · simp [hk]
      · have : ¬ t = k := fun h => hk h.symm
        simp [hk, this, hn]

theorem written_iff (cv : UVal) (t : Ticket) : written cv t = true ↔ t ∈ writtenList cv := by
  simp only [written, writtenList, Bool.or_eq_true, beq_iff_eq, List.mem_cons, lookupSub_isSome]

theorem instantiate_apply (d : Doc) (p : Ticket) (cv : UVal) (r : Bool) (t : Ticket) :
    instantiate d p cv r t =
      if t = cv.id then some ⟨some p, r, (copy2 cv).1⟩
      else match lookupSub (copy2 cv).2 t with
        | some e => some e
        | none => d t := by
  unfold instantiate
  rw [set_apply, writeAll_apply]
  rfl

theorem instantiate_written {dA dB : Doc} {p : Ticket} {cv : UVal} {r : Bool} {t : Ticket}
    (h : written cv t = true) : instantiate dA p cv r t = instantiate dB p cv r t := by
  rw [instantiate_apply, instantiate_apply]
  by_cases h1 : t = cv.id
  · simp [h1]
  · simp only [h1, if_false]
    cases h2 : lookupSub (copy2 cv).2 t with
    | some e => rfl
    | none => simp [written, h1, h2] at h

theorem instantiate_not_written {d : Doc} {p : Ticket} {cv : UVal} {r : Bool} {t : Ticket}
    (h : written cv t = false) : instantiate d p cv r t = d t := by
  rw [instantiate_apply]
  simp only [written, Bool.or_eq_false_iff, beq_eq_false_iff_ne, ne_eq] at h
  simp only [h.1, if_false]
  cases h2 : lookupSub (copy2 cv).2 t with
  | some e => simp [h2] at h
  | none => rfl

/-! ### copy stability -/

/-- the value `u` below the object `p` survives capture followed by re-instantiation: every identity the
    re-instantiation writes has the visible normal form and liveness it has in `d`; `p` is not inside the
    value; and `p` is not orphaned while `u` is tombstoned.  Decidable on concrete heaps. -/
def copyStableB (d : Doc) (p u : Ticket) : Bool :=
  match capture d u with
  | none => false
  | some cv =>
    !(writtenList cv).contains p &&
    (writtenList cv).all (fun t => (d t).isSome &&
      decide (vis (instantiate d p cv false) t = vis d t) && (live (instantiate d p cv false) t == live d t)) &&
    !orphaned (kill d (some u)) noTw orphanFuel p

structure CopyStable (d : Doc) (p u : Ticket) (cv : UVal) : Prop where
  hcap : capture d u = some cv
  hpW : written cv p = false
  hex : ∀ t, written cv t = true → (d t).isSome = true
  hst : ∀ t, written cv t = true →
    vis (instantiate d p cv false) t = vis d t ∧ live (instantiate d p cv false) t = live d t
  horph : orphaned (kill d (some u)) noTw orphanFuel p = false

theorem copyStableB_spec {d : Doc} {p u : Ticket} (h : copyStableB d p u = true) :
    ∃ cv, CopyStable d p u cv := by
  unfold copyStableB at h
  cases hc : capture d u with
  | none => simp [hc] at h
  | some cv =>
    simp only [hc, Bool.and_eq_true, Bool.not_eq_true', List.all_eq_true, decide_eq_true_eq, beq_iff_eq] at h
    obtain ⟨⟨h1, h2⟩, h3⟩ := h
    refine ⟨cv, hc, ?_, ?_, ?_, h3⟩
    · cases hw : written cv p with
      | false => rfl
      | true =>
        have := (written_iff cv p).1 hw
        have hx : (writtenList cv).contains p = true := List.contains_iff_mem.2 this
        rw [hx] at h1; cases h1
    · intro t ht
      exact (h2 t ((written_iff cv t).1 ht)).1.1
    · intro t ht
      have := h2 t ((written_iff cv t).1 ht)
      exact ⟨this.1.2, this.2⟩

theorem capture_id {d : Doc} {u : Ticket} {cv : UVal} (h : capture d u = some cv) :
    cv.id = u ∧ ∃ ue, d u = some ue ∧ cv.removed = ue.removed := by
  unfold capture at h
  cases hd : d u with
  | none => simp [hd] at h
  | some ue =>
    simp only [hd, Option.some.injEq] at h
    subst h
    exact ⟨rfl, ue, rfl, rfl⟩

/-! ### the restored heap prints like the original -/

section restore
variable {d d2 : Doc} {p u : Ticket} {cv : UVal} {pe : Elem} {keys : List String}
  {member member2 : String → Option Member}

theorem restore_vis (cs : CopyStable d p u cv) (hd : d p = some pe) (hb : pe.body = .obj keys member)
    (ha : ∀ t, written cv t = true → d2 t = instantiate d p cv false t)
    (hp2 : d2 p = some { pe with body := .obj keys member2 })
    (hm2 : ∀ k', (member2 k').map (·.child) = (member k').map (·.child))
    (hc : ∀ t, written cv t = false → t ≠ p → live d2 t = live d t ∧ (live d t = true → d2 t = d t)) :
    ∀ t, live d t = true → vis d t = vis d2 t := by
  have hliveI : ∀ c, live (instantiate d p cv false) c = live d c := by
    intro c
    cases hw : written cv c with
    | true => exact (cs.hst c hw).2
    | false => unfold live; rw [instantiate_not_written hw]
  have hlive : ∀ c, live d2 c = live d c := by
    intro c
    cases hw : written cv c with
    | true => unfold live at hliveI ⊢; rw [ha c hw]; exact hliveI c
    | false =>
      by_cases hcp : c = p
      · subst hcp; simp [live, hp2, hd]
      · exact (hc c hw hcp).1
  intro t ht
  cases hw : written cv t with
  | true =>
    rw [← (cs.hst t hw).1]
    unfold vis
    rw [ha t hw]
    cases hI : instantiate d p cv false t with
    | none => rfl
    | some e =>
      simp only []
      apply visBody_congr
      · intro _ _ _ mm _ _; rw [hliveI, hlive]
      · intro _ _ _ c _ _ _; rw [hliveI, hlive]
  | false =>
    by_cases htp : t = p
    · subst htp
      simp only [vis, hd, hp2, hb, visBody]
      congr 1
      apply filterMap_congr'
      intro k' _
      unfold objEntry
      have := hm2 k'
      cases h1 : member k' with
      | none =>
        rw [h1] at this
        cases h2 : member2 k' with
        | none => rfl
        | some m2 => simp [h2] at this
      | some m1 =>
        rw [h1] at this
        cases h2 : member2 k' with
        | none => simp [h2] at this
        | some m2 =>
          simp only [h2, Option.map_some, Option.some.injEq] at this
          simp only [this, hlive]
    · have := (hc t hw htp).2 ht
      unfold vis
      rw [this]
      cases hdt : d t with
      | none => rfl
      | some e =>
        simp only []
        apply visBody_congr
        · intro _ _ _ mm _ _; rw [hlive]
        · intro _ _ _ c _ _ _; rw [hlive]

end restore

/-! ### executing the restoring `Set` -/

theorem markRemoved_other {d : Doc} {c ts t : Ticket} (h : t ≠ c) : markRemoved d c ts t = d t := by
  unfold markRemoved
  cases d c with
  | none => rfl
  | some e =>
    simp only []
    split
    · simp [set_apply, h]
    · rfl

theorem reverseSet_isSome {d : Doc} {p : Ticket} (hp : isObj d p = true) (k : String) (v : UVal) (ts : Ticket) :
    ∃ q, reverseSet d p k v ts = some q := by
  unfold isObj at hp
  unfold reverseSet
  cases hd : d p with
  | none => simp [hd] at hp
  | some pe =>
    cases hb : pe.body <;> simp only [hd, hb, Bool.false_eq_true] at hp
    rename_i keys member
    simp only [hb]
    cases liveMember d member k with
    | none => exact ⟨_, rfl⟩
    | some c =>
      show ∃ q, (match capture d c with
        | some cv => some (UOp.set p k cv ts)
        | none => some (UOp.remove p v.id ts)) = some q
      cases capture d c with
      | none => exact ⟨_, rfl⟩
      | some cv => exact ⟨_, rfl⟩

/-- the restoring `Set` over the occupant `m` of key `k` -/
theorem uexecute_restore {d1 : Doc} {tw : Ticket → Bool} {p : Ticket} {k : String} {cv : UVal} {ts2 : Ticket}
    {pe1 : Elem} {keys : List String} {member1 : String → Option Member} {m : Member}
    (hd : d1 p = some pe1) (hb : pe1.body = .obj keys member1) (hm : member1 k = some m)
    (hafter : ts2.after m.positionedAt = true) (horph : orphaned d1 tw orphanFuel p = false) :
    ∃ q, uexecute d1 tw .undoRedo (.set p k cv ts2) =
      .ok ((instantiate (markRemoved d1 m.child ts2) p cv cv.removed).set p
        { pe1 with body := .obj keys (fun k' => if k' = k then some ⟨cv.id, ts2⟩ else member1 k') }, some q) := by
  have hobj : isObj d1 p = true := by simp [isObj, hd, hb]
  obtain ⟨q, hq⟩ := reverseSet_isSome hobj k cv ts2
  refine ⟨q, ?_⟩
  have happ : applySetU d1 p k cv ts2 = .ok ((instantiate (markRemoved d1 m.child ts2) p cv cv.removed).set p
      { pe1 with body := .obj keys (fun k' => if k' = k then some ⟨cv.id, ts2⟩ else member1 k') }) := by
    unfold applySetU
    simp only [hd, hb, hm, hafter, if_true]
  simp only [uexecute, hobj, Bool.not_true, Bool.false_eq_true, if_false, horph, Bool.and_false, happ,
    Source.needsReverse, gate, if_true, hq]
  rfl

/-! ### undo of `Set` over a live container, undo of `Remove` of a live container -/

theorem undo_do_set_overwrite_container_core {h : Hist} (fr : Fresh h) {p u : Ticket} {k : String} {v : Val}
    (hp : isObj h.doc p = true) (hv : leafBody v.body = true) (hk : winner h.doc p k = some u)
    {cv : UVal} (cs : CopyStable h.doc p u cv) (fuel : Nat) :
    marshal (undo (doChange h [.set p k (UVal.ofVal v h.next) h.next])).doc fuel rootId =
      marshal h.doc fuel rootId := by
  obtain ⟨H, w⟩ := fr.wf
  have bd := fr.bd
  obtain ⟨pe, keys, member, hd, hb, hw⟩ := isObj_winner hp k
  rw [hw] at hk
  obtain ⟨hlu, m, hm, hmc⟩ := liveMember_some hk
  obtain ⟨ue, hue, hur⟩ := live_elem hlu
  obtain ⟨hcid, ue', hue', hcr⟩ := capture_id cs.hcap
  rw [hue] at hue'; injection hue' with hue'; subst hue'
  rw [hur] at hcr
  obtain ⟨hfresh, _⟩ := fresh_next fr
  have hwu : written cv u = true := by simp [written, hcid]
  have hpu : p ≠ u := by intro hx; have := cs.hpW; rw [hx, hwu] at this; cases this
  have hpts : p ≠ h.next := by intro hx; rw [hx, hfresh] at hd; cases hd
  have hwts : written cv h.next = false := by
    cases hx : written cv h.next with
    | false => rfl
    | true => have := cs.hex _ hx; rw [hfresh] at this; cases this
  -- the forward edit
  have happ := applySetU_eq (d := h.doc) (p := p) (k := k) (val := UVal.ofVal v h.next) (ts := h.next) hd hb
    hv rfl (by
      intro m' hm'
      refine ⟨after_of_lamport ?_, fun e he => after_of_lamport ?_⟩
      · have := bd.pos _ _ _ _ _ _ hd hb hm'; simp only [Hist.next]; omega
      · have := bd.ent _ _ he; simp only [Hist.next]; omega)
  simp only [hm, Option.map_some, hmc, Option.isNone_some, Bool.false_eq_true, if_false] at happ
  have hrev : reverseSet h.doc p k (UVal.ofVal v h.next) h.next = some (.set p k cv h.next) := by
    unfold reverseSet
    simp only [hd, hb, hk, cs.hcap]
  have he1 : uexecute h.doc noTw .loc (.set p k (UVal.ofVal v h.next) h.next) =
      .ok (((kill h.doc (some u)).set h.next ⟨some p, false, v.body⟩).set p
        { pe with body := .obj keys (fun k' => if k' = k then some ⟨h.next, h.next⟩ else member k') },
        some (.set p k cv h.next)) := by
    simp only [uexecute, hp, Bool.not_true, Bool.false_eq_true, if_false, happ, Source.needsReverse, gate, if_true,
      hrev, show (Source.loc = Source.undoRedo) = False from by simp, decide_false, Bool.false_and]
    rfl
  rw [doChange_one (by rfl) he1]
  generalize hd1 : ((kill h.doc (some u)).set h.next ⟨some p, false, v.body⟩).set p
    { pe with body := .obj keys (fun k' => if k' = k then some ⟨h.next, h.next⟩ else member k') } = d1
  have hd1p : d1 p = some { pe with body := .obj keys (fun k' => if k' = k then some ⟨h.next, h.next⟩ else member k') } := by
    rw [← hd1]; simp [set_apply]
  have hd1t : d1 h.next = some ⟨some p, false, v.body⟩ := by
    have : ¬ h.next = p := fun hx => hpts hx.symm
    rw [← hd1]; simp [set_apply, this]
  have hd1o : ∀ t, t ≠ p → t ≠ h.next → d1 t = kill h.doc (some u) t := by
    intro t h1 h2; rw [← hd1]; simp [set_apply, h1, h2]
  -- the undo
  generalize ht2 : (⟨h.lamport + 1 + 1, 1, h.actor⟩ : Ticket) = ts2
  have hafter : ts2.after h.next = true := after_of_lamport (by rw [← ht2]; simp only [Hist.next]; omega)
  have horph1 : orphaned d1 noTw orphanFuel p = false := by
    have hagree : ∀ t e, kill h.doc (some u) t = some e →
        ∃ e1, d1 t = some e1 ∧ e1.removed = e.removed ∧ e1.parent = e.parent := by
      intro t e hte
      by_cases h1 : t = p
      · subst h1
        have : kill h.doc (some u) t = some pe := by
          have : ¬ u = t := fun hx => hpu hx.symm
          simp [kill, this, hd]
        rw [this] at hte; injection hte with hte; subst hte
        exact ⟨_, hd1p, rfl, rfl⟩
      · have h2 : t ≠ h.next := by
          intro hx; subst hx
          have := kill_isSome h.doc (some u) h.next
          rw [hte, hfresh] at this; cases this
        exact ⟨e, by rw [hd1o t h1 h2]; exact hte, rfl, rfl⟩
    have hcont : (kill h.doc (some u) p).isSome = true := by rw [kill_isSome, hd]; rfl
    rw [orphaned_ext (WF_kill w (some u)) hagree orphanFuel p hcont]
    exact cs.horph
  obtain ⟨q, he2⟩ := uexecute_restore (tw := noTw) (k := k) (cv := cv) (ts2 := ts2) (m := ⟨h.next, h.next⟩)
    hd1p rfl (by simp) hafter horph1
  generalize hd2 : (instantiate (markRemoved d1 h.next ts2) p cv cv.removed).set p _ = d2 at he2
  rw [undo_doc_of_push (r := .set p k cv h.next) rfl (by rfl)
    (by simp only [Hist.next, UOp.withTs]; rw [ht2]; exact he2)]
  have hd2o : ∀ t, t ≠ p → d2 t = instantiate (markRemoved d1 h.next ts2) p cv false t := by
    intro t htp; rw [← hd2, set_apply, hcr]; simp only [htp, if_false]
  -- comparison
  have hlive := restore_vis (d2 := d2)
    (member2 := fun k' => if k' = k then some ⟨cv.id, ts2⟩ else
        (if k' = k then some ⟨h.next, h.next⟩ else member k')) cs hd hb
    (by
      intro t ht
      have htp : t ≠ p := by intro hx; have := cs.hpW; rw [← hx, ht] at this; cases this
      rw [hd2o t htp]; exact instantiate_written ht)
    (by rw [← hd2]; simp [set_apply])
    (by
      intro k'
      by_cases hk' : k' = k
      · simp [hk', hm, hcid, hmc]
      · simp [hk'])
    (by
      intro t ht htp
      have e1 : d2 t = markRemoved d1 h.next ts2 t := by rw [hd2o t htp]; exact instantiate_not_written ht
      by_cases hts : t = h.next
      · subst hts
        have hx : markRemoved d1 h.next ts2 = kill d1 (some h.next) := markRemoved_eq_kill (fun _ _ => hafter)
        have e2 : live d2 h.next = false := by unfold live; rw [e1, hx]; simp [kill, hd1t]
        exact ⟨by rw [e2, live_none hfresh], fun hl => by rw [live_none hfresh] at hl; cases hl⟩
      · have htu : ¬ u = t := by intro hx; rw [← hx, hwu] at ht; cases ht
        have e2 : d2 t = h.doc t := by
          rw [e1, markRemoved_other hts, hd1o t htp hts]; simp [kill, htu]
        exact ⟨by unfold live; rw [e2], fun _ => e2⟩)
  apply (marshal_congr (d1 := h.doc) _ fuel rootId _).symm
  · exact hlive
  · exact hlive rootId (live_of_skel fr.root)

theorem undo_do_delete_container_core {h : Hist} (fr : Fresh h) {p u : Ticket} {k : String}
    (hp : isObj h.doc p = true) (hk : winner h.doc p k = some u)
    {cv : UVal} (cs : CopyStable h.doc p u cv) (fuel : Nat) :
    marshal (undo (doChange h [.remove p u h.next])).doc fuel rootId = marshal h.doc fuel rootId := by
  obtain ⟨H, w⟩ := fr.wf
  have bd := fr.bd
  obtain ⟨pe, keys, member, hd, hb, hw⟩ := isObj_winner hp k
  rw [hw] at hk
  obtain ⟨hlu, m, hm, hmc⟩ := liveMember_some hk
  obtain ⟨ue, hue, hur⟩ := live_elem hlu
  obtain ⟨hcid, ue', hue', hcr⟩ := capture_id cs.hcap
  rw [hue] at hue'; injection hue' with hue'; subst hue'
  rw [hur] at hcr
  have hwu : written cv u = true := by simp [written, hcid]
  have hpu : p ≠ u := by intro hx; have := cs.hpW; rw [hx, hwu] at this; cases this
  have hpr : pe.removed = false := by
    have hk0 : kill h.doc (some u) p = some pe := by
      have : ¬ u = p := fun hx => hpu hx.symm
      simp [kill, this, hd]
    exact (orphaned_root_removed (n := 63) cs.horph hk0).1
  obtain ⟨_, hkey, hparu⟩ := w.objMem _ _ _ _ _ _ hd hpr hb hm
  rw [hmc] at hkey hparu
  have hupar : ue.parent = some p := (w.par _ _ hue).trans hparu
  -- the forward removal
  have hcont : isContainer h.doc p = true := by simp [isContainer, hd, hb]
  have hkeyOf : keyOf keys member u = some k := by
    have := keyOf_home w hd hpr hb (u := u) (mm := m) (by rw [hkey]; exact hm) hmc
    rw [hkey] at this; exact this
  have hchild : isChildOf h.doc u p = true := by simp [isChildOf, hue, hupar]
  have hk1 : markRemoved h.doc u h.next = kill h.doc (some u) :=
    markRemoved_eq_kill (fun e he => after_of_lamport (by have := bd.ent _ _ he; simp only [Hist.next]; omega))
  have he1 : uexecute h.doc noTw .loc (.remove p u h.next) =
      .ok (kill h.doc (some u), some (.set p k cv h.next)) := by
    simp only [uexecute, hcont, Bool.not_true, Bool.false_eq_true, if_false, Source.needsReverse, if_true,
      reverseRemove, cs.hcap, hd, hb, hkeyOf, applyRemove, hchild, hk1,
      show (Source.loc = Source.undoRedo) = False from by simp, decide_false, Bool.false_and]
    rfl
  rw [doChange_one (by rfl) he1]
  have hd1p : kill h.doc (some u) p = some pe := by
    have : ¬ u = p := fun hx => hpu hx.symm
    simp [kill, this, hd]
  -- the undo
  generalize ht2 : (⟨h.lamport + 1 + 1, 1, h.actor⟩ : Ticket) = ts2
  have hafter : ts2.after m.positionedAt = true := after_of_lamport (by
    have := bd.pos _ _ _ _ _ _ hd hb hm; rw [← ht2]; simp only []; omega)
  obtain ⟨q, he2⟩ := uexecute_restore (tw := noTw) (k := k) (cv := cv) (ts2 := ts2) (m := m) hd1p hb hm hafter
    cs.horph
  generalize hd2 : (instantiate (markRemoved (kill h.doc (some u)) m.child ts2) p cv cv.removed).set p _ = d2 at he2
  rw [undo_doc_of_push (r := .set p k cv h.next) rfl (by rfl)
    (by simp only [Hist.next, UOp.withTs]; rw [ht2]; exact he2)]
  have hd2o : ∀ t, t ≠ p → d2 t = instantiate (markRemoved (kill h.doc (some u)) m.child ts2) p cv false t := by
    intro t htp; rw [← hd2, set_apply, hcr]; simp only [htp, if_false]
  have hlive := restore_vis (d2 := d2)
    (member2 := fun k' => if k' = k then some ⟨cv.id, ts2⟩ else member k') cs hd hb
    (by
      intro t ht
      have htp : t ≠ p := by intro hx; have := cs.hpW; rw [← hx, ht] at this; cases this
      rw [hd2o t htp]; exact instantiate_written ht)
    (by rw [← hd2]; simp [set_apply])
    (by
      intro k'
      by_cases hk' : k' = k
      · simp [hk', hm, hcid, hmc]
      · simp [hk'])
    (by
      intro t ht htp
      have htu : t ≠ u := by intro hx; rw [hx, hwu] at ht; cases ht
      have htu' : ¬ u = t := fun hx => htu hx.symm
      have e2 : d2 t = h.doc t := by
        rw [hd2o t htp, instantiate_not_written ht, hmc, markRemoved_other htu]; simp [kill, htu']
      exact ⟨by unfold live; rw [e2], fun _ => e2⟩)
  apply (marshal_congr (d1 := h.doc) _ fuel rootId _).symm
  · exact hlive
  · exact hlive rootId (live_of_skel fr.root)

theorem undo_do_set_overwrite_container_lemma {h : Hist} (fr : Fresh h) {p u : Ticket} {k : String} {v : Val}
    (hp : isObj h.doc p = true) (hv : leafBody v.body = true) (hk : winner h.doc p k = some u)
    (hcs : copyStableB h.doc p u = true) (fuel : Nat) :
    marshal (undo (doChange h [.set p k (UVal.ofVal v h.next) h.next])).doc fuel rootId =
      marshal h.doc fuel rootId := by
  obtain ⟨cv, cs⟩ := copyStableB_spec hcs
  exact undo_do_set_overwrite_container_core fr hp hv hk cs fuel

theorem undo_do_delete_container_lemma {h : Hist} (fr : Fresh h) {p u : Ticket} {k : String}
    (hp : isObj h.doc p = true) (hk : winner h.doc p k = some u)
    (hcs : copyStableB h.doc p u = true) (fuel : Nat) :
    marshal (undo (doChange h [.remove p u h.next])).doc fuel rootId = marshal h.doc fuel rootId := by
  obtain ⟨cv, cs⟩ := copyStableB_spec hcs
  exact undo_do_delete_container_core fr hp hk cs fuel

/-! ### a nested example: `{"o":{"x":1,"y":[2]}}` -/

namespace Nested

def tO : Ticket := ⟨1, 1, 0⟩
def tX : Ticket := ⟨2, 1, 0⟩
def tY : Ticket := ⟨3, 1, 0⟩
def tE : Ticket := ⟨4, 1, 0⟩
def eRoot : Elem := ⟨none, false, .obj ["o"] (fun k => if k = "o" then some ⟨tO, tO⟩ else none)⟩
def eO : Elem := ⟨some rootId, false,
  .obj ["x", "y"] (fun k => if k = "x" then some ⟨tX, tX⟩ else if k = "y" then some ⟨tY, tY⟩ else none)⟩
def eX : Elem := ⟨some tO, false, .prim "1"⟩
def eY : Elem := ⟨some tO, false, .arr [⟨tE, some tE⟩] (fun _ => none)⟩
def eE : Elem := ⟨some tY, false, .prim "2"⟩
/-- `{"o":{"x":1,"y":[2]}}` -/
def dN : Doc := fun t => if t = rootId then some eRoot else if t = tO then some eO else if t = tX then some eX
  else if t = tY then some eY else if t = tE then some eE else none
def hN : Hist := { doc := dN, lamport := 4 }
def HN : Home :=
  { par := fun t => if t = rootId then none else if t = tO then some rootId else if t = tX then some tO
      else if t = tY then some tO else some tY,
    key := fun t => if t = tX then "x" else if t = tY then "y" else "o" }

theorem dN_cases {t : Ticket} {e : Elem} (h : dN t = some e) :
    (t = rootId ∧ e = eRoot) ∨ (t = tO ∧ e = eO) ∨ (t = tX ∧ e = eX) ∨ (t = tY ∧ e = eY) ∨ (t = tE ∧ e = eE) := by
  unfold dN at h
  split at h
  · exact Or.inl ⟨‹_›, (Option.some.inj h).symm⟩
  · split at h
    · exact Or.inr (Or.inl ⟨‹_›, (Option.some.inj h).symm⟩)
    · split at h
      · exact Or.inr (Or.inr (Or.inl ⟨‹_›, (Option.some.inj h).symm⟩))
      · split at h
        · exact Or.inr (Or.inr (Or.inr (Or.inl ⟨‹_›, (Option.some.inj h).symm⟩)))
        · split at h
          · exact Or.inr (Or.inr (Or.inr (Or.inr ⟨‹_›, (Option.some.inj h).symm⟩)))
          · cases h

theorem wf_dN : WF HN dN := by
  constructor
  · intro t e h
    rcases dN_cases h with ⟨rfl, rfl⟩ | ⟨rfl, rfl⟩ | ⟨rfl, rfl⟩ | ⟨rfl, rfl⟩ | ⟨rfl, rfl⟩ <;> decide
  · intro t e q h hq
    rcases dN_cases h with ⟨rfl, rfl⟩ | ⟨rfl, rfl⟩ | ⟨rfl, rfl⟩ | ⟨rfl, rfl⟩ | ⟨rfl, rfl⟩ <;>
      simp [HN, tO, tX, tY, tE, rootId] at hq <;> subst hq <;> decide
  · intro p pe keys m h hb
    rcases dN_cases h with ⟨rfl, rfl⟩ | ⟨rfl, rfl⟩ | ⟨rfl, rfl⟩ | ⟨rfl, rfl⟩ | ⟨rfl, rfl⟩ <;>
      simp [eRoot, eO, eX, eY, eE] at hb
    · rw [← hb.1]; simp
    · rw [← hb.1]; simp
  · intro p pe keys m k mm h _ hb hm
    rcases dN_cases h with ⟨rfl, rfl⟩ | ⟨rfl, rfl⟩ | ⟨rfl, rfl⟩ | ⟨rfl, rfl⟩ | ⟨rfl, rfl⟩ <;>
      simp [eRoot, eO, eX, eY, eE] at hb
    · obtain ⟨rfl, rfl⟩ := hb
      by_cases hk : k = "o"
      · simp [hk] at hm; subst hm; subst hk; decide
      · simp [hk] at hm
    · obtain ⟨rfl, rfl⟩ := hb
      by_cases hk : k = "x"
      · simp [hk] at hm; subst hm; subst hk; decide
      · by_cases hk2 : k = "y"
        · simp [hk2] at hm; subst hm; subst hk2; decide
        · simp [hk, hk2] at hm
  · intro x xe nodes mv n c h _ hb hn hc
    rcases dN_cases h with ⟨rfl, rfl⟩ | ⟨rfl, rfl⟩ | ⟨rfl, rfl⟩ | ⟨rfl, rfl⟩ | ⟨rfl, rfl⟩ <;>
      simp [eRoot, eO, eX, eY, eE] at hb
    obtain ⟨rfl, rfl⟩ := hb
    simp at hn
    subst hn
    simp at hc; subst hc; decide

theorem bounded_dN : Bounded dN 4 := by
  constructor
  · intro t e h
    rcases dN_cases h with ⟨rfl, rfl⟩ | ⟨rfl, rfl⟩ | ⟨rfl, rfl⟩ | ⟨rfl, rfl⟩ | ⟨rfl, rfl⟩ <;> decide
  · intro p pe keys m k mm h hb hm
    rcases dN_cases h with ⟨rfl, rfl⟩ | ⟨rfl, rfl⟩ | ⟨rfl, rfl⟩ | ⟨rfl, rfl⟩ | ⟨rfl, rfl⟩ <;>
      simp [eRoot, eO, eX, eY, eE] at hb
    · obtain ⟨rfl, rfl⟩ := hb
      by_cases hk : k = "o"
      · simp [hk] at hm; subst hm; decide
      · simp [hk] at hm
    · obtain ⟨rfl, rfl⟩ := hb
      by_cases hk : k = "x"
      · simp [hk] at hm; subst hm; decide
      · by_cases hk2 : k = "y"
        · simp [hk2] at hm; subst hm; decide
        · simp [hk, hk2] at hm
  · intro p pe keys m k mm h hb hm
    rcases dN_cases h with ⟨rfl, rfl⟩ | ⟨rfl, rfl⟩ | ⟨rfl, rfl⟩ | ⟨rfl, rfl⟩ | ⟨rfl, rfl⟩ <;>
      simp [eRoot, eO, eX, eY, eE] at hb
    · obtain ⟨rfl, rfl⟩ := hb
      by_cases hk : k = "o"
      · simp [hk] at hm; subst hm; decide
      · simp [hk] at hm
    · obtain ⟨rfl, rfl⟩ := hb
      by_cases hk : k = "x"
      · simp [hk] at hm; subst hm; decide
      · by_cases hk2 : k = "y"
        · simp [hk2] at hm; subst hm; decide
        · simp [hk, hk2] at hm
  · intro x xe nodes mv n c h hb hn hc
    rcases dN_cases h with ⟨rfl, rfl⟩ | ⟨rfl, rfl⟩ | ⟨rfl, rfl⟩ | ⟨rfl, rfl⟩ | ⟨rfl, rfl⟩ <;>
      simp [eRoot, eO, eX, eY, eE] at hb
    obtain ⟨rfl, rfl⟩ := hb
    simp at hn
    subst hn
    simp at hc; subst hc; decide

theorem fresh_hN : Fresh hN :=
  ⟨⟨HN, wf_dN⟩, bounded_dN, (by decide)⟩

end Nested

end Yorkie.Undo
