/-
Umbrella for the Text helper lemmas (split into several files to keep each build short):
  TextUtf16  – `sanitize` (the Go-string round trip of `TextValue.Split`)
  TextWF     – the invariant `WF`, preserved by `splitNode`, `edit`, `styleOp`
  TextLocate – `findFloor`, `findFloorPreferLeft`, `locate`, `skipFrom`, `Newer`
  TextSplit  – positions (`Denotes`, `posOfIndex`), list surgery
  TextSpec   – `findNodeWithSplit` at a visible index (`fnws_spec`)
  TextEdit   – the local edit as a splice (`edit_local_spec`)
  TextChars  – character-level view `expand`; splitting a block is invisible there
  TextStyle  – the local style call on the per-unit attribute view (`style_local_spec`), `RHT.Set`
-/
import YorkieModel.Lemmas.TextUtf16
import YorkieModel.Lemmas.TextWF
import YorkieModel.Lemmas.TextLocate
import YorkieModel.Lemmas.TextSplit
import YorkieModel.Lemmas.TextSpec
import YorkieModel.Lemmas.TextEdit
import YorkieModel.Lemmas.TextStyle
import YorkieModel.Lemmas.TextChars
namespace Yorkie.Text

instance (u : List Nat) : Decidable (Fixed u) := by unfold Fixed; infer_instance
instance (s : TextSt) (ts : Ticket) : Decidable (Newer s ts) := by unfold Newer; infer_instance
instance (s : TextSt) (ts : Ticket) : Decidable (Fresh s ts) := by unfold Fresh; infer_instance

/-- every block list reachable from the empty text by successful `Edit`/`Style` operations
    (local or remote, any version vector) whose tickets are fresh and whose contents are Go strings -/
inductive Reach : TextSt → Prop
  | init : Reach init
  | edit {s s' : TextSt} {fr to : Pos} {content : List Nat} {attrs : List (String × String)}
      {ts : Ticket} {vv : Option VV} :
      Reach s → Fresh s ts → Fixed content → edit fr to content attrs ts vv s = .ok s' → Reach s'
  | style {s s' : TextSt} {fr to : Pos} {attrs : List (String × String)} {keys : List String}
      {ts : Ticket} {vv : Option VV} :
      Reach s → styleOp fr to attrs keys ts vv s = .ok s' → Reach s'

theorem reach_wf {s : TextSt} (h : Reach s) : WF s := by
  induction h with
  | init => exact wf_init
  | edit _ hf hc he ih => exact wf_edit ih hf hc he
  | style _ he ih => exact wf_styleOp ih he

/-- the index does not cut a surrogate pair of `v` in two (decidable) -/
def Aligned (v : List Nat) (i : Nat) : Prop := Fixed (v.take i) ∧ Fixed (v.drop i)

instance (v : List Nat) (i : Nat) : Decidable (Aligned v i) := by
  unfold Aligned Fixed; infer_instance

theorem aligned_of_no_surr {v : List Nat} (h : ∀ x ∈ v, isSurr x = false) (i : Nat) : Aligned v i :=
  ⟨fixed_of_no_surr (fun x hx => h x (List.mem_of_mem_take hx)),
   fixed_of_no_surr (fun x hx => h x (List.mem_of_mem_drop hx))⟩

/-- with both cuts outside surrogate pairs the three pieces are the string itself -/
theorem aligned_pieces {v : List Nat} {fr to : Nat} (hft : fr ≤ to) (afr : Aligned v fr)
    (ato : Aligned v to) :
    sanitize (v.take fr) ++ sanitize ((v.take to).drop fr) ++ sanitize (v.drop to) = v := by
  have e : v.take to = v.take fr ++ (v.take to).drop fr := by
    have := List.take_append_drop fr (v.take to)
    rw [List.take_take, Nat.min_eq_left hft] at this
    exact this.symm
  have hmid : sanitize ((v.take to).drop fr) = (v.take to).drop fr := by
    have h1 : sanitize (v.take to) = v.take to := ato.1
    rw [e, sanitize_append_fixed_left afr.1] at h1
    exact List.append_cancel_left h1
  rw [afr.1, hmid, ato.2, ← e, List.take_append_drop]

/-- the UTF-16 encoding of a Go/Lean string is well-formed -/
theorem fixed_encodeRune (c : Char) : Fixed (encodeRune c.toNat) := by
  unfold Fixed encodeRune
  have hv := c.valid
  have hc : c.toNat = c.val.toNat := rfl
  split
  · rename_i h
    have : isSurr c.toNat = false := by
      simp only [isSurr, Bool.and_eq_false_iff, decide_eq_false_iff_not, Nat.not_le, Nat.not_lt]
      rcases hv with h1 | ⟨h1, _⟩
      · left; rw [hc]; exact h1
      · right; rw [hc]; omega
    simp [sanitize, fixUnit, this]
  · rename_i h
    have hlt : c.toNat < 0x110000 := by
      rcases hv with h1 | ⟨_, h2⟩
      · rw [hc]; omega
      · rw [hc]; exact h2
    have h1 : isHigh (0xD800 + (c.toNat - 0x10000) / 0x400) = true := by
      simp only [isHigh, Bool.and_eq_true, decide_eq_true_eq]; omega
    have h2 : isLow (0xDC00 + (c.toNat - 0x10000) % 0x400) = true := by
      simp only [isLow, Bool.and_eq_true, decide_eq_true_eq]; omega
    rw [sanitize_pair h1 h2]; rfl

theorem fixed_unitsOfString (s : String) : Fixed (unitsOfString s) := by
  unfold unitsOfString
  induction s.toList with
  | nil => exact fixed_nil
  | cons c r ih =>
    rw [List.flatMap_cons]
    exact fixed_append (fixed_encodeRune c) ih

end Yorkie.Text
