/-
C14 on programs of the tree history machine, as executable predicates (evaluated by the kernel in
Lemmas/TreeUndoTable*.lean): a program = an initial tree and a list of json-layer calls.

`progOK`   (content edits) all calls execute, each pushes a supported reverse; then undo·k, redo·k, undo·k: after
           every step the root's XML is the XML recorded that many steps back / forth, the clone shows the same XML,
           the stacks have the expected depths, both trees keep exact cached lengths (`Tree.lensExact`), and a
           receiver that applies all produced changes ends with the editor's XML.
`totalOK`  (any kind, styles included) the same walk, without the comparison against the recorded XML: no step
           fails, clone and root agree, cached lengths stay exact, the receiver converges.
-/
import YorkieModel.Model.TreeUndo
import YorkieModel.Lemmas.TreeLens
namespace Yorkie.TreeUndo
open Yorkie Yorkie.Tree

def edActor : Actor := 2
def seedActor : Actor := 1
def rcActor : Actor := 3

structure Run where
  d : Doc
  out : List WChange := []
  /-- XML after each executed call, newest first; the last element is the initial XML -/
  xs : List Str

def healthy (d : Doc) : Bool :=
  d.root.toXMLCodes == d.clone.toXMLCodes && d.root.lensExact && d.clone.lensExact

/-- a reverse inside the modelled domain -/
def UOp.supported : UOp → Bool
  | .unsupported => false
  | _ => true

/-- forward phase; `none` = a call failed, made no change or left the domain -/
def fwd (strict : Bool) : Run → List Call → Option Run
  | r, [] => some r
  | r, c :: cs =>
    match r.d.update c with
    | .ok (d', some ch) =>
      let pushed := d'.undo.length == r.d.undo.length + 1
      if (strict && !pushed) || !(d'.undo.head?.map UOp.supported).getD true || !healthy d' || !d'.redo.isEmpty then none
      else fwd strict { d := d', out := r.out ++ [ch], xs := d'.root.toXMLCodes :: r.xs } cs
    | .ok (_, none) => if strict then none else fwd strict r cs
    | _ => none

/-- `k` undos (or redos); `expect` = the XMLs the steps must show, in order (`none` = not compared) -/
def walk (isUndo : Bool) : Run → List (Option Str) → Option Run
  | r, [] => some r
  | r, e :: es =>
    match r.d.undoRedo isUndo with
    | .done d' ch =>
      let okX := match e with
        | some x => d'.root.toXMLCodes == x
        | none => true
      if okX && healthy d' then walk isUndo { r with d := d', out := r.out ++ [ch] } es else none
    | _ => none

def receiverOK (init : List JItem) (r : Run) : Bool :=
  match seedRep rcActor seedActor init with
  | .error _ => false
  | .ok rc =>
    match r.out.foldl (fun (acc : Except Err Rep) ch =>
      match acc with
      | .error e => .error e
      | .ok x => applyWire x ch) (.ok rc) with
    | .error _ => false
    | .ok x => x.root.toXMLCodes == r.d.root.toXMLCodes && x.clone.toXMLCodes == r.d.root.toXMLCodes && x.root.lensExact

/-- C14 for a program of content edits, to the depth of the program -/
def progOK (init : List JItem) (calls : List Call) : Bool :=
  match seedDoc edActor seedActor init with
  | .error _ => false
  | .ok d0 =>
    match fwd true { d := d0, xs := [d0.root.toXMLCodes] } calls with
    | none => false
    | some r1 =>
      let k := calls.length
      -- xs = [x_k, …, x_0]
      let back := (r1.xs.drop 1).map some
      let forth := ((r1.xs.take k).reverse).map some
      match walk true r1 back with
      | none => false
      | some r2 =>
        if !(r2.d.undo.isEmpty && r2.d.redo.length == k) then false else
        match walk false r2 forth with
        | none => false
        | some r3 =>
          if !(r3.d.redo.isEmpty && r3.d.undo.length == k) then false else
          match walk true r3 back with
          | none => false
          | some r4 => r4.d.undo.isEmpty && receiverOK init r4

/-- in the domain: the program executes and every reverse is the identity reverse or the no-op reverse -/
def inDomain (init : List JItem) (calls : List Call) : Bool :=
  match seedDoc edActor seedActor init with
  | .error _ => false
  | .ok d0 => (fwd true { d := d0, xs := [d0.root.toXMLCodes] } calls).isSome

/-- C14 on a program, restricted to the domain -/
def c14OK (init : List JItem) (calls : List Call) : Bool := !inDomain init calls || progOK init calls

/-- undo / redo until the stack is empty (at most `n` steps): never fails, keeps the document healthy -/
def drain (isUndo : Bool) : Nat → Run → Option Run
  | 0, r => some r
  | n + 1, r =>
    match r.d.undoRedo isUndo with
    | .empty => some r
    | .failed _ _ => none
    | .done d' ch => if healthy d' then drain isUndo n { r with d := d', out := r.out ++ [ch] } else none

/-- totality for any kind (styles included): the program executes, then undo·all, redo·all, undo·all never fail -/
def totalOK (init : List JItem) (calls : List Call) : Bool :=
  match seedDoc edActor seedActor init with
  | .error _ => false
  | .ok d0 =>
    match fwd false { d := d0, xs := [d0.root.toXMLCodes] } calls with
    | none => false
    | some r1 =>
      let n := calls.length + 1
      match drain true n r1 with
      | none => false
      | some r2 =>
        match drain false n r2 with
        | none => false
        | some r3 =>
          match drain true n r3 with
          | none => false
          | some r4 => r4.d.undo.isEmpty && receiverOK init r4

/-! ### scripts: calls, undos and redos in any order -/

inductive Step
  | call (c : Call)
  | undo
  | redo
deriving Repr

/-- the document with the XML the history rules predict: `past` mirrors the undo stack (XML before, XML after, per
    entry, newest first), `future` the redo stack -/
structure SRun where
  d : Doc
  past : List (Str × Str) := []
  future : List (Str × Str) := []
  out : List WChange := []

/-- one step, checked against the recorded XML: a call outside the domain (fails, no change, unsupported reverse) is
    skipped; Undo / Redo on an empty stack must report `empty`; otherwise the XML must be the recorded one, the
    stacks must have the predicted depths and the document must stay healthy -/
def sstep (r : SRun) : Step → Option SRun
  | .call c =>
    match r.d.update c with
    | .ok (d', some ch) =>
      if !(d'.undo.head?.map UOp.supported).getD true || d'.undo.length != r.d.undo.length + 1 then some r
      else if healthy d' && d'.redo.isEmpty then
        some { d := d', past := (r.d.root.toXMLCodes, d'.root.toXMLCodes) :: r.past, future := [], out := r.out ++ [ch] }
      else none
    | _ => some r
  | .undo =>
    match r.past, r.d.undoRedo true with
    | [], .empty => some r
    | e :: rest, .done d' ch =>
      if d'.root.toXMLCodes == e.1 && healthy d' && d'.undo.length == rest.length && d'.redo.length == r.future.length + 1 then
        some { d := d', past := rest, future := e :: r.future, out := r.out ++ [ch] }
      else none
    | _, _ => none
  | .redo =>
    match r.future, r.d.undoRedo false with
    | [], .empty => some r
    | e :: rest, .done d' ch =>
      if d'.root.toXMLCodes == e.2 && healthy d' && d'.redo.length == rest.length && d'.undo.length == r.past.length + 1 then
        some { d := d', past := e :: r.past, future := rest, out := r.out ++ [ch] }
      else none
    | _, _ => none

def sruns : SRun → List Step → Option SRun
  | r, [] => some r
  | r, s :: ss =>
    match sstep r s with
    | none => none
    | some r' => sruns r' ss

/-- C14 along a script, with a receiver at the end -/
def scriptOK (init : List JItem) (script : List Step) : Bool :=
  match seedDoc edActor seedActor init with
  | .error _ => false
  | .ok d0 =>
    match sruns { d := d0 } script with
    | none => false
    | some r => receiverOK init { d := r.d, out := r.out, xs := [] }

/-- all words of length `n` over an alphabet -/
def words {α} (alpha : List α) : Nat → List (List α)
  | 0 => [[]]
  | n + 1 => alpha.flatMap (fun a => (words alpha n).map (fun w => a :: w))

/-! ### enumerations -/

def tx (s : String) : JItem := ⟨0, textType, Text.unitsOfString s, []⟩
def el (ty : String) (d : Nat := 0) (attrs : List (Str × Str) := []) : JItem := ⟨d, ty.toList.map Char.toNat, [], attrs⟩
def at' (d : Nat) (j : JItem) : JItem := { j with depth := d }

/-- every index pair `i ≤ j ≤ n` -/
def ranges (n : Nat) : List (Nat × Nat) :=
  (List.range (n + 1)).flatMap (fun i => ((List.range (n + 1)).filter (fun j => i ≤ j)).map (fun j => (i, j)))

/-- the three content shapes of the domain: nothing (a delete), a text, an element holding a text -/
def contentShapes : List (List (List JItem)) :=
  [[], [[tx "QR"]], [[el "b", at' 1 (tx "S")]]]

def bold : Str := "bold".toList.map Char.toNat

/-- every style / remove-style call over a document of visible size `n` -/
def allStyles (n : Nat) : List Call :=
  (ranges n).flatMap (fun r => [Call.style r.1 r.2 [(bold, "2".toList.map Char.toNat)], Call.removeStyle r.1 r.2 [bold]])

/-- every edit call over a document of visible size `n` (splitLevel 0) -/
def allEdits (n : Nat) : List Call :=
  (ranges n).flatMap (fun r => contentShapes.map (fun cs => Call.edit r.1 r.2 cs 0))

end Yorkie.TreeUndo
