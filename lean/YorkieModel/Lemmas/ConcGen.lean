/-
Helper lemmas for Model/Conc.lean, part 9: attachment generations and acknowledged client
sequences with requests in flight (the concurrent form of `GInv`, DESIGN F.1 I2/I4), for
`conc_no_echo`.

Sequentially, "every row of the current generation of an open attachment is acknowledged by its
stored client sequence" (`GInv.g2`).  With requests in flight this is false between a request's
push and its persist phase; the concurrent form says: acknowledged by the stored client sequence
OR by the `cpAfterPush` of a request of that client on that document that has pushed and not yet
returned (`GC.g2`).
-/
import YorkieModel.Lemmas.ConcPull
namespace Yorkie.Conc
open Yorkie Yorkie.Server

/-- has pushed, has not returned -/
def Pending (r : InFlight) : Prop := 3 ≤ r.pc.ord ∧ r.pc ≠ .done

/-- second record per request in flight: generations and client sequences -/
structure F2 (s : Server) (r : InFlight) : Prop where
  act : r.pc ≠ .done → r.f.info.activated = true
  stored : ∃ cdS, entryOf s r.f.client r.f.doc = some cdS ∧
    (r.pc ≠ .done → isOpenSt cdS.status = true ∧ cdS.gen = r.f.info.genOf r.f.doc) ∧
    (r.pc.ord ≤ 2 → (r.f.info.checkpoint r.f.doc).clientSeq = cdS.clientSeq) ∧
    (Pending r → cdS.clientSeq ≤ r.f.cpAfterPush.clientSeq ∧
      (r.f.pushed = [] → r.f.cpAfterPush.clientSeq = cdS.clientSeq))
  entry : r.pc ≠ .done → ∃ cd, r.f.info.docs.get? r.f.doc = some cd ∧
    (r.f.status ≠ .attached → r.pc.ord ≤ 4 → isOpenSt cd.status = true)
  guard : r.pc = .pull → r.f.pushed ≠ [] →
    epochDiffers r.f.info r.f.doc r.f.docInfo.epoch = false ∧ r.f.pack.cp.serverSeq ≤ r.f.initialSeq
  /-- the document options the push returned are the ones the handler read -/
  dpI : 3 ≤ r.pc.ord → r.f.docInfo.disablePresence = r.f.disablePresence
  rcs : 4 ≤ r.pc.ord → r.pc ≠ .done → r.f.resp.cp.clientSeq = r.f.cpAfterPush.clientSeq
  echo : 4 ≤ r.pc.ord → r.pc ≠ .done → r.f.docInfo.disablePresence = false →
    ∀ row ∈ r.f.resp.changes, row.actor = r.f.client →
      ∃ cdS, entryOf s r.f.client r.f.doc = some cdS ∧ row.gen < cdS.gen
  fin : r.pc = .done → ∀ resp, r.out = .ok resp → r.f.docInfo.disablePresence = false →
    ∀ row ∈ resp.changes, row.actor = r.f.client →
      ∃ cdS, entryOf s r.f.client r.f.doc = some cdS ∧ row.gen < cdS.gen

theorem F2.frame {s s' : Server} {r : InFlight} (h : F2 s r)
    (he : entryOf s' r.f.client r.f.doc = entryOf s r.f.client r.f.doc) : F2 s' r :=
  ⟨h.act, by rw [he]; exact h.stored, h.entry, h.guard, h.dpI, h.rcs, by rw [he]; exact h.echo, by rw [he]; exact h.fin⟩

/-- moving the program counter inside a region in which the guards do not change -/
theorem F2.repc {s : Server} {r r' : InFlight} (h : F2 s r) (hf : r'.f = r.f) (hpc : r.pc ≠ .done) (hpc' : r'.pc ≠ .done)
    (h2 : r'.pc.ord ≤ 2 → r.pc.ord ≤ 2) (h3 : 3 ≤ r'.pc.ord → 3 ≤ r.pc.ord) (hp : r'.pc = .pull → r.pc = .pull)
    (h4 : (r'.pc.ord ≤ 4 → r.pc.ord ≤ 4) ∧ (4 ≤ r'.pc.ord → 4 ≤ r.pc.ord)) : F2 s r' := by
  obtain ⟨cdS, hcdS, k1, k2, k3⟩ := h.stored
  refine ⟨fun _ => by rw [hf]; exact h.act hpc, ⟨cdS, by rw [hf]; exact hcdS, fun _ => by rw [hf]; exact k1 hpc,
    fun ho => by rw [hf]; exact k2 (h2 ho), fun hq => by rw [hf]; exact k3 ⟨h3 hq.1, hpc⟩⟩, ?_, ?_, ?_, ?_, ?_, ?_⟩
  · intro _
    obtain ⟨cd, hcd, hcl⟩ := h.entry hpc
    exact ⟨cd, by rw [hf]; exact hcd, fun hne ho => by rw [hf] at hne; exact hcl hne (h4.1 ho)⟩
  · intro hq; rw [hf]; exact h.guard (hp hq)
  · intro ho; rw [hf]; exact h.dpI (h3 ho)
  · intro ho _; rw [hf]; exact h.rcs (h4.2 ho) hpc
  · intro ho _; rw [hf]; exact h.echo (h4.2 ho) hpc
  · intro hd; exact absurd hd hpc'

/-- rows, stored entries and requests in flight: every row of actor `c` comes from a generation `c`
has reached (`g1`); a row of the current generation of an open attachment is acknowledged by the
stored client sequence or by a request of that client on that document that has pushed and not yet
returned (`g2`) -/
structure G12 (s : Server) (fl : List InFlight) : Prop where
  g1 : ∀ c d row, row ∈ storedLog s d → row.actor = c → ∃ cd, entryOf s c d = some cd ∧ row.gen ≤ cd.gen
  g2 : ∀ c d cd row, entryOf s c d = some cd → isOpenSt cd.status = true → row ∈ storedLog s d →
    row.actor = c → row.gen = cd.gen →
    row.clientSeq ≤ cd.clientSeq ∨
    ∃ r ∈ fl, Pending r ∧ r.f.client = c ∧ r.f.doc = d ∧ row.clientSeq ≤ r.f.cpAfterPush.clientSeq
  /-- only an attached entry carries a client sequence -/
  g3 : ∀ c d cd, entryOf s c d = some cd → cd.status ≠ .attached → cd.clientSeq = 0

/-- the concurrent generation invariant -/
structure GC (σ : Sys) : Prop where
  g : G12 σ.srv σ.flights
  fl2 : ∀ r ∈ σ.flights, Active r → F2 σ.srv r

/-- every pending request of the old state is still a witness in the new one (possibly in a later
phase), or it is the request of (c,d) that retires, its acknowledgement absorbed by the entry `e'` -/
def WitOk (fl fl' : List InFlight) (c : ClientId) (d : DocId) (e' : ClientDoc) : Prop :=
  ∀ x ∈ fl, Pending x →
    (∃ y ∈ fl', Pending y ∧ y.f.client = x.f.client ∧ y.f.doc = x.f.doc ∧
      x.f.cpAfterPush.clientSeq ≤ y.f.cpAfterPush.clientSeq) ∨
    (x.f.client = c ∧ x.f.doc = d ∧ (isOpenSt e'.status = true → x.f.cpAfterPush.clientSeq ≤ e'.clientSeq))

/-- the generic transition: client `c` appends its own rows `P` (generation `e'.gen`, each
acknowledged by a pending request) to document `d`, its entry becomes `e'`; nothing else changes -/
theorem G12.trans {s s' : Server} {fl fl' : List InFlight} (h : G12 s fl) (c : ClientId) (d : DocId) (P : List Row)
    (e' : ClientDoc)
    (hlog : storedLog s' d = storedLog s d ++ P) (hother : ∀ d', d' ≠ d → storedLog s' d' = storedLog s d')
    (hents : ∀ c' d', (c' ≠ c ∨ d' ≠ d) → entryOf s' c' d' = entryOf s c' d')
    (hent : entryOf s' c d = some e') (he3 : e'.status ≠ .attached → e'.clientSeq = 0)
    (hold : (∃ cd0, entryOf s c d = some cd0 ∧ cd0.gen ≤ e'.gen ∧
              (cd0.gen = e'.gen → isOpenSt e'.status = true → isOpenSt cd0.status = true ∧ cd0.clientSeq ≤ e'.clientSeq)) ∨
            entryOf s c d = none)
    (hP : ∀ row ∈ P, row.actor = c ∧ row.gen = e'.gen ∧
      ∃ w ∈ fl', Pending w ∧ w.f.client = c ∧ w.f.doc = d ∧ row.clientSeq ≤ w.f.cpAfterPush.clientSeq)
    (hwit : WitOk fl fl' c d e') : G12 s' fl' := by
  have tgt : ∀ c' d', ¬ (c' = c ∧ d' = d) → c' ≠ c ∨ d' ≠ d := by
    intro c' d' ht
    by_cases hc : c' = c
    · exact Or.inr (fun hd => ht ⟨hc, hd⟩)
    · exact Or.inl hc
  -- rows of another (client, document) are old rows
  have oldrow : ∀ c' d' row, ¬ (c' = c ∧ d' = d) → row ∈ storedLog s' d' → row.actor = c' → row ∈ storedLog s d' := by
    intro c' d' row ht hr ha
    by_cases hd : d' = d
    · subst hd
      rw [hlog, List.mem_append] at hr
      rcases hr with hr | hr
      · exact hr
      · exact absurd ⟨ha.symm.trans (hP row hr).1, rfl⟩ ht
    · rw [hother d' hd] at hr; exact hr
  refine ⟨?_, ?_, ?_⟩
  rotate_left 2
  · intro c' d' cd hcd hs
    by_cases ht : c' = c ∧ d' = d
    · obtain ⟨hc, hd⟩ := ht
      subst hc; subst hd
      rw [hent] at hcd; injection hcd with hcd; subst hcd
      exact he3 hs
    · rw [hents c' d' (tgt c' d' ht)] at hcd
      exact h.g3 c' d' cd hcd hs
  · intro c' d' row hr ha
    by_cases ht : c' = c ∧ d' = d
    · obtain ⟨hc, hd⟩ := ht
      subst hc; subst hd
      refine ⟨e', hent, ?_⟩
      rw [hlog, List.mem_append] at hr
      rcases hr with hr | hr
      · obtain ⟨cd, hcd, hle⟩ := h.g1 c' d' row hr ha
        rcases hold with ⟨cd0, hcd0, hg0, _⟩ | hn
        · rw [hcd0] at hcd; injection hcd with hcd; subst hcd; omega
        · rw [hn] at hcd; simp at hcd
      · exact Nat.le_of_eq (hP row hr).2.1
    · rw [hents c' d' (tgt c' d' ht)]
      exact h.g1 c' d' row (oldrow c' d' row ht hr ha) ha
  · intro c' d' cd row hcd ho hr ha hg
    by_cases ht : c' = c ∧ d' = d
    · obtain ⟨hc, hd⟩ := ht
      subst hc; subst hd
      rw [hent] at hcd; injection hcd with hcd; subst hcd
      rw [hlog, List.mem_append] at hr
      rcases hr with hr | hr
      · obtain ⟨cd1, hcd1, hle⟩ := h.g1 c' d' row hr ha
        rcases hold with ⟨cd0, hcd0, hg0, hopen⟩ | hn
        · rw [hcd0] at hcd1; injection hcd1 with hcd1; subst hcd1
          have hge : cd0.gen = e'.gen := by omega
          obtain ⟨ho0, hcs⟩ := hopen hge ho
          rcases h.g2 c' d' cd0 row hcd0 ho0 hr ha (by omega) with hl | ⟨x, hx, hpx, hxc, hxd, hxs⟩
          · exact Or.inl (by omega)
          · rcases hwit x hx hpx with ⟨y, hy, hpy, hyc, hyd, hys⟩ | ⟨_, _, hab⟩
            · exact Or.inr ⟨y, hy, hpy, hyc.trans hxc, hyd.trans hxd, by omega⟩
            · exact Or.inl (by have := hab ho; omega)
        · rw [hn] at hcd1; simp at hcd1
      · obtain ⟨_, _, w, hw, hpw, hwc, hwd, hws⟩ := hP row hr
        exact Or.inr ⟨w, hw, hpw, hwc, hwd, hws⟩
    · rw [hents c' d' (tgt c' d' ht)] at hcd
      rcases h.g2 c' d' cd row hcd ho (oldrow c' d' row ht hr ha) ha hg with hl | ⟨x, hx, hpx, hxc, hxd, hxs⟩
      · exact Or.inl hl
      · rcases hwit x hx hpx with ⟨y, hy, hpy, hyc, hyd, hys⟩ | ⟨hc2, hd2, _⟩
        · exact Or.inr ⟨y, hy, hpy, hyc.trans hxc, hyd.trans hxd, by omega⟩
        · exact absurd ⟨hxc.symm.trans hc2, hxd.symm.trans hd2⟩ ht

/-- nothing changes in logs and entries; the pending requests stay -/
theorem G12.same {s s' : Server} {fl fl' : List InFlight} (h : G12 s fl) (hlog : ∀ d, storedLog s' d = storedLog s d)
    (hents : ∀ c d, entryOf s' c d = entryOf s c d)
    (hwit : ∀ x ∈ fl, Pending x → ∃ y ∈ fl', Pending y ∧ y.f.client = x.f.client ∧ y.f.doc = x.f.doc ∧
      x.f.cpAfterPush.clientSeq ≤ y.f.cpAfterPush.clientSeq) : G12 s' fl' := by
  refine ⟨?_, ?_, fun c d cd hcd hs => by rw [hents] at hcd; exact h.g3 c d cd hcd hs⟩
  · intro c d row hr ha; rw [hlog] at hr; rw [hents]; exact h.g1 c d row hr ha
  · intro c d cd row hcd ho hr ha hg
    rw [hlog] at hr; rw [hents] at hcd
    rcases h.g2 c d cd row hcd ho hr ha hg with hl | ⟨x, hx, hpx, hxc, hxd, hxs⟩
    · exact Or.inl hl
    · obtain ⟨y, hy, hpy, hyc, hyd, hys⟩ := hwit x hx hpx
      exact Or.inr ⟨y, hy, hpy, hyc.trans hxc, hyd.trans hxd, by omega⟩

/-! ### small facts about the phases -/

theorem pushGuard_nonempty {s : Server} {f : Flight} {doc : Doc} {p : List ChangeReq} (hd : s.findDoc f.doc = some doc)
    (h : pushGuard s f = .ok p) (hne : p ≠ []) :
    epochDiffers f.info f.doc doc.epoch = false ∧ f.pack.cp.serverSeq ≤ doc.serverSeq := by
  unfold pushGuard at h
  split at h
  · rw [hd] at h
    simp only [] at h
    split at h
    · injection h with h; exact absurd h.symm hne
    · next hep =>
      split at h
      · simp at h
      · next hle => exact ⟨by simpa using hep, by omega⟩
  · next hc =>
    injection h with h
    exfalso; apply hne; rw [← h]
    simp only [Bool.or_eq_true, Bool.not_eq_true', not_or, Bool.not_eq_false] at hc
    simpa using hc.1

theorem pullPackResp_error {s : Server} {f : Flight} {e : ErrKind} (h : pullPackResp s f = .error e) :
    epochDiffers f.info f.doc f.docInfo.epoch = true ∨ f.initialSeq < f.pack.cp.serverSeq := by
  unfold pullPackResp at h
  split at h
  · simp at h
  · next e' he' =>
    unfold preparePackCore at he'
    split at he'
    · next hsw => simp only [Bool.and_eq_true] at hsw; exact Or.inl hsw.2
    · split at he'
      · simp at he'
      · split at he'
        · next hep => exact Or.inl hep
        · split at he'
          · next hlt => exact Or.inr hlt
          · split at he' <;> simp at he'

theorem assignSeqs_nil_cp (gen : Nat) (head : Int) (cp : Checkpoint) : (assignSeqs gen head cp []).2.2 = cp := rfl

theorem storedLog_setDoc (s : Server) (d : DocId) (x : Doc) (d' : DocId) :
    storedLog (s.setDoc d x) d' = if d = d' then x.log else storedLog s d' := by
  simp only [storedLog, Server.findDoc, Server.setDoc, AL.get?_set]
  by_cases h : d = d' <;> simp [h]

theorem storedLog_of_docs_eq {s s' : Server} (h : s'.docs = s.docs) (d : DocId) : storedLog s' d = storedLog s d := by
  simp only [storedLog, Server.findDoc, h]

theorem updateVersionVector_storedLog {s s' : Server} {f : Flight} (h : updateVersionVector s f = .ok s') (d : DocId) :
    storedLog s' d = storedLog s d := by
  unfold updateVersionVector at h
  split at h
  · simp at h
  · split at h
    · injection h with h; subst h; rfl
    · next doc hd =>
      split at h <;> injection h with h <;> subst h <;> rw [storedLog_setDoc] <;> split
      · next e => subst e; rw [storedLog_findDoc hd]
      · rfl
      · next e => subst e; rw [storedLog_findDoc hd]
      · rfl

/-- no phase but the push changes any log -/
theorem phase_storedLog {pc : Pc} {s s' : Server} {f : Flight} {x : Except ErrKind Flight} (h : pc.phase s f = (s', x))
    (hpc : pc ≠ .push) (d : DocId) : storedLog s' d = storedLog s d := by
  cases pc <;> simp only [Pc.phase] at h
  · rw [(validateClientSeq_frame h).1]
  · rw [(stripPresence_frame h).1]
  · exact absurd rfl hpc
  · rw [preparePack_frame h]
  · rw [updateDocStatus_frame h]
  · unfold vvWrite at h
    split at h
    · injection h with h1 _; rw [← h1]
    · split at h
      · injection h with h1 _; rw [← h1]
      · next s1 hs => injection h with h1 _; subst h1; exact updateVersionVector_storedLog hs d
  · rw [vvRead_frame h]
  · unfold persistClientInfo at h
    split at h
    · injection h with h1 _; rw [← h1]
    · split at h
      · injection h with h1 _; rw [← h1]
      · injection h with h1 _; rw [← h1]; rfl
  · injection h with h1 _; rw [← h1]

theorem genOf_updateDocStatus {i i' : Client} {d : DocId} {st : ReqStatus} {cp : Checkpoint}
    (h : i.updateDocStatus d st cp = .ok i') : i'.genOf d = i.genOf d := by
  obtain ⟨cd, hcd, _, hpost⟩ := updateDocStatus_spec h
  cases st <;> simp only [StatusPost] at hpost
  · simp [Client.genOf, hpost, hcd, AL.get?_set_self]
  · simp [Client.genOf, hpost.2.2, hcd, AL.get?_set_self]
  · simp [Client.genOf, hpost.2.2, hcd, AL.get?_set_self]

end Yorkie.Conc
