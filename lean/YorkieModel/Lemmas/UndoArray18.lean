/-
Lemmas for C14, part 27: copy stability in general.  A value whose subtree is a tree of live elements
(every child exists, is not removed, hangs below the container it is reached through; arrays are
reproduced by `Array.DeepCopy`; nesting within the fuel) and in which every identity occurs once is
reproduced exactly by `capture` followed by `instantiate`.
-/
import YorkieModel.Lemmas.UndoArray9
import YorkieModel.Lemmas.UndoArray4
namespace Yorkie.Undo
open Yorkie Yorkie.Crdt

/-! ### association lists -/

theorem lookupSub_mem : ∀ {l : List (Ticket × Elem)} {t : Ticket} {e : Elem}, lookupSub l t = some e → (t, e) ∈ l
  | [], _, _, h => by simp [lookupSub] at h
  | (k, e0) :: r, t, e, h => by
    simp only [lookupSub] at h
    cases hr : lookupSub r t with
    | some e' =>
      simp only [hr, Option.some.injEq] at h
      subst h
      exact List.mem_cons_of_mem _ (lookupSub_mem hr)
    | none =>
      simp only [hr] at h
      by_cases hk : k = t
      · simp only [hk, if_true, Option.some.injEq] at h
        subst h; subst hk; simp
      · simp [hk] at h

theorem lookupSub_of_mem : ∀ {l : List (Ticket × Elem)} {t : Ticket} {e : Elem}, (l.map (·.1)).Nodup → (t, e) ∈ l →
    lookupSub l t = some e
  | [], _, _, _, h => by simp at h
  | (k, e0) :: r, t, e, hn, h => by
    simp only [List.map_cons, List.nodup_cons] at hn
    simp only [List.mem_cons, Prod.mk.injEq] at h
    simp only [lookupSub]
    rcases h with ⟨rfl, rfl⟩ | h
    · have : lookupSub r t = none := by
        cases hr : lookupSub r t with
        | none => rfl
        | some e' => exact absurd ((lookupSub_isSome r t).1 (by simp [hr])) hn.1
      simp [this]
    · rw [lookupSub_of_mem hn.2 h]

theorem flatMap_congr' {α β} {f g : α → List β} : ∀ {l : List α}, (∀ x ∈ l, f x = g x) → l.flatMap f = l.flatMap g
  | [], _ => rfl
  | a :: l, h => by
    simp only [List.flatMap_cons, h a (by simp)]
    rw [flatMap_congr' (fun x hx => h x (by simp [hx]))]

/-! ### arrays that `Array.DeepCopy` reproduces -/

theorem lastKey_concat (acc : List PosNode) (n : PosNode) : lastKey (acc ++ [n]) = n.pos := by
  simp [lastKey]

theorem arrCopyStep_plain {moved : Ticket → Option Ticket} {acc : List PosNode} {n : PosNode}
    (hpw : (acc ++ [n]).Pairwise (fun a b => a.pos ≠ b.pos)) (hnh : ∀ m ∈ acc, m.pos ≠ headId)
    (hpe : ∀ c, n.elem = some c → n.pos = c) : arrCopyStep moved acc n = acc ++ [n] := by
  unfold arrCopyStep
  cases hn : n.elem with
  | none => rfl
  | some c =>
    simp only []
    cases moved c with
    | some _ => rfl
    | none =>
      simp only []
      have hnc : (⟨c, some c⟩ : PosNode) = n := by
        have := hpe c hn
        cases n; simp_all
      rw [hnc]
      rcases List.eq_nil_or_concat acc with rfl | ⟨A, m, rfl⟩
      · simp [lastKey, insertAfter, insertSkip]
      · simp only [List.concat_eq_append] at hpw hnh ⊢
        rw [lastKey_concat]
        have hmh : m.pos ≠ headId := hnh m (by simp)
        have hA : ∀ a ∈ A, (fun y : PosNode => decide (y.pos = m.pos)) a = false := by
          intro a ha
          simp only [decide_eq_false_iff_not]
          rw [List.pairwise_append] at hpw
          have h1 := hpw.1
          rw [List.pairwise_append] at h1
          exact h1.2.2 a ha m (by simp)
        have hany : (A ++ [m]).any (fun y => y.pos = m.pos) = true := by simp
        simp only [insertAfter, hmh, if_false, insertAfterNodes, hany, if_true]
        rw [insertAfterWhere_split _ _ _ _ _ hA (by simp)]
        simp [insertSkip]

theorem arrCopy_foldl {moved : Ticket → Option Ticket} : ∀ (rest acc : List PosNode),
    (acc ++ rest).Pairwise (fun a b => a.pos ≠ b.pos) → (∀ m ∈ acc ++ rest, m.pos ≠ headId) →
    (∀ n ∈ rest, ∀ c, n.elem = some c → n.pos = c) → rest.foldl (arrCopyStep moved) acc = acc ++ rest
  | [], acc, _, _, _ => by simp
  | n :: rest, acc, hpw, hnh, hpe => by
    have hstep : arrCopyStep moved acc n = acc ++ [n] := by
      apply arrCopyStep_plain
      · have : acc ++ n :: rest = (acc ++ [n]) ++ rest := by simp
        rw [this, List.pairwise_append] at hpw
        exact hpw.1
      · intro m hm; exact hnh m (by simp [hm])
      · exact hpe n (by simp)
    rw [List.foldl_cons, hstep]
    have : acc ++ n :: rest = (acc ++ [n]) ++ rest := by simp
    rw [this] at hpw hnh ⊢
    exact arrCopy_foldl rest (acc ++ [n]) hpw hnh (fun x hx => hpe x (by simp [hx]))

/-- a plain array (no moved elements) is reproduced by `Array.DeepCopy` -/
theorem arrCopy_plain {nodes : List PosNode} {L : Int} (pa : PlainArr nodes L) (moved : Ticket → Option Ticket) :
    arrCopy nodes moved = nodes := by
  unfold arrCopy
  have := arrCopy_foldl (moved := moved) nodes [] (by simpa using pa.pw) (by simpa using pa.nh)
    (fun n hn c hc => pa.pe n hn c hc)
  simpa using this

/-! ### trees of live elements -/

/-- below `self` (body `b`) there is a tree of live elements of depth at most the fuel: every child
    exists in `look`, is not removed, hangs below the container it is reached through, and every array
    is reproduced by `Array.DeepCopy` -/
def TreeBelow (look : Ticket → Option Elem) : Nat → Ticket → Body → Prop
  | 0, _, b => leafBody b = true
  | f + 1, self, .obj keys member => ∀ k ∈ keys, ∀ c, memberChild member k = some c →
      ∃ ce, look c = some ce ∧ ce.removed = false ∧ ce.parent = some self ∧ TreeBelow look f c ce.body
  | f + 1, self, .arr nodes moved => arrCopy nodes moved = nodes ∧ ∀ n ∈ nodes, ∀ c, n.elem = some c →
      ∃ ce, look c = some ce ∧ ce.removed = false ∧ ce.parent = some self ∧ TreeBelow look f c ce.body
  | _ + 1, _, _ => True

theorem copyChild_exact {look : Ticket → Option Elem} {rec : Ticket → Body → Body × List (Ticket × Elem)}
    {self c : Ticket} {ce : Elem} (hl : look c = some ce) (hr : ce.removed = false) (hp : ce.parent = some self)
    (h1 : (rec c ce.body).1 = ce.body) : copyChild look rec self (some c) = (c, ce) :: (rec c ce.body).2 := by
  have hce : ({ parent := some self, removed := false, body := ce.body } : Elem) = ce := by
    cases ce; simp_all
  unfold copyChild
  simp only [hl, hr, Bool.false_eq_true, if_false, h1, hce]

/-- the deep copy of a tree of live elements: the body is unchanged and every entry is an entry of `look` -/
theorem copyBody_tree {look : Ticket → Option Elem} : ∀ (f : Nat) (self : Ticket) (b : Body),
    TreeBelow look f self b →
    (copyBody look f self b).1 = b ∧ ∀ x ∈ (copyBody look f self b).2, look x.1 = some x.2
  | 0, _, _, _ => ⟨rfl, fun _ hx => by simp [copyBody] at hx⟩
  | f + 1, self, b, ht => by
    cases b with
    | prim r => exact ⟨rfl, fun _ hx => by simp [copyBody] at hx⟩
    | «opaque» r => exact ⟨rfl, fun _ hx => by simp [copyBody] at hx⟩
    | counter l v => exact ⟨rfl, fun _ hx => by simp [copyBody] at hx⟩
    | obj keys member =>
      refine ⟨rfl, fun x hx => ?_⟩
      simp only [copyBody, List.mem_flatMap] at hx
      obtain ⟨k, hk, hx⟩ := hx
      cases hm : memberChild member k with
      | none => simp [hm, copyChild] at hx
      | some c =>
        obtain ⟨ce, hl, hr, hp, htc⟩ := ht k hk c hm
        have ih := copyBody_tree f c ce.body htc
        rw [hm, copyChild_exact hl hr hp ih.1] at hx
        simp only [List.mem_cons] at hx
        rcases hx with rfl | hx
        · exact hl
        · exact ih.2 x hx
    | arr nodes moved =>
      refine ⟨by simp only [copyBody, ht.1], fun x hx => ?_⟩
      simp only [copyBody, List.mem_flatMap] at hx
      obtain ⟨n, hn, hx⟩ := hx
      cases hm : n.elem with
      | none => simp [hm, copyChild] at hx
      | some c =>
        obtain ⟨ce, hl, hr, hp, htc⟩ := ht.2 n hn c hm
        have ih := copyBody_tree f c ce.body htc
        rw [hm, copyChild_exact hl hr hp ih.1] at hx
        simp only [List.mem_cons] at hx
        rcases hx with rfl | hx
        · exact hl
        · exact ih.2 x hx

/-- copying again from any duplicate-free list that contains the first copy gives the first copy -/
theorem copyBody_relook {look : Ticket → Option Elem} {M : List (Ticket × Elem)} (hM : (M.map (·.1)).Nodup) :
    ∀ (f : Nat) (self : Ticket) (b : Body), TreeBelow look f self b →
    (∀ x ∈ (copyBody look f self b).2, x ∈ M) → copyBody (lookupSub M) f self b = copyBody look f self b
  | 0, _, _, _, _ => rfl
  | f + 1, self, b, ht, hsub => by
    have child : ∀ (c : Ticket) (ce : Elem), look c = some ce → ce.removed = false → ce.parent = some self →
        TreeBelow look f c ce.body →
        (∀ x ∈ copyChild look (copyBody look f) self (some c), x ∈ M) →
        copyChild (lookupSub M) (copyBody (lookupSub M) f) self (some c) =
          copyChild look (copyBody look f) self (some c) := by
      intro c ce hl hr hp htc hin
      have ih1 := copyBody_tree f c ce.body htc
      rw [copyChild_exact hl hr hp ih1.1] at hin ⊢
      have ih := copyBody_relook hM f c ce.body htc (fun x hx => hin x (List.mem_cons_of_mem _ hx))
      have hl2 : lookupSub M c = some ce := lookupSub_of_mem hM (hin _ (by simp))
      rw [copyChild_exact hl2 hr hp (by rw [ih]; exact ih1.1), ih]
    cases b with
    | prim r => rfl
    | «opaque» r => rfl
    | counter l v => rfl
    | obj keys member =>
      simp only [copyBody, Prod.mk.injEq, true_and]
      apply flatMap_congr'
      intro k hk
      cases hm : memberChild member k with
      | none => rfl
      | some c =>
        obtain ⟨ce, hl, hr, hp, htc⟩ := ht k hk c hm
        apply child c ce hl hr hp htc
        intro x hx
        apply hsub
        simp only [copyBody, List.mem_flatMap]
        exact ⟨k, hk, by rw [hm]; exact hx⟩
    | arr nodes moved =>
      simp only [copyBody, Prod.mk.injEq, true_and]
      apply flatMap_congr'
      intro n hn
      cases hm : n.elem with
      | none => rfl
      | some c =>
        obtain ⟨ce, hl, hr, hp, htc⟩ := ht.2 n hn c hm
        apply child c ce hl hr hp htc
        intro x hx
        apply hsub
        simp only [copyBody, List.mem_flatMap]
        exact ⟨n, hn, by rw [hm]; exact hx⟩

/-! ### copy stability of trees -/

/-- what `capture` returns for the element `u` with entry `ue` -/
def captured (d : Doc) (u : Ticket) (ue : Elem) : UVal :=
  { id := u, removed := ue.removed, body := (copyBody d copyFuel u ue.body).1,
    sub := (copyBody d copyFuel u ue.body).2 }

/-- a live member `u` of `p` whose subtree is a tree of live elements in which every identity occurs
    once (and which contains neither `u` nor `p`) is copy-stable: `instantiate (capture …)` writes
    exactly the entries that are there -/
theorem copyStable_of_tree {d : Doc} {p u : Ticket} {ue : Elem} (hu : d u = some ue)
    (hur : ue.removed = false) (hup : ue.parent = some p) (tree : TreeBelow d copyFuel u ue.body)
    (hnd : ((copyBody d copyFuel u ue.body).2.map (·.1)).Nodup)
    (hpu : p ≠ u) (hpS : p ∉ (copyBody d copyFuel u ue.body).2.map (·.1))
    (horph : orphaned (kill d (some u)) noTw orphanFuel p = false) :
    CopyStable d p u (captured d u ue) := by
  obtain ⟨hb1, hent⟩ := copyBody_tree copyFuel u ue.body tree
  have hcap : capture d u = some (captured d u ue) := by simp [capture, hu, captured]
  have hc2 : copy2 (captured d u ue) = copyBody d copyFuel u ue.body := by
    unfold copy2 captured
    simp only [hb1]
    exact copyBody_relook hnd copyFuel u ue.body tree (fun _ hx => hx)
  have hid : (captured d u ue).id = u := rfl
  have hI : instantiate d p (captured d u ue) false = d := by
    funext t
    rw [instantiate_apply, hc2, hid]
    by_cases h1 : t = u
    · subst h1
      simp only [if_true, hb1, hu, Option.some.injEq]
      cases ue; simp_all
    · simp only [h1, if_false]
      cases hl : lookupSub (copyBody d copyFuel u ue.body).2 t with
      | none => rfl
      | some e => simp only []; exact (hent _ (lookupSub_mem hl)).symm
  refine ⟨hcap, ?_, ?_, ?_, horph⟩
  · simp only [written, hc2, hid, Bool.or_eq_false_iff, beq_eq_false_iff_ne, ne_eq]
    refine ⟨hpu, ?_⟩
    cases hl : lookupSub (copyBody d copyFuel u ue.body).2 p with
    | none => rfl
    | some e => exact absurd ((lookupSub_isSome _ p).1 (by simp [hl])) hpS
  · intro t ht
    simp only [written, hc2, hid, Bool.or_eq_true, beq_iff_eq] at ht
    rcases ht with rfl | ht
    · simp [hu]
    · cases hl : lookupSub (copyBody d copyFuel u ue.body).2 t with
      | none => simp [hl] at ht
      | some e => rw [hent _ (lookupSub_mem hl)]; rfl
  · intro t _
    rw [hI]
    exact ⟨rfl, rfl⟩

/-! ### a decidable check of `TreeBelow` (for concrete heaps) -/

def treeChildB (look : Ticket → Option Elem) (rec : Ticket → Body → Bool) (self : Ticket) (o : Option Ticket) : Bool :=
  match o with
  | none => true
  | some c =>
    match look c with
    | some ce => !ce.removed && ce.parent == some self && rec c ce.body
    | none => false

def treeBelowB (look : Ticket → Option Elem) : Nat → Ticket → Body → Bool
  | 0, _, b => leafBody b
  | f + 1, self, .obj keys member =>
    keys.all (fun k => treeChildB look (treeBelowB look f) self (memberChild member k))
  | f + 1, self, .arr nodes moved =>
    (arrCopy nodes moved == nodes) && nodes.all (fun n => treeChildB look (treeBelowB look f) self n.elem)
  | _ + 1, _, _ => true

theorem treeBelowB_sound {look : Ticket → Option Elem} : ∀ (f : Nat) (self : Ticket) (b : Body),
    treeBelowB look f self b = true → TreeBelow look f self b
  | 0, _, _, h => h
  | f + 1, self, b, h => by
    have child : ∀ (o : Option Ticket) (c : Ticket), treeChildB look (treeBelowB look f) self o = true → o = some c →
        ∃ ce, look c = some ce ∧ ce.removed = false ∧ ce.parent = some self ∧ TreeBelow look f c ce.body := by
      intro o c ho hc
      subst hc
      unfold treeChildB at ho
      cases hl : look c with
      | none => simp [hl] at ho
      | some ce =>
        simp only [hl, Bool.and_eq_true, Bool.not_eq_true', beq_iff_eq] at ho
        exact ⟨ce, rfl, ho.1.1, ho.1.2, treeBelowB_sound f c ce.body ho.2⟩
    cases b with
    | prim r => trivial
    | «opaque» r => trivial
    | counter l v => trivial
    | obj keys member =>
      simp only [treeBelowB, List.all_eq_true] at h
      intro k hk c hc
      exact child _ c (h k hk) hc
    | arr nodes moved =>
      simp only [treeBelowB, Bool.and_eq_true, beq_iff_eq, List.all_eq_true] at h
      exact ⟨h.1, fun n hn c hc => child _ c (h.2 n hn) hc⟩

/-! ### undo of `Set` over / `Remove` of a member whose subtree is a tree of live elements -/

theorem member_facts {h : Hist} (fr : Fresh h) {p u : Ticket} {k : String} {ue : Elem}
    (hp : isObj h.doc p = true) (hk : winner h.doc p k = some u) (hu : h.doc u = some ue) (hpu : p ≠ u)
    (horph : orphaned (kill h.doc (some u)) noTw orphanFuel p = false) :
    ue.removed = false ∧ ue.parent = some p := by
  obtain ⟨H, w⟩ := fr.wf
  obtain ⟨pe, keys, member, hd, hb, hw⟩ := isObj_winner hp k
  rw [hw] at hk
  obtain ⟨hlu, m, hm, hmc⟩ := liveMember_some hk
  obtain ⟨ue', hue', hur⟩ := live_elem hlu
  rw [hu] at hue'; injection hue' with hue'; subst hue'
  have hpr : pe.removed = false := by
    have hk0 : kill h.doc (some u) p = some pe := by
      have : ¬ u = p := fun hx => hpu hx.symm
      simp [kill, this, hd]
    exact (orphaned_root_removed (n := 63) horph hk0).1
  have := (w.objMem _ _ _ _ _ _ hd hpr hb hm).2.2
  rw [hmc] at this
  exact ⟨hur, (w.par _ _ hu).trans this⟩

theorem undo_do_set_overwrite_container_tree {h : Hist} (fr : Fresh h) {p u : Ticket} {k : String} {v : Val}
    {ue : Elem} (hp : isObj h.doc p = true) (hv : leafBody v.body = true) (hk : winner h.doc p k = some u)
    (hu : h.doc u = some ue) (tree : TreeBelow h.doc copyFuel u ue.body)
    (hnd : ((copyBody h.doc copyFuel u ue.body).2.map (·.1)).Nodup)
    (hpS : p ∉ u :: (copyBody h.doc copyFuel u ue.body).2.map (·.1))
    (horph : orphaned (kill h.doc (some u)) noTw orphanFuel p = false) (fuel : Nat) :
    marshal (undo (doChange h [.set p k (UVal.ofVal v h.next) h.next])).doc fuel rootId =
      marshal h.doc fuel rootId := by
  simp only [List.mem_cons, not_or] at hpS
  obtain ⟨hur, hup⟩ := member_facts fr hp hk hu hpS.1 horph
  exact undo_do_set_overwrite_container_core fr hp hv hk
    (copyStable_of_tree hu hur hup tree hnd hpS.1 hpS.2 horph) fuel

theorem undo_do_delete_container_tree {h : Hist} (fr : Fresh h) {p u : Ticket} {k : String} {ue : Elem}
    (hp : isObj h.doc p = true) (hk : winner h.doc p k = some u)
    (hu : h.doc u = some ue) (tree : TreeBelow h.doc copyFuel u ue.body)
    (hnd : ((copyBody h.doc copyFuel u ue.body).2.map (·.1)).Nodup)
    (hpS : p ∉ u :: (copyBody h.doc copyFuel u ue.body).2.map (·.1))
    (horph : orphaned (kill h.doc (some u)) noTw orphanFuel p = false) (fuel : Nat) :
    marshal (undo (doChange h [.remove p u h.next])).doc fuel rootId = marshal h.doc fuel rootId := by
  simp only [List.mem_cons, not_or] at hpS
  obtain ⟨hur, hup⟩ := member_facts fr hp hk hu hpS.1 horph
  exact undo_do_delete_container_core fr hp hk
    (copyStable_of_tree hu hur hup tree hnd hpS.1 hpS.2 horph) fuel

end Yorkie.Undo
