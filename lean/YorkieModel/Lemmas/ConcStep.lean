/-
Helper lemmas for Model/Conc.lean, part 3: what each phase of a request establishes for the
request itself (`PushedOk` by the push, `PulledOk` by the pull – the two places where the
concurrent argument differs from the sequential one: the pull reads the store LATER than the push
wrote it, and is exact all the same because its range ends at the head the push fixed).
-/
import YorkieModel.Lemmas.ConcInv
namespace Yorkie.Conc
open Yorkie Yorkie.Server

/-- in a log `pre ++ P ++ post` with server sequences 1..N the rows numbered `|pre|+1 .. |pre|+|P|`
are exactly `P` -/
theorem range_pushed {pre P post : List Row} (h : seqFrom 0 (pre ++ P ++ post)) :
    (pre ++ P ++ post).filter (inRange ((pre.length : Int) + 1) (pre.length + P.length)) = P := by
  rw [seqFrom_append, seqFrom_append] at h
  obtain ⟨⟨h1, h2⟩, h3⟩ := h
  rw [List.filter_append, List.filter_append]
  have e1 : pre.filter (inRange ((pre.length : Int) + 1) (pre.length + P.length)) = [] := by
    rw [List.filter_eq_nil_iff]; intro x hx
    have := (seqFrom_mem_bounds _ _ h1 x hx).2
    simp only [inRange, Bool.and_eq_true, decide_eq_true_eq]; omega
  have e2 : P.filter (inRange ((pre.length : Int) + 1) (pre.length + P.length)) = P := by
    rw [List.filter_eq_self]; intro x hx
    have := seqFrom_mem_bounds _ _ h2 x hx
    simp only [inRange, Bool.and_eq_true, decide_eq_true_eq]; omega
  have e3 : post.filter (inRange ((pre.length : Int) + 1) (pre.length + P.length)) = [] := by
    rw [List.filter_eq_nil_iff]; intro x hx
    have := (seqFrom_mem_bounds _ _ h3 x hx).1
    simp only [List.length_append] at this
    simp only [inRange, Bool.and_eq_true, decide_eq_true_eq]; push_cast at this; omega
  rw [e1, e2, e3]; simp

/-- The pull phase, run at ANY later time, prepares a response that keeps the client's view exact:
its range ends at `initialSeq`, the head the request's own push observed, so rows appended by other
requests since are not read, and the rows between `initialSeq` and the response checkpoint are the
request's own. -/
theorem pulledOk_of_pull {s : Server} {v : View} {f : Flight} {r0 : Resp} {doc : Doc}
    (hd : s.findDoc f.doc = some doc) (hgap : GapFree doc)
    (hview : doc.disablePresence = false → ViewOk f.client v doc.log)
    (hp : PushedOk s v f) (hcp : f.pack.cp = v.cp)
    (hpull : pullPackResp s f = .ok r0) (hsnap : r0.snapshot = false) :
    PulledOk s v f.client f.doc r0 := by
  refine ⟨hsnap, by rw [pullPackResp_cp_clientSeq hpull]; exact hp.ackP, ?_⟩
  intro doc' hd' hdp
  rw [hd] at hd'; injection hd' with hd'; subst hd'
  have hv := hview hdp
  obtain ⟨h1, h2, h3, ⟨pre, post, hl, hpre⟩, h5⟩ := hp.log doc hd hdp
  rcases pullPackResp_ok hpull with ⟨e1, e2, _⟩ | ⟨hle, e1, e2, _⟩ | hs
  · -- nothing pulled (push-only, or the epoch escape of detach/remove)
    have hs : r0.cp.serverSeq = v.cp.serverSeq := by rw [e1, ← hcp]
    refine ⟨⟨?_, ?_, ?_⟩, by rw [hs]; exact Int.le_refl _⟩
    · show 0 ≤ r0.cp.serverSeq; rw [hs]; exact hv.nonneg
    · show r0.cp.serverSeq ≤ _; rw [hs]; exact hv.le
    · show (v.applied ++ r0.changes).filter _ = (doc.log.filter (ssLe r0.cp.serverSeq)).filter _
      rw [e2, List.append_nil, hs]; exact hv.exact
  · -- the range  cp+1 .. initialSeq
    have hcps : r0.cp.serverSeq = f.initialSeq + f.pushed.length := by
      rw [e1]; simp only [pullChangeInfos, nextServerSeq_serverSeq]; exact h2
    have hq : seqFrom 0 doc.log := hgap.1
    have hnn := hv.nonneg
    refine ⟨⟨?_, ?_, ?_⟩, by rw [hcps]; omega⟩
    · show 0 ≤ r0.cp.serverSeq; rw [hcps]; omega
    · show r0.cp.serverSeq ≤ _
      rw [hcps, hl]; simp only [List.length_append]; push_cast; omega
    · show (v.applied ++ r0.changes).filter _ = (doc.log.filter (ssLe r0.cp.serverSeq)).filter _
      rw [e2, hcps]
      simp only [pullChangeInfos]
      rw [h3, List.filter_append, pullFilter_others, findBetween_eq, storedLog_findDoc hd, hv.exact, hcp,
        ← List.filter_append, filter_split 0 _ _ doc.log hq h1,
        ← filter_split 0 f.initialSeq (f.initialSeq + f.pushed.length) doc.log hq (by omega)]
      have hr : doc.log.filter (inRange (f.initialSeq + 1) (f.initialSeq + f.pushed.length)) = f.pushed := by
        rw [hl, ← hpre]; exact range_pushed (by rw [← hl]; exact hq)
      rw [hr, List.filter_append]
      have : f.pushed.filter (notBy f.client) = [] := by
        rw [List.filter_eq_nil_iff]; intro x hx; simp [notBy, h5 x hx]
      rw [this, List.append_nil]
  · rw [hsnap] at hs; simp at hs

/-- The push phase fixes the prefix. -/
theorem pushedOk_of_push {s : Server} {v : View} {f : Flight} {doc : Doc} {p : List ChangeReq}
    (hd : s.findDoc f.doc = some doc) (hgap : GapFree doc)
    (hview : doc.disablePresence = false → ViewOk f.client v doc.log)
    (hack : v.cp.clientSeq ≤ (f.info.checkpoint f.doc).clientSeq)
    (hown : ∀ x ∈ f.pack.changes, x.actor = f.client)
    (hguard : pushGuard s f = .ok p) :
    PushedOk (s.setDoc f.doc (pushedDoc doc f p)) v (pushedFlight doc f p) := by
  have sp := assignSeqs_spec (f.info.genOf f.doc) doc.serverSeq (f.info.checkpoint f.doc) p
  simp only [] at sp
  obtain ⟨q1, q2, q3, q4, q5, q6⟩ := sp
  refine ⟨?_, ?_⟩
  · exact Nat.le_trans hack (assignSeqs_cp_ge _ _ _ _)
  · intro doc' hd' hdp
    have hfd : (s.setDoc f.doc (pushedDoc doc f p)).findDoc f.doc = some (pushedDoc doc f p) := by
      simp [Server.findDoc, Server.setDoc, AL.get?_set_self]
    have hd'' : (s.setDoc f.doc (pushedDoc doc f p)).findDoc f.doc = some doc' := hd'
    rw [hfd] at hd''; injection hd'' with hd''; subst hd''
    have hdp0 : doc.disablePresence = false := hdp
    have hv := hview hdp0
    have hinit := pushedFlight_initialSeq doc f p
    refine ⟨?_, ?_, hdp, ⟨doc.log, [], ?_, ?_⟩, ?_⟩
    · rw [hinit, hgap.2]; exact hv.le
    · show (pushedDoc doc f p).serverSeq = _
      rw [hinit, pushedDoc_serverSeq]
      show _ = doc.serverSeq + ((assignSeqs (f.info.genOf f.doc) doc.serverSeq (f.info.checkpoint f.doc) p).1.length : Int)
      rw [q3]
    · simp [pushedDoc, pushedFlight]
    · rw [hinit, hgap.2]
    · intro x hx
      have : x.actor ∈ ((assignSeqs (f.info.genOf f.doc) doc.serverSeq (f.info.checkpoint f.doc) p).1).map (·.actor) :=
        List.mem_map_of_mem (f := (·.actor)) hx
      rw [q5] at this
      obtain ⟨y, hy, hya⟩ := List.mem_map.mp this
      rw [← hya]; exact hown y ((pushGuard_sub hguard y hy).1)

/-! ### the store side of one phase -/

theorem vvWrite_ok {s s' : Server} {f f' : Flight} (h : vvWrite s f = (s', .ok f')) :
    f' = f ∧ ((f.disableGC = true ∧ s' = s) ∨ (f.disableGC = false ∧ updateVersionVector s f = .ok s')) := by
  unfold vvWrite at h
  split at h
  · next hg => injection h with h1 h2; injection h2 with h2; exact ⟨h2.symm, Or.inl ⟨hg, h1.symm⟩⟩
  · next hg =>
    split at h
    · injection h with _ h2; simp at h2
    · next s1 hs =>
      injection h with h1 h2; injection h2 with h2; subst h1
      exact ⟨h2.symm, Or.inr ⟨by simpa using hg, hs⟩⟩

theorem vvRead_ok {s s' : Server} {f f' : Flight} (h : vvRead s f = (s', .ok f')) :
    s' = s ∧ f'.client = f.client ∧ f'.doc = f.doc ∧ f'.info = f.info ∧ f'.pack = f.pack ∧ f'.status = f.status ∧
    f'.disablePresence = f.disablePresence ∧
    f'.resp.cp = f.resp.cp ∧ f'.resp.changes = f.resp.changes ∧ f'.resp.snapshot = f.resp.snapshot := by
  unfold vvRead at h
  split at h
  · injection h with h1 h2; injection h2 with h2; subst h2; exact ⟨h1.symm, rfl, rfl, rfl, rfl, rfl, rfl, rfl, rfl, rfl⟩
  · injection h with h1 h2; injection h2 with h2; subst h2
    refine ⟨h1.symm, ?_⟩
    split <;> exact ⟨rfl, rfl, rfl, rfl, rfl, rfl, rfl, rfl, rfl⟩

/-- only a successful `persist` writes the client table -/
theorem phase_clients {pc : Pc} {s s' : Server} {f : Flight} {x : Except ErrKind Flight} (h : pc.phase s f = (s', x))
    (hx : pc ≠ .persist ∨ ∃ e, x = .error e) : s'.clients = s.clients := by
  cases pc <;> simp only [Pc.phase] at h
  · rw [(validateClientSeq_frame h).1]
  · rw [(stripPresence_frame h).1]
  · cases x with
    | error e => rw [pushPack_error h]
    | ok f' => obtain ⟨doc, p, _, _, e1, _⟩ := pushPack_ok h; rw [e1]; rfl
  · rw [preparePack_frame h]
  · rw [updateDocStatus_frame h]
  · cases x with
    | error e =>
      unfold vvWrite at h
      split at h
      · injection h with _ h2; simp at h2
      · split at h
        · injection h with h1 _; rw [← h1]
        · injection h with _ h2; simp at h2
    | ok f' =>
      rcases (vvWrite_ok h).2 with ⟨_, e1⟩ | ⟨_, e1⟩
      · rw [e1]
      · exact updateVersionVector_clients e1
  · rw [vvRead_frame h]
  · rcases hx with hx | ⟨e, hx⟩
    · exact absurd rfl hx
    · subst hx; rw [(persistClientInfo_error h).1]
  · injection h with h1 _; rw [← h1]

theorem dinv_same_clients {s s' : Server} {g : Ghost} (h : DInv s g) (ext : DocsExt s s') (hc : s'.clients = s.clients) :
    DInv s' g :=
  dinv_keep h ext (fun c d cd' he ho => ⟨cd', by rw [← entryOf_of_clients_eq hc c d]; exact he, ho, Nat.le_refl _⟩)

end Yorkie.Conc
